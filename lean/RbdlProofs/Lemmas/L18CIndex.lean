import RbdlProofs.Lemmas.L18CWF
/-
  C18 at curve level, part 3: order reasoning on the section look-up `calcIndex` and on the region
  test of `calcValue` / `calcDerivative`.
-/
set_option linter.unusedSectionVars false
namespace Rbdl.L18C
open Lean.Grind Std Rbdl.Geom Rbdl.L18

section curve
variable {α : Type} [Field α] [Inhabited α] [LE α] [LT α] [LawfulOrderLT α] [IsLinearOrder α]
  [OrderedRing α] [DecidableLT α] [DecidableLE α] [DecidableEq α]

/-- the look-up only depends on the comparisons of `x` with the section end points -/
theorem calcIndex_congr (c c' : Curve α) (x x' : α) (hn : c'.nseg = c.nseg)
    (h : ∀ i, i < c.nseg → (x' ≥ (c'.segX i).p0 ↔ x ≥ (c.segX i).p0) ∧
      (x' < (c'.segX i).p5 ↔ x < (c.segX i).p5) ∧ (x' = (c'.segX i).p5 ↔ x = (c.segX i).p5)) :
    c'.calcIndex x' = c.calcIndex x := by
  simp only [Curve.calcIndex, hn]
  rw [find?_congr (List.range c.nseg)
        (fun i => decide (x' ≥ (c'.segX i).p0 ∧ x' < (c'.segX i).p5))
        (fun i => decide (x ≥ (c.segX i).p0 ∧ x < (c.segX i).p5))]
  · by_cases hp : c.nseg > 0
    · have := (h (c.nseg - 1) (by omega)).2.2
      simp only [this]
    · simp only [hp, false_and]
  · intro i hi
    have hi' : i < c.nseg := by simpa using hi
    obtain ⟨h1, h2, _⟩ := h i hi'
    simp only [h1, h2]

theorem calcIndex_lt (c : Curve α) (x : α) (i : Nat) (h : c.calcIndex x = some i) : i < c.nseg := by
  simp only [Curve.calcIndex] at h
  split at h
  · next j hj =>
    have := List.mem_of_find?_eq_some hj
    have hj' : j < c.nseg := by simpa using this
    cases h; exact hj'
  · split at h
    · next hc => cases h; omega
    · cases h

theorem region_congr (c c' : Curve α) (x x' : α)
    (h0 : x' ≥ c'.x0 ↔ x ≥ c.x0) (h1 : x' ≤ c'.x1 ↔ x ≤ c.x1) (h2 : x' < c'.x0 ↔ x < c.x0) :
    c'.region x' = c.region x := by
  simp only [Curve.region, h0, h1, h2]

/-- mirrored region test (negative x factor); needs `x0 ≤ x1` -/
theorem region_mirror (c c' : Curve α) (x x' : α) (hc : c.x0 ≤ c.x1)
    (h0 : x' ≥ c'.x0 ↔ x ≤ c.x1) (h1 : x' ≤ c'.x1 ↔ x ≥ c.x0) (h2 : x' < c'.x0 ↔ x > c.x1) :
    c'.region x' = match c.region x with | .mid => .mid | .left => .right | .right => .left := by
  simp only [Curve.region, h0, h1, h2]
  by_cases a : x ≥ c.x0 <;> by_cases b : x ≤ c.x1 <;> simp [a, b] <;> grind

/-! ### the knots of a well-formed curve are ordered -/
theorem p0_lt_p5 (c : Curve α) (h : c.WF) (i : Nat) (hi : i < c.nseg) :
    (c.segX i).p0 < (c.segX i).p5 := by
  obtain ⟨a0, a1, a2, a3, a4⟩ := h.incr i hi; grind

theorem p5_le_p0 (c : Curve α) (h : c.WF) (i j : Nat) (hij : i < j) (hj : j < c.nseg) :
    (c.segX i).p5 ≤ (c.segX j).p0 := by
  induction j with
  | zero => omega
  | succ j ih =>
    by_cases e : i = j
    · subst e; have := h.joinX i hj; grind
    · have h1 := ih (by omega) (by omega)
      have h2 := p0_lt_p5 c h j (by omega)
      have h3 := h.joinX j hj
      grind

theorem x0_lt_x1 (c : Curve α) (h : c.WF) : c.x0 < c.x1 := by
  rw [h.hx0, h.hx1]
  have hp := h.pos
  by_cases e : c.nseg - 1 = 0
  · rw [e]; exact p0_lt_p5 c h 0 hp
  · have h1 := p0_lt_p5 c h 0 hp
    have h2 := p5_le_p0 c h 0 (c.nseg - 1) (by omega) (by omega)
    have h3 := p0_lt_p5 c h (c.nseg - 1) (by omega)
    grind

/-- characterisation of the look-up on a well-formed curve -/
theorem calcIndex_iff (c : Curve α) (h : c.WF) (x : α) (i : Nat) :
    c.calcIndex x = some i ↔
      i < c.nseg ∧ (c.segX i).p0 ≤ x ∧ (x < (c.segX i).p5 ∨ (i = c.nseg - 1 ∧ x = (c.segX i).p5)) := by
  have hp := h.pos
  constructor
  · intro hc
    have hi := calcIndex_lt c x i hc
    refine ⟨hi, ?_⟩
    simp only [Curve.calcIndex] at hc
    split at hc
    · next j hj =>
      cases hc
      have := (List.find?_range_eq_some.mp hj).1
      simp only [decide_eq_true_eq] at this
      exact ⟨this.1, Or.inl this.2⟩
    · split at hc
      · next hc2 =>
        cases hc
        have := p0_lt_p5 c h (c.nseg - 1) (by omega)
        exact ⟨by grind, Or.inr ⟨rfl, hc2.2⟩⟩
      · cases hc
  · rintro ⟨hi, h0, h5⟩
    rcases h5 with h5 | ⟨e, h5⟩
    · have : (List.range c.nseg).find? (fun i => decide (x ≥ (c.segX i).p0 ∧ x < (c.segX i).p5)) = some i := by
        rw [List.find?_range_eq_some]
        refine ⟨by simp only [decide_eq_true_eq]; exact ⟨h0, h5⟩, by simpa using hi, ?_⟩
        intro j hj
        have := p5_le_p0 c h j i hj hi
        have hn : ¬ x < (c.segX j).p5 := by grind
        simp [hn]
      simp only [Curve.calcIndex, this]
    · have : (List.range c.nseg).find? (fun i => decide (x ≥ (c.segX i).p0 ∧ x < (c.segX i).p5)) = none := by
        rw [List.find?_eq_none]
        intro j hj
        have hj' : j < c.nseg := by simpa using hj
        have hn : ¬ x < (c.segX j).p5 := by
          by_cases e2 : j = c.nseg - 1
          · subst e2; rw [← e] ; grind
          · have a := p5_le_p0 c h j i (by omega) hi
            have b := p0_lt_p5 c h i hi
            grind
        simp [hn]
      simp only [Curve.calcIndex, this]
      rw [if_pos ⟨hp, by rw [← e]; exact h5⟩, e]

/-- inside `[x0, x1]` the look-up of a well-formed curve succeeds (no throw) -/
theorem exists_section (c : Curve α) (h : c.WF) (x : α) (k : Nat) (hk : k < c.nseg)
    (h0 : (c.segX 0).p0 ≤ x) (h1 : x ≤ (c.segX k).p5) :
    ∃ i, i ≤ k ∧ (c.segX i).p0 ≤ x ∧ x ≤ (c.segX i).p5 ∧ (x < (c.segX i).p5 ∨ i = k) := by
  induction k with
  | zero => exact ⟨0, Nat.le_refl _, h0, h1, Or.inr rfl⟩
  | succ k ih =>
    by_cases hx : x < (c.segX (k+1)).p0
    · have hj := h.joinX k hk
      obtain ⟨i, a, b, c1, d⟩ := ih (by omega) (by grind)
      refine ⟨i, by omega, b, c1, Or.inl ?_⟩
      rcases d with d | d
      · exact d
      · subst d; grind
    · exact ⟨k+1, Nat.le_refl _, by grind, h1, Or.inr rfl⟩

theorem calcIndex_isSome (c : Curve α) (h : c.WF) (x : α) (h0 : c.x0 ≤ x) (h1 : x ≤ c.x1) :
    ∃ i, c.calcIndex x = some i := by
  have hp := h.pos
  rw [h.hx0] at h0; rw [h.hx1] at h1
  obtain ⟨i, a, b, c1, d⟩ := exists_section c h x (c.nseg - 1) (by omega) h0 h1
  refine ⟨i, (calcIndex_iff c h x i).mpr ⟨by omega, b, ?_⟩⟩
  rcases d with d | d
  · exact Or.inl d
  · by_cases e : x < (c.segX i).p5
    · exact Or.inl e
    · exact Or.inr ⟨d, by grind⟩
end curve
end Rbdl.L18C
