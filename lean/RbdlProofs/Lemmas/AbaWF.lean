import RbdlProofs.Lemmas.AbaMain
/-
  C02: what the structural invariant `ModelS.WF` gives the tree theorem: joint coordinates do not
  overlap and cover `[0, dofCount)`.
-/
namespace Rbdl.L02
open Lean.Grind Rbdl
set_option linter.unusedSectionVars false

section
variable {α : Type} [Field α] [DecidableEq α]

theorem wf_qidx (m : ModelS α) (h : m.WF) : ∀ i j, i < j → j < m.nBodies →
    (m.joint i).qIndex + (m.joint i).dof ≤ (m.joint j).qIndex := by
  intro i j hij
  induction j with
  | zero => omega
  | succ j ih =>
    intro hj
    have hc := h.q_contig j hj
    by_cases hij' : i = j
    · subst hij'; omega
    · have := ih (by omega) (by omega); omega

/-- every coordinate `k < dofCount` belongs to exactly one joint -/
theorem wf_cover (m : ModelS α) (h : m.WF) (k : Nat) (hk : k < m.dofCount) :
    ∃ i t, 1 ≤ i ∧ i < m.nBodies ∧ t < (m.joint i).dof ∧ k = (m.joint i).qIndex + t := by
  have key : ∀ i, i < m.nBodies → k < (m.joint i).qIndex + (m.joint i).dof →
      ∃ j t, 1 ≤ j ∧ j < m.nBodies ∧ t < (m.joint j).dof ∧ k = (m.joint j).qIndex + t := by
    intro i
    induction i with
    | zero =>
      intro _ hk0
      rw [h.joint_zero] at hk0
      simp [Joint.root] at hk0
    | succ i ih =>
      intro hi hki
      have hc := h.q_contig i hi
      by_cases hlt : k < (m.joint (i + 1)).qIndex
      · exact ih (by omega) (by omega)
      · exact ⟨i + 1, k - (m.joint (i + 1)).qIndex, by omega, hi, by omega, by omega⟩
  have hn := h.nb_pos
  exact key (m.nBodies - 1) (by omega) (by rw [h.q_last]; exact hk)

end
end Rbdl.L02
