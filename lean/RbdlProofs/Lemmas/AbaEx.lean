import RbdlProofs.Lemmas.AbaWF
import RbdlProofs.Lemmas.AbaTree
import RbdlProofs.Props.C14
/-
  Concrete instance over `Rat` for the satisfiability examples of C02: a branched tree built with
  `AddBody` (revoluteZ on the base, a spherical joint and a general revolute joint on body 1), all
  with non-trivial joint frames and inertias, non-zero velocities and an external force; the
  workspace of `inverseDynamics` is the poisoned one.
-/
namespace Rbdl.C02.Ex
open Lean.Grind Rbdl Rbdl.L02

def body1 : Body Rat := ⟨2, ⟨1/2, 0, 1/3⟩, C16.Ex.Ic, false⟩
def body2 : Body Rat := ⟨3, ⟨0, 1/4, 1⟩, C16.Ex.Ic, false⟩
def jz : Joint Rat := ⟨.revoluteZ, [sv6 0 0 1 0 0 0], 1, 0, noCustom⟩
def jsph : Joint Rat :=
  ⟨.spherical, [sv6 0 0 1 0 0 0, sv6 0 1 0 0 0 0, sv6 1 0 0 0 0 0], 3, 0, noCustom⟩
def jrev : Joint Rat := Joint.revolute C16.Ex.ax

def ops : List (Op Rat) :=
  [ .addBody 0 C16.Ex.X jz body1 "a",
    .addBody 1 C16.Ex.Y jsph body2 "b",
    .addBody 1 C16.Ex.X jrev body1 "c" ]

/-- bodies 1 (revoluteZ, on the base), 2 (spherical, on 1), 3 (revolute about `(2,1,2)/3`, on 1) -/
def M : ModelS Rat := ModelS.init.run ops

theorem validRun_ops : (ModelS.init : ModelS Rat).validRun ops := by decide +kernel
theorem M_wf : M.WF := C14.wf_run ops validRun_ops

def st : QS Rat :=
  { q := fun n => if n = 1 then 1/5 else if n = 2 then 2/5 else if n = 3 then 2/5
                  else if n = 5 then 4/5 else 1/2
    c := fun _ => 4/5
    s := fun _ => 3/5 }
def qd : VecN Rat := fun n => (n : Rat) / 3 - 1/2
def tau : VecN Rat := fun n => 1 - (n : Rat) / 7
def q0 : VecN Rat := fun _ => 0
def fe : Nat → SV Rat := fun n => if n = 2 then ⟨⟨1, 2, 0⟩, ⟨0, 1/2, -1⟩⟩ else SV.zero
/-- workspace of `forwardDynamics`: as after construction -/
def w : WS Rat := initWS M
/-- workspace of `inverseDynamics`: all free entries overwritten -/
def w2 : WS Rat := poison M (initWS M) 7

theorem M_n : M.nBodies = 4 := by decide +kernel
theorem M_dof : M.dofCount = 5 := by decide +kernel

theorem M_ar : ∀ i, 1 ≤ i → i < M.nBodies → M.arity i = .one ∨ M.arity i = .three := by
  intro i h1 h2
  rw [M_n] at h2
  obtain rfl | rfl | rfl : i = 1 ∨ i = 2 ∨ i = 3 := by omega
  all_goals decide +kernel

theorem M_virt : ∀ i, 1 ≤ i → i < M.nBodies →
    (M.body i).isVirtual = true → M.rbi i = RBI.zero := by
  intro i h1 h2
  rw [M_n] at h2
  obtain rfl | rfl | rfl : i = 1 ∨ i = 2 ∨ i = 3 := by omega
  all_goals decide +kernel

theorem M_agree : ∀ i, 1 ≤ i → i < M.nBodies →
    jd (jcalc M w2 i st qd) i = jd (jcalc M w i st qd) i := by
  intro i h1 h2
  rw [M_n] at h2
  obtain rfl | rfl | rfl : i = 1 ∨ i = 2 ∨ i = 3 := by omega
  all_goals decide +kernel

theorem w2_x0 : w2.X_base 0 = XT.id := by decide +kernel

set_option maxRecDepth 100000 in
theorem M_piv : ∀ i, 1 ≤ i → i < M.nBodies →
    pivotOk M (forwardDynamics M w st qd tau q0 (some fe)).1 i := by
  intro i h1 h2
  rw [M_n] at h2
  obtain rfl | rfl | rfl : i = 1 ∨ i = 2 ∨ i = 3 := by omega
  · exact pivotOk_one _ _ 1 (by decide +kernel) (by decide +kernel)
  · exact pivotOk_three _ _ 2 (by decide +kernel) (by decide +kernel)
  · exact pivotOk_one _ _ 3 (by decide +kernel) (by decide +kernel)

/-! ### instances showing that hypotheses of (T2) cannot be dropped -/

/-- `M` with body 3 declared virtual although it carries a non-zero inertia -/
def Mvirt : ModelS Rat := { M with bodies := [body1, body1, body2, { body1 with isVirtual := true }] }
/-- a workspace for `inverseDynamics` whose `X_base[0]` is not the identity -/
def w2bad : WS Rat := { w with X_base := fun _ => C16.Ex.Y }
def t0 : VecN Rat := fun _ => 0

/-! ### an abstract tree for (T1) -/

/-- two bodies: body 1 (1 DoF about `z`) on the base, body 2 (3 rotational DoF) on body 1 -/
def T : ATree Rat :=
  { n := 2, lam := fun j => j - 1
    X := fun j => if j = 1 then C16.Ex.X else C16.Ex.Y
    I := fun j => if j = 1 then body1.toRBI.toMatrix else body2.toRBI.toMatrix
    p := fun j => if j = 1 then ⟨⟨1, 0, 2⟩, ⟨0, 1, 0⟩⟩ else ⟨⟨0, 1/2, 0⟩, ⟨1, 1, 0⟩⟩
    c := fun j => if j = 1 then SV.zero else ⟨⟨0, 0, 1⟩, ⟨1/3, 0, 0⟩⟩
    a0 := ⟨⟨0, 0, 0⟩, ⟨0, 981/100, 0⟩⟩
    three := fun j => j == 2
    S := fun _ => sv6 0 0 1 0 0 0
    S3 := fun _ => ⟨sv6 1 0 0 0 0 0, sv6 0 1 0 0 0 0, sv6 0 0 1 0 0 0⟩
    tau := fun _ => 3/2
    tau3 := fun _ => ⟨1, -1, 1/2⟩ }

theorem T_sym : ∀ j, SymSM (T.I j) := by
  intro j
  show SymSM (if j = 1 then body1.toRBI.toMatrix else body2.toRBI.toMatrix)
  split <;> exact symSM_rbi _

theorem T_piv1 : T.pivot 1 (T.AB 1).1 := by unfold ATree.pivot; decide +kernel
theorem T_piv2 : T.pivot 2 (T.AB 2).1 := by unfold ATree.pivot; decide +kernel

end Rbdl.C02.Ex
