import RbdlProofs.Lemmas.LKinCapMain
import RbdlProofs.Lemmas.L01CapFixFinal
/-
  Kinematics capstones, Stage E: the id bookkeeping `FixedIds` (which `RefinesF` does not record) is
  established by construction, together with the bound `nBodies ≤ disc` on the movable ids; the Jacobians
  as row-major lists.
-/
namespace Rbdl.LKinCap
open Lean.Grind Rbdl Rbdl.Spec Rbdl.L06 Rbdl.L05 Rbdl.L01Cap Rbdl.Loops
set_option linter.unusedSimpArgs false
set_option linter.unusedVariables false
set_option linter.unusedSectionVars false

section
variable {α : Type} [Field α] [DecidableEq α]

/-- the ids of the nodes of the specification builder are unique -/
theorem sim_ids_inj {m : ModelS α} {p : PB α} (hS : SimF m p) :
    ∀ (n n' : Nat) (nd nd' : SNode α), p.sb.M.nodes[n]? = some nd → p.sb.M.nodes[n']? = some nd' →
      nd.apiId = nd'.apiId → n = n' := by
  obtain ⟨bs, hbs, _, hbs2, _⟩ := hS.base
  -- a node `≥ 1` does not carry the id `0`
  have hne : ∀ (k : Nat) (x : SNode α), 1 ≤ k → p.sb.M.nodes[k]? = some x → x.apiId ≠ 0 := by
    intro k x k1 hk h0
    have := hS.idnode k x k1 hk
    rw [h0, hS.lookup0] at this
    omega
  intro n n' nd nd' h h' e
  by_cases h0 : n = 0
  · subst h0
    rw [hbs] at h
    have : bs = nd := Option.some.inj h
    subst this
    by_cases h0' : n' = 0
    · exact h0'.symm
    · exact absurd (by rw [← e, hbs2]) (hne n' nd' (by omega) h')
  · by_cases h0' : n' = 0
    · subst h0'
      rw [hbs] at h'
      have : bs = nd' := Option.some.inj h'
      subst this
      exact absurd (by rw [e, hbs2]) (hne n nd (by omega) h)
    · have a1 := hS.idnode n nd (by omega) h
      have a2 := hS.idnode n' nd' (by omega) h'
      rw [e] at a1
      omega

/-- **the parallel construction establishes `FixedIds`** -/
theorem fixedIds_of_sim {m : ModelS α} {p : PB α} (hS : SimF m p) :
    FixedIds m p.sb.M.finalize (offOf m p.sb.M) := by
  obtain ⟨hlen, hnodes⟩ := finalize_nodes p.sb.M
  have hback : ∀ (n : Nat) (nd' : SNode α), p.sb.M.finalize.nodes[n]? = some nd' →
      ∃ nd, p.sb.M.nodes[n]? = some nd ∧
        nd' = finNode p.sb.M.nv ((p.sb.M.nodes.take n).countP isQuatNode) nd := by
    intro n nd' h
    have hn : n < p.sb.M.nodes.length := by rw [← hlen]; exact lt_of_get h
    have hget : p.sb.M.nodes[n]? = some p.sb.M.nodes[n] := List.getElem?_eq_getElem hn
    refine ⟨_, hget, ?_⟩
    rw [hnodes n _ hget] at h
    exact (Option.some.inj h).symm
  refine ⟨fun n n' nd nd' h h' e => ?_, fun k hk => ?_⟩
  · obtain ⟨x, hx, rfl⟩ := hback n nd h
    obtain ⟨x', hx', rfl⟩ := hback n' nd' h'
    rw [(finNode_fields _ _ x).2.2.2.2.2.1, (finNode_fields _ _ x').2.2.2.2.2.1] at e
    exact sim_ids_inj hS n n' x x' hx hx' e
  · obtain ⟨n1, nlt, hnd⟩ := hS.fixNode k hk
    have hget := List.getElem?_eq_getElem nlt
    obtain ⟨ha, hmv⟩ := hnd _ hget
    have hb := hS.ok.wf.fixed_parent k hk
    have hcap := hS.cap
    refine ⟨lookupNode p.sb.idMap (fixedDisc + k), _, n1, hnodes _ _ hget, ?_, ?_, ?_⟩
    · rw [(finNode_fields _ _ _).2.2.2.2.2.1, ha]
    · rw [(finNode_fields _ _ _).2.2.2.2.2.2.1, hmv]
    · unfold offOf
      rw [getD_nodes hget, if_neg (by rw [ha, hmv]; omega), ha, Nat.add_sub_cancel_left]

/-- **Stages D + E for the kinematics capstones**: for every supported, successful construction
    sequence the id bookkeeping holds and the movable ids stay below the fixed-body discriminator -/
theorem fixedIds_by_construction (ops : List (Op α))
    (hg : goodRunF (ModelS.init : ModelS α) ops) :
    FixedIds ((ModelS.init : ModelS α).run ops) (specOf ops)
      (offOf ((ModelS.init : ModelS α).run ops) ((PB.init : PB α).run ops).sb.M) ∧
    ((ModelS.init : ModelS α).run ops).nBodies ≤ fixedDisc := by
  obtain ⟨hS, _⟩ := simFW_run ops _ _ simF_init simW_init hg
  exact ⟨fixedIds_of_sim hS, hS.cap⟩

/-! ### Jacobians as row-major lists -/

/-- the first `rows × cols` entries of a matrix, row by row -/
def matList (rows cols : Nat) (G : MatN α) : List α :=
  (List.range rows).flatMap (fun r => (List.range cols).map (fun c => G r c))

theorem matList_eq_matOfCols (rows nv : Nat) (G : MatN α) (col : Nat → List α)
    (h : ∀ r, r < rows → ∀ j, j < nv → G r j = (col j).getD r 0) :
    matList rows nv G = matOfCols rows ((List.range nv).map col) := by
  unfold matList matOfCols
  rw [List.flatMap_def, List.flatMap_def]
  congr 1
  refine List.map_congr_left (fun r hr => ?_)
  rw [List.map_map]
  refine List.map_congr_left (fun j hj => ?_)
  exact h r (List.mem_range.1 hr) j (List.mem_range.1 hj)

theorem colSV_entry (G : MatN α) (x r : Nat) (hr : r < 6) :
    G r x = (SV.toList (colSV G x)).getD r 0 := by
  obtain rfl | rfl | rfl | rfl | rfl | rfl : r = 0 ∨ r = 1 ∨ r = 2 ∨ r = 3 ∨ r = 4 ∨ r = 5 := by
    omega
  all_goals rfl

theorem v3_entry (a b c : α) (r : Nat) (hr : r < 3) :
    (if r = 0 then a else if r = 1 then b else c) = (V3.toList (⟨a, b, c⟩ : V3 α)).getD r 0 := by
  obtain rfl | rfl | rfl : r = 0 ∨ r = 1 ∨ r = 2 := by omega
  all_goals rfl

theorem v3_entry' (G : MatN α) (x r : Nat) (hr : r < 3) :
    G r x = (V3.toList (⟨G 0 x, G 1 x, G 2 x⟩ : V3 α)).getD r 0 := by
  obtain rfl | rfl | rfl : r = 0 ∨ r = 1 ∨ r = 2 := by omega
  all_goals rfl

variable {m : ModelS α} {M : SModel α} {P : QS α → VecN α → VecN α → Nat → Pose (D2 α)}
  {id b : Nat} {T : XT α}

theorem pointJacobian6D_list_core (hm : ModelOK m) (hT : PoseTable m P)
    (hR : Resolves m M P id b T) (h2 : (2 : α) ≠ 0) (w : WS α) (hw : WSFixed m w) (st : QS α)
    (hst : StateOK m st) (qd qdd : VecN α) (p : V3 α) (hnv : M.nv = m.dofCount) :
    matList 6 m.dofCount (calcPointJacobian6D m w st id p zeroMat true).2
      = Spec.pointJacobian6D M (stateOf st qd qdd) id p := by
  unfold Spec.pointJacobian6D
  rw [hnv]
  exact matList_eq_matOfCols 6 _ _ _ (fun r hr j hj => by
    rw [colSV_entry (calcPointJacobian6D m w st id p zeroMat true).2 j r hr,
      pointJacobian6D_col_core hm hT hR h2 w hw st hst qd qdd p j hj])

theorem pointJacobian_list_core (hm : ModelOK m) (hT : PoseTable m P)
    (hR : Resolves m M P id b T) (h2 : (2 : α) ≠ 0) (w : WS α) (hw : WSFixed m w) (st : QS α)
    (hst : StateOK m st) (qd qdd : VecN α) (p : V3 α) (hnv : M.nv = m.dofCount) :
    matList 3 m.dofCount (calcPointJacobian m w st id p zeroMat true).2
      = Spec.pointJacobian M (stateOf st qd qdd) id p := by
  unfold Spec.pointJacobian
  rw [hnv]
  exact matList_eq_matOfCols 3 _ _ _ (fun r hr j hj => by
    rw [v3_entry' (calcPointJacobian m w st id p zeroMat true).2 j r hr,
      pointJacobian_col_core hm hT hR h2 w hw st hst qd qdd p j hj])

theorem bodySpatialJacobian_list_core (hm : ModelOK m) (hT : PoseTable m P)
    (hR : Resolves m M P id b T) (h2 : (2 : α) ≠ 0) (w : WS α) (hw : WSFixed m w) (st : QS α)
    (hst : StateOK m st) (qd qdd : VecN α) (hnv : M.nv = m.dofCount) :
    matList 6 m.dofCount (calcBodySpatialJacobian m w st id zeroMat true).2
      = Spec.bodySpatialJacobian M (stateOf st qd qdd) id := by
  unfold Spec.bodySpatialJacobian
  rw [hnv]
  exact matList_eq_matOfCols 6 _ _ _ (fun r hr j hj => by
    rw [colSV_entry (calcBodySpatialJacobian m w st id zeroMat true).2 j r hr,
      bodySpatialJacobian_col_core hm hT hR h2 w hw st hst qd qdd j hj])

/-! ### every valid body id resolves -/

/-- models without fixed bodies: every id below `nBodies` (and below the discriminator) -/
theorem resolvesR {m : ModelS α} {M : SModel α} (hm : ModelOK m) (hR : Refines m M) (id : Nat)
    (hid : id < m.nBodies) (hfd : id < fixedDisc) :
    PoseTable m (specTable M) ∧ Resolves m M (specTable M) id id XT.id :=
  ⟨poseTable_refines hm hR, resolves_refines hm hR id hid hfd⟩

/-- models with fixed bodies: every valid id (base, movable, fixed) -/
theorem resolvesF {m : ModelS α} {M : SModel α} {off : Nat → XT α} {nodeOf : Nat → Nat}
    (hm : ModelOK m) (hR : RefinesF m M off nodeOf) (hI : FixedIds m M off)
    (hcap : m.nBodies ≤ fixedDisc) (id : Nat) (hid : m.validId id) :
    PoseTable m (specTableF M nodeOf) ∧
    ∃ b T, Resolves m M (specTableF M nodeOf) id b T := by
  refine ⟨poseTable_refinesF hm hR, ?_⟩
  by_cases hf : m.isFixedBodyId id = true
  · have h := (isFixed_iff m id hm.wf.fixed_cap).1 hf
    obtain ⟨k, rfl⟩ : ∃ k, id = fixedDisc + k := ⟨id - fixedDisc, by omega⟩
    exact ⟨_, _, resolves_refinesF_fixed hm hR hI hcap k (by have := h.2; omega)⟩
  · have hlt : id < m.nBodies := by
      rcases hid with h | h
      · exact h
      · exact absurd h hf
    exact ⟨id, XT.id, resolves_refinesF_movable hm hR hI id hlt (by omega)⟩

end
end Rbdl.LKinCap
