import RbdlProofs.Lemmas.L01CapFixW
/-
  C01 capstone, Stages D + E: all supported construction calls keep `SimF ∧ SimW`; the run.
-/
namespace Rbdl.L01Cap
open Lean.Grind Rbdl Rbdl.Spec Rbdl.L06 Rbdl.L01 Rbdl.Loops
set_option linter.unusedSimpArgs false
set_option linter.unusedVariables false
set_option linter.unusedSectionVars false

section
variable {α : Type} [Field α] [DecidableEq α]

/-- `AddBody`, the quaternion-index half of the invariant -/
theorem simW_addBody (m : ModelS α) (p : PB α) (hS : SimF m p) (hW : SimW m p) (parent : Nat)
    (frame : XT α) (j : Joint α) (b : Body α) (name : String) (hp : m.validId parent)
    (hjok : m.jointOk j) (hcapF : m.fixedBodies.length ≤ fixedDisc) (ha : addOK frame j b)
    (hcap : m.nBodies + 2 ≤ fixedDisc) (id : Nat)
    (hok : (m.addBody parent frame j b name).2 = .ok id) :
    SimW (m.addBody parent frame j b name).1 (p.add parent frame (descOf j) b) := by
  have hwf := hS.ok.wf
  obtain ⟨hE, hsym, hkind⟩ := ha
  rw [ModelS.addBody_eq] at hok ⊢
  by_cases hd : name ≠ "" ∧ m.hasName name
  · rw [if_pos hd] at hok; cases hok
  · rw [if_neg hd] at hok ⊢
    rcases hkind with ⟨hj, hbv⟩ | hfix | ⟨hfl, hbv⟩
    · obtain ⟨he, hsj, hdof⟩ := expand_descOf j hj
      rw [hasJcalc_single _ hj.1] at hok ⊢
      show SimW (m.addBodyMovable parent frame j b name).1 _
      rw [ModelS.addBodyMovable_eq, if_neg hd]
      unfold PB.add
      rw [add_single' p.sb parent frame.E frame.r (descOf j) (jointSj j) b.mass b.com b.inertia he
        hsj]
      exact simW_movable m p hS hW parent frame j b name _ _ _ (isQuat_jointSj j _ rfl) hS.nmov
    · have hk : j.jt.kind = .fixed := by rw [hfix]; rfl
      rw [hk] at hok ⊢
      show SimW (m.addBodyFixed parent frame b name).1 _
      change (m.addBodyFixed parent frame b name).2 = .ok id at hok
      cases hjoin : (m.body (m.mpOf parent)).join (m.fpXOf parent frame) b with
      | none =>
        rw [ModelS.addBodyFixed_none m parent frame b name hd hjoin] at hok; cases hok
      | some pb =>
        rw [ModelS.addBodyFixed_some m parent frame b name pb hd hjoin]
        unfold PB.add
        rw [add_fixed p.sb parent frame.E frame.r (descOf j) b.mass b.com b.inertia
          (expand_fixed j hfix)]
        refine simW_fixed m p hS hW parent frame b name pb _ _ rfl ?_
        obtain ⟨_, pbody, _, _⟩ := parent_node hS parent hp
        have hmp := ModelS.mpOf_lt m hwf parent hp
        show fixedDisc + p.sb.nFixed ≠ bodyOf p.sb.M (lookupNode p.sb.idMap parent)
        rw [pbody]
        have := hS.cap
        omega
    · have hk : j.jt.kind = .floating := by rw [hfl]; rfl
      rw [hk] at hok ⊢
      show SimW (m.addFloating parent frame b name).1 _
      unfold ModelS.addFloating
      have hd1 : ¬(name ≠ "" ∧
          (m.movableResult parent frame ModelS.floatT ModelS.nullBody "").hasName name) := by
        rw [ModelS.hasName_congr (ModelS.movableResult_names_unnamed ..)]; exact hd
      rw [ModelS.addBodyMovable_eq, if_neg hd1]
      unfold PB.add
      rw [expand_float j hfl, add_floating]
      -- the `SimF` half of the first step (needed for the second)
      have h1 : SimF (m.movableResult parent frame ModelS.floatT ModelS.nullBody "")
          ⟨pushMov p.sb (floatNode1 p.sb parent frame.E frame.r) p.sb.M.nodes.length, m.nBodies⟩ := by
        refine simF_movable m p hS parent frame ModelS.floatT ModelS.nullBody "" .translationXYZ _ _
          hp hE (ModelS.not_dup_empty m) (by omega) rfl (by change _ = _; rfl)
          (fun hc => by simp [ModelS.floatT] at hc) (fun hc => by simp [ModelS.floatT] at hc) ?_ rfl
          (fun _ => ⟨rfl, rfl⟩) rfl rfl rfl rfl rfl rfl rfl rfl (fun hh => by cases hh)
        rw [sjoint_eq_sj _ _ (by
          rw [mr_joint_new m parent frame _ _ _ hwf]; simp [ModelS.floatT]),
          mr_joint_new m parent frame _ _ _ hwf]
        rfl
      have w1 : SimW (m.movableResult parent frame ModelS.floatT ModelS.nullBody "")
          ⟨pushMov p.sb (floatNode1 p.sb parent frame.E frame.r) p.sb.M.nodes.length, m.nBodies⟩ :=
        simW_movable m p hS hW parent frame ModelS.floatT ModelS.nullBody "" _ _ _ rfl hS.nmov
      have hnb1 := mr_nBodies m parent frame ModelS.floatT ModelS.nullBody ""
      have w2 := simW_movable _ _ h1 w1 m.nBodies XT.id ModelS.floatS b name
        (floatNode2 p.sb b.mass b.com b.inertia) p.sb.M.nodes.length (p.sb.nMovable + 1) rfl
        (by show p.sb.nMovable + 1 = _; rw [hS.nmov, hnb1])
      exact w2

def customSj (k : CustomKind) : SJoint α :=
  match k with
  | .revX => .revolute ⟨1, 0, 0⟩
  | .eulerZYX => .euler .zyx
  | .cyl => .cylZ

theorem expand_custom (k : CustomKind) :
    expand (JDesc.custom k : JDesc α) = some [customSj k] ∧ notFixed (customSj k : SJoint α) = true ∧
    (customSj k : SJoint α).dof = k.dof := by
  cases k <;> exact ⟨rfl, rfl, rfl⟩

/-- `AddBodyCustomJoint`, both halves -/
theorem simFW_custom (m : ModelS α) (p : PB α) (hS : SimF m p) (hW : SimW m p) (parent : Nat)
    (frame : XT α) (k : CustomKind) (b : Body α) (name : String) (hp : m.validId parent)
    (hE : frame.E.IsRot) (hsym : b.inertia.transpose = b.inertia) (hbv : b.isVirtual = false)
    (hcap : m.nBodies + 2 ≤ fixedDisc) (id : Nat)
    (hok : (m.addBodyCustomJoint parent frame k b name).2 = .ok id) :
    SimF (m.addBodyCustomJoint parent frame k b name).1 (p.add parent frame (.custom k) b) ∧
    SimW (m.addBodyCustomJoint parent frame k b name).1 (p.add parent frame (.custom k) b) := by
  have hwf := hS.ok.wf
  obtain ⟨he, hsj, hdof⟩ := expand_custom (α := α) k
  rw [ModelS.addBodyCustomJoint_eq] at hok ⊢
  by_cases hd : name ≠ "" ∧ m.hasName name
  · rw [if_pos hd] at hok; cases hok
  · rw [if_neg hd]
    have hSc := simF_withCustom m p hS k
    have hWc := simW_withCustom m p hW k
    have hwfc := hSc.ok.wf
    unfold PB.add
    rw [add_single' p.sb parent frame.E frame.r (.custom k) (customSj k) b.mass b.com b.inertia he
      hsj]
    have hnbc : (m.withCustom k).nBodies = m.nBodies := rfl
    constructor
    · show SimF _ ⟨_, p.sb.nMovable⟩
      rw [hS.nmov]
      refine simF_movable (m.withCustom k) p hSc parent frame
        (Joint.customProxy k.dof m.customJoints.length) b name (customSj k) _ _ hp hE hd
        (by rw [hnbc]; omega) rfl trivial (ModelS.jointOk_customProxy m k) ?_ ?_ hdof
        (fun hv => by rw [hbv] at hv; cases hv) rfl rfl rfl rfl rfl rfl rfl
        (by show true = !b.isVirtual; rw [hbv]; rfl) (fun _ => ⟨rfl, rfl, rfl, hsym⟩)
      · -- the new custom slot is fresh
        intro _ i hi
        have hil : i < m.nBodies := by
          rcases Nat.lt_or_ge i m.nBodies with h | h
          · exact h
          · exfalso
            have : (m.withCustom k).joint i = Joint.root := by
              unfold ModelS.joint ModelS.withCustom
              rw [List.getD_eq_getElem?_getD, List.getElem?_eq_none (by rw [hwf.len_joints]; exact h)]
              rfl
            rw [this] at hi; cases hi
        have := (hwf.custom_ok i hil hi).1
        show (m.joint i).customIdx ≠ m.customJoints.length
        omega
      · -- the position-level joint of the new body
        unfold ModelS.sjoint
        rw [mr_joint_new (m.withCustom k) parent frame _ b name hwfc]
        simp only [Joint.customProxy]
        generalize hg : ModelS.custom _ m.customJoints.length = c
        have hck : c = k := by
          rw [← hg]
          unfold ModelS.custom ModelS.movableResult ModelS.withCustom
          exact getD_append_last _ _ _
        subst hck
        cases c <;> rfl
    · exact simW_movable (m.withCustom k) p hSc hWc parent frame _ b name _ _ _
        (by
          show isQuatNode (singleNode p.sb parent frame.E frame.r (customSj k) b.mass b.com
            b.inertia) = isSph (Joint.customProxy k.dof m.customJoints.length)
          cases k <;> rfl) hS.nmov

/-- one construction call -/
theorem simFW_step (m : ModelS α) (p : PB α) (hS : SimF m p) (hW : SimW m p) (op : Op α)
    (hv : op.valid m) (hs : Op.simpleF op) (hcap : m.nBodies + 2 ≤ fixedDisc) (id : Nat)
    (hok : (m.step op).2 = .ok id) :
    SimF (m.step op).1 (p.step op) ∧ SimW (m.step op).1 (p.step op) := by
  cases op with
  | addBody parent frame j b name =>
    exact ⟨simF_addBody m p hS parent frame j b name hv.1 hv.2.1 hv.2.2 hs hcap id hok,
      simW_addBody m p hS hW parent frame j b name hv.1 hv.2.1 hv.2.2 hs hcap id hok⟩
  | appendBody frame j b name =>
    show SimF (m.addBody m.prevBodyId frame j b name).1 (p.add p.prev frame (descOf j) b) ∧
      SimW (m.addBody m.prevBodyId frame j b name).1 (p.add p.prev frame (descOf j) b)
    rw [hS.prev]
    exact ⟨simF_addBody m p hS _ frame j b name hS.ok.wf.prev_ok hv.1 hv.2 hs hcap id hok,
      simW_addBody m p hS hW _ frame j b name hS.ok.wf.prev_ok hv.1 hv.2 hs hcap id hok⟩
  | addBodyCustomJoint parent frame k b name =>
    exact simFW_custom m p hS hW parent frame k b name hv.1 hs.1 hs.2.1 hs.2.2 hcap id hok

theorem simFW_run (ops : List (Op α)) : ∀ (m : ModelS α) (p : PB α), SimF m p → SimW m p →
    goodRunF m ops → SimF (m.run ops) (p.run ops) ∧ SimW (m.run ops) (p.run ops) := by
  induction ops with
  | nil => intro m p h w _; exact ⟨h, w⟩
  | cons op ops ih =>
    intro m p hS hW hg
    obtain ⟨hv, hs, ⟨id, hok⟩, hcap, hrest⟩ := hg
    obtain ⟨h1, w1⟩ := simFW_step m p hS hW op hv hs hcap id hok
    exact ih _ _ h1 w1 hrest

end
end Rbdl.L01Cap
