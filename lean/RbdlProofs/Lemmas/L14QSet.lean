import RbdlProofs.Lemmas.L14QStab
/-
  C14, query clauses — part 4: `SetJointFrame`.
-/
namespace Rbdl.L14Q
open Lean.Grind Rbdl Rbdl.ModelS

section
variable {α : Type} [Field α]

/-- the model `SetJointFrame` produces for a movable body: only the joint frame of the top of
    the body's emulated-joint chain is replaced -/
def setResult (m : ModelS α) (id : Nat) (X : XT α) : ModelS α :=
  { m with xT := m.xT.set (topOf m id) X }

theorem setJointFrame_movable (m : ModelS α) (h : LamOK m) (id : Nat) (X : XT α)
    (h1 : 1 ≤ id) (hlt : id < m.bodies.length) (hfd : id < fixedDisc) :
    m.setJointFrame id X = (setResult m id X, .ok ()) := by
  unfold setJointFrame
  rw [if_neg (by omega)]
  simp only
  by_cases hv : (m.body (m.lam id)).isVirtual = true
  · rw [if_pos hv]; rfl
  · rw [if_neg hv, if_pos (show 0 < id from h1)]
    have : topOf m id = id := by rw [topOf_eq h id hlt, if_neg hv]
    simp only [setResult, this]

theorem setJointFrame_fixed (m : ModelS α) (id : Nat) (X : XT α) (hfd : fixedDisc ≤ id) :
    m.setJointFrame id X = (m, .error .fixedSetFrame) := by
  unfold setJointFrame
  rw [if_pos hfd]

/-- `SetJointFrame (0, X)` does nothing when the base is not virtual -/
theorem setJointFrame_base (m : ModelS α) (h : LamOK m) (X : XT α)
    (h0 : (m.body 0).isVirtual = false) : m.setJointFrame 0 X = (m, .ok ()) := by
  unfold setJointFrame
  rw [if_neg (by decide), h.zero, h0]
  simp

theorem pgo_congr (m m' : ModelS α) (h1 : m'.lambda = m.lambda) (h2 : m'.bodies = m.bodies) :
    ∀ f p, getParentBodyId.go m' f p = getParentBodyId.go m f p := by
  intro f
  induction f with
  | zero => intro p; rfl
  | succ f ih =>
    intro p
    show (if (m'.body p).isVirtual then getParentBodyId.go m' f (m'.lam p) else p) =
      (if (m.body p).isVirtual then getParentBodyId.go m f (m.lam p) else p)
    have hb : m'.body p = m.body p := by simp only [body, h2]
    have hl : m'.lam p = m.lam p := by simp only [lam, h1]
    rw [hb, hl, ih]

theorem jgo_congr (m m' : ModelS α) (h1 : m'.lambda = m.lambda) (h2 : m'.bodies = m.bodies) :
    ∀ f c, getJointFrame.go m' f c = getJointFrame.go m f c := by
  intro f
  induction f with
  | zero => intro c; rfl
  | succ f ih =>
    intro c
    show (if (m'.body (m'.lam c)).isVirtual then getJointFrame.go m' f (m'.lam c) else c) =
      (if (m.body (m.lam c)).isVirtual then getJointFrame.go m f (m.lam c) else c)
    have hl : m'.lam c = m.lam c := by simp only [lam, h1]
    have hb : m'.body (m.lam c) = m.body (m.lam c) := by simp only [body, h2]
    rw [hl, hb, ih]

theorem setResult_parent (m : ModelS α) (id : Nat) (X : XT α) (k : Nat) :
    (setResult m id X).getParentBodyId k = m.getParentBodyId k := by
  unfold getParentBodyId
  split
  · rfl
  · exact pgo_congr m (setResult m id X) rfl rfl _ _

theorem setResult_topOf (m : ModelS α) (id : Nat) (X : XT α) (k : Nat) :
    topOf (setResult m id X) k = topOf m k :=
  jgo_congr m (setResult m id X) rfl rfl _ _

theorem setResult_XT (m : ModelS α) (id : Nat) (X : XT α) (i : Nat) :
    (setResult m id X).XT_ i =
      if i = topOf m id ∧ i < m.xT.length then X else m.XT_ i := by
  simp only [setResult, XT_, List.getD_eq_getElem?_getD, List.getElem?_set]
  by_cases hi : topOf m id = i
  · subst hi
    by_cases hl : topOf m id < m.xT.length
    · simp [hl]
    · simp [hl]
  · have : ¬ (i = topOf m id) := fun h => hi h.symm
    simp [hi, this]

/-- the joint frame every body reports after `SetJointFrame (id, X)` -/
theorem setResult_frame (m : ModelS α) (hwf : m.WF) (id : Nat) (X : XT α)
    (hlt : id < m.bodies.length) (k : Nat) :
    (setResult m id X).getJointFrame k =
      if k < fixedDisc ∧ topOf m k = topOf m id then X else m.getJointFrame k := by
  have h := lamOK_of_wf hwf
  have htl := topOf_le h _ _ (Nat.le_refl _) hlt
  have hlen := hwf.len_xT
  simp only [nBodies] at hlen
  by_cases hk : k < fixedDisc
  · rw [getJointFrame_movable _ _ hk, getJointFrame_movable _ _ hk, setResult_topOf, setResult_XT]
    by_cases ht : topOf m k = topOf m id
    · rw [if_pos ⟨ht, by omega⟩, if_pos ⟨hk, ht⟩]
    · rw [if_neg (fun hh => ht hh.1), if_neg (fun hh => ht hh.2)]
  · rw [if_neg (fun hh => hk hh.1), getJointFrame_fixed _ _ (by omega),
      getJointFrame_fixed _ _ (by omega)]
    rfl

theorem wf_setResult (m : ModelS α) (hwf : m.WF) (id : Nat) (X : XT α) :
    (setResult m id X).WF :=
  { hwf with len_xT := (by
      show (m.xT.set (topOf m id) X).length = m.bodies.length
      rw [List.length_set]; exact hwf.len_xT) }

end
end Rbdl.L14Q
