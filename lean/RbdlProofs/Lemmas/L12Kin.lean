import RbdlProofs.Lemmas.L12
import RbdlProofs.Props.C04
/-
  The kinematics update used by `CalcCenterOfMass` / `CalcZeroMomentPoint`
  (`UpdateKinematicsCustom (Q, QDot, QDDot)`) leaves a kinematically consistent workspace
  (`L12.KinOK`): the velocity and acceleration loops do not change `X_base`, and rewrite `X_lambda`
  with the value it already has.
-/
namespace Rbdl.L12
open Lean.Grind Rbdl Rbdl.Loops

section
variable {α : Type} [Field α]

theorem jcalcX_idem (m : ModelS α) (i : Nat) (st : QS α) (old : XT α) :
    jcalcX m i st (jcalcX m i st old) = jcalcX m i st old := by
  unfold jcalcX
  dsimp only
  cases h : (m.joint i).jt <;> rfl

/-- velocity loop of `updateKinematicsCustom` -/
def ukcVelBody (m : ModelS α) (st : QS α) (qd : VecN α) (i : Nat) (w : WS α) : WS α :=
  let lam := m.lam i
  let w := jcalc m w i st qd
  let w := if lam ≠ 0 then
      { w with v := upd w.v i ((w.X_lambda i).apply (w.v lam) + w.v_J i) }
    else { w with v := upd w.v i (w.v_J i) }
  { w with c := upd w.c i (w.c_J i + crossm (w.v i) (w.v_J i)) }

/-- acceleration loop of `updateKinematicsCustom` -/
def ukcAccBody (m : ModelS α) (qdd : VecN α) (i : Nat) (w : WS α) : WS α :=
  let lam := m.lam i
  let a0 := if lam ≠ 0 then (w.X_lambda i).apply (w.a lam) + w.c i else w.c i
  let a1 := match m.arity i with
    | .other => a0
    | _ => a0 + w.Sqdd m i qdd
  { w with a := upd w.a i a1 }

theorem ukc_full_eq (m : ModelS α) (w : WS α) (st : QS α) (qd : VecN α) (qdd : Option (VecN α)) :
    updateKinematicsCustom m w (some st) (some qd) qdd =
      (match qdd with
        | none => fun w => w
        | some qdd => forUp (m.nBodies - 1) 1 (ukcAccBody m qdd))
      (forUp (m.nBodies - 1) 1 (ukcVelBody m st qd)
        (updateKinematicsCustom m w (some st) none none)) := by
  cases qdd <;> rfl

theorem ukcVelBody_X_base (m : ModelS α) (st : QS α) (qd : VecN α) (i : Nat) (w : WS α) :
    (ukcVelBody m st qd i w).X_base = w.X_base := by
  unfold ukcVelBody
  dsimp only
  split <;> exact jcalc_X_base m w i st qd

theorem ukcVelBody_X_lambda (m : ModelS α) (st : QS α) (qd : VecN α) (i : Nat) (w : WS α) :
    (ukcVelBody m st qd i w).X_lambda = upd w.X_lambda i (jcalcX m i st (w.X_lambda i)) := by
  unfold ukcVelBody
  dsimp only
  split <;> exact jcalc_X_lambda m w i st qd

/-- `X_base`, `X_lambda` after the full update are those after the position loop -/
theorem ukc_full_X (m : ModelS α) (w : WS α) (st : QS α) (qd : VecN α) (qdd : Option (VecN α)) :
    (updateKinematicsCustom m w (some st) (some qd) qdd).X_base
      = (updateKinematicsCustom m w (some st) none none).X_base ∧
    (updateKinematicsCustom m w (some st) (some qd) qdd).X_lambda
      = (updateKinematicsCustom m w (some st) none none).X_lambda := by
  rw [ukc_full_eq]
  generalize hw1 : updateKinematicsCustom m w (some st) none none = w1
  have hidem : ∀ i, 1 ≤ i → i < 1 + (m.nBodies - 1) →
      jcalcX m i st (w1.X_lambda i) = w1.X_lambda i := by
    intro i h1 h2
    rw [← hw1, ukc_X_lambda m w st i h1 (by omega), jcalcX_idem]
  have hvb : (forUp (m.nBodies - 1) 1 (ukcVelBody m st qd) w1).X_base = w1.X_base :=
    forUp_keep (fun w => w.X_base) _ _ _ (fun i s _ _ => ukcVelBody_X_base m st qd i s) w1
  have hvl : (forUp (m.nBodies - 1) 1 (ukcVelBody m st qd) w1).X_lambda = w1.X_lambda :=
    forUp_inv (fun s : WS α => s.X_lambda = w1.X_lambda) (ukcVelBody m st qd) _ _
      (fun i s h1 h2 h => by
        show (ukcVelBody m st qd i s).X_lambda = w1.X_lambda
        rw [ukcVelBody_X_lambda, h, hidem i h1 h2, upd_self]) w1 rfl
  cases qdd with
  | none => exact ⟨hvb, hvl⟩
  | some qdd =>
    constructor
    · show (forUp _ 1 (ukcAccBody m qdd) _).X_base = _
      rw [forUp_keep (fun w : WS α => w.X_base) (ukcAccBody m qdd) _ _ (fun i s _ _ => rfl), hvb]
    · show (forUp _ 1 (ukcAccBody m qdd) _).X_lambda = _
      rw [forUp_keep (fun w : WS α => w.X_lambda) (ukcAccBody m qdd) _ _ (fun i s _ _ => rfl), hvl]

/-- after `UpdateKinematicsCustom (Q, QDot, QDDot)` the workspace is kinematically consistent, for
    a model in tree order whose joints are of the types `jcalc` handles, with rotation joint frames
    and a state with unit (cos, sin) pairs / axes / quaternions -/
theorem kinOK_ukc (m : ModelS α) (w : WS α) (st : QS α) (qd : VecN α) (qdd : Option (VecN α))
    (htree : ∀ i, 1 ≤ i → i < m.nBodies → m.lam i < i)
    (hjc : ∀ i, 1 ≤ i → i < m.nBodies → (m.joint i).jt.hasJcalc = true)
    (hframe : ∀ i, 1 ≤ i → i < m.nBodies → (m.XT_ i).E.IsRot)
    (hunit : ∀ i, 1 ≤ i → i < m.nBodies → m.jointUnit i st)
    (h0 : (w.X_base 0).E.IsRot) :
    KinOK m (updateKinematicsCustom m w (some st) (some qd) qdd) := by
  obtain ⟨hb, hl⟩ := ukc_full_X m w st qd qdd
  have hs := C04.ukc_step m w st htree
  have hr := C04.isRot_invariant m w st htree hjc hframe hunit h0
  constructor
  · intro i h1 h2; exact htree i h1 (by omega)
  · intro i h1 h2; rw [hb, hl]; exact (hs.1 i h1 (by omega)).2
  · intro i h1 h2; rw [hb]; exact hr i (by omega)

/-- same for the position-only update -/
theorem kinOK_ukc_pos (m : ModelS α) (w : WS α) (st : QS α)
    (htree : ∀ i, 1 ≤ i → i < m.nBodies → m.lam i < i)
    (hjc : ∀ i, 1 ≤ i → i < m.nBodies → (m.joint i).jt.hasJcalc = true)
    (hframe : ∀ i, 1 ≤ i → i < m.nBodies → (m.XT_ i).E.IsRot)
    (hunit : ∀ i, 1 ≤ i → i < m.nBodies → m.jointUnit i st)
    (h0 : (w.X_base 0).E.IsRot) :
    KinOK m (updateKinematicsCustom m w (some st) none none) := by
  have hs := C04.ukc_step m w st htree
  have hr := C04.isRot_invariant m w st htree hjc hframe hunit h0
  constructor
  · intro i h1 h2; exact htree i h1 (by omega)
  · intro i h1 h2; exact (hs.1 i h1 (by omega)).2
  · intro i h1 h2; exact hr i (by omega)

end
end Rbdl.L12
