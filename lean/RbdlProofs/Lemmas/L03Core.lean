import RbdlProofs.Lemmas.L03Ent
/-
  Helper lemmas for C03, part 4: the algebraic core of "RNEA with a unit acceleration = column of
  the CRBA matrix", stated on plain arrays satisfying the recurrences of the two algorithms.
-/
namespace Rbdl.L03.Core
open Lean.Grind Rbdl Rbdl.Loops Rbdl.L03
set_option linter.unusedSectionVars false
set_option linter.unusedSimpArgs false

section
variable {α : Type} [Field α]

/-- the hypotheses: a tree in tree order on bodies `1..n`, rotations in the link transforms, and
    arrays satisfying the recurrences of the difference of two RNEA runs (unit acceleration in the
    coordinate whose motion-subspace column is `s`, at joint `j`) and of the CRBA composite
    inertias -/
structure Hyp (lam : Nat → Nat) (n : Nat) (Xl : Nat → XT α) (I Ic : Nat → RBI α)
    (DA DF Dff : Nat → SV α) (j : Nat) (s : SV α) : Prop where
  tree : ∀ c, 1 ≤ c → c ≤ n → lam c < c
  rot : ∀ i, 1 ≤ i → i ≤ n → (Xl i).E.IsRot
  j1 : 1 ≤ j
  jn : j ≤ n
  da0 : DA 0 = SV.zero
  da : ∀ i, 1 ≤ i → i ≤ n →
    DA i = (Xl i).apply (DA (lam i)) + (if i = j then s else SV.zero)
  df : ∀ i, 1 ≤ i → i ≤ n → DF i = I i * DA i
  dff : ∀ i, 1 ≤ i → i ≤ n →
    Dff i = DF i + lsum SV.zero (fun c => (Xl c).applyTranspose (Dff c)) (childrenOf lam n i)
  ic : ∀ i, 1 ≤ i → i ≤ n →
    Ic i = I i + lsum RBI.zero (fun c => (Xl c).applyTransposeRBI (Ic c)) (childrenOf lam n i)

variable {lam : Nat → Nat} {n : Nat} {Xl : Nat → XT α} {I Ic : Nat → RBI α}
  {DA DF Dff : Nat → SV α} {j : Nat} {s : SV α}

/-! ### algebra -/

theorem apply_zero (X : XT α) : X.apply SV.zero = SV.zero := by alg_ext
theorem sv_add_zero (v : SV α) : v + SV.zero = v := by alg_ext
theorem sv_zero_add (v : SV α) : SV.zero + v = v := by alg_ext
theorem applyTranspose_zero (X : XT α) : X.applyTranspose SV.zero = SV.zero := by alg_ext
theorem rbi_mul_zero (J : RBI α) : J * (SV.zero : SV α) = SV.zero := by alg_ext
theorem rbi_zero_mul (v : SV α) : (RBI.zero : RBI α) * v = SV.zero := by alg_ext
theorem rbi_add_mul (A B : RBI α) (v : SV α) : (A + B) * v = A * v + B * v := by alg_ext
theorem sm_mul_mulVec (A B : SM α) (v : SV α) : (A * B) * v = A * (B * v) := by alg_ext

/-- `(Xᵀ J X) v = Xᵀ (J (X v))` for the transposed transport of a rigid-body inertia -/
theorem aTR_mul (X : XT α) (h : X.E.IsRot) (J : RBI α) (v : SV α) :
    (X.applyTransposeRBI J) * v = X.applyTranspose (J * X.apply v) := by
  rw [C16.rbi_mulVec_eq, C16.applyTransposeRBI_toMatrix X h,
    C16.applyTranspose_eq_toMatrixTranspose, C16.rbi_mulVec_eq, C16.apply_eq_toMatrix,
    sm_mul_mulVec, sm_mul_mulVec]

theorem applyTranspose_dot (X : XT α) (y w : SV α) :
    (X.applyTranspose y).dot w = y.dot (X.apply w) := by
  rw [sv_dot_comm y, C16.apply_dot_eq_dot_applyTranspose, sv_dot_comm]

/-! ### sums -/

theorem lsum_zero {β : Type} [Add β] {z : β} (L : AddLaws z) (f : Nat → β) (l : List Nat)
    (h : ∀ c ∈ l, f c = z) : lsum z f l = z := by
  induction l with
  | nil => rfl
  | cons c l ih =>
    rw [lsum, h c (List.mem_cons_self ..), ih (fun c hc => h c (List.mem_cons_of_mem _ hc)),
      L.add_zero]

/-- a sum over a duplicate-free list with a single non-zero term -/
theorem lsum_single {β : Type} [Add β] {z : β} (L : AddLaws z) (f : Nat → β) (l : List Nat)
    (p : Nat) (hnd : l.Nodup) (hp : p ∈ l) (h0 : ∀ c ∈ l, c ≠ p → f c = z) :
    lsum z f l = f p := by
  induction l with
  | nil => cases hp
  | cons c l ih =>
    rw [List.nodup_cons] at hnd
    rw [lsum]
    by_cases hc : c = p
    · subst hc
      rw [lsum_zero L f l (fun x hx => h0 x (List.mem_cons_of_mem _ hx)
        (fun e => hnd.1 (e ▸ hx))), L.add_zero]
    · have hp' : p ∈ l := by
        rcases List.mem_cons.1 hp with e | e
        · exact absurd e.symm hc
        · exact e
      rw [h0 c (List.mem_cons_self ..) hc,
        ih hnd.2 hp' (fun x hx => h0 x (List.mem_cons_of_mem _ hx)), L.zero_add]

theorem childrenOf_nodup (lam : Nat → Nat) (n i : Nat) : (childrenOf lam n i).Nodup := by
  unfold childrenOf
  exact List.Nodup.sublist List.filter_sublist (List.nodup_range' 1)

/-! ### ancestors -/

/-- `j` is `i` or an ancestor of `i`, along movable bodies -/
def Anc (lam : Nat → Nat) (j i : Nat) : Prop := ∃ k, PathOK lam k i ∧ ancK lam k i = j

theorem ancK_succ' (lam : Nat → Nat) (k i : Nat) : ancK lam (k + 1) i = lam (ancK lam k i) := by
  rw [Nat.add_comm, ancK_add]; rfl

theorem anc_self (lam : Nat → Nat) (j : Nat) (hj : j ≠ 0) : Anc lam j j :=
  ⟨0, (pathOK_zero lam j).2 hj, rfl⟩

/-- from the parent to the child -/
theorem anc_child (lam : Nat → Nat) (j c : Nat) (hc : c ≠ 0) (h : Anc lam j (lam c)) :
    Anc lam j c := by
  obtain ⟨k, hp, hk⟩ := h
  exact ⟨k + 1, (pathOK_succ lam k c).2 ⟨hc, hp⟩, hk⟩

theorem anc_child_cases (lam : Nat → Nat) (j c : Nat) (h : Anc lam j c) :
    c = j ∨ Anc lam j (lam c) := by
  obtain ⟨k, hp, hk⟩ := h
  cases k with
  | zero => exact Or.inl hk
  | succ k => exact Or.inr ⟨k, ((pathOK_succ lam k c).1 hp).2, hk⟩

theorem path_parent (lam : Nat → Nat) (c j k : Nat) (hp : PathOK lam k j) (hk : ancK lam k j = c)
    (hl : lam c ≠ 0) : PathOK lam (k + 1) j ∧ ancK lam (k + 1) j = lam c := by
  have e : ancK lam (k + 1) j = lam c := by rw [ancK_succ', hk]
  refine ⟨?_, e⟩
  intro k' hk'
  by_cases h : k' ≤ k
  · exact hp k' h
  · have : k' = k + 1 := by omega
    subst this; rw [e]; exact hl

/-- from a body to its parent, on the ancestor side -/
theorem anc_parent (lam : Nat → Nat) (c j : Nat) (h : Anc lam c j) (hl : lam c ≠ 0) :
    Anc lam (lam c) j := by
  obtain ⟨k, hp, hk⟩ := h
  exact ⟨k + 1, path_parent lam c j k hp hk hl⟩

theorem anc_le (h : Hyp lam n Xl I Ic DA DF Dff j s) (a i : Nat) (hi : i ≤ n)
    (ha : Anc lam a i) : a ≤ i := by
  obtain ⟨k, hp, hk⟩ := ha
  have := ancK_le lam n h.tree k i hi hp
  omega

/-- a child of `i` is neither an ancestor of `j` nor below `j`, if `i` is not -/
theorem child_not_anc (lam : Nat → Nat) (j i c : Nat) (hi : i ≠ 0) (hl : lam c = i)
    (hji : ¬ Anc lam i j) : ¬ Anc lam c j := by
  intro hc
  subst hl
  exact hji (anc_parent lam c j hc hi)

theorem child_not_below (lam : Nat → Nat) (j i c : Nat) (hi : i ≠ 0) (hc0 : c ≠ 0)
    (hl : lam c = i) (hij : ¬ Anc lam j i) (hji : ¬ Anc lam i j) : ¬ Anc lam j c := by
  intro hc
  subst hl
  rcases anc_child_cases lam j c hc with e | e
  · subst e
    exact hji (anc_parent lam c c (anc_self lam c hc0) hi)
  · exact hij e

/-! ### the accelerations -/

/-- (a) the acceleration difference vanishes outside the subtree of `j` -/
theorem da_zero (h : Hyp lam n Xl I Ic DA DF Dff j s) :
    ∀ i, i ≤ n → ¬ Anc lam j i → DA i = SV.zero := by
  intro i
  induction i using Nat.strongRecOn with
  | _ i ih =>
    intro hi hn
    by_cases h0 : i = 0
    · subst h0; exact h.da0
    have h1 : 1 ≤ i := by omega
    have hl := h.tree i h1 hi
    have hij : i ≠ j := by
      intro e; subst e; exact hn (anc_self lam i h0)
    rw [h.da i h1 hi, if_neg hij,
      ih (lam i) hl (by omega) (fun ha => hn (anc_child lam j i h0 ha)), apply_zero, sv_add_zero]

/-- transport of a motion vector down `k` levels to body `i` -/
def downT (lam : Nat → Nat) (Xl : Nat → XT α) : Nat → Nat → SV α → SV α
  | 0, _, y => y
  | k+1, i, y => (Xl i).apply (downT lam Xl k (lam i) y)

/-- (b) in the subtree of `j` the acceleration difference is the transported `s` -/
theorem da_down (h : Hyp lam n Xl I Ic DA DF Dff j s) :
    ∀ k i, i ≤ n → PathOK lam k i → ancK lam k i = j → DA i = downT lam Xl k i s := by
  intro k
  induction k with
  | zero =>
    intro i hi hp hk
    have e : i = j := hk
    subst e
    have hl := h.tree i h.j1 hi
    have hz : DA (lam i) = SV.zero := by
      refine da_zero h (lam i) (by omega) ?_
      intro ha
      have := anc_le h i (lam i) (by omega) ha
      omega
    rw [h.da i h.j1 hi, if_pos rfl, hz, apply_zero, sv_zero_add]; rfl
  | succ k ih =>
    intro i hi hp hk
    obtain ⟨h0, hp'⟩ := (pathOK_succ lam k i).1 hp
    have h1 : 1 ≤ i := by omega
    have hl := h.tree i h1 hi
    have hle := ancK_le lam n h.tree (k + 1) i hi hp
    have hij : i ≠ j := by omega
    rw [h.da i h1 hi, if_neg hij, sv_add_zero, ih (lam i) (by omega) hp' hk]; rfl

/-- duality of the two transports -/
theorem upT_dot (lam : Nat → Nat) (Xl : Nat → XT α) (k i : Nat) (y z : SV α) :
    (upT lam Xl k i y).dot z = y.dot (downT lam Xl k i z) := by
  induction k generalizing i y with
  | zero => rfl
  | succ k ih =>
    show (upT lam Xl k (lam i) ((Xl i).applyTranspose y)).dot z
      = y.dot ((Xl i).apply (downT lam Xl k (lam i) z))
    rw [ih, applyTranspose_dot]

theorem upT_succ' (lam : Nat → Nat) (Xl : Nat → XT α) (k i : Nat) (y : SV α) :
    upT lam Xl (k + 1) i y = (Xl (ancK lam k i)).applyTranspose (upT lam Xl k i y) := by
  induction k generalizing i y with
  | zero => rfl
  | succ k ih =>
    show upT lam Xl (k + 1) (lam i) ((Xl i).applyTranspose y) = _
    rw [ih]; rfl

/-! ### the forces -/

/-- (c) in the subtree of `j` the accumulated force is the composite inertia times the
    acceleration -/
theorem dff_below (h : Hyp lam n Xl I Ic DA DF Dff j s) :
    ∀ d i, 1 ≤ i → i ≤ n → n - i < d → Anc lam j i → Dff i = Ic i * DA i := by
  intro d
  induction d with
  | zero => intro i _ _ hd; omega
  | succ d ih =>
    intro i h1 h2 hd ha
    rw [h.dff i h1 h2, h.ic i h1 h2, h.df i h1 h2, rbi_add_mul,
      lsum_map RBI.zero SV.zero (fun A => A * DA i) (rbi_zero_mul _)
        (fun a b => rbi_add_mul a b _)]
    congr 1
    apply lsum_congr
    intro c hc
    obtain ⟨⟨c1, c2⟩, hl⟩ := (mem_childrenOf lam).1 hc
    have hlt := h.tree c c1 c2
    subst hl
    have hA : Anc lam j c := anc_child lam j c (by omega) ha
    have hjl := anc_le h j (lam c) h2 ha
    have hcj : c ≠ j := by omega
    show (Xl c).applyTranspose (Dff c) = (Xl c).applyTransposeRBI (Ic c) * DA (lam c)
    rw [ih c c1 c2 (by omega) hA, aTR_mul _ (h.rot c c1 c2), h.da c c1 c2, if_neg hcj,
      sv_add_zero]

theorem unrelated_aux (h : Hyp lam n Xl I Ic DA DF Dff j s) :
    ∀ d i, 1 ≤ i → i ≤ n → n - i < d → ¬ Anc lam j i → ¬ Anc lam i j → Dff i = SV.zero := by
  intro d
  induction d with
  | zero => intro i _ _ hd; omega
  | succ d ih =>
    intro i h1 h2 hd hij hji
    rw [h.dff i h1 h2, h.df i h1 h2, da_zero h i h2 hij, rbi_mul_zero, sv_zero_add]
    apply lsum_zero L12.sv_addLaws
    intro c hc
    obtain ⟨⟨c1, c2⟩, hl⟩ := (mem_childrenOf lam).1 hc
    have hlt := h.tree c c1 c2
    rw [ih c c1 c2 (by omega)
      (child_not_below lam j i c (by omega) (by omega) hl hij hji)
      (child_not_anc lam j i c (by omega) hl hji), applyTranspose_zero]

/-- (C1) `j` is the `k`-th ancestor of `i` (or `i` itself, `k = 0`) -/
theorem below (h : Hyp lam n Xl I Ic DA DF Dff j s) (i : Nat) (h1 : 1 ≤ i) (h2 : i ≤ n) (k : Nat)
    (hp : PathOK lam k i) (hk : ancK lam k i = j) (x : SV α) :
    x.dot (Dff i) = (upT lam Xl k i (Ic i * x)).dot s := by
  rw [dff_below h (n - i + 1) i h1 h2 (by omega) ⟨k, hp, hk⟩, da_down h k i h2 hp hk,
    rbi_dot_symm, sv_dot_comm, upT_dot]

/-- (C2) `i = ancK k j` is the `k`-th ancestor of `j` (or `j` itself) -/
theorem above (h : Hyp lam n Xl I Ic DA DF Dff j s) (k : Nat) (hp : PathOK lam k j) :
    Dff (ancK lam k j) = upT lam Xl k j (Ic j * s) := by
  induction k with
  | zero =>
    show Dff j = Ic j * s
    have hj0 : j ≠ 0 := by have := h.j1; omega
    rw [dff_below h (n - j + 1) j h.j1 h.jn (by omega) (anc_self lam j hj0),
      da_down h 0 j h.jn hp rfl]; rfl
  | succ k ih =>
    have hpk : PathOK lam k j := pathOK_mono lam (k + 1) k j (by omega) hp
    have ih := ih hpk
    have hc0 : ancK lam k j ≠ 0 := hp k (by omega)
    have hi0 : ancK lam (k + 1) j ≠ 0 := hp (k + 1) (by omega)
    have hle := ancK_le lam n h.tree k j h.jn hpk
    have hjn := h.jn
    have c1 : 1 ≤ ancK lam k j := by omega
    have c2 : ancK lam k j ≤ n := by omega
    have hlt := h.tree _ c1 c2
    have hs : ancK lam (k + 1) j = lam (ancK lam k j) := ancK_succ' lam k j
    have hij : ancK lam (k + 1) j < j := by omega
    have hnb : ¬ Anc lam j (ancK lam (k + 1) j) := by
      intro ha
      have := anc_le h j _ (by omega) ha
      omega
    rw [h.dff _ (by omega) (by omega), h.df _ (by omega) (by omega),
      da_zero h _ (by omega) hnb, rbi_mul_zero, sv_zero_add, upT_succ', ← ih]
    refine lsum_single L12.sv_addLaws _ _ (ancK lam k j) (childrenOf_nodup lam n _)
      ((mem_childrenOf lam).2 ⟨⟨c1, c2⟩, hs.symm⟩) ?_
    intro c hc hne
    obtain ⟨⟨d1, d2⟩, hl⟩ := (mem_childrenOf lam).1 hc
    have hcj : ¬ Anc lam j c := by
      intro ha
      rcases anc_child_cases lam j c ha with e | e
      · subst e
        have hp1 : PathOK lam 1 c := pathOK_mono lam (k + 1) 1 c (by omega) hp
        have e1 : ancK lam 1 c = ancK lam (k + 1) c := hl
        have := ancK_inj lam n h.tree c d2 1 (k + 1) hp1 hp e1
        have hk0 : k = 0 := by omega
        subst hk0
        exact hne rfl
      · rw [hl] at e; exact hnb e
    have hjc : ¬ Anc lam c j := by
      intro ⟨k', hp', hk'⟩
      obtain ⟨hp2, e2⟩ := path_parent lam c j k' hp' hk' (by rw [hl]; exact hi0)
      rw [hl] at e2
      have := ancK_inj lam n h.tree j h.jn (k' + 1) (k + 1) hp2 hp e2
      have hkk : k' = k := by omega
      subst hkk
      exact hne hk'.symm
    rw [unrelated_aux h (n - c + 1) c d1 d2 (by omega) hcj hjc, applyTranspose_zero]

/-- (C3) `i` and `j` are unrelated -/
theorem unrelated (h : Hyp lam n Xl I Ic DA DF Dff j s) (i : Nat) (h1 : 1 ≤ i) (h2 : i ≤ n)
    (hij : ∀ k, PathOK lam k i → ancK lam k i ≠ j) (hji : ∀ k, PathOK lam k j → ancK lam k j ≠ i) :
    Dff i = SV.zero :=
  unrelated_aux h (n - i + 1) i h1 h2 (by omega)
    (fun ⟨k, hp, hk⟩ => hij k hp hk) (fun ⟨k, hp, hk⟩ => hji k hp hk)

end
end Rbdl.L03.Core
