import RbdlProofs.Lemmas.LDynCap
import RbdlProofs.Lemmas.L09Kin
import RbdlProofs.Props.C03
import RbdlProofs.Props.C13
/-
  Capstone for `CompositeRigidBodyAlgorithm`, code side:

  * `id_eq_sum`        entry `x` of `InverseDynamics` = `Σ_k (partial velocity of body k w.r.t. q̇_x) · F_k`
                       with the partial velocities taken from a forward pass with `q̇ = e_x`;
  * `accel_diff`       the accelerations of two forward passes with `q̈ = e_c` / `q̈ = 0` differ by the
                       velocity of the forward pass with `q̇ = e_c`;
  * `crba_entry_sum`   `H(r, c) = Σ_k V_r[k] · I_k V_c[k]` for the matrix `crba` computes from a zero
                       matrix with the kinematics update, on every `WSFixed` workspace.
-/
namespace Rbdl.LDynCap
open Lean.Grind Rbdl Rbdl.Spec Rbdl.L06 Rbdl.L01 Rbdl.Loops Rbdl.L01Cap
set_option linter.unusedSimpArgs false
set_option linter.unusedVariables false
set_option linter.unusedSectionVars false

section
variable {α : Type} [Field α] [DecidableEq α]

/-- forward pass of `InverseDynamics` with the unit generalized velocity `e_x`: its velocities are
    the partial velocities of the bodies -/
def unitW (m : ModelS α) (w : WS α) (st : QS α) (x : Nat) : WS α :=
  idForward m w st (unitV x) (fun _ => 0) none

theorem unitW_closed {m : ModelS α} (hm : ModelOK m) (w : WS α) (st : QS α) (x : Nat) :
    FwdClosed m st (unitV x) (fun _ => 0) w (unitW m w st x) :=
  (idForward_closed m hm.cinj hm.wf.lam_lt w st (unitV x) (fun _ => 0) none).1

/-- **d'Alembert with the partial velocities of a unit-velocity forward pass** -/
theorem id_eq_sum {m : ModelS α} (hm : ModelOK m) (w : WS α) (hw : WSFixed m w) (st : QS α)
    (qd qdd tau : VecN α) (fext : Option (Nat → SV α)) (x : Nat) (hx : x < m.dofCount) :
    (inverseDynamics m w st qd qdd tau fext).2 x
      = lsum 0 (fun k => ((unitW m w st x).v k).dot
          (netForce m fext (idForward m w st qd qdd fext) k)) (List.range' 1 (m.nBodies - 1)) := by
  have htree := hm.wf.lam_lt
  obtain ⟨hF, hFc, _⟩ := idForward_closed m hm.cinj htree w st qd qdd fext
  have hFx := unitW_closed hm w st x
  have hlen := scols_length_closed m hm.wf st qd qdd w _ hF hm.arity
  have hdisj := owns_disjoint_of_WF m _ hm.wf hlen
  obtain ⟨i, h1, h2', ho⟩ := owns_cover_of_WF m _ hm.wf hlen x hx
  rw [C01.inverse_dynamics_dalembert m hm.wf hm.cinj hm.arity w st qd qdd tau fext (m.nBodies - 1)
      (Nat.le_refl _) i x h1 h2' ho]
  refine lsum_congr _ _ _ (fun k hk => ?_)
  rw [List.mem_range'_1] at hk
  rw [unit_velocity_downTo m w _ _ st qd qdd _ x htree hm.jc (hm.jointWS hw) hF hFx hdisj i h1 h2'
    ho (m.nBodies - 1) k (by omega) (by omega)]

theorem sv_diff_step (X : XT α) (a1 a0 c s : SV α) :
    (X.apply a1 + c + s) - (X.apply a0 + c + SV.zero) = X.apply (a1 - a0) + s := by alg_ext

/-- the velocities of two forward passes with the same `q̇` agree; the accelerations for `q̈ = e_c`
    and `q̈ = 0` differ by the velocity of the forward pass with `q̇ = e_c` -/
theorem accel_diff {m : ModelS α} (hm : ModelOK m) (w : WS α) (hw : WSFixed m w) (st : QS α)
    (qd qddx : VecN α) (c : Nat) (W1 W0 Wc : WS α)
    (h1 : FwdClosed m st qd (unitV c) w W1) (h0 : FwdClosed m st qd (fun _ => 0) w W0)
    (hc : FwdClosed m st (unitV c) qddx w Wc) :
    ∀ k, k < m.nBodies → W1.v k = W0.v k ∧ W1.a k - W0.a k = Wc.v k := by
  have htree := hm.wf.lam_lt
  have hws := hm.jointWS hw
  intro k
  induction k using Nat.strongRecOn with
  | _ k ih =>
    intro hk
    by_cases hz : k = 0
    · subst hz
      rw [h1.v0, h0.v0, h1.a0, h0.a0, hc.v0]
      exact ⟨rfl, L01Cap.sv_sub_self _⟩
    · have k1 : 1 ≤ k := by omega
      have hlt := htree k k1 hk
      obtain ⟨ihv, iha⟩ := ih (m.lam k) hlt (by omega)
      have eX : W1.X_lambda k = W0.X_lambda k := by rw [h1.jX k k1 hk, h0.jX k k1 hk]
      have eXc : Wc.X_lambda k = W0.X_lambda k := by
        rw [hc.jX k k1 hk, h0.jX k k1 hk, jcalc_X_lambda, jcalc_X_lambda]
      have evJ : W1.v_J k = W0.v_J k := by rw [h1.jvJ k k1 hk, h0.jvJ k k1 hk]
      have ev : W1.v k = W0.v k := by
        rw [h1.v k k1 hk, h0.v k k1 hk, eX, evJ, ihv]
      have ec : W1.c k = W0.c k := by
        rw [h1.c k k1 hk, h0.c k k1 hk, ev, evJ, h1.jcJ k k1 hk, h0.jcJ k k1 hk]
      refine ⟨ev, ?_⟩
      have hS1 : W1.Sqdd m k (unitV c) = WS.Sqdd (jcalc m w k st qd) m k (unitV c) :=
        Sqdd_congr m W1 _ k _ (fun _ => h1.jS k k1 hk) (fun _ => h1.jS3 k k1 hk)
          (fun hcu => h1.jcS k k1 hk hcu)
      have hS0 : W0.Sqdd m k (fun _ => 0) = SV.zero := by
        rw [L09.Sqdd_eq_wsum]; exact L09.wsum_zeroFun 0 _
      have hvc : Wc.v_J k = WS.Sqdd (jcalc m w k st qd) m k (unitV c) := by
        rw [hc.jvJ k k1 hk, L05.jcalc_v_J_cols m w k st _ (hm.jc k k1 hk) (hws k k1 hk),
          L09.Sqdd_eq_wsum, jcalc_Scols_indep m w k st (unitV c) qd]
      rw [h1.a k k1 hk (hm.arity k k1 hk), h0.a k k1 hk (hm.arity k k1 hk), ec, eX, hS0, hS1,
        sv_diff_step, iha, hc.v k k1 hk, eXc, hvc]

theorem rbi_mul_sub (I : RBI α) (a b : SV α) : I * a - I * b = I * (a - b) := by alg_ext
theorem sv_add_sub_add (a b c : SV α) : (a + c) - (b + c) = a - b := by alg_ext

/-- difference of the body forces of two forward passes that differ in `q̈` only -/
theorem bodyForce_diff {m : ModelS α} (hv : VirtZero m) (W1 W0 : WS α) (k : Nat) (k1 : 1 ≤ k)
    (k2 : k < m.nBodies) (ev : W1.v k = W0.v k) :
    bodyForce m W1 k - bodyForce m W0 k = m.rbi k * (W1.a k - W0.a k) := by
  unfold bodyForce
  by_cases hvk : (m.body k).isVirtual = true
  · rw [if_pos hvk, if_pos hvk, hv k k1 k2 hvk, L03.Core.rbi_zero_mul]
    exact L01Cap.sv_sub_self _
  · rw [if_neg hvk, if_neg hvk, ev, sv_add_sub_add, rbi_mul_sub]

/-! ### the transforms and motion subspaces `crba` (with update) leaves in the workspace -/

/-- the custom-joint columns of body `k` (empty for the other joint types) -/
def csView (m : ModelS α) (s : WS α) (k : Nat) : List (SV α) :=
  if (m.joint k).jt = .custom then s.cS (m.joint k).customIdx else []

theorem cib_fields (m : ModelS α) (st : QS α) (i : Nat) (w : WS α) :
    (L03.crbaInitBody m st true i w).X_lambda = upd w.X_lambda i (jcalcX m i st (w.X_lambda i)) ∧
    (L03.crbaInitBody m st true i w).S = upd w.S i (L13.xlsS m i st (w.S i)) ∧
    (L03.crbaInitBody m st true i w).S3 = upd w.S3 i (L13.jcalcS3 m i st (w.S3 i)) ∧
    (L03.crbaInitBody m st true i w).cS = L13.jcalcCS m i st w.cS := by
  have e : L03.crbaInitBody m st true i w
      = { (jcalcXlambdaS m w i st) with Ic := upd (jcalcXlambdaS m w i st).Ic i (m.rbi i) } := rfl
  rw [e, L13.jcalcXlambdaS_eq]
  exact ⟨rfl, rfl, rfl, rfl⟩

theorem cib_csView_other (m : ModelS α) (hc : L01.CustomInj m) (st : QS α) (i : Nat) (w : WS α)
    (j : Nat) (hj : j ≠ i) :
    csView m (L03.crbaInitBody m st true i w) j = csView m w j := by
  unfold csView
  rw [(cib_fields m st i w).2.2.2]
  by_cases hcj : (m.joint j).jt = .custom
  · rw [if_pos hcj, if_pos hcj]
    unfold L13.jcalcCS
    by_cases hci : (m.joint i).jt = .custom
    · simp only [hci]
      rw [upd_other _ _ _ _ (fun e => hj (hc j i hcj hci e))]
    · cases h : (m.joint i).jt <;> first | exact absurd h hci | rfl
  · rw [if_neg hcj, if_neg hcj]

theorem cib_csView_self (m : ModelS α) (st : QS α) (i : Nat) (w : WS α)
    (hci : (m.joint i).jt = .custom) :
    csView m (L03.crbaInitBody m st true i w) i
      = (customCalc (m.custom (m.joint i).customIdx) (m.joint i).qIndex st zeroVec).2.1 := by
  unfold csView
  rw [(cib_fields m st i w).2.2.2, if_pos hci]
  unfold L13.jcalcCS
  simp only [hci]
  exact upd_same _ _ _

/-- the four arrays after `crba` with update, entry `i` -/
theorem crba_fields {m : ModelS α} (hc : L01.CustomInj m) (w : WS α) (st : QS α) (H : MatN α)
    (i : Nat) (h1 : 1 ≤ i) (h2 : i < m.nBodies) :
    (crba m w st H true).1.X_lambda i = jcalcX m i st (w.X_lambda i) ∧
    (crba m w st H true).1.S i = L13.xlsS m i st (w.S i) ∧
    (crba m w st H true).1.S3 i = L13.jcalcS3 m i st (w.S3 i) ∧
    ((m.joint i).jt = .custom → (crba m w st H true).1.cS (m.joint i).customIdx
      = (customCalc (m.custom (m.joint i).customIdx) (m.joint i).qIndex st zeroVec).2.1) := by
  rw [L03.crba_eq]
  refine ⟨?_, ?_, ?_, ?_⟩
  · rw [L03.crbaLoop_keep (fun w => w.X_lambda) (fun _ _ => rfl)]
    show (L03.crbaInit m w st true).X_lambda i = _
    unfold L03.crbaInit
    have hb : ∀ i s j, j ≠ i → (L03.crbaInitBody m st true i s).X_lambda j = s.X_lambda j :=
      fun i s j hj => by rw [(cib_fields m st i s).1, upd_other _ _ _ _ hj]
    rw [forUp_get_inside (fun s : WS α => s.X_lambda) _ hb _ _ _ i h1 (by omega), (cib_fields m st i _).1,
      upd_same, forUp_get_outside (fun s : WS α => s.X_lambda) _ hb _ _ _ i (by omega)]
  · rw [L03.crbaLoop_keep (fun w => w.S) (fun _ _ => rfl)]
    show (L03.crbaInit m w st true).S i = _
    unfold L03.crbaInit
    have hb : ∀ i s j, j ≠ i → (L03.crbaInitBody m st true i s).S j = s.S j :=
      fun i s j hj => by rw [(cib_fields m st i s).2.1, upd_other _ _ _ _ hj]
    rw [forUp_get_inside (fun s : WS α => s.S) _ hb _ _ _ i h1 (by omega), (cib_fields m st i _).2.1,
      upd_same, forUp_get_outside (fun s : WS α => s.S) _ hb _ _ _ i (by omega)]
  · rw [L03.crbaLoop_keep (fun w => w.S3) (fun _ _ => rfl)]
    show (L03.crbaInit m w st true).S3 i = _
    unfold L03.crbaInit
    have hb : ∀ i s j, j ≠ i → (L03.crbaInitBody m st true i s).S3 j = s.S3 j :=
      fun i s j hj => by rw [(cib_fields m st i s).2.2.1, upd_other _ _ _ _ hj]
    rw [forUp_get_inside (fun s : WS α => s.S3) _ hb _ _ _ i h1 (by omega), (cib_fields m st i _).2.2.1,
      upd_same, forUp_get_outside (fun s : WS α => s.S3) _ hb _ _ _ i (by omega)]
  · intro hci
    rw [L03.crbaLoop_keep (fun w => w.cS) (fun _ _ => rfl)]
    have : csView m (L03.crbaInit m w st true) i
        = (customCalc (m.custom (m.joint i).customIdx) (m.joint i).qIndex st zeroVec).2.1 := by
      unfold L03.crbaInit
      rw [forUp_get_inside (csView m) _ (cib_csView_other m hc st) _ _ _ i h1 (by omega),
        cib_csView_self m st i _ hci]
    unfold csView at this
    rw [if_pos hci] at this
    exact this

/-- the motion-subspace columns `crba` leaves are those `jcalc` computes (for any velocity) -/
theorem crba_Scols {m : ModelS α} (hm : ModelOK m) (w : WS α) (hw : WSFixed m w) (st : QS α)
    (H : MatN α) (qd : VecN α) (i : Nat) (h1 : 1 ≤ i) (h2 : i < m.nBodies) :
    (crba m w st H true).1.Scols m i = (jcalc m w i st qd).Scols m i := by
  obtain ⟨_, eS, eS3, ecS⟩ := crba_fields hm.cinj w st H i h1 h2
  refine L05.Scols_congr m _ _ i ?_ ?_ ?_
  · rw [eS, L13.jcalc_eq]
    show _ = upd w.S i (L13.jcalcS m i st (w.S i)) i
    rw [upd_same]
    exact L13.xlsS_of_fixed m i st _ _ _ _ (hw.2 i h1 h2)
  · rw [eS3, L13.jcalc_eq]
    show _ = upd w.S3 i (L13.jcalcS3 m i st (w.S3 i)) i
    rw [upd_same]
  · intro hci
    rw [ecS hci, L01.jcalc_cS, if_pos hci, upd_same]
    exact L13.customCalc_S _ _ _ _ _

theorem fwd_Scols {m : ModelS α} {st : QS α} {qd qdd : VecN α} {w W : WS α}
    (hF : FwdClosed m st qd qdd w W) (i : Nat) (h1 : 1 ≤ i) (h2 : i < m.nBodies) :
    W.Scols m i = (jcalc m w i st qd).Scols m i :=
  L01.Scols_congr m W _ i (fun _ => hF.jS i h1 h2) (fun _ => hF.jS3 i h1 h2)
    (fun hc => hF.jcS i h1 h2 hc)

theorem crba_scols_len {m : ModelS α} (hm : ModelOK m) (w : WS α) (hw : WSFixed m w) (st : QS α)
    (H : MatN α) (i : Nat) (h1 : 1 ≤ i) (h2 : i < m.nBodies) :
    ((crba m w st H true).1.Scols m i).length = (m.joint i).dof := by
  have hF := unitW_closed hm w st 0
  rw [crba_Scols hm w hw st H (unitV 0) i h1 h2, ← fwd_Scols hF i h1 h2]
  exact scols_length_closed m hm.wf st _ _ w _ hF hm.arity i h1 h2

/-- the velocity recursion of the unit-velocity forward pass, with the transforms and columns of the
    workspace `crba` leaves -/
theorem unitW_v_rec {m : ModelS α} (hm : ModelOK m) (w : WS α) (hw : WSFixed m w) (st : QS α)
    (H : MatN α) (c j : Nat) (j1 : 1 ≤ j) (j2 : j < m.nBodies)
    (ho : owns m (crba m w st H true).1 j c) (k : Nat) (k1 : 1 ≤ k) (k2 : k < m.nBodies) :
    (unitW m w st c).v k
      = ((crba m w st H true).1.X_lambda k).apply ((unitW m w st c).v (m.lam k))
        + (if k = j then ((crba m w st H true).1.Scols m j).getD (c - (m.joint j).qIndex) SV.zero
           else SV.zero) := by
  have hFx := unitW_closed hm w st c
  have hdisj := owns_disjoint_of_WF m _ hm.wf (crba_scols_len hm w hw st H)
  rw [hFx.v k k1 k2, hFx.jX k k1 k2, jcalc_X_lambda, upd_same,
    ← (crba_fields hm.cinj w st H k k1 k2).1, hFx.jvJ k k1 k2,
    jcalc_v_J_unit m w k st c (hm.jc k k1 k2) (hm.jointWS hw k k1 k2),
    ← crba_Scols hm w hw st H (unitV c) k k1 k2]
  congr 1
  by_cases hkj : k = j
  · subst hkj
    have ho' : (m.joint k).qIndex ≤ c ∧
        c < (m.joint k).qIndex + ((crba m w st H true).1.Scols m k).length := ho
    rw [if_pos rfl, if_pos ho']
  · have hno : ¬ ((m.joint k).qIndex ≤ c ∧
        c < (m.joint k).qIndex + ((crba m w st H true).1.Scols m k).length) :=
      fun h => hkj (hdisj k j c k1 k2 j1 j2 h ho)
    rw [if_neg hkj, if_neg hno]

/-- an array that satisfies the velocity recursion with the single source `x` at body `i` is the
    source carried down the tree -/
theorem rec_downTo (X : Nat → XT α) (lam : Nat → Nat) (N : Nat)
    (htree : ∀ k, 1 ≤ k → k < N → lam k < k) (V : Nat → SV α) (i : Nat) (x : SV α)
    (h0 : V 0 = SV.zero)
    (hrec : ∀ k, 1 ≤ k → k < N →
      V k = (X k).apply (V (lam k)) + (if k = i then x else SV.zero))
    (i1 : 1 ≤ i) (i2 : i < N) (fuel : Nat) :
    ∀ k, k < N → k ≤ fuel → V k = downTo X lam i fuel k x := by
  induction fuel with
  | zero =>
    intro k hk hk0
    have : k = 0 := by omega
    subst this
    simp only [downTo]
    rw [if_neg (by omega), h0]
  | succ f ihf =>
    intro k
    induction k using Nat.strongRecOn with
    | _ k ih =>
      intro hk hkf
      simp only [downTo]
      by_cases hz : k = 0
      · subst hz
        rw [h0, if_neg (by omega), if_pos (by omega)]
      · have k1 : 1 ≤ k := by omega
        have hlt := htree k k1 hk
        rw [hrec k k1 hk]
        by_cases hki : k = i
        · subst hki
          rw [if_pos rfl, if_pos rfl]
          have hp := ih (lam k) hlt (by omega) (by omega)
          simp only [downTo] at hp
          rw [if_neg (by omega), if_pos hlt] at hp
          rw [hp, L05.apply_zero, L05.sv_zero_add]
        · rw [if_neg hki, if_neg hki, L05.sv_add_zero]
          by_cases hlt' : k < i
          · rw [if_pos hlt']
            have hp := ih (lam k) hlt (by omega) (by omega)
            simp only [downTo] at hp
            rw [if_neg (by omega), if_pos (by omega)] at hp
            rw [hp, L05.apply_zero]
          · rw [if_neg hlt', ihf (lam k) (by omega) (by omega)]

end
end Rbdl.LDynCap
