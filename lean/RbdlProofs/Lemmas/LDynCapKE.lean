import RbdlProofs.Lemmas.LDynCapLin
import RbdlProofs.Lemmas.LDynCapUkc
import RbdlProofs.Props.C12
import RbdlProofs.Lemmas.LDynCapCom4
/-
  Capstone for `CalcKineticEnergy`: the kinetic energy is the quadratic form `½ q̇ᵀ H q̇` of the matrix
  `CompositeRigidBodyAlgorithm` computes.
-/
namespace Rbdl.LDynCap
open Lean.Grind Rbdl Rbdl.Spec Rbdl.L06 Rbdl.L01 Rbdl.Loops Rbdl.L01Cap Rbdl.L05
set_option linter.unusedSimpArgs false
set_option linter.unusedVariables false
set_option linter.unusedSectionVars false

section
variable {α : Type} [Field α] [DecidableEq α]

/-- the velocities `UpdateKinematicsCustom` leaves are those of the forward pass of
    `InverseDynamics` (both are the body-frame velocities of the same pose jets) -/
theorem ukc_v_eq_fwd {m : ModelS α} (hm : ModelOK m) (h2 : (2 : α) ≠ 0) (w W : WS α)
    (hw : WSFixed m w) (st : QS α) (hst : StateOK m st) (qd qdd : VecN α)
    (hF : FwdClosed m st qd qdd w W) (i : Nat) (i1 : 1 ≤ i) (i2 : i < m.nBodies) :
    (updateKinematicsCustom m w (some st) (some qd) (some qdd)).v i = W.v i := by
  have htree := hm.wf.lam_lt
  obtain ⟨ω, hK⟩ := ukc_closed hm w hw st qd qdd
  have hP0 := bodyPoseJet_zero m st qd qdd
  have hP := bodyPoseJet_step m st qd qdd htree
  have hA := kin_bodyForm m _ ω st qd qdd h2 htree hm.jc hm.frame hst hm.w3 hm.arity hK
    (bodyPoseJet m st qd qdd) hP0 hP i i1 i2
  have hB := fwd_bodyForm m w W st qd qdd h2 htree hm.jc hm.frame hst (hm.jointWS hw) hm.w3
    hm.arity hF (bodyPoseJet m st qd qdd) hP0 hP i i2
  rw [← hA.sv, ← hB.sv]

/-! ### bilinear expansion -/

theorem svSum_dot (n : Nat) (f : Nat → SV α) (y : SV α) :
    (svSum n f).dot y = sumTo n (fun r => (f r).dot y) := by
  unfold svSum
  rw [lsum_map SV.zero 0 (fun v : SV α => v.dot y) (L01.sv_zero_dot y)
    (fun a b => by simp only [alg]; grind), lsum_range_sumTo]

theorem dot_svSum (n : Nat) (y : SV α) (g : Nat → SV α) :
    y.dot (svSum n g) = sumTo n (fun c => y.dot (g c)) := by
  unfold svSum
  rw [lsum_map SV.zero 0 (fun v : SV α => y.dot v) (L01.sv_dot_zero y)
    (fun a b => L01.sv_dot_add y a b), lsum_range_sumTo]

theorem rbi_mul_svSum (I : RBI α) (n : Nat) (g : Nat → SV α) :
    I * svSum n g = svSum n (fun c => I * g c) :=
  lsum_map SV.zero SV.zero (fun v : SV α => I * v) (L03.Core.rbi_mul_zero I)
    (fun a b => by alg_ext) g _

theorem smul_dot (x : α) (a b : SV α) : (x * a).dot b = x * a.dot b := by
  simp only [alg]; grind
theorem dot_smul (x : α) (a b : SV α) : a.dot (x * b) = x * a.dot b := by
  simp only [alg]; grind
theorem rbi_mul_smul (I : RBI α) (x : α) (a : SV α) : I * (x * a) = x * (I * a) := by alg_ext

theorem lsum_sumTo_swap (D : Nat) (f : Nat → Nat → α) (l : List Nat) :
    lsum 0 (fun k => sumTo D (f k)) l = sumTo D (fun r => lsum 0 (fun k => f k r) l) := by
  induction D with
  | zero => exact lsum_zero l
  | succ D ih =>
    simp only [sumTo]
    rw [L01Cap.lsum_add, ih]

theorem lsum_smul (a : α) (f : Nat → α) (l : List Nat) :
    lsum 0 (fun k => a * f k) l = a * lsum 0 f l :=
  (lsum_map 0 0 (fun x : α => a * x) (by grind) (fun x y => by grind) f l).symm

theorem lsum_half (f : Nat → α) (l : List Nat) :
    lsum 0 (fun k => f k / 2) l = lsum 0 f l / 2 :=
  (lsum_map 0 0 (fun x : α => x / 2) (by grind) (fun x y => by grind) f l).symm

/-- **`Σ_k ½ v_k · I_k v_k = ½ q̇ᵀ H q̇`** for the velocities of a forward pass and the matrix of
    `CompositeRigidBodyAlgorithm` -/
theorem ke_quadratic {m : ModelS α} (hm : ModelOK m) (w W : WS α) (hw : WSFixed m w) (st : QS α)
    (hst : StateOK m st) (qd qdd : VecN α) (hF : FwdClosed m st qd qdd w W) :
    lsum 0 (fun k => (W.v k).dot (m.rbi k * W.v k) / 2) (List.range' 1 (m.nBodies - 1))
      = sumTo m.dofCount (fun r => sumTo m.dofCount (fun c =>
          qd r * (crba m w st (fun _ _ => 0) true).2 r c * qd c)) / 2 := by
  rw [lsum_half]
  congr 1
  have hterm : ∀ k ∈ List.range' 1 (m.nBodies - 1),
      (W.v k).dot (m.rbi k * W.v k)
        = sumTo m.dofCount (fun r => sumTo m.dofCount (fun c =>
            qd r * qd c * ((unitW m w st r).v k).dot (m.rbi k * (unitW m w st c).v k))) := by
    intro k hk
    rw [List.mem_range'_1] at hk
    rw [fwd_v_decomp hm w W hw st qd qdd hF k (by omega), svSum_dot]
    refine L09.sumTo_congr _ _ _ (fun r _ => ?_)
    rw [rbi_mul_svSum, dot_svSum]
    refine L09.sumTo_congr _ _ _ (fun c _ => ?_)
    rw [smul_dot, rbi_mul_smul, dot_smul]
    grind
  rw [lsum_congr _ _ _ hterm, lsum_sumTo_swap]
  refine L09.sumTo_congr _ _ _ (fun r hr => ?_)
  rw [lsum_sumTo_swap]
  refine L09.sumTo_congr _ _ _ (fun c hc => ?_)
  rw [lsum_smul, crba_entry_sum hm w hw st hst r c hr hc]
  grind

/-- **`CalcKineticEnergy = ½ q̇ᵀ H q̇`** with the matrix of `CompositeRigidBodyAlgorithm` -/
theorem ke_eq_quadratic {m : ModelS α} (hm : ModelOK m) (h2 : (2 : α) ≠ 0) (w : WS α)
    (hw : WSFixed m w) (st : QS α) (hst : StateOK m st) (qd : VecN α) :
    (calcKineticEnergy m w st qd true).2
      = sumTo m.dofCount (fun r => sumTo m.dofCount (fun c =>
          qd r * (crba m w st (fun _ _ => 0) true).2 r c * qd c)) / 2 := by
  have hk := C12.kinetic_energy_sum m w st qd true
  dsimp only at hk
  rw [hk]
  show lsum 0 (fun i => ((updateKinematicsCustom m w (some st) (some qd) none).v i).dot
    (m.rbi i * (updateKinematicsCustom m w (some st) (some qd) none).v i) / 2) _ = _
  rw [(ukc_none m w st qd (fun _ => 0)).2]
  obtain ⟨hF, _, _⟩ := idForward_closed m hm.cinj hm.wf.lam_lt w st qd (fun _ => 0) none
  rw [← ke_quadratic hm w _ hw st hst qd _ hF]
  refine lsum_congr _ _ _ (fun i hi => ?_)
  rw [List.mem_range'_1] at hi
  rw [ukc_v_eq_fwd hm h2 w _ hw st hst qd _ hF i hi.1 (by omega)]

end
end Rbdl.LDynCap
