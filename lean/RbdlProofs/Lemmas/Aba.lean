import RbdlProofs.Lemmas.Alg16
import RbdlProofs.Props.C16
/-
  C02, part 1: the local algebra of the articulated-body algorithm.

  (A1) one-DoF joint, (A2) three-DoF joint, (A3) congruence `Xᵀ Ia X` and the linear-algebra
  lemmas on `SV` / `SM` / `M63` they need.  Everything is stated for the expressions that
  `abaUD`, `abaIa`, `abaU`, `abaUDu`, `abaAccel` of `Rbdl/Dyn.lean` compute.
-/
namespace Rbdl.L02
open Lean.Grind Rbdl

attribute [ext] M63

/-- symmetric 6x6 matrix -/
def SymSM {α : Type} [CommRing α] (A : SM α) : Prop := A.transpose = A
/-- symmetric 3x3 matrix -/
def SymM3 {α : Type} [CommRing α] (A : M3 α) : Prop := A.transpose = A

/-- put the 3+3+9 = 15 scalar equations of `A.transpose = A` (6x6) into the context -/
macro "sym_cases " h:ident : tactic =>
  `(tactic| (simp only [SymSM, SymM3, SM.transpose, M3.transpose, SM.ext_iff, M3.ext_iff] at $h:ident))

section ring
variable {α : Type} [CommRing α]

/-! ### linear algebra on `SV` / `SM` -/

theorem sv_add_assoc (x y z : SV α) : x + y + z = x + (y + z) := by alg_ext
theorem sv_add_comm (x y : SV α) : x + y = y + x := by alg_ext
theorem sv_add_zero (x : SV α) : x + SV.zero = x := by alg_ext
theorem sv_zero_add (x : SV α) : SV.zero + x = x := by alg_ext
theorem sv_sub_self (x : SV α) : x - x = SV.zero := by alg_ext
theorem sv_add_sub_cancel (x y : SV α) : x - y + y = x := by alg_ext
theorem sv_zero_smul (x : SV α) : (0 : α) * x = SV.zero := by alg_ext
theorem sv_smul_zero (k : α) : k * (SV.zero : SV α) = SV.zero := by alg_ext

theorem dot_comm (x y : SV α) : x.dot y = y.dot x := by simp only [alg]; grind
theorem dot_add_right (x y z : SV α) : x.dot (y + z) = x.dot y + x.dot z := by
  simp only [alg]; grind
theorem dot_sub_right (x y z : SV α) : x.dot (y - z) = x.dot y - x.dot z := by
  simp only [alg]; grind
theorem dot_smul_right (x y : SV α) (k : α) : x.dot (k * y) = k * x.dot y := by
  simp only [alg]; grind
theorem dot_add_left (x y z : SV α) : (x + y).dot z = x.dot z + y.dot z := by
  simp only [alg]; grind
theorem dot_smul_left (x y : SV α) (k : α) : (k * x).dot y = k * x.dot y := by
  simp only [alg]; grind
theorem dot_zero_right (x : SV α) : x.dot SV.zero = 0 := by simp only [alg]; grind

theorem sm_mulVec_add (A : SM α) (x y : SV α) : A * (x + y) = A * x + A * y := by alg_ext
theorem sm_mulVec_sub (A : SM α) (x y : SV α) : A * (x - y) = A * x - A * y := by alg_ext
theorem sm_mulVec_smul (A : SM α) (k : α) (x : SV α) : A * (k * x) = k * (A * x) := by alg_ext
theorem sm_mulVec_zero (A : SM α) : A * (SV.zero : SV α) = SV.zero := by alg_ext
theorem sm_add_mulVec (A B : SM α) (x : SV α) : (A + B) * x = A * x + B * x := by alg_ext
theorem sm_sub_mulVec (A B : SM α) (x : SV α) : (A - B) * x = A * x - B * x := by alg_ext
theorem sm_zero_mulVec (x : SV α) : (SM.zero : SM α) * x = SV.zero := by alg_ext
theorem sm_mul_mulVec (A B : SM α) (x : SV α) : (A * B) * x = A * (B * x) := by alg_ext
theorem sm_mul_assoc (A B C : SM α) : (A * B) * C = A * (B * C) := by alg_ext
theorem sm_mul_add (A B C : SM α) : A * (B + C) = A * B + A * C := by alg_ext
theorem sm_add_mul (A B C : SM α) : (A + B) * C = A * C + B * C := by alg_ext
theorem sm_outer_mulVec (u v x : SV α) : SM.outer u v * x = v.dot x * u := by alg_ext

/-- `(A x + p) + (B x + q) = (A + B) x + (p + q)` -/
theorem force_acc (A B : SM α) (x p q : SV α) :
    (A * x + p) + (B * x + q) = (A + B) * x + (p + q) := by
  rw [sm_add_mulVec]
  generalize A * x = u
  generalize B * x = v
  alg_ext

/-- `xᵀ (A y) = (Aᵀ x)ᵀ y`; for symmetric `A`: `x · (A y) = (A x) · y` -/
theorem sm_sym_dot (A : SM α) (hs : SymSM A) (x y : SV α) : x.dot (A * y) = (A * x).dot y := by
  sym_cases hs
  simp only [alg]; grind

/-! ### transposes and symmetry -/

omit [CommRing α] in
theorem sm_transpose_transpose (A : SM α) : A.transpose.transpose = A := by alg_ext
theorem sm_transpose_mul (A B : SM α) : (A * B).transpose = B.transpose * A.transpose := by
  alg_ext
theorem sm_transpose_add (A B : SM α) : (A + B).transpose = A.transpose + B.transpose := by
  alg_ext
theorem sm_transpose_sub (A B : SM α) : (A - B).transpose = A.transpose - B.transpose := by
  alg_ext
theorem sm_transpose_outer (u v : SV α) : (SM.outer u v).transpose = SM.outer v u := by alg_ext
theorem sm_outer_smul_right (u v : SV α) (k : α) : SM.outer u (k * v) = k * SM.outer u v := by
  alg_ext
theorem sm_outer_smul_left (u v : SV α) (k : α) : SM.outer (k * u) v = k * SM.outer u v := by
  alg_ext

theorem symSM_add {A B : SM α} (ha : SymSM A) (hb : SymSM B) : SymSM (A + B) := by
  unfold SymSM at *; rw [sm_transpose_add, ha, hb]
theorem symSM_sub {A B : SM α} (ha : SymSM A) (hb : SymSM B) : SymSM (A - B) := by
  unfold SymSM at *; rw [sm_transpose_sub, ha, hb]
theorem symSM_zero : SymSM (SM.zero : SM α) := by unfold SymSM; alg_ext
theorem symSM_outer (u : SV α) (k : α) : SymSM (SM.outer u (k * u)) := by
  unfold SymSM; rw [sm_transpose_outer, sm_outer_smul_left, sm_outer_smul_right]
/-- the matrix of a `SpatialRigidBodyInertia` is symmetric -/
theorem symSM_rbi (I : RBI α) : SymSM I.toMatrix := by unfold SymSM; alg_ext

/-! ### (A3) congruence with a spatial transform -/

/-- (A3a) `X.applyTranspose f = Xᵀ f` (this is C16 #2) -/
theorem applyTranspose_eq (X : XT α) (f : SV α) :
    X.applyTranspose f = X.toMatrixTranspose * f := C16.applyTranspose_eq_toMatrixTranspose X f

/-- (A3b) `Xᵀ (Ia (X a)) = (Xᵀ Ia X) a` -/
theorem congr_mulVec (X : XT α) (Ia : SM α) (a : SV α) :
    X.toMatrixTranspose * (Ia * (X.toMatrix * a))
      = (X.toMatrixTranspose * Ia * X.toMatrix) * a := by
  rw [sm_mul_mulVec, sm_mul_mulVec]

/-- (A3b'), in the form the loops use: `Xᵀ.apply (Ia (X.apply a)) = (Xᵀ Ia X) a` -/
theorem congr_apply (X : XT α) (Ia : SM α) (a : SV α) :
    X.applyTranspose (Ia * X.apply a) = (X.toMatrixTranspose * Ia * X.toMatrix) * a := by
  rw [applyTranspose_eq, C16.apply_eq_toMatrix, congr_mulVec]

/-- (A3c) `Xᵀ Ia X` is symmetric for symmetric `Ia` -/
theorem symSM_congr (X : XT α) {Ia : SM α} (hs : SymSM Ia) :
    SymSM (X.toMatrixTranspose * Ia * X.toMatrix) := by
  unfold SymSM at *
  rw [sm_transpose_mul, sm_transpose_mul, C16.toMatrixTranspose_eq, sm_transpose_transpose, hs,
    sm_mul_assoc]

theorem applyTranspose_add (X : XT α) (f g : SV α) :
    X.applyTranspose (f + g) = X.applyTranspose f + X.applyTranspose g := by
  rw [applyTranspose_eq, applyTranspose_eq, applyTranspose_eq, sm_mulVec_add]

/-! ### `Matrix63` -/

theorem m63_lmul_mulV3 (A : SM α) (S : M63 α) (x : V3 α) :
    A * S.mulV3 x = (M63.lmulSM A S).mulV3 x := by
  simp only [M63.mulV3, M63.lmulSM, sm_mulVec_add, sm_mulVec_smul]

theorem m63_tmulSV_add (S : M63 α) (f g : SV α) : S.tmulSV (f + g) = S.tmulSV f + S.tmulSV g := by
  simp only [M63.tmulSV, dot_add_right, V3.add_def]
theorem m63_tmulSV_sub (S : M63 α) (f g : SV α) : S.tmulSV (f - g) = S.tmulSV f - S.tmulSV g := by
  simp only [M63.tmulSV, dot_sub_right, V3.sub_def]

/-- `Sᵀ (U x) = (Sᵀ U) x` -/
theorem m63_tmulSV_mulV3 (S U : M63 α) (x : V3 α) : S.tmulSV (U.mulV3 x) = S.tmul U * x := by
  simp only [M63.tmulSV, M63.mulV3, M63.tmul, dot_add_right, dot_smul_right]
  ext <;> simp only [alg] <;> grind

/-- `(U Vᵀ) x = U (Vᵀ x)` -/
theorem m63_mulT_mulVec (U V : M63 α) (x : SV α) : M63.mulT U V * x = U.mulV3 (V.tmulSV x) := by
  simp only [M63.mulT, M63.mulV3, M63.tmulSV, sm_add_mulVec, sm_outer_mulVec]

/-- `(U M) y = U (M y)` -/
theorem m63_mulM3_mulV3 (U : M63 α) (M : M3 α) (y : V3 α) :
    (U.mulM3 M).mulV3 y = U.mulV3 (M * y) := by
  ext <;> simp only [alg] <;> grind

theorem m63_mulV3_add (U : M63 α) (x y : V3 α) : U.mulV3 (x + y) = U.mulV3 x + U.mulV3 y := by
  ext <;> simp only [alg] <;> grind
theorem m63_mulV3_sub (U : M63 α) (x y : V3 α) : U.mulV3 (x - y) = U.mulV3 x - U.mulV3 y := by
  ext <;> simp only [alg] <;> grind

theorem m3_mulVec_add (M : M3 α) (x y : V3 α) : M * (x + y) = M * x + M * y := by alg_ext
theorem m3_mulVec_sub (M : M3 α) (x y : V3 α) : M * (x - y) = M * x - M * y := by alg_ext
theorem m3_mul_mulVec (A B : M3 α) (x : V3 α) : (A * B) * x = A * (B * x) := by alg_ext
theorem m3_one_mulVec (x : V3 α) : (M3.one : M3 α) * x = x := by alg_ext

/-- for symmetric `A`: `Sᵀ (A x) = (A S)ᵀ x` -/
theorem m63_sym_tmulSV (A : SM α) (hs : SymSM A) (S : M63 α) (x : SV α) :
    S.tmulSV (A * x) = (M63.lmulSM A S).tmulSV x := by
  simp only [M63.tmulSV, M63.lmulSM, sm_sym_dot A hs]

/-- `D = Sᵀ A S` is symmetric for symmetric `A` -/
theorem symM3_tmul (A : SM α) (hs : SymSM A) (S : M63 α) :
    SymM3 (S.tmul (M63.lmulSM A S)) := by
  unfold SymM3
  ext <;> simp only [M63.tmul, M63.lmulSM, M3.transpose] <;>
    first | rfl | (rw [sm_sym_dot A hs, dot_comm])

/-- `(U M) Uᵀ` is symmetric for symmetric `M` -/
theorem symSM_mulT (U : M63 α) (M : M3 α) (hm : SymM3 M) :
    SymSM (M63.mulT (U.mulM3 M) U) := by
  sym_cases hm
  unfold SymSM
  ext <;> simp only [alg] <;> grind

end ring

section field
variable {α : Type} [Field α]

/-! ### 3x3 inverse -/

/-- `A A⁻¹ = 1` for the cofactor inverse of the model -/
theorem m3_mul_inv (A : M3 α) (h : A.det ≠ 0) : A * M3.inv A = M3.one := by
  simp only [M3.det] at h
  ext <;> simp only [alg, M3.inv] <;> grind

/-- `A⁻¹ A = 1` -/
theorem m3_inv_mul (A : M3 α) (h : A.det ≠ 0) : M3.inv A * A = M3.one := by
  simp only [M3.det] at h
  ext <;> simp only [alg, M3.inv] <;> grind

/-- the inverse of a symmetric matrix is symmetric (no hypothesis on the determinant) -/
theorem symM3_inv (A : M3 α) (hs : SymM3 A) : SymM3 (M3.inv A) := by
  sym_cases hs
  unfold SymM3
  ext <;> simp only [alg, M3.inv] <;> grind

/-! ### (A1) one-DoF joint -/

/-- (A1a) the joint-space equation: `Sᵀ (IA a + pA) = τ` -/
theorem one_dof_tau (IA : SM α) (hs : SymSM IA) (S pA a' : SV α) (τ : α)
    (hd : S.dot (IA * S) ≠ 0) :
    S.dot (IA * (a' + ((1 / S.dot (IA * S)) * ((τ - S.dot pA) - (IA * S).dot a')) * S) + pA)
      = τ := by
  rw [sm_mulVec_add, sm_mulVec_smul, dot_add_right, dot_add_right, dot_smul_right,
    sm_sym_dot IA hs S a']
  generalize S.dot (IA * S) = d at hd ⊢
  generalize (IA * S).dot a' = x
  generalize S.dot pA = z
  grind

/-- (A1b) the force of the body as a function of the parent acceleration `ax = X a_λ`:
    `IA a + pA = Ia ax + pa` (holds for every `d`, `u`) -/
theorem one_dof_force (IA : SM α) (S pA c ax : SV α) (d u : α) :
    IA * ((ax + c) + ((1 / d) * (u - (IA * S).dot (ax + c))) * S) + pA
      = (IA - SM.outer (IA * S) ((1 / d) * (IA * S))) * ax
        + (pA + (IA - SM.outer (IA * S) ((1 / d) * (IA * S))) * c + (u / d) * (IA * S)) := by
  generalize hU : IA * S = U
  rw [sm_mulVec_add, sm_mulVec_smul, hU, sm_sub_mulVec, sm_sub_mulVec, sm_outer_mulVec,
    sm_outer_mulVec, dot_smul_left, dot_smul_left, dot_add_right, sm_mulVec_add]
  generalize IA * ax = p
  generalize IA * c = q
  generalize U.dot ax = s
  generalize U.dot c = t
  ext <;> simp only [alg] <;> grind

/-- (A1c) `Ia` is symmetric -/
theorem one_dof_Ia_sym (IA : SM α) (hs : SymSM IA) (U : SV α) (d : α) :
    SymSM (IA - SM.outer U ((1 / d) * U)) := symSM_sub hs (symSM_outer U _)

/-! ### (A2) three-DoF joint -/

/-- (A2a) the joint-space equation: `Sᵀ (IA a + pA) = τ₃`; `Dinv` only has to be a right inverse
    of `D = Sᵀ IA S` -/
theorem three_dof_tau (IA : SM α) (hs : SymSM IA) (S3 : M63 α) (pA a' : SV α) (τ3 : V3 α)
    (Dinv : M3 α) (hD : S3.tmul (M63.lmulSM IA S3) * Dinv = M3.one) :
    S3.tmulSV (IA * (a' + S3.mulV3 (Dinv * ((τ3 - S3.tmulSV pA)
        - (M63.lmulSM IA S3).tmulSV a'))) + pA) = τ3 := by
  rw [sm_mulVec_add, m63_lmul_mulV3, m63_tmulSV_add, m63_tmulSV_add, m63_tmulSV_mulV3,
    ← m3_mul_mulVec, hD, m3_one_mulVec, m63_sym_tmulSV IA hs]
  generalize (M63.lmulSM IA S3).tmulSV a' = x
  generalize S3.tmulSV pA = z
  alg_ext

/-- (A2b) `IA a + pA = Ia ax + pa` with the `Ia`, `pa` of `abaIa` / `abaUDu` (every `Dinv`, `u3`) -/
theorem three_dof_force (IA : SM α) (S3 : M63 α) (pA c ax : SV α) (Dinv : M3 α) (u3 : V3 α) :
    IA * ((ax + c) + S3.mulV3 (Dinv * (u3 - (M63.lmulSM IA S3).tmulSV (ax + c)))) + pA
      = (IA - M63.mulT ((M63.lmulSM IA S3).mulM3 Dinv) (M63.lmulSM IA S3)) * ax
        + (pA + (IA - M63.mulT ((M63.lmulSM IA S3).mulM3 Dinv) (M63.lmulSM IA S3)) * c
            + (M63.lmulSM IA S3).mulV3 (Dinv * u3)) := by
  rw [sm_mulVec_add, m63_lmul_mulV3]
  generalize M63.lmulSM IA S3 = U
  rw [sm_sub_mulVec, sm_sub_mulVec, m63_mulT_mulVec, m63_mulT_mulVec, m63_mulM3_mulV3,
    m63_mulM3_mulV3, m63_tmulSV_add, m3_mulVec_sub, m3_mulVec_add, m63_mulV3_sub, m63_mulV3_add,
    sm_mulVec_add]
  generalize IA * ax = p
  generalize IA * c = q
  generalize U.mulV3 (Dinv * U.tmulSV ax) = s
  generalize U.mulV3 (Dinv * U.tmulSV c) = t
  generalize U.mulV3 (Dinv * u3) = r
  alg_ext

/-- (A2c) `Ia` is symmetric (for symmetric `Dinv`) -/
theorem three_dof_Ia_sym (IA : SM α) (hs : SymSM IA) (U : M63 α) (Dinv : M3 α)
    (hD : SymM3 Dinv) : SymSM (IA - M63.mulT (U.mulM3 Dinv) U) :=
  symSM_sub hs (symSM_mulT U Dinv hD)

/-- the `Dinv` the model computes is symmetric -/
theorem three_dof_Dinv_sym (IA : SM α) (hs : SymSM IA) (S3 : M63 α) :
    SymM3 (M3.inv (S3.tmul (M63.lmulSM IA S3))) := symM3_inv _ (symM3_tmul IA hs S3)

end field
end Rbdl.L02
