import Rbdl.ModelWF
/-
  Helper lemmas for property C14 (construction state machine): list facts, the specification of
  `renumberW`, normal forms of `addBodyMovable` / `addBodyFixed`, preservation of `ModelS.WF`.
-/
namespace Rbdl
open Lean.Grind

/-- decidable equality of results, for the concrete `example`s -/
instance {ε β : Type} [DecidableEq ε] [DecidableEq β] : DecidableEq (Except ε β)
  | .ok a, .ok b => if h : a = b then isTrue (by rw [h]) else isFalse (by intro h'; cases h'; exact h rfl)
  | .error a, .error b =>
      if h : a = b then isTrue (by rw [h]) else isFalse (by intro h'; cases h'; exact h rfl)
  | .ok _, .error _ => isFalse (by intro h; cases h)
  | .error _, .ok _ => isFalse (by intro h; cases h)

/-! ### list facts -/
section ListFacts
variable {β : Type}

theorem getD_append_left (l l' : List β) (i : Nat) (d : β) (h : i < l.length) :
    (l ++ l').getD i d = l.getD i d := by
  simp [List.getD_eq_getElem?_getD, List.getElem?_append_left h]

theorem getD_append_last (l : List β) (x d : β) : (l ++ [x]).getD l.length d = x := by
  simp [List.getD_eq_getElem?_getD]

theorem getD_append_last' (l : List β) (x d : β) (i : Nat) (h : i = l.length) :
    (l ++ [x]).getD i d = x := by
  subst h; exact getD_append_last l x d

theorem getD_set_self (l : List β) (i : Nat) (v d : β) (h : i < l.length) :
    (l.set i v).getD i d = v := by
  simp [List.getD_eq_getElem?_getD, h]

theorem getD_set_ne (l : List β) (i k : Nat) (v d : β) (h : i ≠ k) :
    (l.set i v).getD k d = l.getD k d := by
  simp [List.getD_eq_getElem?_getD, h]

theorem getD_modify (l : List β) (i p : Nat) (f : β → β) (d : β) (h : i < l.length) :
    (l.modify i f).getD p d = if p = i then f (l.getD p d) else l.getD p d := by
  simp only [List.getD_eq_getElem?_getD, List.getElem?_modify]
  by_cases hp : p = i
  · subst hp; simp [h]
  · have hp' : ¬ i = p := fun h => hp h.symm
    simp only [hp', hp, if_false]
    cases l[p]? <;> rfl

theorem getD_append_default (l : List β) (d : β) (p : Nat) : (l ++ [d]).getD p d = l.getD p d := by
  by_cases h : p < l.length
  · exact getD_append_left _ _ _ _ h
  · simp only [List.getD_eq_getElem?_getD]
    rw [List.getElem?_append_right (by omega), List.getElem?_eq_none (l := l) (by omega)]
    cases hh : p - l.length <;> simp

theorem getLastD_eq_getD (l : List β) (d : β) : l.getLastD d = l.getD (l.length - 1) d := by
  simp [List.getD_eq_getElem?_getD, List.getLast?_eq_getElem?]

theorem mu_step (mu : List (List Nat)) (lambda : List Nat) (n mp : Nat) (hmu : mu.length = n)
    (hla : lambda.length = n) (hmp : mp < n)
    (hold : ∀ p c, c ∈ mu.getD p [] ↔ (1 ≤ c ∧ c < n ∧ lambda.getD c 0 = p)) :
    ∀ p c, c ∈ ((mu ++ [[]]).modify mp (fun l => l ++ [n])).getD p [] ↔
      (1 ≤ c ∧ c < n + 1 ∧ (lambda ++ [mp]).getD c 0 = p) := by
  intro p c
  rw [getD_modify _ _ _ _ _ (by simp [hmu]; omega), getD_append_default]
  have hnew : (lambda ++ [mp]).getD c 0 = if c < n then lambda.getD c 0 else if c = n then mp else (lambda ++ [mp]).getD c 0 := by
    by_cases h1 : c < n
    · rw [if_pos h1, getD_append_left _ _ _ _ (by omega)]
    · rw [if_neg h1]
      by_cases h2 : c = n
      · rw [if_pos h2, getD_append_last' _ _ _ _ (by omega)]
      · rw [if_neg h2]
  rw [hnew]
  have ho := hold p c
  by_cases hp : p = mp
  · rw [if_pos hp, List.mem_append, ho]
    simp only [List.mem_singleton]
    constructor
    · rintro (⟨h1, h2, h3⟩ | rfl)
      · exact ⟨h1, by omega, by rw [if_pos h2]; exact h3⟩
      · exact ⟨by omega, by omega, by rw [if_neg (by omega), if_pos rfl]; exact hp.symm⟩
    · rintro ⟨h1, h2, h3⟩
      by_cases hc : c < n
      · left; rw [if_pos hc] at h3; exact ⟨h1, hc, h3⟩
      · right; omega
  · rw [if_neg hp, ho]
    constructor
    · rintro ⟨h1, h2, h3⟩
      exact ⟨h1, by omega, by rw [if_pos h2]; exact h3⟩
    · rintro ⟨h1, h2, h3⟩
      by_cases hc : c < n
      · rw [if_pos hc] at h3; exact ⟨h1, hc, h3⟩
      · rw [if_neg hc, if_pos (by omega)] at h3; exact absurd h3.symm hp
end ListFacts

variable {α : Type}

/-! ### `renumberW` -/

/-- the predicate counted by `sphBefore` -/
def isSph (j : Joint α) : Bool := j.jt == .spherical

theorem sphBefore_eq (js : List (Joint α)) (i : Nat) :
    sphBefore js i = (js.take i).countP isSph := rfl

/-- the loop body of `renumberW` on projections -/
def renumStep (dc : Nat) (acc : List Nat × Nat × Nat) (j : Joint α) : List Nat × Nat × Nat :=
  if acc.2.1 ≠ 0 ∧ j.jt = .spherical then
    (acc.1.set acc.2.1 (dc + acc.2.2), acc.2.1 + 1, acc.2.2 + 1)
  else (acc.1, acc.2.1 + 1, acc.2.2)

theorem renumberW_eq (js : List (Joint α)) (w : List Nat) (dc : Nat) :
    ModelS.renumberW js w dc =
      ((js.foldl (renumStep dc) (w, 0, 0)).1, (js.foldl (renumStep dc) (w, 0, 0)).2.2) := rfl

theorem renum_fold (dc : Nat) : ∀ (js : List (Joint α)) (res : List Nat) (pos cnt : Nat),
    0 < pos →
    ((js.foldl (renumStep dc) (res, pos, cnt)).1.length = res.length) ∧
    ((js.foldl (renumStep dc) (res, pos, cnt)).2.2 = cnt + js.countP isSph) ∧
    (∀ i, i < pos → (js.foldl (renumStep dc) (res, pos, cnt)).1.getD i 0 = res.getD i 0) ∧
    (∀ k, k < js.length → pos + k < res.length → (js.getD k Joint.root).jt = .spherical →
      (js.foldl (renumStep dc) (res, pos, cnt)).1.getD (pos + k) 0
        = dc + cnt + (js.take k).countP isSph) := by
  intro js
  induction js with
  | nil => intro res pos cnt hp; simp
  | cons j js ih =>
    intro res pos cnt hp
    by_cases hs : j.jt = .spherical
    · have hstep : renumStep dc (res, pos, cnt) j = (res.set pos (dc + cnt), pos + 1, cnt + 1) := by
        simp [renumStep, hs]; omega
      have hsb : isSph j = true := by simp [isSph, hs]
      obtain ⟨h1, h2, h3, h4⟩ := ih (res.set pos (dc + cnt)) (pos + 1) (cnt + 1) (by omega)
      rw [List.foldl_cons, hstep]
      refine ⟨?_, ?_, ?_, ?_⟩
      · rw [h1, List.length_set]
      · rw [h2, List.countP_cons_of_pos hsb]; omega
      · intro i hi
        rw [h3 i (by omega), getD_set_ne _ _ _ _ _ (by omega)]
      · intro k hk hlt hsk
        cases k with
        | zero =>
          rw [show pos + 0 = pos from rfl, h3 pos (by omega), getD_set_self _ _ _ _ (by omega)]
          simp
        | succ k =>
          have := h4 k (by simpa using hk) (by rw [List.length_set]; omega) (by simpa using hsk)
          rw [show pos + (k + 1) = pos + 1 + k by omega, this, List.take_succ_cons,
            List.countP_cons_of_pos hsb]
          omega
    · have hstep : renumStep dc (res, pos, cnt) j = (res, pos + 1, cnt) := by
        simp [renumStep, hs]
      have hsb : ¬ isSph j = true := by simp [isSph, hs]
      obtain ⟨h1, h2, h3, h4⟩ := ih res (pos + 1) cnt (by omega)
      rw [List.foldl_cons, hstep]
      refine ⟨h1, ?_, ?_, ?_⟩
      · rw [h2, List.countP_cons_of_neg hsb]
      · intro i hi
        rw [h3 i (by omega)]
      · intro k hk hlt hsk
        cases k with
        | zero => simp at hsk; exact absurd hsk hs
        | succ k =>
          have := h4 k (by simpa using hk) (by omega) (by simpa using hsk)
          rw [show pos + (k + 1) = pos + 1 + k by omega, this, List.take_succ_cons,
            List.countP_cons_of_neg hsb]

/-- Specification of `renumberW` on a joint list whose entry 0 is not spherical: lengths are
    kept, the count is the number of spherical joints, and the `k`-th spherical joint (in index
    order) gets `dc + k`. -/
theorem renumberW_spec (js : List (Joint α)) (w : List Nat) (dc : Nat)
    (h0 : (js.getD 0 Joint.root).jt ≠ .spherical) (hlen : w.length = js.length) :
    (ModelS.renumberW js w dc).1.length = w.length ∧
    (ModelS.renumberW js w dc).2 = js.countP isSph ∧
    ∀ i, i < js.length → (js.getD i Joint.root).jt = .spherical →
      (ModelS.renumberW js w dc).1.getD i 0 = dc + (js.take i).countP isSph := by
  rw [renumberW_eq]
  cases js with
  | nil => simp
  | cons j0 js =>
    have hs : j0.jt ≠ .spherical := by simpa using h0
    have hsb : ¬ isSph j0 = true := by simp [isSph, hs]
    have hstep : renumStep dc (w, 0, 0) j0 = (w, 0 + 1, 0) := by simp [renumStep]
    obtain ⟨h1, h2, h3, h4⟩ := renum_fold dc js w (0 + 1) 0 (by omega)
    rw [List.foldl_cons, hstep]
    refine ⟨h1, ?_, ?_⟩
    · rw [h2, List.countP_cons_of_neg hsb]; omega
    · intro i hi hsi
      cases i with
      | zero => simp at hsi; exact absurd hsi hs
      | succ k =>
        have := h4 k (by simpa using hi) (by simp at hi hlen; omega) (by simpa using hsi)
        rw [List.take_succ_cons, List.countP_cons_of_neg hsb]
        rw [show 0 + 1 + k = k + 1 by omega] at this
        rw [this]; omega

theorem dofSum_append (js : List (Joint α)) (j : Joint α) :
    dofSum (js ++ [j]) = dofSum js + j.dof := by
  simp [dofSum]

theorem sphBefore_append_le (js : List (Joint α)) (j : Joint α) (i : Nat) (h : i ≤ js.length) :
    sphBefore (js ++ [j]) i = sphBefore js i := by
  simp [sphBefore, List.take_append_of_le_length h]

theorem sphBefore_all (js : List (Joint α)) (i : Nat) (h : js.length ≤ i) :
    sphBefore js i = js.countP isSph := by
  simp [sphBefore_eq, List.take_of_length_le h]

theorem sphBefore_succ (js : List (Joint α)) (i : Nat) (hi : i < js.length) :
    sphBefore js (i + 1) = sphBefore js i + (if (js.getD i Joint.root).jt = .spherical then 1 else 0) := by
  simp only [sphBefore_eq, List.take_add_one, List.countP_append, List.getD_eq_getElem?_getD,
    List.getElem?_eq_getElem hi, Option.toList_some, Option.getD_some]
  by_cases h : js[i].jt = .spherical
  · simp [isSph, h]
  · simp [isSph, h]

theorem sphBefore_mono (js : List (Joint α)) (i k : Nat) (h : i ≤ k) (hk : k ≤ js.length) :
    sphBefore js i ≤ sphBefore js k := by
  induction k with
  | zero => have : i = 0 := by omega
            subst this; exact Nat.le_refl _
  | succ k ih =>
    by_cases hik : i = k + 1
    · subst hik; exact Nat.le_refl _
    · have := ih (by omega) (by omega)
      rw [sphBefore_succ js k (by omega)]; omega

/-! ### normal form of `addBodyMovable` -/
namespace ModelS
variable [Field α]

def mpOf (m : ModelS α) (parent : Nat) : Nat :=
  if m.isFixedBodyId parent then (m.fixedBody (parent - fixedDisc)).movableParent else parent
def mpXOf (m : ModelS α) (parent : Nat) : XT α :=
  if m.isFixedBodyId parent then (m.fixedBody (parent - fixedDisc)).parentTransform else XT.id

def lqLastOf (m : ModelS α) : Nat :=
  let last := m.joints.getLastD Joint.root
  if last.dof > 0 ∧ last.jt ≠ .custom then last.qIndex + last.dof
    else if last.jt = .custom then last.qIndex + (m.custom last.customIdx).dof
    else last.qIndex

def newJoint (m : ModelS α) (j : Joint α) : Joint α :=
  { j with qIndex := (m.joints.getLastD Joint.root).qIndex + (m.joints.getLastD Joint.root).dof }

/-- the model after a successful `addBodyMovable`, written with projections -/
def movableResult (m : ModelS α) (parent : Nat) (frame : XT α) (j : Joint α) (b : Body α)
    (name : String) : ModelS α :=
  let joints' := m.joints ++ [m.newJoint j]
  let r := renumberW joints' (m.w3Index ++ [0]) (m.dofCount + j.dof)
  { m with
      lambda := m.lambda ++ [m.mpOf parent]
      lambdaQ := m.lambdaQ ++ (List.range j.dof).map (fun i => m.lqLastOf + i)
      mu := (m.mu ++ [[]]).modify (m.mpOf parent) (fun l => l ++ [m.bodies.length])
      bodies := m.bodies ++ [b]
      names := if name ≠ "" then m.names ++ [(name, m.bodies.length)] else m.names
      joints := joints'
      w3Index := r.1
      dofCount := m.dofCount + j.dof
      qSize := m.dofCount + j.dof + r.2
      qdotSize := m.qdotSize + j.dof
      xT := m.xT ++ [frame * m.mpXOf parent]
      I := m.I ++ [RBI.ofMassComInertiaC b.mass b.com b.inertia]
      prevBodyId := m.bodies.length
      updateOrder := groupOrder (indexed (joints'.map (·.jt)))
      sz := m.sz.push (m.bodies.length + 1) }

theorem addBodyMovable_eq (m : ModelS α) (parent : Nat) (frame : XT α) (j : Joint α)
    (b : Body α) (name : String) : addBodyMovable m parent frame j b name =
      if name ≠ "" ∧ m.hasName name then (m, .error .duplicateName)
      else (movableResult m parent frame j b name, .ok m.bodies.length) := by
  by_cases hd : name ≠ "" ∧ m.hasName name
  · simp only [addBodyMovable, if_pos hd]
  · by_cases hf : m.isFixedBodyId parent = true
    · simp only [addBodyMovable, movableResult, mpOf, mpXOf, lqLastOf, newJoint, if_neg hd,
        if_pos hf]
    · simp only [addBodyMovable, movableResult, mpOf, mpXOf, lqLastOf, newJoint, if_neg hd,
        if_neg hf]

/-- the movable parent resolved from a valid id is a movable body -/
theorem mpOf_lt (m : ModelS α) (hwf : m.WF) (parent : Nat) (hp : m.validId parent) :
    m.mpOf parent < m.nBodies := by
  unfold mpOf
  split
  · rename_i hf
    apply hwf.fixed_parent
    simp [isFixedBodyId] at hf
    omega
  · rename_i hf
    rcases hp with h | h
    · exact h
    · exact absurd h hf

theorem sizes_push (n : Nat) : (Sizes.uniform n).push (n + 1) = Sizes.uniform (n + 1) := rfl

/-- `addBodyMovable` keeps the invariant (when it is not rejected). -/
theorem wf_movableResult (m : ModelS α) (hwf : m.WF) (parent : Nat) (frame : XT α)
    (j : Joint α) (b : Body α) (name : String)
    (hp : m.validId parent) (hj : m.jointOk j) (hn : ¬(name ≠ "" ∧ m.hasName name)) :
    (movableResult m parent frame j b name).WF := by
  have hmp := mpOf_lt m hwf parent hp
  have hnb := hwf.nb_pos
  have hl1 := hwf.len_lambda
  have hl2 := hwf.len_mu
  have hl3 := hwf.len_joints
  have hl4 := hwf.len_xT
  have hl5 := hwf.len_w3
  have hl6 := hwf.len_I
  simp only [nBodies] at hmp hnb hl1 hl2 hl3 hl4 hl5 hl6
  -- the last joint
  have hlast : m.joints.getLastD Joint.root = m.joint (m.bodies.length - 1) := by
    rw [getLastD_eq_getD, hl3]; rfl
  -- joint 0 of the extended list
  have hj0 : ((m.joints ++ [m.newJoint j]).getD 0 Joint.root) = Joint.root := by
    rw [getD_append_left _ _ _ _ (by omega)]; exact hwf.joint_zero
  have hspec := renumberW_spec (m.joints ++ [m.newJoint j]) (m.w3Index ++ [0])
    (m.dofCount + j.dof) (by rw [hj0]; simp [Joint.root])
    (by simp [hl5, hl3])
  obtain ⟨hs1, hs2, hs3⟩ := hspec
  constructor
  · -- nb_pos
    simp [movableResult, nBodies]
  · simp [movableResult, nBodies, hl1]
  · simp [movableResult, nBodies, hl2]
  · simp [movableResult, nBodies, hl3]
  · simp [movableResult, nBodies, hl4]
  · simp only [movableResult, nBodies]; rw [hs1]; simp [hl5]
  · simp [movableResult, nBodies, hl6]
  · -- sizes
    have := hwf.sizes
    simp only [nBodies] at this
    simp only [movableResult, nBodies, this, List.length_append, List.length_cons,
      List.length_nil]
    exact sizes_push _
  · -- lam_zero
    have := hwf.lam_zero
    simp only [lam] at this
    simp only [movableResult, lam]
    rw [getD_append_left _ _ _ _ (by omega)]; exact this
  · -- lam_lt
    intro i h1 h2
    simp only [movableResult, nBodies, List.length_append, List.length_cons, List.length_nil] at h2
    simp only [movableResult, lam]
    by_cases hi : i < m.bodies.length
    · rw [getD_append_left _ _ _ _ (by omega)]
      exact hwf.lam_lt i h1 hi
    · rw [getD_append_last' _ _ _ _ (by omega)]; omega
  · -- joint_zero
    simp only [movableResult, joint]; exact hj0
  · -- q_contig
    intro i hi
    simp only [movableResult, nBodies, List.length_append, List.length_cons, List.length_nil] at hi
    simp only [movableResult, joint]
    by_cases hi' : i + 1 < m.bodies.length
    · rw [getD_append_left _ _ _ _ (by omega), getD_append_left _ _ _ _ (by omega)]
      exact hwf.q_contig i hi'
    · rw [getD_append_last' _ _ _ _ (by omega), getD_append_left _ _ _ _ (by omega)]
      have : i = m.bodies.length - 1 := by omega
      subst this
      simp only [newJoint, hlast, joint]
  · -- dof_sum
    simp only [movableResult]
    rw [dofSum_append, hwf.dof_sum]; rfl
  · -- qdot
    simp only [movableResult]; rw [hwf.qdot]
  · -- qsize
    simp only [movableResult, nBodies]
    rw [hs2, sphBefore_all _ _ (by simp [hl3])]
  · -- w3_sph
    intro i hi hsph
    simp only [movableResult, nBodies, List.length_append, List.length_cons, List.length_nil] at hi
    simp only [movableResult, joint] at hsph
    simp only [movableResult, w3, sphBefore_eq]
    exact hs3 i (by simp [hl3]; omega) hsph
  · -- names_ok
    intro p hpm
    simp only [movableResult, nBodies, List.length_append, List.length_cons, List.length_nil]
    simp only [movableResult] at hpm
    have hold : ∀ p ∈ m.names, p.2 < m.bodies.length + 1 ∨
        (fixedDisc ≤ p.2 ∧ p.2 - fixedDisc < m.fixedBodies.length) := by
      intro p hp
      rcases hwf.names_ok p hp with h | h
      · left; simp only [nBodies] at h; omega
      · right; exact h
    split at hpm
    · rcases List.mem_append.mp hpm with h | h
      · exact hold p h
      · simp at h; subst h; left; simp
    · exact hold p hpm
  · -- names_nodup
    simp only [movableResult]
    split
    · rename_i hne
      rw [List.pairwise_append]
      refine ⟨hwf.names_nodup, by simp, ?_⟩
      intro a ha c hc
      simp at hc; subst hc
      intro heq
      apply hn
      refine ⟨hne, ?_⟩
      simp only [hasName, List.any_eq_true]
      exact ⟨a, ha, by simp [heq]⟩
    · exact hwf.names_nodup
  · -- fixed_parent
    intro k hk
    have := hwf.fixed_parent k hk
    simp only [nBodies] at this
    simp only [movableResult, nBodies, fixedBody, List.length_append, List.length_cons,
      List.length_nil]
    simp only [fixedBody] at this
    omega
  · -- custom_ok
    intro i hi
    simp only [movableResult, nBodies, List.length_append, List.length_cons, List.length_nil] at hi
    simp only [movableResult, joint]
    by_cases hi' : i < m.bodies.length
    · rw [getD_append_left _ _ _ _ (by omega)]
      exact hwf.custom_ok i hi'
    · rw [getD_append_last' _ _ _ _ (by omega)]
      exact hj
  · -- prev_ok
    left; simp [movableResult, nBodies]
  · exact hwf.fixed_cap
  · -- q_last
    have hq := hwf.q_last
    show ((m.joints ++ [m.newJoint j]).getD ((m.bodies ++ [b]).length - 1) Joint.root).qIndex +
      ((m.joints ++ [m.newJoint j]).getD ((m.bodies ++ [b]).length - 1) Joint.root).dof =
      m.dofCount + j.dof
    rw [getD_append_last' _ _ _ _ (by simp [hl3])]
    show (m.joints.getLastD Joint.root).qIndex + (m.joints.getLastD Joint.root).dof + j.dof = _
    rw [hlast]; simp only [nBodies] at hq; rw [hq]
  · -- lambdaQ_eq
    have hq := hwf.q_last
    have hc := hwf.custom_ok (m.bodies.length - 1) (by simp only [nBodies]; omega)
    simp only [nBodies] at hq
    have hlq : m.lqLastOf = m.dofCount := by
      simp only [lqLastOf, hlast]
      split
      · exact hq
      · split
        · rename_i hcu
          rw [← (hc hcu).2]; exact hq
        · rename_i h1 h2
          have : (m.joint (m.bodies.length - 1)).dof = 0 := by
            cases hh : (m.joint (m.bodies.length - 1)).dof with
            | zero => rfl
            | succ k => exact absurd ⟨by omega, h2⟩ h1
          omega
    show m.lambdaQ ++ (List.range j.dof).map (fun i => m.lqLastOf + i) =
      0 :: List.range (m.dofCount + j.dof)
    rw [hlq, hwf.lambdaQ_eq, List.range_add]; rfl
  · -- mu_children
    intro p c
    simp only [movableResult, nBodies, lam, List.length_append, List.length_cons,
      List.length_nil]
    exact mu_step m.mu m.lambda m.bodies.length (m.mpOf parent) hl2 hl1 hmp
      (fun p c => hwf.mu_children p c) p c

/-! ### normal form of `addBodyFixed` -/
section Fixed
variable [DecidableEq α]

def fpXOf (m : ModelS α) (parent : Nat) (frame : XT α) : XT α :=
  if m.isFixedBodyId parent then frame * (m.fixedBody (parent - fixedDisc)).parentTransform
  else frame

/-- the model after a successful `addBodyFixed` (`pb` is the joined parent body) -/
def fixedResult (m : ModelS α) (parent : Nat) (frame : XT α) (b : Body α) (name : String)
    (pb : Body α) : ModelS α :=
  { m with
      bodies := m.bodies.set (m.mpOf parent) pb
      I := m.I.set (m.mpOf parent) (RBI.ofMassComInertiaC pb.mass pb.com pb.inertia)
      fixedBodies := m.fixedBodies ++
        [⟨b.mass, b.com, b.inertia, m.mpOf parent, m.fpXOf parent frame⟩]
      names := if name ≠ "" then m.names ++ [(name, m.fixedBodies.length + fixedDisc)]
               else m.names
      prevBodyId := m.fixedBodies.length + fixedDisc }

theorem addBodyFixed_dup (m : ModelS α) (parent : Nat) (frame : XT α) (b : Body α)
    (name : String) (hd : name ≠ "" ∧ m.hasName name) :
    addBodyFixed m parent frame b name = (m, .error .duplicateName) := by
  simp only [addBodyFixed, if_pos hd]

theorem addBodyFixed_none (m : ModelS α) (parent : Nat) (frame : XT α) (b : Body α)
    (name : String) (hd : ¬(name ≠ "" ∧ m.hasName name))
    (hjoin : (m.body (m.mpOf parent)).join (m.fpXOf parent frame) b = none) :
    addBodyFixed m parent frame b name = (m, .error .zeroMass) := by
  by_cases hf : m.isFixedBodyId parent = true
  · simp only [mpOf, fpXOf, if_pos hf] at hjoin
    simp only [addBodyFixed, if_neg hd, if_pos hf, hjoin]
  · simp only [mpOf, fpXOf, if_neg hf] at hjoin
    simp only [addBodyFixed, if_neg hd, if_neg hf, hjoin]

theorem addBodyFixed_some (m : ModelS α) (parent : Nat) (frame : XT α) (b : Body α)
    (name : String) (pb : Body α) (hd : ¬(name ≠ "" ∧ m.hasName name))
    (hjoin : (m.body (m.mpOf parent)).join (m.fpXOf parent frame) b = some pb) :
    addBodyFixed m parent frame b name =
      (fixedResult m parent frame b name pb, .ok (m.fixedBodies.length + fixedDisc)) := by
  by_cases hf : m.isFixedBodyId parent = true
  · simp only [mpOf, fpXOf, if_pos hf] at hjoin
    simp only [addBodyFixed, fixedResult, mpOf, fpXOf, if_neg hd, if_pos hf, hjoin]
  · simp only [mpOf, fpXOf, if_neg hf] at hjoin
    simp only [addBodyFixed, fixedResult, mpOf, fpXOf, if_neg hd, if_neg hf, hjoin]

omit [DecidableEq α] in
theorem wf_fixedResult (m : ModelS α) (hwf : m.WF) (parent : Nat) (frame : XT α)
    (b : Body α) (name : String) (pb : Body α)
    (hp : m.validId parent) (hcap : m.fixedBodies.length ≤ fixedDisc)
    (hn : ¬(name ≠ "" ∧ m.hasName name)) :
    (fixedResult m parent frame b name pb).WF := by
  have hmp := mpOf_lt m hwf parent hp
  have hnbe : (fixedResult m parent frame b name pb).nBodies = m.nBodies := by
    simp [fixedResult, nBodies]
  constructor
  · rw [hnbe]; exact hwf.nb_pos
  · rw [hnbe]; exact hwf.len_lambda
  · rw [hnbe]; exact hwf.len_mu
  · rw [hnbe]; exact hwf.len_joints
  · rw [hnbe]; exact hwf.len_xT
  · rw [hnbe]; exact hwf.len_w3
  · rw [hnbe]; simp only [fixedResult, List.length_set]; exact hwf.len_I
  · rw [hnbe]; exact hwf.sizes
  · exact hwf.lam_zero
  · rw [hnbe]; exact hwf.lam_lt
  · exact hwf.joint_zero
  · rw [hnbe]; exact hwf.q_contig
  · exact hwf.dof_sum
  · exact hwf.qdot
  · rw [hnbe]; exact hwf.qsize
  · rw [hnbe]; exact hwf.w3_sph
  · -- names_ok
    intro p hpm
    rw [hnbe]
    simp only [fixedResult, List.length_append, List.length_cons, List.length_nil]
    simp only [fixedResult] at hpm
    have hold : ∀ p ∈ m.names, p.2 < m.nBodies ∨
        (fixedDisc ≤ p.2 ∧ p.2 - fixedDisc < m.fixedBodies.length + 1) := by
      intro p hp
      rcases hwf.names_ok p hp with h | h
      · left; exact h
      · right; omega
    split at hpm
    · rcases List.mem_append.mp hpm with h | h
      · exact hold p h
      · simp at h; subst h; right; simp
    · exact hold p hpm
  · -- names_nodup
    simp only [fixedResult]
    split
    · rename_i hne
      rw [List.pairwise_append]
      refine ⟨hwf.names_nodup, by simp, ?_⟩
      intro a ha c hc
      simp at hc; subst hc
      intro heq
      apply hn
      refine ⟨hne, ?_⟩
      simp only [hasName, List.any_eq_true]
      exact ⟨a, ha, by simp [heq]⟩
    · exact hwf.names_nodup
  · -- fixed_parent
    intro k hk
    rw [hnbe]
    simp only [fixedResult, List.length_append, List.length_cons, List.length_nil] at hk
    simp only [fixedResult, fixedBody]
    by_cases hk' : k < m.fixedBodies.length
    · rw [getD_append_left _ _ _ _ hk']
      exact hwf.fixed_parent k hk'
    · rw [getD_append_last' _ _ _ _ (by omega)]
      exact hmp
  · rw [hnbe]; exact hwf.custom_ok
  · -- prev_ok
    right
    simp [fixedResult, isFixedBodyId, fixedDisc] at hcap ⊢
    omega
  · simp only [fixedResult, List.length_append, List.length_cons, List.length_nil]; omega
  · rw [hnbe]; exact hwf.q_last
  · exact hwf.lambdaQ_eq
  · rw [hnbe]; exact hwf.mu_children

end Fixed

/-! ### what a successful addition keeps and adds -/

/-- `k ≥ 1` movable bodies were added, the last one carries `name` -/
structure AddedMovable (m m' : ModelS α) (k : Nat) (name : String) : Prop where
  nb : m'.bodies.length = m.bodies.length + k
  fixed : m'.fixedBodies = m.fixedBodies
  custom : m.customJoints <+: m'.customJoints
  prev : m'.prevBodyId = m.bodies.length + k - 1
  names : m'.names =
    if name ≠ "" then m.names ++ [(name, m.bodies.length + k - 1)] else m.names
  lambda : m.lambda <+: m'.lambda
  lambdaQ : m.lambdaQ <+: m'.lambdaQ
  joints : m.joints <+: m'.joints
  xT : m.xT <+: m'.xT

/-- one fixed body was added (merged into its movable parent), carrying `name` -/
structure AddedFixed (m m' : ModelS α) (name : String) : Prop where
  nb : m'.bodies.length = m.bodies.length
  fixed : ∃ fb, m'.fixedBodies = m.fixedBodies ++ [fb]
  custom : m'.customJoints = m.customJoints
  prev : m'.prevBodyId = m.fixedBodies.length + fixedDisc
  names : m'.names =
    if name ≠ "" then m.names ++ [(name, m.fixedBodies.length + fixedDisc)] else m.names
  lambda : m'.lambda = m.lambda
  lambdaQ : m'.lambdaQ = m.lambdaQ
  joints : m'.joints = m.joints
  xT : m'.xT = m.xT

theorem added_movableResult (m : ModelS α) (parent : Nat) (frame : XT α) (j : Joint α)
    (b : Body α) (name : String) :
    AddedMovable m (movableResult m parent frame j b name) 1 name := by
  constructor
  · simp [movableResult]
  · rfl
  · exact List.prefix_refl _
  · simp [movableResult]
  · simp [movableResult]
  · exact List.prefix_append _ _
  · exact List.prefix_append _ _
  · exact List.prefix_append _ _
  · exact List.prefix_append _ _

omit [Field α] in
theorem AddedMovable.trans_unnamed {m m1 m2 : ModelS α} {k : Nat} {name : String}
    (h1 : AddedMovable m m1 1 "") (h2 : AddedMovable m1 m2 k name) :
    AddedMovable m m2 (1 + k) name := by
  have hn1 : m1.names = m.names := by simpa using h1.names
  constructor
  · rw [h2.nb, h1.nb]; omega
  · rw [h2.fixed, h1.fixed]
  · exact h1.custom.trans h2.custom
  · rw [h2.prev, h1.nb]; omega
  · rw [h2.names, hn1, h1.nb]
    rw [show m.bodies.length + 1 + k - 1 = m.bodies.length + (1 + k) - 1 by omega]
  · exact h1.lambda.trans h2.lambda
  · exact h1.lambdaQ.trans h2.lambdaQ
  · exact h1.joints.trans h2.joints
  · exact h1.xT.trans h2.xT

omit [Field α] in
theorem hasName_congr {m m1 : ModelS α} (h : m1.names = m.names) (name : String) :
    m1.hasName name = m.hasName name := by
  simp [hasName, h]

omit [Field α] in
theorem not_dup_empty (m : ModelS α) : ¬(("" : String) ≠ "" ∧ m.hasName "") := by
  intro h; exact h.1 rfl

/-- an unnamed movable addition: result, validity of the new id, names unchanged -/
theorem addBodyMovable_unnamed (m : ModelS α) (parent : Nat) (frame : XT α) (j : Joint α)
    (b : Body α) :
    addBodyMovable m parent frame j b "" =
      (movableResult m parent frame j b "", .ok m.bodies.length) := by
  rw [addBodyMovable_eq, if_neg (not_dup_empty m)]

theorem movableResult_names_unnamed (m : ModelS α) (parent : Nat) (frame : XT α) (j : Joint α)
    (b : Body α) : (movableResult m parent frame j b "").names = m.names := by
  simp [movableResult]

theorem movableResult_validId_new (m : ModelS α) (parent : Nat) (frame : XT α) (j : Joint α)
    (b : Body α) (name : String) :
    (movableResult m parent frame j b name).validId m.bodies.length := by
  left; simp [movableResult, nBodies]

theorem jointOk_movableResult (m : ModelS α) (parent : Nat) (frame : XT α) (j j2 : Joint α)
    (b : Body α) (name : String) (h : m.jointOk j2) :
    (movableResult m parent frame j b name).jointOk j2 := h

/-! ### chains of emulated 1-DoF joints -/
section Chain
variable [DecidableEq α]

theorem jointOk_ofAxis (m : ModelS α) (a : SV α) : m.jointOk (Joint.ofAxis a) := by
  intro h
  simp only [Joint.ofAxis] at h
  split at h <;> try (exact absurd h (by decide))
  split at h <;> try (exact absurd h (by decide))
  split at h <;> try (exact absurd h (by decide))
  split at h <;> exact absurd h (by decide)

theorem addChain_spec (b : Body α) (name : String) : ∀ (axes : List (SV α)) (m : ModelS α)
    (parent : Nat) (frame : XT α), axes ≠ [] → ¬(name ≠ "" ∧ m.hasName name) →
    ∃ m', addChain m parent frame axes b name = (m', .ok (m.bodies.length + axes.length - 1)) ∧
      AddedMovable m m' axes.length name ∧ (m.WF → m.validId parent → m'.WF) := by
  intro axes
  induction axes with
  | nil => intro m parent frame h; exact absurd rfl h
  | cons a rest ih =>
    intro m parent frame _ hd
    cases rest with
    | nil =>
      refine ⟨movableResult m parent frame (Joint.ofAxis a) b name, ?_, ?_, ?_⟩
      · simp only [addChain]
        rw [addBodyMovable_eq, if_neg hd]; rfl
      · exact added_movableResult ..
      · intro hwf hp
        exact wf_movableResult m hwf parent frame _ b name hp (jointOk_ofAxis m a) hd
    | cons a2 rest2 =>
      have hd1 : ¬(name ≠ "" ∧
          (movableResult m parent frame (Joint.ofAxis a) nullBody "").hasName name) := by
        rw [hasName_congr (movableResult_names_unnamed ..)]; exact hd
      obtain ⟨m', he, ha, hw⟩ := ih (movableResult m parent frame (Joint.ofAxis a) nullBody "")
        m.bodies.length XT.id (by simp) hd1
      refine ⟨m', ?_, ?_, ?_⟩
      · simp only [addChain]
        rw [addBodyMovable_unnamed]
        simp only
        rw [he]
        have := (added_movableResult m parent frame (Joint.ofAxis a) nullBody "").nb
        rw [this]; simp only [List.length_cons]
        congr 2; omega
      · have := (added_movableResult m parent frame (Joint.ofAxis a) nullBody "").trans_unnamed ha
        simpa [Nat.add_comm] using this
      · intro hwf hp
        exact hw (wf_movableResult m hwf parent frame _ nullBody "" hp (jointOk_ofAxis m a)
          (not_dup_empty m)) (movableResult_validId_new ..)

end Chain

/-! ### `addBody`, `appendBody`, `addBodyCustomJoint` -/
section AddBody
variable [DecidableEq α]

def floatT : Joint α :=
  ⟨.translationXYZ, [sv6 0 0 0 1 0 0, sv6 0 0 0 0 1 0, sv6 0 0 0 0 0 1], 3, 0, noCustom⟩
def floatS : Joint α :=
  ⟨.spherical, [sv6 0 0 1 0 0 0, sv6 0 1 0 0 0 0, sv6 1 0 0 0 0 0], 3, 0, noCustom⟩

/-- the floating-base expansion -/
def addFloating (m : ModelS α) (parent : Nat) (frame : XT α) (b : Body α) (name : String) :
    ModelS α × Except Err Nat :=
  addBodyMovable (movableResult m parent frame floatT nullBody "") m.bodies.length XT.id
    floatS b name

/-- `addBody` dispatches on the kind of the joint type -/
theorem addBody_eq (m : ModelS α) (parent : Nat) (frame : XT α) (j : Joint α) (b : Body α)
    (name : String) : addBody m parent frame j b name =
      if name ≠ "" ∧ m.hasName name then (m, .error .duplicateName)
      else match j.jt.kind with
        | .fixed => addBodyFixed m parent frame b name
        | .single => addBodyMovable m parent frame j b name
        | .floating => addFloating m parent frame b name
        | .chain => addChain m parent frame j.axes b name
        | .invalid => (m, .error .invalidJoint) := by
  by_cases hd : name ≠ "" ∧ m.hasName name
  · simp only [addBody, if_pos hd]
  · simp only [addBody, if_neg hd]
    split <;> rename_i hjt <;> simp only [hjt, JT.kind]
    -- floating base
    simp only [Joint.ofType, addFloating, floatT, floatS]
    rw [addBodyMovable_unnamed]

omit [Field α] [DecidableEq α] in
theorem kind_fixed_iff (t : JT) : t.kind = .fixed ↔ t = .fixed := by
  cases t <;> simp [JT.kind]

omit [Field α] [DecidableEq α] in
theorem kind_single_not_fixed {t : JT} (h : t.kind ≠ .fixed) : (t == JT.fixed) = false := by
  cases t <;> simp_all [JT.kind]

/-- All possible results of a construction call expecting `k` new movable bodies
    (`fx`: a fixed body instead). -/
inductive Outcome (m : ModelS α) (name : String) (k : Nat) (fx : Bool) :
    ModelS α × Except Err Nat → Prop
  | dup : name ≠ "" → m.hasName name = true → Outcome m name k fx (m, .error .duplicateName)
  | rejected (e : Err) : ¬(name ≠ "" ∧ m.hasName name) → e ≠ .duplicateName →
      Outcome m name k fx (m, .error e)
  | movable (m' : ModelS α) : ¬(name ≠ "" ∧ m.hasName name) → fx = false → 1 ≤ k →
      AddedMovable m m' k name → Outcome m name k fx (m', .ok (m.bodies.length + k - 1))
  | fixed (m' : ModelS α) : ¬(name ≠ "" ∧ m.hasName name) → fx = true →
      AddedFixed m m' name → Outcome m name k fx (m', .ok (m.fixedBodies.length + fixedDisc))

omit [DecidableEq α] in
theorem added_fixedResult (m : ModelS α) (parent : Nat) (frame : XT α) (b : Body α)
    (name : String) (pb : Body α) : AddedFixed m (fixedResult m parent frame b name pb) name := by
  constructor
  · simp [fixedResult]
  · exact ⟨_, rfl⟩
  all_goals rfl

omit [DecidableEq α] in
theorem addFloating_spec (m : ModelS α) (parent : Nat) (frame : XT α) (b : Body α)
    (name : String) (hd : ¬(name ≠ "" ∧ m.hasName name)) :
    ∃ m', addFloating m parent frame b name = (m', .ok (m.bodies.length + 2 - 1)) ∧
      AddedMovable m m' 2 name ∧ (m.WF → m.validId parent → m'.WF) := by
  have hd1 : ¬(name ≠ "" ∧ (movableResult m parent frame floatT nullBody "").hasName name) := by
    rw [hasName_congr (movableResult_names_unnamed ..)]; exact hd
  refine ⟨movableResult (movableResult m parent frame floatT nullBody "") m.bodies.length XT.id
    floatS b name, ?_, ?_, ?_⟩
  · simp only [addFloating]
    rw [addBodyMovable_eq, if_neg hd1]
    have := (added_movableResult m parent frame floatT nullBody "").nb
    rw [this]; rfl
  · exact (added_movableResult m parent frame floatT nullBody "").trans_unnamed
      (added_movableResult ..)
  · intro hwf hp
    have h1 := wf_movableResult m hwf parent frame floatT nullBody "" hp
      (by intro h; simp [floatT] at h) (not_dup_empty m)
    exact wf_movableResult _ h1 _ _ floatS b name (movableResult_validId_new ..)
      (by intro h; simp [floatS] at h) hd1

theorem addBody_outcome (m : ModelS α) (parent : Nat) (frame : XT α) (j : Joint α) (b : Body α)
    (name : String) :
    Outcome m name j.newBodies (j.jt == .fixed) (addBody m parent frame j b name) := by
  rw [addBody_eq]
  by_cases hd : name ≠ "" ∧ m.hasName name
  · rw [if_pos hd]; exact .dup hd.1 hd.2
  · rw [if_neg hd]
    cases hk : j.jt.kind <;> simp only
    · -- fixed
      have hfx : (j.jt == JT.fixed) = true := by simp [(kind_fixed_iff j.jt).mp hk]
      cases hjoin : (m.body (m.mpOf parent)).join (m.fpXOf parent frame) b with
      | none =>
        rw [addBodyFixed_none m parent frame b name hd hjoin]
        exact .rejected _ hd (by decide)
      | some pb =>
        rw [addBodyFixed_some m parent frame b name pb hd hjoin]
        exact .fixed _ hd hfx (added_fixedResult ..)
    · -- single
      have hfx : (j.jt == JT.fixed) = false := kind_single_not_fixed (by rw [hk]; decide)
      have hnb : j.newBodies = 1 := by simp [Joint.newBodies, hk]
      rw [addBodyMovable_eq, if_neg hd, hnb]
      exact .movable _ hd hfx (by omega) (added_movableResult ..)
    · -- floating
      have hfx : (j.jt == JT.fixed) = false := kind_single_not_fixed (by rw [hk]; decide)
      have hnb : j.newBodies = 2 := by simp [Joint.newBodies, hk]
      obtain ⟨m', he, ha, _⟩ := addFloating_spec m parent frame b name hd
      rw [he, hnb]
      exact .movable _ hd hfx (by omega) ha
    · -- chain
      have hfx : (j.jt == JT.fixed) = false := kind_single_not_fixed (by rw [hk]; decide)
      have hnb : j.newBodies = j.axes.length := by simp [Joint.newBodies, hk]
      by_cases hax : j.axes = []
      · rw [hax]; simp only [addChain]
        exact .rejected _ hd (by decide)
      · obtain ⟨m', he, ha, _⟩ := addChain_spec b name j.axes m parent frame hax hd
        rw [he, hnb]
        have : 1 ≤ j.axes.length := by
          cases hh : j.axes with
          | nil => exact absurd hh hax
          | cons _ _ => simp
        exact .movable _ hd hfx this ha
    · exact .rejected _ hd (by decide)

theorem addBody_wf (m : ModelS α) (hwf : m.WF) (parent : Nat) (frame : XT α) (j : Joint α)
    (b : Body α) (name : String) (hp : m.validId parent) (hj : m.jointOk j)
    (hcap : m.fixedBodies.length ≤ fixedDisc) :
    (addBody m parent frame j b name).1.WF := by
  rw [addBody_eq]
  by_cases hd : name ≠ "" ∧ m.hasName name
  · rw [if_pos hd]; exact hwf
  · rw [if_neg hd]
    cases hk : j.jt.kind <;> simp only
    · cases hjoin : (m.body (m.mpOf parent)).join (m.fpXOf parent frame) b with
      | none => rw [addBodyFixed_none m parent frame b name hd hjoin]; exact hwf
      | some pb =>
        rw [addBodyFixed_some m parent frame b name pb hd hjoin]
        exact wf_fixedResult m hwf parent frame b name pb hp hcap hd
    · rw [addBodyMovable_eq, if_neg hd]
      exact wf_movableResult m hwf parent frame j b name hp hj hd
    · obtain ⟨m', he, _, hw⟩ := addFloating_spec m parent frame b name hd
      rw [he]; exact hw hwf hp
    · by_cases hax : j.axes = []
      · rw [hax]; simp only [addChain]; exact hwf
      · obtain ⟨m', he, _, hw⟩ := addChain_spec b name j.axes m parent frame hax hd
        rw [he]; exact hw hwf hp
    · exact hwf

/-! #### `addBodyCustomJoint` -/

/-- the model with one more registered custom joint -/
def withCustom (m : ModelS α) (k : CustomKind) : ModelS α :=
  { m with customJoints := m.customJoints ++ [k] }

omit [DecidableEq α] in
theorem wf_withCustom (m : ModelS α) (hwf : m.WF) (k : CustomKind) : (m.withCustom k).WF := by
  refine { hwf with custom_ok := ?_ }
  intro i hi hc
  obtain ⟨h1, h2⟩ := hwf.custom_ok i hi hc
  refine ⟨?_, ?_⟩
  · simp only [withCustom, List.length_append, List.length_cons, List.length_nil]
    exact Nat.lt_succ_of_lt h1
  · show (m.joint i).dof = ((m.customJoints ++ [k]).getD (m.joint i).customIdx .revX).dof
    rw [getD_append_left _ _ _ _ h1]; exact h2

omit [DecidableEq α] in
theorem jointOk_customProxy (m : ModelS α) (k : CustomKind) :
    (m.withCustom k).jointOk (Joint.customProxy k.dof m.customJoints.length) := by
  intro _
  refine ⟨?_, ?_⟩
  · simp [withCustom, Joint.customProxy]
  · simp only [withCustom, custom, Joint.customProxy]
    rw [getD_append_last]

theorem addBodyCustomJoint_eq (m : ModelS α) (parent : Nat) (frame : XT α) (k : CustomKind)
    (b : Body α) (name : String) : addBodyCustomJoint m parent frame k b name =
      if name ≠ "" ∧ m.hasName name then (m, .error .duplicateName)
      else (movableResult (m.withCustom k) parent frame
              (Joint.customProxy k.dof m.customJoints.length) b name, .ok m.bodies.length) := by
  by_cases hd : name ≠ "" ∧ m.hasName name
  · simp only [addBodyCustomJoint, if_pos hd]
  · have hd' : ¬(name ≠ "" ∧ (m.withCustom k).hasName name) := hd
    simp only [addBodyCustomJoint, if_neg hd]
    show addBody (m.withCustom k) parent frame _ b name = _
    rw [addBody_eq, if_neg hd']
    simp only [Joint.customProxy, JT.kind]
    rw [addBodyMovable_eq, if_neg hd']; rfl

theorem addBodyCustomJoint_outcome (m : ModelS α) (parent : Nat) (frame : XT α)
    (k : CustomKind) (b : Body α) (name : String) :
    Outcome m name 1 false (addBodyCustomJoint m parent frame k b name) := by
  rw [addBodyCustomJoint_eq]
  by_cases hd : name ≠ "" ∧ m.hasName name
  · rw [if_pos hd]; exact .dup hd.1 hd.2
  · rw [if_neg hd]
    have ha := added_movableResult (m.withCustom k) parent frame
      (Joint.customProxy k.dof m.customJoints.length) b name
    refine .movable _ hd rfl (by omega) ?_
    exact { ha with custom := (List.prefix_append _ _).trans ha.custom }

theorem addBodyCustomJoint_wf (m : ModelS α) (hwf : m.WF) (parent : Nat) (frame : XT α)
    (k : CustomKind) (b : Body α) (name : String) (hp : m.validId parent) :
    (addBodyCustomJoint m parent frame k b name).1.WF := by
  rw [addBodyCustomJoint_eq]
  by_cases hd : name ≠ "" ∧ m.hasName name
  · rw [if_pos hd]; exact hwf
  · rw [if_neg hd]
    exact wf_movableResult _ (wf_withCustom m hwf k) parent frame _ b name hp
      (jointOk_customProxy m k) hd

/-! #### the step function -/

theorem step_outcome (m : ModelS α) (op : Op α) :
    Outcome m op.name op.newBodies op.isFixed (m.step op) := by
  cases op with
  | addBody parent frame j b name => exact addBody_outcome ..
  | appendBody frame j b name => exact addBody_outcome ..
  | addBodyCustomJoint parent frame k b name => exact addBodyCustomJoint_outcome ..

theorem step_wf (m : ModelS α) (hwf : m.WF) (op : Op α) (hv : op.valid m) :
    (m.step op).1.WF := by
  cases op with
  | addBody parent frame j b name => exact addBody_wf m hwf _ _ _ _ _ hv.1 hv.2.1 hv.2.2
  | appendBody frame j b name => exact addBody_wf m hwf _ _ _ _ _ hwf.prev_ok hv.1 hv.2
  | addBodyCustomJoint parent frame k b name => exact addBodyCustomJoint_wf m hwf _ _ _ _ _ hv.1

end AddBody

/-! ### consequences of the invariant -/

/-- every joint's coordinate range ends inside `[0, dofCount]` -/
theorem q_range_aux (m : ModelS α) (hwf : m.WF) : ∀ k i, i + k + 1 = m.nBodies →
    (m.joint i).qIndex + (m.joint i).dof ≤ m.dofCount := by
  intro k
  induction k with
  | zero =>
    intro i hi
    have := hwf.q_last
    rw [show m.nBodies - 1 = i by omega] at this
    omega
  | succ k ih =>
    intro i hi
    have h1 := ih (i + 1) (by omega)
    have h2 := hwf.q_contig i (by omega)
    omega

theorem w3_range_aux (m : ModelS α) (hwf : m.WF) (i : Nat) (hi : i < m.nBodies)
    (hs : (m.joint i).jt = .spherical) : m.dofCount ≤ m.w3 i ∧ m.w3 i < m.qSize := by
  rw [hwf.w3_sph i hi hs, hwf.qsize]
  have h1 := sphBefore_succ m.joints i (by rw [hwf.len_joints]; exact hi)
  have h2 := sphBefore_mono m.joints (i + 1) m.nBodies (by omega) (by rw [hwf.len_joints]; omega)
  simp only [joint] at hs
  rw [if_pos hs] at h1
  omega

theorem w3_strict_aux (m : ModelS α) (hwf : m.WF) (i k : Nat) (hik : i < k) (hk : k < m.nBodies)
    (hsi : (m.joint i).jt = .spherical) (hsk : (m.joint k).jt = .spherical) :
    m.w3 i < m.w3 k := by
  rw [hwf.w3_sph i (by omega) hsi, hwf.w3_sph k hk hsk]
  have h1 := sphBefore_succ m.joints i (by rw [hwf.len_joints]; omega)
  have h2 := sphBefore_mono m.joints (i + 1) k (by omega) (by rw [hwf.len_joints]; omega)
  simp only [joint] at hsi
  rw [if_pos hsi] at h1
  omega

/-! ### id predicates as propositions -/

omit [Field α] in
theorem isFixedBodyId_iff (m : ModelS α) (id : Nat) : m.isFixedBodyId id = true ↔
    (fixedDisc ≤ id ∧ id < 4294967295 ∧ id - fixedDisc < m.fixedBodies.length) := by
  simp only [isFixedBodyId, Bool.and_eq_true, decide_eq_true_eq, and_assoc]

omit [Field α] in
theorem isBodyId_iff (m : ModelS α) (id : Nat) : m.isBodyId id = true ↔
    ((0 < id ∧ id < m.bodies.length) ∨ m.isFixedBodyId id = true) := by
  simp only [isBodyId, isFixedBodyId, Bool.or_eq_true, Bool.and_eq_true, decide_eq_true_eq]

theorem fixedDisc_eq : fixedDisc = 2147483647 := rfl

/-! ### names -/

omit [Field α] in
/-- after appending `(name, id)` to a name table without `name`, `name` resolves to `id` -/
theorem getBodyId_of_names (m m' : ModelS α) (name : String) (id : Nat) (hne : name ≠ "")
    (hd : ¬(name ≠ "" ∧ m.hasName name))
    (hn : m'.names = if name ≠ "" then m.names ++ [(name, id)] else m.names) :
    m'.getBodyId name = id ∧ m'.hasName name = true := by
  rw [if_pos hne] at hn
  have hnone : m.names.find? (fun p => p.1 == name) = none := by
    rw [List.find?_eq_none]
    intro x hx hxe
    apply hd
    refine ⟨hne, ?_⟩
    simp only [hasName, List.any_eq_true]
    exact ⟨x, hx, hxe⟩
  constructor
  · simp only [getBodyId, hn, List.find?_append, hnone]
    simp
  · simp [hasName, hn]

/-- in a table with pairwise distinct names every entry is found by its name -/
theorem find?_of_pairwise (l : List (String × Nat)) (h : l.Pairwise (fun p q => p.1 ≠ q.1))
    (p : String × Nat) (hp : p ∈ l) : l.find? (fun q => q.1 == p.1) = some p := by
  induction l with
  | nil => cases hp
  | cons x xs ih =>
    rw [List.pairwise_cons] at h
    rcases List.mem_cons.mp hp with rfl | hmem
    · simp
    · have : x.1 ≠ p.1 := h.1 p hmem
      rw [List.find?_cons_of_neg (by simpa using this)]
      exact ih h.2 hmem

omit [Field α] in
theorem prefix_getD {β : Type} {l l' : List β} (h : l <+: l') (i : Nat) (hi : i < l.length)
    (d : β) : l'.getD i d = l.getD i d := by
  obtain ⟨t, rfl⟩ := h
  exact getD_append_left _ _ _ _ hi

end ModelS
end Rbdl

namespace Rbdl.C14
open Rbdl Rbdl.ModelS
/-! ### concrete data over `Rat` for the non-vacuity examples -/
namespace Ex
def body : Body Rat := ⟨2, ⟨0, 1/2, 0⟩, ⟨1,0,0, 0,1,0, 0,0,1⟩, false⟩
def frame : XT Rat := ⟨M3.one, ⟨1, 0, 0⟩⟩
def jz : Joint Rat := Joint.revolute ⟨0, 0, 1⟩
def jsph : Joint Rat := floatS
def jfix : Joint Rat := ⟨.fixed, [], 0, 0, noCustom⟩
def jfloat : Joint Rat := ⟨.floatingBase, [], 0, 0, noCustom⟩
def jchain : Joint Rat := Joint.ofAxes [sv6 1 0 0 0 0 0, sv6 0 0 0 0 1 0]
def jbad : Joint Rat := ⟨.undefined, [], 0, 0, noCustom⟩
/-- six successful additions of every kind: floating base on the base (2 bodies), revolute
    appended, fixed appended, unnamed spherical appended to the fixed body, 2-axis chain with a
    fixed parent, custom joint with an explicit parent -/
def ops : List (Op Rat) :=
  [ .addBody 0 frame jfloat body "pelvis",
    .appendBody frame jz body "thigh",
    .appendBody frame jfix body "sensor",
    .appendBody frame jsph body "",
    .addBody fixedDisc frame jchain body "foot",
    .addBodyCustomJoint 2 frame .cyl body "cyl" ]
/-- the model they build: 8 movable bodies (with the base), 1 fixed body, 14 DoF, `qSize = 16` -/
def M : ModelS Rat := ModelS.init.run ops
/-- rejected: duplicate name -/
def opDup : Op Rat := .addBody 1 frame jz body "thigh"
/-- rejected: invalid joint specification -/
def opBad : Op Rat := .addBody 3 frame jbad body "x"
/-- rejected by `Body::Join` ("both have zero mass"): body 3 has mass 4 (its own 2 plus the
    fixed body "sensor"), the new fixed body has mass -4 -/
def opZero : Op Rat := .addBody 3 frame jfix ⟨-4, ⟨0, 0, 0⟩, M3.one, false⟩ "neg"
/-- accepted: a fixed body attached to the fixed body "sensor" -/
def opFix : Op Rat := .addBody fixedDisc frame jfix body "imu"
/-- accepted: a 2-axis chain -/
def opChain : Op Rat := .appendBody frame jchain body "toe"
theorem validRun_ops : (ModelS.init : ModelS Rat).validRun ops := by decide +kernel
end Ex
end Rbdl.C14
