import RbdlProofs.Lemmas.L18CFac3
/-
  C18 at curve level, part 15: `createPassiveTorqueAngleCurve` (both orientations).
-/
set_option linter.unusedSectionVars false
namespace Rbdl.L18C
open Lean.Grind Std Rbdl.Geom Rbdl.L18

section order
variable {α : Type} [Field α] [Inhabited α] [LE α] [LT α] [LawfulOrderLT α] [IsLinearOrder α]
  [OrderedRing α] [DecidableLT α] [DecidableLE α] [DecidableEq α]

/-- mirror image of `corner_sec2`: end slopes `m0 ≤ m1 ≤ 0`, chord steeper (more negative) than the
    end tangent; in the non-degenerate branch the start slope is the requested one -/
theorem corner_sec2r (x0 y0 m0 x1 y1 m1 cu : α) (p : P6 α × P6 α) (hx : x0 < x1)
    (h0 : 0 ≤ cu) (h1 : cu ≤ 1)
    (h : cornerCP x0 y0 m0 x1 y1 m1 (scaleCurviness cu) = some p)
    (hm1 : m1 ≤ 0) (hm : m0 ≤ m1) (hup : y1 - y0 < m1 * (x1 - x0)) :
    p.1.StrictIncr ∧ p.1.p0 = x0 ∧ p.1.p5 = x1 ∧ p.2.p0 = y0 ∧ p.2.p5 = y1 ∧
    derivDYDX 1 p.1 p.2 1 = m1 ∧ (absα (m0 - m1) > rootEPS → derivDYDX 0 p.1 p.2 1 = m0) := by
  obtain ⟨c0, c1⟩ := scaleCurviness_bounds cu h0 h1
  obtain ⟨hp, chk, _⟩ := cornerCP_some _ _ _ _ _ _ _ _ h
  by_cases hd : absα (m0 - m1) > rootEPS
  · obtain ⟨e, hne⟩ := cornerXC_nondeg x0 y0 m0 x1 y1 m1 hd
    have hT := C18.cornerXC_on_tangents x0 y0 m0 x1 y1 m1 hne
    rw [e] at hp chk
    have hd' : m0 - m1 < 0 := by grind
    have e1 : (y1-y0-x1*m1+x0*m0)/(m0-m1) * (m0 - m1) = y1-y0-x1*m1+x0*m0 := by grind
    generalize (y1-y0-x1*m1+x0*m0)/(m0-m1) = q at e1 hp chk hT
    -- the corner is right of x0
    have b0 : x0 < q := by
      by_cases c : x0 < q
      · exact c
      · have := OrderedRing.mul_le_mul_of_nonpos_right (show q ≤ x0 by grind) (show m0 - m1 ≤ 0 by grind)
        grind
    -- and, by the acceptance test (mirrored), left of x1
    have b1 : q < x1 := by
      have := check_left (-(q - x1)) (-(q - x0)) (-m1) (-m0) (by grind) (by grind) (by grind) (by grind) (by
        have e3 : -(q - x1) - -(q - x0) = x1 - x0 := by grind
        have e4 : -(q - x1) * -m1 - -(q - x0) * -m0 = -(y1 - y0) := by grind
        rw [e3, e4]
        have e5 : (q - x1) * m1 + y1 - y0 = (q - x0) * m0 := by grind
        rw [e5] at chk
        have e6 : -(y1 - y0) * -(y1 - y0) = (y1 - y0) * (y1 - y0) := by grind
        have e7 : -(q - x0) * -(q - x0) + -(q - x0) * -m0 * (-(q - x0) * -m0)
            = (q - x0) * (q - x0) + (q - x0) * m0 * ((q - x0) * m0) := by grind
        rw [e6, e7]
        exact chk)
      grind
    obtain ⟨a1, a2, a3, a4, a5, a6, a7⟩ := cornerPts_ok q x0 y0 m0 x1 y1 m1 _ b0 b1 c0 c1
    rw [hp]
    exact ⟨a1, a2, a3, a4, a5, a6, fun _ => a7 hT⟩
  · have e := cornerXC_deg x0 y0 m0 x1 y1 m1 hd
    rw [e] at hp
    obtain ⟨a1, a2, a3, a4, a5, a6, _⟩ := cornerPts_ok ((x1+x0)/2) x0 y0 m0 x1 y1 m1 _ (by grind) (by grind) c0 c1
    rw [hp]
    exact ⟨a1, a2, a3, a4, a5, a6, fun hh => absurd hh hd⟩

theorem inv_lt_one (k : α) (hk : 1 < k) : 0 < 1/k ∧ 1/k < 1 := by
  have h0 := one_div_pos k (by grind)
  refine ⟨h0, ?_⟩
  by_cases c : 1/k < 1
  · exact c
  · have e : (1/k) * k = 1 := by grind
    have := OrderedRing.mul_le_mul_of_nonneg_right (show 1 ≤ 1/k by grind) (show 0 ≤ k by grind)
    grind

theorem absα_sub_comm (a b : α) : absα (a - b) = absα (b - a) := by
  rcases absα_cases (a - b) with ⟨p, q⟩ | ⟨p, q⟩ <;> rcases absα_cases (b - a) with ⟨p', q'⟩ | ⟨p', q'⟩ <;>
    rw [q, q'] <;> grind

/-- the repaired toe width: positive and at most 5 % of the angle range -/
theorem delta_fix (a b : α) (hb : 0 < b) :
    0 < (if minα a b ≤ 0 then b else minα a b) ∧ (if minα a b ≤ 0 then b else minα a b) ≤ b := by
  by_cases c : minα a b ≤ 0
  · rw [if_pos c]; exact ⟨hb, Std.le_refl _⟩
  · rw [if_neg c]
    rcases minα_cases a b with ⟨_, q⟩ | ⟨_, q⟩ <;> rw [q] at c ⊢ <;> constructor <;> grind

/-- arithmetic of the increasing orientation -/
theorem passive_arith_inc (z o kl ko d0 δ : α) (hzo : z < o)
    (g2 : ¬absα kl > 9 / 10 / absα (o - z)) (g3 : ¬absα ko < 11 / 10 / absα (o - z))
    (g4 : ¬ko * kl < 0) (g5 : ¬ko * (o - z) < 0) (g7 : absα ko > rootEPS)
    (hd0 : 0 < d0) (hd1 : d0 ≤ 5 / 100 * absα (o - z))
    (hδ : (if ko < 0 then d0 * -1 else d0) = δ) :
    0 ≤ kl ∧ kl ≤ ko ∧ 0 < δ ∧ δ ≤ (1/20) * (o - z) ∧ kl * (o - z) ≤ 9/10 ∧
    (absα (kl - ko) > rootEPS ∨ absα (o - z) * rootEPS < 2/10 → absα (kl - ko) > rootEPS) := by
  have hr := rootEPS_pos (α := α)
  have hD : 0 < o - z := by grind
  have eD : absα (o - z) = o - z := by rcases absα_cases (o - z) with ⟨a, b⟩ | ⟨a, b⟩ <;> grind
  rw [eD] at g2 g3 hd1 ⊢
  have hko : 0 < ko := by
    rcases absα_cases ko with ⟨a, b⟩ | ⟨a, b⟩
    · have := OrderedRing.mul_neg_of_neg_of_pos a hD; grind
    · grind
  have hkl : 0 ≤ kl := by
    by_cases c : 0 ≤ kl
    · exact c
    · have := OrderedRing.mul_neg_of_pos_of_neg hko (show kl < 0 by grind); grind
  have eko : absα ko = ko := by rcases absα_cases ko with ⟨a, b⟩ | ⟨a, b⟩ <;> grind
  have ekl : absα kl = kl := by rcases absα_cases kl with ⟨a, b⟩ | ⟨a, b⟩ <;> grind
  rw [ekl] at g2; rw [eko] at g3
  have e9 : (9/10)/(o - z) * (o - z) = 9/10 := by grind
  have e11 : (11/10)/(o - z) * (o - z) = 11/10 := by grind
  have q2 := OrderedRing.mul_le_mul_of_nonneg_right (show kl ≤ (9/10)/(o - z) by grind) (show 0 ≤ o - z by grind)
  have q3 := OrderedRing.mul_le_mul_of_nonneg_right (show (11/10)/(o - z) ≤ ko by grind) (show 0 ≤ o - z by grind)
  have hlt : kl ≤ ko := by
    by_cases c : kl ≤ ko
    · exact c
    · have := OrderedRing.mul_le_mul_of_nonneg_right (show ko ≤ kl by grind) (show 0 ≤ o - z by grind)
      grind
  have hnd : absα (kl - ko) > rootEPS ∨ (o - z) * rootEPS < 2/10 → absα (kl - ko) > rootEPS := by
    rintro (hh | hh)
    · exact hh
    · have e : absα (kl - ko) = ko - kl := by rcases absα_cases (kl - ko) with ⟨a, b⟩ | ⟨a, b⟩ <;> grind
      rw [e]
      by_cases c2 : ko - kl > rootEPS
      · exact c2
      · exfalso
        have := OrderedRing.mul_le_mul_of_nonneg_right (show ko - kl ≤ rootEPS by grind) (show 0 ≤ o - z by grind)
        grind
  rw [if_neg (show ¬ ko < 0 by grind)] at hδ
  subst hδ
  exact ⟨hkl, hlt, hd0, by grind, by grind, hnd⟩

/-- arithmetic of the decreasing orientation -/
theorem passive_arith_dec (z o kl ko d0 δ : α) (hzo : o < z)
    (g2 : ¬absα kl > 9 / 10 / absα (o - z)) (g3 : ¬absα ko < 11 / 10 / absα (o - z))
    (g4 : ¬ko * kl < 0) (g5 : ¬ko * (o - z) < 0) (g7 : absα ko > rootEPS)
    (hd0 : 0 < d0) (hd1 : d0 ≤ 5 / 100 * absα (z - o))
    (hδ : (if ko < 0 then d0 * -1 else d0) = δ) :
    kl ≤ 0 ∧ ko ≤ kl ∧ δ < 0 ∧ -((1/20) * (z - o)) ≤ δ ∧ -(9/10) ≤ kl * (z - o) ∧
    (absα (kl - ko) > rootEPS ∨ absα (o - z) * rootEPS < 2/10 → absα (ko - kl) > rootEPS) := by
  have hr := rootEPS_pos (α := α)
  have hD : 0 < z - o := by grind
  have eD : absα (o - z) = z - o := by rcases absα_cases (o - z) with ⟨a, b⟩ | ⟨a, b⟩ <;> grind
  have eD' : absα (z - o) = z - o := by rcases absα_cases (z - o) with ⟨a, b⟩ | ⟨a, b⟩ <;> grind
  rw [eD] at g2 g3 ⊢; rw [eD'] at hd1
  have hko : ko < 0 := by
    rcases absα_cases ko with ⟨a, b⟩ | ⟨a, b⟩
    · exact a
    · have h1 : 0 < ko := by grind
      have := OrderedRing.mul_neg_of_pos_of_neg h1 (show o - z < 0 by grind); grind
  have hkl : kl ≤ 0 := by
    by_cases c : kl ≤ 0
    · exact c
    · have := OrderedRing.mul_neg_of_neg_of_pos hko (show 0 < kl by grind); grind
  have eko : absα ko = -ko := by rcases absα_cases ko with ⟨a, b⟩ | ⟨a, b⟩ <;> grind
  have ekl : absα kl = -kl := by rcases absα_cases kl with ⟨a, b⟩ | ⟨a, b⟩ <;> grind
  rw [ekl] at g2; rw [eko] at g3
  have e9 : (9/10)/(z - o) * (z - o) = 9/10 := by grind
  have e11 : (11/10)/(z - o) * (z - o) = 11/10 := by grind
  have q2 := OrderedRing.mul_le_mul_of_nonneg_right (show -kl ≤ (9/10)/(z - o) by grind) (show 0 ≤ z - o by grind)
  have q3 := OrderedRing.mul_le_mul_of_nonneg_right (show (11/10)/(z - o) ≤ -ko by grind) (show 0 ≤ z - o by grind)
  have hlt : ko ≤ kl := by
    by_cases c : ko ≤ kl
    · exact c
    · have := OrderedRing.mul_le_mul_of_nonneg_right (show kl ≤ ko by grind) (show 0 ≤ z - o by grind)
      grind
  have hnd : absα (kl - ko) > rootEPS ∨ (z - o) * rootEPS < 2/10 → absα (ko - kl) > rootEPS := by
    rintro (hh | hh)
    · rw [absα_sub_comm]; exact hh
    · have e : absα (ko - kl) = kl - ko := by rcases absα_cases (ko - kl) with ⟨a, b⟩ | ⟨a, b⟩ <;> grind
      rw [e]
      by_cases c2 : kl - ko > rootEPS
      · exact c2
      · exfalso
        have := OrderedRing.mul_le_mul_of_nonneg_right (show kl - ko ≤ rootEPS by grind) (show 0 ≤ z - o by grind)
        grind
  rw [if_pos hko] at hδ
  subst hδ
  exact ⟨hkl, hlt, by grind, by grind, by grind, hnd⟩

/-- `createPassiveTorqueAngleCurve` (repaired toe width): on the whole documented domain the curve of
    the increasing orientation is well-formed; in both orientations it is well-formed and made of
    corner sections when the corner between the two sections is non-degenerate, which holds whenever
    the angle range is below 0.2/sqrt(eps) -/
theorem passiveTorqueAngle_spec (z o kl ko cu : α) (c : Curve α)
    (h : Factory.passiveTorqueAngle z o kl ko cu = some c) :
    (z < o → c.WF) ∧
    (absα (kl - ko) > rootEPS ∨ absα (o - z) * rootEPS < 2/10 → c.WF ∧ ∃ kx ky km, c.CornerBuilt kx ky km) := by
  have hr := rootEPS_pos (α := α)
  simp only [Factory.passiveTorqueAngle] at h
  obtain ⟨g1, h⟩ := guard_none' _ _ _ h
  obtain ⟨g2, h⟩ := guard_none' _ _ _ h
  obtain ⟨g3, h⟩ := guard_none' _ _ _ h
  obtain ⟨g4, h⟩ := guard_none' _ _ _ h
  obtain ⟨g5, h⟩ := guard_none' _ _ _ h
  obtain ⟨g6, h⟩ := guard_none' _ _ _ h
  rename_i h1 h2 h3 h4 h5 h6
  clear h1 h2 h3 h4 h5 h6
  have hc0 : 0 ≤ cu := by grind
  have hc1 : cu ≤ 1 := by grind
  by_cases hzo : z < o
  · simp only [hzo, if_true] at h
    obtain ⟨g7, h⟩ := guard_none _ _ _ h
    rename_i h7; clear h7
    have hb : 0 < 5 / 100 * absα (o - z) := by
      rcases absα_cases (o - z) with ⟨a, b⟩ | ⟨a, b⟩ <;> grind
    obtain ⟨d0p, d0le⟩ := delta_fix (1 / 10 * (1 - absα (1 / ko))) (5 / 100 * absα (o - z)) hb
    generalize (if minα (1 / 10 * (1 - absα (1 / ko))) (5 / 100 * absα (o - z)) ≤ 0 then 5 / 100 * absα (o - z)
      else minα (1 / 10 * (1 - absα (1 / ko))) (5 / 100 * absα (o - z))) = d0 at h d0p d0le
    generalize hδ : (if ko < 0 then d0 * -1 else d0) = δ at h
    obtain ⟨f1, f2, f3, f4, f5, f6⟩ := passive_arith_inc z o kl ko d0 δ hzo g2 g3 g4 g5 g7 d0p d0le hδ
    clear hδ g1 g2 g3 g4 g5 g6 g7 hb d0p d0le
    obtain ⟨p0, hp0, h⟩ := bind_some _ _ _ h
    obtain ⟨p1, hp1, hc⟩ := bind_some _ _ _ h
    simp only [pure, Option.some.injEq] at hc
    clear h
    have hkδ := OrderedRing.mul_nonneg f1 (show 0 ≤ δ by grind)
    -- first section: (z, 0, 0) -> (xLow, yLow, kl)
    obtain ⟨a1, a2, a3, a4, a5, a6, a7⟩ := corner_sec _ _ _ _ _ _ cu p0 (by grind) hc0 hc1 hp0
      (fun hd => by
        have hkl : 0 < kl := by
          by_cases c : 0 < kl
          · exact c
          · have : kl = 0 := by grind
            subst this
            rcases absα_cases ((0:α) - 0) with ⟨a, b⟩ | ⟨a, b⟩ <;> grind
        have := OrderedRing.mul_pos hkl f3
        exact Or.inl ⟨by grind, by grind⟩)
    obtain ⟨n0, s0⟩ := or_and_of_imp a7 (fun _ => by grind)
    -- second section: (xLow, yLow, kl) -> (o, 1, ko)
    obtain ⟨b1, b2, b3, b4, b5, b6⟩ := corner_sec2 _ _ _ _ _ _ cu p1 (by grind) hc0 hc1 hp1 f1 f2 (by grind)
    rw [← hc]
    have hW := WF_two p0 p1 _ _ _ _ _ _ a1 b1 a2 b3 a4 b5 (by rw [a3, b2]) (by rw [a5, b4]) s0 b6
    exact ⟨fun _ => hW, fun hh => ⟨hW, _, _, _,
      cornerBuilt_two p0 p1 _ _ _ _ _ _ _ _ _ _ hp0 hp1 a1 b1 n0 (Or.inl (f6 hh))⟩⟩
  · simp only [hzo, if_false] at h
    obtain ⟨g7, h⟩ := guard_none _ _ _ h
    rename_i h7; clear h7
    have hoz : o < z := by
      rcases absα_cases (o - z) with ⟨a, b⟩ | ⟨a, b⟩ <;> grind
    have hb : 0 < 5 / 100 * absα (z - o) := by
      rcases absα_cases (z - o) with ⟨a, b⟩ | ⟨a, b⟩ <;> grind
    obtain ⟨d0p, d0le⟩ := delta_fix (1 / 10 * (1 - absα (1 / ko))) (5 / 100 * absα (z - o)) hb
    generalize (if minα (1 / 10 * (1 - absα (1 / ko))) (5 / 100 * absα (z - o)) ≤ 0 then 5 / 100 * absα (z - o)
      else minα (1 / 10 * (1 - absα (1 / ko))) (5 / 100 * absα (z - o))) = d0 at h d0p d0le
    generalize hδ : (if ko < 0 then d0 * -1 else d0) = δ at h
    obtain ⟨f1, f2, f4, f5, f6, f7⟩ := passive_arith_dec z o kl ko d0 δ hoz g2 g3 g4 g5 g7 d0p d0le hδ
    clear hδ g1 g2 g3 g4 g5 g6 g7 hb d0p d0le
    obtain ⟨p0, hp0, h⟩ := bind_some _ _ _ h
    obtain ⟨p1, hp1, hc⟩ := bind_some _ _ _ h
    simp only [pure, Option.some.injEq] at hc
    clear h
    have hkδ := OrderedRing.mul_nonneg_of_nonpos_of_nonpos f1 (show δ ≤ 0 by grind)
    -- first section: (o, 1, ko) -> (xLow, yLow, kl)
    obtain ⟨a1, a2, a3, a4, a5, a6, a7⟩ := corner_sec2r _ _ _ _ _ _ cu p0 (by grind) hc0 hc1 hp0 f1 f2 (by grind)
    -- second section: (xLow, yLow, kl) -> (z, 0, 0)
    obtain ⟨b1, b2, b3, b4, b5, b6, _⟩ := corner_sec _ _ _ _ _ _ cu p1 (by grind) hc0 hc1 hp1
      (fun hd => by
        have hkl : kl < 0 := by
          by_cases c : kl < 0
          · exact c
          · have : kl = 0 := by grind
            subst this
            rcases absα_cases ((0:α) - 0) with ⟨a, b⟩ | ⟨a, b⟩ <;> grind
        have := OrderedRing.mul_pos_of_neg_of_neg hkl f4
        exact Or.inl ⟨by grind, by grind⟩)
    rw [← hc]
    refine ⟨fun hh => absurd hh hzo, fun hh => ?_⟩
    have s0 := a7 (f7 hh)
    exact ⟨WF_two p0 p1 _ _ _ _ _ _ a1 b1 a2 b3 a4 b5 (by rw [a3, b2]) (by rw [a5, b4]) s0 b6,
      _, _, _, cornerBuilt_two p0 p1 _ _ _ _ _ _ _ _ _ _ hp0 hp1 a1 b1 (Or.inl (f7 hh)) (Or.inr (by grind))⟩
end order
end Rbdl.L18C
