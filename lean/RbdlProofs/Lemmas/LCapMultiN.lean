import RbdlProofs.Lemmas.LCapMultiCore
import RbdlProofs.Lemmas.LDynCapBuild
/-
  Multi-DoF capstone, part 9: models without fixed bodies (`Refines` / `RefinesW`), no bound on the
  number of bodies.  `goodRunM`: `goodRun`'s operations (single-body joints) plus the emulated multi-DoF
  joints.  The invariant `Sim` of the C01 capstone pins the id map of the specification builder to
  `idMapN` (entries `(k,k,k)`); the builder `Spec.SB.add` records the *first* node of a joint chain in
  the middle component, which nothing reads.  `SimN m p`: `Sim m (fixId p)` (`fixId`: the id map
  replaced by `idMapN`) together with what the lookups need.
-/
namespace Rbdl.LCapMulti
open Lean.Grind Rbdl Rbdl.Spec Rbdl.L06 Rbdl.L01 Rbdl.L01Cap Rbdl.Loops
set_option linter.unusedSimpArgs false
set_option linter.unusedVariables false
set_option linter.unusedSectionVars false

section
variable {α : Type} [Field α] [DecidableEq α]

/-! ### `sim_movable` for an arbitrary node (virtual bodies, zero-pitch helical joints) -/

theorem sim_movableG (m : ModelS α) (p : PB α) (hS : Sim m p) (parent : Nat) (frame : XT α)
    (j : Joint α) (b : Body α) (name : String) (nd : SNode α) (hp : parent < m.nBodies)
    (hE : frame.E.IsRot) (hn : ¬(name ≠ "" ∧ m.hasName name))
    (hjc : j.jt.hasJcalc = true) (hnc : j.jt ≠ .custom) (hdecl : JointDecl j)
    (hdof : (jointSj j).dof = j.dof)
    (hnp : nd.parent = p.sb.nodeOf parent) (hnE : nd.E = frame.E) (hnr : nd.r = frame.r)
    (hnj : nd.joint = jointSj j) (hnq : nd.qIdx = p.sb.M.nv) (hna : nd.apiId = p.sb.nMovable)
    (hnm : nd.movableId = p.sb.nMovable) (hnh : nd.hasBody = !b.isVirtual)
    (hnb : nd.hasBody = true → nd.mass = b.mass ∧ nd.com = b.com ∧ nd.inertia = b.inertia ∧
      b.inertia.transpose = b.inertia) :
    Sim (m.movableResult parent frame j b name)
      ⟨{ p.sb with
          M := { p.sb.M with nodes := p.sb.M.nodes ++ [nd] },
          nMovable := p.sb.nMovable + 1,
          idMap := p.sb.idMap ++ [(p.sb.nMovable, p.sb.M.nodes.length, p.sb.M.nodes.length)] },
       p.sb.nMovable⟩ := by
  have hwf := hS.ok.wf
  have hwf' : (m.movableResult parent frame j b name).WF :=
    ModelS.wf_movableResult m hwf parent frame j b name (Or.inl hp) (fun hc => absurd hc hnc) hn
  have hnb' := mr_nBodies m parent frame j b name
  have hjt : ∀ i, ((m.movableResult parent frame j b name).joint i).jt ≠ .custom := by
    intro i
    rcases Nat.lt_trichotomy i m.nBodies with h | h | h
    · rw [mr_joint_old m parent frame j b name hwf i h]; exact hS.nocustom i
    · subst h; rw [mr_joint_new m parent frame j b name hwf]; exact hnc
    · rw [mr_joint_out m parent frame j b name hwf i h]; exact fun e => nomatch e
  have hold : ∀ i nd', 1 ≤ i → i < m.nBodies → NodePre m i nd' →
      NodePre (m.movableResult parent frame j b name) i nd' := by
    intro i nd' i1 i2 h
    exact ⟨by rw [mr_lam_old m parent frame j b name hwf i i2]; exact h.parent,
      by rw [mr_XT_old m parent frame j b name hwf i i2]; exact h.E,
      by rw [mr_XT_old m parent frame j b name hwf i i2]; exact h.r,
      by rw [mr_sjoint_old m parent frame j b name hwf i i2]; exact h.joint,
      by rw [mr_joint_old m parent frame j b name hwf i i2]; exact h.qIdx,
      h.apiId, h.movableId,
      by rw [mr_body_old m parent frame j b name i i2]; exact h.virt,
      by rw [mr_rbi_old m parent frame j b name hwf i i2]; exact h.rbi, h.symm⟩
  refine ⟨⟨hwf', ?_, ?_, ?_, ?_⟩, hS.nofixed, hjt, ?_, ?_, ?_, ?_, hS.gravity, ?_, ?_, ?_⟩
  · intro i k hi; exact absurd hi (hjt i)
  · intro i i1 i2
    rw [hnb'] at i2
    by_cases h : i < m.nBodies
    · rw [mr_joint_old m parent frame j b name hwf i h]; exact hS.ok.jc i i1 h
    · have : i = m.nBodies := by omega
      subst this; rw [mr_joint_new m parent frame j b name hwf]; exact hjc
  · intro i i1 i2
    rw [hnb'] at i2
    by_cases h : i < m.nBodies
    · rw [mr_joint_old m parent frame j b name hwf i h]; exact hS.ok.decl i i1 h
    · have : i = m.nBodies := by omega
      subst this; rw [mr_joint_new m parent frame j b name hwf]; exact hdecl
  · intro i i1 i2
    rw [hnb'] at i2
    by_cases h : i < m.nBodies
    · rw [mr_XT_old m parent frame j b name hwf i h]; exact hS.ok.frame i i1 h
    · have : i = m.nBodies := by omega
      subst this; rw [mr_XT_new m parent frame j b name hwf hS.nofixed]; exact hE
  · show p.sb.nMovable = m.bodies.length
    exact hS.nmov
  · show (p.sb.M.nodes ++ _).length = _
    rw [List.length_append, hS.len, hnb']; rfl
  · show p.sb.nMovable + 1 = _
    rw [hS.nmov, hnb']
  · show p.sb.idMap ++ _ = _
    rw [hS.idmap, hS.nmov, hS.len, hnb', idMapN_succ]
  · show ({ p.sb.M with nodes := p.sb.M.nodes ++ _ } : SModel α).nv = _
    rw [nv_append, hS.nv, hnj, hdof]; rfl
  · intro nd' h
    have h0 : 0 < p.sb.M.nodes.length := by rw [hS.len]; exact hwf.nb_pos
    have : (p.sb.M.nodes ++ [nd])[0]? = p.sb.M.nodes[0]? := List.getElem?_append_left h0
    exact hS.base nd' (this ▸ h)
  · intro i nd' i1 h
    have h' : (p.sb.M.nodes ++ [nd])[i]? = some nd' := h
    by_cases hi : i < m.nBodies
    · rw [List.getElem?_append_left (by rw [hS.len]; exact hi)] at h'
      exact hold i nd' i1 hi (hS.node i nd' i1 h')
    · have hlen : i < (p.sb.M.nodes ++ [nd]).length := lt_of_get h'
      rw [List.length_append, hS.len] at hlen
      have hi' : i = m.nBodies := by simp at hlen; omega
      subst hi'
      rw [List.getElem?_append_right (by rw [hS.len]; exact Nat.le_refl _), hS.len, Nat.sub_self]
        at h'
      simp only [List.getElem?_cons_zero, Option.some.injEq] at h'
      subst h'
      refine ⟨?_, ?_, ?_, ?_, ?_, ?_, ?_, ?_, ?_, ?_⟩
      · rw [hnp, mr_lam_new m parent frame j b name hwf, mpOf_nofixed m parent hS.nofixed,
          nodeOf_idMapN p.sb m.nBodies parent hS.idmap hp]
      · rw [hnE, mr_XT_new m parent frame j b name hwf hS.nofixed]
      · rw [hnr, mr_XT_new m parent frame j b name hwf hS.nofixed]
      · rw [hnj, sjoint_eq_sj _ _ (hjt m.nBodies), mr_joint_new m parent frame j b name hwf]
        rfl
      · rw [hnq, mr_joint_new m parent frame j b name hwf, hS.nv]
      · rw [hna]; exact hS.nmov
      · rw [hnm]; exact hS.nmov
      · rw [hnh, mr_body_new]
      · intro hh
        obtain ⟨e1, e2, e3, _⟩ := hnb hh
        rw [e1, e2, e3]
        exact mr_rbi_new m parent frame j b name hwf
      · intro hh
        obtain ⟨_, _, e3, e4⟩ := hnb hh
        rw [e3]; exact e4

/-! ### the invariant up to the unread component of the id map -/

/-- the builder with the id map of a model without fixed bodies -/
def fixId (p : PB α) : PB α := ⟨{ p.sb with idMap := idMapN p.sb.nMovable }, p.prev⟩

structure SimN (m : ModelS α) (p : PB α) : Prop where
  sim : Sim m (fixId p)
  found : ∀ id, id < m.nBodies → (p.sb.idMap.find? (fun e => e.1 == id)).isSome
  keys : ∀ e ∈ p.sb.idMap, e.1 < m.nBodies
  lookup : ∀ id, id < m.nBodies → lookupNode p.sb.idMap id = id

theorem simN_init : SimN (ModelS.init : ModelS α) PB.init := by
  refine ⟨sim_init, ?_, ?_, ?_⟩
  · intro id h
    have : id = 0 := by have : (ModelS.init : ModelS α).nBodies = 1 := rfl; omega
    subst this; rfl
  · intro e he
    simp only [PB.init, SB.init, List.mem_singleton] at he
    subst he
    show 0 < 1
    omega
  · intro id h
    have : id = 0 := by have : (ModelS.init : ModelS α).nBodies = 1 := rfl; omega
    subst this; rfl

/-- one movable body appended on both sides (any `f` in the middle component) -/
theorem simN_movable (m : ModelS α) (p : PB α) (hS : SimN m p) (parent : Nat) (frame : XT α)
    (j : Joint α) (b : Body α) (name : String) (nd : SNode α) (f : Nat) (hp : parent < m.nBodies)
    (hE : frame.E.IsRot) (hn : ¬(name ≠ "" ∧ m.hasName name))
    (hjc : j.jt.hasJcalc = true) (hnc : j.jt ≠ .custom) (hdecl : JointDecl j)
    (hdof : (jointSj j).dof = j.dof)
    (hnp : nd.parent = lookupNode p.sb.idMap parent) (hnE : nd.E = frame.E) (hnr : nd.r = frame.r)
    (hnj : nd.joint = jointSj j) (hnq : nd.qIdx = p.sb.M.nv) (hna : nd.apiId = p.sb.nMovable)
    (hnm : nd.movableId = p.sb.nMovable) (hnh : nd.hasBody = !b.isVirtual)
    (hnb : nd.hasBody = true → nd.mass = b.mass ∧ nd.com = b.com ∧ nd.inertia = b.inertia ∧
      b.inertia.transpose = b.inertia) :
    SimN (m.movableResult parent frame j b name) ⟨pushMov p.sb nd f, m.nBodies⟩ := by
  have hs := hS.sim
  have hnmov : p.sb.nMovable = m.nBodies := hs.nmov
  have hlen : p.sb.M.nodes.length = m.nBodies := hs.len
  have hnb' := mr_nBodies m parent frame j b name
  have hpar : nd.parent = (fixId p).sb.nodeOf parent := by
    rw [hnp, hS.lookup parent hp]
    exact (nodeOf_idMapN (fixId p).sb m.nBodies parent hs.idmap hp).symm
  have h1 := sim_movableG m (fixId p) hs parent frame j b name nd hp hE hn hjc hnc hdecl hdof hpar
    hnE hnr hnj hnq hna hnm hnh hnb
  have hfind_new : p.sb.idMap.find? (fun e => e.1 == m.nBodies) = none :=
    find_none_of_keys _ (fun k => k < m.nBodies) _ hS.keys (Nat.lt_irrefl _)
  refine ⟨?_, ?_, ?_, ?_⟩
  · have e : fixId ⟨pushMov p.sb nd f, m.nBodies⟩
        = ⟨{ (fixId p).sb with
              M := { (fixId p).sb.M with nodes := (fixId p).sb.M.nodes ++ [nd] },
              nMovable := (fixId p).sb.nMovable + 1,
              idMap := (fixId p).sb.idMap ++
                [((fixId p).sb.nMovable, (fixId p).sb.M.nodes.length, (fixId p).sb.M.nodes.length)] },
            (fixId p).sb.nMovable⟩ := by
      show PB.mk (SB.mk _ _ _ _) _ = PB.mk (SB.mk _ _ _ _) _
      congr 1
      · congr 1
        show idMapN (p.sb.nMovable + 1) = idMapN p.sb.nMovable ++
          [(p.sb.nMovable, p.sb.M.nodes.length, p.sb.M.nodes.length)]
        rw [idMapN_succ, hlen, hnmov]
      · exact hnmov.symm
    rw [e]
    exact h1
  · intro id hid
    rw [hnb'] at hid
    refine find_append_isSome _ _ _ ?_
    by_cases h : id < m.nBodies
    · exact Or.inl (hS.found id h)
    · exact Or.inr (by show p.sb.nMovable = id; omega)
  · intro e he
    rw [hnb']
    change e ∈ p.sb.idMap ++ _ at he
    rcases List.mem_append.1 he with h | h
    · have := hS.keys e h; omega
    · simp only [List.mem_singleton] at h
      subst h
      show p.sb.nMovable < _
      omega
  · intro id hid
    rw [hnb'] at hid
    show lookupNode (p.sb.idMap ++ [(p.sb.nMovable, f, p.sb.M.nodes.length)]) id = id
    by_cases h : id < m.nBodies
    · rw [lookup_append_old _ _ _ (hS.found id h)]; exact hS.lookup id h
    · have hid' : id = m.nBodies := by omega
      subst hid'
      have := lookup_append_new p.sb.idMap (p.sb.nMovable, f, p.sb.M.nodes.length)
        (by rw [hnmov]; exact hfind_new)
      rw [hnmov] at this ⊢
      rw [this]
      exact hlen

/-! ### the chain -/

theorem jointSj_dof_ofAxis (a : SV α) : (jointSj (Joint.ofAxis a)).dof = (Joint.ofAxis a).dof :=
  codeJoint_dof a

theorem simN_chain (b : Body α) (name : String) (hbv : b.isVirtual = false)
    (hsym : b.inertia.transpose = b.inertia) (n : Nat) (E : M3 α) (r : V3 α) (first : Nat) :
    ∀ (axes : List (SV α)) (m : ModelS α) (p : PB α) (par : Nat) (fr : XT α) (k : Nat),
    SimN m p → par < m.nBodies → fr.E.IsRot → ¬(name ≠ "" ∧ m.hasName name) →
    axes ≠ [] → k + axes.length = n →
    (if k = 0 then E else M3.one) = fr.E → (if k = 0 then r else V3.zero) = fr.r →
    SimN (m.addChain par fr axes b name).1
      ⟨chainGo n E r b.mass b.com b.inertia first (axes.map codeJoint) k p.sb
        (lookupNode p.sb.idMap par), m.nBodies + axes.length - 1⟩ := by
  intro axes
  induction axes with
  | nil => intro m p par fr k _ _ _ _ h; exact absurd rfl h
  | cons a rest ih =>
    intro m p par fr k hS hp hE hd _ hkn hfE hfr
    have hnmov : p.sb.nMovable = m.nBodies := hS.sim.nmov
    cases rest with
    | nil =>
      have hk1 : k + 1 = n := hkn
      have hadd : m.addChain par fr [a] b name
          = (m.movableResult par fr (Joint.ofAxis a) b name, .ok m.nBodies) := by
        simp only [ModelS.addChain]
        rw [ModelS.addBodyMovable_eq, if_neg hd]; rfl
      rw [hadd]
      have hlen : m.nBodies + [a].length - 1 = m.nBodies := by simp
      rw [hlen]
      show SimN _ ⟨pushMov p.sb (chainNode n k E r b.mass b.com b.inertia p.sb
        (lookupNode p.sb.idMap par) (codeJoint a)) first, m.nBodies⟩
      refine simN_movable m p hS par fr (Joint.ofAxis a) b name _ first hp hE hd (ofAxis_hasJcalc a)
        (ofAxis_not_custom a) (ofAxis_decl a) (jointSj_dof_ofAxis a) rfl hfE hfr rfl rfl rfl rfl ?_ ?_
      · show decide (k + 1 = n) = !b.isVirtual
        rw [hbv]; simp [hk1]
      · intro _
        show (if k + 1 = n then b.mass else 0) = b.mass ∧ (if k + 1 = n then b.com else V3.zero) = b.com ∧
          (if k + 1 = n then b.inertia else M3.zero) = b.inertia ∧ _
        rw [if_pos hk1, if_pos hk1, if_pos hk1]
        exact ⟨rfl, rfl, rfl, hsym⟩
    | cons a2 rest2 =>
      have hk1 : k + 1 ≠ n := by simp at hkn; omega
      have hadd : m.addChain par fr (a :: a2 :: rest2) b name
          = (m.movableResult par fr (Joint.ofAxis a) ModelS.nullBody "").addChain m.nBodies XT.id
              (a2 :: rest2) b name := by
        simp only [ModelS.addChain]
        rw [ModelS.addBodyMovable_unnamed]
        rfl
      have h1 : SimN (m.movableResult par fr (Joint.ofAxis a) ModelS.nullBody "")
          ⟨pushMov p.sb (chainNode n k E r b.mass b.com b.inertia p.sb
            (lookupNode p.sb.idMap par) (codeJoint a)) first, m.nBodies⟩ := by
        refine simN_movable m p hS par fr (Joint.ofAxis a) ModelS.nullBody "" _ first hp hE
          (ModelS.not_dup_empty m) (ofAxis_hasJcalc a) (ofAxis_not_custom a) (ofAxis_decl a)
          (jointSj_dof_ofAxis a) rfl hfE hfr rfl rfl rfl rfl ?_ ?_
        · show decide (k + 1 = n) = !ModelS.nullBody.isVirtual
          simp [hk1, ModelS.nullBody]
        · intro hh
          have : decide (k + 1 = n) = true := hh
          simp [hk1] at this
      have hnb1 := mr_nBodies m par fr (Joint.ofAxis a) ModelS.nullBody ""
      have hd1 : ¬(name ≠ "" ∧
          (m.movableResult par fr (Joint.ofAxis a) ModelS.nullBody "").hasName name) := by
        rw [ModelS.hasName_congr (ModelS.movableResult_names_unnamed ..)]; exact hd
      have hlk : lookupNode (pushMov p.sb (chainNode n k E r b.mass b.com b.inertia p.sb
          (lookupNode p.sb.idMap par) (codeJoint a)) first).idMap m.nBodies = p.sb.M.nodes.length := by
        rw [h1.lookup m.nBodies (by rw [hnb1]; omega)]
        exact hS.sim.len.symm
      have i2 := ih (m.movableResult par fr (Joint.ofAxis a) ModelS.nullBody "")
        ⟨pushMov p.sb (chainNode n k E r b.mass b.com b.inertia p.sb
          (lookupNode p.sb.idMap par) (codeJoint a)) first, m.nBodies⟩ m.nBodies XT.id (k + 1)
        h1 (by rw [hnb1]; omega) M3.isRot_one hd1 (by simp) (by simp at hkn ⊢; omega)
        (by rw [if_neg (by omega)]; rfl) (by rw [if_neg (by omega)]; rfl)
      have e : (m.movableResult par fr (Joint.ofAxis a) ModelS.nullBody "").nBodies
          + (a2 :: rest2).length - 1 = m.nBodies + (a :: a2 :: rest2).length - 1 := by
        rw [hnb1]; simp; omega
      rw [hlk, e] at i2
      rw [hadd]
      exact i2

/-! ### supported operations, the run -/

/-- every operation is valid, supported (a single-body joint as for `goodRun`, or an emulated multi-DoF
    joint) and succeeds; no fixed bodies, no bound on the number of bodies -/
def goodRunM (m : ModelS α) : List (Op α) → Prop
  | [] => True
  | op :: ops =>
    op.valid m ∧ (Op.simple op ∨ Op.multi op) ∧ (∃ id, (m.step op).2 = .ok id) ∧
      goodRunM (m.step op).1 ops

theorem goodRunM_of_goodRun (ops : List (Op α)) : ∀ (m : ModelS α), goodRun m ops → goodRunM m ops := by
  induction ops with
  | nil => intro _ _; trivial
  | cons op ops ih =>
    intro m hg
    obtain ⟨hv, hs, hok, hrest⟩ := hg
    exact ⟨hv, Or.inl hs, hok, ih _ hrest⟩

theorem simpleF_of_simple {op : Op α} (h : Op.simple op) : Op.simpleF op := by
  cases op with
  | addBody parent frame j b name => exact ⟨h.1, h.2.2.2, Or.inl ⟨h.2.1, h.2.2.1⟩⟩
  | appendBody frame j b name => exact ⟨h.1, h.2.2.2, Or.inl ⟨h.2.1, h.2.2.1⟩⟩
  | addBodyCustomJoint parent frame k b name => exact h.elim

theorem validIdN {m : ModelS α} {p : PB α} (hS : SimN m p) (id : Nat) (h : m.validId id) :
    id < m.nBodies := validId_lt hS.sim id h

theorem simN_addBody (m : ModelS α) (p : PB α) (hS : SimN m p) (parent : Nat) (frame : XT α)
    (j : Joint α) (b : Body α) (name : String) (hp : parent < m.nBodies)
    (ha : (frame.E.IsRot ∧ GoodJoint j ∧ GoodBody b) ∨ chainOK frame j b) (id : Nat)
    (hok : (m.addBody parent frame j b name).2 = .ok id) :
    SimN (m.addBody parent frame j b name).1 (addS p parent frame j b) := by
  have hnmov : p.sb.nMovable = m.nBodies := hS.sim.nmov
  rw [ModelS.addBody_eq] at hok ⊢
  by_cases hd : name ≠ "" ∧ m.hasName name
  · rw [if_pos hd] at hok; cases hok
  · rw [if_neg hd] at hok ⊢
    rcases ha with ⟨hE, hj, hb⟩ | ⟨hE, hsym, hbv, hk, hax⟩
    · obtain ⟨he, hsj, hdof⟩ := expand_descOf j hj
      have hks := hasJcalc_single _ hj.1
      rw [hks]
      show SimN (m.addBodyMovable parent frame j b name).1 _
      rw [ModelS.addBodyMovable_eq, if_neg hd,
        addS_of_not_chain p parent frame j b (by rw [hks]; exact fun e => nomatch e)]
      unfold PB.add
      rw [add_single' p.sb parent frame.E frame.r (descOf j) (jointSj j) b.mass b.com b.inertia he
        hsj]
      show SimN _ ⟨_, p.sb.nMovable⟩
      rw [hnmov]
      exact simN_movable m p hS parent frame j b name _ _ hp hE hd hj.1 hj.2.1 hj.2.2.1 hdof rfl rfl
        rfl rfl rfl rfl rfl (by show true = !b.isVirtual; rw [hb.1]; rfl)
        (fun _ => ⟨rfl, rfl, rfl, hb.2⟩)
    · rw [hk]
      have hS' : addS p parent frame j b
          = ⟨chainGo j.axes.length frame.E frame.r b.mass b.com b.inertia p.sb.M.nodes.length
              (j.axes.map codeJoint) 0 p.sb (lookupNode p.sb.idMap parent),
            m.nBodies + j.axes.length - 1⟩ := by
        unfold addS; rw [hk, hnmov]; rfl
      rw [hS']
      exact simN_chain b name hbv hsym j.axes.length frame.E frame.r p.sb.M.nodes.length j.axes m p
        parent frame 0 hS hp hE hd hax (Nat.zero_add _) (if_pos rfl) (if_pos rfl)

theorem simN_stepS (m : ModelS α) (p : PB α) (hS : SimN m p) (op : Op α) (hv : op.valid m)
    (hs : Op.simple op ∨ Op.multi op) (id : Nat) (hok : (m.step op).2 = .ok id) :
    SimN (m.step op).1 (stepS p op) := by
  cases op with
  | addBody parent frame j b name =>
    exact simN_addBody m p hS parent frame j b name (validIdN hS parent hv.1) hs id hok
  | appendBody frame j b name =>
    show SimN (m.addBody m.prevBodyId frame j b name).1 (addS p p.prev frame j b)
    have hprev : p.prev = m.prevBodyId := hS.sim.prev
    rw [hprev]
    exact simN_addBody m p hS m.prevBodyId frame j b name (prev_lt hS.sim) hs id hok
  | addBodyCustomJoint parent frame k b name =>
    rcases hs with hs | hs <;> exact hs.elim

theorem simN_runS (ops : List (Op α)) : ∀ (m : ModelS α) (p : PB α), SimN m p → goodRunM m ops →
    SimN (m.run ops) (runS p ops) ∧ normPB (runS p ops) = runM (normPB p) ops := by
  induction ops with
  | nil => intro m p h _; exact ⟨h, rfl⟩
  | cons op ops ih =>
    intro m p hS hg
    obtain ⟨hv, hs, ⟨id, hok⟩, hrest⟩ := hg
    obtain ⟨a, c⟩ := ih _ _ (simN_stepS m p hS op hv hs id hok) hrest
    refine ⟨a, ?_⟩
    show normPB (runS (stepS p op) ops) = runM (stepM (normPB p) op) ops
    rw [c, normPB_stepS p op (hs.imp simpleF_of_simple (fun h => h))]

/-- **Stage E for the extended class** (no fixed bodies, no bound on the number of bodies): `ModelOK`,
    the syntactic relation `Refines` for the shadow model, whose normal form is the specification model,
    hence the weak relation `RefinesW (init.run ops) (specOfM ops)` -/
theorem refinesW_by_construction (ops : List (Op α))
    (hg : goodRunM (ModelS.init : ModelS α) ops) :
    ModelOK ((ModelS.init : ModelS α).run ops) ∧
    Refines ((ModelS.init : ModelS α).run ops) (shadowOf ops) ∧
    specOfM ops = normM (shadowOf ops) ∧
    RefinesW ((ModelS.init : ModelS α).run ops) (specOfM ops) := by
  obtain ⟨hS, hn⟩ := simN_runS ops _ _ simN_init hg
  have hR : Refines ((ModelS.init : ModelS α).run ops) (shadowOf ops) := by
    have := refines_of_sim hS.sim
    exact this
  have hs : specOfM ops = normM (shadowOf ops) := by
    unfold specOfM shadowOf
    rw [← normM_finalize, ← normPB_init, ← hn]
    rfl
  exact ⟨hS.sim.ok, hR, hs, hs ▸ refinesW_normM hR⟩

theorem specOfM_eq_specOf' (ops : List (Op α)) : ∀ (m : ModelS α) (p : PB α), goodRun m ops →
    runM p ops = p.run ops := by
  induction ops with
  | nil => intro _ _ _; rfl
  | cons op ops ih =>
    intro m p hg
    obtain ⟨hv, hs, hok, hrest⟩ := hg
    show runM (stepM p op) ops = PB.run (p.step op) ops
    rw [stepM_simpleF p op (simpleF_of_simple hs)]
    exact ih _ _ hrest

/-- on `goodRun` sequences the specification is the old one -/
theorem specOfM_eq_specOf_goodRun (ops : List (Op α)) (hg : goodRun (ModelS.init : ModelS α) ops) :
    specOfM ops = specOf ops := by
  unfold specOfM specOf
  rw [specOfM_eq_specOf' ops _ _ hg]

/-! ### virtual bodies carry the zero inertia -/

theorem vz_movable (m : ModelS α) (hwf : m.WF) (hV : LDynCap.VirtZero m) (parent : Nat)
    (frame : XT α) (j : Joint α) (b : Body α) (name : String)
    (hb : b.isVirtual = true → b.mass = 0 ∧ b.inertia = M3.zero) :
    LDynCap.VirtZero (m.movableResult parent frame j b name) := by
  intro i i1 i2 hv
  rw [mr_nBodies] at i2
  by_cases hi : i < m.nBodies
  · rw [mr_body_old m parent frame j b name i hi] at hv
    rw [mr_rbi_old m parent frame j b name hwf i hi]
    exact hV i i1 hi hv
  · have : i = m.nBodies := by omega
    subst this
    rw [mr_body_new] at hv
    rw [mr_rbi_new m parent frame j b name hwf]
    obtain ⟨e1, e2⟩ := hb hv
    rw [e1, e2]
    exact nullRBI_eq _

theorem vz_chain (b : Body α) (name : String) (hbv : b.isVirtual = false) :
    ∀ (axes : List (SV α)) (m : ModelS α) (par : Nat) (fr : XT α), m.WF → m.validId par →
    LDynCap.VirtZero m → axes ≠ [] → ¬(name ≠ "" ∧ m.hasName name) →
    LDynCap.VirtZero (m.addChain par fr axes b name).1 := by
  intro axes
  induction axes with
  | nil => intro m par fr _ _ _ h; exact absurd rfl h
  | cons a rest ih =>
    intro m par fr hwf hp hV _ hd
    cases rest with
    | nil =>
      simp only [ModelS.addChain]
      rw [ModelS.addBodyMovable_eq, if_neg hd]
      exact vz_movable m hwf hV par fr _ b name (fun hv => by rw [hbv] at hv; cases hv)
    | cons a2 rest2 =>
      have hadd : m.addChain par fr (a :: a2 :: rest2) b name
          = (m.movableResult par fr (Joint.ofAxis a) ModelS.nullBody "").addChain m.nBodies XT.id
              (a2 :: rest2) b name := by
        simp only [ModelS.addChain]
        rw [ModelS.addBodyMovable_unnamed]
        rfl
      have hd1 : ¬(name ≠ "" ∧
          (m.movableResult par fr (Joint.ofAxis a) ModelS.nullBody "").hasName name) := by
        rw [ModelS.hasName_congr (ModelS.movableResult_names_unnamed ..)]; exact hd
      rw [hadd]
      exact ih _ _ _
        (ModelS.wf_movableResult m hwf par fr _ ModelS.nullBody "" hp (ModelS.jointOk_ofAxis m a)
          (ModelS.not_dup_empty m))
        (ModelS.movableResult_validId_new ..)
        (vz_movable m hwf hV par fr _ ModelS.nullBody "" (fun _ => ⟨rfl, rfl⟩)) (by simp) hd1

theorem vz_addBody (m : ModelS α) (hwf : m.WF) (hV : LDynCap.VirtZero m) (parent : Nat)
    (frame : XT α) (j : Joint α) (b : Body α) (name : String) (hp : m.validId parent)
    (ha : (frame.E.IsRot ∧ GoodJoint j ∧ GoodBody b) ∨ chainOK frame j b) :
    LDynCap.VirtZero (m.addBody parent frame j b name).1 := by
  rw [ModelS.addBody_eq]
  by_cases hd : name ≠ "" ∧ m.hasName name
  · rw [if_pos hd]; exact hV
  · rw [if_neg hd]
    rcases ha with ⟨_, hj, hb⟩ | ⟨_, _, hbv, hk, hax⟩
    · rw [hasJcalc_single _ hj.1]
      show LDynCap.VirtZero (m.addBodyMovable parent frame j b name).1
      rw [ModelS.addBodyMovable_eq, if_neg hd]
      exact vz_movable m hwf hV parent frame j b name (fun hv => by rw [hb.1] at hv; cases hv)
    · rw [hk]
      exact vz_chain b name hbv j.axes m parent frame hwf hp hV hax hd

theorem vz_runM (ops : List (Op α)) : ∀ (m : ModelS α) (p : PB α), SimN m p →
    LDynCap.VirtZero m → goodRunM m ops → LDynCap.VirtZero (m.run ops) := by
  induction ops with
  | nil => intro m p _ h _; exact h
  | cons op ops ih =>
    intro m p hS hV hg
    obtain ⟨hv, hs, ⟨id, hok⟩, hrest⟩ := hg
    refine ih _ _ (simN_stepS m p hS op hv hs id hok) ?_ hrest
    have hwf := hS.sim.ok.wf
    cases op with
    | addBody parent frame j b name => exact vz_addBody m hwf hV parent frame j b name hv.1 hs
    | appendBody frame j b name =>
      exact vz_addBody m hwf hV m.prevBodyId frame j b name hwf.prev_ok hs
    | addBodyCustomJoint parent frame k b name => rcases hs with hs | hs <;> exact hs.elim

/-- the virtual bodies of a `goodRunM` model (the massless links of the emulated joints) carry the zero
    spatial inertia -/
theorem virtZero_by_constructionM (ops : List (Op α))
    (hg : goodRunM (ModelS.init : ModelS α) ops) :
    LDynCap.VirtZero ((ModelS.init : ModelS α).run ops) :=
  vz_runM ops _ _ simN_init (fun i i1 i2 => by
    have : (ModelS.init : ModelS α).nBodies = 1 := rfl
    omega) hg

/-- `mJointUpdateOrder` of a `goodRunM` model enumerates its movable bodies -/
theorem uo_runM (ops : List (Op α)) : ∀ (m : ModelS α), LDynCap.UO m → goodRunM m ops →
    LDynCap.UO (m.run ops) := by
  induction ops with
  | nil => intro m h _; exact h
  | cons op ops ih =>
    intro m h hg
    obtain ⟨hv, hs, hok, hrest⟩ := hg
    refine ih _ ?_ hrest
    rcases hs with hs | hs
    · exact LDynCap.uo_run [op] m h ⟨hv, hs, hok, trivial⟩
    · cases op with
      | addBody parent frame j b name => exact uo_addBody_chain m h parent frame j b name hs
      | appendBody frame j b name => exact uo_addBody_chain m h m.prevBodyId frame j b name hs
      | addBodyCustomJoint parent frame k b name => exact hs.elim

theorem orderOK_by_constructionM (ops : List (Op α))
    (hg : goodRunM (ModelS.init : ModelS α) ops) :
    LDynCap.OrderOK ((ModelS.init : ModelS α).run ops) :=
  LDynCap.orderOK_of_uo (refinesW_by_construction ops hg).1.wf (uo_runM ops _ LDynCap.uo_init hg)

end
end Rbdl.LCapMulti
