import RbdlProofs.Lemmas.L07Lift
/-
  C07: consequences of the whole-model statements — all entries of `tau`, `NonlinearEffects`.
-/
namespace Rbdl.L07
open Lean.Grind Rbdl Rbdl.Loops Rbdl.L01
set_option linter.unusedVariables false
set_option linter.unusedSimpArgs false
set_option linter.unusedSectionVars false

section
variable {α : Type} [Field α]

/-- the construction-time invariant of Rbdl/WSInv.lean implies the one used by the C01 lemmas -/
theorem wsjat_of_fixed (m : ModelS α) (w : WS α) (i : Nat) (hw : FixedW m w i) : WSJat m w i := by
  unfold FixedW at hw
  unfold WSJat
  cases hj : (m.joint i).jt <;> simp only [hj, FixedAt] at hw ⊢ <;> try first | trivial | exact hw
  case spherical => exact ⟨sphericalS_fixed _ hw.2, hw.1⟩
  case translationXYZ => exact translationS_fixed _ hw
  case eulerZYX => exact fun c1 s1 c2 s2 => eulerS_fixed .eulerZYX rfl _ hw c1 s1 c2 s2
  case eulerXYZ => exact fun c1 s1 c2 s2 => eulerS_fixed .eulerXYZ rfl _ hw c1 s1 c2 s2
  case eulerYXZ => exact fun c1 s1 c2 s2 => eulerS_fixed .eulerYXZ rfl _ hw c1 s1 c2 s2
  case eulerZXY => exact fun c1 s1 c2 s2 => eulerS_fixed .eulerZXY rfl _ hw c1 s1 c2 s2

theorem wsj_of_fixed (m : ModelS α) (w : WS α)
    (hok : ∀ i, 1 ≤ i → i < m.nBodies → JointOK m i)
    (hw : ∀ i, 1 ≤ i → i < m.nBodies → FixedW m w i) : WSJ m w :=
  fun i h1 h2 => ⟨hok i h1 h2, wsjat_of_fixed m w i (hw i h1 h2)⟩

theorem Scols_three (m : ModelS α) (W : WS α) (j : Nat) (h : m.arity j = .three) :
    W.Scols m j = (W.S3 j).cols := by unfold WS.Scols; rw [h]

theorem Xrot_axis (t : JT) (ht : isRevXYZ t = true) (c s : α) :
    Xrot c s (axisJ t : SV α).w = rotJ t c s := by
  cases t <;> first | exact absurd ht (by decide) | skip
  · exact C16.Xrot_x c s
  · exact C16.Xrot_y c s
  · exact C16.Xrot_z c s

/-- **F** (all three axes): built-in `RevoluteX/Y/Z` versus `Revolute` with the same axis -/
theorem rev_builtin_vs_axis (mA mB : ModelS α) (i j : Nat) (wA wB : WS α) (st : QS α)
    (qd : VecN α)
    (hA : isRevXYZ (mA.joint i).jt = true) (dA : (mA.joint i).dof = 1)
    (hB : (mB.joint j).jt = .revolute) (dB : (mB.joint j).dof = 1)
    (hBax : (mB.joint j).axes.headD SV.zero = axisJ (mA.joint i).jt)
    (qB : (mB.joint j).qIndex = (mA.joint i).qIndex) (xB : mB.XT_ j = mA.XT_ i)
    (hwA : FixedW mA wA i) (hwB : FixedW mB wB j) (qdd : VecN α) :
    jrow mB wB j st qd qdd = jrow mA wA i st qd qdd := by
  obtain ⟨a1, a2, a3, a4⟩ := jcalc_rev mA wA i st qd hA hwA
  obtain ⟨b1, b2, b3, b4⟩ := jcalc_revolute mB wB j st qd hB hwB
  have arA : mA.arity i = .one := arity_of_dof1 _ _ (isRevXYZ_ne_custom hA) dA
  have arB : mB.arity j = .one := arity_of_dof1 _ _ (by rw [hB]; exact fun e => nomatch e) dB
  unfold jrow
  rw [a1, a3, a4, b1, b3, b4, Scols_one _ _ _ arA, Scols_one _ _ _ arB, Sqdd_one _ _ _ _ arA,
    Sqdd_one _ _ _ _ arB, a2, b2, hBax, Xrot_axis _ hA, qB, xB]

/-- **F'**: the user-defined joint re-implementing `EulerZYX` versus the built-in one -/
theorem eulerZYX_custom_vs_builtin (mA mC : ModelS α) (i k : Nat) (wA wC : WS α) (st : QS α)
    (qd qdd : VecN α)
    (hA : (mA.joint i).jt = .eulerZYX) (dA : (mA.joint i).dof = 3)
    (hC : (mC.joint k).jt = .custom) (hCk : mC.custom (mC.joint k).customIdx = .eulerZYX)
    (qC : (mC.joint k).qIndex = (mA.joint i).qIndex) (xC : mC.XT_ k = mA.XT_ i)
    (hwA : FixedW mA wA i) :
    jrow mC wC k st qd qdd = jrow mA wA i st qd qdd := by
  have arA : mA.arity i = .three := arity_of_dof3 _ _ (by rw [hA]; exact fun e => nomatch e) dA
  have arC : mC.arity k = .custom := (arity_custom_iff mC k).2 hC
  obtain ⟨e1, e2, e3, e4⟩ := jcalc_euler mA wA i st qd (by rw [hA]; rfl) hwA
  rw [jrow_eq mC, arC]
  unfold jrow
  rw [e1, e3, e4, Scols_three _ _ _ arA, Sqdd_three _ _ _ _ arA, e2, hA]
  unfold jcalcX L13.jcalcVJ L13.jcalcCJ L13.jcalcCS
  simp only [hC, hCk, upd_same, qC, xC, customXJ, customCalc, eulerE, eulerS, eulerCJ,
    colsMul, colsMul.indexedCols, List.length_cons, List.length_nil, List.range, List.range.loop,
    List.zip_cons_cons, List.zip_nil_right, List.foldl_cons, List.foldl_nil, Nat.add_zero,
    M63.cols, M63.mulV3]
  refine Prod.ext rfl (Prod.ext ?_ (Prod.ext rfl (Prod.ext rfl ?_))) <;> alg_ext

variable {mE mC : ModelS α} {φ ψ : Nat → Nat} {iE i1 i2 i3 : Nat}

/-- whole model, all entries: when corresponding joints use the same coordinates, the two
    `InverseDynamics` results agree on every entry below `dofCount` -/
theorem embed_inverseDynamics_all (C : ChainEmbed mE mC φ ψ iE i1 i2 i3)
    (hwf : mE.WF) (hwf' : mC.WF) (hc : CustomInj mE) (hc' : CustomInj mC)
    (wE wC : WS α) (st : QS α) (qd qdd tau tau' : VecN α)
    (K : Composite3 mE iE mC i1 i2 i3 wE wC st qd)
    (hrow : ∀ i, 1 ≤ i → i < mE.nBodies → i ≠ iE →
      jrow mC wC (φ i) st qd qdd = jrow mE wE i st qd qdd)
    (hq : ∀ i, 1 ≤ i → i < mE.nBodies → i ≠ iE → (mC.joint (φ i)).qIndex = (mE.joint i).qIndex)
    (k : Nat) (hk : k < mE.dofCount) :
    (inverseDynamics mC wC st qd qdd tau' none).2 k
      = (inverseDynamics mE wE st qd qdd tau none).2 k := by
  obtain ⟨_, h2, h3⟩ := embed_inverseDynamics C hwf hwf' hc hc' wE wC st qd qdd tau tau' K hrow
  obtain ⟨h, _, _⟩ := idForward_closed mE hc hwf.lam_lt wE st qd qdd none
  have hlen := scols_length_closed mE hwf st qd qdd wE _ h C.arityOk
  obtain ⟨i, i1', i2', ho⟩ := owns_cover_of_WF mE _ hwf hlen k hk
  unfold owns at ho
  rw [hlen i i1' i2'] at ho
  obtain ⟨d, rfl⟩ : ∃ d, k = (mE.joint i).qIndex + d := ⟨k - (mE.joint i).qIndex, by omega⟩
  by_cases hE : i = iE
  · subst hE
    have hd3 : (mE.joint i).dof = 3 := by
      have := K.aE
      unfold ModelS.arity at this
      dsimp only at this
      split at this
      · cases this
      · split at this
        · cases this
        · split at this
          · assumption
          · cases this
    exact h3 d (by omega)
  · have := h2 i d i1' i2' hE (by omega)
    rw [hq i i1' i2' hE] at this
    exact this

end

section
variable {α : Type} [Field α] [DecidableEq α]
variable {mE mC : ModelS α} {φ ψ : Nat → Nat} {iE i1 i2 i3 : Nat}

/-- whole model, `NonlinearEffects`: the two models give the same result on every entry below
    `dofCount` (`NonlinearEffects` = `InverseDynamics` with `q̈ = 0`, C01) -/
theorem embed_nonlinearEffects (C : ChainEmbed mE mC φ ψ iE i1 i2 i3)
    (hwf : mE.WF) (hwf' : mC.WF) (hc : CustomInj mE) (hc' : CustomInj mC)
    (hperm : (mE.updateOrder.drop 1).Perm (List.range' 1 (mE.nBodies - 1)))
    (hperm' : (mC.updateOrder.drop 1).Perm (List.range' 1 (mC.nBodies - 1)))
    (hdc : mC.dofCount = mE.dofCount)
    (wE wC : WS α) (st : QS α) (qd tau tau' : VecN α)
    (hokE : ∀ i, 1 ≤ i → i < mE.nBodies → JointOK mE i)
    (hokC : ∀ i, 1 ≤ i → i < mC.nBodies → JointOK mC i)
    (hwE : ∀ i, 1 ≤ i → i < mE.nBodies → FixedW mE wE i)
    (hwC : ∀ i, 1 ≤ i → i < mC.nBodies → FixedW mC wC i)
    (K : Composite3 mE iE mC i1 i2 i3 wE wC st qd)
    (hrow : ∀ i, 1 ≤ i → i < mE.nBodies → i ≠ iE →
      jrow mC wC (φ i) st qd zeroVec = jrow mE wE i st qd zeroVec)
    (hq : ∀ i, 1 ≤ i → i < mE.nBodies → i ≠ iE → (mC.joint (φ i)).qIndex = (mE.joint i).qIndex)
    (k : Nat) (hk : k < mE.dofCount) :
    (nonlinearEffects mC wC st qd tau' none).2 k = (nonlinearEffects mE wE st qd tau none).2 k := by
  have wjE := wsj_of_fixed mE wE hokE hwE
  have wjC := wsj_of_fixed mC wC hokC hwC
  rw [C01.nonlinear_effects_eq_rnea0 mC hwf' hc' hperm' wC wC wjC wjC st qd tau' tau' none
      (fun h => nomatch h) k (by rw [hdc]; exact hk),
    C01.nonlinear_effects_eq_rnea0 mE hwf hc hperm wE wE wjE wjE st qd tau tau none
      (fun h => nomatch h) k hk]
  exact embed_inverseDynamics_all C hwf hwf' hc hc' wE wC st qd zeroVec tau tau' K hrow hq k hk

/-- relabelling, `NonlinearEffects` -/
theorem relabel_nonlinearEffects {m m' : ModelS α} {σ σi : Nat → Nat} (R : Relabel m m' σ σi)
    (hwf : m.WF) (hwf' : m'.WF) (hc : CustomInj m) (hc' : CustomInj m')
    (hperm : (m.updateOrder.drop 1).Perm (List.range' 1 (m.nBodies - 1)))
    (hperm' : (m'.updateOrder.drop 1).Perm (List.range' 1 (m'.nBodies - 1)))
    (hdc : m'.dofCount = m.dofCount)
    (w w' : WS α) (st st' : QS α) (qd qd' tau tau' : VecN α)
    (hJ : ∀ i, 1 ≤ i → i < m.nBodies → JointEq m i m' (σ i))
    (hC : ∀ i, 1 ≤ i → i < m.nBodies → CoordEq m i m' (σ i) st st' qd qd' zeroVec zeroVec)
    (hok : ∀ i, 1 ≤ i → i < m.nBodies → JointOK m i)
    (hok' : ∀ i, 1 ≤ i → i < m'.nBodies → JointOK m' i)
    (hw : ∀ i, 1 ≤ i → i < m.nBodies → FixedW m w i)
    (hw' : ∀ i, 1 ≤ i → i < m'.nBodies → FixedW m' w' i)
    (i d : Nat) (h1 : 1 ≤ i) (h2 : i < m.nBodies) (hd : d < (m.joint i).dof) :
    (nonlinearEffects m' w' st' qd' tau' none).2 ((m'.joint (σ i)).qIndex + d)
      = (nonlinearEffects m w st qd tau none).2 ((m.joint i).qIndex + d) := by
  have wj := wsj_of_fixed m w hok hw
  have wj' := wsj_of_fixed m' w' hok' hw'
  obtain ⟨s1, s2⟩ := R.range i h1 h2
  have hk : (m.joint i).qIndex + d < m.dofCount := by
    have := C14.coord_ranges m hwf i h2
    omega
  have hk' : (m'.joint (σ i)).qIndex + d < m'.dofCount := by
    have := C14.coord_ranges m' hwf' (σ i) (by rw [R.nb]; exact s2)
    have := (hJ i h1 h2).dof
    omega
  rw [C01.nonlinear_effects_eq_rnea0 m' hwf' hc' hperm' w' w' wj' wj' st' qd' tau' tau' none
      (fun h => nomatch h) _ hk',
    C01.nonlinear_effects_eq_rnea0 m hwf hc hperm w w wj wj st qd tau tau none
      (fun h => nomatch h) _ hk]
  exact (relabel_inverseDynamics' R hwf hwf' hc hc' w w' st st' qd qd' zeroVec zeroVec tau tau'
    none none hJ hC hok hw (fun j j1 j2 => hw' (σ j) (R.range j j1 j2).1
      (by rw [R.nb]; exact (R.range j j1 j2).2)) trivial).2 i d h1 h2 hd

end
end Rbdl.L07
