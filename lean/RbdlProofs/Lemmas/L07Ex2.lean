import RbdlProofs.Lemmas.L07All
import RbdlProofs.Lemmas.L07Sib
import RbdlProofs.Lemmas.L07Kin
import RbdlProofs.Lemmas.L07Ex
/-
  Concrete instance for C07 (H): a tree with two sibling branches (an Euler joint carrying a
  further body, and a revolute joint) added in the two possible orders.
-/
namespace Rbdl.L07.Ex2
open Lean.Grind Rbdl Rbdl.Loops Rbdl.L01 Rbdl.ModelS Rbdl.L07.Ex
set_option linter.unusedVariables false

def jz : Joint Rat := Joint.revolute ⟨0, 0, 1⟩
def jA : Joint Rat := jEuler .eulerZYX

/-- base; branch A (Euler joint) with a child C; branch B -/
def m1 : ModelS Rat := ModelS.init.run
  [.addBody 0 frame jy body "base", .addBody 1 frame jA body "A", .addBody 2 C16.Ex.Y jz bodyF "C",
   .addBody 1 C16.Ex.Y jz bodyF "B"]
/-- the same tree, branch B added first -/
def m2 : ModelS Rat := ModelS.init.run
  [.addBody 0 frame jy body "base", .addBody 1 C16.Ex.Y jz bodyF "B", .addBody 1 frame jA body "A",
   .addBody 3 C16.Ex.Y jz bodyF "C"]

def σ : Nat → Nat := fun i => if i = 2 then 3 else if i = 3 then 4 else if i = 4 then 2 else i
def σi : Nat → Nat := fun j => if j = 3 then 2 else if j = 4 then 3 else if j = 2 then 4 else j
/-- `q'`-index ↦ `q`-index -/
def π : Nat → Nat := fun x =>
  if x = 1 then 5 else if x = 2 then 1 else if x = 3 then 2 else if x = 4 then 3
  else if x = 5 then 4 else x

theorem m1_wf : m1.WF := C14.wf_run _ (by decide +kernel)
theorem m2_wf : m2.WF := C14.wf_run _ (by decide +kernel)
theorem m1_n : m1.nBodies = 5 := by decide +kernel
theorem m2_n : m2.nBodies = 5 := by decide +kernel
theorem m1_lambda : m1.lambda = [0, 0, 1, 2, 1] ∧ m2.lambda = [0, 0, 1, 1, 3] := by decide +kernel
theorem m1_ci : CustomInj m1 := no_custom _ (by decide +kernel)
theorem m2_ci : CustomInj m2 := no_custom _ (by decide +kernel)

macro "l07_cases4 " i:ident h2:ident : tactic =>
  `(tactic| (rw [m1_n] at $h2:ident
             have hcases : $i = 1 ∨ $i = 2 ∨ $i = 3 ∨ $i = 4 := by omega
             rcases hcases with hc | hc | hc | hc <;> subst hc))

theorem relabel : Relabel m1 m2 σ σi := by
  constructor
  · rw [m1_n, m2_n]
  · rfl
  · intro i h1 h2; l07_cases4 i h2 <;> (rw [m1_n]; decide)
  · intro i h1 h2; l07_cases4 i h2 <;> (rw [m1_n]; decide)
  · intro i h2; rw [m1_n] at h2
    obtain rfl | rfl | rfl | rfl | rfl : i = 0 ∨ i = 1 ∨ i = 2 ∨ i = 3 ∨ i = 4 := by omega
    all_goals rfl
  · intro i h2; rw [m1_n] at h2
    obtain rfl | rfl | rfl | rfl | rfl : i = 0 ∨ i = 1 ∨ i = 2 ∨ i = 3 ∨ i = 4 := by omega
    all_goals rfl
  · exact m1_wf.lam_lt
  · intro i h1 h2; exact m2_wf.lam_lt i h1 (by rw [m2_n, ← m1_n]; exact h2)
  · intro i h1 h2; l07_cases4 i h2 <;> decide +kernel
  · intro i h1 h2; l07_cases4 i h2 <;> decide +kernel
  · intro i h1 h2; l07_cases4 i h2 <;> decide +kernel
  · intro i h1 h2; l07_cases4 i h2 <;> decide +kernel
  · intro i h1 h2; l07_cases4 i h2 <;> decide +kernel
  · decide +kernel

theorem jointEq : ∀ i, 1 ≤ i → i < m1.nBodies → JointEq m1 i m2 (σ i) := by
  intro i h1 h2
  l07_cases4 i h2 <;> (constructor <;> decide +kernel)

theorem jointOK : ∀ i, 1 ≤ i → i < m1.nBodies → JointOK m1 i := by
  intro i h1 h2
  l07_cases4 i h2
  · unfold JointOK; rw [show (m1.joint 1).jt = .revolute from by decide +kernel]; decide +kernel
  · unfold JointOK; rw [show (m1.joint 2).jt = .eulerZYX from by decide +kernel]; decide +kernel
  · unfold JointOK; rw [show (m1.joint 3).jt = .revolute from by decide +kernel]; decide +kernel
  · unfold JointOK; rw [show (m1.joint 4).jt = .revolute from by decide +kernel]; decide +kernel

/-- the state of the second model: the coordinates of the first, permuted -/
def perm (st : QS Rat) : QS Rat :=
  { q := fun x => st.q (π x), c := fun x => st.c (π x), s := fun x => st.s (π x) }
def permV (v : VecN Rat) : VecN Rat := fun x => v (π x)

theorem coordEq (st : QS Rat) (qd qdd : VecN Rat) :
    ∀ i, 1 ≤ i → i < m1.nBodies →
      CoordEq m1 i m2 (σ i) st (perm st) qd (permV qd) qdd (permV qdd) := by
  intro i h1 h2
  l07_cases4 i h2
  · refine ⟨fun d hd => ?_, fun h => absurd h (by decide +kernel)⟩
    rw [show m1.jdof 1 = 1 from by decide +kernel] at hd
    obtain rfl : d = 0 := by omega
    unfold CoordAt
    rw [show (m1.joint 1).qIndex = 0 from by decide +kernel,
      show (m2.joint (σ 1)).qIndex = 0 from by decide +kernel]
    exact ⟨rfl, rfl, rfl, rfl, rfl⟩
  · refine ⟨fun d hd => ?_, fun h => absurd h (by decide +kernel)⟩
    rw [show m1.jdof 2 = 3 from by decide +kernel] at hd
    unfold CoordAt
    rw [show (m1.joint 2).qIndex = 1 from by decide +kernel,
      show (m2.joint (σ 2)).qIndex = 2 from by decide +kernel]
    obtain rfl | rfl | rfl : d = 0 ∨ d = 1 ∨ d = 2 := by omega
    all_goals exact ⟨rfl, rfl, rfl, rfl, rfl⟩
  · refine ⟨fun d hd => ?_, fun h => absurd h (by decide +kernel)⟩
    rw [show m1.jdof 3 = 1 from by decide +kernel] at hd
    obtain rfl : d = 0 := by omega
    unfold CoordAt
    rw [show (m1.joint 3).qIndex = 4 from by decide +kernel,
      show (m2.joint (σ 3)).qIndex = 5 from by decide +kernel]
    exact ⟨rfl, rfl, rfl, rfl, rfl⟩
  · refine ⟨fun d hd => ?_, fun h => absurd h (by decide +kernel)⟩
    rw [show m1.jdof 4 = 1 from by decide +kernel] at hd
    obtain rfl : d = 0 := by omega
    unfold CoordAt
    rw [show (m1.joint 4).qIndex = 5 from by decide +kernel,
      show (m2.joint (σ 4)).qIndex = 1 from by decide +kernel]
    exact ⟨rfl, rfl, rfl, rfl, rfl⟩

theorem m1_axes : L13.AxesOK m1 := axesOK_of_joints _ (by decide +kernel) (by decide +kernel)
theorem m2_axes : L13.AxesOK m2 := axesOK_of_joints _ (by decide +kernel) (by decide +kernel)
def w1 : WS Rat := poison m1 (initWS m1) 2
def w2 : WS Rat := poison m2 (initWS m2) 13
theorem w1_fixed : ∀ i, 1 ≤ i → i < m1.nBodies → FixedW m1 w1 i :=
  (L13.wsfixed_poison _ _ 2 (L13.wsfixed_initWS _ m1_axes)).2
theorem w2_fixed : ∀ i, 1 ≤ i → i < m1.nBodies → FixedW m2 w2 (σ i) := by
  intro i h1 h2
  refine (L13.wsfixed_poison _ _ 13 (L13.wsfixed_initWS _ m2_axes)).2 (σ i) ?_ ?_
  · exact (relabel.range i h1 h2).1
  · rw [m2_n, ← m1_n]; exact (relabel.range i h1 h2).2


theorem m1_perm : (m1.updateOrder.drop 1).Perm (List.range' 1 (m1.nBodies - 1)) := by
  decide +kernel
theorem m2_perm : (m2.updateOrder.drop 1).Perm (List.range' 1 (m2.nBodies - 1)) := by
  decide +kernel
theorem jointOK2 : ∀ i, 1 ≤ i → i < m2.nBodies → JointOK m2 i := by
  intro i h1 h2
  rw [m2_n] at h2
  obtain rfl | rfl | rfl | rfl : i = 1 ∨ i = 2 ∨ i = 3 ∨ i = 4 := by omega
  · unfold JointOK; rw [show (m2.joint 1).jt = .revolute from by decide +kernel]; decide +kernel
  · unfold JointOK; rw [show (m2.joint 2).jt = .revolute from by decide +kernel]; decide +kernel
  · unfold JointOK; rw [show (m2.joint 3).jt = .eulerZYX from by decide +kernel]; decide +kernel
  · unfold JointOK; rw [show (m2.joint 4).jt = .revolute from by decide +kernel]; decide +kernel
theorem w2_fixed_all : ∀ i, 1 ≤ i → i < m2.nBodies → FixedW m2 w2 i :=
  (L13.wsfixed_poison _ _ 13 (L13.wsfixed_initWS _ m2_axes)).2
theorem coordEq0 (st : QS Rat) (qd : VecN Rat) :
    ∀ i, 1 ≤ i → i < m1.nBodies →
      CoordEq m1 i m2 (σ i) st (perm st) qd (permV qd) zeroVec zeroVec := by
  intro i h1 h2
  have h := coordEq st qd zeroVec i h1 h2
  exact ⟨fun d hd => by
    obtain ⟨a, b, c, e, _⟩ := h.coord d hd
    exact ⟨a, b, c, e, rfl⟩, h.w⟩


theorem m1_nc : ∀ i, 1 ≤ i → i < m1.nBodies → (m1.joint i).jt ≠ .custom := by
  intro i h1 h2
  l07_cases4 i h2 <;> decide +kernel
theorem m2_nc : ∀ i, 1 ≤ i → i < m2.nBodies → (m2.joint i).jt ≠ .custom := by
  intro i h1 h2
  rw [m2_n] at h2
  obtain rfl | rfl | rfl | rfl : i = 1 ∨ i = 2 ∨ i = 3 ∨ i = 4 := by omega
  all_goals decide +kernel
/-- the joint rows of corresponding joints agree at the permuted state -/
theorem rows12 (st : QS Rat) (qd qdd : VecN Rat) :
    ∀ i, 1 ≤ i → i < m1.nBodies →
      jrow m2 w2 (σ i) (perm st) (permV qd) (permV qdd) = jrow m1 w1 i st qd qdd :=
  fun i h1 h2 => jrow_shift m1 i m2 (σ i) w1 w2 st (perm st) qd (permV qd) qdd (permV qdd)
    (jointEq i h1 h2) (coordEq st qd qdd i h1 h2) (jointOK i h1 h2) (w1_fixed i h1 h2)
    (w2_fixed i h1 h2)

/-! ### two single-body siblings on the base body -/
def mB0 : ModelS Rat := ModelS.init.run [.addBody 0 frame jy body "base"]
theorem mB0_wf : mB0.WF := C14.wf_run _ (by decide +kernel)
def sAB : ModelS Rat := twoSiblings mB0 1 frame jA body "A" C16.Ex.Y jz bodyF "B"
def sBA : ModelS Rat := twoSiblings mB0 1 C16.Ex.Y jz bodyF "B" frame jA body "A"
theorem sAB_wf : sAB.WF :=
  wf_movableResult _ (wf_movableResult _ mB0_wf 1 frame jA body "A" (by decide +kernel)
    (by decide +kernel) (by decide +kernel)) 1 C16.Ex.Y jz bodyF "B" (by decide +kernel)
    (by decide +kernel) (by decide +kernel)
theorem sBA_wf : sBA.WF :=
  wf_movableResult _ (wf_movableResult _ mB0_wf 1 C16.Ex.Y jz bodyF "B" (by decide +kernel)
    (by decide +kernel) (by decide +kernel)) 1 frame jA body "A" (by decide +kernel)
    (by decide +kernel) (by decide +kernel)

def mA1 : ModelS Rat := (mB0.addBody 1 frame jA body "A").1
theorem mA1_add : mB0.addBody 1 frame jA body "A" = (mA1, .ok 2) :=
  Prod.ext rfl (by decide +kernel)
def mA2 : ModelS Rat := (mA1.addBody 1 C16.Ex.Y jz bodyF "B").1
theorem mA2_add : mA1.addBody 1 C16.Ex.Y jz bodyF "B" = (mA2, .ok 3) :=
  Prod.ext rfl (by decide +kernel)

end Rbdl.L07.Ex2
