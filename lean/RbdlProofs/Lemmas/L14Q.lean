import RbdlProofs.Lemmas.Model14
import RbdlProofs.Lemmas.Alg16
/-
  C14, query clauses — part 1: the two "walk up past the virtual bodies" loops of
  `GetParentBodyId` / `GetJointFrame` (`getParentBodyId.go`, `getJointFrame.go`), their
  fuel-independent unrolling equations, and the extension relation `QExt` under which the
  answers of the queries for existing bodies do not change.
-/
namespace Rbdl.L14Q
open Lean.Grind Rbdl Rbdl.ModelS

section
variable {α : Type} [Field α]

/-- first non-virtual body at or above `p` (the loop of `GetParentBodyId`, started at `p`) -/
def nvAnc (m : ModelS α) (p : Nat) : Nat := getParentBodyId.go m m.bodies.length p
/-- the body whose joint frame `GetJointFrame` reports for `c`: climb while the parent is virtual -/
def topOf (m : ModelS α) (c : Nat) : Nat := getJointFrame.go m m.bodies.length c

/-- what the loops need from the invariant: `lambda` decreases -/
structure LamOK (m : ModelS α) : Prop where
  nb : 1 ≤ m.bodies.length
  zero : m.lam 0 = 0
  lt : ∀ i, 1 ≤ i → m.lam i < i

omit [Field α] in
theorem LamOK.le {m : ModelS α} (h : LamOK m) (i : Nat) : m.lam i ≤ i := by
  cases i with
  | zero => rw [h.zero]; exact Nat.le_refl _
  | succ k => exact Nat.le_of_lt (h.lt _ (by omega))

theorem lamOK_of_wf {m : ModelS α} (hwf : m.WF) : LamOK m := by
  refine ⟨hwf.nb_pos, hwf.lam_zero, fun i h1 => ?_⟩
  by_cases hi : i < m.nBodies
  · exact hwf.lam_lt i h1 hi
  · have : m.lam i = 0 := by
      simp only [lam, List.getD_eq_getElem?_getD]
      rw [List.getElem?_eq_none (by rw [hwf.len_lambda]; omega)]; rfl
    omega

/-- bodies beyond the end are the default body, which is not virtual -/
theorem body_virtual_lt {m : ModelS α} {p : Nat} (h : (m.body p).isVirtual = true) :
    p < m.bodies.length := by
  by_cases hp : p < m.bodies.length
  · exact hp
  · simp only [body, List.getD_eq_getElem?_getD] at h
    rw [List.getElem?_eq_none (by omega)] at h
    simp [Body.null] at h

/-! ### `GetParentBodyId` loop -/

theorem pgo_zero {m : ModelS α} (h : LamOK m) : ∀ f, getParentBodyId.go m f 0 = 0 := by
  intro f
  induction f with
  | zero => rfl
  | succ f ih =>
    simp only [getParentBodyId.go, h.zero, ih]
    split <;> rfl

theorem pgo_succ {m : ModelS α} (h : LamOK m) : ∀ f p, p ≤ f →
    getParentBodyId.go m (f + 1) p = getParentBodyId.go m f p := by
  intro f
  induction f with
  | zero =>
    intro p hp
    have : p = 0 := by omega
    subst this
    rw [pgo_zero h, pgo_zero h]
  | succ f ih =>
    intro p hp
    have hl : m.lam p ≤ f := by
      cases p with
      | zero => rw [h.zero]; omega
      | succ k => have := h.lt (k + 1) (by omega); omega
    rw [getParentBodyId.go, ih _ hl]
    rfl

theorem pgo_le {m : ModelS α} (h : LamOK m) (p f : Nat) (hp : p ≤ f) : ∀ k,
    getParentBodyId.go m (f + k) p = getParentBodyId.go m f p := by
  intro k
  induction k with
  | zero => rfl
  | succ k ih => rw [← Nat.add_assoc, pgo_succ h _ _ (by omega), ih]

/-- unrolling equation of the `GetParentBodyId` loop, independent of the fuel -/
theorem nvAnc_eq {m : ModelS α} (h : LamOK m) (p : Nat) :
    nvAnc m p = if (m.body p).isVirtual then nvAnc m (m.lam p) else p := by
  have hnb := h.nb
  obtain ⟨f, hf⟩ : ∃ f, m.bodies.length = f + 1 := ⟨m.bodies.length - 1, by omega⟩
  unfold nvAnc
  rw [hf, getParentBodyId.go]
  split
  · rename_i hv
    have hp := body_virtual_lt hv
    rw [pgo_succ h _ _ (by have := h.le p; omega)]
  · rfl

theorem nvAnc_of_not_virtual {m : ModelS α} (h : LamOK m) (p : Nat)
    (hv : (m.body p).isVirtual = false) : nvAnc m p = p := by
  rw [nvAnc_eq h, hv]; rfl

theorem nvAnc_le {m : ModelS α} (h : LamOK m) : ∀ n p, p ≤ n → nvAnc m p ≤ p := by
  intro n
  induction n with
  | zero =>
    intro p hp
    have : p = 0 := by omega
    subst this
    rw [nvAnc, pgo_zero h]; exact Nat.le_refl _
  | succ n ih =>
    intro p hp
    rw [nvAnc_eq h]
    split
    · by_cases h0 : p = 0
      · subst h0; rw [h.zero, nvAnc, pgo_zero h]; exact Nat.le_refl _
      · have := h.lt p (by omega)
        have := ih (m.lam p) (by omega)
        omega
    · exact Nat.le_refl _

/-- the answer of the loop is a non-virtual body as soon as the base is not virtual -/
theorem nvAnc_not_virtual {m : ModelS α} (h : LamOK m) (h0 : (m.body 0).isVirtual = false) :
    ∀ n p, p ≤ n → (m.body (nvAnc m p)).isVirtual = false := by
  intro n
  induction n with
  | zero =>
    intro p hp
    have : p = 0 := by omega
    subst this
    rw [nvAnc, pgo_zero h]; exact h0
  | succ n ih =>
    intro p hp
    rw [nvAnc_eq h]
    split
    · rename_i hv
      by_cases hp0 : p = 0
      · subst hp0; rw [h0] at hv; cases hv
      · have := h.lt p (by omega)
        exact ih (m.lam p) (by omega)
    · rename_i hv; simpa using hv

/-! ### `GetJointFrame` loop -/

theorem jgo_zero {m : ModelS α} (h : LamOK m) : ∀ f, getJointFrame.go m f 0 = 0 := by
  intro f
  induction f with
  | zero => rfl
  | succ f ih =>
    simp only [getJointFrame.go, h.zero, ih]
    split <;> rfl

theorem jgo_succ {m : ModelS α} (h : LamOK m) : ∀ f c, c ≤ f →
    getJointFrame.go m (f + 1) c = getJointFrame.go m f c := by
  intro f
  induction f with
  | zero =>
    intro c hc
    have : c = 0 := by omega
    subst this
    rw [jgo_zero h, jgo_zero h]
  | succ f ih =>
    intro c hc
    have hl : m.lam c ≤ f := by
      cases c with
      | zero => rw [h.zero]; omega
      | succ k => have := h.lt (k + 1) (by omega); omega
    rw [getJointFrame.go, ih _ hl]
    rfl

/-- unrolling equation of the `GetJointFrame` loop, independent of the fuel -/
theorem topOf_eq {m : ModelS α} (h : LamOK m) (c : Nat) (hc : c < m.bodies.length) :
    topOf m c = if (m.body (m.lam c)).isVirtual then topOf m (m.lam c) else c := by
  obtain ⟨f, hf⟩ : ∃ f, m.bodies.length = f + 1 := ⟨m.bodies.length - 1, by omega⟩
  unfold topOf
  rw [hf, getJointFrame.go]
  split
  · rw [jgo_succ h _ _ (by have := h.le c; omega)]
  · rfl

theorem topOf_le {m : ModelS α} (h : LamOK m) : ∀ n c, c ≤ n → c < m.bodies.length →
    topOf m c ≤ c := by
  intro n
  induction n with
  | zero =>
    intro c hc _
    have : c = 0 := by omega
    subst this
    rw [topOf, jgo_zero h]; exact Nat.le_refl _
  | succ n ih =>
    intro c hc hlt
    rw [topOf_eq h c hlt]
    split
    · by_cases h0 : c = 0
      · subst h0; rw [h.zero, topOf, jgo_zero h]; exact Nat.le_refl _
      · have := h.lt c (by omega)
        have := ih (m.lam c) (by omega) (by omega)
        omega
    · exact Nat.le_refl _

/-- a positive id never climbs to the base when the base is not virtual -/
theorem topOf_pos {m : ModelS α} (h : LamOK m) (h0 : (m.body 0).isVirtual = false) :
    ∀ n c, c ≤ n → 1 ≤ c → c < m.bodies.length → 1 ≤ topOf m c := by
  intro n
  induction n with
  | zero => intro c hc h1; omega
  | succ n ih =>
    intro c hc h1 hlt
    rw [topOf_eq h c hlt]
    split
    · rename_i hv
      have hl := h.lt c h1
      by_cases hz : m.lam c = 0
      · rw [hz, h0] at hv; cases hv
      · exact ih (m.lam c) (by omega) (by omega) (by omega)
    · exact h1

/-! ### the queries in terms of the loops -/

theorem getParentBodyId_movable (m : ModelS α) (id : Nat) (h : id < fixedDisc) :
    m.getParentBodyId id = nvAnc m (m.lam id) := by
  unfold getParentBodyId nvAnc
  rw [if_neg (by omega)]

theorem getJointFrame_movable (m : ModelS α) (id : Nat) (h : id < fixedDisc) :
    m.getJointFrame id = m.XT_ (topOf m id) := by
  unfold getJointFrame topOf
  rw [if_neg (by omega)]

theorem getParentBodyId_fixed (m : ModelS α) (id : Nat) (h : fixedDisc ≤ id) :
    m.getParentBodyId id = (m.fixedBody (id - fixedDisc)).movableParent := by
  unfold getParentBodyId
  rw [if_pos h]

theorem getJointFrame_fixed (m : ModelS α) (id : Nat) (h : fixedDisc ≤ id) :
    m.getJointFrame id = (m.fixedBody (id - fixedDisc)).parentTransform := by
  unfold getJointFrame
  rw [if_pos h]

/-! ### extension relation -/

/-- `m'` extends `m` as far as the queries are concerned: existing bodies keep their parent,
    their virtual flag and their joint frame; existing fixed bodies are kept. -/
structure QExt (m m' : ModelS α) : Prop where
  nb : m.bodies.length ≤ m'.bodies.length
  lam : ∀ i, i < m.bodies.length → m'.lam i = m.lam i
  virt : ∀ i, i < m.bodies.length → (m'.body i).isVirtual = (m.body i).isVirtual
  xT : ∀ i, i < m.bodies.length → m'.XT_ i = m.XT_ i
  fixed : m.fixedBodies <+: m'.fixedBodies

theorem QExt.refl (m : ModelS α) : QExt m m :=
  ⟨Nat.le_refl _, fun _ _ => rfl, fun _ _ => rfl, fun _ _ => rfl, List.prefix_refl _⟩

theorem QExt.trans {m m1 m2 : ModelS α} (h1 : QExt m m1) (h2 : QExt m1 m2) : QExt m m2 := by
  have := h1.nb
  refine ⟨Nat.le_trans h1.nb h2.nb, fun i hi => ?_, fun i hi => ?_, fun i hi => ?_,
    h1.fixed.trans h2.fixed⟩
  · rw [h2.lam i (by omega), h1.lam i hi]
  · rw [h2.virt i (by omega), h1.virt i hi]
  · rw [h2.xT i (by omega), h1.xT i hi]

theorem nvAnc_ext {m m' : ModelS α} (h : LamOK m) (h' : LamOK m') (e : QExt m m') :
    ∀ n p, p ≤ n → p < m.bodies.length → nvAnc m' p = nvAnc m p := by
  intro n
  induction n with
  | zero =>
    intro p hp _
    have : p = 0 := by omega
    subst this
    rw [nvAnc, nvAnc, pgo_zero h, pgo_zero h']
  | succ n ih =>
    intro p hp hlt
    rw [nvAnc_eq h, nvAnc_eq h', e.virt p hlt, e.lam p hlt]
    split
    · by_cases h0 : p = 0
      · subst h0; rw [h.zero, nvAnc, nvAnc, pgo_zero h, pgo_zero h']
      · have := h.lt p (by omega)
        exact ih _ (by omega) (by omega)
    · rfl

theorem topOf_ext {m m' : ModelS α} (h : LamOK m) (h' : LamOK m') (e : QExt m m') :
    ∀ n c, c ≤ n → c < m.bodies.length → topOf m' c = topOf m c := by
  intro n
  induction n with
  | zero =>
    intro c hc _
    have : c = 0 := by omega
    subst this
    rw [topOf, topOf, jgo_zero h, jgo_zero h']
  | succ n ih =>
    intro c hc hlt
    have hnb := e.nb
    have hl := h.le c
    rw [topOf_eq h c hlt, topOf_eq h' c (by omega), e.lam c hlt, e.virt _ (by omega)]
    split
    · by_cases h0 : c = 0
      · subst h0; rw [h.zero, topOf, topOf, jgo_zero h, jgo_zero h']
      · have := h.lt c (by omega)
        exact ih _ (by omega) (by omega)
    · rfl

/-- the queries of an existing movable body do not change under an extension -/
theorem queries_ext {m m' : ModelS α} (h : LamOK m) (h' : LamOK m') (e : QExt m m')
    (id : Nat) (hid : id < m.bodies.length) (hfd : id < fixedDisc) :
    m'.getParentBodyId id = m.getParentBodyId id ∧ m'.getJointFrame id = m.getJointFrame id := by
  have hl := h.le id
  refine ⟨?_, ?_⟩
  · rw [getParentBodyId_movable _ _ hfd, getParentBodyId_movable _ _ hfd, e.lam id hid]
    exact nvAnc_ext h h' e _ _ (Nat.le_refl _) (by omega)
  · rw [getJointFrame_movable _ _ hfd, getJointFrame_movable _ _ hfd,
      topOf_ext h h' e _ _ (Nat.le_refl _) hid]
    exact e.xT _ (by have := topOf_le h _ _ (Nat.le_refl _) hid; omega)

/-- the queries of an existing fixed body do not change under an extension -/
theorem queries_ext_fixed {m m' : ModelS α} (e : QExt m m') (id : Nat) (hfd : fixedDisc ≤ id)
    (hk : id - fixedDisc < m.fixedBodies.length) :
    m'.getParentBodyId id = m.getParentBodyId id ∧ m'.getJointFrame id = m.getJointFrame id := by
  have hfb : m'.fixedBody (id - fixedDisc) = m.fixedBody (id - fixedDisc) :=
    prefix_getD e.fixed _ hk _
  rw [getParentBodyId_fixed _ _ hfd, getParentBodyId_fixed _ _ hfd, getJointFrame_fixed _ _ hfd,
    getJointFrame_fixed _ _ hfd, hfb]
  exact ⟨rfl, rfl⟩

/-! ### algebra -/

theorem mul_id_right (X : XT α) : X * (XT.id : XT α) = X := by alg_ext

end
end Rbdl.L14Q
