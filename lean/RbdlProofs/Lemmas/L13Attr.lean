import Lean.Meta.Tactic.Simp.RegisterCommand
/- simp set unfolding the workspace-domain combinators of RbdlProofs/Lemmas/L13Agree.lean -/
register_simp_attr dom
