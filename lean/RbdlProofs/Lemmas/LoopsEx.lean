import RbdlProofs.Lemmas.Loops
/-
  The generic loop lemmas of `Loops.lean` instantiated on a concrete branched tree and on a chain
  (values in `Int`): shows that the hypotheses are satisfiable and the closed forms evaluate.
-/
namespace Rbdl.Loops.Ex
open Rbdl Rbdl.Loops

/-- a branched tree on bodies `1..5`: 1 and 4 hang on the root, 2 and 3 on 1, 5 on 4 -/
def lam : Nat → Nat := fun i => if i = 2 ∨ i = 3 then 1 else if i = 5 then 4 else 0

theorem lam_tree : ∀ c, 1 ≤ c → c ≤ 5 → lam c < c := by
  intro c h1 h2
  obtain rfl | rfl | rfl | rfl | rfl : c = 1 ∨ c = 2 ∨ c = 3 ∨ c = 4 ∨ c = 5 := by omega
  all_goals decide

/-- a chain on `1..4` -/
def chain : Nat → Nat := fun i => i - 1

/-- forward map `x ↦ i·x + 1`, backward transport `x ↦ c·x` -/
def F : Nat → Int → Int := fun i x => i * x + 1
def T : Nat → Int → Int := fun c x => c * x

theorem int_addLaws : AddLaws (0 : Int) := ⟨Int.add_assoc, Int.add_comm, Int.add_zero⟩
theorem T_add : ∀ c a b, T c (a + b) = T c a + T c b := fun c a b => Int.mul_add c a b

/-! L1 -/
example := fwd_closed lam F 5 lam_tree (fun _ => 1)
example := fwd_closed_of_body lam F (fwdBody lam F) 5 (fun _ _ _ _ => rfl) lam_tree (fun _ => 1)
/-- body 5 hangs on 4, which hangs on the root: `5·(4·1 + 1) + 1` -/
example : forUp 5 1 (fwdBody lam F) (fun _ => 1) 5 = 26 := by
  rw [fwd_closed lam F 5 lam_tree _ 5 (by decide) (by decide) 5 (by decide)]; decide
example : forUp 5 1 (fwdBody lam F) (fun _ => 1) 5 = 26 := by decide

/-! L2 -/
example := bwd_sum (z := 0) lam T int_addLaws 5 lam_tree (fun i => (i : Int))
example := bwd_sum_of_body (z := 0) lam T int_addLaws _ 5 (fun _ _ _ _ => rfl) lam_tree
  (fun i => (i : Int))
example : childrenOf lam 5 1 = [2, 3] := by decide
/-- `final 1 = 1 + 2·2 + 3·3`, `final 4 = 4 + 5·5` -/
example : forDown 5 5 (bwdBody lam (fun c a x => a + T c x)) (fun i => (i : Int)) 1 = 14 ∧
    forDown 5 5 (bwdBody lam (fun c a x => a + T c x)) (fun i => (i : Int)) 4 = 29 := by decide
example := bwd_chain chain (fun c a x => a + T c x) 4 (fun _ _ _ => rfl) (fun i => (i : Int))

/-! L3 -/
example := tot_sum (z := 0) lam T int_addLaws 5 lam_tree (fun i => (i : Int)) 0
example := tot_path_sum (z := 0) lam T int_addLaws T_add 5 lam_tree 5 (Nat.le_refl _)
  (fun i => (i : Int)) 0
example : childrenOf lam 5 0 = [1, 4] := by decide
/-- `total = 1·14 + 4·29 = 1 + 1·2·2 + 1·3·3 + 4·4 + 4·5·5` -/
example : (forDown 5 5 (totAddBody lam T) (fun i => (i : Int), 0)).2 = 130 ∧
    lsum 0 (fun i => pathT lam T 5 i (i : Int)) (List.range' 1 5) = 130 := by decide

end Rbdl.Loops.Ex
