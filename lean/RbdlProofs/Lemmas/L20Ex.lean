import RbdlProofs.Lemmas.L20
import RbdlProofs.Lemmas.AbaEx
import RbdlProofs.Lemmas.L12Ex
/-
  Concrete instances over `Rat` for the examples of C20: three instances (the branched tree of
  `C02.Ex`, the five-body tree of `L12.Ex` with a custom joint and a fixed body, and an empty model
  that is loaded from a Lua frame table while the others compute), interleaved schedules, the Lua
  frame tables of the loader defect, and a micro-step interleaving.
-/
namespace Rbdl.L20.Ex
open Lean.Grind Rbdl Rbdl.Isolation

/-! ### Lua frame tables -/

/-- file A: `pelvis` on `ROOT`, `thigh` on `pelvis` -/
def fileA : List LuaFrame :=
  [ ⟨"pelvis", "ROOT", C16.Ex.X, C02.Ex.jz, C02.Ex.body1⟩,
    ⟨"thigh", "pelvis", C16.Ex.Y, C02.Ex.jrev, C02.Ex.body2⟩ ]

/-- file B: `base` on `ROOT`, `arm` on `base`, and `hand` on a parent `thigh` that file B does not
    define (alone, `hand` is attached to body 0) -/
def fileB : List LuaFrame :=
  [ ⟨"base", "ROOT", C16.Ex.Y, C02.Ex.jz, C02.Ex.body2⟩,
    ⟨"arm", "base", C16.Ex.X, C02.Ex.jsph, C02.Ex.body1⟩,
    ⟨"hand", "thigh", C16.Ex.X, C02.Ex.jz, C02.Ex.body1⟩ ]

/-! ### three instances -/

def cs0 : CSet Rat := (CSet.empty.addContact 2 ⟨1, 0, 1/2⟩ ⟨0, 1, 0⟩ 7).addContact 2 ⟨1, 0, 1/2⟩ ⟨1, 0, 0⟩ 7

def x0 : RInst := (C02.Ex.M, C02.Ex.w, cs0)
def x1 : RInst := (L12.Ex.m, L12.Ex.w, CSet.empty)
def x2 : RInst := (ModelS.init, initWS ModelS.init, CSet.empty)

def inst3 : Nat → RInst := fun i => if i = 0 then x0 else if i = 1 then x1 else x2

def s3 : Sys RInst Unit := ⟨inst3, ()⟩

def qd1 : VecN Rat := fun n => 1 - (n : Rat) / 4
def z : VecN Rat := fun _ => 0
def Z : MatN Rat := fun _ _ => 0

/-- an interleaved schedule on three instances: dynamics and a constraint Jacobian on instance 0,
    kinematics and dynamics on instance 1, a model load followed by dynamics on instance 2 -/
def sched : List (Nat × ROp) :=
  [ (0, .forwardDynamics C02.Ex.st C02.Ex.qd C02.Ex.tau z (some C02.Ex.fe)),
    (1, .updateKinematics C04.Ex.st qd1 z),
    (2, .luaLoad fileA),
    (0, .inverseDynamics C02.Ex.st C02.Ex.qd C02.Ex.tau z none),
    (1, .calcPointVelocity C04.Ex.st qd1 3 ⟨1, 2, 3⟩ false),
    (2, .crba C02.Ex.st Z true),
    (0, .addContact 3 ⟨0, 1, 0⟩ ⟨0, 0, 1⟩ 1),
    (1, .inverseDynamics C04.Ex.st qd1 qd1 z none),
    (0, .calcConstraintsJacobian C02.Ex.st Z true),
    (2, .inverseDynamics C02.Ex.st C02.Ex.qd C02.Ex.tau z none),
    (1, .crba C04.Ex.st Z false) ]

/-- the same calls, instance after instance -/
def schedSeq : List (Nat × ROp) := project 2 sched ++ project 0 sched ++ project 1 sched

/-! ### the loader defect -/

def sLoad : Sys RInst NameMap := ⟨fun _ => x2, []⟩
def sLoadFixed : Sys RInst Unit := ⟨fun _ => x2, ()⟩

/-- thread 0 loads file A, then thread 1 loads file B -/
def loadAB : List (Nat × ROp) := [(0, .luaLoad fileA), (1, .luaLoad fileB)]
/-- thread 1 loads file B, then thread 0 loads file A -/
def loadBA : List (Nat × ROp) := [(1, .luaLoad fileB), (0, .luaLoad fileA)]

/-! ### a micro-step interleaving -/

/-- scheduler: `picks` says which instance moves next; each instance moves through its own queue
    of micro-events in order -/
def weave {β : Type} : List Nat → (Nat → List β) → List (Nat × β)
  | [], _ => []
  | i :: is, q =>
    match q i with
    | [] => weave is q
    | e :: es => (i, e) :: weave is (upd q i es)

def prog : Nat → List ROp := fun i =>
  if i = 0 then [.inverseDynamics C02.Ex.st C02.Ex.qd C02.Ex.tau z none]
  else if i = 1 then [.updateKinematics C04.Ex.st qd1 z, .inverseDynamics C04.Ex.st qd1 qd1 z none]
  else if i = 2 then [.luaLoad fileA]
  else []

/-- instance 0 is preempted inside `InverseDynamics` (between binding `Tau`, the forward passes and
    the backward pass) by micro-steps of instances 1 and 2, and instance 1 inside its own
    `InverseDynamics` by instances 0 and 2 -/
def msched : List (Nat × MEv RInstM ROp) :=
  weave [0, 1, 0, 2, 1, 1, 0, 1, 2, 1, 0, 1] (fun i => expand rmicro (prog i))

def sM : Nat → RInstM := fun i => (inst3 i, .unit)

end Rbdl.L20.Ex
