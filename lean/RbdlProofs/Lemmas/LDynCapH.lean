import RbdlProofs.Lemmas.LDynCapSum
import RbdlProofs.Lemmas.LDynCapCrba2
/-
  Capstone for `CompositeRigidBodyAlgorithm`, specification side:
  `inertiaMatrix_entry`   entry `(r, c)` of `Spec.inertiaMatrix` is `Σ_k V_r[k] · I_k V_c[k]`.
-/
namespace Rbdl.LDynCap
open Lean.Grind Rbdl Rbdl.Spec Rbdl.L06 Rbdl.L01 Rbdl.Loops Rbdl.L01Cap
set_option linter.unusedSimpArgs false
set_option linter.unusedVariables false
set_option linter.unusedSectionVars false

/-! ### lists -/
section Lists

theorem getD_append_left' {γ : Type} (A B : List γ) (i : Nat) (d : γ) (h : i < A.length) :
    (A ++ B).getD i d = A.getD i d := by
  rw [List.getD_eq_getElem?_getD, List.getD_eq_getElem?_getD, List.getElem?_append_left h]

theorem getD_append_right' {γ : Type} (A B : List γ) (i : Nat) (d : γ) :
    (A ++ B).getD (A.length + i) d = B.getD i d := by
  rw [List.getD_eq_getElem?_getD, List.getD_eq_getElem?_getD,
    List.getElem?_append_right (Nat.le_add_right _ _), Nat.add_sub_cancel_left]

theorem flatMap_getD_aux {γ : Type} (n : Nat) (f : Nat → Nat → γ) (d : γ) (c : Nat) (hc : c < n)
    (l : List Nat) : ∀ r, r < l.length →
      (l.flatMap (fun j => (List.range n).map (fun k => f j k))).getD (r * n + c) d
        = f (l.getD r 0) c := by
  induction l with
  | nil => intro r hr; simp at hr
  | cons a l ih =>
    intro r hr
    rw [List.flatMap_cons]
    cases r with
    | zero =>
      rw [Nat.zero_mul, Nat.zero_add, getD_append_left' _ _ _ _ (by simp; exact hc),
        List.getD_eq_getElem?_getD, List.getElem?_map, List.getElem?_range hc]
      rfl
    | succ r =>
      have e : (r + 1) * n + c = ((List.range n).map (fun k => f a k)).length + (r * n + c) := by
        rw [List.length_map, List.length_range, Nat.succ_mul]; omega
      rw [e, getD_append_right', ih r (by simpa using hr), List.getD_cons_succ]

/-- entry `(r, c)` of a row-major `n × n` list -/
theorem flatMap_getD {γ : Type} (n : Nat) (f : Nat → Nat → γ) (d : γ) (r c : Nat) (hr : r < n)
    (hc : c < n) :
    ((List.range n).flatMap (fun j => (List.range n).map (fun k => f j k))).getD (r * n + c) d
      = f r c := by
  rw [flatMap_getD_aux n f d c hc (List.range n) r (by simpa using hr), List.getD_eq_getElem?_getD,
    List.getElem?_range hr]
  rfl

end Lists

section
variable {α : Type} [Field α] [DecidableEq α]

/-- the step of the fold in `Spec.inertiaMatrix` -/
def hStep (acc : α) (x : ((SNode α × NodeKin α) × (V3 α × V3 α)) × (V3 α × V3 α)) : α :=
  let (((nd, kn), a), b) := x
  let Iw := kn.R * nd.inertia * kn.R.transpose
  acc + nd.mass * a.1.dot b.1 + a.2.dot (Iw * b.2)

/-- partial velocities of a node -/
def pvOf (p : SNode α × NodeKin α) : Option (V3 α × V3 α) :=
  if p.1.hasBody then some (p.2.ptd p.1.com, p.2.omega) else none

/-- contribution of one node to an entry of the inertia matrix -/
def hTerm (x : ((SNode α × NodeKin α) × NodeKin α) × NodeKin α) : α :=
  if x.1.1.1.hasBody = true then
    x.1.1.1.mass * (x.1.2.ptd x.1.1.1.com).dot (x.2.ptd x.1.1.1.com)
      + x.1.2.omega.dot ((x.1.1.2.R * x.1.1.1.inertia * x.1.1.2.R.transpose) * x.2.omega)
  else 0

def hStep' (acc : α) (x : ((SNode α × NodeKin α) × NodeKin α) × NodeKin α) : α := acc + hTerm x

/-- the fold over the filtered lists is a fold over all nodes that skips the nodes without body -/
theorem fold_bodies (A : List (SNode α)) : ∀ (K Kr Kc : List (NodeKin α)) (acc : α),
    K.length = A.length → Kr.length = A.length → Kc.length = A.length →
    ((((A.zip K).filter (fun p => p.1.hasBody)).zip ((A.zip Kr).filterMap pvOf)).zip
        ((A.zip Kc).filterMap pvOf)).foldl hStep acc
      = (((A.zip K).zip Kr).zip Kc).foldl hStep' acc := by
  induction A with
  | nil => intro K Kr Kc acc _ _ _; rfl
  | cons nd A ih =>
    intro K Kr Kc acc h1 h2 h3
    cases K with
    | nil => simp at h1
    | cons k K =>
    cases Kr with
    | nil => simp at h2
    | cons kr Kr =>
    cases Kc with
    | nil => simp at h3
    | cons kc Kc =>
    simp only [List.length_cons, Nat.add_right_cancel_iff] at h1 h2 h3
    simp only [List.zip_cons_cons, List.filter_cons, List.filterMap_cons, pvOf, List.foldl_cons]
    cases hb : nd.hasBody
    · simp only [Bool.false_eq_true, if_false]
      rw [ih K Kr Kc acc h1 h2 h3]
      congr 1
      unfold hStep' hTerm
      simp only [hb, Bool.false_eq_true, if_false]
      grind
    · simp only [if_true, List.zip_cons_cons, List.foldl_cons]
      rw [ih K Kr Kc _ h1 h2 h3]
      congr 1
      unfold hStep' hTerm hStep
      simp only [hb, if_true]
      grind

theorem partials_eq (M : SModel α) (S : State α) (j : Nat) :
    partials M S j = (M.nodes.zip (kinTable M (unitVel S j))).filterMap pvOf := rfl

/-- **an entry of `Spec.inertiaMatrix` as a sum over the node indices** -/
theorem inertiaMatrix_getD (M : SModel α) (S : State α) (hne : M.nodes ≠ []) (r c : Nat)
    (hr : r < M.nv) (hc : c < M.nv) :
    (inertiaMatrix M S).getD (r * M.nv + c) 0
      = lsum 0 (fun n => hTerm (((M.nodes.getD n nd0, specKin M S n),
          specKin M (unitVel S r) n), specKin M (unitVel S c) n)) (List.range M.nodes.length) := by
  have hl0 := kinTable_length M S hne
  have hl1 := kinTable_length M (unitVel S r) hne
  have hl2 := kinTable_length M (unitVel S c) hne
  have hparts : ∀ j, j < M.nv →
      ((List.range M.nv).map (fun j => partials M S j)).getD j [] = partials M S j := by
    intro j hj
    rw [List.getD_eq_getElem?_getD, List.getElem?_map, List.getElem?_range hj]; rfl
  have e : (inertiaMatrix M S).getD (r * M.nv + c) 0
      = ((((M.nodes.zip (kinTable M S)).filter (fun p => p.1.hasBody)).zip
          (((List.range M.nv).map (fun j => partials M S j)).getD r [])).zip
          (((List.range M.nv).map (fun j => partials M S j)).getD c [])).foldl hStep 0 := by
    unfold inertiaMatrix
    dsimp only
    exact flatMap_getD M.nv (fun j k =>
      ((((M.nodes.zip (kinTable M S)).filter (fun p => p.1.hasBody)).zip
          (((List.range M.nv).map (fun j => partials M S j)).getD j [])).zip
          (((List.range M.nv).map (fun j => partials M S j)).getD k [])).foldl hStep 0) 0 r c hr hc
  rw [e, hparts r hr, hparts c hc, partials_eq, partials_eq, fold_bodies _ _ _ _ _ hl0 hl1 hl2,
    foldl_eq_lsum hTerm hStep' (fun _ _ => rfl)
      (((nd0, NodeKin.ofPose Pose.id), NodeKin.ofPose Pose.id), NodeKin.ofPose Pose.id)]
  have hL : (((M.nodes.zip (kinTable M S)).zip (kinTable M (unitVel S r))).zip
      (kinTable M (unitVel S c))).length = M.nodes.length := by
    rw [List.length_zip, List.length_zip, List.length_zip, hl0, hl1, hl2]; omega
  rw [hL]
  have ez : ∀ a : α, 0 + a = a := by intro a; grind
  rw [ez]
  refine lsum_congr _ _ _ (fun k hk => ?_)
  rw [List.mem_range] at hk
  rw [getD_zip _ _ _ _ _ (by rw [List.length_zip, List.length_zip, hl0, hl1]; omega)
      (by rw [hl2]; exact hk),
    getD_zip _ _ _ _ _ (by rw [List.length_zip, hl0]; omega) (by rw [hl1]; exact hk),
    getD_zip _ _ _ _ _ hk (by rw [hl0]; exact hk), kinTable_getD, kinTable_getD, kinTable_getD]

/-- entry `(j, k)` of `Spec.inertiaMatrix` as the specification computes it -/
def imEntry (M : SModel α) (S : State α) (j k : Nat) : α :=
  ((((M.nodes.zip (kinTable M S)).filter (fun p => p.1.hasBody)).zip
      (((List.range M.nv).map (fun j => partials M S j)).getD j [])).zip
      (((List.range M.nv).map (fun j => partials M S j)).getD k [])).foldl hStep 0

theorem inertiaMatrix_def (M : SModel α) (S : State α) :
    inertiaMatrix M S = (List.range M.nv).flatMap (fun j => (List.range M.nv).map (fun k =>
      imEntry M S j k)) := rfl

/-- `Spec.inertiaMatrix` is the row-major list of its entries -/
theorem inertiaMatrix_eta (M : SModel α) (S : State α) :
    inertiaMatrix M S = (List.range M.nv).flatMap (fun r => (List.range M.nv).map (fun c =>
      (inertiaMatrix M S).getD (r * M.nv + c) 0)) := by
  conv => lhs; rw [inertiaMatrix_def]
  rw [List.flatMap_def, List.flatMap_def]
  congr 1
  refine List.map_congr_left (fun r hr => ?_)
  refine List.map_congr_left (fun c hc => ?_)
  rw [inertiaMatrix_def]
  exact (flatMap_getD M.nv (imEntry M S) 0 r c (List.mem_range.1 hr) (List.mem_range.1 hc)).symm

/-! ### one node -/

theorem pv_core (mass : α) (c : V3 α) (Ic : M3 α) (hs : Ic.transpose = Ic) (Vr Vc : SV α) :
    mass * (Vr.v + Vr.w.cross c).dot (Vc.v + Vc.w.cross c) + Vr.w.dot (Ic * Vc.w)
      = Vr.dot (RBI.ofMassComInertiaC mass c Ic * Vc) := by
  simp only [M3.transpose, M3.ext_iff] at hs
  simp only [alg]
  grind

/-- `m ∂ċ/∂q̇_r · ∂ċ/∂q̇_c + ∂ω/∂q̇_r · (R I Rᵀ ∂ω/∂q̇_c) = V_r · I V_c` (body-frame partial velocities) -/
theorem h_term {k kr kc : NodeKin α} {Vr Ar Vc Ac : SV α} (hr : BodyForm kr Vr Ar)
    (hc : BodyForm kc Vc Ac) (eR : kr.R = k.R) (eC : kc.R = k.R) (mass : α) (c : V3 α) (Ic : M3 α)
    (hs : Ic.transpose = Ic) :
    mass * (kr.ptd c).dot (kc.ptd c) + kr.omega.dot ((k.R * Ic * k.R.transpose) * kc.omega)
      = Vr.dot (RBI.ofMassComInertiaC mass c Ic * Vc) := by
  have rot : k.R.IsRot := eR ▸ hr.rot
  rw [bf_ptd hr, bf_ptd hc, bf_omega hr, bf_omega hc, eR, eC, rot_dot rot]
  simp only [m3_mulVec_assoc, tmul_mul rot]
  rw [rot_dot rot]
  exact pv_core mass c Ic hs Vr Vc

/-- a bilinear form of an inertia seen from a frame attached by the constant transform `X` -/
theorem transport_bilin (X : XT α) (hX : X.E.IsRot) (J : RBI α) (Vr Vc : SV α) :
    (X.apply Vr).dot (J * X.apply Vc) = Vr.dot (X.applyTransposeRBI J * Vc) := by
  rw [L03.Core.aTR_mul X hX, L03.sv_dot_comm Vr, L03.Core.applyTranspose_dot, L03.sv_dot_comm]

/-- **entry `(r, c)` of the first-principles inertia matrix `Σ_bodies Jᵀ M J`** is
    `Σ_k V_r[k] · I_k V_c[k]` over the movable bodies of the model, `V_x[k]` the velocity of body `k` in
    the forward pass with the unit generalized velocity `e_x` -/
theorem inertiaMatrix_entry {m : ModelS α} {M : SModel α} {off : Nat → XT α} {nodeOf : Nat → Nat}
    (hm : ModelOK m) (hL : Link m M off nodeOf) (h2 : (2 : α) ≠ 0) (w : WS α) (hw : WSFixed m w)
    (st : QS α) (hst : StateOK m st) (qd qdd : VecN α) (r c : Nat) (hr : r < m.dofCount)
    (hc : c < m.dofCount) :
    (inertiaMatrix M (stateOf st qd qdd)).getD (r * m.dofCount + c) 0
      = lsum 0 (fun k => ((unitW m w st r).v k).dot (m.rbi k * (unitW m w st c).v k))
          (List.range' 1 (m.nBodies - 1)) := by
  have hFr := unitW_closed hm w st r
  have hFc := unitW_closed hm w st c
  have hBr := link_bodyForm hm hL h2 w _ hw st hst _ _ hFr
  have hBc := link_bodyForm hm hL h2 w _ hw st hst _ _ hFc
  rw [← hL.nv, inertiaMatrix_getD M _ hL.ne r c (by rw [hL.nv]; exact hr) (by rw [hL.nv]; exact hc),
    unitVel_stateOf, unitVel_stateOf]
  refine node_sum L12.ring_addLaws hL hm.wf.nb_pos _
    (fun i J => ((unitW m w st r).v i).dot (J * (unitW m w st c).v i)) ?_ ?_ ?_ ?_
  · intro i; show _ = (0 : α); rw [L03.Core.rbi_zero_mul, L01.sv_dot_zero]
  · intro i A B
    show ((unitW m w st r).v i).dot ((A + B) * (unitW m w st c).v i) = _
    rw [L03.Core.rbi_add_mul, L01.sv_dot_add]
  · intro J; show ((unitW m w st r).v 0).dot _ = (0 : α); rw [hFr.v0, L01.sv_zero_dot]
  · intro n hn
    by_cases hh : (M.nodes.getD n nd0).hasBody = true
    · have hcl : cls M n = bodyOf M n := by unfold cls; rw [if_pos hh]
      have hi := hL.body_lt n hn hh
      have hX := hL.offrot n hn hh
      have hN : nodeRBI M off (bodyOf M n) n
          = (off n).applyTransposeRBI (RBI.ofMassComInertiaC (M.nodes.getD n nd0).mass
              (M.nodes.getD n nd0).com (M.nodes.getD n nd0).inertia) := by
        unfold nodeRBI; rw [if_pos ⟨rfl, hh⟩]
      rw [hcl, hN]
      show hTerm _ = ((unitW m w st r).v (bodyOf M n)).dot (_ * (unitW m w st c).v (bodyOf M n))
      unfold hTerm
      dsimp only
      rw [if_pos hh, link_nodeKin hL _ n hn hh, link_nodeKin hL _ n hn hh,
        link_nodeKin hL _ n hn hh]
      have eR := congrArg (fun X : XT α => X.E.transpose)
        (link_R_indep hm hL w st (unitV r) (fun _ => 0) qd qdd _ hi)
      have eC := congrArg (fun X : XT α => X.E.transpose)
        (link_R_indep hm hL w st (unitV c) (fun _ => 0) qd qdd _ hi)
      have hRr : (compKin (NodeKin.ofPose (specPose M (stateOf st (unitV r) fun _ => 0)
            (nodeOf (bodyOf M n)))) (NodeKin.ofPose (constPose (off n)))).R
          = (compKin (NodeKin.ofPose (specPose M (stateOf st qd qdd) (nodeOf (bodyOf M n))))
            (NodeKin.ofPose (constPose (off n)))).R := by
        show _ * _ = _ * _
        have : (NodeKin.ofPose (specPose M (stateOf st (unitV r) fun _ => 0)
            (nodeOf (bodyOf M n)))).R
            = (NodeKin.ofPose (specPose M (stateOf st qd qdd) (nodeOf (bodyOf M n)))).R := eR
        rw [this]
      have hRc : (compKin (NodeKin.ofPose (specPose M (stateOf st (unitV c) fun _ => 0)
            (nodeOf (bodyOf M n)))) (NodeKin.ofPose (constPose (off n)))).R
          = (compKin (NodeKin.ofPose (specPose M (stateOf st qd qdd) (nodeOf (bodyOf M n))))
            (NodeKin.ofPose (constPose (off n)))).R := by
        show _ * _ = _ * _
        have : (NodeKin.ofPose (specPose M (stateOf st (unitV c) fun _ => 0)
            (nodeOf (bodyOf M n)))).R
            = (NodeKin.ofPose (specPose M (stateOf st qd qdd) (nodeOf (bodyOf M n)))).R := eC
        rw [this]
      rw [h_term (bf_attached (hBr _ hi) (off n) hX) (bf_attached (hBc _ hi) (off n) hX) hRr hRc
        _ _ _ (hL.symm n hn hh)]
      exact transport_bilin (off n) hX _ _ _
    · have hcl : cls M n = 0 := by unfold cls; rw [if_neg hh]
      rw [hcl]
      show hTerm _ = ((unitW m w st r).v 0).dot _
      unfold hTerm
      dsimp only
      rw [if_neg hh, hFr.v0, L01.sv_zero_dot]

end
end Rbdl.LDynCap
