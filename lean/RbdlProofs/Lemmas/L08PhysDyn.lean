import RbdlProofs.Props.C03
import RbdlProofs.Lemmas.L08PhysWs
/-
  C08 / C10 / C11, physical reading (part 5): the matrix `H` and the vector `C` that
  `CalcConstrainedSystemVariables` returns are those of the decomposition `ID(q̈) = H q̈ + ID(0)` of
  `InverseDynamics` (C03, C01) started from the workspace after the position update.
-/
set_option linter.unusedSectionVars false
namespace Rbdl.L08Phys
open Lean.Grind Rbdl Rbdl.Loops Rbdl.L03

section
variable {α : Type} [Field α] [DecidableEq α]

/-- rows outside `1 .. nBodies-1` keep the entry values in the forward pass of `NonlinearEffects` -/
theorem neForward_row_outside (m : ModelS α) (hc : L01.CustomInj m)
    (hperm : (m.updateOrder.drop 1).Perm (List.range' 1 (m.nBodies - 1)))
    (e : WS α) (st : QS α) (qd : VecN α) (fext : Option (Nat → SV α)) (j : Nat)
    (hj : j = 0 ∨ m.nBodies ≤ j) :
    L01.row m (L01.neForward m e st qd fext) j = L01.row m (L01.idInit m e) j := by
  unfold L01.neForward
  rw [forUp_get_outside (L01.row m) _ (L01.neBody_row_other m fext) _ _ _ j (by omega)]
  unfold L01.neJ
  refine (L01.jfold_row m hc st qd (m.updateOrder.drop 1) (L01.idInit m e)).1 j (fun hm => ?_)
  rw [hperm.mem_iff, List.mem_range'_1] at hm
  omega

/-- … and in the forward pass of `InverseDynamics` -/
theorem idForward_row_outside (m : ModelS α) (hc : L01.CustomInj m) (e : WS α) (st : QS α)
    (qd qdd : VecN α) (fext : Option (Nat → SV α)) (j : Nat) (hj : j = 0 ∨ m.nBodies ≤ j) :
    L01.row m (L01.idForward m e st qd qdd fext) j = L01.row m (L01.idInit m e) j := by
  have h1 : L01.row m (L01.idForward1 m e st qd qdd) j = L01.row m (L01.idInit m e) j :=
    forUp_get_outside (L01.row m) _ (L01.idFwdBody_row_other m hc st qd qdd) _ _ _ j (by omega)
  cases fext with
  | none => exact h1
  | some fe =>
    show L01.row m (forUp (m.nBodies - 1) 1 (L01.idExtBody m fe) (L01.idForward1 m e st qd qdd)) j
      = _
    rw [forUp_get_outside (L01.row m) _ (L01.idExtBody_row_other m fe) _ _ _ j (by omega), h1]

/-- the two forward passes started from the same workspace leave the same link transforms, motion
    subspaces and body forces -/
theorem ne_id_forward (m : ModelS α) (hc : L01.CustomInj m)
    (htree : ∀ i, 1 ≤ i → i < m.nBodies → m.lam i < i)
    (harity : ∀ i, 1 ≤ i → i < m.nBodies → m.arity i ≠ .other)
    (hperm : (m.updateOrder.drop 1).Perm (List.range' 1 (m.nBodies - 1)))
    (e : WS α) (st : QS α) (qd : VecN α) (fext : Option (Nat → SV α))
    (hxb : fext.isSome → e.X_base 0 = XT.id) :
    (L01.neForward m e st qd fext).X_lambda = (L01.idForward m e st qd zeroVec fext).X_lambda ∧
    (L01.neForward m e st qd fext).Scols m = (L01.idForward m e st qd zeroVec fext).Scols m ∧
    (∀ i, 1 ≤ i → i < m.nBodies →
      (L01.neForward m e st qd fext).f i = (L01.idForward m e st qd zeroVec fext).f i) := by
  obtain ⟨hN, hNf⟩ := L01.neForward_closed m hc htree hperm e st qd fext hxb
  obtain ⟨hI, hIf, _⟩ := L01.idForward_closed m hc htree e st qd zeroVec fext
  have hu := L01.fwd_unique m htree harity st qd zeroVec fext e e _ _ hN hI hNf hIf
    (fun i _ _ => ⟨rfl, rfl, rfl, fun _ => rfl, fun _ => rfl⟩) (fun _ => rfl)
  have hout : ∀ j, (j = 0 ∨ m.nBodies ≤ j) →
      L01.row m (L01.neForward m e st qd fext) j
        = L01.row m (L01.idForward m e st qd zeroVec fext) j := fun j hj => by
    rw [neForward_row_outside m hc hperm e st qd fext j hj,
      idForward_row_outside m hc e st qd zeroVec fext j hj]
  refine ⟨funext fun j => ?_, funext fun j => ?_, fun i h1 h2 => (hu i h1 h2).2.2.1⟩
  · by_cases hj : 1 ≤ j ∧ j < m.nBodies
    · exact (hu j hj.1 hj.2).1
    · exact (L01.row_fields (hout j (by omega))).1
  · by_cases hj : 1 ≤ j ∧ j < m.nBodies
    · exact (hu j hj.1 hj.2).2.1
    · exact L01.Scols_row m _ _ j (hout j (by omega))

/-- hypotheses of the dynamics link (those of C03 `rnea_eq_crba_mul_add` for `InverseDynamics`
    started from the workspace `e`, and those of C01 for `NonlinearEffects`): tree order, joints of
    arity one / three, massless virtual bodies, link transforms that are rotations, disjoint
    coordinate ranges, every coordinate `< qdotSize` belongs to a joint, `mJointUpdateOrder` lists
    the movable bodies, and (with external forces) `X_base[0] = 1` -/
structure DynHyp (m : ModelS α) (e : WS α) (st : QS α) (qd : VecN α)
    (fext : Option (Nat → SV α)) : Prop where
  inj : L01.CustomInj m
  tree : ∀ c, 1 ≤ c → c ≤ m.nBodies - 1 → m.lam c < c
  ar : ∀ c, 1 ≤ c → c ≤ m.nBodies - 1 → m.arity c = .one ∨ m.arity c = .three
  virt : ∀ i, 1 ≤ i → i ≤ m.nBodies - 1 → (m.body i).isVirtual = true → m.rbi i = RBI.zero
  rot : ∀ i, 1 ≤ i → i ≤ m.nBodies - 1 →
    ((inverseDynamics m e st qd (fun _ => 0) (fun _ => 0) fext).1.X_lambda i).E.IsRot
  disj : Disj m (inverseDynamics m e st qd (fun _ => 0) (fun _ => 0) fext).1
  cov : ∀ c, c < m.qdotSize → ∃ j b, 1 ≤ j ∧ j ≤ m.nBodies - 1 ∧
    b < nS (inverseDynamics m e st qd (fun _ => 0) (fun _ => 0) fext).1 m j ∧
    c = (m.joint j).qIndex + b
  perm : (m.updateOrder.drop 1).Perm (List.range' 1 (m.nBodies - 1))
  xb : fext.isSome → e.X_base 0 = XT.id

/-- **`H` and `C` of `CalcConstrainedSystemVariables` decompose `InverseDynamics`**: for every
    acceleration vector `x` (entries `< qdotSize`) and every component `r`,
    `InverseDynamics (q, q̇, x, f_ext) = H x + C`, inverse dynamics being started (with a zero `Tau`)
    from the workspace `e = updQ …` the routine works on -/
theorem csv_H_C (m : ModelS α) (w : WS α) (st : QS α) (qd : VecN α) (C : CSet α) (update : Bool)
    (fext : Option (Nat → SV α)) (h : DynHyp m (updQ m w st update) st qd fext) (x : VecN α)
    (r : Nat) :
    (inverseDynamics m (updQ m w st update) st qd (fun k => if k < m.qdotSize then x k else 0)
        (fun _ => 0) fext).2 r
      = sumTo m.qdotSize (fun c => (sysVars m w st qd C update fext).H r c * x c)
        + (sysVars m w st qd C update fext).C r := by
  generalize he : updQ m w st update = e at h
  have htree' : ∀ i, 1 ≤ i → i < m.nBodies → m.lam i < i := fun i h1 h2 => h.tree i h1 (by omega)
  have har' : ∀ i, 1 ≤ i → i ≤ m.nBodies - 1 → m.arity i ≠ .other := fun i h1 h2 => by
    rcases h.ar i h1 h2 with e | e <;> rw [e] <;> simp
  obtain ⟨fX, fS, ff⟩ := ne_id_forward m h.inj htree' (fun i h1 h2 => har' i h1 (by omega)) h.perm
    e st qd fext h.xb
  -- the two fields
  have eH : (sysVars m w st qd C update fext).H
      = (crba m (nonlinearEffects m e st qd (fun _ => 0) fext).1 st (fun _ _ => 0) false).2 := by
    rw [← he]; rfl
  have eC : (sysVars m w st qd C update fext).C = (nonlinearEffects m e st qd (fun _ => 0) fext).2 := by
    rw [← he]; rfl
  rw [eH, eC]
  -- `C = ID(0)`
  have eN : (nonlinearEffects m e st qd (fun _ => 0) fext).2
      = (inverseDynamics m e st qd (fun _ => 0) (fun _ => 0) fext).2 := by
    rw [L01.nonlinearEffects_eq, L01.inverseDynamics_eq]
    exact L01.rneaBackward_congr m htree' _ _ _ (fun i _ _ => congrFun fX i)
      (fun i _ _ => congrFun fS i) ff
  -- the workspace `crba` runs on holds the transforms / motion subspaces of `ID(0)`
  have hXc : (nonlinearEffects m e st qd (fun _ => 0) fext).1.X_lambda
      = (inverseDynamics m e st qd (fun _ => 0) (fun _ => 0) fext).1.X_lambda := by
    rw [L01.nonlinearEffects_eq, L01.inverseDynamics_eq,
      rneaBackward_keep (fun w => w.X_lambda) (fun _ _ => rfl),
      rneaBackward_keep (fun w => w.X_lambda) (fun _ _ => rfl)]
    exact fX
  have hSc : (nonlinearEffects m e st qd (fun _ => 0) fext).1.Scols m
      = (inverseDynamics m e st qd (fun _ => 0) (fun _ => 0) fext).1.Scols m := by
    rw [L01.nonlinearEffects_eq, L01.inverseDynamics_eq,
      rneaBackward_keep (fun w => w.Scols m) (fun _ _ => rfl),
      rneaBackward_keep (fun w => w.Scols m) (fun _ _ => rfl)]
    exact fS
  rw [eN]
  generalize hN : m.qdotSize = N
  have hcov := h.cov
  rw [hN] at hcov
  clear hN
  induction N with
  | zero =>
    have : (fun k => if k < 0 then x k else (0 : α)) = fun _ => 0 := by
      funext k; rw [if_neg (by omega)]
    rw [this, sumTo]; grind
  | succ N ih =>
    obtain ⟨j, b, hj1, hjn, hb, hc⟩ := hcov N (by omega)
    have e' : (fun k => if k < N + 1 then x k else (0 : α))
        = fun k => (fun k' => x N * (unitVec N : VecN α) k') k
            + (fun k' => if k' < N then x k' else 0) k := by
      funext k
      show (if k < N + 1 then x k else 0)
        = x N * (if k = N then 1 else 0) + (if k < N then x k else 0)
      by_cases h1 : k < N
      · rw [if_pos (by omega), if_pos h1, if_neg (by omega)]; grind
      · by_cases h2 : k = N
        · subst h2; rw [if_pos (by omega), if_pos rfl, if_neg h1]; grind
        · rw [if_neg (by omega), if_neg h2, if_neg h1]; grind
    have hA := (C03.rnea_affine_same m e st qd (fun _ => 0) fext h.tree har'
      (fun k' => x N * (unitVec N : VecN α) k') (fun k' => if k' < N then x k' else 0) 0 r).1
    have hH := (C03.rnea_affine_same m e st qd (fun _ => 0) fext h.tree har' (unitVec N)
      (unitVec N) (x N) r).2
    have hU := C03.rnea_unit_eq_crba_column m e st qd (fun _ => 0) fext h.tree h.ar h.virt h.rot
      h.disj _ st hXc hSc j hj1 hjn b hb r
    rw [← hc] at hU
    have hI := ih (fun c hc => hcov c (by omega))
    rw [e', sumTo]
    grind

end
end Rbdl.L08Phys
