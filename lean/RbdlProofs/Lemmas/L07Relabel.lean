import RbdlProofs.Lemmas.L07Misc
import RbdlProofs.Props.C01
/-
  C07 (H): a relabelling of the bodies that commutes with `lambda` and with the per-body data
  relabels the results of the recursive Newton–Euler algorithm.
-/
namespace Rbdl.L07
open Lean.Grind Rbdl Rbdl.Loops Rbdl.L01
set_option linter.unusedVariables false
set_option linter.unusedSimpArgs false
set_option linter.unusedSectionVars false

section Sums
variable {β : Type} [Add β] {z : β}

theorem lsum_perm (L : AddLaws z) (f : Nat → β) {l1 l2 : List Nat} (h : l1.Perm l2) :
    lsum z f l1 = lsum z f l2 := by
  induction h with
  | nil => rfl
  | cons x _ ih => rw [lsum, lsum, ih]
  | swap x y l => rw [lsum, lsum, lsum, lsum, ← L.add_assoc, ← L.add_assoc, L.add_comm (f y)]
  | trans _ _ ih1 ih2 => rw [ih1, ih2]

theorem lsum_map_idx (f : Nat → β) (σ : Nat → Nat) (l : List Nat) :
    lsum z f (l.map σ) = lsum z (fun c => f (σ c)) l := by
  induction l with
  | nil => rfl
  | cons c l ih => rw [List.map_cons, lsum, lsum, ih]
end Sums

section
variable {α : Type} [Field α]

/-- `σ` (with inverse `σi`) is a relabelling of the bodies of `m` into those of `m'` that commutes
    with the parent map and with the per-body data the dynamics read. -/
structure Relabel (m m' : ModelS α) (σ σi : Nat → Nat) : Prop where
  nb : m'.nBodies = m.nBodies
  zero : σ 0 = 0
  range : ∀ i, 1 ≤ i → i < m.nBodies → 1 ≤ σ i ∧ σ i < m.nBodies
  rangeI : ∀ j, 1 ≤ j → j < m.nBodies → σi j < m.nBodies
  left : ∀ i, i < m.nBodies → σi (σ i) = i
  right : ∀ j, j < m.nBodies → σ (σi j) = j
  tree : ∀ i, 1 ≤ i → i < m.nBodies → m.lam i < i
  tree' : ∀ i, 1 ≤ i → i < m.nBodies → m'.lam i < i
  lam : ∀ i, 1 ≤ i → i < m.nBodies → m'.lam (σ i) = σ (m.lam i)
  rbi : ∀ i, 1 ≤ i → i < m.nBodies → m'.rbi (σ i) = m.rbi i
  virt : ∀ i, 1 ≤ i → i < m.nBodies → (m'.body (σ i)).isVirtual = (m.body i).isVirtual
  arity : ∀ i, 1 ≤ i → i < m.nBodies → m'.arity (σ i) = m.arity i
  arityOk : ∀ i, 1 ≤ i → i < m.nBodies → m.arity i ≠ .other
  grav : m'.gravity = m.gravity

/-- the joint rows of two (final) workspaces agree along `σ` -/
structure RowsEq (m m' : ModelS α) (σ : Nat → Nat) (qdd qdd' : VecN α) (W W' : WS α) : Prop where
  X : ∀ i, 1 ≤ i → i < m.nBodies → W'.X_lambda (σ i) = W.X_lambda i
  vJ : ∀ i, 1 ≤ i → i < m.nBodies → W'.v_J (σ i) = W.v_J i
  cJ : ∀ i, 1 ≤ i → i < m.nBodies → W'.c_J (σ i) = W.c_J i
  sq : ∀ i, 1 ≤ i → i < m.nBodies → W'.Sqdd m' (σ i) qdd' = W.Sqdd m i qdd
  cols : ∀ i, 1 ≤ i → i < m.nBodies → W'.Scols m' (σ i) = W.Scols m i

/-- external forces that correspond along `σ` (and, when present, the same `X_base[0]`) -/
def FextEq (m : ModelS α) (σ : Nat → Nat) (w w' : WS α) :
    Option (Nat → SV α) → Option (Nat → SV α) → Prop
  | none, none => True
  | some g, some g' => (∀ i, 1 ≤ i → i < m.nBodies → g' (σ i) = g i) ∧ w'.X_base 0 = w.X_base 0
  | _, _ => False

variable {m m' : ModelS α} {σ σi : Nat → Nat}

theorem FextEq.some {w w' : WS α} {fext fext' : Option (Nat → SV α)}
    (h : FextEq m σ w w' fext fext') (hs : fext.isSome) :
    fext'.isSome ∧ w'.X_base 0 = w.X_base 0 := by
  cases fext with
  | none => simp at hs
  | some g =>
    cases fext' with
    | none => exact h.elim
    | some g' => exact ⟨rfl, h.2⟩

theorem Relabel.inj (R : Relabel m m' σ σi) {i j : Nat} (hi : i < m.nBodies) (hj : j < m.nBodies)
    (h : σ i = σ j) : i = j := by
  rw [← R.left i hi, ← R.left j hj, h]

theorem Relabel.range0 (R : Relabel m m' σ σi) (i : Nat) (hi : i < m.nBodies) :
    σ i < m.nBodies := by
  by_cases h : 1 ≤ i
  · exact (R.range i h hi).2
  · have : i = 0 := by omega
    subst this; rw [R.zero]; exact hi

theorem Relabel.pos (R : Relabel m m' σ σi) : 1 ≤ m.nBodies ∨ m.nBodies = 0 := by omega

/-- **H**, forward pass: velocities, accelerations (and base transforms, when external forces are
    given) of corresponding bodies agree -/
theorem relabel_forward (R : Relabel m m' σ σi) {st st' : QS α} {qd qd' qdd qdd' : VecN α}
    {w w' W W' : WS α} {fext fext' : Option (Nat → SV α)}
    (h : FwdClosed m st qd qdd w W) (h' : FwdClosed m' st' qd' qdd' w' W')
    (hf : ForceClosed m fext w W) (hf' : ForceClosed m' fext' w' W')
    (hr : RowsEq m m' σ qdd qdd' W W') (hfe : FextEq m σ w w' fext fext') :
    ∀ i, i < m.nBodies → W'.v (σ i) = W.v i ∧ W'.a (σ i) = W.a i ∧
      (fext.isSome → W'.X_base (σ i) = W.X_base i) := by
  intro i
  induction i using Nat.strongRecOn with
  | _ i ih =>
    intro h2
    by_cases h1 : 1 ≤ i
    · have hl := R.tree i h1 h2
      obtain ⟨iv, ia, ib⟩ := ih (m.lam i) hl (by omega)
      obtain ⟨s1, s2⟩ := R.range i h1 h2
      have s2' : σ i < m'.nBodies := by rw [R.nb]; exact s2
      have hv : W'.v (σ i) = W.v i := by
        rw [h'.v _ s1 s2', h.v i h1 h2, hr.X i h1 h2, R.lam i h1 h2, iv, hr.vJ i h1 h2]
      have hcc : W'.c (σ i) = W.c i := by
        rw [h'.c _ s1 s2', h.c i h1 h2, hr.cJ i h1 h2, hv, hr.vJ i h1 h2]
      refine ⟨hv, ?_, fun hs => ?_⟩
      · rw [h'.a _ s1 s2' (by rw [R.arity i h1 h2]; exact R.arityOk i h1 h2),
          h.a i h1 h2 (R.arityOk i h1 h2), hr.X i h1 h2, R.lam i h1 h2, ia, hcc, hr.sq i h1 h2]
      · have hs' : fext'.isSome := (hfe.some hs).1
        rw [hf'.xb hs' _ s1 s2', hf.xb hs i h1 h2, hr.X i h1 h2, R.lam i h1 h2, ib hs]
    · have : i = 0 := by omega
      subst this
      rw [R.zero]
      refine ⟨by rw [h.v0, h'.v0], ?_, fun hs => ?_⟩
      · rw [h.a0, h'.a0]; unfold spatialGravityNeg; rw [R.grav]
      · rw [hf.xb0, hf'.xb0, (hfe.some hs).2]

/-- **H**, body forces -/
theorem relabel_force (R : Relabel m m' σ σi) {st st' : QS α} {qd qd' qdd qdd' : VecN α}
    {w w' W W' : WS α} {fext fext' : Option (Nat → SV α)}
    (h : FwdClosed m st qd qdd w W) (h' : FwdClosed m' st' qd' qdd' w' W')
    (hf : ForceClosed m fext w W) (hf' : ForceClosed m' fext' w' W')
    (hr : RowsEq m m' σ qdd qdd' W W') (hfe : FextEq m σ w w' fext fext') :
    ∀ i, 1 ≤ i → i < m.nBodies → W'.f (σ i) = W.f i := by
  intro i h1 h2
  obtain ⟨hv, ha, hxb⟩ := relabel_forward R h h' hf hf' hr hfe i h2
  obtain ⟨s1, s2⟩ := R.range i h1 h2
  rw [hf'.f _ s1 (by rw [R.nb]; exact s2), hf.f i h1 h2]
  unfold netForce bodyForce
  cases fext with
  | none =>
    cases fext' with
    | none => simp only [R.virt i h1 h2, R.rbi i h1 h2, hv, ha]
    | some g' => exact hfe.elim
  | some g =>
    cases fext' with
    | none => exact hfe.elim
    | some g' =>
      simp only [R.virt i h1 h2, R.rbi i h1 h2, hv, ha, hxb rfl, hfe.1 i h1 h2]

/-- the children of `σ i` in `m'` are the images of the children of `i` in `m` -/
theorem relabel_children (R : Relabel m m' σ σi) (i : Nat) (hi : i < m.nBodies) :
    (childrenOf m'.lam (m'.nBodies - 1) (σ i)).Perm
      ((childrenOf m.lam (m.nBodies - 1) i).map σ) := by
  have nd1 : (childrenOf m'.lam (m'.nBodies - 1) (σ i)).Nodup :=
    List.Nodup.sublist List.filter_sublist List.nodup_range'
  have nd0 : (childrenOf m.lam (m.nBodies - 1) i).Nodup :=
    List.Nodup.sublist List.filter_sublist List.nodup_range'
  have nd2 : ((childrenOf m.lam (m.nBodies - 1) i).map σ).Nodup := by
    unfold List.Nodup
    rw [List.pairwise_map]
    refine List.Pairwise.imp_of_mem (fun {a b} ha hb hab e => hab ?_) nd0
    rw [mem_childrenOf] at ha hb
    exact R.inj (by omega) (by omega) e
  rw [List.perm_ext_iff_of_nodup nd1 nd2]
  intro c'
  rw [mem_childrenOf, List.mem_map, R.nb]
  constructor
  · rintro ⟨⟨c1, c2⟩, hl⟩
    have c2' : c' < m.nBodies := by omega
    have hc0 : σi c' ≠ 0 := by
      intro e
      have := R.right c' c2'
      rw [e, R.zero] at this
      omega
    have hcn := R.rangeI c' c1 c2'
    refine ⟨σi c', ?_, R.right c' c2'⟩
    rw [mem_childrenOf]
    refine ⟨⟨by omega, by omega⟩, ?_⟩
    have e := R.lam (σi c') (by omega) hcn
    rw [R.right c' c2', hl] at e
    have hlt := R.tree (σi c') (by omega) hcn
    exact (R.inj hi (by omega) e).symm
  · rintro ⟨c, hc, rfl⟩
    rw [mem_childrenOf] at hc
    obtain ⟨⟨c1, c2⟩, hl⟩ := hc
    obtain ⟨s1, s2⟩ := R.range c c1 (by omega)
    exact ⟨⟨s1, by omega⟩, by rw [R.lam c c1 (by omega), hl]⟩

/-- **H**, backward pass: the accumulated (subtree) forces of corresponding bodies agree -/
theorem relabel_Ftot (R : Relabel m m' σ σi) {qdd qdd' : VecN α} {W W' : WS α}
    (hr : RowsEq m m' σ qdd qdd' W W')
    (hF : ∀ i, 1 ≤ i → i < m.nBodies → W'.f (σ i) = W.f i) :
    ∀ i, 1 ≤ i → i < m.nBodies → rneaFtot m' W' (σ i) = rneaFtot m W i := by
  have key : ∀ k i, 1 ≤ i → i < m.nBodies → m.nBodies - i ≤ k →
      rneaFtot m' W' (σ i) = rneaFtot m W i := by
    intro k
    induction k with
    | zero => intro i h1 h2 hk; omega
    | succ k ih =>
      intro i h1 h2 hk
      obtain ⟨s1, s2⟩ := R.range i h1 h2
      rw [rneaFtot_rec m' W' (fun c c1 c2 => R.tree' c c1 (by rw [← R.nb]; exact c2)) (σ i) (by omega),
        rneaFtot_rec m W R.tree i (by omega), hF i h1 h2,
        lsum_perm L12.sv_addLaws _ (relabel_children R i h2), lsum_map_idx]
      congr 1
      refine lsum_congr _ _ _ (fun c hc => ?_)
      rw [mem_childrenOf] at hc
      obtain ⟨⟨c1, c2⟩, hl⟩ := hc
      have hlt := R.tree c c1 (by omega)
      rw [hr.X c c1 (by omega), ih c c1 (by omega) (by omega)]
  intro i h1 h2
  exact key (m.nBodies - i) i h1 h2 (Nat.le_refl _)

/-- **H**, generalized forces: coordinate `d` of joint `σ i` in `m'` receives what coordinate `d`
    of joint `i` receives in `m` -/
theorem relabel_tau (R : Relabel m m' σ σi) {qdd qdd' : VecN α} {W W' : WS α}
    (hr : RowsEq m m' σ qdd qdd' W W')
    (hF : ∀ i, 1 ≤ i → i < m.nBodies → W'.f (σ i) = W.f i) (tau tau' : VecN α)
    (hdisj : ∀ i j x, 1 ≤ i → i < m.nBodies → 1 ≤ j → j < m.nBodies →
      owns m W i x → owns m W j x → i = j)
    (hdisj' : ∀ i j x, 1 ≤ i → i < m'.nBodies → 1 ≤ j → j < m'.nBodies →
      owns m' W' i x → owns m' W' j x → i = j)
    (i d : Nat) (h1 : 1 ≤ i) (h2 : i < m.nBodies) (hd : d < (W.Scols m i).length) :
    (rneaBackward m' W' tau').2 ((m'.joint (σ i)).qIndex + d)
      = (rneaBackward m W tau).2 ((m.joint i).qIndex + d) := by
  obtain ⟨s1, s2⟩ := R.range i h1 h2
  have ho : owns m W i ((m.joint i).qIndex + d) := by unfold owns; omega
  have ho' : owns m' W' (σ i) ((m'.joint (σ i)).qIndex + d) := by
    unfold owns; rw [hr.cols i h1 h2]; omega
  rw [(C01.rnea_backward_closed m' (fun c c1 c2 => R.tree' c c1 (by rw [← R.nb]; exact c2)) W' tau'
      hdisj').2.2.1 (σ i) _ s1 (by rw [R.nb]; exact s2) ho',
    (C01.rnea_backward_closed m R.tree W tau hdisj).2.2.1 i _ h1 h2 ho,
    hr.cols i h1 h2, relabel_Ftot R hr hF i h1 h2]
  congr 2
  omega

/-! ### joints that differ only in the position of their coordinates -/

/-- joint `i'` of `m'` is joint `i` of `m` up to the position of its coordinates -/
structure JointEq (m : ModelS α) (i : Nat) (m' : ModelS α) (i' : Nat) : Prop where
  jt : (m'.joint i').jt = (m.joint i).jt
  axes : (m'.joint i').axes.headD SV.zero = (m.joint i).axes.headD SV.zero
  dof : (m'.joint i').dof = (m.joint i).dof
  xt : m'.XT_ i' = m.XT_ i
  custom : (m.joint i).jt = .custom →
    m'.custom (m'.joint i').customIdx = m.custom (m.joint i).customIdx

/-- coordinate `d` of the two joints holds the same position, velocity and acceleration data -/
def CoordAt (m : ModelS α) (i : Nat) (m' : ModelS α) (i' : Nat) (st st' : QS α)
    (qd qd' qdd qdd' : VecN α) (d : Nat) : Prop :=
  st'.q ((m'.joint i').qIndex + d) = st.q ((m.joint i).qIndex + d) ∧
  st'.c ((m'.joint i').qIndex + d) = st.c ((m.joint i).qIndex + d) ∧
  st'.s ((m'.joint i').qIndex + d) = st.s ((m.joint i).qIndex + d) ∧
  qd' ((m'.joint i').qIndex + d) = qd ((m.joint i).qIndex + d) ∧
  qdd' ((m'.joint i').qIndex + d) = qdd ((m.joint i).qIndex + d)

/-- the two states agree on the coordinates of the two joints (and on the fourth quaternion
    component of a spherical joint) -/
structure CoordEq (m : ModelS α) (i : Nat) (m' : ModelS α) (i' : Nat) (st st' : QS α)
    (qd qd' qdd qdd' : VecN α) : Prop where
  coord : ∀ d, d < m.jdof i → CoordAt m i m' i' st st' qd qd' qdd qdd' d
  w : (m.joint i).jt = .spherical → st'.q (m'.w3 i') = st.q (m.w3 i)

/-- what the dynamics loops use of joint `i` at a state: `X_λ`, `v_J`, `c_J`, the columns of `S`
    and `S q̈` -/
def jrow (m : ModelS α) (w : WS α) (i : Nat) (st : QS α) (qd qdd : VecN α) :
    XT α × SV α × SV α × List (SV α) × SV α :=
  ((jcalc m w i st qd).X_lambda i, (jcalc m w i st qd).v_J i, (jcalc m w i st qd).c_J i,
   (jcalc m w i st qd).Scols m i, (jcalc m w i st qd).Sqdd m i qdd)

theorem jdof_of_not_custom (m : ModelS α) (i : Nat) (h : (m.joint i).jt ≠ .custom) :
    m.jdof i = (m.joint i).dof := by unfold ModelS.jdof; simp only [h, if_false]

theorem coord1 {m : ModelS α} {i : Nat} {m' : ModelS α} {i' : Nat} {st st' : QS α}
    {qd qd' qdd qdd' : VecN α} (hC : CoordEq m i m' i' st st' qd qd' qdd qdd') (h : 1 ≤ m.jdof i) :
    st'.q (m'.joint i').qIndex = st.q (m.joint i).qIndex ∧
    st'.c (m'.joint i').qIndex = st.c (m.joint i).qIndex ∧
    st'.s (m'.joint i').qIndex = st.s (m.joint i).qIndex ∧
    qd' (m'.joint i').qIndex = qd (m.joint i).qIndex ∧
    qdd' (m'.joint i').qIndex = qdd (m.joint i).qIndex := hC.coord 0 (by omega)

theorem coord2 {m : ModelS α} {i : Nat} {m' : ModelS α} {i' : Nat} {st st' : QS α}
    {qd qd' qdd qdd' : VecN α} (hC : CoordEq m i m' i' st st' qd qd' qdd qdd') (h : 2 ≤ m.jdof i) :
    st'.q ((m'.joint i').qIndex + 1) = st.q ((m.joint i).qIndex + 1) ∧
    st'.c ((m'.joint i').qIndex + 1) = st.c ((m.joint i).qIndex + 1) ∧
    st'.s ((m'.joint i').qIndex + 1) = st.s ((m.joint i).qIndex + 1) ∧
    qd' ((m'.joint i').qIndex + 1) = qd ((m.joint i).qIndex + 1) ∧
    qdd' ((m'.joint i').qIndex + 1) = qdd ((m.joint i).qIndex + 1) := hC.coord 1 (by omega)

theorem coord3 {m : ModelS α} {i : Nat} {m' : ModelS α} {i' : Nat} {st st' : QS α}
    {qd qd' qdd qdd' : VecN α} (hC : CoordEq m i m' i' st st' qd qd' qdd qdd') (h : 3 ≤ m.jdof i) :
    st'.q ((m'.joint i').qIndex + 2) = st.q ((m.joint i).qIndex + 2) ∧
    st'.c ((m'.joint i').qIndex + 2) = st.c ((m.joint i).qIndex + 2) ∧
    st'.s ((m'.joint i').qIndex + 2) = st.s ((m.joint i).qIndex + 2) ∧
    qd' ((m'.joint i').qIndex + 2) = qd ((m.joint i).qIndex + 2) ∧
    qdd' ((m'.joint i').qIndex + 2) = qdd ((m.joint i).qIndex + 2) := hC.coord 2 (by omega)

/-- the entries of the joint row computed by `jcalc`, by `L13.jcalc_eq` -/
theorem jrow_eq (m : ModelS α) (w : WS α) (i : Nat) (st : QS α) (qd qdd : VecN α) :
    jrow m w i st qd qdd =
      (jcalcX m i st (w.X_lambda i), L13.jcalcVJ m i st qd (w.S i) (w.v_J i) (w.S3 i),
       L13.jcalcCJ m i st qd (w.c_J i),
       (match m.arity i with
        | .one => [L13.jcalcS m i st (w.S i)]
        | .three => (L13.jcalcS3 m i st (w.S3 i)).cols
        | .custom => L13.jcalcCS m i st w.cS (m.joint i).customIdx
        | .other => []),
       (match m.arity i with
        | .one => qdd (m.joint i).qIndex * L13.jcalcS m i st (w.S i)
        | .three => (L13.jcalcS3 m i st (w.S3 i)).mulV3 ⟨qdd (m.joint i).qIndex,
            qdd ((m.joint i).qIndex + 1), qdd ((m.joint i).qIndex + 2)⟩
        | .custom => colsMul (L13.jcalcCS m i st w.cS (m.joint i).customIdx)
            (fun z => qdd ((m.joint i).qIndex + z))
        | .other => SV.zero)) := by
  unfold jrow WS.Scols WS.Sqdd
  rw [L13.jcalc_eq]
  simp only [upd_same]
  cases m.arity i <;> rfl

theorem jrow_shift (m : ModelS α) (i : Nat) (m' : ModelS α) (i' : Nat) (w w' : WS α)
    (st st' : QS α) (qd qd' qdd qdd' : VecN α)
    (hJ : JointEq m i m' i') (hC : CoordEq m i m' i' st st' qd qd' qdd qdd')
    (hok : JointOK m i) (hw : FixedW m w i) (hw' : FixedW m' w' i') :
    jrow m' w' i' st' qd' qdd' = jrow m w i st qd qdd := by
  have harEq : m'.arity i' = m.arity i := by
    unfold ModelS.arity; simp only [hJ.jt, hJ.dof]
  rw [jrow_eq, jrow_eq, harEq]
  unfold FixedW at hw hw'
  rw [hJ.jt, hJ.axes] at hw'
  unfold JointOK at hok
  cases hj : (m.joint i).jt <;> simp only [hj] at hok hw hw'
  case custom =>
    have a := (arity_custom_iff m i).2 hj
    have hk := hJ.custom hj
    rw [a]
    unfold jcalcX L13.jcalcVJ L13.jcalcCJ L13.jcalcCS
    simp only [hJ.jt, hj, hJ.xt, hk, upd_same]
    have hjd : m.jdof i = (m.custom (m.joint i).customIdx).dof := by
      unfold ModelS.jdof; simp only [hj, if_true]
    cases hkind : m.custom (m.joint i).customIdx
    · obtain ⟨c0, c1, c2, c3, c4⟩ := coord1 hC (by rw [hjd, hkind]; decide)
      simp only [customXJ, customCalc, colsMul, colsMul.indexedCols, List.length_cons,
        List.length_nil, List.range, List.range.loop, List.zip_cons_cons, List.zip_nil_right,
        List.foldl_cons, List.foldl_nil, Nat.add_zero, c0, c1, c2, c3, c4]
    · obtain ⟨c0, c1, c2, c3, c4⟩ := coord1 hC (by rw [hjd, hkind]; decide)
      obtain ⟨d0, d1, d2, d3, d4⟩ := coord2 hC (by rw [hjd, hkind]; decide)
      obtain ⟨e0, e1, e2, e3, e4⟩ := coord3 hC (by rw [hjd, hkind]; decide)
      simp only [customXJ, customCalc, colsMul, colsMul.indexedCols, List.length_cons,
        List.length_nil, List.range, List.range.loop, List.zip_cons_cons, List.zip_nil_right,
        List.foldl_cons, List.foldl_nil, Nat.add_zero, M63.cols, c0, c1, c2, c3, c4, d0, d1, d2,
        d3, d4, e0, e1, e2, e3, e4]
    · obtain ⟨c0, c1, c2, c3, c4⟩ := coord1 hC (by rw [hjd, hkind]; decide)
      obtain ⟨d0, d1, d2, d3, d4⟩ := coord2 hC (by rw [hjd, hkind]; decide)
      simp only [customXJ, customCalc, colsMul, colsMul.indexedCols, List.length_cons,
        List.length_nil, List.range, List.range.loop, List.zip_cons_cons, List.zip_nil_right,
        List.foldl_cons, List.foldl_nil, Nat.add_zero, c0, c1, c2, c3, c4, d0, d1, d2, d3, d4]
  all_goals
    have hnc : (m.joint i).jt ≠ .custom := by rw [hj]; exact fun e => nomatch e
  -- one degree of freedom
  case revoluteX | revoluteY | revoluteZ | revolute | prismatic | helical =>
    have a := L01.arity_of_dof1 m i hnc hok
    obtain ⟨c0, c1, c2, c3, c4⟩ := coord1 hC (by rw [jdof_of_not_custom _ _ hnc, hok]; omega)
    rw [a]
    unfold jcalcX L13.jcalcVJ L13.jcalcCJ L13.jcalcS L13.helicalS jcalcXJ
    simp only [hJ.jt, hj, hJ.axes, hJ.xt, c0, c1, c2, c3, c4, FixedAt] at hw hw' ⊢
    first
      | done
      | (obtain ⟨a1, a2, a3, a4, a5⟩ := hw
         obtain ⟨b1, b2, b3, b4, b5⟩ := hw'
         simp only [a1, a2, a3, a4, a5, b1, b2, b3, b4, b5])
      | (obtain ⟨a1, a2⟩ := hw
         obtain ⟨b1, b2⟩ := hw'
         simp only [a1, a2, b1, b2])
  -- three degrees of freedom
  all_goals
    have a := L01.arity_of_dof3 m i hnc hok
    obtain ⟨c0, c1, c2, c3, c4⟩ := coord1 hC (by rw [jdof_of_not_custom _ _ hnc, hok]; omega)
    obtain ⟨d0, d1, d2, d3, d4⟩ := coord2 hC (by rw [jdof_of_not_custom _ _ hnc, hok]; omega)
    obtain ⟨e0, e1, e2, e3, e4⟩ := coord3 hC (by rw [jdof_of_not_custom _ _ hnc, hok]; omega)
    rw [a]
    unfold jcalcX L13.jcalcVJ L13.jcalcCJ L13.jcalcS3 getQuaternion
    simp only [hJ.jt, hj, hJ.xt, c0, c1, c2, c3, c4, d0, d1, d2, d3, d4, e0, e1, e2, e3, e4,
      FixedAt] at hw hw' ⊢
  case spherical =>
    rw [sphericalS_fixed _ hw.2, sphericalS_fixed _ hw'.2, hw.1, hw'.1, hC.w hj]
  case translationXYZ =>
    rw [translationS_fixed _ hw, translationS_fixed _ hw']
  case eulerZYX =>
    have h1 := fun c1 s1 c2 s2 => eulerS_fixed .eulerZYX rfl _ hw c1 s1 c2 s2
    have h2 := fun c1 s1 c2 s2 => eulerS_fixed .eulerZYX rfl _ hw' c1 s1 c2 s2
    simp only [eulerS] at h1 h2
    simp only [h1, h2]
  case eulerXYZ =>
    have h1 := fun c1 s1 c2 s2 => eulerS_fixed .eulerXYZ rfl _ hw c1 s1 c2 s2
    have h2 := fun c1 s1 c2 s2 => eulerS_fixed .eulerXYZ rfl _ hw' c1 s1 c2 s2
    simp only [eulerS] at h1 h2
    simp only [h1, h2]
  case eulerYXZ =>
    have h1 := fun c1 s1 c2 s2 => eulerS_fixed .eulerYXZ rfl _ hw c1 s1 c2 s2
    have h2 := fun c1 s1 c2 s2 => eulerS_fixed .eulerYXZ rfl _ hw' c1 s1 c2 s2
    simp only [eulerS] at h1 h2
    simp only [h1, h2]
  case eulerZXY =>
    have h1 := fun c1 s1 c2 s2 => eulerS_fixed .eulerZXY rfl _ hw c1 s1 c2 s2
    have h2 := fun c1 s1 c2 s2 => eulerS_fixed .eulerZXY rfl _ hw' c1 s1 c2 s2
    simp only [eulerS] at h1 h2
    simp only [h1, h2]

/-- the joint rows of the final workspace of `InverseDynamics` are the rows `jcalc` computes -/
theorem jrow_closed {m : ModelS α} {st : QS α} {qd qdd : VecN α} {w W : WS α}
    (h : FwdClosed m st qd qdd w W) (i : Nat) (h1 : 1 ≤ i) (h2 : i < m.nBodies) :
    (W.X_lambda i, W.v_J i, W.c_J i, W.Scols m i, W.Sqdd m i qdd) = jrow m w i st qd qdd := by
  unfold jrow
  rw [h.jX i h1 h2, h.jvJ i h1 h2, h.jcJ i h1 h2,
    Scols_congr m W (jcalc m w i st qd) i (fun _ => h.jS i h1 h2) (fun _ => h.jS3 i h1 h2)
      (fun hc => h.jcS i h1 h2 hc),
    Sqdd_congr m W (jcalc m w i st qd) i qdd (fun _ => h.jS i h1 h2) (fun _ => h.jS3 i h1 h2)
      (fun hc => h.jcS i h1 h2 hc)]

/-- **H** for `InverseDynamics`: if `σ` relabels `m` into `m'` (`Relabel`) and the joint rows that
    `jcalc` computes for corresponding joints agree, then velocities, accelerations, body forces,
    accumulated forces of corresponding bodies agree and coordinate `d` of joint `σ i` receives the
    generalized force that coordinate `d` of joint `i` receives. -/
theorem relabel_inverseDynamics {m m' : ModelS α} {σ σi : Nat → Nat} (R : Relabel m m' σ σi)
    (hwf : m.WF) (hwf' : m'.WF) (hc : CustomInj m) (hc' : CustomInj m')
    (w w' : WS α) (st st' : QS α) (qd qd' qdd qdd' tau tau' : VecN α)
    (fext fext' : Option (Nat → SV α))
    (hrow : ∀ i, 1 ≤ i → i < m.nBodies →
      jrow m' w' (σ i) st' qd' qdd' = jrow m w i st qd qdd)
    (hfe : FextEq m σ w w' fext fext') :
    (∀ i, 1 ≤ i → i < m.nBodies →
      (idForward m' w' st' qd' qdd' fext').v (σ i) = (idForward m w st qd qdd fext).v i ∧
      (idForward m' w' st' qd' qdd' fext').a (σ i) = (idForward m w st qd qdd fext).a i ∧
      (idForward m' w' st' qd' qdd' fext').f (σ i) = (idForward m w st qd qdd fext).f i ∧
      rneaFtot m' (idForward m' w' st' qd' qdd' fext') (σ i)
        = rneaFtot m (idForward m w st qd qdd fext) i) ∧
    (∀ i d, 1 ≤ i → i < m.nBodies → d < (m.joint i).dof →
      (inverseDynamics m' w' st' qd' qdd' tau' fext').2 ((m'.joint (σ i)).qIndex + d)
        = (inverseDynamics m w st qd qdd tau fext).2 ((m.joint i).qIndex + d)) := by
  obtain ⟨h, hf, _⟩ := idForward_closed m hc hwf.lam_lt w st qd qdd fext
  obtain ⟨h', hf', _⟩ := idForward_closed m' hc' hwf'.lam_lt w' st' qd' qdd' fext'
  have hr : RowsEq m m' σ qdd qdd' (idForward m w st qd qdd fext)
      (idForward m' w' st' qd' qdd' fext') := by
    have key : ∀ i, 1 ≤ i → i < m.nBodies → _ := fun i h1 h2 => by
      obtain ⟨s1, s2⟩ := R.range i h1 h2
      exact (jrow_closed h' (σ i) s1 (by rw [R.nb]; exact s2)).trans
        ((hrow i h1 h2).trans (jrow_closed h i h1 h2).symm)
    constructor
    · intro i h1 h2; exact congrArg (·.1) (key i h1 h2)
    · intro i h1 h2; exact congrArg (·.2.1) (key i h1 h2)
    · intro i h1 h2; exact congrArg (·.2.2.1) (key i h1 h2)
    · intro i h1 h2; exact congrArg (·.2.2.2.2) (key i h1 h2)
    · intro i h1 h2; exact congrArg (·.2.2.2.1) (key i h1 h2)
  have hF := relabel_force R h h' hf hf' hr hfe
  have harity' : ∀ j, 1 ≤ j → j < m'.nBodies → m'.arity j ≠ .other := by
    intro j j1 j2
    rw [R.nb] at j2
    have hj0 : σi j ≠ 0 := by
      intro e; have := R.right j j2; rw [e, R.zero] at this; omega
    have := R.arity (σi j) (by omega) (R.rangeI j j1 j2)
    rw [R.right j j2] at this
    rw [this]
    exact R.arityOk (σi j) (by omega) (R.rangeI j j1 j2)
  have hlen := scols_length_closed m hwf st qd qdd w _ h R.arityOk
  have hlen' := scols_length_closed m' hwf' st' qd' qdd' w' _ h' harity'
  refine ⟨fun i h1 h2 => ?_, fun i d h1 h2 hd => ?_⟩
  · obtain ⟨hv, ha, _⟩ := relabel_forward R h h' hf hf' hr hfe i h2
    exact ⟨hv, ha, hF i h1 h2, relabel_Ftot R hr hF i h1 h2⟩
  · rw [inverseDynamics_eq, inverseDynamics_eq]
    exact relabel_tau R hr hF tau tau' (owns_disjoint_of_WF m _ hwf hlen)
      (owns_disjoint_of_WF m' _ hwf' hlen') i d h1 h2 (by rw [hlen i h1 h2]; exact hd)

/-- **H**, with the hypotheses on the joints spelled out: corresponding joints have the same type,
    axis, number of degrees of freedom, joint frame (and custom-joint kind), the two states agree on
    their coordinates, both entry workspaces hold the construction-time entries. -/
theorem relabel_inverseDynamics' {m m' : ModelS α} {σ σi : Nat → Nat} (R : Relabel m m' σ σi)
    (hwf : m.WF) (hwf' : m'.WF) (hc : CustomInj m) (hc' : CustomInj m')
    (w w' : WS α) (st st' : QS α) (qd qd' qdd qdd' tau tau' : VecN α)
    (fext fext' : Option (Nat → SV α))
    (hJ : ∀ i, 1 ≤ i → i < m.nBodies → JointEq m i m' (σ i))
    (hC : ∀ i, 1 ≤ i → i < m.nBodies → CoordEq m i m' (σ i) st st' qd qd' qdd qdd')
    (hok : ∀ i, 1 ≤ i → i < m.nBodies → JointOK m i)
    (hw : ∀ i, 1 ≤ i → i < m.nBodies → FixedW m w i)
    (hw' : ∀ i, 1 ≤ i → i < m.nBodies → FixedW m' w' (σ i))
    (hfe : FextEq m σ w w' fext fext') :
    (∀ i, 1 ≤ i → i < m.nBodies →
      (idForward m' w' st' qd' qdd' fext').v (σ i) = (idForward m w st qd qdd fext).v i ∧
      (idForward m' w' st' qd' qdd' fext').a (σ i) = (idForward m w st qd qdd fext).a i ∧
      (idForward m' w' st' qd' qdd' fext').f (σ i) = (idForward m w st qd qdd fext).f i ∧
      rneaFtot m' (idForward m' w' st' qd' qdd' fext') (σ i)
        = rneaFtot m (idForward m w st qd qdd fext) i) ∧
    (∀ i d, 1 ≤ i → i < m.nBodies → d < (m.joint i).dof →
      (inverseDynamics m' w' st' qd' qdd' tau' fext').2 ((m'.joint (σ i)).qIndex + d)
        = (inverseDynamics m w st qd qdd tau fext).2 ((m.joint i).qIndex + d)) :=
  relabel_inverseDynamics R hwf hwf' hc hc' w w' st st' qd qd' qdd qdd' tau tau' fext fext'
    (fun i h1 h2 => jrow_shift m i m' (σ i) w w' st st' qd qd' qdd qdd' (hJ i h1 h2) (hC i h1 h2)
      (hok i h1 h2) (hw i h1 h2) (hw' i h1 h2)) hfe

end
end Rbdl.L07
