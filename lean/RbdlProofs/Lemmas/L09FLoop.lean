import RbdlProofs.Lemmas.L09FKin
/-
  C09F, part 2: what one constraint writes, for every body id.
  * the rows of the four per-constraint routines (`update_kinematics = false`) as closed formulas in
    the kinematics outputs (`rowsC_get`, `rowsL_get`, `rowsV_get` on the pair forms of `L13CS`);
  * what the routines read: the Jacobian the position-level entries (`KEq5`), position error
    `X_base`, velocity error and gamma `X_base`, `v`, `a` up to `v[0]`, `a[0]` (`KEq`); what they
    write: `mBaseTransform` of fixed bodies (`setFb`) and `v[0] = a[0] = 0`;
  * **the reduction**: a constraint on fixed bodies is the same constraint on the bodies that carry them
    with the frames composed with `parentTransform` (`onParents`).
-/
set_option linter.unusedSectionVars false
set_option linter.unusedSimpArgs false
namespace Rbdl.L09F
open Lean.Grind Rbdl Rbdl.L05 Rbdl.L09 Rbdl.L13CS Rbdl.Spec

section
variable {α : Type} [Field α] [DecidableEq α]

/-- the same constraint (axes, rows, flags, stabilisation) on the bodies that carry its bodies, the
    frames composed with the `parentTransform` of the fixed bodies -/
def onParents (m : ModelS α) (c : Constr α) : Constr α :=
  { c with bodyP := resId m c.bodyP, XP := resFrame m c.bodyP c.XP,
           bodyS := resId m c.bodyS, XS := resFrame m c.bodyS c.XS }

theorem hasRow_onParents (m : ModelS α) (c : Constr α) (r : Nat) :
    hasRow (onParents m c) r = hasRow c r := rfl
theorem axisAt_onParents (m : ModelS α) (c : Constr α) (r : Nat) :
    axisAt (onParents m c) r = axisAt c r := rfl

theorem shape_onParents {m : ModelS α} {c : Constr α} (h : Shape c) (hc : c.ctype = .loop) :
    Shape (onParents m c) :=
  ⟨h.ne, h.pos, h.vel, h.posAll, h.velAll,
    fun h' => absurd (show c.ctype = .contact from h') (by rw [hc]; decide),
    fun h' => absurd (show c.ctype = .contact from h') (by rw [hc]; decide)⟩

/-- a contact constraint moved to the body that carries its body -/
def onParentC (m : ModelS α) (c : Constr α) : Constr α :=
  { c with bodyP := resId m c.bodyP, XP := ⟨c.XP.E, resPoint m c.bodyP c.XP.r⟩ }

theorem hasRow_onParentC (m : ModelS α) (c : Constr α) (r : Nat) :
    hasRow (onParentC m c) r = hasRow c r := rfl
theorem axisAt_onParentC (m : ModelS α) (c : Constr α) (r : Nat) :
    axisAt (onParentC m c) r = axisAt c r := rfl
theorem shape_onParentC {m : ModelS α} {c : Constr α} (h : Shape c) : Shape (onParentC m c) :=
  ⟨h.ne, h.pos, h.vel, h.posAll, h.velAll, h.contactE, h.contactT⟩

/-! ### the row-writing folds, entry by entry -/

theorem rowsC_get (c : Constr α) (nv : Nat) (J G : MatN α) (r col : Nat) :
    rowsC c nv J G r col
      = if hasRow c r ∧ col < nv then
          (axisAt c r).v.x * J 0 col + (axisAt c r).v.y * J 1 col + (axisAt c r).v.z * J 2 col
        else G r col := by
  unfold rowsC
  rw [setRows_get c.T c.row nv
    (fun (t : SV α) (_ : Nat) col => t.v.x * J 0 col + t.v.y * J 1 col + t.v.z * J 2 col) G r col]
  by_cases h : (c.row ≤ r ∧ r < c.row + c.T.length) ∧ col < nv
  · rw [dif_pos h, if_pos (show hasRow c r ∧ col < nv from h), axisAt_eq c r h.1]
  · rw [dif_neg h, if_neg (show ¬ (hasRow c r ∧ col < nv) from h)]

theorem rowsL_get (c : Constr α) (nv : Nat) (A : XT α) (Jp Js G : MatN α) (r col : Nat) :
    rowsL c nv A Jp Js G r col
      = if hasRow c r ∧ col < nv then
          dot6 (loopAxis A (axisAt c r)) (fun q => Js q col - Jp q col)
        else G r col := by
  unfold rowsL
  rw [setRows_get c.T c.row nv
    (fun (t : SV α) (_ : Nat) col =>
      (zipIdx (SV.toList (loopAxis A t))).foldl
        (fun acc q => acc + q.1 * (Js q.2 col - Jp q.2 col)) 0) G r col]
  by_cases h : (c.row ≤ r ∧ r < c.row + c.T.length) ∧ col < nv
  · rw [dif_pos h, if_pos (show hasRow c r ∧ col < nv from h), axisAt_eq c r h.1]
    exact axisFold_eq _ (fun q => Js q col - Jp q col)
  · rw [dif_neg h, if_neg (show ¬ (hasRow c r ∧ col < nv) from h)]

theorem rowsV_get (c : Constr α) (val : SV α → Nat → α) (e : VecN α) (r : Nat) :
    rowsV c val e r = if hasRow c r then val (axisAt c r) (r - c.row) else e r := by
  unfold rowsV
  rw [updRows_get c.T c.row val e r]
  by_cases h : c.row ≤ r ∧ r < c.row + c.T.length
  · rw [dif_pos h, if_pos (show hasRow c r from h), axisAt_eq c r h]
  · rw [dif_neg h, if_neg (show ¬ hasRow c r from h)]

/-- rows of the constraint are overwritten, the others keep the input -/
theorem rowsC_split (c : Constr α) (nv : Nat) (J G : MatN α) (r col : Nat) :
    rowsC c nv J G r col
      = if hasRow c r ∧ col < nv then rowsC c nv J zeroMat r col else G r col := by
  rw [rowsC_get, rowsC_get c nv J zeroMat]
  split <;> rfl

theorem rowsL_split (c : Constr α) (nv : Nat) (A : XT α) (Jp Js G : MatN α) (r col : Nat) :
    rowsL c nv A Jp Js G r col
      = if hasRow c r ∧ col < nv then rowsL c nv A Jp Js zeroMat r col else G r col := by
  rw [rowsL_get, rowsL_get c nv A Jp Js zeroMat]
  split <;> rfl

theorem rowsV_split (c : Constr α) (val : SV α → Nat → α) (e : VecN α) (r : Nat) :
    rowsV c val e r = if hasRow c r then rowsV c val (fun _ => 0) r else e r := by
  rw [rowsV_get, rowsV_get c val (fun _ => 0)]
  split <;> rfl

/-! ### what the kinematics routines read and write (no update) -/

/-- `s` is `w` up to `mBaseTransform` of the fixed bodies -/
def FbEq (w s : WS α) : Prop := ∃ fb, s = setFb fb w

theorem FbEq.rfl' (w : WS α) : FbEq w w := ⟨w.fbBase, rfl⟩
theorem FbEq.keq5 {w s : WS α} (h : FbEq w s) : KEq5 s w := by
  obtain ⟨fb, rfl⟩ := h; exact ⟨rfl, rfl, rfl, rfl, rfl⟩
theorem FbEq.keq {w s : WS α} (h : FbEq w s) : KEq w s := by
  obtain ⟨fb, rfl⟩ := h; exact ⟨rfl, rfl, rfl⟩
theorem FbEq.wo {w s : WS α} (h : FbEq w s) (m : ModelS α) (id : Nat) :
    FbEq w (worldOrientation0 m s id).1 := by
  obtain ⟨fb, rfl⟩ := h
  obtain ⟨fb', e⟩ := wo_ws m (setFb fb w) id
  exact ⟨fb', by rw [e]; rfl⟩

theorem wo_congr (m : ModelS α) {a b : WS α} (hx : a.X_base = b.X_base) (id : Nat) :
    (worldOrientation0 m a id).2 = (worldOrientation0 m b id).2 := by
  unfold worldOrientation0
  split
  · dsimp only; rw [hx]
  · dsimp only; rw [hx]

theorem wo_v (m : ModelS α) (a : WS α) (id : Nat) : (worldOrientation0 m a id).1.v = a.v := by
  unfold worldOrientation0; split <;> rfl
theorem wo_a (m : ModelS α) (a : WS α) (id : Nat) : (worldOrientation0 m a id).1.a = a.a := by
  unfold worldOrientation0; split <;> rfl
theorem wo_X_base (m : ModelS α) (a : WS α) (id : Nat) :
    (worldOrientation0 m a id).1.X_base = a.X_base := by
  unfold worldOrientation0; split <;> rfl

theorem b2b_congr (m : ModelS α) {a b : WS α} (hx : a.X_base = b.X_base) (id : Nat) (p : V3 α) :
    bodyToBase0 m a id p = bodyToBase0 m b id p := by
  unfold bodyToBase0; rw [hx]

theorem refPoint_congr (m : ModelS α) {a b : WS α} (hx : a.X_base = b.X_base) (id : Nat)
    (p : V3 α) : refPoint m a id p = refPoint m b id p := by
  unfold refPoint bodyToBase0 baseToBody0; rw [hx]

theorem _root_.Rbdl.L09.KEq.wo' {w s : WS α} (h : KEq w s) (m : ModelS α) (id : Nat) :
    KEq w (worldOrientation0 m s id).1 :=
  ⟨by rw [wo_X_base]; exact h.xb, by rw [wo_v]; exact h.v, by rw [wo_a]; exact h.a⟩

/-- `stA` of a loop frame reads `X_base` only -/
theorem loopFrame_congr (m : ModelS α) (st : QS α) {a b : WS α} (hx : a.X_base = b.X_base) (id : Nat)
    (Xf : XT α) : (loopFrame m a st id Xf false).2 = (loopFrame m b st id Xf false).2 := by
  show (⟨(worldOrientation0 m a id).2.transpose * Xf.E, bodyToBase0 m a id Xf.r⟩ : XT α)
    = ⟨(worldOrientation0 m b id).2.transpose * Xf.E, bodyToBase0 m b id Xf.r⟩
  rw [wo_congr m hx id, b2b_congr m hx id]

theorem loopFrame_ws (m : ModelS α) (st : QS α) (a : WS α) (id : Nat) (Xf : XT α) :
    (loopFrame m a st id Xf false).1 = (worldOrientation0 m a id).1 := rfl

theorem pvOut_congr (m : ModelS α) {a b : WS α} (hx : a.X_base = b.X_base) (hv : a.v = b.v) (id : Nat)
    (p : V3 α) : L13.pvOut m a id p = L13.pvOut m b id p := by
  unfold L13.pvOut
  dsimp only
  rw [refPoint_congr m hx id p, wo_congr m hx, wo_v, wo_v, hv]

theorem paOut_congr (m : ModelS α) {a b : WS α} (hx : a.X_base = b.X_base) (hv : a.v = b.v)
    (ha : a.a = b.a) (id : Nat) (p : V3 α) : L13.paOut m a id p = L13.paOut m b id p := by
  unfold L13.paOut
  dsimp only
  rw [refPoint_congr m hx id p, wo_congr m hx, wo_v, wo_v, wo_a, wo_a, hv, ha]

theorem pv6_form (m : ModelS α) (w : WS α) (st : QS α) (qd : VecN α) (id : Nat) (p : V3 α) :
    calcPointVelocity6D m w st qd id p false
      = ((worldOrientation0 m { w with v := upd w.v 0 SV.zero }
            (refPoint m { w with v := upd w.v 0 SV.zero } id p).1).1,
         L13.pvOut m { w with v := upd w.v 0 SV.zero } id p) := rfl

theorem pa6_form (m : ModelS α) (w : WS α) (st : QS α) (qd qdd : VecN α) (id : Nat) (p : V3 α) :
    calcPointAcceleration6D m w st qd qdd id p false
      = ((worldOrientation0 m { w with v := upd w.v 0 SV.zero, a := upd w.a 0 SV.zero }
            (refPoint m { w with v := upd w.v 0 SV.zero, a := upd w.a 0 SV.zero } id p).1).1,
         L13.paOut m { w with v := upd w.v 0 SV.zero, a := upd w.a 0 SV.zero } id p) := rfl

/-- `CalcPointVelocity6D` (no update) reads `X_base` and `v` (with `v[0]` counted as 0), and writes
    `v[0] = 0` and possibly `mBaseTransform` -/
theorem _root_.Rbdl.L09.KEq.pv6 {w s : WS α} (h : KEq w s) (m : ModelS α) (st : QS α) (qd : VecN α) (id : Nat)
    (p : V3 α) :
    (calcPointVelocity6D m s st qd id p false).2 = (calcPointVelocity6D m w st qd id p false).2 ∧
    KEq w (calcPointVelocity6D m s st qd id p false).1 := by
  rw [pv6_form, pv6_form]
  exact ⟨pvOut_congr m (a := { s with v := upd s.v 0 SV.zero }) (b := { w with v := upd w.v 0 SV.zero })
    h.xb h.v id p, h.setv.wo' m _⟩

theorem _root_.Rbdl.L09.KEq.pa6 {w s : WS α} (h : KEq w s) (m : ModelS α) (st : QS α) (qd qdd : VecN α) (id : Nat)
    (p : V3 α) :
    (calcPointAcceleration6D m s st qd qdd id p false).2
      = (calcPointAcceleration6D m w st qd qdd id p false).2 ∧
    KEq w (calcPointAcceleration6D m s st qd qdd id p false).1 := by
  rw [pa6_form, pa6_form]
  exact ⟨paOut_congr m (a := { s with v := upd s.v 0 SV.zero, a := upd s.a 0 SV.zero })
    (b := { w with v := upd w.v 0 SV.zero, a := upd w.a 0 SV.zero }) h.xb h.v h.a id p, h.setva.wo' m _⟩

theorem _root_.Rbdl.L09.KEq.loopFrame {w s : WS α} (h : KEq w s) (m : ModelS α) (st : QS α) (id : Nat) (Xf : XT α) :
    (loopFrame m s st id Xf false).2 = (loopFrame m w st id Xf false).2 ∧
    KEq w (loopFrame m s st id Xf false).1 :=
  ⟨loopFrame_congr m st h.xb id Xf, h.wo' m id⟩

/-! ### one constraint, any ids: rows and workspace -/

/-- `calcConstraintJacobian` of one constraint reads the position-level entries, overwrites its rows
    (columns `< qdotSize`) and keeps the rest of the matrix; it writes `mBaseTransform` only -/
theorem jacobian_stepF (c : Constr α) (m : ModelS α) (w s : WS α) (st : QS α) (G : MatN α)
    (hs : FbEq w s) (r col : Nat) :
    FbEq w (c.jacobian m s st G false).1 ∧
    (c.jacobian m s st G false).2 r col
      = if hasRow c r ∧ col < m.qdotSize then (c.jacobian m w st zeroMat false).2 r col
        else G r col := by
  have hk := hs.keq5
  cases hc : c.ctype with
  | contact =>
    rw [jacobian_contact c hc, jacobian_contact c hc m w st zeroMat, pj_pair, pj_pair]
    simp only [L05.updQ_false]
    rw [rowsC_split, hk.pj0 m c.bodyP c.XP.r _]
    exact ⟨hs, rfl⟩
  | loop =>
    rw [jacobian_loop c hc, jacobian_loop c hc m w st zeroMat, pj6_pair, pj6_pair, pj6_pair, pj6_pair]
    simp only [L05.updQ_false]
    rw [rowsL_split, hk.pj60 m c.bodyP c.XP.r _, hk.pj60 m c.bodyS c.XS.r _,
      loopFrame_congr m st hk.xb c.bodyP c.XP]
    exact ⟨hs.wo m c.bodyP, rfl⟩

theorem positionError_stepF (c : Constr α) (m : ModelS α) (w s : WS α) (st : QS α) (err : VecN α)
    (hs : FbEq w s) (r : Nat) :
    FbEq w (c.positionError m s st err false).1 ∧
    (c.positionError m s st err false).2 r
      = if hasRow c r then (c.positionError m w st (fun _ => 0) false).2 r else err r := by
  have hx : s.X_base = w.X_base := hs.keq5.xb
  cases hc : c.ctype with
  | contact =>
    rw [positionError_contact c hc, positionError_contact c hc m w st (fun _ => 0)]
    simp only [L05.updQ_false]
    rw [rowsV_split, b2b_congr m hx c.bodyP c.XP.r]
    exact ⟨hs, rfl⟩
  | loop =>
    rw [positionError_loop c hc, positionError_loop c hc m w st (fun _ => 0)]
    dsimp only
    have hx1 : (loopFrame m s st c.bodyP c.XP false).1.X_base
        = (loopFrame m w st c.bodyP c.XP false).1.X_base := by
      rw [loopFrame_ws, loopFrame_ws, wo_X_base, wo_X_base, hx]
    rw [rowsV_split, loopFrame_congr m st hx c.bodyP c.XP, loopFrame_congr m st hx1 c.bodyS c.XS]
    exact ⟨(hs.wo m c.bodyP).wo m c.bodyS, rfl⟩

/-- `calcVelocityError` of one constraint: reads `X_base`, `v` (contacts) / the matrix passed in (loops) -/
theorem velocityError_stepF (c : Constr α) (m : ModelS α) (w s : WS α) (st : QS α) (qd : VecN α)
    (G : MatN α) (errd : VecN α) (hk : KEq w s) (r : Nat) :
    KEq w (c.velocityError m s st qd G errd false).1 ∧
    (c.velocityError m s st qd G errd false).2 r
      = if hasRow c r then (c.velocityError m w st qd G (fun _ => 0) false).2 r else errd r := by
  cases hc : c.ctype with
  | contact =>
    rw [velocityError_contact c hc, velocityError_contact c hc m w st qd G (fun _ => 0)]
    have e : ∀ u : WS α, calcPointVelocity m u st qd c.bodyP c.XP.r false
        = ((calcPointVelocity6D m u st qd c.bodyP c.XP.r false).1,
           (calcPointVelocity6D m u st qd c.bodyP c.XP.r false).2.v) := fun _ => rfl
    rw [e s, e w]
    dsimp only
    rw [rowsV_split, (hk.pv6 m st qd c.bodyP c.XP.r).1]
    exact ⟨(hk.pv6 m st qd c.bodyP c.XP.r).2, rfl⟩
  | loop =>
    rw [velocityError_loop c hc, velocityError_loop c hc m w st qd G (fun _ => 0)]
    dsimp only
    rw [rowsV_split]
    exact ⟨hk, rfl⟩

/-- `calcGamma` of one constraint: reads `X_base`, `v`, `a` -/
theorem gamma_stepF (c : Constr α) (m : ModelS α) (w s : WS α) (st : QS α) (qd : VecN α)
    (gam : VecN α) (hk : KEq w s) (r : Nat) :
    KEq w (c.gamma m s st qd gam).1 ∧
    (c.gamma m s st qd gam).2 r
      = if hasRow c r then (c.gamma m w st qd (fun _ => 0)).2 r else gam r := by
  cases hc : c.ctype with
  | contact =>
    rw [gamma_contact c hc, gamma_contact c hc m w st qd (fun _ => 0)]
    have e : ∀ u : WS α, calcPointAcceleration m u st qd zeroVec c.bodyP c.XP.r false
        = ((calcPointAcceleration6D m u st qd zeroVec c.bodyP c.XP.r false).1,
           (calcPointAcceleration6D m u st qd zeroVec c.bodyP c.XP.r false).2.v) := fun _ => rfl
    rw [e s, e w]
    dsimp only
    rw [rowsV_split, (hk.pa6 m st qd zeroVec c.bodyP c.XP.r).1]
    exact ⟨(hk.pa6 m st qd zeroVec c.bodyP c.XP.r).2, rfl⟩
  | loop =>
    rw [gamma_loop c hc, gamma_loop c hc m w st qd (fun _ => 0)]
    dsimp only
    rw [rowsV_split]
    -- the five reads, from `s` and from `w`
    have k0 : KEq w w := KEq.rfl' w
    obtain ⟨a1, b1⟩ := hk.loopFrame m st c.bodyP c.XP
    obtain ⟨a1', b1'⟩ := k0.loopFrame m st c.bodyP c.XP
    obtain ⟨a2, b2⟩ := b1.pv6 m st qd c.bodyP c.XP.r
    obtain ⟨a2', b2'⟩ := b1'.pv6 m st qd c.bodyP c.XP.r
    obtain ⟨a3, b3⟩ := b2.pv6 m st qd c.bodyS c.XS.r
    obtain ⟨a3', b3'⟩ := b2'.pv6 m st qd c.bodyS c.XS.r
    obtain ⟨a4, b4⟩ := b3.pa6 m st qd zeroVec c.bodyP c.XP.r
    obtain ⟨a4', b4'⟩ := b3'.pa6 m st qd zeroVec c.bodyP c.XP.r
    obtain ⟨a5, b5⟩ := b4.pa6 m st qd zeroVec c.bodyS c.XS.r
    obtain ⟨a5', _⟩ := b4'.pa6 m st qd zeroVec c.bodyS c.XS.r
    have eA : (gammaL c m s st qd).A = (gammaL c m w st qd).A := a1
    have evp : (gammaL c m s st qd).vp = (gammaL c m w st qd).vp := a2.trans a2'.symm
    have evs : (gammaL c m s st qd).vs = (gammaL c m w st qd).vs := a3.trans a3'.symm
    have eap : (gammaL c m s st qd).ap = (gammaL c m w st qd).ap := a4.trans a4'.symm
    have eas : (gammaL c m s st qd).as = (gammaL c m w st qd).as := a5.trans a5'.symm
    rw [eA, evp, evs, eap, eas]
    exact ⟨b5, rfl⟩

/-! ### the five reads of `calcGamma` of a loop constraint, resolved -/

theorem OrthAt.keq {m : ModelS α} {w s : WS α} {id : Nat} (h : OrthAt m w id) (hk : KEq w s) :
    OrthAt m s id := fun hf => by rw [hk.xb]; exact h hf

theorem gammaL_res (c : Constr α) (m : ModelS α) (w : WS α) (st : QS α) (qd : VecN α)
    (hP : IdF m c.bodyP) (hS : IdF m c.bodyS) (oP : OrthAt m w c.bodyP) (oS : OrthAt m w c.bodyS) :
    (gammaL c m w st qd).A = frameOf w (resId m c.bodyP) (resFrame m c.bodyP c.XP) ∧
    (gammaL c m w st qd).vp = vel6 w (resId m c.bodyP) (resPoint m c.bodyP c.XP.r) ∧
    (gammaL c m w st qd).vs = vel6 w (resId m c.bodyS) (resPoint m c.bodyS c.XS.r) ∧
    (gammaL c m w st qd).ap = acc6 w (resId m c.bodyP) (resPoint m c.bodyP c.XP.r) ∧
    (gammaL c m w st qd).as = acc6 w (resId m c.bodyS) (resPoint m c.bodyS c.XS.r) := by
  have k0 : KEq w w := KEq.rfl' w
  obtain ⟨_, b1⟩ := k0.loopFrame m st c.bodyP c.XP
  obtain ⟨a2, b2⟩ := b1.pv6 m st qd c.bodyP c.XP.r
  obtain ⟨a3, b3⟩ := b2.pv6 m st qd c.bodyS c.XS.r
  obtain ⟨a4, b4⟩ := b3.pa6 m st qd zeroVec c.bodyP c.XP.r
  obtain ⟨a5, _⟩ := b4.pa6 m st qd zeroVec c.bodyS c.XS.r
  refine ⟨?_, ?_, ?_, ?_, ?_⟩
  · show (loopFrame m w st c.bodyP c.XP false).2 = _
    rw [loopFrame_res m w st c.bodyP c.XP hP]
  · exact a2.trans (by rw [pointVelocity6D_res m w st qd c.bodyP c.XP.r hP oP])
  · exact a3.trans (by rw [pointVelocity6D_res m w st qd c.bodyS c.XS.r hS oS])
  · exact a4.trans (by rw [pointAcceleration6D_res m w st qd zeroVec c.bodyP c.XP.r hP oP])
  · exact a5.trans (by rw [pointAcceleration6D_res m w st qd zeroVec c.bodyS c.XS.r hS oS])

/-! ### resolving twice -/

theorem resId_idem {m : ModelS α} {id : Nat} (h : IdF m id) : resId m (resId m id) = resId m id :=
  resId_movable m _ h.par
theorem idF_resId {m : ModelS α} {id : Nat} (h : IdF m id) : IdF m (resId m id) :=
  IdF.of_notFixed h.par

end
end Rbdl.L09F
