import RbdlProofs.Lemmas.L18CMain
/-
  C18 at curve level, part 16: the C2 breakpoint conditions are preserved by `shift` and `scale`.
-/
set_option linter.unusedSectionVars false
namespace Rbdl.Geom
open Lean.Grind Std
/-- the one-sided data (value, first and second derivative) agree at every breakpoint: at interior
    knots (left section at u = 1, right section at u = 0) and at the two transitions to the linear
    extrapolation (value `y0`/`y1`, slope `dydx0`/`dydx1`, curvature 0) -/
def Curve.C2 {α : Type} [Field α] [Inhabited α] [LT α] [LE α] [DecidableLT α] [DecidableLE α]
    (c : Curve α) : Prop :=
  (∀ i, i + 1 < c.nseg → ∀ k, k ≤ 2 →
    c.derivAt (c.segX (i+1)).p0 i 1 k = c.derivAt (c.segX (i+1)).p0 (i+1) 0 k) ∧
  (c.derivAt c.x0 0 0 0 = c.y0 ∧ c.derivAt c.x0 0 0 1 = c.dydx0 ∧ c.derivAt c.x0 0 0 2 = 0) ∧
  (c.derivAt c.x1 (c.nseg - 1) 1 0 = c.y1 ∧ c.derivAt c.x1 (c.nseg - 1) 1 1 = c.dydx1 ∧
    c.derivAt c.x1 (c.nseg - 1) 1 2 = 0)
end Rbdl.Geom

namespace Rbdl.L18C
open Lean.Grind Std Rbdl.Geom Rbdl.L18

section curve
variable {α : Type} [Field α] [Inhabited α] [LE α] [LT α] [LawfulOrderLT α] [IsLinearOrder α]
  [OrderedRing α] [DecidableLT α] [DecidableLE α] [DecidableEq α]

/-- scale factor of the k-th derivative -/
def fac (sx sy : α) (k : Nat) : α := match k with | 0 => sy | 1 => sy / sx | _ => sy / (sx * sx)

theorem derivAt_zero (c : Curve α) (x u : α) (i : Nat) : c.derivAt x i u 0 = c.valueAt x i u := by
  simp [Curve.derivAt]

theorem derivAt_shift_le2 (c : Curve α) (h : c.WF) (dx dy x u : α) (i k : Nat) (hi : i < c.nseg) :
    (c.shift dx dy).derivAt (x + dx) i u k = c.derivAt x i u k + (if k = 0 then dy else 0) := by
  by_cases hk : k = 0
  · subst hk
    rw [derivAt_zero, derivAt_zero, valueAt_shift _ _ _ _ _ _ (fun _ => by rw [h.lenY]; exact hi)]; (try simp) <;> grind
  · rw [derivAt_shift _ _ _ _ _ _ _ (by omega) (fun _ => ⟨hi, by rw [h.lenY]; exact hi⟩)]; (try simp [hk]) <;> grind

theorem derivAt_pos_le2 (c : Curve α) (h : c.WF) (sx sy x u : α) (i k : Nat) (hs : 0 < sx) (hk : k ≤ 2)
    (h0 : 0 ≤ u) (h1 : u ≤ 1) (hi : i < c.nseg) :
    (c.scaleRaw sx sy).derivAt (x * sx) i u k = c.derivAt x i u k * fac sx sy k := by
  have hd := derivAt_scaleRaw_pos c sx sy x u i hs h0 h1 (fun _ => ⟨hi, by rw [h.lenY]; exact hi, h.incr i hi⟩)
  have : k = 0 ∨ k = 1 ∨ k = 2 := by omega
  rcases this with e | e | e <;> subst e
  · rw [derivAt_zero, derivAt_zero, valueAt_scaleRaw_pos _ _ _ _ _ _ hs (fun _ => by rw [h.lenY]; exact hi)]; rfl
  · exact hd.1
  · exact hd.2

theorem derivAt_neg_le2 (c : Curve α) (h : c.WF) (sx sy x u : α) (i k : Nat) (hs : sx < 0) (hk : k ≤ 2)
    (h0 : 0 ≤ u) (h1 : u ≤ 1) (hi : i < c.nseg) :
    (c.scaleRaw sx sy).mirror.derivAt (x * sx) (c.nseg - 1 - i) (1 - u) k = c.derivAt x i u k * fac sx sy k := by
  have hc := x0_lt_x1 c h
  have hd := derivAt_neg c sx sy x u i hs (by grind) h.lenY h0 h1 (fun _ => ⟨hi, h.incr i hi⟩)
  have : k = 0 ∨ k = 1 ∨ k = 2 := by omega
  rcases this with e | e | e <;> subst e
  · rw [derivAt_zero, derivAt_zero, valueAt_neg _ _ _ _ _ _ hs (by grind) h.lenY (fun _ => hi)]; rfl
  · exact hd.1
  · exact hd.2

/-- `shift` preserves the C2 breakpoint conditions -/
theorem C2_shift_raw (c : Curve α) (h : c.WF) (hc : c.C2) (dx dy : α) : (c.shift dx dy).C2 := by
  obtain ⟨a, ⟨l0, l1, l2⟩, ⟨r0, r1, r2⟩⟩ := hc
  have hp := h.pos
  have hn : c.nseg - 1 < c.nseg := by omega
  refine ⟨?_, ⟨?_, ?_, ?_⟩, ⟨?_, ?_, ?_⟩⟩
  · intro i hi k hk
    rw [nseg_shift] at hi
    rw [segX_shift _ _ _ _ hi]
    show (c.shift dx dy).derivAt ((c.segX (i+1)).p0 + dx) i 1 k = (c.shift dx dy).derivAt ((c.segX (i+1)).p0 + dx) (i+1) 0 k
    rw [derivAt_shift_le2 c h _ _ _ _ _ _ (by omega), derivAt_shift_le2 c h _ _ _ _ _ _ hi, a i hi k hk]
  · show (c.shift dx dy).derivAt (c.x0 + dx) 0 0 0 = c.y0 + dy
    rw [derivAt_shift_le2 c h _ _ _ _ _ _ hp, l0]; (try simp) <;> grind
  · show (c.shift dx dy).derivAt (c.x0 + dx) 0 0 1 = c.dydx0
    rw [derivAt_shift_le2 c h _ _ _ _ _ _ hp, l1]; (try simp) <;> grind
  · show (c.shift dx dy).derivAt (c.x0 + dx) 0 0 2 = 0
    rw [derivAt_shift_le2 c h _ _ _ _ _ _ hp, l2]; (try simp) <;> grind
  · show (c.shift dx dy).derivAt (c.x1 + dx) ((c.shift dx dy).nseg - 1) 1 0 = c.y1 + dy
    rw [nseg_shift, derivAt_shift_le2 c h _ _ _ _ _ _ hn, r0]; (try simp) <;> grind
  · show (c.shift dx dy).derivAt (c.x1 + dx) ((c.shift dx dy).nseg - 1) 1 1 = c.dydx1
    rw [nseg_shift, derivAt_shift_le2 c h _ _ _ _ _ _ hn, r1]; (try simp) <;> grind
  · show (c.shift dx dy).derivAt (c.x1 + dx) ((c.shift dx dy).nseg - 1) 1 2 = 0
    rw [nseg_shift, derivAt_shift_le2 c h _ _ _ _ _ _ hn, r2]; (try simp) <;> grind

/-- `scale` with a positive x factor preserves the C2 breakpoint conditions -/
theorem C2_scaleRaw_pos (c : Curve α) (h : c.WF) (hc : c.C2) (sx sy : α) (hs : 0 < sx) :
    (c.scaleRaw sx sy).C2 := by
  obtain ⟨a, ⟨l0, l1, l2⟩, ⟨r0, r1, r2⟩⟩ := hc
  have hp := h.pos
  have hn : c.nseg - 1 < c.nseg := by omega
  have z1 : (0:α) ≤ 1 := by grind
  have D := fun x u i k (hk : k ≤ 2) (h0 : 0 ≤ u) (h1 : u ≤ 1) (hi : i < c.nseg) =>
    derivAt_pos_le2 c h sx sy x u i k hs hk h0 h1 hi
  refine ⟨?_, ⟨?_, ?_, ?_⟩, ⟨?_, ?_, ?_⟩⟩
  · intro i hi k hk
    rw [nseg_scaleRaw] at hi
    rw [segX_scaleRaw _ _ _ _ hi]
    show (c.scaleRaw sx sy).derivAt ((c.segX (i+1)).p0 * sx) i 1 k = (c.scaleRaw sx sy).derivAt ((c.segX (i+1)).p0 * sx) (i+1) 0 k
    rw [D _ _ _ _ hk z1 (Std.le_refl _) (by omega), D _ _ _ _ hk (Std.le_refl _) z1 hi, a i hi k hk]
  · show (c.scaleRaw sx sy).derivAt (c.x0 * sx) 0 0 0 = c.y0 * sy
    rw [D _ _ _ _ (by omega) (Std.le_refl _) z1 hp, l0]; rfl
  · show (c.scaleRaw sx sy).derivAt (c.x0 * sx) 0 0 1 = c.dydx0 * (sy / sx)
    rw [D _ _ _ _ (by omega) (Std.le_refl _) z1 hp, l1]; rfl
  · show (c.scaleRaw sx sy).derivAt (c.x0 * sx) 0 0 2 = 0
    rw [D _ _ _ _ (by omega) (Std.le_refl _) z1 hp, l2]; grind
  · show (c.scaleRaw sx sy).derivAt (c.x1 * sx) ((c.scaleRaw sx sy).nseg - 1) 1 0 = c.y1 * sy
    rw [nseg_scaleRaw, D _ _ _ _ (by omega) z1 (Std.le_refl _) hn, r0]; rfl
  · show (c.scaleRaw sx sy).derivAt (c.x1 * sx) ((c.scaleRaw sx sy).nseg - 1) 1 1 = c.dydx1 * (sy / sx)
    rw [nseg_scaleRaw, D _ _ _ _ (by omega) z1 (Std.le_refl _) hn, r1]; rfl
  · show (c.scaleRaw sx sy).derivAt (c.x1 * sx) ((c.scaleRaw sx sy).nseg - 1) 1 2 = 0
    rw [nseg_scaleRaw, D _ _ _ _ (by omega) z1 (Std.le_refl _) hn, r2]; grind

/-- `scale` with a negative x factor (mirrored curve) preserves the C2 breakpoint conditions -/
theorem C2_mirror_scaleRaw_neg (c : Curve α) (h : c.WF) (hc : c.C2) (sx sy : α) (hs : sx < 0) :
    (c.scaleRaw sx sy).mirror.C2 := by
  obtain ⟨a, ⟨l0, l1, l2⟩, ⟨r0, r1, r2⟩⟩ := hc
  have hp := h.pos
  have hn : c.nseg - 1 < c.nseg := by omega
  have z1 : (0:α) ≤ 1 := by grind
  have e10 : (1:α) - 0 = 1 := by grind
  have e11 : (1:α) - 1 = 0 := by grind
  have hN : (c.scaleRaw sx sy).mirror.nseg = c.nseg := by rw [nseg_mirror, nseg_scaleRaw]
  have D := fun x u i k (hk : k ≤ 2) (h0 : 0 ≤ u) (h1 : u ≤ 1) (hi : i < c.nseg) =>
    derivAt_neg_le2 c h sx sy x u i k hs hk h0 h1 hi
  refine ⟨?_, ⟨?_, ?_, ?_⟩, ⟨?_, ?_, ?_⟩⟩
  · intro i hi k hk
    rw [hN] at hi
    rw [segX_neg _ _ _ _ hi]
    -- the knot between mirrored sections i and i+1 is the knot between the original sections
    -- j = nseg-2-i and j+1
    have ej : c.nseg - 1 - (i + 1) + 1 = c.nseg - 1 - i := by omega
    have hj := h.joinX (c.nseg - 1 - (i+1)) (by omega)
    rw [ej] at hj
    show (c.scaleRaw sx sy).mirror.derivAt ((c.segX (c.nseg - 1 - (i+1))).p5 * sx) i 1 k
       = (c.scaleRaw sx sy).mirror.derivAt ((c.segX (c.nseg - 1 - (i+1))).p5 * sx) (i+1) 0 k
    rw [hj]
    have d1 := D (c.segX (c.nseg - 1 - i)).p0 0 (c.nseg - 1 - i) k hk (Std.le_refl _) z1 (by omega)
    have d2 := D (c.segX (c.nseg - 1 - i)).p0 1 (c.nseg - 1 - (i+1)) k hk z1 (Std.le_refl _) (by omega)
    rw [e10, show c.nseg - 1 - (c.nseg - 1 - i) = i by omega] at d1
    rw [e11, show c.nseg - 1 - (c.nseg - 1 - (i+1)) = i + 1 by omega] at d2
    have := a (c.nseg - 1 - (i+1)) (by omega) k hk
    rw [ej] at this
    rw [d1, d2, this]
  · show (c.scaleRaw sx sy).mirror.derivAt (c.x1 * sx) 0 0 0 = c.y1 * sy
    have d := D c.x1 1 (c.nseg - 1) 0 (by omega) z1 (Std.le_refl _) hn
    rw [e11, show c.nseg - 1 - (c.nseg - 1) = 0 by omega] at d
    rw [d, r0]; rfl
  · show (c.scaleRaw sx sy).mirror.derivAt (c.x1 * sx) 0 0 1 = c.dydx1 * (sy / sx)
    have d := D c.x1 1 (c.nseg - 1) 1 (by omega) z1 (Std.le_refl _) hn
    rw [e11, show c.nseg - 1 - (c.nseg - 1) = 0 by omega] at d
    rw [d, r1]; rfl
  · show (c.scaleRaw sx sy).mirror.derivAt (c.x1 * sx) 0 0 2 = 0
    have d := D c.x1 1 (c.nseg - 1) 2 (by omega) z1 (Std.le_refl _) hn
    rw [e11, show c.nseg - 1 - (c.nseg - 1) = 0 by omega] at d
    rw [d, r2]; grind
  · show (c.scaleRaw sx sy).mirror.derivAt (c.x0 * sx) ((c.scaleRaw sx sy).mirror.nseg - 1) 1 0 = c.y0 * sy
    have d := D c.x0 0 0 0 (by omega) (Std.le_refl _) z1 hp
    rw [e10, Nat.sub_zero] at d
    rw [hN, d, l0]; rfl
  · show (c.scaleRaw sx sy).mirror.derivAt (c.x0 * sx) ((c.scaleRaw sx sy).mirror.nseg - 1) 1 1 = c.dydx0 * (sy / sx)
    have d := D c.x0 0 0 1 (by omega) (Std.le_refl _) z1 hp
    rw [e10, Nat.sub_zero] at d
    rw [hN, d, l1]; rfl
  · show (c.scaleRaw sx sy).mirror.derivAt (c.x0 * sx) ((c.scaleRaw sx sy).mirror.nseg - 1) 1 2 = 0
    have d := D c.x0 0 0 2 (by omega) (Std.le_refl _) z1 hp
    rw [e10, Nat.sub_zero] at d
    rw [hN, d, l2]; grind
end curve
end Rbdl.L18C
