import RbdlProofs.Lemmas.L13CSTree
import RbdlProofs.Lemmas.L13CSG
/-
  C13 for the constraint-set routines, part 7: the flag pair of `calcConstraintsVelocityError` under
  tree order alone.
  * `T4 s i` — the per-body entries `jcalc` rewrites from their old values (`X_lambda`, `S`,
    `multdof3_S`, `v_J`); both kinematics loops act on them pointwise (`phi`), and `phi` absorbs
    (`phi_absorb`: running `jcalc` after `jcalc` is running the later one);
  * `VEq a b` — the same `X_base` and the same `v[j]`, `j ≠ 0`: what `CalcPointVelocity` reads after
    clearing `v[0]`;
  * `U_P`, `U_U`: `UpdateKinematicsCustom(Q, QDot)` after a position update, or after itself, leaves
    `VEq`-equal workspaces.
-/
namespace Rbdl.L13CS
open Lean.Grind Rbdl Rbdl.Loops Rbdl.L12 Rbdl.L13 Rbdl.L09
set_option linter.unusedSimpArgs false
set_option linter.unusedVariables false
set_option linter.unusedSectionVars false
set_option linter.constructorNameAsVariable false

section
variable {α : Type} [Field α]

/-! ## per-body entries -/

/-- `X_lambda[i]`, `S[i]`, `multdof3_S[i]`, `v_J[i]` -/
def T4 (s : WS α) (i : Nat) : XT α × SV α × M63 α × SV α := (s.X_lambda i, s.S i, s.S3 i, s.v_J i)

/-- what `jcalc (…, q, q̇)` makes of them -/
def phi (m : ModelS α) (st : QS α) (q : VecN α) (i : Nat) (t : XT α × SV α × M63 α × SV α) :
    XT α × SV α × M63 α × SV α :=
  (jcalcX m i st t.1, jcalcS m i st t.2.1, jcalcS3 m i st t.2.2.1,
    jcalcVJ m i st q t.2.1 t.2.2.2 t.2.2.1)

theorem T4_jcalc (m : ModelS α) (s : WS α) (i : Nat) (st : QS α) (q : VecN α) :
    T4 (jcalc m s i st q) = upd (T4 s) i (phi m st q i (T4 s i)) := by
  rw [jcalc_eq]
  funext j
  unfold T4 phi
  dsimp only
  by_cases e : j = i
  · subst e; simp only [upd_same]
  · simp only [upd_other _ _ _ _ e]

theorem T4_ukcBody (m : ModelS α) (st : QS α) (i : Nat) (s : WS α) :
    T4 (ukcBody m st i s) = upd (T4 s) i (phi m st zeroVec i (T4 s i)) := by
  rw [ukcBody_jcalc_field (fun s => T4 s) (fun _ _ => rfl), T4_jcalc]

theorem T4_ukcVelBody (m : ModelS α) (st : QS α) (qd : VecN α) (i : Nat) (s : WS α) :
    T4 (ukcVelBody m st qd i s) = upd (T4 s) i (phi m st qd i (T4 s i)) := by
  rw [ukcVelBody_jcalc_field (fun s => T4 s) (fun _ _ => rfl) (fun _ _ => rfl), T4_jcalc]

/-- a loop whose iteration `i` rewrites entry `i` of a per-body field from its old value -/
theorem field_map {β : Type} (F : WS α → Nat → β) (φ : Nat → β → β) (B : Nat → WS α → WS α)
    (hB : ∀ i s, F (B i s) = upd (F s) i (φ i (F s i))) (n lo : Nat) (s : WS α) (i : Nat)
    (h1 : lo ≤ i) (h2 : i < lo + n) : F (forUp n lo B s) i = φ i (F s i) := by
  have hother : ∀ i s j, j ≠ i → F (B i s) j = F s j := by
    intro i s j hj; rw [hB, upd_other _ _ _ _ hj]
  rw [forUp_get_inside F B hother _ _ _ i h1 h2, hB, upd_same,
    forUp_get_outside F B hother _ _ _ i (by omega)]

theorem field_out {β : Type} (F : WS α → Nat → β) (φ : Nat → β → β) (B : Nat → WS α → WS α)
    (hB : ∀ i s, F (B i s) = upd (F s) i (φ i (F s i))) (n lo : Nat) (s : WS α) (j : Nat)
    (hj : j < lo ∨ lo + n ≤ j) : F (forUp n lo B s) j = F s j :=
  forUp_get_outside F B (fun i s j hj => by rw [hB, upd_other _ _ _ _ hj]) _ _ _ j hj

theorem jcalcVJ_absorb (m : ModelS α) (i : Nat) (st : QS α) (a b : VecN α) (S vJ : SV α)
    (S3 : M63 α) :
    jcalcVJ m i st a (jcalcS m i st S) (jcalcVJ m i st b S vJ S3) (jcalcS3 m i st S3)
      = jcalcVJ m i st a S vJ S3 := by
  unfold jcalcVJ jcalcS jcalcS3
  dsimp only
  cases (m.joint i).jt <;> rfl

/-- **absorption**: `jcalc` after `jcalc` (any velocities) acts as the later one -/
theorem phi_absorb (m : ModelS α) (st : QS α) (a b : VecN α) (i : Nat)
    (t : XT α × SV α × M63 α × SV α) : phi m st a i (phi m st b i t) = phi m st a i t := by
  unfold phi
  dsimp only
  rw [jcalcX_idem, jcalcS_idem, jcalcS3_idem, jcalcVJ_absorb]

/-! ## `VEq` -/

/-- the same `X_base`, and the same `v[j]` for `j ≠ 0` -/
def VEq (a b : WS α) : Prop := a.X_base = b.X_base ∧ ∀ j, j ≠ 0 → a.v j = b.v j

theorem VEq.rfl' (a : WS α) : VEq a a := ⟨rfl, fun _ _ => rfl⟩
theorem VEq.symm {a b : WS α} (h : VEq a b) : VEq b a := ⟨h.1.symm, fun j hj => (h.2 j hj).symm⟩
theorem VEq.trans {a b c : WS α} (h : VEq a b) (h' : VEq b c) : VEq a c :=
  ⟨h.1.trans h'.1, fun j hj => (h.2 j hj).trans (h'.2 j hj)⟩

theorem veq_of_junk {m : ModelS α} {a b : WS α} (h : Junk m a b) : VEq a b := by
  refine ⟨?_, fun j hj => ?_⟩
  · funext j
    have := h.2 .X_base j (fun hh => by rcases hh.1 with e | e <;> cases e)
    simp only [view] at this
    exact Option.some.inj this
  · have := h.2 .v j (fun hh => hj hh.2)
    simp only [view] at this
    exact Option.some.inj this

/-- `CalcPointVelocity6D` after clearing `v[0]` reads nothing else -/
theorem VEq.pvOut {a b : WS α} (h : VEq a b) (m : ModelS α) (id : Nat) (p : V3 α) :
    pvOut m (L13.zV a) id p = pvOut m (L13.zV b) id p := by
  have hv : (L13.zV a).v = (L13.zV b).v := by
    funext j
    unfold L13.zV
    dsimp only
    by_cases e : j = 0
    · subst e; rw [upd_same, upd_same]
    · rw [upd_other _ _ _ _ e, upd_other _ _ _ _ e, h.2 j e]
  have hx : (L13.zV a).X_base = (L13.zV b).X_base := h.1
  have hr : refPoint m (L13.zV a) id p = refPoint m (L13.zV b) id p := by
    unfold refPoint bodyToBase0 baseToBody0
    rw [hx]
  have hw : ∀ r, (worldOrientation0 m (L13.zV a) r).2 = (worldOrientation0 m (L13.zV b) r).2 ∧
      (worldOrientation0 m (L13.zV a) r).1.v = (worldOrientation0 m (L13.zV b) r).1.v := by
    intro r
    unfold worldOrientation0
    split
    · exact ⟨by dsimp only; rw [hx], hv⟩
    · exact ⟨by dsimp only; rw [hx], hv⟩
  unfold L13.pvOut
  dsimp only
  rw [hr, (hw _).1, (hw _).2]

/-! ## the velocity loop from two workspaces with absorbed-equal per-body entries -/

theorem ukcVelBody_v (m : ModelS α) (st : QS α) (qd : VecN α) (i : Nat) (s : WS α) :
    (ukcVelBody m st qd i s).v = upd s.v i
      (if m.lam i ≠ 0 then
        ((phi m st qd i (T4 s i)).1).apply (s.v (m.lam i)) + (phi m st qd i (T4 s i)).2.2.2
       else (phi m st qd i (T4 s i)).2.2.2) := by
  have e : T4 (jcalc m s i st qd) i = phi m st qd i (T4 s i) := by rw [T4_jcalc, upd_same]
  have e1 : (jcalc m s i st qd).X_lambda i = (phi m st qd i (T4 s i)).1 := congrArg (·.1) e
  have e2 : (jcalc m s i st qd).v_J i = (phi m st qd i (T4 s i)).2.2.2 := congrArg (·.2.2.2) e
  have ev : (jcalc m s i st qd).v = s.v := by rw [jcalc_eq]
  rw [ukcVelBody_steps]
  unfold stC
  dsimp only
  split
  · unfold stV; dsimp only; rw [e1, e2, ev]
  · unfold stV0; dsimp only; rw [e2, ev]

theorem vel_sim (m : ModelS α) (htree : TreeOrder m) (st : QS α) (qd : VecN α) (a b : WS α)
    (hT : ∀ j, 1 ≤ j → j < m.nBodies → phi m st qd j (T4 a j) = phi m st qd j (T4 b j))
    (hv : ∀ j, m.nBodies ≤ j → a.v j = b.v j) :
    ∀ j, j ≠ 0 → (forUp (m.nBodies - 1) 1 (ukcVelBody m st qd) a).v j
      = (forUp (m.nBodies - 1) 1 (ukcVelBody m st qd) b).v j := by
  have key := forUp_simI
    (fun k (s t : WS α) =>
      (∀ j, (1 ≤ j ∧ j < k) ∨ m.nBodies ≤ j → s.v j = t.v j) ∧
      (∀ j, k ≤ j → j < m.nBodies → phi m st qd j (T4 s j) = phi m st qd j (T4 t j)))
    (ukcVelBody m st qd) (ukcVelBody m st qd) (m.nBodies - 1) 1
    (fun k s t h1 h2 ⟨hvk, hTk⟩ => by
      have hk : k < m.nBodies := by omega
      have hl := htree k h1 hk
      have eT := hTk k (Nat.le_refl _) hk
      refine ⟨fun j hj => ?_, fun j hj1 hj2 => ?_⟩
      · rw [ukcVelBody_v, ukcVelBody_v, eT]
        by_cases e : j = k
        · subst e
          rw [upd_same, upd_same]
          by_cases hl0 : m.lam j ≠ 0
          · rw [if_pos hl0, if_pos hl0, hvk (m.lam j) (Or.inl ⟨by omega, hl⟩)]
          · rw [if_neg hl0, if_neg hl0]
        · rw [upd_other _ _ _ _ e, upd_other _ _ _ _ e]
          exact hvk j (by
            rcases hj with ⟨hj1, hj2⟩ | hj
            · exact Or.inl ⟨hj1, by omega⟩
            · exact Or.inr hj)
      · have e : j ≠ k := by omega
        rw [T4_ukcVelBody, T4_ukcVelBody, upd_other _ _ _ _ e, upd_other _ _ _ _ e]
        exact hTk j (by omega) hj2) a b
    ⟨fun j hj => by
      rcases hj with ⟨h1, h2⟩ | hj
      · omega
      · exact hv j hj, fun j h1 h2 => hT j h1 h2⟩
  intro j hj
  by_cases hjn : j < m.nBodies
  · exact key.1 j (Or.inl ⟨by omega, by omega⟩)
  · exact key.1 j (Or.inr (by omega))

/-- the position loop does not touch `v` -/
theorem updQ_v (m : ModelS α) (st : QS α) (x : WS α) : (updQ m x st true).v = x.v := by
  show (updateKinematicsCustom m x (some st) none none).v = x.v
  rw [ukc_eq_forUp]
  exact forUp_keep (fun s => s.v) (ukcBody m st) _ _
    (fun i s _ _ => by
      show (ukcBody m st i s).v = s.v
      rw [ukcBody_jcalc_field (fun s => s.v) (fun _ _ => rfl), jcalc_eq]) x

theorem vel_v_out (m : ModelS α) (st : QS α) (qd : VecN α) (y : WS α) (j : Nat)
    (hj : m.nBodies ≤ j) : (forUp (m.nBodies - 1) 1 (ukcVelBody m st qd) y).v j = y.v j :=
  forUp_get_outside (fun s => s.v) (ukcVelBody m st qd)
    (fun i s j hj => by
      show (ukcVelBody m st qd i s).v j = s.v j
      rw [ukcVelBody_v, upd_other _ _ _ _ hj]) _ _ _ j (by omega)

theorem vel_X_base (m : ModelS α) (st : QS α) (qd : VecN α) (y : WS α) :
    (forUp (m.nBodies - 1) 1 (ukcVelBody m st qd) y).X_base = y.X_base :=
  forUp_keep (fun s => s.X_base) (ukcVelBody m st qd) _ _
    (fun i s _ _ => ukcVelBody_X_base m st qd i s) y

theorem T4_P (m : ModelS α) (st : QS α) (x : WS α) (j : Nat) (h1 : 1 ≤ j) (h2 : j < m.nBodies) :
    T4 (updQ m x st true) j = phi m st zeroVec j (T4 x j) := by
  show T4 (updateKinematicsCustom m x (some st) none none) j = _
  rw [ukc_eq_forUp]
  exact field_map (fun s => T4 s) (phi m st zeroVec) (ukcBody m st) (T4_ukcBody m st) _ _ x j h1
    (by omega)

theorem T4_V (m : ModelS α) (st : QS α) (qd : VecN α) (y : WS α) (j : Nat) (h1 : 1 ≤ j)
    (h2 : j < m.nBodies) :
    T4 (forUp (m.nBodies - 1) 1 (ukcVelBody m st qd) y) j = phi m st qd j (T4 y j) :=
  field_map (fun s => T4 s) (phi m st qd) (ukcVelBody m st qd) (T4_ukcVelBody m st qd) _ _ y j h1
    (by omega)

/-- `UpdateKinematicsCustom(Q, QDot)` as the velocity loop after the position update -/
theorem U_eq (m : ModelS α) (st : QS α) (qd : VecN α) (x : WS α) :
    updateKinematicsCustom m x (some st) (some qd) none
      = forUp (m.nBodies - 1) 1 (ukcVelBody m st qd) (updQ m x st true) := by
  rw [ukc_full_eq]; rfl

/-- **after a position update, `UpdateKinematicsCustom(Q, QDot)` gives the same `X_base`, `v`** -/
theorem U_P (m : ModelS α) (htree : TreeOrder m) (st : QS α) (qd : VecN α) (x : WS α) :
    VEq (updateKinematicsCustom m (updQ m x st true) (some st) (some qd) none)
      (updateKinematicsCustom m x (some st) (some qd) none) := by
  rw [U_eq, U_eq]
  refine ⟨?_, vel_sim m htree st qd _ _ (fun j h1 h2 => ?_) (fun j hj => ?_)⟩
  · rw [vel_X_base, vel_X_base]
    exact (updQ_fix m htree st x).xb
  · rw [T4_P m st _ j h1 h2, T4_P m st x j h1 h2, phi_absorb, phi_absorb]
  · rw [updQ_v, updQ_v]

/-- **`UpdateKinematicsCustom(Q, QDot)` twice gives the same `X_base`, `v` as once** -/
theorem U_U (m : ModelS α) (htree : TreeOrder m) (st : QS α) (qd : VecN α) (x : WS α) :
    VEq (updateKinematicsCustom m (updateKinematicsCustom m x (some st) (some qd) none) (some st)
        (some qd) none) (updateKinematicsCustom m x (some st) (some qd) none) := by
  have hk : KEq5 (updateKinematicsCustom m x (some st) (some qd) none) (updQ m x st true) := by
    obtain ⟨hb, hl, hS, hS3, hcS⟩ := ukcqv_fields m x st qd
    exact ⟨hb, hl, hS, hS3, hcS⟩
  have hk2 : KEq5 (updQ m (updateKinematicsCustom m x (some st) (some qd) none) st true)
      (updQ m x st true) := (hk.congrQ m st true).trans (updQ_fix m htree st x)
  rw [U_eq m st qd (updateKinematicsCustom m x (some st) (some qd) none)]
  rw [U_eq m st qd x] at hk2 ⊢
  refine ⟨?_, vel_sim m htree st qd _ _ (fun j h1 h2 => ?_) (fun j hj => ?_)⟩
  · rw [vel_X_base, vel_X_base]
    exact hk2.xb
  · rw [T4_P m st _ j h1 h2, T4_V m st qd _ j h1 h2, T4_P m st x j h1 h2, phi_absorb, phi_absorb,
      phi_absorb]
  · rw [updQ_v, vel_v_out m st qd _ j hj]

/-! ## writes of `mBaseTransform` commute with the updates -/

/-- `mBaseTransform := fb` -/
def setFb (fb : Nat → XT α) (w : WS α) : WS α := { w with fbBase := fb }

theorem jcalc_setFb (m : ModelS α) (fb : Nat → XT α) (w : WS α) (i : Nat) (st : QS α) (qd : VecN α) :
    jcalc m (setFb fb w) i st qd = setFb fb (jcalc m w i st qd) := by
  rw [jcalc_eq, jcalc_eq]; rfl

theorem ukcBody_setFb (m : ModelS α) (st : QS α) (fb : Nat → XT α) (i : Nat) (w : WS α) :
    ukcBody m st i (setFb fb w) = setFb fb (ukcBody m st i w) := by
  rw [ukcBody_steps, ukcBody_steps, jcalc_setFb]
  split <;> rfl

theorem ukcVelBody_setFb (m : ModelS α) (st : QS α) (qd : VecN α) (fb : Nat → XT α) (i : Nat)
    (w : WS α) : ukcVelBody m st qd i (setFb fb w) = setFb fb (ukcVelBody m st qd i w) := by
  rw [ukcVelBody_steps, ukcVelBody_steps, jcalc_setFb]
  split <;> rfl

theorem updQ_setFb (m : ModelS α) (st : QS α) (fb : Nat → XT α) (w : WS α) :
    updQ m (setFb fb w) st true = setFb fb (updQ m w st true) := by
  show updateKinematicsCustom m (setFb fb w) (some st) none none
    = setFb fb (updateKinematicsCustom m w (some st) none none)
  rw [ukc_eq_forUp, ukc_eq_forUp]
  exact forUp_comm (setFb fb) (ukcBody m st) _ _ (fun i s _ _ => ukcBody_setFb m st fb i s) w

theorem U_setFb (m : ModelS α) (st : QS α) (qd : VecN α) (fb : Nat → XT α) (w : WS α) :
    updateKinematicsCustom m (setFb fb w) (some st) (some qd) none
      = setFb fb (updateKinematicsCustom m w (some st) (some qd) none) := by
  rw [U_eq, U_eq, updQ_setFb]
  exact forUp_comm (setFb fb) (ukcVelBody m st qd) _ _
    (fun i s _ _ => ukcVelBody_setFb m st qd fb i s) _

theorem wo_setFb (m : ModelS α) (w : WS α) (id : Nat) :
    ∃ fb, (worldOrientation0 m w id).1 = setFb fb w := by
  unfold worldOrientation0
  split
  · exact ⟨_, rfl⟩
  · exact ⟨w.fbBase, rfl⟩

theorem veq_setFb (fb : Nat → XT α) (w : WS α) : VEq (setFb fb w) w := ⟨rfl, fun _ _ => rfl⟩

/-! ## the invariant of the run with the flag set -/

/-- `s` is a state of the run with the flag set that started from `w`: a further
    `UpdateKinematicsCustom(Q, QDot)` gives the `X_base`, `v` of the one from `w` -/
def TInv (m : ModelS α) (st : QS α) (qd : VecN α) (w s : WS α) : Prop :=
  VEq (updateKinematicsCustom m s (some st) (some qd) none)
    (updateKinematicsCustom m w (some st) (some qd) none)

theorem TInv.updQ' {m : ModelS α} {st : QS α} {qd : VecN α} {w s : WS α} (htree : TreeOrder m)
    (h : TInv m st qd w s) (u : Bool) : TInv m st qd w (Rbdl.updQ m s st u) := by
  cases u
  · exact h
  · exact (U_P m htree st qd s).trans h

theorem TInv.wo {m : ModelS α} {st : QS α} {qd : VecN α} {w s : WS α}
    (h : TInv m st qd w s) (id : Nat) : TInv m st qd w (worldOrientation0 m s id).1 := by
  obtain ⟨fb, e⟩ := wo_setFb m s id
  unfold TInv
  rw [e, U_setFb]
  exact (veq_setFb fb _).trans h

theorem TInv.loopFrame {m : ModelS α} {st : QS α} {qd : VecN α} {w s : WS α}
    (htree : TreeOrder m) (h : TInv m st qd w s) (b : Nat) (Xf : XT α) (u : Bool) :
    TInv m st qd w (loopFrame m s st b Xf u).1 := by
  rw [loopFrame_pair]
  exact ((h.updQ' htree u).updQ' htree u).wo b

theorem TInv.jacobian {m : ModelS α} {st : QS α} {qd : VecN α} {w s : WS α}
    (htree : TreeOrder m) (h : TInv m st qd w s) (c : Constr α) (G : MatN α) (u : Bool) :
    TInv m st qd w (c.jacobian m s st G u).1 := by
  cases hc : c.ctype with
  | contact => rw [jacobian_contact c hc]; exact h.updQ' htree u
  | loop =>
    rw [jacobian_loop c hc]
    exact ((h.updQ' htree u).updQ' htree u).loopFrame htree c.bodyP c.XP u

/-- the velocity step with the flag set -/
theorem TInv.pv6 {m : ModelS α} {st : QS α} {qd : VecN α} {w s : WS α}
    (htree : TreeOrder m) (h : TInv m st qd w s) (id : Nat) (p : V3 α) :
    TInv m st qd w (calcPointVelocity6D m s st qd id p true).1 := by
  rw [pv6_pair, Vst_true, ukc_qv_zV]
  obtain ⟨fb, e⟩ := wo_setFb m (L13.zV (updateKinematicsCustom m s (some st) (some qd) none))
    (refPoint m (L13.zV (updateKinematicsCustom m s (some st) (some qd) none)) id p).1
  unfold TInv
  rw [e, U_setFb, ukc_qv_zV]
  refine (veq_setFb fb _).trans ?_
  have hz : VEq (L13.zV (updateKinematicsCustom m (updateKinematicsCustom m s (some st) (some qd) none)
      (some st) (some qd) none))
      (updateKinematicsCustom m (updateKinematicsCustom m s (some st) (some qd) none)
      (some st) (some qd) none) := veq_of_junk (junk_v0 m _ SV.zero)
  exact hz.trans ((U_U m htree st qd s).trans h)

theorem TInv.velocityError {m : ModelS α} {st : QS α} {qd : VecN α} {w s : WS α}
    (htree : TreeOrder m) (h : TInv m st qd w s) (c : Constr α) (G : MatN α) (errd : VecN α) :
    TInv m st qd w (c.velocityError m s st qd G errd true).1 := by
  cases hc : c.ctype with
  | contact => rw [velocityError_contact c hc]; exact h.pv6 htree c.bodyP c.XP.r
  | loop => rw [velocityError_loop c hc]; exact h

/-! ## the set-level pair -/

/-- the Jacobian with the flag cleared from any workspace that holds the position-level fields of the
    update -/
theorem cj_flag_tree_gen (m : ModelS α) (htree : TreeOrder m) (w W : WS α) (st : QS α)
    (hW : KEq5 W (updQ m w st true)) (C : CSet α) (G : MatN α) :
    (calcConstraintsJacobian m W st C G false).2 = (calcConstraintsJacobian m w st C G true).2 := by
  unfold calcConstraintsJacobian
  exact foldl_k (updQ m w st true) _ _ C.cs
    (fun a b c ha hb hab => by
      have := jacobian_k m htree st w (u := false) (u' := true) ha (hb.upd htree true) c a.2
      rw [← hab]
      exact this)
    (updQ m W st false, G) (updQ m w st true, G) hW (KEq5.rfl' _) rfl

/-- **`CalcConstraintsVelocityError`: flag cleared after `UpdateKinematicsCustom(Q, QDot)` = flag set**
    (tree order only): both outputs, the matrix `G` and the vector `errd` -/
theorem cv_flag_tree [DecidableEq α] (m : ModelS α) (htree : TreeOrder m) (w : WS α) (st : QS α) (qd : VecN α)
    (C : CSet α) (G : MatN α) (errd : VecN α) :
    (calcConstraintsVelocityError m (updateKinematicsCustom m w (some st) (some qd) none) st qd C G
        errd false).2 = (calcConstraintsVelocityError m w st qd C G errd true).2 := by
  have hk : KEq5 (updateKinematicsCustom m w (some st) (some qd) none) (updQ m w st true) := by
    obtain ⟨hb, hl, hS, hS3, hcS⟩ := ukcqv_fields m w st qd
    exact ⟨hb, hl, hS, hS3, hcS⟩
  have eG := cj_flag_tree_gen m htree w _ st hk C G
  -- the workspaces after the Jacobian phase
  have hF : VEq (calcConstraintsJacobian m (updateKinematicsCustom m w (some st) (some qd) none) st C G
      false).1 (updateKinematicsCustom m w (some st) (some qd) none) :=
    veq_of_junk (cj_false_junk m _ st C G)
  have hT : TInv m st qd w (calcConstraintsJacobian m w st C G true).1 := by
    unfold calcConstraintsJacobian
    exact foldl_fst_inv (fun s : WS α × MatN α => TInv m st qd w s.1) _ _
      (fun s c _ hs => hs.jacobian htree c s.2 true) (updQ m w st true, G)
      (U_P m htree st qd w)
  rw [velocityError_pair, velocityError_pair]
  dsimp only
  rw [eG]
  have key := foldl_sim
    (fun (a b : WS α × VecN α) =>
      VEq a.1 (updateKinematicsCustom m w (some st) (some qd) none) ∧ TInv m st qd w b.1 ∧ a.2 = b.2)
    (fun (s : WS α × VecN α) c =>
      c.velocityError m s.1 st qd (calcConstraintsJacobian m w st C G true).2 s.2 false)
    (fun (s : WS α × VecN α) c =>
      c.velocityError m s.1 st qd (calcConstraintsJacobian m w st C G true).2 s.2 true) C.cs
    (fun a b c _ ⟨ha, hb, hab⟩ => by
      refine ⟨(veq_of_junk (velocityError_false_junk c m a.1 st qd _ a.2)).trans ha,
        hb.velocityError htree c _ b.2, ?_⟩
      cases hc : c.ctype with
      | contact =>
        rw [velocityError_contact c hc, velocityError_contact c hc]
        dsimp only
        have e : (calcPointVelocity m a.1 st qd c.bodyP c.XP.r false).2
            = (calcPointVelocity m b.1 st qd c.bodyP c.XP.r true).2 := by
          show (calcPointVelocity6D m a.1 st qd c.bodyP c.XP.r false).2.v
            = (calcPointVelocity6D m b.1 st qd c.bodyP c.XP.r true).2.v
          rw [pv6_pair, pv6_pair, Vst_false, Vst_true, ukc_qv_zV]
          dsimp only
          rw [(ha.trans hb.symm).pvOut m c.bodyP c.XP.r]
        rw [e, hab]
      | loop =>
        rw [velocityError_loop c hc, velocityError_loop c hc, hab])
    ((calcConstraintsJacobian m (updateKinematicsCustom m w (some st) (some qd) none) st C G false).1,
      errd)
    ((calcConstraintsJacobian m w st C G true).1, errd) ⟨hF, hT, rfl⟩
  rw [key.2.2]

/-- the per-constraint pair needs no hypothesis: a contact row is `CalcPointVelocity`, whose pair holds
    by commuting the update with the clearing of `v[0]`; a loop row reads `G` only -/
theorem velocityError_flag (c : Constr α) (m : ModelS α) (w : WS α) (st : QS α) (qd : VecN α)
    (G : MatN α) (errd : VecN α) :
    (c.velocityError m (updateKinematicsCustom m w (some st) (some qd) none) st qd G errd false).2
      = (c.velocityError m w st qd G errd true).2 := by
  cases hc : c.ctype with
  | contact =>
    rw [velocityError_contact c hc, velocityError_contact c hc]
    dsimp only
    have e : (calcPointVelocity m (updateKinematicsCustom m w (some st) (some qd) none) st qd c.bodyP
        c.XP.r false).2 = (calcPointVelocity m w st qd c.bodyP c.XP.r true).2 :=
      congrArg SV.v (flag_pointVelocity6D m w st qd c.bodyP c.XP.r)
    rw [e]
  | loop => rw [velocityError_loop c hc, velocityError_loop c hc]

end
end Rbdl.L13CS
