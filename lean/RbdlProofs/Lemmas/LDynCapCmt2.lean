import RbdlProofs.Lemmas.LDynCapCmt
import RbdlProofs.Lemmas.LDynCapKE
import RbdlProofs.Props.C02
import RbdlProofs.Props.C01
/-
  Capstone for `CalcMInvTimesTau`, main statement: `Σ_c H(r, c) x_c = τ_r` for the returned `x`.
-/
namespace Rbdl.LDynCap
open Lean.Grind Rbdl Rbdl.Spec Rbdl.L06 Rbdl.L01 Rbdl.Loops Rbdl.L01Cap Rbdl.L05 Rbdl.L02
set_option linter.unusedSimpArgs false
set_option linter.unusedVariables false
set_option linter.unusedSectionVars false

section
variable {α : Type} [Field α] [DecidableEq α]

/-- the workspace `calcMInvTimesTau` returns has the transforms and columns of `crba` -/
theorem cmt_eq_crba_fields {m : ModelS α} (hm : ModelOK m) (huo : L13.UOrderPerm m) (w : WS α)
    (st : QS α) (tau q0 : VecN α) (H : MatN α)
    (har : ∀ i, 1 ≤ i → i < m.nBodies → m.arity i = .one ∨ m.arity i = .three)
    (i : Nat) (i1 : 1 ≤ i) (i2 : i < m.nBodies) :
    (calcMInvTimesTau m w st tau q0 true).1.X_lambda i = (crba m w st H true).1.X_lambda i ∧
    (calcMInvTimesTau m w st tau q0 true).1.Scols m i = (crba m w st H true).1.Scols m i := by
  obtain ⟨a1, a2, a3⟩ := cmt_fields huo w st tau q0 i i1 i2
  obtain ⟨b1, b2, b3, _⟩ := crba_fields hm.cinj w st H i i1 i2
  refine ⟨by rw [a1, b1], L05.Scols_congr m _ _ i (by rw [a2, b2]) (by rw [a3, b3]) ?_⟩
  intro hc
  exfalso
  have := (arity_custom_iff m i).2 hc
  rcases har i i1 i2 with e | e <;> rw [e] at this <;> cases this

/-- **`H · CalcMInvTimesTau(τ) = τ`** with the matrix of `CompositeRigidBodyAlgorithm` -/
theorem cmt_solves {m : ModelS α} (hm : ModelOK m) (huo : L13.UOrderPerm m) (w : WS α)
    (hw : WSFixed m w) (st : QS α) (hst : StateOK m st) (tau q0 : VecN α)
    (har : ∀ i, 1 ≤ i → i < m.nBodies → m.arity i = .one ∨ m.arity i = .three)
    (hpiv : ∀ i, 1 ≤ i → i < m.nBodies → pivotOk m (calcMInvTimesTau m w st tau q0 true).1 i)
    (r : Nat) (hr : r < m.dofCount) :
    sumTo m.dofCount (fun c => (crba m w st (fun _ _ => 0) true).2 r c
      * (calcMInvTimesTau m w st tau q0 true).2 c) = tau r := by
  have htree := hm.wf.lam_lt
  obtain ⟨⟨ha0, harec⟩, htau⟩ := C02.cmt_inverts_rnea m hm.wf w st tau q0 tau har hpiv
  obtain ⟨R, hR⟩ : ∃ R, R = calcMInvTimesTau m w st tau q0 true := ⟨_, rfl⟩
  rw [← hR] at ha0 harec htau ⊢
  have hfld : ∀ i, 1 ≤ i → i < m.nBodies →
      R.1.X_lambda i = (crba m w st (fun _ _ => 0) true).1.X_lambda i ∧
      R.1.Scols m i = (crba m w st (fun _ _ => 0) true).1.Scols m i := by
    intro i i1 i2; rw [hR]; exact cmt_eq_crba_fields hm huo w st tau q0 _ har i i1 i2
  -- the accelerations are the combination of the partial velocities
  have hY := crba_lin hm w hw st (fun _ _ => 0) R.1.a R.2 ha0 (fun i i1 i2 => by
    rw [harec i i1 i2, L09.Sqdd_eq_wsum, (hfld i i1 i2).1, (hfld i i1 i2).2])
  -- d'Alembert for the backward pass on the forces `I a`
  obtain ⟨W', hW'⟩ : ∃ W' : WS α, W' = { R.1 with f := fun j => (m.rbi j).toMatrix * R.1.a j } :=
    ⟨_, rfl⟩
  have hSc' : ∀ i, W'.Scols m i = R.1.Scols m i := by intro i; rw [hW']; rfl
  have hlen' : ∀ i, 1 ≤ i → i < m.nBodies → (W'.Scols m i).length = (m.joint i).dof := by
    intro i i1 i2
    rw [hSc', (hfld i i1 i2).2]
    exact crba_scols_len hm w hw st _ i i1 i2
  have hdisj := owns_disjoint_of_WF m W' hm.wf hlen'
  obtain ⟨i, i1, i2, hoi⟩ := owns_cover_of_WF m W' hm.wf hlen' r hr
  have hoc : owns m (crba m w st (fun _ _ => 0) true).1 i r := by
    unfold owns at hoi ⊢
    rw [hSc', (hfld i i1 i2).2] at hoi
    exact hoi
  rw [← htau r hr, ← hW', C01.rnea_dalembert m htree W' tau hdisj (m.nBodies - 1) (Nat.le_refl _) i r
    i1 i2 hoi]
  -- every term
  have hterm : ∀ k ∈ List.range' 1 (m.nBodies - 1),
      (downTo W'.X_lambda m.lam i (m.nBodies - 1) k
          ((W'.Scols m i).getD (r - (m.joint i).qIndex) SV.zero)).dot (W'.f k)
        = sumTo m.dofCount (fun c => R.2 c *
            ((unitW m w st r).v k).dot (m.rbi k * (unitW m w st c).v k)) := by
    intro k hk
    rw [List.mem_range'_1] at hk
    have hd := rec_downTo W'.X_lambda m.lam m.nBodies htree (unitW m w st r).v i
      ((W'.Scols m i).getD (r - (m.joint i).qIndex) SV.zero) (unitW_closed hm w st r).v0
      (fun k k1 k2 => by
        rw [unitW_v_rec hm w hw st (fun _ _ => 0) r i i1 i2 hoc k k1 k2, hSc', (hfld i i1 i2).2]
        congr 2
        rw [hW']
        exact ((hfld k k1 k2).1).symm)
      i1 i2 (m.nBodies - 1) k (by omega) (by omega)
    rw [← hd]
    have hf : W'.f k = m.rbi k * R.1.a k := by
      rw [hW']; exact (C16.rbi_mulVec_eq _ _).symm
    rw [hf, hY k (by omega), rbi_mul_svSum, dot_svSum]
    refine L09.sumTo_congr _ _ _ (fun c _ => ?_)
    rw [rbi_mul_smul, dot_smul]
  rw [lsum_congr _ _ _ hterm, lsum_sumTo_swap]
  refine L09.sumTo_congr _ _ _ (fun c hc => ?_)
  rw [lsum_smul, crba_entry_sum hm w hw st hst r c hr hc]
  grind

end
end Rbdl.LDynCap
