import RbdlProofs.Lemmas.L18CMain
/-
  C18 at curve level: decidability of `Curve.WF` and the concrete curves (over `Rat`) used by the
  non-vacuity examples.
-/
set_option linter.unusedSectionVars false
namespace Rbdl.L18C
open Lean.Grind Std Rbdl.Geom Rbdl.L18

section dec
variable {α : Type} [Field α] [Inhabited α] [LE α] [LT α] [DecidableLT α] [DecidableLE α] [DecidableEq α]

instance (p : P6 α) : Decidable p.StrictIncr := by unfold P6.StrictIncr; infer_instance
instance (p : P6 α) : Decidable p.Mono := by unfold P6.Mono; infer_instance

theorem WF_iff (c : Curve α) : c.WF ↔
    (c.mY.length = c.mX.length ∧ 0 < c.nseg ∧ (∀ i, i < c.nseg → (c.segX i).StrictIncr) ∧
     (∀ i, i < c.nseg - 1 → (c.segX i).p5 = (c.segX (i+1)).p0) ∧
     (∀ i, i < c.nseg - 1 → (c.segY i).p5 = (c.segY (i+1)).p0) ∧
     c.x0 = (c.segX 0).p0 ∧ c.x1 = (c.segX (c.nseg - 1)).p5 ∧
     c.y0 = (c.segY 0).p0 ∧ c.y1 = (c.segY (c.nseg - 1)).p5 ∧
     c.dydx0 = derivDYDX 0 (c.segX 0) (c.segY 0) 1 ∧
     c.dydx1 = derivDYDX 1 (c.segX (c.nseg - 1)) (c.segY (c.nseg - 1)) 1) := by
  constructor
  · intro h
    exact ⟨h.lenY, h.pos, h.incr, fun i hi => h.joinX i (by omega), fun i hi => h.joinY i (by omega),
      h.hx0, h.hx1, h.hy0, h.hy1, h.hd0, h.hd1⟩
  · rintro ⟨a, b, c1, d, e, f, g, h1, h2, h3, h4⟩
    exact ⟨a, b, c1, fun i hi => d i (by omega), fun i hi => e i (by omega), f, g, h1, h2, h3, h4⟩

instance (c : Curve α) : Decidable c.WF := decidable_of_iff _ (WF_iff c).symm
end dec

/-- `createFiberForceLengthCurve(0, 0.7, 0.2, 2/0.7, 0.75)`: the default fiber force-length curve -/
def exFL : Curve Rat := (Factory.fiberForceLength (0:Rat) (7/10) (2/10) (20/7) (3/4)).getD default

theorem exFL_some : Factory.fiberForceLength (0:Rat) (7/10) (2/10) (20/7) (3/4) = some exFL := by
  decide +kernel
theorem exFL_WF : exFL.WF := by decide +kernel
theorem exFL_nseg : exFL.nseg = 2 := by decide +kernel


/-- knots of `exFL`: (x, y, slope) -/
def exKx (i : Nat) : Rat := [1, 207/200, 17/10].getD i 0
def exKy (i : Nat) : Rat := [0, 7/2000, 1].getD i 0
def exKm (i : Nat) : Rat := [0, 1/5, 20/7].getD i 0

theorem exFL_corner : exFL.CornerBuilt exKx exKy exKm := by
  intro i hi
  rw [exFL_nseg] at hi
  have : i = 0 ∨ i = 1 := by omega
  rcases this with e | e <;> subst e
  · exact ⟨cornerXC (1:Rat) 0 0 (207/200) (7/2000) (1/5), 7/10, by decide +kernel⟩
  · exact ⟨cornerXC (207/200 : Rat) (7/2000) (1/5) (17/10) 1 (20/7), 7/10, by decide +kernel⟩

theorem exFL_scale_pos : exFL.scale 2 3 = some (exFL.scaleRaw 2 3) := by decide +kernel
theorem exFL_scale_neg : exFL.scale (-2) 3 = some (exFL.scaleRaw (-2) 3).mirror := by decide +kernel
end Rbdl.L18C

namespace Rbdl.L18C
open Lean.Grind Std Rbdl.Geom
instance {α : Type} [Field α] [Inhabited α] [LE α] [LT α] [DecidableLT α] [DecidableLE α] [DecidableEq α]
    (c : Curve α) (x : α) (i : Nat) (u : α) : Decidable (c.RootAt x i u) := by
  unfold Curve.RootAt; infer_instance
end Rbdl.L18C

namespace Rbdl.L18C
open Lean.Grind Std Rbdl.Geom
section
variable {α : Type} [Field α] [Inhabited α] [LE α] [LT α] [DecidableLT α] [DecidableLE α] [DecidableEq α]
theorem isRoot_iff (c : Curve α) (x u : α) : c.IsRoot x u ↔
    (c.region x = .mid →
      (c.calcIndex x).all (fun i => decide (0 ≤ u ∧ u ≤ 1 ∧ bezVal u (c.segX i) = x)) = true) := by
  unfold Curve.IsRoot
  constructor
  · intro h hm
    cases hc : c.calcIndex x with
    | none => rfl
    | some i => simpa using h hm i hc
  · intro h hm i hi
    have := h hm
    rw [hi] at this; simpa using this
instance (c : Curve α) (x u : α) : Decidable (c.IsRoot x u) :=
  decidable_of_iff _ (isRoot_iff c x u).symm
end
end Rbdl.L18C
