import RbdlProofs.Lemmas.L07Chain
/-
  C07, joint level: the closed formulas that `jcalc` uses for the four specialised Euler joints
  (and `TranslationXYZ`) are the ones a chain of three built-in 1-DoF joints about the same axes
  produces.
-/
namespace Rbdl.L07
open Lean.Grind Rbdl
set_option linter.unusedSimpArgs false
set_option linter.unusedVariables false

section
variable {α : Type} [Field α]

/-- the specialised Euler joint types -/
def isEuler : JT → Bool
  | .eulerZYX | .eulerXYZ | .eulerYXZ | .eulerZXY => true
  | _ => false

/-- the built-in 1-DoF joint types of the three axes of an Euler joint, in joint order
    (first rotation first) -/
def eulerAxes : JT → JT × JT × JT
  | .eulerZYX => (.revoluteZ, .revoluteY, .revoluteX)
  | .eulerXYZ => (.revoluteX, .revoluteY, .revoluteZ)
  | .eulerYXZ => (.revoluteY, .revoluteX, .revoluteZ)
  | .eulerZXY => (.revoluteZ, .revoluteX, .revoluteY)
  | _ => (.undefined, .undefined, .undefined)

/-- `X_J` of the built-in `RevoluteX/Y/Z` joints at the angle with cosine `c`, sine `s` -/
def rotJ : JT → α → α → XT α
  | .revoluteX, c, s => Xrotx c s
  | .revoluteY, c, s => Xroty c s
  | .revoluteZ, c, s => Xrotz c s
  | _, _, _ => XT.id

/-- motion subspace (axis) of the built-in `RevoluteX/Y/Z` joints -/
def axisJ : JT → SV α
  | .revoluteX => sv6 1 0 0 0 0 0
  | .revoluteY => sv6 0 1 0 0 0 0
  | .revoluteZ => sv6 0 0 1 0 0 0
  | _ => SV.zero

/-- the matrix `E` that `jcalc` computes for the Euler joint type `e` -/
def eulerE : JT → α → α → α → α → α → α → M3 α
  | .eulerZYX => eulerZYX_E
  | .eulerXYZ => eulerXYZ_E
  | .eulerYXZ => eulerYXZ_E
  | .eulerZXY => eulerZXY_E
  | _ => fun _ _ _ _ _ _ => M3.one

/-- the `multdof3_S` that `jcalc` writes for the Euler joint type `e` -/
def eulerS : JT → M63 α → α → α → α → α → M63 α
  | .eulerZYX => eulerZYX_S
  | .eulerXYZ => eulerXYZ_S
  | .eulerYXZ => eulerYXZ_S
  | .eulerZXY => eulerZXY_S
  | _ => fun S _ _ _ _ => S

/-- the `c_J` that `jcalc` writes for the Euler joint type `e` -/
def eulerCJ : JT → α → α → α → α → α → α → α → SV α
  | .eulerZYX => eulerZYX_cJ
  | .eulerXYZ => eulerXYZ_cJ
  | .eulerYXZ => eulerYXZ_cJ
  | .eulerZXY => eulerZXY_cJ
  | _ => fun _ _ _ _ _ _ _ => SV.zero

theorem rotJ_r (t : JT) (c s : α) : (rotJ t c s).r = V3.zero := by
  cases t <;> rfl

theorem rotJ_isRot (t : JT) (c s : α) (h : c * c + s * s = 1) : (rotJ t c s).E.IsRot := by
  cases t
  case revoluteX => exact C16.Xrotx_isRot c s h
  case revoluteY => exact C16.Xroty_isRot c s h
  case revoluteZ => exact C16.Xrotz_isRot c s h
  all_goals exact M3.isRot_one

/-- `l07_euler e`: split into the four Euler orders (the other joint types are excluded by
    `isEuler e = true`) and prove the component identities -/
macro "l07_euler " e:ident h:ident : tactic =>
  `(tactic| (cases $e:ident <;> first | exact absurd $h:ident (by decide) | skip))

/-- A1. `E` of the Euler joint is the product of the three revolute `X_J` in axis order -/
theorem eulerE_eq (e : JT) (he : isEuler e = true) (c0 s0 c1 s1 c2 s2 : α) :
    (⟨eulerE e c0 s0 c1 s1 c2 s2, V3.zero⟩ : XT α)
      = rotJ (eulerAxes e).2.2 c2 s2 * rotJ (eulerAxes e).2.1 c1 s1 * rotJ (eulerAxes e).1 c0 s0 := by
  l07_euler e he <;>
    (simp only [eulerE, eulerAxes, rotJ, eulerZYX_E, eulerXYZ_E, eulerYXZ_E, eulerZXY_E]
     alg_ext)

/-- A2. the columns of `multdof3_S` are the revolute axes transported into the final frame -/
theorem eulerS_eq (e : JT) (he : isEuler e = true) (c1 s1 c2 s2 : α) :
    eulerS e M63.zero c1 s1 c2 s2
      = ⟨(rotJ (eulerAxes e).2.2 c2 s2).apply ((rotJ (eulerAxes e).2.1 c1 s1).apply
            (axisJ (eulerAxes e).1)),
         (rotJ (eulerAxes e).2.2 c2 s2).apply (axisJ (eulerAxes e).2.1),
         axisJ (eulerAxes e).2.2⟩ := by
  l07_euler e he <;>
    (unfold eulerS
     simp only [eulerAxes, rotJ, axisJ, eulerZYX_S, eulerXYZ_S, eulerYXZ_S, eulerZXY_S,
       M63.setW, M63.zero, sv6, M63.mk.injEq]
     refine ⟨?_, ?_, ?_⟩ <;> alg_ext)

/-- A3. `v_J = S q̇` is the relative velocity of the chain's last body -/
theorem eulerVJ_eq (e : JT) (he : isEuler e = true) (c1 s1 c2 s2 x0 x1 x2 : α) :
    (eulerS e M63.zero c1 s1 c2 s2).mulV3 ⟨x0, x1, x2⟩
      = chainVJ (rotJ (eulerAxes e).2.1 c1 s1) (rotJ (eulerAxes e).2.2 c2 s2)
          (x0 * (axisJ (eulerAxes e).1 : SV α)) (x1 * (axisJ (eulerAxes e).2.1 : SV α))
          (x2 * (axisJ (eulerAxes e).2.2 : SV α)) := by
  rw [eulerS_eq e he]
  unfold chainVJ
  simp only [M63.mulV3, apply_smul]

/-- A4. `c_J` is the velocity-product acceleration accumulated by the chain (parent at rest);
    no condition on the `(cos, sin)` pairs -/
theorem eulerCJ_eq (e : JT) (he : isEuler e = true) (c1 s1 c2 s2 x0 x1 x2 : α) :
    eulerCJ e c1 s1 c2 s2 x0 x1 x2
      = chainCJ (rotJ (eulerAxes e).2.1 c1 s1) (rotJ (eulerAxes e).2.2 c2 s2)
          (x0 * (axisJ (eulerAxes e).1 : SV α)) SV.zero (x1 * (axisJ (eulerAxes e).2.1 : SV α)) SV.zero
          (x2 * (axisJ (eulerAxes e).2.2 : SV α)) SV.zero := by
  l07_euler e he <;>
    (unfold eulerCJ
     simp only [eulerAxes, rotJ, axisJ, chainCJ, eulerZYX_cJ, eulerXYZ_cJ, eulerYXZ_cJ,
       eulerZXY_cJ, sv6]
     alg_ext)

end
end Rbdl.L07
