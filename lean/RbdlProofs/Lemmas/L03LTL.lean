import Rbdl.LTL
import RbdlProofs.Lemmas.Loops
/-
  Lemmas for the sparse LTL routines (Rbdl/LTL.lean; rbdl_mathutils.cc:262-320).

  * counter-indexed loop induction: `forUp_invI`, `forDown_invI`; last-iteration forms
    `forUp_snoc`, `forDown_snoc`, `forDown_self_succ`
  * sums: `sumTo_succ`, `sumTo_congr`, `sumTo_zero`, `sumTo_add`, `sumTo_lower` (upper part of a
    triangular row), tails `sumFrom m n f = Σ_{m ≤ k < n} f k`
  * closed forms of every inner loop (`lxInner_eq`, `ltxInner_eq`, `zeroRow_eq`, `zeroUpper_eq`,
    `divRow_eq`, `rank1Row_eq`, `rank1_eq`, `ltlStep_eq`)
  * `solveLx_spec`, `solveLTx_spec`, the outer invariant `LtlInv` of `SparseFactorizeLTL` and its
    step `ltlInv_step`, `ltlInv_partial`
  * the walks over `lambda_q` specialise to the dense loops: `walk_chain`, `solveLxG_chain`, …
-/
namespace Rbdl.L03.LTL
open Lean.Grind Rbdl Rbdl.LTL

/-! ## loops -/

/-- counter-indexed invariant of an upward loop -/
theorem forUp_invI {σ : Type} (Inv : Nat → σ → Prop) (body : Nat → σ → σ) (n lo : Nat)
    (h : ∀ i s, lo ≤ i → i < lo + n → Inv i s → Inv (i+1) (body i s)) (s : σ) (h0 : Inv lo s) :
    Inv (lo + n) (forUp n lo body s) := by
  induction n generalizing lo s with
  | zero => exact h0
  | succ k ih =>
    rw [forUp]
    have e : lo + (k + 1) = lo + 1 + k := by omega
    rw [e]
    exact ih (lo + 1) (fun i s h1 h2 => h i s (by omega) (by omega)) _
      (h lo s (Nat.le_refl _) (by omega) h0)

/-- counter-indexed invariant of a downward loop -/
theorem forDown_invI {σ : Type} (Inv : Nat → σ → Prop) (body : Nat → σ → σ) (cnt hi : Nat)
    (hc : cnt ≤ hi)
    (h : ∀ i s, i ≤ hi → hi < i + cnt → Inv i s → Inv (i-1) (body i s)) (s : σ) (h0 : Inv hi s) :
    Inv (hi - cnt) (forDown cnt hi body s) := by
  induction cnt generalizing hi s with
  | zero => exact h0
  | succ k ih =>
    rw [forDown]
    have e : hi - (k + 1) = hi - 1 - k := by omega
    rw [e]
    exact ih (hi - 1) (by omega) (fun i s h1 h2 => h i s (by omega) (by omega)) _
      (h hi s (Nat.le_refl _) (by omega) h0)

/-- the last iteration of an upward loop -/
theorem forUp_snoc {σ : Type} (n lo : Nat) (body : Nat → σ → σ) (s : σ) :
    forUp (n+1) lo body s = body (lo + n) (forUp n lo body s) := by
  induction n generalizing lo s with
  | zero => rfl
  | succ k ih =>
    rw [forUp, ih (lo + 1), forUp]
    have e : lo + 1 + k = lo + (k + 1) := by omega
    rw [e]

/-- the last iteration of a downward loop -/
theorem forDown_snoc {σ : Type} (cnt hi : Nat) (body : Nat → σ → σ) (s : σ) :
    forDown (cnt+1) hi body s = body (hi - cnt) (forDown cnt hi body s) := by
  induction cnt generalizing hi s with
  | zero => rfl
  | succ k ih =>
    rw [forDown, ih (hi - 1), forDown]
    have e : hi - 1 - k = hi - (k + 1) := by omega
    rw [e]

/-- the first iteration of `for (i = c+1; i > 0; i--)` -/
theorem forDown_self_succ {σ : Type} (c : Nat) (body : Nat → σ → σ) (s : σ) :
    forDown (c+1) (c+1) body s = forDown c c body (body (c+1) s) := rfl

section
variable {α : Type} [Field α]

/-! ## sums -/

theorem sumTo_zero_n (f : Nat → α) : sumTo 0 f = 0 := rfl

theorem sumTo_succ (n : Nat) (f : Nat → α) : sumTo (n+1) f = sumTo n f + f n := rfl

theorem sumTo_congr (n : Nat) (f g : Nat → α) (h : ∀ k, k < n → f k = g k) :
    sumTo n f = sumTo n g := by
  induction n with
  | zero => rfl
  | succ k ih =>
    rw [sumTo_succ, sumTo_succ, ih (fun j hj => h j (by omega)), h k (by omega)]

theorem sumTo_zero (n : Nat) (f : Nat → α) (h : ∀ k, k < n → f k = 0) : sumTo n f = 0 := by
  induction n with
  | zero => rfl
  | succ k ih =>
    rw [sumTo_succ, ih (fun j hj => h j (by omega)), h k (by omega)]; grind

theorem sumTo_add (n : Nat) (f g : Nat → α) :
    sumTo n (fun k => f k + g k) = sumTo n f + sumTo n g := by
  induction n with
  | zero => simp [sumTo]; grind
  | succ k ih => simp only [sumTo_succ, ih]; grind

/-- terms beyond `m` vanish: the sum stops at `m` -/
theorem sumTo_lower (m n : Nat) (f : Nat → α) (hmn : m ≤ n) (h : ∀ k, m ≤ k → k < n → f k = 0) :
    sumTo n f = sumTo m f := by
  induction n with
  | zero =>
    have : m = 0 := by omega
    rw [this]
  | succ k ih =>
    by_cases hk : m ≤ k
    · rw [sumTo_succ, ih hk (fun j h1 h2 => h j h1 (by omega)), h k hk (by omega)]; grind
    · have : m = k + 1 := by omega
      rw [this]

/-- `Σ_{m ≤ k < n} f k` -/
def sumFrom (m n : Nat) (f : Nat → α) : α := sumTo n f - sumTo m f

theorem sumFrom_zero (n : Nat) (f : Nat → α) : sumFrom 0 n f = sumTo n f := by
  simp only [sumFrom, sumTo_zero_n]; grind

theorem sumFrom_self (n : Nat) (f : Nat → α) : sumFrom n n f = 0 := by
  simp only [sumFrom]; grind

theorem sumFrom_peel (m n : Nat) (f : Nat → α) : sumFrom m n f = f m + sumFrom (m+1) n f := by
  simp only [sumFrom, sumTo_succ]; grind

theorem sumFrom_congr (m n : Nat) (f g : Nat → α) (hmn : m ≤ n)
    (h : ∀ k, m ≤ k → k < n → f k = g k) : sumFrom m n f = sumFrom m n g := by
  induction n with
  | zero =>
    have : m = 0 := by omega
    subst this; simp [sumFrom, sumTo]
  | succ k ih =>
    by_cases hk : m ≤ k
    · have e := ih hk (fun j h1 h2 => h j h1 (by omega))
      have e2 := h k hk (by omega)
      simp only [sumFrom, sumTo_succ] at e ⊢
      grind
    · have : m = k + 1 := by omega
      subst this; simp only [sumFrom]; grind

/-! ## `upd` / `setH` -/

theorem upd_upd {β : Type} (f : Nat → β) (k : Nat) (v w : β) : upd (upd f k v) k w = upd f k w := by
  funext j; simp only [upd]; split <;> rfl

omit [Field α] in
theorem setH_apply (H : MatN α) (r c : Nat) (x : α) (r' c' : Nat) :
    setH H r c x r' c' = if r' = r ∧ c' = c then x else H r' c' := rfl

/-! ## `SparseSolveLx` -/

/-- the inner loop of `SparseSolveLx` for row `p`: `x[p] -= Σ_{j<c} L(p,j) x[j]` -/
theorem lxInner_eq (L : MatN α) (p c : Nat) (hc : c ≤ p) (x : VecN α) :
    forDown c c (fun j x => upd x p (x p - L p (j-1) * x (j-1))) x
      = upd x p (x p - sumTo c (fun j => L p j * x j)) := by
  induction c generalizing x with
  | zero =>
    funext k; simp only [forDown, sumTo_zero_n, upd]; split
    · next h => subst h; grind
    · rfl
  | succ c ih =>
    rw [forDown_self_succ, ih (by omega)]
    simp only [Nat.add_sub_cancel, upd_upd, upd_same, sumTo_succ]
    have e : sumTo c (fun j => L p j * upd x p (x p - L p c * x c) j)
        = sumTo c (fun j => L p j * x j) := by
      apply sumTo_congr; intro k hk
      rw [upd_other _ _ _ _ (by omega)]
    rw [e]
    congr 1; grind

/-- one outer iteration of `SparseSolveLx` -/
theorem solveLx_succ (n : Nat) (L : MatN α) (b : VecN α) :
    solveLx (n+1) L b
      = upd (solveLx n L b) n
          ((solveLx n L b n - sumTo n (fun j => L n j * solveLx n L b j)) / L n n) := by
  unfold solveLx
  rw [forUp_snoc]
  simp only [Nat.add_sub_cancel_left]
  rw [lxInner_eq L n n (Nat.le_refl _)]
  simp only [upd_upd, upd_same]

theorem solveLx_spec (n : Nat) (L : MatN α) (b : VecN α) (hd : ∀ i, i < n → L i i ≠ 0) :
    (∀ r, r < n → sumTo (r+1) (fun j => L r j * solveLx n L b j) = b r)
    ∧ (∀ r, n ≤ r → solveLx n L b r = b r) := by
  induction n with
  | zero => exact ⟨fun r h => absurd h (by omega), fun r _ => rfl⟩
  | succ n ih =>
    obtain ⟨ih1, ih2⟩ := ih (fun i hi => hd i (by omega))
    rw [solveLx_succ]
    refine ⟨?_, ?_⟩
    · intro r hr
      by_cases hrn : r < n
      · rw [← ih1 r hrn]
        apply sumTo_congr; intro k hk
        rw [upd_other _ _ _ _ (by omega)]
      · have : r = n := by omega
        subst this
        rw [sumTo_succ, upd_same]
        have e : sumTo r (fun j => L r j * upd (solveLx r L b) r
              ((solveLx r L b r - sumTo r (fun j => L r j * solveLx r L b j)) / L r r) j)
            = sumTo r (fun j => L r j * solveLx r L b j) := by
          apply sumTo_congr; intro k hk
          rw [upd_other _ _ _ _ (by omega)]
        rw [e, ih2 r (Nat.le_refl _)]
        have hne := hd r (by omega)
        grind
    · intro r hr
      rw [upd_other _ _ _ _ (by omega)]
      exact ih2 r (by omega)

/-! ## `SparseSolveLTx` -/

/-- the inner loop of `SparseSolveLTx` for row `p`: `x[j] -= L(p,j) x[p]` for `j < c` -/
theorem ltxInner_eq (L : MatN α) (p c : Nat) (hc : c ≤ p) (x : VecN α) :
    forDown c c (fun j x => upd x (j-1) (x (j-1) - L p (j-1) * x p)) x
      = fun k => if k < c then x k - L p k * x p else x k := by
  induction c generalizing x with
  | zero => funext k; simp [forDown]
  | succ c ih =>
    rw [forDown_self_succ, ih (by omega)]
    funext k
    simp only [Nat.add_sub_cancel, upd]
    have hp : p ≠ c := by omega
    grind

theorem solveLTxStep_eq (L : MatN α) (n : Nat) (x : VecN α) :
    solveLTxStep L (n+1) x
      = fun k => if k < n then x k - L n k * (x n / L n n) else if k = n then x n / L n n else x k := by
  unfold solveLTxStep
  simp only [Nat.add_sub_cancel]
  rw [ltxInner_eq L n n (Nat.le_refl _)]
  funext k
  simp only [upd]
  grind

theorem solveLTx_succ (n : Nat) (L : MatN α) (b : VecN α) :
    solveLTx (n+1) L b = solveLTx n L (solveLTxStep L (n+1) b) := rfl

theorem solveLTx_spec (n : Nat) (L : MatN α) (b : VecN α) (hd : ∀ i, i < n → L i i ≠ 0)
    (hL : ∀ i j, i < j → j < n → L i j = 0) :
    (∀ c, c < n → sumTo n (fun i => L i c * solveLTx n L b i) = b c)
    ∧ (∀ r, n ≤ r → solveLTx n L b r = b r) := by
  induction n generalizing b with
  | zero => exact ⟨fun r h => absurd h (by omega), fun r _ => rfl⟩
  | succ n ih =>
    obtain ⟨ih1, ih2⟩ := ih (solveLTxStep L (n+1) b) (fun i hi => hd i (by omega))
      (fun i j h1 h2 => hL i j h1 (by omega))
    rw [solveLTx_succ]
    have hne := hd n (by omega)
    refine ⟨?_, ?_⟩
    · intro c hc
      rw [sumTo_succ, ih2 n (Nat.le_refl _)]
      by_cases hcn : c < n
      · rw [ih1 c hcn, solveLTxStep_eq]
        simp only [hcn, if_true, Nat.lt_irrefl, if_false]
        grind
      · have : c = n := by omega
        subst this
        rw [sumTo_zero c _ (fun k hk => by rw [hL k c hk (by omega)]; grind), solveLTxStep_eq]
        simp only [Nat.lt_irrefl, if_false, if_true]
        grind
    · intro r hr
      rw [ih2 r (by omega), solveLTxStep_eq]
      have h1 : ¬ r < n := by omega
      have h2 : r ≠ n := by omega
      simp only [h1, h2, if_false]

/-! ## `SparseFactorizeLTL`: closed forms of the loops -/

/-- `for (j = lo; j < lo+m; j++) H(i,j) = 0` -/
theorem zeroRow_eq (i m lo : Nat) (H : MatN α) :
    forUp m lo (fun j H => setH H i j 0) H
      = fun r c => if r = i ∧ lo ≤ c ∧ c < lo + m then 0 else H r c := by
  induction m with
  | zero => funext r c; simp only [forUp]; grind
  | succ m ih =>
    rw [forUp_snoc, ih]
    funext r c
    simp only [setH]
    grind

theorem zeroUpper_aux (n m : Nat) (H : MatN α) :
    forUp m 0 (fun i H => forUp (n - (i+1)) (i+1) (fun j H => setH H i j 0) H) H
      = fun r c => if r < m ∧ r < c ∧ c < n then 0 else H r c := by
  induction m with
  | zero => funext r c; simp [forUp]
  | succ m ih =>
    rw [forUp_snoc, ih, zeroRow_eq]
    funext r c
    grind

/-- the first loop nest of `SparseFactorizeLTL` zeroes the strict upper triangle of the block -/
theorem zeroUpper_eq (n : Nat) (H : MatN α) :
    zeroUpper n H = fun r c => if r < c ∧ c < n then 0 else H r c := by
  unfold zeroUpper
  rw [zeroUpper_aux]
  funext r c
  grind

/-- `H(p,i) /= H(p,p)` for `i < c` -/
theorem divRow_eq (p c : Nat) (hc : c ≤ p) (H : MatN α) :
    forDown c c (fun i H => setH H p (i-1) (H p (i-1) / H p p)) H
      = fun r c' => if r = p ∧ c' < c then H p c' / H p p else H r c' := by
  induction c generalizing H with
  | zero => funext r c'; simp [forDown]
  | succ c ih =>
    rw [forDown_self_succ, ih (by omega)]
    funext r c'
    simp only [Nat.add_sub_cancel, setH]
    have hp : p ≠ c := by omega
    grind

/-- `H(q,j) -= H(p,q) H(p,j)` for `j < c` (row `q ≠ p`) -/
theorem rank1Row_eq (p q c : Nat) (hq : q ≠ p) (H : MatN α) :
    forDown c c (fun j H => setH H q (j-1) (H q (j-1) - H p q * H p (j-1))) H
      = fun r c' => if r = q ∧ c' < c then H q c' - H p q * H p c' else H r c' := by
  induction c generalizing H with
  | zero => funext r c'; simp [forDown]
  | succ c ih =>
    rw [forDown_self_succ, ih]
    funext r c'
    simp only [Nat.add_sub_cancel, setH]
    grind

/-- the rank-one update: `H(i,j) -= H(p,i) H(p,j)` for `j ≤ i < c` -/
theorem rank1_eq (p c : Nat) (hc : c ≤ p) (H : MatN α) :
    forDown c c (fun i H =>
        forDown i i (fun j H => setH H (i-1) (j-1) (H (i-1) (j-1) - H p (i-1) * H p (j-1))) H) H
      = fun r c' => if r < c ∧ c' ≤ r then H r c' - H p r * H p c' else H r c' := by
  induction c generalizing H with
  | zero => funext r c'; simp [forDown]
  | succ c ih =>
    rw [forDown_self_succ, ih (by omega)]
    simp only [Nat.add_sub_cancel]
    rw [rank1Row_eq p c (c+1) (by omega)]
    funext r c'
    have hp : p ≠ c := by omega
    grind

/-- closed form of one iteration `k = m+1` of the main loop (row `m`), `d = sqrt (H(m,m))` -/
theorem ltlStep_eq (sqrt : α → α) (m : Nat) (H : MatN α) :
    ltlStep sqrt (m+1) H = fun r c =>
      if r = m then
        (if c < m then H m c / sqrt (H m m) else if c = m then sqrt (H m m) else H m c)
      else if r < m ∧ c ≤ r then H r c - (H m r / sqrt (H m m)) * (H m c / sqrt (H m m))
      else H r c := by
  unfold ltlStep
  simp only [Nat.add_sub_cancel]
  rw [rank1_eq m m (Nat.le_refl _), divRow_eq m m (Nat.le_refl _)]
  funext r c
  simp only [setH]
  grind

/-! ## `SparseFactorizeLTL`: the outer invariant -/

/-- invariant of the main loop of `SparseFactorizeLTL` on the block `[0,n)²` when the rows `≥ m` are
    finished: the strict upper triangle is zero, the finished rows `k' ≥ m` of `cur` and the remaining
    leading `m × m` block account for the lower triangle of the input `H0`, and nothing outside the
    block was written. -/
structure LtlInv (n : Nat) (H0 : MatN α) (m : Nat) (cur : MatN α) : Prop where
  upper : ∀ i j, i < j → j < n → cur i j = 0
  lower : ∀ i j, j ≤ i → i < n →
    H0 i j = sumFrom m n (fun k => cur k i * cur k j) + (if i < m then cur i j else 0)
  outside : ∀ i j, n ≤ i ∨ n ≤ j → cur i j = H0 i j

theorem ltlInv_init (n : Nat) (H : MatN α) : LtlInv n H n (zeroUpper n H) := by
  rw [zeroUpper_eq]
  refine ⟨?_, ?_, ?_⟩
  · intro i j h1 h2; simp only [h1, h2, and_self, if_true]
  · intro i j h1 h2
    have h3 : ¬ (i < j ∧ j < n) := by omega
    simp only [sumFrom_self, h2, h3, if_true, if_false]; grind
  · intro i j h
    have h3 : ¬ (i < j ∧ j < n) := by omega
    simp only [h3, if_false]

/-- the invariant is kept by a step described pointwise -/
theorem ltlInv_step_aux (n m : Nat) (H0 cur cur' : MatN α) (d : α) (hm : m < n)
    (hd : d * d = cur m m) (hd0 : d ≠ 0)
    (hrow_lt : ∀ c, c < m → cur' m c = cur m c / d)
    (hrow_eq : cur' m m = d)
    (hrow_gt : ∀ c, m < c → cur' m c = cur m c)
    (hlow : ∀ r c, r < m → c ≤ r → cur' r c = cur r c - (cur m r / d) * (cur m c / d))
    (hrest : ∀ r c, r ≠ m → ¬ (r < m ∧ c ≤ r) → cur' r c = cur r c)
    (h : LtlInv n H0 (m+1) cur) : LtlInv n H0 m cur' := by
  obtain ⟨hu, hl, ho⟩ := h
  refine ⟨?_, ?_, ?_⟩
  · intro i j h1 h2
    by_cases him : i = m
    · subst him; rw [hrow_gt j h1]; exact hu i j h1 h2
    · rw [hrest i j him (by omega)]; exact hu i j h1 h2
  · intro i j h1 h2
    have e := hl i j h1 h2
    have ec : sumFrom (m+1) n (fun k => cur' k i * cur' k j)
        = sumFrom (m+1) n (fun k => cur k i * cur k j) := by
      apply sumFrom_congr _ _ _ _ (by omega)
      intro k hk1 hk2
      rw [hrest k i (by omega) (by omega), hrest k j (by omega) (by omega)]
    rw [sumFrom_peel, ec]
    by_cases him : i < m
    · have h3 : i < m + 1 := by omega
      simp only [h3, if_true] at e
      simp only [him, if_true]
      rw [hrow_lt i him, hrow_lt j (by omega), hlow i j him h1]
      grind
    · by_cases him2 : i = m
      · subst him2
        have h3 : i < i + 1 := by omega
        simp only [h3, if_true] at e
        simp only [Nat.lt_irrefl, if_false]
        rw [hrow_eq]
        by_cases hj : j = i
        · subst hj; rw [hrow_eq]; grind
        · rw [hrow_lt j (by omega)]; grind
      · have h3 : ¬ i < m + 1 := by omega
        simp only [h3, if_false] at e
        simp only [him, if_false]
        rw [hrow_gt i (by omega), hu m i (by omega) h2]
        grind
  · intro i j hij
    by_cases him : i = m
    · subst him; rw [hrow_gt j (by omega)]; exact ho i j hij
    · rw [hrest i j him (by omega)]; exact ho i j hij

/-- one iteration of the main loop keeps the invariant when the pivot has an exact non-zero root -/
theorem ltlInv_step (sqrt : α → α) (n m : Nat) (H0 cur : MatN α) (hm : m < n)
    (hd : sqrt (cur m m) * sqrt (cur m m) = cur m m) (hd0 : sqrt (cur m m) ≠ 0)
    (h : LtlInv n H0 (m+1) cur) : LtlInv n H0 m (ltlStep sqrt (m+1) cur) := by
  apply ltlInv_step_aux n m H0 cur _ (sqrt (cur m m)) hm hd hd0 _ _ _ _ _ h
  · intro c hc; rw [ltlStep_eq]; simp only [hc, if_true]
  · rw [ltlStep_eq]; simp only [Nat.lt_irrefl, if_true, if_false]
  · intro c hc; rw [ltlStep_eq]
    have h1 : ¬ c < m := by omega
    have h2 : c ≠ m := by omega
    simp only [h1, h2, if_true, if_false]
  · intro r c h1 h2; rw [ltlStep_eq]
    have h3 : r ≠ m := by omega
    simp only [h3, h1, h2, and_self, if_true, if_false]
  · intro r c h1 h2; rw [ltlStep_eq]
    simp only [h1, h2, if_false]

theorem ltlPartial_n (sqrt : α → α) (n : Nat) (H : MatN α) :
    ltlPartial sqrt n H n = zeroUpper n H := by
  unfold ltlPartial; rw [Nat.sub_self]; rfl

theorem ltlPartial_step (sqrt : α → α) (n m : Nat) (hm : m < n) (H : MatN α) :
    ltlPartial sqrt n H m = ltlStep sqrt (m+1) (ltlPartial sqrt n H (m+1)) := by
  unfold ltlPartial
  have e : n - m = (n - (m+1)) + 1 := by omega
  rw [e, forDown_snoc]
  have e2 : n - (n - (m+1)) = m + 1 := by omega
  rw [e2]

theorem factorizeLTL_eq_partial (sqrt : α → α) (n : Nat) (H : MatN α) :
    factorizeLTL sqrt n H = ltlPartial sqrt n H 0 := rfl

/-- the invariant holds at every stage of the run, given exact roots of the pivots taken so far -/
theorem ltlInv_partial (sqrt : α → α) (n : Nat) (H : MatN α) (t : Nat) (ht : t ≤ n)
    (hsq : ∀ m, n - t ≤ m → m < n →
      sqrt (ltlPivot sqrt n H m) * sqrt (ltlPivot sqrt n H m) = ltlPivot sqrt n H m
      ∧ sqrt (ltlPivot sqrt n H m) ≠ 0) :
    LtlInv n H (n - t) (ltlPartial sqrt n H (n - t)) := by
  induction t with
  | zero => rw [Nat.sub_zero, ltlPartial_n]; exact ltlInv_init n H
  | succ t ih =>
    have ih' := ih (by omega) (fun m h1 h2 => hsq m (by omega) h2)
    have e : n - t = (n - (t+1)) + 1 := by omega
    rw [e] at ih'
    rw [ltlPartial_step sqrt n (n - (t+1)) (by omega)]
    obtain ⟨h1, h2⟩ := hsq (n - (t+1)) (Nat.le_refl _) (by omega)
    exact ltlInv_step sqrt n (n - (t+1)) H _ (by omega) h1 h2 ih'

theorem ltlInv_final (sqrt : α → α) (n : Nat) (H : MatN α)
    (hsq : ∀ m, m < n →
      sqrt (ltlPivot sqrt n H m) * sqrt (ltlPivot sqrt n H m) = ltlPivot sqrt n H m
      ∧ sqrt (ltlPivot sqrt n H m) ≠ 0) :
    LtlInv n H 0 (factorizeLTL sqrt n H) := by
  have h := ltlInv_partial sqrt n H n (Nat.le_refl _) (fun m _ h2 => hsq m h2)
  rw [Nat.sub_self] at h
  exact h

/-! ## the walks over `lambda_q` specialise to the dense loops when `lambda_q[k] = k-1` -/

omit [Field α] in
theorem walk_chain {σ : Type} (lq : Nat → Nat) (fuel j : Nat) (body : Nat → σ → σ) (s : σ)
    (hlq : ∀ k, 1 ≤ k → k ≤ j → lq k = k - 1) (hf : j ≤ fuel) :
    walk lq fuel j body s = forDown j j body s := by
  induction fuel generalizing j s with
  | zero =>
    have : j = 0 := by omega
    subst this; rfl
  | succ f ih =>
    cases j with
    | zero => rfl
    | succ j =>
      rw [walk, if_neg (by omega), hlq (j+1) (by omega) (Nat.le_refl _), Nat.add_sub_cancel,
        ih j _ (fun k h1 h2 => hlq k h1 (by omega)) (by omega)]
      rfl

theorem solveLxG_chain (lq : Nat → Nat) (n : Nat) (L : MatN α) (x : VecN α)
    (hlq : ∀ k, 1 ≤ k → k ≤ n → lq k = k - 1) : solveLxG lq n L x = solveLx n L x := by
  unfold solveLxG solveLx
  apply Loops.forUp_congr
  intro i s h1 h2
  simp only []
  rw [hlq i h1 (by omega), walk_chain lq n (i-1) _ _ (fun k h3 h4 => hlq k h3 (by omega)) (by omega)]

theorem solveLTxG_chain (lq : Nat → Nat) (n : Nat) (L : MatN α) (x : VecN α)
    (hlq : ∀ k, 1 ≤ k → k ≤ n → lq k = k - 1) : solveLTxG lq n L x = solveLTx n L x := by
  unfold solveLTxG solveLTx
  apply Loops.forDown_congr
  intro i s h1 h2
  unfold solveLTxStep
  simp only []
  rw [hlq i (by omega) h1,
    walk_chain lq n (i-1) _ _ (fun k h3 h4 => hlq k h3 (by omega)) (by omega)]

theorem ltlStepG_chain (lq : Nat → Nat) (sqrt : α → α) (n k : Nat) (H : MatN α)
    (hlq : ∀ k, 1 ≤ k → k ≤ n → lq k = k - 1) (h1 : 1 ≤ k) (h2 : k ≤ n) :
    ltlStepG lq sqrt n k H = ltlStep sqrt k H := by
  unfold ltlStepG ltlStep
  simp only []
  rw [hlq k h1 h2]
  rw [walk_chain lq n (k-1) _ _ (fun j h3 h4 => hlq j h3 (by omega)) (by omega),
    walk_chain lq n (k-1) _ _ (fun j h3 h4 => hlq j h3 (by omega)) (by omega)]
  apply Loops.forDown_congr
  intro i s h3 h4
  rw [walk_chain lq n i _ _ (fun j h5 h6 => hlq j h5 (by omega)) (by omega)]

theorem factorizeLTLG_chain (lq : Nat → Nat) (sqrt : α → α) (n : Nat) (H : MatN α)
    (hlq : ∀ k, 1 ≤ k → k ≤ n → lq k = k - 1) :
    factorizeLTLG lq sqrt n H = factorizeLTL sqrt n H := by
  unfold factorizeLTLG factorizeLTL
  apply Loops.forDown_congr
  intro k s h1 h2
  exact ltlStepG_chain lq sqrt n k s hlq (by omega) h1

/-! ## entries that are not written; the diagonal of the factor -/

theorem solveLx_outside (n : Nat) (L : MatN α) (b : VecN α) (r : Nat) (hr : n ≤ r) :
    solveLx n L b r = b r := by
  induction n with
  | zero => rfl
  | succ n ih => rw [solveLx_succ, upd_other _ _ _ _ (by omega)]; exact ih (by omega)

theorem solveLTx_outside (n : Nat) (L : MatN α) (b : VecN α) (r : Nat) (hr : n ≤ r) :
    solveLTx n L b r = b r := by
  induction n generalizing b with
  | zero => rfl
  | succ n ih =>
    rw [solveLTx_succ, ih _ (by omega), solveLTxStep_eq]
    have h1 : ¬ r < n := by omega
    have h2 : r ≠ n := by omega
    simp only [h1, h2, if_false]

/-- the iterations `k ≤ m` of the main loop do not write the rows `≥ m` -/
theorem ltlPartial_row_fixed (sqrt : α → α) (n : Nat) (H : MatN α) (m r c : Nat) (hmn : m ≤ n)
    (hmr : m ≤ r) (d : Nat) (hd : d ≤ m) :
    ltlPartial sqrt n H (m - d) r c = ltlPartial sqrt n H m r c := by
  induction d with
  | zero => rfl
  | succ d ih =>
    rw [ltlPartial_step sqrt n (m - (d+1)) (by omega), ltlStep_eq]
    have h1 : r ≠ m - (d+1) := by omega
    have h2 : ¬ (r < m - (d+1) ∧ c ≤ r) := by omega
    have e : m - (d+1) + 1 = m - d := by omega
    simp only [h1, h2, if_false, e]
    exact ih (by omega)

/-- the diagonal of the factor consists of the roots of the pivots -/
theorem factorizeLTL_diag (sqrt : α → α) (n : Nat) (H : MatN α) (m : Nat) (hm : m < n) :
    factorizeLTL sqrt n H m m = sqrt (ltlPivot sqrt n H m) := by
  have e := ltlPartial_row_fixed sqrt n H m m m (by omega) (Nat.le_refl _) m (Nat.le_refl _)
  rw [Nat.sub_self] at e
  rw [factorizeLTL_eq_partial, e, ltlPartial_step sqrt n m hm, ltlStep_eq]
  simp only [Nat.lt_irrefl, if_true, if_false]
  rfl

/-! ## double sums (for `H x = Lᵀ (L x)`) -/

theorem sumTo_mul_left (n : Nat) (a : α) (f : Nat → α) :
    a * sumTo n f = sumTo n (fun k => a * f k) := by
  induction n with
  | zero => simp only [sumTo_zero_n]; grind
  | succ k ih => simp only [sumTo_succ, ← ih]; grind

theorem sumTo_mul_right (n : Nat) (a : α) (f : Nat → α) :
    sumTo n f * a = sumTo n (fun k => f k * a) := by
  induction n with
  | zero => simp only [sumTo_zero_n]; grind
  | succ k ih => simp only [sumTo_succ, ← ih]; grind

theorem sumTo_swap (n m : Nat) (f : Nat → Nat → α) :
    sumTo n (fun i => sumTo m (fun j => f i j)) = sumTo m (fun j => sumTo n (fun i => f i j)) := by
  induction n with
  | zero => simp only [sumTo_zero_n]; rw [sumTo_zero m _ (fun _ _ => rfl)]
  | succ k ih => simp only [sumTo_succ, ih, sumTo_add]

/-- `(Lᵀ L) x = Lᵀ (L x)` on the block `[0,n)` -/
theorem ltl_mulVec (n : Nat) (L : MatN α) (x : VecN α) (c : Nat) :
    sumTo n (fun j => sumTo n (fun k => L k c * L k j) * x j)
      = sumTo n (fun k => L k c * sumTo n (fun j => L k j * x j)) := by
  have e1 : ∀ j, sumTo n (fun k => L k c * L k j) * x j = sumTo n (fun k => L k c * L k j * x j) :=
    fun j => sumTo_mul_right n (x j) _
  have e2 : ∀ k, L k c * sumTo n (fun j => L k j * x j) = sumTo n (fun j => L k c * (L k j * x j)) :=
    fun k => sumTo_mul_left n (L k c) _
  simp only [e1, e2]
  rw [sumTo_swap]
  apply sumTo_congr; intro k _
  apply sumTo_congr; intro j _
  grind

end

/-! ## concrete data over `Rat` for the non-vacuity examples -/
namespace Ex

/-- a 3×3 matrix from its rows (entries outside the block are `0`) -/
def mat3 (rows : List (List Rat)) : MatN Rat := fun i j => (rows.getD i []).getD j 0

/-- lower triangular, non-zero diagonal, non-zero off-diagonal entries -/
def L : MatN Rat := mat3 [[2, 0, 0], [1, 3, 0], [-1, 2, 1]]
/-- `H = Lᵀ L`, symmetric positive definite; the pivots of `SparseFactorizeLTL` are `1, 9, 4` -/
def H : MatN Rat := mat3 [[6, 1, -1], [1, 13, 2], [-1, 2, 1]]
def b : VecN Rat := fun i => [1, 2, 3].getD i 7
/-- a "square root" on `Rat` that is exact on the pivots `1, 9, 4` of `H` -/
def sqrtQ (x : Rat) : Rat := if x = 4 then 2 else if x = 9 then 3 else if x = 1 then 1 else 0
/-- `lambda_q` of a chain with three degrees of freedom -/
def lq : Nat → Nat := fun k => [0, 0, 1, 2].getD k 0


/-! closed facts about the data, by kernel evaluation (`Rat` arithmetic is irreducible for the
    elaborator's `decide`, so `decide +kernel`; no axioms beyond the standard three) -/

theorem L_diag : ∀ i, i < 3 → L i i ≠ 0 := by decide +kernel
theorem L_lower : ∀ i j, i < j → j < 3 → L i j = 0 :=
  fun i j h1 h2 => (by decide +kernel : ∀ j, j < 3 → ∀ i, i < j → L i j = 0) j h2 i h1
theorem L_offdiag : L 1 0 ≠ 0 ∧ L 2 0 ≠ 0 ∧ L 2 1 ≠ 0 := by decide +kernel
theorem H_symm : ∀ i j, i < 3 → j < 3 → H i j = H j i :=
  fun i j h1 h2 => (by decide +kernel : ∀ i, i < 3 → ∀ j, j < 3 → H i j = H j i) i h1 j h2
/-- the pivots of the run on `H`, in the order they are met -/
theorem H_pivots : ltlPivot sqrtQ 3 H 2 = 1 ∧ ltlPivot sqrtQ 3 H 1 = 9 ∧ ltlPivot sqrtQ 3 H 0 = 4 := by
  decide +kernel
theorem H_roots : ∀ m, m < 3 →
    sqrtQ (ltlPivot sqrtQ 3 H m) * sqrtQ (ltlPivot sqrtQ 3 H m) = ltlPivot sqrtQ 3 H m
    ∧ sqrtQ (ltlPivot sqrtQ 3 H m) ≠ 0 := by decide +kernel
/-- the factor of `H` is `L` (also outside the block, where both are `0`) -/
theorem H_factor : ∀ i j, i < 4 → j < 4 → factorizeLTL sqrtQ 3 H i j = L i j :=
  fun i j h1 h2 =>
    (by decide +kernel : ∀ i, i < 4 → ∀ j, j < 4 → factorizeLTL sqrtQ 3 H i j = L i j) i h1 j h2
theorem sqrtQ_exact : ∀ x : Rat, (x = 1 ∨ x = 4 ∨ x = 9) → sqrtQ x * sqrtQ x = x ∧ sqrtQ x ≠ 0 := by
  intro x hx
  rcases hx with h | h | h <;> subst h <;> decide +kernel
theorem lq_chain : ∀ k, 1 ≤ k → k ≤ 3 → lq k = k - 1 :=
  fun k h1 h2 => (by decide : ∀ k, k < 4 → 1 ≤ k → lq k = k - 1) k (by omega) h1
/-- the solutions computed by the two triangular solves and by factorise-and-solve -/
theorem solveLx_val : ∀ i, i < 4 → solveLx 3 L b i = [1/2, 1/2, 5/2, 7].getD i 0 := by
  decide +kernel
theorem solveLTx_val : ∀ i, i < 4 → solveLTx 3 L b i = [8/3, -4/3, 3, 7].getD i 0 := by
  decide +kernel
/-- the general routines on the chain `lq` compute the same as the dense ones -/
theorem general_val : (∀ i, i < 4 → solveLxG lq 3 L b i = solveLx 3 L b i)
    ∧ (∀ i, i < 4 → solveLTxG lq 3 L b i = solveLTx 3 L b i)
    ∧ (∀ i, i < 4 → ∀ j, j < 4 → factorizeLTLG lq sqrtQ 3 H i j = L i j) := by decide +kernel

end Ex
end Rbdl.L03.LTL
