import RbdlProofs.Props.C16
/-
  C07, algebra of the forward recursion, independent of the joint type:
  three steps of the recursion through bodies whose joint frames `X₂`, `X₃` are pure rotations
  collapse into one step of a composite joint.
-/
namespace Rbdl.L07
open Lean.Grind Rbdl
set_option linter.unusedSimpArgs false

section
variable {α : Type} [CommRing α]

theorem apply_add (X : XT α) (a b : SV α) : X.apply (a + b) = X.apply a + X.apply b := by alg_ext
theorem apply_smul (X : XT α) (k : α) (a : SV α) : X.apply (k * a) = k * X.apply a := by alg_ext
theorem apply_zero (X : XT α) : X.apply SV.zero = SV.zero := by alg_ext

/-- a Plücker transform is an automorphism of the motion cross product -/
theorem apply_crossm (X : XT α) (h : X.E.IsRot) (a b : SV α) :
    X.apply (crossm a b) = crossm (X.apply a) (X.apply b) := by rot_ext h

/-- composition with a pure rotation on the left needs no rotation hypothesis -/
theorem mul_apply_r0 (X Y : XT α) (h : X.r = V3.zero) (v : SV α) :
    (X * Y).apply v = X.apply (Y.apply v) := by
  obtain ⟨E, r⟩ := X
  simp only at h
  subst h
  alg_ext

theorem mul_r0 (X Y : XT α) (hx : X.r = V3.zero) (hy : Y.r = V3.zero) : (X * Y).r = V3.zero := by
  obtain ⟨E, r⟩ := X
  obtain ⟨E', r'⟩ := Y
  simp only at hx hy
  subst hx hy
  alg_ext

/-- what one step of the forward recursion computes for a body: `X_base`, `v`, `a` -/
structure Kin (α : Type) where
  Xb : XT α
  v : SV α
  a : SV α

/-- one step of the forward recursion: `X_base = X_λ X_base(λ)`, `v = X_λ v(λ) + v_J`,
    `a = X_λ a(λ) + (c_J + v ×ₘ v_J) + S q̈` -/
def kstep (X : XT α) (vJ cJ sq : SV α) (p : Kin α) : Kin α :=
  ⟨X * p.Xb, X.apply p.v + vJ, X.apply p.a + (cJ + crossm (X.apply p.v + vJ) vJ) + sq⟩

/-- relative velocity of the last body of a chain of three joints w.r.t. the chain's parent -/
def chainVJ (X2 X3 : XT α) (vJ1 vJ2 vJ3 : SV α) : SV α :=
  X3.apply (X2.apply vJ1) + X3.apply vJ2 + vJ3

/-- velocity-product acceleration accumulated by a chain of three joints whose parent is at
    rest: `X₃ X₂ c₁ + X₃ c₂ + c₃` with `c_k = c_J,k + v_k ×ₘ v_J,k` -/
def chainCJ (X2 X3 : XT α) (vJ1 cJ1 vJ2 cJ2 vJ3 cJ3 : SV α) : SV α :=
  let v1 := vJ1
  let v2 := X2.apply v1 + vJ2
  let v3 := X3.apply v2 + vJ3
  X3.apply (X2.apply (cJ1 + crossm v1 vJ1)) + X3.apply (cJ2 + crossm v2 vJ2)
    + (cJ3 + crossm v3 vJ3)

/-- the same quantity in closed form: transported `c_J`s plus the cross products of the
    transported relative velocities -/
theorem chainCJ_closed (X2 X3 : XT α) (h2 : X2.E.IsRot) (h3 : X3.E.IsRot)
    (vJ1 cJ1 vJ2 cJ2 vJ3 cJ3 : SV α) :
    chainCJ X2 X3 vJ1 cJ1 vJ2 cJ2 vJ3 cJ3
      = X3.apply (X2.apply cJ1) + X3.apply cJ2 + cJ3
        + crossm (X3.apply (X2.apply vJ1)) (X3.apply vJ2 + vJ3)
        + crossm (X3.apply vJ2) vJ3 := by
  unfold chainCJ
  simp only [apply_add, apply_crossm X2 h2, apply_crossm X3 h3]
  generalize X3.apply (X2.apply vJ1) = T1
  generalize X3.apply vJ2 = T2
  generalize X3.apply (X2.apply cJ1) = C1
  generalize X3.apply cJ2 = C2
  alg_ext

/-- `(X₃ X₂ X₁) v = X₃ (X₂ (X₁ v))` when `X₂`, `X₃` are pure rotations (no hypothesis on `X₁`) -/
theorem mul_apply3_r0 (X1 X2 X3 : XT α) (r2 : X2.r = V3.zero) (r3 : X3.r = V3.zero) (v : SV α) :
    (X3 * X2 * X1).apply v = X3.apply (X2.apply (X1.apply v)) := by
  rw [C16.mul_assoc, mul_apply_r0 _ _ r3, mul_apply_r0 _ _ r2]

/-- `(X₃ X₂ X₁) v = X₃ (X₂ (X₁ v))` when `X₁`, `X₂` have rotation matrices -/
theorem mul_apply3_rot (X1 X2 X3 : XT α) (h1 : X1.E.IsRot) (h2 : X2.E.IsRot) (v : SV α) :
    (X3 * X2 * X1).apply v = X3.apply (X2.apply (X1.apply v)) := by
  rw [C16.mul_assoc, C16.mul_apply _ _ (show (X2 * X1).E.IsRot from h2.mul h1),
    C16.mul_apply _ _ h1]

/-- **three steps = one step** (velocity, acceleration and base transform) -/
theorem kstep3 (X1 X2 X3 : XT α) (h2 : X2.E.IsRot) (h3 : X3.E.IsRot)
    (e1 : ∀ v, (X3 * X2 * X1).apply v = X3.apply (X2.apply (X1.apply v)))
    (vJ1 cJ1 sq1 vJ2 cJ2 sq2 vJ3 cJ3 sq3 : SV α) (p : Kin α) :
    kstep X3 vJ3 cJ3 sq3 (kstep X2 vJ2 cJ2 sq2 (kstep X1 vJ1 cJ1 sq1 p))
      = kstep (X3 * X2 * X1) (chainVJ X2 X3 vJ1 vJ2 vJ3)
          (chainCJ X2 X3 vJ1 cJ1 vJ2 cJ2 vJ3 cJ3)
          (X3.apply (X2.apply sq1) + X3.apply sq2 + sq3) p := by
  rw [chainCJ_closed X2 X3 h2 h3]
  unfold kstep chainVJ
  simp only [e1, apply_add, apply_crossm X2 h2, apply_crossm X3 h3]
  generalize X3.apply (X2.apply (X1.apply p.v)) = V
  generalize X3.apply (X2.apply (X1.apply p.a)) = A
  generalize X3.apply (X2.apply vJ1) = T1
  generalize X3.apply vJ2 = T2
  generalize X3.apply (X2.apply cJ1) = C1
  generalize X3.apply cJ2 = C2
  generalize X3.apply (X2.apply sq1) = Q1
  generalize X3.apply sq2 = Q2
  congr 1
  · rw [C16.mul_assoc, C16.mul_assoc]
  · alg_ext
  · alg_ext

end
end Rbdl.L07
