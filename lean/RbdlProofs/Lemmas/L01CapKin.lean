import RbdlProofs.Lemmas.L01CapAlg
import RbdlProofs.Lemmas.L05Ws
/-
  C01 capstone, kinematic layer.

  * `jointWS_of_fixed`     the workspace invariant `WSFixed` (C13: what survives poisoning) gives the
                           construction-time content `L06.JointWS` that `jcalc` relies on;
  * `fwd_bodyForm`         in every workspace that satisfies the closed form `FwdClosed` of the RNEA
                           forward pass, `(v[i], a[i] − (0, −Rᵢᵀ g))` are the body-frame spatial velocity /
                           acceleration of the world pose jet of body `i` (`a[0] = −g`: the gravity trick);
  * `unit_velocity_downTo` with the generalized velocity `e_x` the velocity of body `k` is the column of
                           `S` that owns `x`, carried down the tree (`L01.downTo`): the partial velocity.
-/
namespace Rbdl.L01Cap
open Lean.Grind Rbdl Rbdl.Spec Rbdl.L06 Rbdl.L01 Rbdl.L05 Rbdl.Loops
set_option linter.unusedSimpArgs false
set_option linter.unusedVariables false
set_option linter.unusedSectionVars false

section
variable {α : Type} [Field α]

/-! ### `WSFixed` gives `JointWS` -/

theorem jointWS_of_fixed (m : ModelS α) (w : WS α) (i : Nat) (hd : JointDecl (m.joint i))
    (hf : FixedAt (m.joint i).jt ((m.joint i).axes.headD SV.zero) (w.S i) (w.v_J i) (w.c_J i)
      (w.S3 i)) : JointWS m w i := by
  unfold JointDecl at hd
  unfold JointWS
  unfold FixedAt at hf
  dsimp only at hd hf ⊢
  cases hj : (m.joint i).jt <;> simp only [hj] at hd hf ⊢
  case revoluteX => exact ⟨hd.1, hf.2.1, hf.2.2.1, hf.2.2.2.1, hf.1, hf.2.2.2.2⟩
  case revoluteY => exact ⟨hd.1, hf.2.1, hf.2.2.1, hf.2.2.2.1, hf.1, hf.2.2.2.2⟩
  case revoluteZ => exact ⟨hd.1, hf.2.1, hf.2.2.1, hf.2.2.2.1, hf.1, hf.2.2.2.2⟩
  case revolute =>
    refine ⟨hd.1, ?_, hf.2⟩
    rw [hf.1, ← hd.2]
  case prismatic =>
    refine ⟨hd.1, ?_, hf.2⟩
    rw [hf.1, ← hd.2]
  case helical => exact hd
  case spherical =>
    obtain ⟨hc, hS⟩ := hf
    simp only [S3mask, M63.setW, M63.zero, SV.zero, V3.zero, M63.mk.injEq, SV.ext_iff, V3.ext_iff]
      at hS
    refine ⟨hd, hc, ?_⟩
    simp only [vZero, V3.ext_iff, V3.zero]
    grind
  case eulerZYX =>
    simp only [S3mask, M63.setW, M63.zero, SV.zero, V3.zero, M63.mk.injEq, SV.ext_iff, V3.ext_iff]
      at hf
    refine ⟨hd, ?_⟩
    simp only [vZero, V3.ext_iff, V3.zero]
    grind
  case eulerXYZ =>
    simp only [S3mask, M63.setW, M63.zero, SV.zero, V3.zero, M63.mk.injEq, SV.ext_iff, V3.ext_iff]
      at hf
    refine ⟨hd, ?_⟩
    simp only [vZero, V3.ext_iff, V3.zero]
    grind
  case eulerYXZ =>
    simp only [S3mask, M63.setW, M63.zero, SV.zero, V3.zero, M63.mk.injEq, SV.ext_iff, V3.ext_iff]
      at hf
    refine ⟨hd, ?_⟩
    simp only [vZero, V3.ext_iff, V3.zero]
    grind
  case eulerZXY =>
    simp only [S3mask, M63.setW, M63.zero, SV.zero, V3.zero, M63.mk.injEq, SV.ext_iff, V3.ext_iff]
      at hf
    refine ⟨hd, ?_⟩
    simp only [vZero, V3.ext_iff, V3.zero]
    grind
  case translationXYZ =>
    simp only [S3mask, M63.zero, SV.zero, V3.zero, M63.mk.injEq, SV.ext_iff, V3.ext_iff] at hf
    refine ⟨hd, ?_⟩
    simp only [V3.ext_iff, V3.zero]
    grind

/-! ### the forward pass in body form -/

theorem sv_step_ag (X XJ : XT α) (Al Gl Vl vJ S cJ : SV α) :
    X.apply (Al - Gl) + (XJ.apply SV.zero + (S + cJ) + crossm (XJ.apply SV.zero + vJ) vJ)
        + crossm (X.apply Vl + (XJ.apply SV.zero + vJ)) (XJ.apply SV.zero + vJ)
      = X.apply Al + (cJ + crossm (X.apply Vl + vJ) vJ) + S - X.apply Gl := by alg_ext

/-- **the forward pass of the recursive Newton–Euler algorithm computes time derivatives**: let `P`
    be the table of world pose jets (`P 0 = id`, `P i = P (λ i) ∘ frame_i ∘ joint_i`).  In every
    workspace `W` satisfying the closed form of the forward pass, `v[i]` is the spatial velocity of
    `P i` and `a[i]` its spatial acceleration plus the gravity offset `(0, −Rᵢᵀ g)`. -/
theorem fwd_bodyForm (m : ModelS α) (w W : WS α) (st : QS α) (qd qdd : VecN α) (h2 : (2 : α) ≠ 0)
    (htree : ∀ i, 1 ≤ i → i < m.nBodies → m.lam i < i)
    (hjc : ∀ i, 1 ≤ i → i < m.nBodies → (m.joint i).jt.hasJcalc = true)
    (hframe : ∀ i, 1 ≤ i → i < m.nBodies → (m.XT_ i).E.IsRot)
    (hunit : ∀ i, 1 ≤ i → i < m.nBodies → m.jointUnit i st)
    (hws : ∀ i, 1 ≤ i → i < m.nBodies → JointWS m w i)
    (hw3 : ∀ i, 1 ≤ i → i < m.nBodies → (m.joint i).jt = .spherical →
      (m.joint i).qIndex + 2 < m.w3 i)
    (harity : ∀ i, 1 ≤ i → i < m.nBodies → m.arity i ≠ .other)
    (hF : FwdClosed m st qd qdd w W)
    (P : Nat → Pose (D2 α)) (hP0 : P 0 = Pose.id)
    (hP : ∀ i, 1 ≤ i → i < m.nBodies →
      P i = (P (m.lam i)).comp ((framePoseJet m i).comp (jointPoseJet m i st qd qdd))) :
    ∀ i, i < m.nBodies →
      BodyForm (NodeKin.ofPose (P i)) (W.v i) (W.a i - gAt (NodeKin.ofPose (P i)) m.gravity) := by
  intro i
  induction i using Nat.strongRecOn with
  | _ i ih =>
    intro hi
    by_cases hz : i = 0
    · subst hz
      rw [hP0, hF.v0, hF.a0, gAt_id]
      have e : spatialGravityNeg m - (⟨V3.zero, -m.gravity⟩ : SV α) = SV.zero := sv_sub_self _
      rw [e]
      exact bf_poseId
    · have h1 : 1 ≤ i := by omega
      have hlt := htree i h1 hi
      have hjm : JointMotion m w i st qd qdd :=
        jointMotion m w i st qd qdd h2 (hjc i h1 hi) (hunit i h1 hi) (hws i h1 hi) (hw3 i h1 hi)
      have hl := ih (m.lam i) hlt (by omega)
      have hall := hl.comp ((bf_frame m i (hframe i h1 hi)).comp hjm)
      have hX : xtOfKin (compKin (NodeKin.ofPose (framePoseJet m i))
            (NodeKin.ofPose (jointPoseJet m i st qd qdd))) = W.X_lambda i := by
        rw [xtOfKin_compKin, xtOfKin_frame, ← jcalc_X_lambda_joint m w i st qd qd qdd (hjc i h1 hi),
          ← hF.jX i h1 hi]
      have hSq : WS.Sqdd (jcalc m w i st qd) m i qdd = W.Sqdd m i qdd :=
        (Sqdd_congr m W _ i qdd (fun _ => hF.jS i h1 hi) (fun _ => hF.jS3 i h1 hi)
          (fun hc => hF.jcS i h1 hi hc)).symm
      rw [hP i h1 hi, ofPose_comp, ofPose_comp]
      refine hall.congr ?_ ?_
      · rw [hX, hF.v i h1 hi, hF.jvJ i h1 hi]
        exact sv_step_v _ _ _ _
      · rw [gAt_comp, hX, hF.a i h1 hi (harity i h1 hi), hF.c i h1 hi, hF.v i h1 hi,
          hF.jvJ i h1 hi, hF.jcJ i h1 hi, hSq]
        exact sv_step_ag _ _ _ _ _ _ _ _

/-! ### the motion subspace does not depend on the velocity -/

theorem customCalc_cols_indep (kind : CustomKind) (k : Nat) (st : QS α) (qd qd' : VecN α) :
    (customCalc kind k st qd).2.1 = (customCalc kind k st qd').2.1 := by
  cases kind <;> rfl

theorem jcalc_Scols_indep (m : ModelS α) (w : WS α) (i : Nat) (st : QS α) (qd qd' : VecN α) :
    (jcalc m w i st qd).Scols m i = (jcalc m w i st qd').Scols m i := by
  refine L05.Scols_congr m _ _ i ?_ ?_ ?_
  · unfold jcalc; dsimp only
    cases h : (m.joint i).jt <;> rfl
  · unfold jcalc; dsimp only
    cases h : (m.joint i).jt <;> rfl
  · intro hc
    rw [jcalc_cS, jcalc_cS, if_pos hc, if_pos hc, upd_same, upd_same]
    exact customCalc_cols_indep _ _ _ _ _

/-- unit generalized velocity -/
def unitV (x : Nat) : VecN α := fun i => if i = x then 1 else 0

theorem sv_one_mul (a : SV α) : (1 : α) * a = a := by alg_ext
theorem sv_zero_mul (a : SV α) : (0 : α) * a = SV.zero := by alg_ext

theorem wsum_unit (q x : Nat) (cols : List (SV α)) (s : Nat) :
    wsum (fun z => (unitV x : VecN α) (q + z)) s cols
      = if q + s ≤ x ∧ x < q + s + cols.length then cols.getD (x - (q + s)) SV.zero
        else SV.zero := by
  induction cols generalizing s with
  | nil =>
    simp only [wsum, List.length_nil, Nat.add_zero]
    split
    · omega
    · rfl
  | cons c cols ih =>
    rw [wsum, ih (s + 1)]
    simp only [unitV, List.length_cons]
    by_cases h0 : q + s = x
    · rw [if_pos h0, sv_one_mul, if_neg (by omega), L05.sv_add_zero, if_pos (by omega)]
      have : x - (q + s) = 0 := by omega
      rw [this]; rfl
    · rw [if_neg h0, sv_zero_mul, L05.sv_zero_add]
      by_cases h1 : q + (s + 1) ≤ x ∧ x < q + (s + 1) + cols.length
      · rw [if_pos h1, if_pos (by omega)]
        have : x - (q + s) = (x - (q + (s + 1))) + 1 := by omega
        rw [this]; rfl
      · rw [if_neg h1, if_neg (by omega)]

/-- the joint velocity `jcalc` computes for the unit generalized velocity `e_x`: the column of `S_i`
    that belongs to `x`, or 0 if joint `i` does not own `x` -/
theorem jcalc_v_J_unit (m : ModelS α) (w : WS α) (i : Nat) (st : QS α) (x : Nat)
    (hj : (m.joint i).jt.hasJcalc = true) (hws : JointWS m w i) :
    (jcalc m w i st (unitV x)).v_J i
      = if (m.joint i).qIndex ≤ x ∧
            x < (m.joint i).qIndex + ((jcalc m w i st (unitV x)).Scols m i).length
        then ((jcalc m w i st (unitV x)).Scols m i).getD (x - (m.joint i).qIndex) SV.zero
        else SV.zero := by
  rw [jcalc_v_J_cols m w i st _ hj hws]
  exact wsum_unit _ _ _ 0

/-! ### partial velocities -/

/-- **partial velocities**: in a forward-pass workspace `Wx` for the generalized velocity `e_x`
    (`x` owned by joint `i`) the velocity of body `k` is `S_i(:, x − q_i)` carried down the tree along
    the `X_λ` (which do not depend on the velocity), and zero outside the subtree of `i`. -/
theorem unit_velocity_downTo (m : ModelS α) (w W Wx : WS α) (st : QS α) (qd qdd qddx : VecN α)
    (x : Nat)
    (htree : ∀ i, 1 ≤ i → i < m.nBodies → m.lam i < i)
    (hjc : ∀ i, 1 ≤ i → i < m.nBodies → (m.joint i).jt.hasJcalc = true)
    (hws : ∀ i, 1 ≤ i → i < m.nBodies → JointWS m w i)
    (hF : FwdClosed m st qd qdd w W) (hFx : FwdClosed m st (unitV x) qddx w Wx)
    (hdisj : ∀ i j x, 1 ≤ i → i < m.nBodies → 1 ≤ j → j < m.nBodies →
      owns m W i x → owns m W j x → i = j)
    (i : Nat) (h1 : 1 ≤ i) (h2 : i < m.nBodies) (ho : owns m W i x) (fuel : Nat) :
    ∀ k, k < m.nBodies → k ≤ fuel →
      Wx.v k = downTo W.X_lambda m.lam i fuel k
        ((W.Scols m i).getD (x - (m.joint i).qIndex) SV.zero) := by
  -- the columns and the transforms of the two workspaces agree
  have hcols : ∀ j, 1 ≤ j → j < m.nBodies →
      (jcalc m w j st (unitV x)).Scols m j = W.Scols m j := by
    intro j j1 j2
    rw [jcalc_Scols_indep m w j st (unitV x) qd]
    exact (L01.Scols_congr m W _ j (fun _ => hF.jS j j1 j2) (fun _ => hF.jS3 j j1 j2)
      (fun hc => hF.jcS j j1 j2 hc)).symm
  have hXl : ∀ j, 1 ≤ j → j < m.nBodies → Wx.X_lambda j = W.X_lambda j := by
    intro j j1 j2
    rw [hFx.jX j j1 j2, hF.jX j j1 j2, jcalc_X_lambda, jcalc_X_lambda]
  have hvJ : ∀ j, 1 ≤ j → j < m.nBodies →
      Wx.v_J j = if (m.joint j).qIndex ≤ x ∧ x < (m.joint j).qIndex + (W.Scols m j).length
        then (W.Scols m j).getD (x - (m.joint j).qIndex) SV.zero else SV.zero := by
    intro j j1 j2
    rw [hFx.jvJ j j1 j2, jcalc_v_J_unit m w j st x (hjc j j1 j2) (hws j j1 j2), hcols j j1 j2]
  induction fuel with
  | zero =>
    intro k hk hk0
    have : k = 0 := by omega
    subst this
    rw [hFx.v0]
    simp only [downTo]
    rw [if_neg (by omega)]
  | succ f ihf =>
    intro k
    induction k using Nat.strongRecOn with
    | _ k ih =>
      intro hk hkf
      simp only [downTo]
      by_cases hz : k = 0
      · subst hz
        rw [hFx.v0, if_neg (by omega), if_pos (by omega)]
      · have k1 : 1 ≤ k := by omega
        have hlt := htree k k1 hk
        rw [hFx.v k k1 hk, hXl k k1 hk, hvJ k k1 hk]
        by_cases hki : k = i
        · subst hki
          have ho' : (m.joint k).qIndex ≤ x ∧ x < (m.joint k).qIndex + (W.Scols m k).length := ho
          rw [if_pos rfl, if_pos ho']
          -- the parent of `i` lies above `i`: its velocity vanishes
          have hp := ih (m.lam k) hlt (by omega) (by omega)
          simp only [downTo] at hp
          rw [if_neg (by omega), if_pos hlt] at hp
          rw [hp, L05.apply_zero, L05.sv_zero_add]
        · rw [if_neg hki]
          have hno : ¬ ((m.joint k).qIndex ≤ x ∧ x < (m.joint k).qIndex + (W.Scols m k).length) :=
            fun hk' => hki (hdisj k i x k1 hk h1 h2 hk' ho)
          rw [if_neg hno, L05.sv_add_zero]
          by_cases hlt' : k < i
          · rw [if_pos hlt']
            have hp := ih (m.lam k) hlt (by omega) (by omega)
            simp only [downTo] at hp
            rw [if_neg (by omega), if_pos (by omega)] at hp
            rw [hp, L05.apply_zero]
          · rw [if_neg hlt']
            rw [ihf (m.lam k) (by omega) (by omega)]

end
end Rbdl.L01Cap
