import RbdlProofs.Lemmas.L08PhysKE
/-
  C10, the energy balance of an impact in the entrywise form of the code-shaped model (finite sums
  `sumTo`), core Lean: for a symmetric `H`, `H (q̇⁺ − q̇⁻) + Gᵀ Λ = 0` and `G q̇⁺ = 0` give
  `q̇⁻ᵀ H q̇⁻ − q̇⁺ᵀ H q̇⁺ = (q̇⁺ − q̇⁻)ᵀ H (q̇⁺ − q̇⁻)`.  (The Mathlib-matrix form is `C10.impulse_energy`;
  it is re-proved here because the examples of the code model over `Rat` live on the core
  `Lean.Grind.Field Rat` instance, which is not definitionally the one Mathlib derives.)
-/
set_option linter.unusedSectionVars false
namespace Rbdl.L08Phys
open Lean.Grind Rbdl Rbdl.L09

section
variable {α : Type} [Field α] [DecidableEq α]

/-- the bilinear form `xᵀ H y` of the leading `n × n` block -/
def bil (H : MatN α) (n : Nat) (x y : VecN α) : α :=
  sumTo n (fun r => x r * sumTo n (fun c => H r c * y c))

theorem sumTo_swap (n k : Nat) (f : Nat → Nat → α) :
    sumTo n (fun r => sumTo k (fun c => f r c)) = sumTo k (fun c => sumTo n (fun r => f r c)) := by
  induction n with
  | zero =>
    simp only [sumTo]
    induction k with
    | zero => rfl
    | succ k ih => rw [sumTo, ← ih]; grind
  | succ n ih =>
    rw [sumTo, ih, ← sumTo_add]
    exact sumTo_congr _ _ _ (fun c _ => by rw [sumTo])

theorem bil_sub_right (H : MatN α) (n : Nat) (x y z : VecN α) :
    bil H n x (fun c => y c - z c) = bil H n x y - bil H n x z := by
  unfold bil
  rw [← sumTo_sub]
  refine sumTo_congr _ _ _ (fun r _ => ?_)
  have : sumTo n (fun c => H r c * (y c - z c))
      = sumTo n (fun c => H r c * y c) - sumTo n (fun c => H r c * z c) := by
    rw [← sumTo_sub]; exact sumTo_congr _ _ _ (fun c _ => by grind)
  rw [this]; grind

theorem bil_sub_left (H : MatN α) (n : Nat) (x y z : VecN α) :
    bil H n (fun c => x c - z c) y = bil H n x y - bil H n z y := by
  unfold bil
  rw [← sumTo_sub]
  exact sumTo_congr _ _ _ (fun r _ => by grind)

theorem bil_symm (H : MatN α) (n : Nat) (hH : ∀ r c, r < n → c < n → H r c = H c r)
    (x y : VecN α) : bil H n x y = bil H n y x := by
  unfold bil
  have e1 : ∀ (u v : VecN α), sumTo n (fun r => u r * sumTo n (fun c => H r c * v c))
      = sumTo n (fun r => sumTo n (fun c => u r * H r c * v c)) := fun u v =>
    sumTo_congr _ _ _ (fun r _ => by
      rw [← sumTo_smul]; exact sumTo_congr _ _ _ (fun c _ => by grind))
  rw [e1 x y, e1 y x, sumTo_swap]
  refine sumTo_congr _ _ _ (fun c hc => sumTo_congr _ _ _ (fun r hr => ?_))
  rw [hH r c hr hc]; grind

/-- `xᵀ (Gᵀ L) = (G x)ᵀ L` -/
theorem colDot_dual (G : MatN α) (nc nv : Nat) (x L : VecN α) :
    sumTo nv (fun r => x r * colDot G nc r L) = sumTo nc (fun k => rowDot G nv k x * L k) := by
  unfold colDot rowDot
  have e1 : sumTo nv (fun r => x r * sumTo nc (fun k => G k r * L k))
      = sumTo nv (fun r => sumTo nc (fun k => G k r * x r * L k)) :=
    sumTo_congr _ _ _ (fun r _ => by
      rw [← sumTo_smul]; exact sumTo_congr _ _ _ (fun k _ => by grind))
  have e2 : sumTo nc (fun k => sumTo nv (fun j => G k j * x j) * L k)
      = sumTo nc (fun k => sumTo nv (fun r => G k r * x r * L k)) :=
    sumTo_congr _ _ _ (fun k _ => by
      have : sumTo nv (fun r => G k r * x r * L k) = L k * sumTo nv (fun r => G k r * x r) := by
        rw [← sumTo_smul]; exact sumTo_congr _ _ _ (fun r _ => by grind)
      rw [this]; grind)
  rw [e1, e2, sumTo_swap]

/-- **energy balance of an impact with `v⁺ = 0`** (entrywise): `q̇⁻ᵀ H q̇⁻ = q̇⁺ᵀ H q̇⁺ + dᵀ H d`,
    `d = q̇⁺ − q̇⁻` -/
theorem impulse_energy_entrywise (H G : MatN α) (nv nc : Nat)
    (hH : ∀ r c, r < nv → c < nv → H r c = H c r) (qm qp L : VecN α)
    (hrel : ∀ r, r < nv → sumTo nv (fun c => H r c * (qp c - qm c)) + colDot G nc r L = 0)
    (hG : ∀ k, k < nc → rowDot G nv k qp = 0) :
    bil H nv qm qm = bil H nv qp qp + bil H nv (fun c => qp c - qm c) (fun c => qp c - qm c) := by
  -- `q̇⁺ᵀ H d = 0`
  have h0 : bil H nv qp (fun c => qp c - qm c) = 0 := by
    unfold bil
    have e : sumTo nv (fun r => qp r * sumTo nv (fun c => H r c * (qp c - qm c)))
        = sumTo nv (fun r => -(qp r * colDot G nc r L)) :=
      sumTo_congr _ _ _ (fun r hr => by have := hrel r hr; grind)
    have e2 : sumTo nv (fun r => -(qp r * colDot G nc r L))
        = -sumTo nv (fun r => qp r * colDot G nc r L) := by
      have := sumTo_smul nv (-1 : α) (fun r => qp r * colDot G nc r L)
      have e3 : sumTo nv (fun r => -(qp r * colDot G nc r L))
          = sumTo nv (fun r => (-1 : α) * (qp r * colDot G nc r L)) :=
        sumTo_congr _ _ _ (fun r _ => by grind)
      rw [e3, this]; grind
    rw [e, e2, colDot_dual]
    have z : sumTo nc (fun k => rowDot G nv k qp * L k) = 0 := by
      have : sumTo nc (fun k => rowDot G nv k qp * L k) = sumTo nc (fun _ => (0 : α)) :=
        sumTo_congr _ _ _ (fun k hk => by rw [hG k hk]; grind)
      rw [this, sumTo_zero_fun]
    rw [z]; grind
  have hs := bil_symm H nv hH qp (fun c => qp c - qm c)
  have a1 := bil_sub_right H nv qp qp qm
  have a2 := bil_sub_left H nv qp (fun c => qp c - qm c) qm
  have a3 := bil_sub_right H nv qm qp qm
  have a4 := bil_symm H nv hH qm qp
  grind

end

section Ordered
variable {α : Type} [Field α] [DecidableEq α] [LE α] [LT α] [Std.LawfulOrderLT α]
  [Std.IsLinearOrder α] [OrderedRing α]

theorem rsum_nonneg (lo n : Nat) (g : Nat → α) (h : ∀ i, lo ≤ i → i < lo + n → 0 ≤ g i) :
    0 ≤ rsum lo n g := by
  induction n generalizing lo with
  | zero => rw [rsum_zero]; grind
  | succ n ih =>
    rw [rsum_succ_front]
    have h1 := h lo (Nat.le_refl _) (by omega)
    have h2 := ih (lo + 1) (fun i a b => h i (by omega) (by omega))
    grind

/-- a nonnegative quadratic form of the velocity jump makes the energy non-increasing -/
theorem impulse_energy_le (H G : MatN α) (nv nc : Nat)
    (hH : ∀ r c, r < nv → c < nv → H r c = H c r) (hpsd : ∀ x : VecN α, 0 ≤ bil H nv x x)
    (qm qp L : VecN α)
    (hrel : ∀ r, r < nv → sumTo nv (fun c => H r c * (qp c - qm c)) + colDot G nc r L = 0)
    (hG : ∀ k, k < nc → rowDot G nv k qp = 0) :
    bil H nv qp qp / 2 ≤ bil H nv qm qm / 2 := by
  have e := impulse_energy_entrywise H G nv nc hH qm qp L hrel hG
  have p := hpsd (fun c => qp c - qm c)
  grind

end Ordered
end Rbdl.L08Phys
