import RbdlProofs.Lemmas.LKinCapAlg
import RbdlProofs.Lemmas.LKinCapJac
import RbdlProofs.Props.C04
/-
  Kinematics capstones, assembly: every public kinematics routine (called with
  `update_kinematics = true` on a workspace satisfying `WSFixed`) against the specification, for a body
  id that `Resolves` (to a movable body `b` and a constant transform `T` on the code side, to the node
  with pose jet `P b ∘ T` on the specification side).
-/
namespace Rbdl.LKinCap
open Lean.Grind Rbdl Rbdl.Spec Rbdl.L06 Rbdl.L05 Rbdl.L01Cap Rbdl.Loops
set_option linter.unusedSimpArgs false
set_option linter.unusedVariables false
set_option linter.unusedSectionVars false

section
variable {α : Type} [Field α] [DecidableEq α]

/-! ### normal forms of the code -/

theorem codeAt_bodyToBase0 {m : ModelS α} {id b : Nat} {T : XT α} (hc : CodeAt m id b T)
    (W : WS α) (p : V3 α) :
    bodyToBase0 m W id p
      = (W.X_base b).r + (W.X_base b).E.tmulVec (T.r + T.E.tmulVec p) := by
  rcases hc with ⟨hid, rfl, rfl⟩ | ⟨hf, rfl, rfl⟩
  · rw [bodyToBase0_movable m W b p hid]
    generalize W.X_base b = X
    alg_ext
  · exact bodyToBase0_fixed m W id p (fixedDisc_le_of_fixed m id hf)

theorem codeAt_baseToBody0 {m : ModelS α} {id b : Nat} {T : XT α} (hc : CodeAt m id b T)
    (W : WS α) (p : V3 α) :
    baseToBody0 m W id p = T.E * (-T.r - (W.X_base b).E * ((W.X_base b).r - p)) := by
  rcases hc with ⟨hid, rfl, rfl⟩ | ⟨hf, rfl, rfl⟩
  · unfold baseToBody0
    rw [if_neg hid]
    generalize W.X_base b = X
    alg_ext
  · unfold baseToBody0
    rw [if_pos (fixedDisc_le_of_fixed m id hf)]

theorem codeAt_orientation {m : ModelS α} {id b : Nat} {T : XT α} (hc : CodeAt m id b T)
    (W : WS α) : (worldOrientation0 m W id).2 = (T * W.X_base b).E := by
  rw [C04.orientation_eq]
  rcases hc with ⟨hid, rfl, rfl⟩ | ⟨hf, rfl, rfl⟩
  · rw [if_neg hid, C16.id_mul]
  · rw [if_pos (fixedDisc_le_of_fixed m id hf)]
    rfl

theorem codeAt_refBody {m : ModelS α} {id b : Nat} {T : XT α} (hc : CodeAt m id b T) :
    m.refBody id = b := by
  rcases hc with ⟨hid, rfl, rfl⟩ | ⟨hf, rfl, rfl⟩
  · exact refBody_movable m b hid
  · exact refBody_fixed m id hf

theorem v3_id_point (p : V3 α) : (XT.id : XT α).r + (XT.id : XT α).E.tmulVec p = p := by alg_ext

theorem codeAt_refPoint {m : ModelS α} {id b : Nat} {T : XT α} (hc : CodeAt m id b T)
    (hb : ¬ fixedDisc ≤ b) (W : WS α) (hrot : (W.X_base b).E.IsRot) (p : V3 α) :
    refPoint m W id p = (b, T.r + T.E.tmulVec p) := by
  rcases hc with ⟨hid, rfl, rfl⟩ | ⟨hf, rfl, rfl⟩
  · unfold refPoint
    rw [isFixedBodyId_of_not m b hid, v3_id_point]
    rfl
  · unfold refPoint
    rw [hf, if_pos rfl]
    dsimp only
    rw [bodyToBase0_fixed m W id p (fixedDisc_le_of_fixed m id hf)]
    unfold baseToBody0
    rw [if_neg hb]
    dsimp only
    rw [back_forth _ hrot _]

theorem codeAt_bsjT {m : ModelS α} {id b : Nat} {T : XT α} (hc : CodeAt m id b T) (W : WS α) :
    bsjT m W id = T * W.X_base b := by
  rcases hc with ⟨hid, rfl, rfl⟩ | ⟨hf, rfl, rfl⟩
  · rw [bsjT_movable m W b hid, C16.id_mul]
  · exact bsjT_fixed m W id hf

/-- workspace with `v[0]` cleared (what the velocity routine does on entry) -/
def clrV (w : WS α) : WS α := { w with v := upd w.v 0 SV.zero }
/-- workspace with `v[0]`, `a[0]` cleared (what the acceleration routine does on entry) -/
def clrVA (w : WS α) : WS α := { w with v := upd w.v 0 SV.zero, a := upd w.a 0 SV.zero }

theorem clrV_v0 (w : WS α) : (clrV w).v 0 = SV.zero := by
  show upd w.v 0 SV.zero 0 = SV.zero
  exact upd_same _ _ _
theorem clrVA_v0 (w : WS α) : (clrVA w).v 0 = SV.zero := by
  show upd w.v 0 SV.zero 0 = SV.zero
  exact upd_same _ _ _

theorem wsfixed_clrV {m : ModelS α} {w : WS α} (h : WSFixed m w) : WSFixed m (clrV w) :=
  L13.wsfixed_congr m h rfl rfl rfl rfl rfl
theorem wsfixed_clrVA {m : ModelS α} {w : WS α} (h : WSFixed m w) : WSFixed m (clrVA w) :=
  L13.wsfixed_congr m h rfl rfl rfl rfl rfl

/-- `CalcPointVelocity6D (…, true)` once the reference point is known -/
theorem cpv6_true (m : ModelS α) (w : WS α) (st : QS α) (qd : VecN α) (id : Nat) (p : V3 α)
    (b : Nat) (q : V3 α) (hb : ¬ fixedDisc ≤ b)
    (hrp : refPoint m (updateKinematicsCustom m (clrV w) (some st) (some qd) none) id p = (b, q)) :
    (calcPointVelocity6D m w st qd id p true).2
      = (⟨((updateKinematicsCustom m (clrV w) (some st) (some qd) none).X_base b).E.transpose, q⟩
          : XT α).apply ((updateKinematicsCustom m (clrV w) (some st) (some qd) none).v b) := by
  unfold calcPointVelocity6D
  simp only [if_true]
  rw [show ({ w with v := upd w.v 0 SV.zero } : WS α) = clrV w from rfl, hrp]
  simp only [worldOrientation0, if_neg hb]

/-- `CalcPointAcceleration6D (…, true)` once the reference point is known -/
theorem cpa6_true (m : ModelS α) (w : WS α) (st : QS α) (qd qdd : VecN α) (id : Nat) (p : V3 α)
    (b : Nat) (q : V3 α) (hb : ¬ fixedDisc ≤ b)
    (hrp : refPoint m (updateKinematics m (clrVA w) st qd qdd) id p = (b, q)) :
    (calcPointAcceleration6D m w st qd qdd id p true).2
      = (⟨((updateKinematics m (clrVA w) st qd qdd).X_base b).E.transpose, q⟩ : XT α).apply
            ((updateKinematics m (clrVA w) st qd qdd).a b)
        + ⟨V3.zero,
            ((⟨((updateKinematics m (clrVA w) st qd qdd).X_base b).E.transpose, q⟩ : XT α).apply
              ((updateKinematics m (clrVA w) st qd qdd).v b)).w.cross
            ((⟨((updateKinematics m (clrVA w) st qd qdd).X_base b).E.transpose, q⟩ : XT α).apply
              ((updateKinematics m (clrVA w) st qd qdd).v b)).v⟩ := by
  unfold calcPointAcceleration6D
  simp only [if_true]
  rw [show ({ w with v := upd w.v 0 SV.zero, a := upd w.a 0 SV.zero } : WS α) = clrVA w from rfl,
    hrp]
  simp only [worldOrientation0, if_neg hb]

/-! ### the node of a resolved id -/

variable {m : ModelS α} {M : SModel α} {P : QS α → VecN α → VecN α → Nat → Pose (D2 α)}
  {id b : Nat} {T : XT α}

theorem node_xt (hR : Resolves m M P id b T) (st : QS α) (qd qdd : VecN α) (X : XT α)
    (hX : X = xtOfKin (NodeKin.ofPose (P st qd qdd b))) :
    xtOfKin (nodeKin M (stateOf st qd qdd) id) = T * X := by
  rw [hR.kin, xtOfKin_compKin, xtOfKin_constPose, hX]

theorem node_bf (hR : Resolves m M P id b T) (st : QS α) (qd qdd : VecN α) {V A : SV α}
    (h : BodyForm (NodeKin.ofPose (P st qd qdd b)) V A) :
    BodyForm (nodeKin M (stateOf st qd qdd) id) (T.apply V) (T.apply A) := by
  rw [hR.kin]
  exact bf_attached h T hR.rot

/-- the point-velocity formula of the code, evaluated with the data of the movable body, is
    `(ω, d/dt (p + R x))` of the node -/
theorem vel_form (hR : Resolves m M P id b T) (st : QS α) (qd qdd : VecN α) (X : XT α)
    (V A : SV α) (hX : X = xtOfKin (NodeKin.ofPose (P st qd qdd b)))
    (hB : BodyForm (NodeKin.ofPose (P st qd qdd b)) V A) (p : V3 α) :
    (⟨X.E.transpose, T.r + T.E.tmulVec p⟩ : XT α).apply V
      = ⟨(nodeKin M (stateOf st qd qdd) id).omega, (nodeKin M (stateOf st qd qdd) id).ptd p⟩ := by
  rw [vel_through T X hR.rot, ← node_xt hR st qd qdd X hX]
  exact point_velocity_bf (node_bf hR st qd qdd hB) p

/-- the point-acceleration formula of the code is `(ω̇, d²/dt² (p + R x))` of the node -/
theorem acc_form (hR : Resolves m M P id b T) (st : QS α) (qd qdd : VecN α) (X : XT α)
    (V A : SV α) (hX : X = xtOfKin (NodeKin.ofPose (P st qd qdd b)))
    (hB : BodyForm (NodeKin.ofPose (P st qd qdd b)) V A) (p : V3 α) :
    (⟨X.E.transpose, T.r + T.E.tmulVec p⟩ : XT α).apply A
        + ⟨V3.zero, ((⟨X.E.transpose, T.r + T.E.tmulVec p⟩ : XT α).apply V).w.cross
            ((⟨X.E.transpose, T.r + T.E.tmulVec p⟩ : XT α).apply V).v⟩
      = ⟨(nodeKin M (stateOf st qd qdd) id).omegaDot,
          (nodeKin M (stateOf st qd qdd) id).ptdd p⟩ := by
  rw [vel_through T X hR.rot p V, vel_through T X hR.rot p A, ← node_xt hR st qd qdd X hX]
  exact point_acceleration_bf (node_bf hR st qd qdd hB) p

theorem updQ_true (m : ModelS α) (w : WS α) (st : QS α) :
    updQ m w st true = updateKinematicsCustom m w (some st) none none := rfl

/-! ### C04 -/

theorem bodyToBase_core (hm : ModelOK m) (hT : PoseTable m P) (hR : Resolves m M P id b T)
    (w : WS α) (hw : WSFixed m w) (st : QS α) (qd qdd : VecN α) (p : V3 α) :
    (calcBodyToBaseCoordinates m w st id p true).2 = Spec.bodyToBase M (stateOf st qd qdd) id p := by
  have hpos := ukc_posOK m w st qd qdd hm.wf.lam_lt hm.jc hw.1 _ (hT st qd qdd) b hR.b_lt
  show bodyToBase0 m (updQ m w st true) id p = _
  rw [updQ_true, codeAt_bodyToBase0 hR.code, point_through, ← node_xt hR st qd qdd _ hpos]
  rfl

theorem baseToBody_core (hm : ModelOK m) (hT : PoseTable m P) (hR : Resolves m M P id b T)
    (w : WS α) (hw : WSFixed m w) (st : QS α) (hst : StateOK m st) (qd qdd : VecN α) (p : V3 α) :
    (calcBaseToBodyCoordinates m w st id p true).2 = Spec.baseToBody M (stateOf st qd qdd) id p := by
  have hpos := ukc_posOK m w st qd qdd hm.wf.lam_lt hm.jc hw.1 _ (hT st qd qdd) b hR.b_lt
  have hrot := C04.isRot_invariant m w st hm.wf.lam_lt hm.jc hm.frame hst
    (by rw [hw.1]; exact M3.isRot_one) b hR.b_lt
  show baseToBody0 m (updQ m w st true) id p = _
  rw [updQ_true, codeAt_baseToBody0 hR.code, point_back T _ hrot, ← node_xt hR st qd qdd _ hpos]
  rfl

/-- for a movable body id (`T = 1`) the inverse map is a polynomial identity as well: no `StateOK` -/
theorem baseToBody_core_movable (hm : ModelOK m) (hT : PoseTable m P)
    (hR : Resolves m M P id b XT.id) (w : WS α) (hw : WSFixed m w) (st : QS α) (qd qdd : VecN α)
    (p : V3 α) :
    (calcBaseToBodyCoordinates m w st id p true).2 = Spec.baseToBody M (stateOf st qd qdd) id p := by
  have hpos := ukc_posOK m w st qd qdd hm.wf.lam_lt hm.jc hw.1 _ (hT st qd qdd) b hR.b_lt
  show baseToBody0 m (updQ m w st true) id p = _
  rw [updQ_true, codeAt_baseToBody0 hR.code, point_back_id, ← node_xt hR st qd qdd _ hpos]
  rfl

theorem orientation_core (hm : ModelOK m) (hT : PoseTable m P) (hR : Resolves m M P id b T)
    (w : WS α) (hw : WSFixed m w) (st : QS α) (qd qdd : VecN α) :
    (calcBodyWorldOrientation m w st id true).2 = Spec.orientation M (stateOf st qd qdd) id := by
  have hpos := ukc_posOK m w st qd qdd hm.wf.lam_lt hm.jc hw.1 _ (hT st qd qdd) b hR.b_lt
  show (worldOrientation0 m (updQ m w st true) id).2 = _
  rw [updQ_true, codeAt_orientation hR.code, ← node_xt hR st qd qdd _ hpos]
  rfl

/-! ### C06 -/

theorem pointVelocity6D_core (hm : ModelOK m) (hT : PoseTable m P) (hR : Resolves m M P id b T)
    (h2 : (2 : α) ≠ 0) (w : WS α) (hw : WSFixed m w) (st : QS α) (hst : StateOK m st)
    (qd qdd : VecN α) (p : V3 α) :
    (calcPointVelocity6D m w st qd id p true).2
      = Spec.pointVelocity6D M (stateOf st qd qdd) id p := by
  have hw' := wsfixed_clrV hw
  obtain ⟨hpos, hvel⟩ := ukc2_ok m (clrV w) st qd qdd h2 hm.wf.lam_lt hm.jc hm.frame hst
    (hm.jointWS hw') hm.w3 hw'.1 (clrV_v0 w) _ (hT st qd qdd)
  have hX := hpos b hR.b_lt
  have hB := hvel b hR.b_lt
  have hrot : ((updateKinematicsCustom m (clrV w) (some st) (some qd) none).X_base b).E.IsRot := by
    rw [hX]; exact hB.rot.transpose
  rw [cpv6_true m w st qd id p b _ hR.b_mov (codeAt_refPoint hR.code hR.b_mov _ hrot p)]
  exact vel_form hR st qd qdd _ _ _ hX hB p

theorem pointVelocity_core (hm : ModelOK m) (hT : PoseTable m P) (hR : Resolves m M P id b T)
    (h2 : (2 : α) ≠ 0) (w : WS α) (hw : WSFixed m w) (st : QS α) (hst : StateOK m st)
    (qd qdd : VecN α) (p : V3 α) :
    (calcPointVelocity m w st qd id p true).2 = Spec.pointVelocity M (stateOf st qd qdd) id p :=
  congrArg SV.v (pointVelocity6D_core hm hT hR h2 w hw st hst qd qdd p)

theorem pointAcceleration6D_core (hm : ModelOK m) (hT : PoseTable m P)
    (hR : Resolves m M P id b T) (h2 : (2 : α) ≠ 0) (w : WS α) (hw : WSFixed m w) (st : QS α)
    (hst : StateOK m st) (qd qdd : VecN α) (p : V3 α) :
    (calcPointAcceleration6D m w st qd qdd id p true).2
      = Spec.pointAcceleration6D M (stateOf st qd qdd) id p := by
  have hw' := wsfixed_clrVA hw
  obtain ⟨hpos, hacc⟩ := uk_ok m (clrVA w) st qd qdd h2 hm.wf.lam_lt hm.jc hm.frame hst
    (hm.jointWS hw') hm.w3 hw'.1 (clrVA_v0 w) _ (hT st qd qdd)
  have hX := hpos b hR.b_lt
  have hB := hacc b hR.b_lt
  have hrot : ((updateKinematics m (clrVA w) st qd qdd).X_base b).E.IsRot := by
    rw [hX]; exact hB.rot.transpose
  rw [cpa6_true m w st qd qdd id p b _ hR.b_mov (codeAt_refPoint hR.code hR.b_mov _ hrot p)]
  exact acc_form hR st qd qdd _ _ _ hX hB p

theorem pointAcceleration_core (hm : ModelOK m) (hT : PoseTable m P)
    (hR : Resolves m M P id b T) (h2 : (2 : α) ≠ 0) (w : WS α) (hw : WSFixed m w) (st : QS α)
    (hst : StateOK m st) (qd qdd : VecN α) (p : V3 α) :
    (calcPointAcceleration m w st qd qdd id p true).2
      = Spec.pointAcceleration M (stateOf st qd qdd) id p :=
  congrArg SV.v (pointAcceleration6D_core hm hT hR h2 w hw st hst qd qdd p)

/-! ### C05 -/

/-- column `x` of the 6-D point Jacobian is the 6-D point velocity for the unit velocity `e_x` -/
theorem pointJacobian6D_col_core (hm : ModelOK m) (hT : PoseTable m P)
    (hR : Resolves m M P id b T) (h2 : (2 : α) ≠ 0) (w : WS α) (hw : WSFixed m w) (st : QS α)
    (hst : StateOK m st) (qd qdd : VecN α) (p : V3 α) (x : Nat) (hx : x < m.dofCount) :
    colSV (calcPointJacobian6D m w st id p zeroMat true).2 x
      = Spec.pointJacobian6DCol M (stateOf st qd qdd) id p x := by
  rw [calcPointJacobian6D_eq, updQ_true, codeAt_refBody hR.code, codeAt_bodyToBase0 hR.code]
  show _ = Spec.pointVelocity6D M (stateOf st (unitV x) (fun _ => 0)) id p
  by_cases hb0 : b = 0
  · subst hb0
    rw [jacFill_base, colSV_zeroMat]
    have hB : BodyForm (NodeKin.ofPose (P st (unitV x) (fun _ => 0) 0)) SV.zero SV.zero := by
      rw [(hT st (unitV x) (fun _ => 0)).zero]; exact bf_poseId
    have := point_velocity_bf (node_bf hR st (unitV x) (fun _ => 0) hB) p
    rw [L05.apply_zero, L05.apply_zero] at this
    exact this
  · have b1 : 1 ≤ b := by omega
    have hpos := ukc_posOK m w st (unitV x) (fun _ => 0) hm.wf.lam_lt hm.jc hw.1 _
      (hT st (unitV x) (fun _ => 0)) b hR.b_lt
    have hB := ukc2_bodyForm m w st (unitV x) (fun _ => 0) h2 hm.wf.lam_lt hm.jc hm.frame hst
      (hm.jointWS hw) hm.w3 _ (hT st (unitV x) (fun _ => 0)) b b1 hR.b_lt
    have hrot : ((updateKinematicsCustom m w (some st) none none).X_base b).E.IsRot := by
      rw [hpos]; exact hB.rot.transpose
    rw [jacFill_col hm w hw st hst _ b b1 hR.b_lt x hx, ukc2_X_base, fill_point _ hrot]
    exact vel_form hR st (unitV x) (fun _ => 0) _ _ _ hpos hB p

/-- column `x` of the (3-row) point Jacobian -/
theorem pointJacobian_col_core (hm : ModelOK m) (hT : PoseTable m P)
    (hR : Resolves m M P id b T) (h2 : (2 : α) ≠ 0) (w : WS α) (hw : WSFixed m w) (st : QS α)
    (hst : StateOK m st) (qd qdd : VecN α) (p : V3 α) (x : Nat) (hx : x < m.dofCount) :
    (⟨(calcPointJacobian m w st id p zeroMat true).2 0 x,
      (calcPointJacobian m w st id p zeroMat true).2 1 x,
      (calcPointJacobian m w st id p zeroMat true).2 2 x⟩ : V3 α)
      = (Spec.pointJacobian6DCol M (stateOf st qd qdd) id p x).v := by
  have hr := pointJacobian_rows m w st id p zeroMat zeroMat true (fun _ _ _ => rfl)
  rw [← pointJacobian6D_col_core hm hT hR h2 w hw st hst qd qdd p x hx, hr 0 x (by omega),
    hr 1 x (by omega), hr 2 x (by omega)]
  rfl

/-- column `x` of the body spatial Jacobian is the body-frame spatial velocity of the node for the
    unit velocity `e_x` -/
theorem bodySpatialJacobian_col_core (hm : ModelOK m) (hT : PoseTable m P)
    (hR : Resolves m M P id b T) (h2 : (2 : α) ≠ 0) (w : WS α) (hw : WSFixed m w) (st : QS α)
    (hst : StateOK m st) (qd qdd : VecN α) (x : Nat) (hx : x < m.dofCount) :
    colSV (calcBodySpatialJacobian m w st id zeroMat true).2 x
      = Spec.bodySpatialJacobianCol M (stateOf st qd qdd) id x := by
  rw [calcBodySpatialJacobian_eq, updQ_true, codeAt_refBody hR.code, codeAt_bsjT hR.code]
  show _ = svOfKin (nodeKin M (stateOf st (unitV x) (fun _ => 0)) id)
  by_cases hb0 : b = 0
  · subst hb0
    rw [jacFill_base, colSV_zeroMat]
    have hB : BodyForm (NodeKin.ofPose (P st (unitV x) (fun _ => 0) 0)) SV.zero SV.zero := by
      rw [(hT st (unitV x) (fun _ => 0)).zero]; exact bf_poseId
    have := (node_bf hR st (unitV x) (fun _ => 0) hB).sv
    rw [L05.apply_zero] at this
    exact this.symm
  · have b1 : 1 ≤ b := by omega
    have hpos := ukc_posOK m w st (unitV x) (fun _ => 0) hm.wf.lam_lt hm.jc hw.1 _
      (hT st (unitV x) (fun _ => 0)) b hR.b_lt
    have hB := ukc2_bodyForm m w st (unitV x) (fun _ => 0) h2 hm.wf.lam_lt hm.jc hm.frame hst
      (hm.jointWS hw) hm.w3 _ (hT st (unitV x) (fun _ => 0)) b b1 hR.b_lt
    have hrot : ((updateKinematicsCustom m w (some st) none none).X_base b).E.IsRot := by
      rw [hpos]; exact hB.rot.transpose
    rw [jacFill_col hm w hw st hst _ b b1 hR.b_lt x hx, ukc2_X_base, fill_body _ _ hrot]
    exact (node_bf hR st (unitV x) (fun _ => 0) hB).sv.symm

end
end Rbdl.LKinCap
