import RbdlProofs.Lemmas.L13CSKin
import RbdlProofs.Lemmas.L09Whole
/-
  C13 for the constraint-set routines, part 5: which entries of the caller's `G`
  `calcConstraintsJacobian` writes (any flag, any ids, any list of constraints):
  * rows of no constraint and columns `≥ qdotSize` keep the caller's values;
  * the rows of the constraints are overwritten in **all** columns `< qdotSize` with values that do
    not depend on the caller's matrix (the per-constraint Jacobians are computed in a zeroed local
    matrix): no zero-initialisation of `G` is needed for them;
  * in these rows the columns off the paths of the constrained bodies receive `0`.
-/
namespace Rbdl.L13CS
open Lean.Grind Rbdl Rbdl.Loops Rbdl.L12 Rbdl.L13 Rbdl.L09 Rbdl.L05
set_option linter.unusedSimpArgs false
set_option linter.unusedVariables false
set_option linter.unusedSectionVars false
set_option linter.constructorNameAsVariable false

section
variable {α : Type} [Field α] [DecidableEq α]

theorem rowsC_get (c : Constr α) (nv : Nat) (J G : MatN α) (r col : Nat) :
    rowsC c nv J G r col
      = if hasRow c r ∧ col < nv then
          (axisAt c r).v.x * J 0 col + (axisAt c r).v.y * J 1 col + (axisAt c r).v.z * J 2 col
        else G r col := by
  unfold rowsC
  rw [setRows_get c.T c.row nv
    (fun (t : SV α) (_ : Nat) col => t.v.x * J 0 col + t.v.y * J 1 col + t.v.z * J 2 col) G r col]
  by_cases h : (c.row ≤ r ∧ r < c.row + c.T.length) ∧ col < nv
  · rw [dif_pos h, if_pos (show hasRow c r ∧ col < nv from h), axisAt_eq c r h.1]
  · rw [dif_neg h, if_neg (show ¬ (hasRow c r ∧ col < nv) from h)]

theorem rowsL_get (c : Constr α) (nv : Nat) (A : XT α) (Jp Js G : MatN α) (r col : Nat) :
    rowsL c nv A Jp Js G r col
      = if hasRow c r ∧ col < nv then
          dot6 (loopAxis A (axisAt c r)) (fun q => Js q col - Jp q col)
        else G r col := by
  unfold rowsL
  dsimp only
  rw [setRows_get c.T c.row nv
    (fun (t : SV α) (_ : Nat) col =>
      (zipIdx (SV.toList (loopAxis A t))).foldl (fun acc q => acc + q.1 * (Js q.2 col - Jp q.2 col)) 0)
    G r col]
  by_cases h : (c.row ≤ r ∧ r < c.row + c.T.length) ∧ col < nv
  · rw [dif_pos h, if_pos (show hasRow c r ∧ col < nv from h), axisAt_eq c r h.1]
    exact axisFold_eq _ (fun q => Js q col - Jp q col)
  · rw [dif_neg h, if_neg (show ¬ (hasRow c r ∧ col < nv) from h)]

/-- **one constraint**: its rows are overwritten (columns `< qdotSize`) with values that do not depend
    on the matrix passed in, everything else keeps the input; the workspace left behind does not
    depend on the matrix either -/
theorem jacobian_get (c : Constr α) (m : ModelS α) (w : WS α) (st : QS α) (G : MatN α) (u : Bool) :
    (c.jacobian m w st G u).1 = (c.jacobian m w st zeroMat u).1 ∧
    ∀ r col, (c.jacobian m w st G u).2 r col
      = if hasRow c r ∧ col < m.qdotSize then (c.jacobian m w st zeroMat u).2 r col
        else G r col := by
  cases hc : c.ctype with
  | contact =>
    rw [jacobian_contact c hc, jacobian_contact c hc]
    refine ⟨rfl, fun r col => ?_⟩
    dsimp only
    rw [rowsC_get, rowsC_get]
    by_cases h : hasRow c r ∧ col < m.qdotSize
    · rw [if_pos h, if_pos h, if_pos h]
    · rw [if_neg h, if_neg h]
  | loop =>
    rw [jacobian_loop c hc, jacobian_loop c hc]
    refine ⟨rfl, fun r col => ?_⟩
    dsimp only
    rw [rowsL_get, rowsL_get]
    by_cases h : hasRow c r ∧ col < m.qdotSize
    · rw [if_pos h, if_pos h, if_pos h]
    · rw [if_neg h, if_neg h]

/-- the fold of `calcConstraintsJacobian` over a list of constraints -/
def jacFold (m : ModelS α) (st : QS α) (u : Bool) (l : List (Constr α)) (s : WS α × MatN α) :
    WS α × MatN α :=
  l.foldl (fun (s : WS α × MatN α) c => c.jacobian m s.1 st s.2 u) s

theorem cj_eq_jacFold (m : ModelS α) (w : WS α) (st : QS α) (C : CSet α) (G : MatN α) (u : Bool) :
    calcConstraintsJacobian m w st C G u = jacFold m st u C.cs (updQ m w st u, G) := rfl

theorem jacFold_cons (m : ModelS α) (st : QS α) (u : Bool) (c : Constr α) (l : List (Constr α))
    (s : WS α × MatN α) :
    jacFold m st u (c :: l) s = jacFold m st u l (c.jacobian m s.1 st s.2 u) := rfl

theorem jacFold_untouched (m : ModelS α) (st : QS α) (u : Bool) (r col : Nat) :
    ∀ (l : List (Constr α)) (s : WS α × MatN α),
      ((∀ c ∈ l, ¬ hasRow c r) ∨ ¬ col < m.qdotSize) → (jacFold m st u l s).2 r col = s.2 r col := by
  intro l
  induction l with
  | nil => intro s _; rfl
  | cons c l ih =>
    intro s h
    rw [jacFold_cons, ih _ (by
      rcases h with h | h
      · exact Or.inl (fun d hd => h d (List.mem_cons_of_mem _ hd))
      · exact Or.inr h), (jacobian_get c m s.1 st s.2 u).2 r col, if_neg]
    rintro ⟨h1, h2⟩
    rcases h with h | h
    · exact h c List.mem_cons_self h1
    · exact h h2

theorem jacFold_overwritten (m : ModelS α) (st : QS α) (u : Bool) (r col : Nat) :
    ∀ (l : List (Constr α)) (s s' : WS α × MatN α), s.1 = s'.1 →
      (jacFold m st u l s).1 = (jacFold m st u l s').1 ∧
      (col < m.qdotSize → ((∃ c ∈ l, hasRow c r) ∨ s.2 r col = s'.2 r col) →
        (jacFold m st u l s).2 r col = (jacFold m st u l s').2 r col) := by
  intro l
  induction l with
  | nil =>
    intro s s' hw
    refine ⟨hw, fun _ h => ?_⟩
    rcases h with ⟨c, hc, _⟩ | h
    · cases hc
    · exact h
  | cons c l ih =>
    intro s s' hw
    obtain ⟨w1, g1⟩ := jacobian_get c m s.1 st s.2 u
    obtain ⟨w2, g2⟩ := jacobian_get c m s'.1 st s'.2 u
    have hw' : (c.jacobian m s.1 st s.2 u).1 = (c.jacobian m s'.1 st s'.2 u).1 := by
      rw [w1, w2, hw]
    rw [jacFold_cons, jacFold_cons]
    obtain ⟨i1, i2⟩ := ih _ _ hw'
    refine ⟨i1, fun hcol h => i2 hcol ?_⟩
    by_cases hr : hasRow c r
    · right
      rw [g1 r col, g2 r col, if_pos ⟨hr, hcol⟩, if_pos ⟨hr, hcol⟩, hw]
    · rcases h with ⟨d, hd, hdr⟩ | h
      · rcases List.mem_cons.mp hd with rfl | hd'
        · exact absurd hdr hr
        · exact Or.inl ⟨d, hd', hdr⟩
      · right
        rw [g1 r col, g2 r col, if_neg (fun hh => hr hh.1), if_neg (fun hh => hr hh.1), h]

/-! ### columns off the paths receive zero (`update_kinematics = false`) -/

/-- column `k` is in no block of a joint on the path of body id `id` -/
def OffPath (m : ModelS α) (w : WS α) (id k : Nat) : Prop :=
  ∀ j ∈ path m (m.refBody id), ¬ inBlock m w j k

/-- column `k` is off the paths of the bodies of the constraint -/
def COff (m : ModelS α) (w : WS α) (c : Constr α) (k : Nat) : Prop :=
  OffPath m w c.bodyP k ∧ (c.ctype = .loop → OffPath m w c.bodyS k)

theorem pj0_offpath (m : ModelS α) (htree : Tree m) (w : WS α) (id : Nat) (hid : IdOK m id)
    (p : V3 α) (k : Nat) (hk : OffPath m w id k) (r : Nat) : pj0 m w id p zeroMat r k = 0 :=
  jacFill_offpath m w _ _ _ zeroMat htree hid.1 k hk r

theorem pj60_offpath (m : ModelS α) (htree : Tree m) (w : WS α) (id : Nat) (hid : IdOK m id)
    (p : V3 α) (k : Nat) (hk : OffPath m w id k) (r : Nat) : pj60 m w id p zeroMat r k = 0 :=
  jacFill_offpath m w _ _ _ zeroMat htree hid.1 k hk r

theorem dot6_zero (a : SV α) : dot6 a (fun _ => (0 : α) - 0) = 0 := by
  simp only [dot6]; grind

theorem jacobian_offpath_zero (c : Constr α) (m : ModelS α) (htree : Tree m) (w : WS α)
    (st : QS α) (G : MatN α) (hc : ConstrOK m c) (r k : Nat) (hr : hasRow c r)
    (hk : k < m.qdotSize) (hoff : COff m w c k) : (c.jacobian m w st G false).2 r k = 0 := by
  cases hct : c.ctype with
  | contact =>
    rw [jacobian_contact c hct]
    dsimp only
    rw [rowsC_get, if_pos ⟨hr, hk⟩, pj_pair]
    dsimp only
    have e := pj0_offpath m htree w c.bodyP hc.1 c.XP.r k hoff.1
    simp only [updQ_false]
    rw [show (fun (_ _ : Nat) => (0 : α)) = zeroMat from rfl, e 0, e 1, e 2]
    grind
  | loop =>
    rw [jacobian_loop c hct]
    dsimp only
    rw [rowsL_get, if_pos ⟨hr, hk⟩, pj6_pair, pj6_pair]
    dsimp only
    have e := pj60_offpath m htree w c.bodyP hc.1 c.XP.r k hoff.1
    have e' := pj60_offpath m htree w c.bodyS (hc.2 hct) c.XS.r k (hoff.2 hct)
    simp only [updQ_false]
    rw [show (fun (_ _ : Nat) => (0 : α)) = zeroMat from rfl]
    have : (fun q => pj60 m w c.bodyS c.XS.r zeroMat q k - pj60 m w c.bodyP c.XP.r zeroMat q k)
        = (fun _ => (0 : α) - 0) := by
      funext q; rw [e, e']
    rw [this, dot6_zero]

theorem Scols_junk {m : ModelS α} {a b : WS α} (h : Junk m a b) (j : Nat) :
    a.Scols m j = b.Scols m j := by
  have h1 := h.2 .S j (fun hh => by rcases hh.1 with e | e <;> cases e)
  have h2 := h.2 .S3 j (fun hh => by rcases hh.1 with e | e <;> cases e)
  have h3 := h.2 .cS j (fun hh => by rcases hh.1 with e | e <;> cases e)
  unfold WS.Scols
  cases ha : m.arity j <;> simp only [view, ha, if_true] at h1 h2 h3 ⊢
  · rw [Option.some.inj h1]
  · rw [Option.some.inj h2]
  · rw [Option.some.inj h3]

theorem COff.junk {m : ModelS α} {a b : WS α} (h : Junk m a b) {c : Constr α} {k : Nat}
    (hc : COff m b c k) : COff m a c k := by
  have e : ∀ j, inBlock m a j k ↔ inBlock m b j k := by
    intro j; unfold inBlock; rw [Scols_junk h j]
  exact ⟨fun j hj hb => hc.1 j hj ((e j).mp hb), fun hl j hj hb => hc.2 hl j hj ((e j).mp hb)⟩

theorem jacobian_false_junk (c : Constr α) (m : ModelS α) (w : WS α) (st : QS α) (G : MatN α) :
    Junk m (c.jacobian m w st G false).1 w := by
  cases hc : c.ctype with
  | contact => rw [jacobian_contact c hc]; exact Junk.rfl' m w
  | loop =>
    rw [jacobian_loop c hc, loopFrame_pair]
    exact junk_wo m _ _

theorem jacFold_offpath_zero (m : ModelS α) (htree : Tree m) (st : QS α) (w : WS α) (r k : Nat)
    (hk : k < m.qdotSize) :
    ∀ (l : List (Constr α)) (s : WS α × MatN α), Junk m s.1 w →
      (∀ c ∈ l, ConstrOK m c) → (∀ c ∈ l, hasRow c r → COff m w c k) →
      ((∃ c ∈ l, hasRow c r) ∨ s.2 r k = 0) → (jacFold m st false l s).2 r k = 0 := by
  intro l
  induction l with
  | nil =>
    intro s _ _ _ h
    rcases h with ⟨c, hc, _⟩ | h
    · cases hc
    · exact h
  | cons c l ih =>
    intro s hj hok hoff h
    rw [jacFold_cons]
    refine ih _ ((jacobian_false_junk c m s.1 st s.2).trans hj)
      (fun d hd => hok d (List.mem_cons_of_mem _ hd))
      (fun d hd => hoff d (List.mem_cons_of_mem _ hd)) ?_
    by_cases hr : hasRow c r
    · right
      exact jacobian_offpath_zero c m htree s.1 st s.2 (hok c List.mem_cons_self) r k hr hk
        ((hoff c List.mem_cons_self hr).junk hj)
    · rcases h with ⟨d, hd, hdr⟩ | h
      · rcases List.mem_cons.mp hd with rfl | hd'
        · exact absurd hdr hr
        · exact Or.inl ⟨d, hd', hdr⟩
      · right
        rw [(jacobian_get c m s.1 st s.2 false).2 r k, if_neg (fun hh => hr hh.1), h]

/-! ### with the flag cleared the routines leave the workspace as it is, up to `Junk` -/

theorem positionError_false_junk (c : Constr α) (m : ModelS α) (w : WS α) (st : QS α)
    (err : VecN α) : Junk m (c.positionError m w st err false).1 w := by
  cases hc : c.ctype with
  | contact => rw [positionError_contact c hc]; exact Junk.rfl' m w
  | loop =>
    rw [positionError_loop c hc, loopFrame_pair, loopFrame_pair]
    exact (junk_wo m _ _).trans (junk_wo m _ _)

theorem velocityError_false_junk (c : Constr α) (m : ModelS α) (w : WS α) (st : QS α)
    (qd : VecN α) (G : MatN α) (errd : VecN α) :
    Junk m (c.velocityError m w st qd G errd false).1 w := by
  cases hc : c.ctype with
  | contact =>
    rw [velocityError_contact c hc]
    show Junk m (calcPointVelocity6D m w st qd c.bodyP c.XP.r false).1 w
    rw [pv6_pair]
    exact (junk_wo m _ _).trans (junk_v0 m w SV.zero)
  | loop => rw [velocityError_loop c hc]; exact Junk.rfl' m w

theorem foldl_junk {β : Type} (m : ModelS α) (f : WS α × β → Constr α → WS α × β)
    (hf : ∀ s c, Junk m (f s c).1 s.1) (l : List (Constr α)) (s : WS α × β) :
    Junk m (l.foldl f s).1 s.1 := by
  induction l generalizing s with
  | nil => exact Junk.rfl' m s.1
  | cons c l ih => rw [List.foldl_cons]; exact (ih _).trans (hf s c)

theorem cj_false_junk (m : ModelS α) (w : WS α) (st : QS α) (C : CSet α) (G : MatN α) :
    Junk m (calcConstraintsJacobian m w st C G false).1 w := by
  unfold calcConstraintsJacobian
  exact foldl_junk m _ (fun s c => jacobian_false_junk c m s.1 st s.2) C.cs (w, G)

theorem cp_false_junk (m : ModelS α) (w : WS α) (st : QS α) (C : CSet α) (err : VecN α) :
    Junk m (calcConstraintsPositionError m w st C err false).1 w := by
  unfold calcConstraintsPositionError
  exact foldl_junk m _ (fun s c => positionError_false_junk c m s.1 st s.2) C.cs (w, err)

theorem cv_false_junk (m : ModelS α) (w : WS α) (st : QS α) (qd : VecN α) (C : CSet α)
    (G : MatN α) (errd : VecN α) :
    Junk m (calcConstraintsVelocityError m w st qd C G errd false).1 w := by
  rw [velocityError_pair]
  exact (foldl_junk m _ (fun s c => velocityError_false_junk c m s.1 st qd _ s.2) C.cs
    ((calcConstraintsJacobian m w st C G false).1, errd)).trans (cj_false_junk m w st C G)

end
end Rbdl.L13CS
