import RbdlProofs.Lemmas.L01CapFixThm
import RbdlProofs.Lemmas.L01CapBuild
import RbdlProofs.Props.C15
/-
  C01 capstone, Stages D + E: the parallel construction with fixed bodies, custom joints and the
  floating base.  `SimF m p`: the invariant that links the model `m` built by the construction code and
  the specification builder `p` after the same calls.
-/
namespace Rbdl.L01Cap
open Lean.Grind Rbdl Rbdl.Spec Rbdl.L06 Rbdl.L01 Rbdl.Loops
set_option linter.unusedSimpArgs false
set_option linter.unusedVariables false
set_option linter.unusedSectionVars false

section
variable {α : Type} [Field α] [DecidableEq α]

/-! ### id lookup of the specification builder -/

def lookupNode (l : List (Nat × Nat × Nat)) (id : Nat) : Nat :=
  match l.find? (fun p => p.1 == id) with
  | some p => p.2.2
  | none => 0

theorem nodeOf_eq (b : SB α) (id : Nat) : b.nodeOf id = lookupNode b.idMap id := rfl

theorem lookup_append_old (l : List (Nat × Nat × Nat)) (e : Nat × Nat × Nat) (id : Nat)
    (h : (l.find? (fun p => p.1 == id)).isSome) : lookupNode (l ++ [e]) id = lookupNode l id := by
  unfold lookupNode
  rw [List.find?_append]
  cases hf : l.find? (fun p => p.1 == id) with
  | none => rw [hf] at h; cases h
  | some p => rfl

theorem lookup_append_new (l : List (Nat × Nat × Nat)) (e : Nat × Nat × Nat)
    (h : l.find? (fun p => p.1 == e.1) = none) : lookupNode (l ++ [e]) e.1 = e.2.2 := by
  unfold lookupNode
  rw [List.find?_append, h]
  simp

theorem find_none_of_keys (l : List (Nat × Nat × Nat)) (P : Nat → Prop) (id : Nat)
    (hk : ∀ e ∈ l, P e.1) (hid : ¬ P id) : l.find? (fun p => p.1 == id) = none := by
  rw [List.find?_eq_none]
  intro e he
  simp only [beq_iff_eq]
  intro h
  exact hid (h ▸ hk e he)

theorem find_append_isSome (l : List (Nat × Nat × Nat)) (e : Nat × Nat × Nat) (id : Nat)
    (h : (l.find? (fun p => p.1 == id)).isSome ∨ e.1 = id) :
    ((l ++ [e]).find? (fun p => p.1 == id)).isSome := by
  rw [List.find?_append]
  cases hf : l.find? (fun p => p.1 == id) with
  | some p => rfl
  | none =>
    rcases h with h | h
    · rw [hf] at h; cases h
    · simp [h]

/-! ### offsets read off the model -/

/-- the constant transform from the movable body to node `n`: the identity for the node of a movable
    body, `mFixedBodies[k].mParentTransform` for the node of fixed body `k` -/
def offOf (m : ModelS α) (M : SModel α) (n : Nat) : XT α :=
  if (M.nodes.getD n nd0).apiId = (M.nodes.getD n nd0).movableId then XT.id
  else (m.fixedBody ((M.nodes.getD n nd0).apiId - fixedDisc)).parentTransform

/-- invariant of node `n ≥ 1` during the construction (`NodeF` without the quaternion index, plus
    the bookkeeping of the fixed-body ids) -/
structure NodeG (m : ModelS α) (M : SModel α) (n : Nat) (nd : SNode α) : Prop where
  par_lt : nd.parent < n
  body_lt : nd.movableId < m.nBodies
  offrot : (offOf m M n).E.IsRot
  symm : nd.hasBody = true → nd.inertia.transpose = nd.inertia
  fjoint : nd.apiId ≠ nd.movableId → nd.joint = .fixed
  fpar : nd.apiId ≠ nd.movableId → bodyOf M nd.parent = nd.movableId
  foff : nd.apiId ≠ nd.movableId → offOf m M n = ⟨nd.E, nd.r⟩ * offOf m M nd.parent
  fid : nd.apiId ≠ nd.movableId → ∃ k, nd.apiId = fixedDisc + k ∧ k < m.fixedBodies.length
  mpos : nd.apiId = nd.movableId → 1 ≤ nd.movableId
  mpar : nd.apiId = nd.movableId → bodyOf M nd.parent = m.lam nd.movableId
  mframe : nd.apiId = nd.movableId → m.XT_ nd.movableId = ⟨nd.E, nd.r⟩ * offOf m M nd.parent
  mjoint : nd.apiId = nd.movableId → nd.joint = m.sjoint nd.movableId
  mqIdx : nd.apiId = nd.movableId → nd.qIdx = (m.joint nd.movableId).qIndex

structure SimF (m : ModelS α) (p : PB α) : Prop where
  ok : ModelOK m
  cap : m.nBodies ≤ fixedDisc
  prev : p.prev = m.prevBodyId
  nmov : p.sb.nMovable = m.nBodies
  nfix : p.sb.nFixed = m.fixedBodies.length
  gravity : p.sb.M.gravity = m.gravity
  nv : p.sb.M.nv = m.dofCount
  base : ∃ nd, p.sb.M.nodes[0]? = some nd ∧ nd.hasBody = false ∧ nd.apiId = 0 ∧ nd.movableId = 0 ∧
    nd.joint = .fixed
  lookup0 : lookupNode p.sb.idMap 0 = 0
  found : ∀ id, m.validId id → (p.sb.idMap.find? (fun e => e.1 == id)).isSome
  keys : ∀ e ∈ p.sb.idMap, m.validId e.1
  node : ∀ n nd, 1 ≤ n → p.sb.M.nodes[n]? = some nd → NodeG m p.sb.M n nd
  idnode : ∀ n nd, 1 ≤ n → p.sb.M.nodes[n]? = some nd → lookupNode p.sb.idMap nd.apiId = n
  movNode : ∀ i, 1 ≤ i → i < m.nBodies →
    1 ≤ lookupNode p.sb.idMap i ∧ lookupNode p.sb.idMap i < p.sb.M.nodes.length ∧
    ∀ nd, p.sb.M.nodes[lookupNode p.sb.idMap i]? = some nd → nd.apiId = nd.movableId ∧ nd.movableId = i
  fixNode : ∀ k, k < m.fixedBodies.length →
    1 ≤ lookupNode p.sb.idMap (fixedDisc + k) ∧
    lookupNode p.sb.idMap (fixedDisc + k) < p.sb.M.nodes.length ∧
    ∀ nd, p.sb.M.nodes[lookupNode p.sb.idMap (fixedDisc + k)]? = some nd →
      nd.apiId = fixedDisc + k ∧ nd.movableId = (m.fixedBody k).movableParent
  bodyrbi : ∀ i, 1 ≤ i → i < m.nBodies → m.rbi i = (m.body i).toRBI
  rbi : ∀ i, 1 ≤ i → i < m.nBodies →
    m.rbi i = lsum RBI.zero (nodeRBI p.sb.M (offOf m p.sb.M) i) (List.range p.sb.M.nodes.length)
  virt : ∀ i, 1 ≤ i → i < m.nBodies → (m.body i).isVirtual = true → ∀ x : SV α,
    m.rbi i * x = SV.zero

theorem simF_init : SimF (ModelS.init : ModelS α) PB.init := by
  have hj : ∀ i, ((ModelS.init : ModelS α).joint i).jt = .undefined := by
    intro i
    unfold ModelS.joint ModelS.init
    cases i <;> rfl
  have hn : (ModelS.init : ModelS α).nBodies = 1 := rfl
  refine ⟨⟨C14.wf_init, ?_, ?_, ?_, ?_⟩, by rw [hn]; decide, rfl, rfl, rfl, rfl, rfl,
    ⟨_, rfl, rfl, rfl, rfl, rfl⟩, rfl, ?_, ?_, ?_, ?_, ?_, ?_, ?_, ?_, ?_⟩
  · intro i j hi; rw [hj i] at hi; cases hi
  · intro i h1 h2; rw [hn] at h2; omega
  · intro i h1 h2; rw [hn] at h2; omega
  · intro i h1 h2; rw [hn] at h2; omega
  · intro id hv
    have : id = 0 := by
      rcases hv with h | h
      · rw [hn] at h; omega
      · simp [ModelS.isFixedBodyId, ModelS.init] at h
    subst this; rfl
  · intro e he
    simp only [PB.init, SB.init, List.mem_singleton] at he
    subst he; left; rw [hn]; decide
  · intro n nd n1 h
    obtain ⟨k, rfl⟩ : ∃ k, n = k + 1 := ⟨n - 1, by omega⟩
    simp [PB.init, SB.init] at h
  · intro n nd n1 h
    obtain ⟨k, rfl⟩ : ∃ k, n = k + 1 := ⟨n - 1, by omega⟩
    simp [PB.init, SB.init] at h
  · intro i h1 h2; rw [hn] at h2; omega
  · intro k hk; simp [ModelS.init] at hk
  · intro i h1 h2; rw [hn] at h2; omega
  · intro i h1 h2; rw [hn] at h2; omega
  · intro i h1 h2; rw [hn] at h2; omega

/-! ### resolving a parent id -/

theorem getD_nodes {M : SModel α} {n : Nat} {nd : SNode α} (h : M.nodes[n]? = some nd) :
    M.nodes.getD n nd0 = nd := getD_of_some h

theorem isFixed_iff (m : ModelS α) (id : Nat) (hcap : m.fixedBodies.length ≤ fixedDisc + 1) :
    m.isFixedBodyId id = true ↔ fixedDisc ≤ id ∧ id - fixedDisc < m.fixedBodies.length := by
  rw [ModelS.isFixedBodyId_iff]
  constructor
  · intro h; exact ⟨h.1, h.2.2⟩
  · intro h; refine ⟨h.1, ?_, h.2⟩
    simp only [fixedDisc] at *; omega

/-- the node a valid parent id resolves to: it moves with `mpOf parent` at the offset `mpXOf parent` -/
theorem parent_node {m : ModelS α} {p : PB α} (hS : SimF m p) (parent : Nat)
    (hp : m.validId parent) :
    lookupNode p.sb.idMap parent < p.sb.M.nodes.length ∧
    bodyOf p.sb.M (lookupNode p.sb.idMap parent) = m.mpOf parent ∧
    offOf m p.sb.M (lookupNode p.sb.idMap parent) = m.mpXOf parent ∧
    (m.mpXOf parent).E.IsRot := by
  have hwf := hS.ok.wf
  obtain ⟨b, hb, _, hb2, hb3, _⟩ := hS.base
  have hN1 : 1 ≤ p.sb.M.nodes.length := by
    rcases Nat.lt_or_ge 0 p.sb.M.nodes.length with h | h
    · exact h
    · rw [List.getElem?_eq_none h] at hb; cases hb
  by_cases hf : m.isFixedBodyId parent = true
  · have hf' := (isFixed_iff m parent hwf.fixed_cap).1 hf
    obtain ⟨k, rfl⟩ : ∃ k, parent = fixedDisc + k := ⟨parent - fixedDisc, by omega⟩
    have hk : k < m.fixedBodies.length := by have := hf'.2; omega
    obtain ⟨n1, nlt, hnd⟩ := hS.fixNode k hk
    have hget := List.getElem?_eq_getElem nlt
    obtain ⟨ha, hmv⟩ := hnd _ hget
    have hN := hS.node _ _ n1 hget
    have hne : (p.sb.M.nodes[lookupNode p.sb.idMap (fixedDisc + k)]).apiId
        ≠ (p.sb.M.nodes[lookupNode p.sb.idMap (fixedDisc + k)]).movableId := by
      rw [ha]; have := hN.body_lt; have := hS.cap; omega
    have hoff : offOf m p.sb.M (lookupNode p.sb.idMap (fixedDisc + k))
        = (m.fixedBody k).parentTransform := by
      unfold offOf
      rw [getD_nodes hget, if_neg hne, ha, Nat.add_sub_cancel_left]
    refine ⟨nlt, ?_, ?_, ?_⟩
    · unfold bodyOf ModelS.mpOf
      rw [getD_nodes hget, if_pos hf, Nat.add_sub_cancel_left, hmv]
    · unfold ModelS.mpXOf
      rw [if_pos hf, Nat.add_sub_cancel_left, hoff]
    · unfold ModelS.mpXOf
      rw [if_pos hf, Nat.add_sub_cancel_left, ← hoff]
      exact hN.offrot
  · have hlt : parent < m.nBodies := by
      rcases hp with h | h
      · exact h
      · exact absurd h hf
    have hmp : m.mpOf parent = parent := by unfold ModelS.mpOf; rw [if_neg hf]
    have hmx : m.mpXOf parent = XT.id := by unfold ModelS.mpXOf; rw [if_neg hf]
    rw [hmp, hmx]
    by_cases h0 : parent = 0
    · subst h0
      rw [hS.lookup0]
      refine ⟨hN1, ?_, ?_, M3.isRot_one⟩
      · unfold bodyOf; rw [getD_nodes hb, hb3]
      · unfold offOf; rw [getD_nodes hb, hb2, hb3, if_pos rfl]
    · obtain ⟨n1, nlt, hnd⟩ := hS.movNode parent (by omega) hlt
      have hget := List.getElem?_eq_getElem nlt
      obtain ⟨ha, hmv⟩ := hnd _ hget
      refine ⟨nlt, ?_, ?_, M3.isRot_one⟩
      · unfold bodyOf; rw [getD_nodes hget, hmv]
      · unfold offOf; rw [getD_nodes hget, if_pos ha]

end
end Rbdl.L01Cap
