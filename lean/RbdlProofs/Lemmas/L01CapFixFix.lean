import RbdlProofs.Lemmas.L01CapFixMov
/-
  C01 capstone, Stages D + E: one fixed body is added — merged into its movable parent by the
  construction code (`Body::Join`), appended as a node of its own to the specification.
-/
namespace Rbdl.L01Cap
open Lean.Grind Rbdl Rbdl.Spec Rbdl.L06 Rbdl.L01 Rbdl.Loops
set_option linter.unusedSimpArgs false
set_option linter.unusedVariables false
set_option linter.unusedSectionVars false

section
variable {α : Type} [Field α] [DecidableEq α]

/-- the builder after one node was appended for a fixed body -/
def pushFix (sb : SB α) (nd : SNode α) : SB α :=
  { sb with M := pushNode sb.M nd, nFixed := sb.nFixed + 1,
            idMap := sb.idMap ++ [(fixedDisc + sb.nFixed, sb.M.nodes.length, sb.M.nodes.length)] }

theorem join_virtual {a o u : Body α} {X : XT α} (h : a.join X o = some u)
    (hv : u.isVirtual = true) : u = a := by
  by_cases hb : o.mass = 0 ∧ o.inertia = M3.zero
  · rw [Body.join_null hb] at h
    exact (Option.some.inj h).symm
  · by_cases hM : a.mass + o.mass = 0
    · rw [Body.join_zeroMass hb hM] at h; cases h
    · rw [Body.join_eq hb hM] at h
      have := Option.some.inj h
      subst this
      cases hv

section FixedResult
variable (m : ModelS α) (parent : Nat) (frame : XT α) (b : Body α) (name : String) (pb : Body α)

theorem fr_nBodies : (m.fixedResult parent frame b name pb).nBodies = m.nBodies := by
  simp [ModelS.fixedResult, ModelS.nBodies]

theorem fr_fixedBody_old (k : Nat) (hk : k < m.fixedBodies.length) :
    (m.fixedResult parent frame b name pb).fixedBody k = m.fixedBody k := by
  unfold ModelS.fixedBody ModelS.fixedResult
  exact getD_append_left _ _ _ _ hk

theorem fr_fixedBody_new :
    (m.fixedResult parent frame b name pb).fixedBody m.fixedBodies.length
      = ⟨b.mass, b.com, b.inertia, m.mpOf parent, m.fpXOf parent frame⟩ := by
  unfold ModelS.fixedBody ModelS.fixedResult
  exact getD_append_last _ _ _

theorem fr_fixed_len :
    (m.fixedResult parent frame b name pb).fixedBodies.length = m.fixedBodies.length + 1 := by
  simp [ModelS.fixedResult]

theorem fr_body (i : Nat) (hmp : m.mpOf parent < m.nBodies) :
    (m.fixedResult parent frame b name pb).body i
      = if i = m.mpOf parent then pb else m.body i := by
  unfold ModelS.body ModelS.fixedResult
  dsimp only
  by_cases h : i = m.mpOf parent
  · subst h; rw [if_pos rfl]; exact getD_set_self _ _ _ _ hmp
  · rw [if_neg h]; exact getD_set_ne _ _ _ _ _ (fun e => h e.symm)

theorem fr_rbi (hwf : m.WF) (i : Nat) (hmp : m.mpOf parent < m.nBodies) :
    (m.fixedResult parent frame b name pb).rbi i
      = if i = m.mpOf parent then pb.toRBI else m.rbi i := by
  unfold ModelS.rbi ModelS.fixedResult
  dsimp only
  by_cases h : i = m.mpOf parent
  · subst h; rw [if_pos rfl]; exact getD_set_self _ _ _ _ (by rw [hwf.len_I]; exact hmp)
  · rw [if_neg h]; exact getD_set_ne _ _ _ _ _ (fun e => h e.symm)

theorem fr_validId (hwf : m.WF) (hcapF : m.fixedBodies.length ≤ fixedDisc) (id : Nat) :
    (m.fixedResult parent frame b name pb).validId id
      ↔ m.validId id ∨ id = fixedDisc + m.fixedBodies.length := by
  have hc' : (m.fixedResult parent frame b name pb).fixedBodies.length ≤ fixedDisc + 1 := by
    rw [fr_fixed_len]; omega
  unfold ModelS.validId
  rw [fr_nBodies, isFixed_iff _ id hc', isFixed_iff m id hwf.fixed_cap, fr_fixed_len]
  constructor
  · rintro (h | h)
    · exact Or.inl (Or.inl h)
    · by_cases e : id = fixedDisc + m.fixedBodies.length
      · exact Or.inr e
      · exact Or.inl (Or.inr ⟨h.1, by omega⟩)
  · rintro ((h | h) | h)
    · exact Or.inl h
    · exact Or.inr ⟨h.1, by omega⟩
    · exact Or.inr ⟨by omega, by omega⟩

end FixedResult

theorem fpX_eq (m : ModelS α) (parent : Nat) (frame : XT α) :
    m.fpXOf parent frame = frame * m.mpXOf parent := by
  unfold ModelS.fpXOf ModelS.mpXOf
  split
  · rfl
  · exact (C16.mul_id frame).symm

/-- **one fixed body added on both sides** -/
theorem simF_fixed (m : ModelS α) (p : PB α) (hS : SimF m p) (parent : Nat) (frame : XT α)
    (b : Body α) (name : String) (pb : Body α) (nd : SNode α)
    (hp : m.validId parent) (hE : frame.E.IsRot) (hn : ¬(name ≠ "" ∧ m.hasName name))
    (hcapF : m.fixedBodies.length ≤ fixedDisc) (hbs : b.inertia.transpose = b.inertia)
    (hjoin : (m.body (m.mpOf parent)).join (m.fpXOf parent frame) b = some pb)
    (hnp : nd.parent = lookupNode p.sb.idMap parent) (hnE : nd.E = frame.E) (hnr : nd.r = frame.r)
    (hnj : nd.joint = .fixed) (hna : nd.apiId = fixedDisc + p.sb.nFixed)
    (hnm : nd.movableId = bodyOf p.sb.M (lookupNode p.sb.idMap parent)) (hnh : nd.hasBody = true)
    (hnmass : nd.mass = b.mass) (hncom : nd.com = b.com) (hnI : nd.inertia = b.inertia) :
    SimF (m.fixedResult parent frame b name pb) ⟨pushFix p.sb nd, fixedDisc + p.sb.nFixed⟩ := by
  show SimF (m.fixedResult parent frame b name pb)
    ⟨⟨pushNode p.sb.M nd, p.sb.nMovable, p.sb.nFixed + 1,
      p.sb.idMap ++ [(fixedDisc + p.sb.nFixed, p.sb.M.nodes.length, p.sb.M.nodes.length)]⟩,
      fixedDisc + p.sb.nFixed⟩
  have hwf := hS.ok.wf
  have hwf' : (m.fixedResult parent frame b name pb).WF :=
    ModelS.wf_fixedResult m hwf parent frame b name pb hp hcapF hn
  have hnbe := fr_nBodies m parent frame b name pb
  have hmp := ModelS.mpOf_lt m hwf parent hp
  obtain ⟨pl, pbody, poff, prot⟩ := parent_node hS parent hp
  rw [hS.nfix] at hna
  rw [pbody] at hnm
  have hfb : ∀ k, k < m.fixedBodies.length →
      (m.fixedResult parent frame b name pb).fixedBody k = m.fixedBody k :=
    fun k hk => fr_fixedBody_old m parent frame b name pb k hk
  have hpXrot : (m.fpXOf parent frame).E.IsRot := by rw [fpX_eq]; exact hE.mul prot
  have hnew_invalid : ¬ m.validId (fixedDisc + m.fixedBodies.length) := by
    intro h
    rcases h with h | h
    · have := hS.cap; omega
    · have := (isFixed_iff m _ hwf.fixed_cap).1 h; omega
  have hfind_new : p.sb.idMap.find? (fun e => e.1 == fixedDisc + m.fixedBodies.length) = none :=
    find_none_of_keys _ m.validId _ hS.keys hnew_invalid
  have hlk_old : ∀ id, m.validId id →
      lookupNode (p.sb.idMap ++ [(fixedDisc + p.sb.nFixed, p.sb.M.nodes.length,
        p.sb.M.nodes.length)]) id = lookupNode p.sb.idMap id :=
    fun id hv => lookup_append_old _ _ _ (hS.found id hv)
  have hlk_new : lookupNode (p.sb.idMap ++ [(fixedDisc + p.sb.nFixed, p.sb.M.nodes.length,
      p.sb.M.nodes.length)]) (fixedDisc + m.fixedBodies.length) = p.sb.M.nodes.length := by
    have := lookup_append_new p.sb.idMap (fixedDisc + p.sb.nFixed, p.sb.M.nodes.length,
      p.sb.M.nodes.length) (by rw [hS.nfix]; exact hfind_new)
    rw [hS.nfix] at this ⊢
    exact this
  obtain ⟨bs, hbs0, hbs1, hbs2, hbs3, hbs4⟩ := hS.base
  have hN1 : 1 ≤ p.sb.M.nodes.length := lt_of_get hbs0
  have hvalid_api : ∀ n nd', 1 ≤ n → p.sb.M.nodes[n]? = some nd' → m.validId nd'.apiId := by
    intro n nd' n1 h
    have hN := hS.node n nd' n1 h
    by_cases hmov : nd'.apiId = nd'.movableId
    · left; rw [hmov]; exact hN.body_lt
    · obtain ⟨k, hk, hkl⟩ := hN.fid hmov
      right
      rw [isFixed_iff m _ hwf.fixed_cap, hk]
      omega
  have hne_api : nd.apiId ≠ nd.movableId := by
    rw [hna, hnm]; have := hS.cap; omega
  have hoffN : offOf (m.fixedResult parent frame b name pb) (pushNode p.sb.M nd)
      p.sb.M.nodes.length = m.fpXOf parent frame := by
    unfold offOf
    rw [pushNode_getD_new, if_neg hne_api, hna, Nat.add_sub_cancel_left,
      fr_fixedBody_new]
  refine ⟨⟨hwf', hS.ok.cinj, fun i h1 h2 => hS.ok.jc i h1 (hnbe ▸ h2),
    fun i h1 h2 => hS.ok.decl i h1 (hnbe ▸ h2), fun i h1 h2 => hS.ok.frame i h1 (hnbe ▸ h2)⟩,
    by rw [hnbe]; exact hS.cap, ?_, by rw [hnbe]; exact hS.nmov, ?_, hS.gravity, ?_,
    ?_, ?_, ?_, ?_, ?_, ?_, ?_, ?_, ?_, ?_, ?_⟩
  · -- prev
    show fixedDisc + p.sb.nFixed = m.fixedBodies.length + fixedDisc
    rw [hS.nfix]; omega
  · -- nfix
    show p.sb.nFixed + 1 = _
    rw [hS.nfix, fr_fixed_len]
  · -- nv
    show (pushNode p.sb.M nd).nv = _
    unfold pushNode
    rw [nv_append, hS.nv, hnj]; rfl
  · exact ⟨bs, (pushNode_get_old _ _ 0 hN1).trans hbs0, hbs1, hbs2, hbs3, hbs4⟩
  · show lookupNode (p.sb.idMap ++ _) 0 = 0
    rw [hlk_old 0 (Or.inl hwf.nb_pos)]; exact hS.lookup0
  · -- found
    intro id hv
    rw [fr_validId m parent frame b name pb hwf hcapF] at hv
    refine find_append_isSome _ _ _ ?_
    rcases hv with hv | hv
    · exact Or.inl (hS.found id hv)
    · exact Or.inr (by rw [hv, hS.nfix])
  · -- keys
    intro e he
    rw [fr_validId m parent frame b name pb hwf hcapF]
    change e ∈ p.sb.idMap ++ _ at he
    rcases List.mem_append.1 he with h | h
    · exact Or.inl (hS.keys e h)
    · simp only [List.mem_singleton] at h
      subst h
      exact Or.inr (by rw [hS.nfix])
  · -- node
    intro n nd' n1 h
    change (pushNode p.sb.M nd).nodes[n]? = some nd' at h
    by_cases hn' : n < p.sb.M.nodes.length
    · rw [pushNode_get_old _ _ n hn'] at h
      exact nodeG_mono hS (m.fixedResult parent frame b name pb) nd (by rw [hnbe]; omega)
        (by rw [fr_fixed_len]; omega) hfb (fun _ _ => rfl) (fun _ _ => rfl) (fun _ _ => rfl)
        (fun _ _ => rfl) n nd' n1 h
    · have hlt := lt_of_get h
      rw [pushNode_length] at hlt
      have hn'' : n = p.sb.M.nodes.length := by omega
      subst hn''
      rw [pushNode_get_new] at h
      have : nd = nd' := Option.some.inj h
      subst this
      refine ⟨by rw [hnp]; exact pl, by rw [hnm, hnbe]; exact hmp, by rw [hoffN]; exact hpXrot,
        fun _ => hnI ▸ hbs, fun _ => hnj, ?_, ?_, ?_, fun h' => absurd h' hne_api,
        fun h' => absurd h' hne_api, fun h' => absurd h' hne_api, fun h' => absurd h' hne_api,
        fun h' => absurd h' hne_api⟩
      · intro _
        rw [hnp, bodyOf_push_old _ _ _ pl, pbody, hnm]
      · intro _
        rw [hoffN, hnp, offOf_push_old hS _ nd hfb _ pl, poff, hnE, hnr, fpX_eq]
      · intro _
        exact ⟨m.fixedBodies.length, hna, by rw [fr_fixed_len]; omega⟩
  · -- idnode
    intro n nd' n1 h
    change (pushNode p.sb.M nd).nodes[n]? = some nd' at h
    show lookupNode (p.sb.idMap ++ _) nd'.apiId = n
    by_cases hn' : n < p.sb.M.nodes.length
    · rw [pushNode_get_old _ _ n hn'] at h
      rw [hlk_old _ (hvalid_api n nd' n1 h)]
      exact hS.idnode n nd' n1 h
    · have hlt := lt_of_get h
      rw [pushNode_length] at hlt
      have hn'' : n = p.sb.M.nodes.length := by omega
      subst hn''
      rw [pushNode_get_new] at h
      have : nd = nd' := Option.some.inj h
      subst this
      rw [hna]; exact hlk_new
  · -- movNode
    intro i i1 i2
    rw [hnbe] at i2
    show 1 ≤ lookupNode (p.sb.idMap ++ _) i ∧ lookupNode (p.sb.idMap ++ _) i
      < (pushNode p.sb.M nd).nodes.length ∧ ∀ nd', (pushNode p.sb.M nd).nodes[
        lookupNode (p.sb.idMap ++ _) i]? = some nd' → _
    rw [hlk_old i (Or.inl i2)]
    obtain ⟨a1, a2, a3⟩ := hS.movNode i i1 i2
    refine ⟨a1, by rw [pushNode_length]; omega, fun nd' h' => ?_⟩
    rw [pushNode_get_old _ _ _ a2] at h'
    exact a3 nd' h'
  · -- fixNode
    intro k hk
    rw [fr_fixed_len] at hk
    show 1 ≤ lookupNode (p.sb.idMap ++ _) (fixedDisc + k) ∧ lookupNode (p.sb.idMap ++ _)
      (fixedDisc + k) < (pushNode p.sb.M nd).nodes.length ∧ ∀ nd', (pushNode p.sb.M nd).nodes[
        lookupNode (p.sb.idMap ++ _) (fixedDisc + k)]? = some nd' → _
    by_cases hk' : k < m.fixedBodies.length
    · have hv : m.validId (fixedDisc + k) := by
        right; rw [isFixed_iff m _ hwf.fixed_cap]; omega
      rw [hlk_old _ hv, hfb k hk']
      obtain ⟨a1, a2, a3⟩ := hS.fixNode k hk'
      refine ⟨a1, by rw [pushNode_length]; omega, fun nd' h' => ?_⟩
      rw [pushNode_get_old _ _ _ a2] at h'
      exact a3 nd' h'
    · have hk'' : k = m.fixedBodies.length := by omega
      subst hk''
      rw [hlk_new]
      refine ⟨hN1, by rw [pushNode_length]; omega, fun nd' h' => ?_⟩
      rw [pushNode_get_new] at h'
      have : nd = nd' := Option.some.inj h'
      subst this
      rw [fr_fixedBody_new]
      exact ⟨hna, hnm⟩
  · -- bodyrbi
    intro i i1 i2
    rw [hnbe] at i2
    rw [fr_rbi m parent frame b name pb hwf i hmp, fr_body m parent frame b name pb i hmp]
    by_cases h : i = m.mpOf parent
    · rw [if_pos h, if_pos h]
    · rw [if_neg h, if_neg h]; exact hS.bodyrbi i i1 i2
  · -- rbi
    intro i i1 i2
    rw [hnbe] at i2
    show _ = lsum RBI.zero _ (List.range (pushNode p.sb.M nd).nodes.length)
    rw [pushNode_length, rbi_lsum_range_succ]
    have hold : lsum RBI.zero (nodeRBI (pushNode p.sb.M nd)
          (offOf (m.fixedResult parent frame b name pb) (pushNode p.sb.M nd)) i)
          (List.range p.sb.M.nodes.length)
        = lsum RBI.zero (nodeRBI p.sb.M (offOf m p.sb.M) i) (List.range p.sb.M.nodes.length) :=
      lsum_congr _ _ _ (fun n hn' => nodeRBI_push_old hS _ nd hfb i n (List.mem_range.1 hn'))
    rw [hold, ← hS.rbi i i1 i2, fr_rbi m parent frame b name pb hwf i hmp]
    unfold nodeRBI
    rw [pushNode_getD_new, hoffN]
    by_cases h : i = m.mpOf parent
    · rw [if_pos h, if_pos ⟨by rw [hnm, h], hnh⟩, hnmass, hncom, hnI,
        C15.join_toRBI hpXrot hjoin, h, hS.bodyrbi _ (h ▸ i1) hmp]
      rfl
    · rw [if_neg h, if_neg (fun hh => h (by rw [← hh.1, hnm])), rbi_add_zero]
  · -- virt
    intro i i1 i2 hv x
    rw [hnbe] at i2
    rw [fr_body m parent frame b name pb i hmp] at hv
    rw [fr_rbi m parent frame b name pb hwf i hmp]
    by_cases h : i = m.mpOf parent
    · rw [if_pos h] at hv
      rw [if_pos h]
      have := join_virtual hjoin hv
      rw [this, ← h, ← hS.bodyrbi i i1 i2]
      rw [this, ← h] at hv
      exact hS.virt i i1 i2 hv x
    · rw [if_neg h] at hv
      rw [if_neg h]
      exact hS.virt i i1 i2 hv x

end
end Rbdl.L01Cap
