import RbdlProofs.Lemmas.LDynCapEx
import RbdlProofs.Lemmas.AbaLocal
/-
  Concrete data for the non-vacuity examples of the `ForwardDynamics` capstone: arities and pivots on
  the branched tree `L01Cap.Ex`, and a model with fixed bodies and a floating base but without custom
  joints (`ExG` = `L01Cap.ExF` without the cylindrical joint).
-/
namespace Rbdl.LDynCap
open Lean.Grind Rbdl Rbdl.Spec Rbdl.L01Cap Rbdl.L02

/-- applied generalized forces -/
def exTau : VecN Rat := fun n => 3 - (n : Rat) / 2

theorem ex_ar : ∀ i, 1 ≤ i → i < Ex.m.nBodies → Ex.m.arity i = .one ∨ Ex.m.arity i = .three := by
  intro i h1 h2
  rw [Ex.m_n] at h2
  obtain rfl | rfl | rfl | rfl | rfl : i = 1 ∨ i = 2 ∨ i = 3 ∨ i = 4 ∨ i = 5 := by omega
  all_goals decide +kernel

theorem ex_piv : ∀ i, 1 ≤ i → i < Ex.m.nBodies →
    pivotOk Ex.m (forwardDynamics Ex.m Ex.w1 Ex.st Ex.qd exTau Ex.qdd (some Ex.fe)).1 i := by
  intro i h1 h2
  rw [Ex.m_n] at h2
  obtain rfl | rfl | rfl | rfl | rfl : i = 1 ∨ i = 2 ∨ i = 3 ∨ i = 4 ∨ i = 5 := by omega
  · exact pivotOk_three _ _ 1 (by decide +kernel) (by decide +kernel)
  · exact pivotOk_one _ _ 2 (by decide +kernel) (by decide +kernel)
  · exact pivotOk_three _ _ 3 (by decide +kernel) (by decide +kernel)
  · exact pivotOk_one _ _ 4 (by decide +kernel) (by decide +kernel)
  · exact pivotOk_one _ _ 5 (by decide +kernel) (by decide +kernel)

theorem ex_piv_cmt : ∀ i, 1 ≤ i → i < Ex.m.nBodies →
    pivotOk Ex.m (calcMInvTimesTau Ex.m Ex.w1 Ex.st exTau Ex.qdd true).1 i := by
  intro i h1 h2
  rw [Ex.m_n] at h2
  obtain rfl | rfl | rfl | rfl | rfl : i = 1 ∨ i = 2 ∨ i = 3 ∨ i = 4 ∨ i = 5 := by omega
  · exact pivotOk_three _ _ 1 (by decide +kernel) (by decide +kernel)
  · exact pivotOk_one _ _ 2 (by decide +kernel) (by decide +kernel)
  · exact pivotOk_three _ _ 3 (by decide +kernel) (by decide +kernel)
  · exact pivotOk_one _ _ 4 (by decide +kernel) (by decide +kernel)
  · exact pivotOk_one _ _ 5 (by decide +kernel) (by decide +kernel)

namespace ExG

def ops : List (Op Rat) :=
  [ .addBody 0 C16.Ex.X ExF.jFloat Ex.b1 "pelvis",
    .appendBody C16.Ex.Y Ex.jRev Ex.b2 "thigh",
    .appendBody C16.Ex.X ExF.jFix Ex.b3 "sensor",
    .appendBody C16.Ex.Y ExF.jFix Ex.b5 "imu",
    .addBody fixedDisc C16.Ex.Y ExF.jYXZ Ex.b4 "shank",
    .addBody 0 C16.Ex.Y ExF.jFix Ex.b2 "plate" ]

def m : ModelS Rat := ModelS.init.run ops
def M : SModel Rat := specOf ops

theorem ops_good : goodRunF (ModelS.init : ModelS Rat) ops := by
  refine ⟨by decide +kernel, ⟨C16.Ex.X_isRot, rfl, Or.inr (Or.inr ⟨rfl, rfl⟩)⟩, ⟨_, rfl⟩,
    by decide +kernel, ?_⟩
  refine ⟨by decide +kernel, ⟨C16.Ex.Y_isRot, rfl, Or.inl ⟨Ex.good_jRev, rfl⟩⟩, ⟨_, rfl⟩,
    by decide +kernel, ?_⟩
  refine ⟨by decide +kernel, ⟨C16.Ex.X_isRot, rfl, Or.inr (Or.inl rfl)⟩,
    ⟨fixedDisc, by decide +kernel⟩, by decide +kernel, ?_⟩
  refine ⟨by decide +kernel, ⟨C16.Ex.Y_isRot, rfl, Or.inr (Or.inl rfl)⟩,
    ⟨fixedDisc + 1, by decide +kernel⟩, by decide +kernel, ?_⟩
  refine ⟨by decide +kernel, ⟨C16.Ex.Y_isRot, rfl, Or.inl ⟨ExF.good_jYXZ, rfl⟩⟩,
    ⟨4, by decide +kernel⟩, by decide +kernel, ?_⟩
  refine ⟨by decide +kernel, ⟨C16.Ex.Y_isRot, rfl, Or.inr (Or.inl rfl)⟩,
    ⟨fixedDisc + 2, by decide +kernel⟩, by decide +kernel, trivial⟩

theorem m_ok : ModelOK m := (refinesF_by_construction ops ops_good).1
theorem m_refines : RefinesF m M (offOf m ((PB.init : PB Rat).run ops).sb.M)
    (lookupNode ((PB.init : PB Rat).run ops).sb.idMap) := (refinesF_by_construction ops ops_good).2

theorem m_n : m.nBodies = 5 := by decide +kernel
theorem m_dof : m.dofCount = 10 := by decide +kernel

/-- coordinates: 0–2 translation, 3–5 + 10 quaternion of the pelvis, 6 thigh, 7–9 Euler-YXZ shank -/
def st : QS Rat :=
  { q := fun n => if n = 3 then 1/5 else if n = 4 then 2/5 else if n = 5 then 2/5
                  else if n = 10 then 4/5 else 1/2
    c := fun _ => 4/5
    s := fun _ => 3/5 }

theorem jt1 : (m.joint 1).jt = .translationXYZ := by decide +kernel
theorem jt2 : (m.joint 2).jt = .spherical := by decide +kernel
theorem jt3 : (m.joint 3).jt = .revolute := by decide +kernel
theorem jt4 : (m.joint 4).jt = .eulerYXZ := by decide +kernel

theorem st_ok : StateOK m st := by
  intro i h1 h2
  rw [m_n] at h2
  obtain rfl | rfl | rfl | rfl : i = 1 ∨ i = 2 ∨ i = 3 ∨ i = 4 := by omega
  · unfold ModelS.jointUnit; simp only [jt1]
  · unfold ModelS.jointUnit; simp only [jt2]; decide +kernel
  · unfold ModelS.jointUnit; simp only [jt3]
    exact ⟨C16.Ex.cs_unit, by decide +kernel⟩
  · unfold ModelS.jointUnit; simp only [jt4]
    exact ⟨C16.Ex.cs_unit, C16.Ex.cs_unit, C16.Ex.cs_unit⟩

theorem m_axes : L13.AxesOK m := by
  intro i h1 h2
  rw [m_n] at h2
  obtain rfl | rfl | rfl | rfl : i = 1 ∨ i = 2 ∨ i = 3 ∨ i = 4 := by omega
  all_goals exact ⟨fun h => absurd h (by decide +kernel), fun h => absurd h (by decide +kernel),
    fun h => absurd h (by decide +kernel)⟩

def w0 : WS Rat := initWS m
def w1 : WS Rat := poison m w0 11
theorem w0_fixed : WSFixed m w0 := L13.wsfixed_initWS m m_axes
theorem w1_fixed : WSFixed m w1 := L13.wsfixed_poison m _ 11 w0_fixed

theorem m_order : OrderOK m := by unfold OrderOK; decide +kernel

theorem m_ar : ∀ i, 1 ≤ i → i < m.nBodies → m.arity i = .one ∨ m.arity i = .three := by
  intro i h1 h2
  rw [m_n] at h2
  obtain rfl | rfl | rfl | rfl : i = 1 ∨ i = 2 ∨ i = 3 ∨ i = 4 := by omega
  all_goals decide +kernel

theorem m_piv : ∀ i, 1 ≤ i → i < m.nBodies →
    pivotOk m (forwardDynamics m w1 st Ex.qd exTau Ex.qdd (some Ex.fe)).1 i := by
  intro i h1 h2
  rw [m_n] at h2
  obtain rfl | rfl | rfl | rfl : i = 1 ∨ i = 2 ∨ i = 3 ∨ i = 4 := by omega
  · exact pivotOk_three _ _ 1 (by decide +kernel) (by decide +kernel)
  · exact pivotOk_three _ _ 2 (by decide +kernel) (by decide +kernel)
  · exact pivotOk_one _ _ 3 (by decide +kernel) (by decide +kernel)
  · exact pivotOk_three _ _ 4 (by decide +kernel) (by decide +kernel)

theorem m_piv_cmt : ∀ i, 1 ≤ i → i < m.nBodies →
    pivotOk m (calcMInvTimesTau m w1 st exTau Ex.qdd true).1 i := by
  intro i h1 h2
  rw [m_n] at h2
  obtain rfl | rfl | rfl | rfl : i = 1 ∨ i = 2 ∨ i = 3 ∨ i = 4 := by omega
  · exact pivotOk_three _ _ 1 (by decide +kernel) (by decide +kernel)
  · exact pivotOk_three _ _ 2 (by decide +kernel) (by decide +kernel)
  · exact pivotOk_one _ _ 3 (by decide +kernel) (by decide +kernel)
  · exact pivotOk_three _ _ 4 (by decide +kernel) (by decide +kernel)

end ExG
end Rbdl.LDynCap
