import Rbdl.Geom.Spec
import Rbdl.Geom.Factories
/-
  C18 lemmas: the Bezier toolkit formulas against the Taylor-series specification.
-/
namespace Rbdl.L18
open Lean.Grind Rbdl.Geom

attribute [ext] T6 P6

section ring
variable {α : Type} [CommRing α]
theorem mul_def (a b : T6 α) : a * b = T6.mul a b := rfl
theorem add_def (a b : T6 α) : a + b = T6.add a b := rfl
theorem sub_def (a b : T6 α) : a - b = T6.sub a b := rfl

/-- unfolds the Taylor series of a section polynomial to its seven explicit coefficients -/
macro "taylor_unfold" : tactic =>
  `(tactic| simp only [bezVal, derivU, derivU1, derivU2, derivU3, derivU4, derivU5, Spec.derivU, Spec.taylor,
      Spec.bernstein, T6.var, T6.const, T6.smul, T6.coeff, Spec.fact, mul_def, add_def, sub_def, T6.mul,
      T6.add, T6.sub])

set_option maxRecDepth 4000
theorem taylor_c0 (u : α) (p : P6 α) : (Spec.taylor p u).c0 = bezVal u p := by taylor_unfold; grind
theorem derivU_c1 (u : α) (p : P6 α) : derivU u p 1 = 1 * (Spec.taylor p u).c1 := by taylor_unfold; grind
theorem derivU_c2 (u : α) (p : P6 α) : derivU u p 2 = 2 * (Spec.taylor p u).c2 := by taylor_unfold; grind
theorem derivU_c3 (u : α) (p : P6 α) : derivU u p 3 = 6 * (Spec.taylor p u).c3 := by taylor_unfold; grind
theorem derivU_c4 (u : α) (p : P6 α) : derivU u p 4 = 24 * (Spec.taylor p u).c4 := by taylor_unfold; grind
theorem derivU_c5 (u : α) (p : P6 α) : derivU u p 5 = 120 * (Spec.taylor p u).c5 := by taylor_unfold; grind
theorem derivU_c6 (u : α) (p : P6 α) : derivU u p 6 = 720 * (Spec.taylor p u).c6 := by taylor_unfold; grind

/-- Bernstein form of the first derivative: 5 Σ C(4,i) (p_{i+1} - p_i) u^i (1-u)^(4-i) -/
theorem derivU1_bernstein (u : α) (p : P6 α) :
    derivU u p 1 = 5 * ((p.p1 - p.p0) * ((1-u)*(1-u)*((1-u)*(1-u))) + 4 * ((p.p2 - p.p1) * (u * ((1-u)*(1-u)*(1-u))))
      + 6 * ((p.p3 - p.p2) * (u*u*((1-u)*(1-u)))) + 4 * ((p.p4 - p.p3) * (u*u*u*(1-u))) + (p.p5 - p.p4) * (u*u*(u*u))) := by
  simp only [derivU, derivU1]; grind

theorem derivU1_shift (u d : α) (p : P6 α) : derivU u (p.map (· + d)) 1 = derivU u p 1 := by
  simp only [derivU, derivU1, P6.map]; grind
theorem derivU2_shift (u d : α) (p : P6 α) : derivU u (p.map (· + d)) 2 = derivU u p 2 := by
  simp only [derivU, derivU2, P6.map]; grind
theorem derivU1_scale (u s : α) (p : P6 α) : derivU u (p.map (· * s)) 1 = derivU u p 1 * s := by
  simp only [derivU, derivU1, P6.map]; grind
theorem derivU2_scale (u s : α) (p : P6 α) : derivU u (p.map (· * s)) 2 = derivU u p 2 * s := by
  simp only [derivU, derivU2, P6.map]; grind

/-- the value minus a bound, as a combination of the control values minus the bound with the
    (non-negative) Bernstein weights -/
theorem bezVal_sub (u lo : α) (p : P6 α) :
    bezVal u p - lo = (p.p0 - lo) * ((1-u)*(1-u)*((1-u)*(1-u))*(1-u)) + 5 * ((p.p1 - lo) * (u * ((1-u)*(1-u)*((1-u)*(1-u)))))
      + 10 * ((p.p2 - lo) * (u*u*((1-u)*(1-u)*(1-u)))) + 10 * ((p.p3 - lo) * (u*u*u*((1-u)*(1-u))))
      + 5 * ((p.p4 - lo) * (u*u*(u*u)*(1-u))) + (p.p5 - lo) * (u*u*(u*u)*u) := by
  simp only [bezVal]; grind
end ring

section field
variable {α : Type} [Field α]

/-- the chain-rule recursion on arbitrary series: `D f = f' / X'` applied k times to `Y` -/
def chain (X Y : T6 α) : Nat → T6 α
  | 0 => Y
  | k+1 => (chain X Y k).deriv * X.deriv.inv

theorem dydxSeries_eq_chain (xp yp : P6 α) (u : α) (k : Nat) :
    Spec.dydxSeries xp yp u k = chain (Spec.taylor xp u) (Spec.taylor yp u) k := by
  induction k with
  | zero => rfl
  | succ k ih => simp only [Spec.dydxSeries, chain, ih]
end field
end Rbdl.L18
