import RbdlProofs.Lemmas.Loops
import RbdlProofs.Lemmas.Kin04
/-
  C05, loop level: the walk `walkUp` from a body to the root, the column writes `setCol`, and the
  shared column fill `jacFill` of the three Jacobian routines.

  * `pathList m fuel j` — the bodies visited by `walkUp m fuel j`; `path m j` the complete path;
    `pathList_fuel`, `walkUp_fuel`: in tree order (`λ j < j`) every fuel `≥ j` (in particular
    `nBodies`) reaches the root.
  * `colFill` / `jacBody` / `fillList`: the writes of one joint / of a list of joints;
    `*_hit`, `*_miss`: which entry of the matrix ends up where.
  * `Layout m`: the part of `ModelS.WF` that is needed (tree order, contiguous coordinate ranges
    inside `[0, qdotSize)`); `ColsOk m w`: joint `j` has at most `dof j` motion-subspace columns.
  * `jacFill_sim`: two fills that walk the same path are related column write by column write.
-/
namespace Rbdl.L05
open Lean.Grind Rbdl
set_option linter.unusedSimpArgs false
set_option linter.unusedVariables false
set_option linter.unusedSectionVars false

section
variable {α : Type} [Field α]

/-! ### the path from a body to the root -/

/-- tree order: parents precede children -/
def Tree (m : ModelS α) : Prop := ∀ i, 1 ≤ i → i < m.nBodies → m.lam i < i

/-- the bodies visited by `walkUp m fuel j`, in the order of the visit -/
def pathList (m : ModelS α) : Nat → Nat → List Nat
  | 0, _ => []
  | f+1, j => if j = 0 then [] else j :: pathList m f (m.lam j)

/-- the path `j, λ j, λ λ j, …` up to (excluding) the root -/
def path (m : ModelS α) (j : Nat) : List Nat := pathList m j j

theorem walkUp_eq_foldl {σ : Type} (m : ModelS α) (fuel j : Nat) (body : Nat → σ → σ) (s : σ) :
    walkUp m fuel j body s = (pathList m fuel j).foldl (fun s j => body j s) s := by
  induction fuel generalizing j s with
  | zero => rfl
  | succ f ih =>
    simp only [walkUp, pathList]
    split
    · rfl
    · rw [List.foldl_cons]; exact ih _ _

/-- in tree order the visited list does not depend on the fuel once it is `≥ j` -/
theorem pathList_fuel (m : ModelS α) (htree : Tree m) :
    ∀ j, j < m.nBodies → ∀ f1 f2, j ≤ f1 → j ≤ f2 → pathList m f1 j = pathList m f2 j := by
  intro j
  induction j using Nat.strongRecOn with
  | _ j ih =>
    intro hj f1 f2 h1 h2
    by_cases hz : j = 0
    · subst hz
      cases f1 <;> cases f2 <;> simp [pathList]
    · obtain ⟨a, rfl⟩ : ∃ a, f1 = a + 1 := ⟨f1 - 1, by omega⟩
      obtain ⟨b, rfl⟩ : ∃ b, f2 = b + 1 := ⟨f2 - 1, by omega⟩
      have hlt := htree j (by omega) hj
      simp only [pathList, if_neg hz]
      rw [ih (m.lam j) hlt (by omega) a b (by omega) (by omega)]

theorem pathList_eq_path (m : ModelS α) (htree : Tree m) (j : Nat) (hj : j < m.nBodies)
    (fuel : Nat) (hf : j ≤ fuel) : pathList m fuel j = path m j :=
  pathList_fuel m htree j hj fuel j hf (Nat.le_refl _)

/-- the walk terminates at the root: more fuel than `j` changes nothing, and `nBodies` is enough -/
theorem walkUp_fuel {σ : Type} (m : ModelS α) (htree : Tree m) (j : Nat) (hj : j < m.nBodies)
    (f1 f2 : Nat) (h1 : j ≤ f1) (h2 : j ≤ f2) (body : Nat → σ → σ) (s : σ) :
    walkUp m f1 j body s = walkUp m f2 j body s := by
  rw [walkUp_eq_foldl, walkUp_eq_foldl, pathList_fuel m htree j hj f1 f2 h1 h2]

theorem path_zero (m : ModelS α) : path m 0 = [] := rfl

/-- the defining recursion of the path -/
theorem path_unfold (m : ModelS α) (htree : Tree m) (j : Nat) (h1 : 1 ≤ j) (hj : j < m.nBodies) :
    path m j = j :: path m (m.lam j) := by
  have hlt := htree j h1 hj
  obtain ⟨a, rfl⟩ : ∃ a, j = a + 1 := ⟨j - 1, by omega⟩
  unfold path
  simp only [pathList, if_neg (by omega : ¬ a + 1 = 0)]
  rw [pathList_fuel m htree (m.lam (a + 1)) (by omega) a (m.lam (a + 1)) (by omega)
    (Nat.le_refl _)]

theorem mem_pathList (m : ModelS α) (htree : Tree m) (fuel : Nat) :
    ∀ j, j < m.nBodies → ∀ x, x ∈ pathList m fuel j → 1 ≤ x ∧ x ≤ j := by
  induction fuel with
  | zero => intro j hj x hx; simp [pathList] at hx
  | succ f ih =>
    intro j hj x hx
    simp only [pathList] at hx
    split at hx
    · simp at hx
    · rename_i hz
      have hlt := htree j (by omega) hj
      rcases List.mem_cons.1 hx with e | e
      · omega
      · have := ih (m.lam j) (by omega) x e
        omega

theorem mem_path (m : ModelS α) (htree : Tree m) (j : Nat) (hj : j < m.nBodies) (x : Nat)
    (hx : x ∈ path m j) : 1 ≤ x ∧ x ≤ j := mem_pathList m htree j j hj x hx

theorem self_mem_path (m : ModelS α) (htree : Tree m) (j : Nat) (h1 : 1 ≤ j)
    (hj : j < m.nBodies) : j ∈ path m j := by
  rw [path_unfold m htree j h1 hj]; exact List.mem_cons_self ..

theorem parent_path_subset (m : ModelS α) (htree : Tree m) (j : Nat) (h1 : 1 ≤ j)
    (hj : j < m.nBodies) (x : Nat) (hx : x ∈ path m (m.lam j)) : x ∈ path m j := by
  rw [path_unfold m htree j h1 hj]; exact List.mem_cons_of_mem _ hx

/-- the path is strictly decreasing, in particular duplicate free -/
theorem pathList_pairwise (m : ModelS α) (htree : Tree m) (fuel : Nat) :
    ∀ j, j < m.nBodies → (pathList m fuel j).Pairwise (fun a b => b < a) := by
  induction fuel with
  | zero => intro j hj; exact List.Pairwise.nil
  | succ f ih =>
    intro j hj
    simp only [pathList]
    split
    · exact List.Pairwise.nil
    · rename_i hz
      have hlt := htree j (by omega) hj
      refine List.Pairwise.cons ?_ (ih (m.lam j) (by omega))
      intro x hx
      have := mem_pathList m htree f (m.lam j) (by omega) x hx
      omega

theorem path_pairwise (m : ModelS α) (htree : Tree m) (j : Nat) (hj : j < m.nBodies) :
    (path m j).Pairwise (fun a b => b < a) := pathList_pairwise m htree j j hj

/-! ### `setCol` -/

theorem setCol_other (G : MatN α) (c : Nat) (vals : List α) (r c' : Nat) (h : c' ≠ c) :
    setCol G c vals r c' = G r c' := by
  unfold setCol
  rw [if_neg (fun hh => h hh.1)]

theorem setCol_same (G : MatN α) (c : Nat) (vals : List α) (r : Nat) :
    setCol G c vals r c = if r < vals.length then vals.getD r 0 else G r c := by
  unfold setCol
  by_cases hr : r < vals.length
  · rw [if_pos ⟨rfl, hr⟩, if_pos hr]
  · rw [if_neg (fun hh => hr hh.2), if_neg hr]

/-! ### the writes of one joint -/

/-- `for (c = 0; c < cols.size(); c++) G.col(k + s + c) = f (cols[c])` -/
def colFill (k : Nat) (f : SV α → List α) (s : Nat) (cols : List (SV α)) (G : MatN α) : MatN α :=
  (cols.zip (List.range' s cols.length)).foldl (fun G p => setCol G (k + p.2) (f p.1)) G

theorem colFill_nil (k : Nat) (f : SV α → List α) (s : Nat) (G : MatN α) :
    colFill k f s [] G = G := rfl

theorem colFill_cons (k : Nat) (f : SV α → List α) (s : Nat) (c : SV α) (cols : List (SV α))
    (G : MatN α) :
    colFill k f s (c :: cols) G = colFill k f (s + 1) cols (setCol G (k + s) (f c)) := rfl

/-- columns outside `[k + s, k + s + #cols)` are not written -/
theorem colFill_miss (k : Nat) (f : SV α → List α) (s : Nat) (cols : List (SV α)) (G : MatN α)
    (r c' : Nat) (h : c' < k + s ∨ k + s + cols.length ≤ c') :
    colFill k f s cols G r c' = G r c' := by
  induction cols generalizing s G with
  | nil => rfl
  | cons c cols ih =>
    rw [colFill_cons, ih (s + 1) _ (by simp only [List.length_cons] at h; omega)]
    exact setCol_other _ _ _ _ _ (by simp only [List.length_cons] at h; omega)

/-- column `k + s + idx` receives `f (cols[idx])` (rows `0 .. len-1`; the other rows are kept) -/
theorem colFill_hit (k : Nat) (f : SV α → List α) (s : Nat) (cols : List (SV α)) (G : MatN α)
    (r idx : Nat) (h : idx < cols.length) :
    colFill k f s cols G r (k + s + idx)
      = if r < (f (cols.getD idx SV.zero)).length then (f (cols.getD idx SV.zero)).getD r 0
        else G r (k + s + idx) := by
  induction cols generalizing s G idx with
  | nil => simp at h
  | cons c cols ih =>
    rw [colFill_cons]
    cases idx with
    | zero =>
      rw [colFill_miss _ _ _ _ _ _ _ (by omega)]
      simp only [Nat.add_zero, List.getD_cons_zero]
      exact setCol_same _ _ _ _
    | succ idx =>
      have e : k + s + (idx + 1) = k + (s + 1) + idx := by omega
      rw [e, ih (s + 1) _ idx (by simp only [List.length_cons] at h; omega)]
      simp only [List.getD_cons_succ]
      rw [setCol_other _ _ _ _ _ (by omega)]

/-- the writes of joint `j` in `jacFill` -/
def jacBody (m : ModelS α) (w : WS α) (T : XT α) (sel : SV α → List α) (j : Nat) (G : MatN α) :
    MatN α :=
  colFill (m.joint j).qIndex (fun S => sel (T.apply ((w.X_base j).inverse.apply S))) 0
    (w.Scols m j) G

/-- the writes of a list of joints, in order -/
def fillList (m : ModelS α) (w : WS α) (T : XT α) (sel : SV α → List α) (l : List Nat)
    (G : MatN α) : MatN α :=
  l.foldl (fun G j => jacBody m w T sel j G) G

theorem jacFill_eq (m : ModelS α) (w : WS α) (T : XT α) (start : Nat) (sel : SV α → List α)
    (G : MatN α) :
    jacFill m w T start sel G = fillList m w T sel (pathList m m.nBodies start) G := by
  unfold jacFill fillList
  rw [walkUp_eq_foldl]
  simp only [jacBody, colFill, List.range_eq_range']

theorem jacFill_eq_path (m : ModelS α) (htree : Tree m) (w : WS α) (T : XT α) (start : Nat)
    (hs : start < m.nBodies) (sel : SV α → List α) (G : MatN α) :
    jacFill m w T start sel G = fillList m w T sel (path m start) G := by
  rw [jacFill_eq, pathList_eq_path m htree start hs _ (by omega)]

theorem fillList_nil (m : ModelS α) (w : WS α) (T : XT α) (sel : SV α → List α) (G : MatN α) :
    fillList m w T sel [] G = G := rfl

theorem fillList_cons (m : ModelS α) (w : WS α) (T : XT α) (sel : SV α → List α) (a : Nat)
    (l : List Nat) (G : MatN α) :
    fillList m w T sel (a :: l) G = fillList m w T sel l (jacBody m w T sel a G) := rfl

/-- the column block of joint `j`: `[qIndex j, qIndex j + #Scols j)` -/
def inBlock (m : ModelS α) (w : WS α) (j k : Nat) : Prop :=
  (m.joint j).qIndex ≤ k ∧ k < (m.joint j).qIndex + (w.Scols m j).length

/-- the blocks of `a` and `b` do not overlap -/
def blocksDisjoint (m : ModelS α) (w : WS α) (a b : Nat) : Prop :=
  (m.joint a).qIndex + (w.Scols m a).length ≤ (m.joint b).qIndex ∨
  (m.joint b).qIndex + (w.Scols m b).length ≤ (m.joint a).qIndex

theorem jacBody_miss (m : ModelS α) (w : WS α) (T : XT α) (sel : SV α → List α) (j : Nat)
    (G : MatN α) (r k : Nat) (h : ¬ inBlock m w j k) : jacBody m w T sel j G r k = G r k := by
  unfold jacBody
  unfold inBlock at h
  exact colFill_miss _ _ _ _ _ _ _ (by omega)

theorem jacBody_hit (m : ModelS α) (w : WS α) (T : XT α) (sel : SV α → List α) (j : Nat)
    (G : MatN α) (r c : Nat) (h : c < (w.Scols m j).length) :
    jacBody m w T sel j G r ((m.joint j).qIndex + c)
      = if r < (sel (T.apply ((w.X_base j).inverse.apply ((w.Scols m j).getD c SV.zero)))).length
        then (sel (T.apply ((w.X_base j).inverse.apply ((w.Scols m j).getD c SV.zero)))).getD r 0
        else G r ((m.joint j).qIndex + c) := by
  unfold jacBody
  have := colFill_hit (m.joint j).qIndex
    (fun S => sel (T.apply ((w.X_base j).inverse.apply S))) 0 (w.Scols m j) G r c h
  simpa only [Nat.add_zero] using this

/-- a column outside the blocks of all joints of the list is not written -/
theorem fillList_miss (m : ModelS α) (w : WS α) (T : XT α) (sel : SV α → List α) (l : List Nat)
    (G : MatN α) (r k : Nat) (h : ∀ j ∈ l, ¬ inBlock m w j k) :
    fillList m w T sel l G r k = G r k := by
  induction l generalizing G with
  | nil => rfl
  | cons a l ih =>
    rw [fillList_cons, ih _ (fun j hj => h j (List.mem_cons_of_mem _ hj))]
    exact jacBody_miss m w T sel a G r k (h a (List.mem_cons_self ..))

/-- for pairwise disjoint blocks, column `qIndex j + c` holds what joint `j` wrote -/
theorem fillList_hit (m : ModelS α) (w : WS α) (T : XT α) (sel : SV α → List α) (l : List Nat)
    (hd : l.Pairwise (blocksDisjoint m w)) (G : MatN α) (j : Nat) (hj : j ∈ l) (r c : Nat)
    (h : c < (w.Scols m j).length) :
    fillList m w T sel l G r ((m.joint j).qIndex + c)
      = if r < (sel (T.apply ((w.X_base j).inverse.apply ((w.Scols m j).getD c SV.zero)))).length
        then (sel (T.apply ((w.X_base j).inverse.apply ((w.Scols m j).getD c SV.zero)))).getD r 0
        else G r ((m.joint j).qIndex + c) := by
  induction l generalizing G with
  | nil => simp at hj
  | cons a l ih =>
    rw [List.pairwise_cons] at hd
    rw [fillList_cons]
    rcases List.mem_cons.1 hj with e | e
    · subst e
      rw [fillList_miss m w T sel l _ r _ (fun x hx => by
        have := hd.1 x hx
        unfold blocksDisjoint at this
        unfold inBlock
        omega)]
      exact jacBody_hit m w T sel j G r c h
    · rw [ih hd.2 _ e]
      rw [jacBody_miss m w T sel a G r _ (by
        have := hd.1 j e
        unfold blocksDisjoint at this
        unfold inBlock
        omega)]

/-! ### the coordinate layout -/

/-- the part of `ModelS.WF` the Jacobian routines rely on -/
structure Layout (m : ModelS α) : Prop where
  tree : Tree m
  contig : ∀ i, i + 1 < m.nBodies →
    (m.joint (i + 1)).qIndex = (m.joint i).qIndex + (m.joint i).dof
  range : ∀ i, i < m.nBodies → (m.joint i).qIndex + (m.joint i).dof ≤ m.qdotSize

theorem Layout.mono {m : ModelS α} (h : Layout m) (i j : Nat) (hij : i < j) (hj : j < m.nBodies) :
    (m.joint i).qIndex + (m.joint i).dof ≤ (m.joint j).qIndex := by
  induction j with
  | zero => omega
  | succ j ih =>
    have hc := h.contig j hj
    by_cases e : i = j
    · subst e; omega
    · have := ih (by omega) (by omega)
      omega

/-- every joint has at most as many motion-subspace columns as declared degrees of freedom -/
def ColsOk (m : ModelS α) (w : WS α) : Prop :=
  ∀ j, 1 ≤ j → j < m.nBodies → (w.Scols m j).length ≤ (m.joint j).dof

/-- this is automatic except for custom joints -/
theorem Scols_length_le (m : ModelS α) (w : WS α) (j : Nat) (h : (m.joint j).jt ≠ .custom) :
    (w.Scols m j).length ≤ (m.joint j).dof := by
  unfold WS.Scols ModelS.arity
  simp only [if_neg h]
  by_cases h1 : (m.joint j).dof = 1
  · simp only [if_pos h1, List.length_singleton]; omega
  · by_cases h3 : (m.joint j).dof = 3
    · simp only [if_neg h1, if_pos h3, M63.cols, List.length_cons, List.length_nil]; omega
    · simp only [if_neg h1, if_neg h3, List.length_nil]; omega

theorem colsOk_of_custom (m : ModelS α) (w : WS α)
    (h : ∀ j, 1 ≤ j → j < m.nBodies → (m.joint j).jt = .custom →
      (w.cS (m.joint j).customIdx).length ≤ (m.joint j).dof) : ColsOk m w := by
  intro j h1 hj
  by_cases hc : (m.joint j).jt = .custom
  · have := h j h1 hj hc
    unfold WS.Scols ModelS.arity
    simpa only [if_pos hc] using this
  · exact Scols_length_le m w j hc

theorem blocksDisjoint_of_layout {m : ModelS α} {w : WS α} (hL : Layout m) (hc : ColsOk m w)
    (a b : Nat) (ha : 1 ≤ a) (hb : 1 ≤ b) (han : a < m.nBodies) (hbn : b < m.nBodies)
    (hab : a ≠ b) : blocksDisjoint m w a b := by
  unfold blocksDisjoint
  have h1 := hc a ha han
  have h2 := hc b hb hbn
  by_cases hlt : a < b
  · have := hL.mono a b hlt hbn; omega
  · have := hL.mono b a (by omega) han; omega

theorem path_blocksDisjoint {m : ModelS α} {w : WS α} (hL : Layout m) (hc : ColsOk m w)
    (start : Nat) (hs : start < m.nBodies) : (path m start).Pairwise (blocksDisjoint m w) := by
  have hp := path_pairwise m hL.tree start hs
  have hm : ∀ x ∈ path m start, 1 ≤ x ∧ x < m.nBodies := fun x hx => by
    have := mem_path m hL.tree start hs x hx; omega
  generalize path m start = l at hp hm
  induction l with
  | nil => exact List.Pairwise.nil
  | cons a l ih =>
    rw [List.pairwise_cons] at hp ⊢
    refine ⟨fun x hx => ?_, ih hp.2 (fun x hx => hm x (List.mem_cons_of_mem _ hx))⟩
    have ha := hm a (List.mem_cons_self ..)
    have hx' := hm x (List.mem_cons_of_mem _ hx)
    have := hp.1 x hx
    exact blocksDisjoint_of_layout hL hc a x ha.1 hx'.1 ha.2 hx'.2 (by omega)

theorem block_in_range {m : ModelS α} {w : WS α} (hL : Layout m) (hc : ColsOk m w) (j : Nat)
    (h1 : 1 ≤ j) (hj : j < m.nBodies) :
    (m.joint j).qIndex + (w.Scols m j).length ≤ m.qdotSize := by
  have := hL.range j hj
  have := hc j h1 hj
  omega

/-! ### the columns of `jacFill` -/

/-- (1) column `qIndex j + c` of a joint `j` on the path holds `sel (T (X_base[j]⁻¹ S_c))` in the
    rows `sel` produces; further rows keep the input -/
theorem jacFill_column (m : ModelS α) (w : WS α) (T : XT α) (start : Nat) (sel : SV α → List α)
    (G : MatN α) (hL : Layout m) (hc : ColsOk m w) (hs : start < m.nBodies) (j : Nat)
    (hj : j ∈ path m start) (c : Nat) (hcj : c < (w.Scols m j).length) (r : Nat) :
    jacFill m w T start sel G r ((m.joint j).qIndex + c)
      = if r < (sel (T.apply ((w.X_base j).inverse.apply ((w.Scols m j).getD c SV.zero)))).length
        then (sel (T.apply ((w.X_base j).inverse.apply ((w.Scols m j).getD c SV.zero)))).getD r 0
        else G r ((m.joint j).qIndex + c) := by
  rw [jacFill_eq_path m hL.tree w T start hs]
  exact fillList_hit m w T sel _ (path_blocksDisjoint hL hc start hs) G j hj r c hcj

/-- (1, 5) a column outside the blocks of the joints on the path keeps the input value -/
theorem jacFill_offpath (m : ModelS α) (w : WS α) (T : XT α) (start : Nat) (sel : SV α → List α)
    (G : MatN α) (htree : Tree m) (hs : start < m.nBodies) (k : Nat)
    (hk : ∀ j ∈ path m start, ¬ inBlock m w j k) (r : Nat) :
    jacFill m w T start sel G r k = G r k := by
  rw [jacFill_eq_path m htree w T start hs]
  exact fillList_miss m w T sel _ G r k hk

/-! ### simulation: two fills along the same path -/

theorem colFill_sim (R : MatN α → MatN α → Prop) (k : Nat) (f f' : SV α → List α)
    (h : ∀ G G' c S, R G G' → R (setCol G c (f S)) (setCol G' c (f' S))) (s : Nat)
    (cols : List (SV α)) (G G' : MatN α) (h0 : R G G') :
    R (colFill k f s cols G) (colFill k f' s cols G') := by
  induction cols generalizing s G G' with
  | nil => exact h0
  | cons c cols ih =>
    rw [colFill_cons, colFill_cons]
    exact ih _ _ _ (h _ _ _ _ h0)

theorem fillList_sim (R : MatN α → MatN α → Prop) (m : ModelS α) (w : WS α) (T T' : XT α)
    (sel sel' : SV α → List α)
    (h : ∀ G G' c y, R G G' → R (setCol G c (sel (T.apply y))) (setCol G' c (sel' (T'.apply y))))
    (l : List Nat) (G G' : MatN α) (h0 : R G G') :
    R (fillList m w T sel l G) (fillList m w T' sel' l G') := by
  induction l generalizing G G' with
  | nil => exact h0
  | cons a l ih =>
    rw [fillList_cons, fillList_cons]
    refine ih _ _ ?_
    unfold jacBody
    exact colFill_sim R _ _ _ (fun G G' c S hR => h G G' c _ hR) _ _ _ _ h0

/-- a relation kept by corresponding column writes is kept by `jacFill` (no hypothesis on the
    model: both fills walk the same path and write the same columns) -/
theorem jacFill_sim (R : MatN α → MatN α → Prop) (m : ModelS α) (w : WS α) (T T' : XT α)
    (start : Nat) (sel sel' : SV α → List α)
    (h : ∀ G G' c y, R G G' → R (setCol G c (sel (T.apply y))) (setCol G' c (sel' (T'.apply y))))
    (G G' : MatN α) (h0 : R G G') :
    R (jacFill m w T start sel G) (jacFill m w T' start sel' G') := by
  rw [jacFill_eq, jacFill_eq]
  exact fillList_sim R m w T T' sel sel' h _ G G' h0

end
end Rbdl.L05
