import RbdlProofs.Lemmas.L19
/-
  L19Gravity — `AddBody` never touches `Model::gravity`; after a load the model's gravity is the
  description's (or the default of a fresh `Model`).
-/
namespace Rbdl.L19
open Lean.Grind Rbdl Rbdl.ModelS Rbdl.LuaLoad

section
variable {α : Type} [Field α] [DecidableEq α]

omit [DecidableEq α] in
theorem addBodyMovable_gravity (m : ModelS α) (p : Nat) (X : XT α) (j : Joint α) (b : Body α)
    (n : String) : (m.addBodyMovable p X j b n).1.gravity = m.gravity := by
  rw [addBodyMovable_eq]; split <;> rfl

theorem addChain_gravity (b : Body α) (name : String) : ∀ (axes : List (SV α)) (m : ModelS α)
    (parent : Nat) (frame : XT α), (m.addChain parent frame axes b name).1.gravity = m.gravity := by
  intro axes
  induction axes with
  | nil => intro m parent frame; rfl
  | cons a rest ih =>
    intro m parent frame
    cases rest with
    | nil => simp only [addChain]; exact addBodyMovable_gravity ..
    | cons a2 rest2 =>
      simp only [addChain]
      rw [addBodyMovable_unnamed]
      simp only
      rw [ih]; rfl

theorem addBody_gravity (m : ModelS α) (p : Nat) (X : XT α) (j : Joint α) (b : Body α)
    (n : String) : (m.addBody p X j b n).1.gravity = m.gravity := by
  rw [addBody_eq]
  split
  · rfl
  · rename_i hd
    split
    · cases hjoin : (m.body (m.mpOf p)).join (m.fpXOf p X) b with
      | none => rw [addBodyFixed_none m p X b n hd hjoin]
      | some pb => rw [addBodyFixed_some m p X b n pb hd hjoin]; rfl
    · exact addBodyMovable_gravity ..
    · simp only [addFloating]; rw [addBodyMovable_gravity]; rfl
    · exact addChain_gravity ..
    · rfl

theorem loadFrame_gravity (s : LState α) (f : FrameEntry α) :
    (loadFrame s f).1.m.gravity = s.m.gravity := by
  cases hp : f.parent with
  | none => simp only [loadFrame, hp]
  | some pn =>
    cases hj : jointOf f.joint with
    | error e => simp only [loadFrame, hp, hj]
    | ok j =>
      cases hb : bodyOf f.body with
      | error e => simp only [loadFrame, hp, hj, hb]
      | ok b =>
        have h := addBody_gravity s.m (mapGet s.map pn) (frameOf f.jointFrame) j b f.name
        cases hr : s.m.addBody (mapGet s.map pn) (frameOf f.jointFrame) j b f.name with
        | mk m' res =>
          rw [hr] at h
          cases res <;> (simp only [loadFrame, hp, hj, hb, hr]; exact h)

theorem loadFrames_gravity (fs : List (FrameEntry α)) : ∀ s : LState α,
    (loadFrames s fs).1.m.gravity = s.m.gravity := by
  induction fs with
  | nil => intro s; rfl
  | cons f fs ih =>
    intro s
    have h1 := loadFrame_gravity s f
    simp only [loadFrames]
    split
    · rename_i s' _ hr
      rw [hr] at h1
      rw [ih s']; exact h1
    · rename_i r hne
      generalize loadFrame s f = r at h1 hne
      exact h1

end
end Rbdl.L19
