import RbdlProofs.Lemmas.AbaPhase1
import RbdlProofs.Lemmas.AbaPhase23
/-
  C02, part 2 (assembly): `inverseDynamics` applied to the accelerations of `forwardDynamics`
  reproduces `tau` on the coordinates of every joint.
-/
namespace Rbdl.L02
open Lean.Grind Rbdl
set_option linter.unusedSectionVars false

section
variable {α : Type} [Field α] [DecidableEq α]

theorem fdWB_frame (m : ModelS α) (tau : VecN α) (w1 : WS α) :
    (fdWB m tau w1).c = w1.c ∧ (fdWB m tau w1).X_lambda = w1.X_lambda
      ∧ (fdWB m tau w1).S = w1.S ∧ (fdWB m tau w1).S3 = w1.S3 :=
  ⟨forDown_frame (fun s => s.c) (fdB2 m tau) (fun i s => (fdB2_frame m tau i s).1) _ _ _,
   forDown_frame (fun s => s.X_lambda) (fdB2 m tau) (fun i s => (fdB2_frame m tau i s).2.1) _ _ _,
   forDown_frame (fun s => s.S) (fdB2 m tau) (fun i s => (fdB2_frame m tau i s).2.2.1) _ _ _,
   forDown_frame (fun s => s.S3) (fdB2 m tau) (fun i s => (fdB2_frame m tau i s).2.2.2) _ _ _⟩

theorem wBg_a0 (m : ModelS α) (wB : WS α) : (wBg m wB).a 0 = spatialGravityNeg m := by
  show upd wB.a 0 (spatialGravityNeg m) 0 = spatialGravityNeg m
  exact upd_same _ _ _

theorem wBg_fields (m : ModelS α) (wB : WS α) :
    (wBg m wB).X_lambda = wB.X_lambda ∧ (wBg m wB).c = wB.c ∧ (wBg m wB).S = wB.S
      ∧ (wBg m wB).S3 = wB.S3 ∧ (∀ i, stored (wBg m wB) i = stored wB i)
      ∧ (wBg m wB).a 0 = spatialGravityNeg m :=
  ⟨rfl, rfl, rfl, rfl, fun _ => rfl, wBg_a0 m wB⟩

theorem phase3_gen (m : ModelS α) (wS : WS α) (q0 : VecN α)
    (htree : ∀ j, 1 ≤ j → j < m.nBodies → m.lam j < j)
    (hars : ∀ j, 1 ≤ j → j < m.nBodies → m.arity j = .one ∨ m.arity j = .three)
    (hqidx : ∀ i j, 1 ≤ i → i < j → j < m.nBodies →
      (m.joint i).qIndex + (m.joint i).dof ≤ (m.joint j).qIndex) :
    P3 m wS (1 + (m.nBodies - 1)) (forUp (m.nBodies - 1) 1 (fdB3 m) (wS, q0)) := by
  apply forUp_inv (P3 m wS) (fdB3 m) (m.nBodies - 1) 1
  · exact ⟨rfl, rfl, fun j a b => by omega, fun j a b => by omega⟩
  · intro i sq hi1 hi2 h
    exact P3_step m _ i sq hi1 (fun j a b => htree j a (by omega)) (fun j a b => hars j a (by omega))
      (fun j a b => hqidx j i a b (by omega)) h

theorem phase3 (m : ModelS α) (wB : WS α) (q0 : VecN α)
    (htree : ∀ j, 1 ≤ j → j < m.nBodies → m.lam j < j)
    (hars : ∀ j, 1 ≤ j → j < m.nBodies → m.arity j = .one ∨ m.arity j = .three)
    (hqidx : ∀ i j, 1 ≤ i → i < j → j < m.nBodies →
      (m.joint i).qIndex + (m.joint i).dof ≤ (m.joint j).qIndex) :
    P3 m (wBg m wB) (1 + (m.nBodies - 1)) (fdFin m wB q0) :=
  phase3_gen m (wBg m wB) q0 htree hars hqidx

/-- **The tree theorem, joint by joint.**  Under `Hyp` and invertible pivots, `inverseDynamics`
    (on any workspace `w2` and any initial `t0`) applied to the accelerations returned by
    `forwardDynamics` writes `tau` on the coordinates of every joint. -/
theorem aba_inverts_rnea_joint (m : ModelS α) (w w2 : WS α) (st : QS α) (qd tau q0 t0 : VecN α)
    (fext : Option (Nat → SV α)) (H : Hyp m st qd fext w w2)
    (hpiv : ∀ i, 1 ≤ i → i < m.nBodies →
      pivotOk m (forwardDynamics m w st qd tau q0 fext).1 i) :
    ∀ i, 1 ≤ i → i < m.nBodies → ∀ t, t < (m.joint i).dof →
      (inverseDynamics m w2 st qd (forwardDynamics m w st qd tau q0 fext).2 t0 fext).2
          ((m.joint i).qIndex + t) = tau ((m.joint i).qIndex + t) := by
  intro i hi1 hi2 t ht
  rw [forwardDynamics_stages] at hpiv ⊢
  rw [inverseDynamics_stages]
  have hP1 := fun qdd => phase1 m st qd qdd fext w w2 H
  generalize fdW1 m st qd fext w = w1 at hpiv hP1 ⊢
  obtain ⟨fc, fX, fS, fS3⟩ := fdWB_frame m tau w1
  have hwB : fdWB m tau w1 = forDown (m.nBodies - 1) (m.nBodies - 1) (fdB2 m tau) w1 := rfl
  generalize fdWB m tau w1 = wB at hpiv fc fX fS fS3 hwB ⊢
  have h3 := phase3 m wB q0 H.tree H.ar H.qidx
  generalize fdFin m wB q0 = sq at hpiv h3 ⊢
  have hP1 := hP1 sq.2
  generalize idR1 m st qd sq.2 fext w2 = r1 at hP1 ⊢
  obtain ⟨gX, gc, gS, gS3, gst⟩ := sameButA_fields h3.same
  obtain ⟨bX, bc, bS, bS3, bst, ba0⟩ := wBg_fields m wB
  have hnc : ∀ j, 1 ≤ j → j < m.nBodies → m.arity j ≠ .custom := by
    intro j hj1 hj2
    rcases H.ar j hj1 hj2 with h | h <;> rw [h] <;> decide
  -- the accelerations of the two routines agree
  have hagree : ∀ j, j < m.nBodies → r1.a j = sq.1.a j := by
    intro j
    induction j using Nat.strongRecOn with
    | _ j ih =>
      intro hj
      by_cases h0 : j = 0
      · rw [h0, hP1.a0, h3.a0, ba0]
      · have hj1 : 1 ≤ j := by omega
        have hl := H.tree j hj1 hj
        rw [hP1.acc j hj1 hj, h3.acq j hj1 (by omega), ih (m.lam j) hl (by omega), bX, bc, fX, fc,
          Sqdd_congr m (wBg m wB) w1 j sq.2 (by rw [bS, fS]) (by rw [bS3, fS3]) (hnc j hj1 hj)]
  have ha : ∀ j, 1 ≤ j → j < m.nBodies →
      r1.a j = accelOf m (forDown (m.nBodies - 1) (m.nBodies - 1) (fdB2 m tau) w1) j
        ((w1.X_lambda j).apply (r1.a (m.lam j)) + w1.c j) := by
    intro j hj1 hj2
    have hl := H.tree j hj1 hj2
    rw [hagree j hj2, hagree (m.lam j) (by omega), h3.acc j hj1 (by omega), bX, bc, fX, fc, ← hwB]
    exact accelOf_congr m _ _ j (bst j) (by rw [bS]) (by rw [bS3]) _
  have hpiv' : ∀ j, 1 ≤ j → j < m.nBodies →
      pivotOk m (forDown (m.nBodies - 1) (m.nBodies - 1) (fdB2 m tau) w1) j := by
    intro j hj1 hj2
    rw [← hwB]
    exact (pivotOk_congr m sq.1 wB j ((gst j).trans (bst j)) (by rw [gS3, bS3])).mp
      (hpiv j hj1 hj2)
  have h2 := phase2 m tau t0 w1 r1 r1.a H.tree H.ar H.qidx hP1.xl hP1.sS hP1.sS3 hP1.frc
    hP1.sym ha hpiv' (m.nBodies - 1) (Nat.le_refl _)
  exact h2.tau_ok i (by omega) hi2 t ht

end
end Rbdl.L02
