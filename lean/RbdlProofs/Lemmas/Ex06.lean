import RbdlProofs.Lemmas.Loop06
import RbdlProofs.Lemmas.Kin04Ex
/-
  Concrete instances over `Rat` for the satisfiability examples of C06: one-joint models for every
  joint kind (joint frame `C16.Ex.X`, angles with (cos, sin) = (4/5, 3/5), the unit quaternion
  (1,2,2,4)/5, non-zero velocities and accelerations) with the workspace `initWS` as left by the
  construction code, and the branched tree `C04.Ex.m`.
-/
namespace Rbdl.L06.Ex
open Lean.Grind Rbdl Rbdl.Spec

/-- generalized velocities 1, 2, 3, … and accelerations 2, 5/3, 4/3, … -/
def qd : VecN Rat := fun n => (n : Rat) + 1
def qdd : VecN Rat := fun n => 2 - (n : Rat) / 3

/-- one movable body on the base, joint `j`, joint frame `C16.Ex.X` -/
def mk1 (j : Joint Rat) (cj : List CustomKind) (w3 : Nat) : ModelS Rat :=
  { (ModelS.init : ModelS Rat) with
    lambda := [0, 0], joints := [Joint.root, j], xT := [XT.id, C16.Ex.X], w3Index := [0, w3],
    customJoints := cj, bodies := [C04.Ex.b, C04.Ex.b] }

def jRevX : Joint Rat := ⟨.revoluteX, [sv6 1 0 0 0 0 0], 1, 0, noCustom⟩
def jRevY : Joint Rat := ⟨.revoluteY, [sv6 0 1 0 0 0 0], 1, 0, noCustom⟩
def jRevZ : Joint Rat := ⟨.revoluteZ, [sv6 0 0 1 0 0 0], 1, 0, noCustom⟩
def jRev : Joint Rat := Joint.revolute C16.Ex.ax
def jPris : Joint Rat := Joint.prismatic ⟨1, 2, 3⟩
def jHel : Joint Rat := ⟨.helical, [⟨C16.Ex.ax, ⟨1, 2, 3⟩⟩], 1, 0, noCustom⟩
/-- coordinates 2,3,4 and the `w` entry 7 hold the unit quaternion of `C04.Ex.st` -/
def jSph : Joint Rat :=
  ⟨.spherical, [sv6 0 0 1 0 0 0, sv6 0 1 0 0 0 0, sv6 1 0 0 0 0 0], 3, 2, noCustom⟩
def jZYX : Joint Rat :=
  ⟨.eulerZYX, [sv6 0 0 1 0 0 0, sv6 0 1 0 0 0 0, sv6 1 0 0 0 0 0], 3, 0, noCustom⟩
def jXYZ : Joint Rat :=
  ⟨.eulerXYZ, [sv6 1 0 0 0 0 0, sv6 0 1 0 0 0 0, sv6 0 0 1 0 0 0], 3, 0, noCustom⟩
def jYXZ : Joint Rat :=
  ⟨.eulerYXZ, [sv6 0 1 0 0 0 0, sv6 1 0 0 0 0 0, sv6 0 0 1 0 0 0], 3, 0, noCustom⟩
def jZXY : Joint Rat :=
  ⟨.eulerZXY, [sv6 0 0 1 0 0 0, sv6 1 0 0 0 0 0, sv6 0 1 0 0 0 0], 3, 0, noCustom⟩
def jTrans : Joint Rat :=
  ⟨.translationXYZ, [sv6 0 0 0 1 0 0, sv6 0 0 0 0 1 0, sv6 0 0 0 0 0 1], 3, 0, noCustom⟩
def jCustom (dof : Nat) : Joint Rat := Joint.customProxy dof 0

def mRevX := mk1 jRevX [] 0
def mRevY := mk1 jRevY [] 0
def mRevZ := mk1 jRevZ [] 0
def mRev := mk1 jRev [] 0
def mPris := mk1 jPris [] 0
def mHel := mk1 jHel [] 0
def mSph := mk1 jSph [] 7
def mZYX := mk1 jZYX [] 0
def mXYZ := mk1 jXYZ [] 0
def mYXZ := mk1 jYXZ [] 0
def mZXY := mk1 jZXY [] 0
def mTrans := mk1 jTrans [] 0
def mCRevX := mk1 (jCustom 1) [.revX] 0
def mCZYX := mk1 (jCustom 3) [.eulerZYX] 0
def mCCyl := mk1 (jCustom 2) [.cyl] 0
/-- the tree of C04 and the workspace the construction code leaves -/
abbrev m := C04.Ex.m
def w : WS Rat := initWS C04.Ex.m

abbrev st : QS Rat := C04.Ex.st
theorem cs (n : Nat) : st.c n * st.c n + st.s n * st.s n = 1 := C16.Ex.cs_unit
theorem two_ne : (2 : Rat) ≠ 0 := by decide

/-! the tree `C04.Ex.m` with the workspace left by the construction code -/

theorem m_ws : ∀ i, 1 ≤ i → i < C04.Ex.m.nBodies → JointWS C04.Ex.m w i := by
  intro i h1 h2
  rw [C04.Ex.m_n] at h2
  obtain rfl | rfl | rfl | rfl : i = 1 ∨ i = 2 ∨ i = 3 ∨ i = 4 := by omega
  · change _ ∧ _ ∧ _ ∧ _ ∧ _ ∧ _
    exact ⟨rfl, rfl, rfl, rfl, rfl, rfl⟩
  · change _ ∧ _ ∧ _
    exact ⟨rfl, rfl, rfl⟩
  · change _ ∧ _ ∧ (_ ∧ _ ∧ _) ∧ _ ∧ _ ∧ _ ∧ _ ∧ _ ∧ _
    exact ⟨rfl, rfl, ⟨rfl, rfl, rfl⟩, rfl, rfl, rfl, rfl, rfl, rfl⟩
  · exact True.intro

theorem m_w3 : ∀ i, 1 ≤ i → i < C04.Ex.m.nBodies → (C04.Ex.m.joint i).jt = .spherical →
    (C04.Ex.m.joint i).qIndex + 2 < C04.Ex.m.w3 i := by
  intro i h1 h2
  rw [C04.Ex.m_n] at h2
  obtain rfl | rfl | rfl | rfl : i = 1 ∨ i = 2 ∨ i = 3 ∨ i = 4 := by omega
  all_goals decide

/-- `KinOk` is decidable when equality of scalars is (used by the counterexample over `GF(2)`) -/
@[reducible] def decKinOk {α : Type} [Field α] [DecidableEq α] (k : NodeKin α) :
    Decidable (KinOk k) :=
  decidable_of_iff
    (k.R * k.R.transpose = M3.one ∧ k.R.det = 1 ∧
      k.Rd * k.R.transpose + k.R * k.Rd.transpose = M3.zero ∧
      k.Rdd * k.R.transpose + (2 : α) * (k.Rd * k.Rd.transpose) + k.R * k.Rdd.transpose = M3.zero)
    ⟨fun ⟨a, b, c, d⟩ => ⟨a, b, c, d⟩, fun h => ⟨h.orth, h.det, h.skew1, h.skew2⟩⟩

end Rbdl.L06.Ex
