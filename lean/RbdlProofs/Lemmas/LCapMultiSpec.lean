import RbdlProofs.Lemmas.LCapMultiEqv
/-
  Multi-DoF capstone, part 3: every function of the specification (`Rbdl/Spec/Mech.lean`) is invariant
  under the exchange of observationally equal joints (`mapJ g M` for `JointEqv (g nd) nd.joint`).
-/
namespace Rbdl.LCapMulti
open Lean.Grind Rbdl Rbdl.Spec Rbdl.L06 Rbdl.L01 Rbdl.L01Cap Rbdl.Loops
set_option linter.unusedSimpArgs false
set_option linter.unusedVariables false
set_option linter.unusedSectionVars false

section
variable {α : Type} [Field α] [DecidableEq α]
variable (g : SNode α → SJoint α) (M : SModel α)

theorem mapJ_nodes : (mapJ g M).nodes = M.nodes.map (setJ g) := rfl
theorem mapJ_gravity : (mapJ g M).gravity = M.gravity := rfl

theorem zip_setJ {β : Type} (l : List (SNode α)) (k : List β) :
    (l.map (setJ g)).zip k = (l.zip k).map (fun p => (setJ g p.1, p.2)) := by
  rw [List.zip_map_left]
  rfl

theorem zip_zip_setJ {β γ : Type} (l : List (SNode α)) (k : List β) (k' : List γ) :
    ((l.map (setJ g)).zip k).zip k' = ((l.zip k).zip k').map (fun p => ((setJ g p.1.1, p.1.2), p.2)) := by
  rw [zip_setJ, List.zip_map_left]
  rfl

theorem mapJ_newtonEulerTau (hg : ∀ nd ∈ M.nodes, JointEqv (g nd) nd.joint) (st : State α)
    (fext : Nat → SV α) : newtonEulerTau (mapJ g M) st fext = newtonEulerTau M st fext := by
  unfold newtonEulerTau
  simp only [mapJ_kinTable g M hg, mapJ_nv g M hg, mapJ_nodes, mapJ_gravity, zip_zip_setJ,
    List.foldl_map]
  rfl

theorem mapJ_nodeKin (hg : ∀ nd ∈ M.nodes, JointEqv (g nd) nd.joint) (st : State α) (id : Nat) :
    nodeKin (mapJ g M) st id = nodeKin M st id := by
  unfold nodeKin
  simp only [mapJ_kinTable g M hg, mapJ_nodes, zip_setJ, List.find?_map]
  cases h : List.find? ((fun p => p.1.apiId == id) ∘ fun p => (setJ g p.1, p.2))
      (M.nodes.zip (kinTable M st)) with
  | none =>
    have h' : List.find? (fun p => p.1.apiId == id) (M.nodes.zip (kinTable M st)) = none := h
    rw [h']; rfl
  | some p =>
    have h' : List.find? (fun p => p.1.apiId == id) (M.nodes.zip (kinTable M st)) = some p := h
    rw [h']; rfl

variable (hg : ∀ nd ∈ M.nodes, JointEqv (g nd) nd.joint) (st : State α)
include hg

theorem mapJ_bodyToBase (id : Nat) (x : V3 α) :
    bodyToBase (mapJ g M) st id x = bodyToBase M st id x := by
  unfold bodyToBase; rw [mapJ_nodeKin g M hg]
theorem mapJ_baseToBody (id : Nat) (x : V3 α) :
    baseToBody (mapJ g M) st id x = baseToBody M st id x := by
  unfold baseToBody; rw [mapJ_nodeKin g M hg]
theorem mapJ_orientation (id : Nat) : orientation (mapJ g M) st id = orientation M st id := by
  unfold orientation; rw [mapJ_nodeKin g M hg]
theorem mapJ_pointVelocity (id : Nat) (x : V3 α) :
    pointVelocity (mapJ g M) st id x = pointVelocity M st id x := by
  unfold pointVelocity; rw [mapJ_nodeKin g M hg]
theorem mapJ_pointVelocity6D (id : Nat) (x : V3 α) :
    pointVelocity6D (mapJ g M) st id x = pointVelocity6D M st id x := by
  unfold pointVelocity6D; rw [mapJ_nodeKin g M hg]
theorem mapJ_pointAcceleration (id : Nat) (x : V3 α) :
    pointAcceleration (mapJ g M) st id x = pointAcceleration M st id x := by
  unfold pointAcceleration; rw [mapJ_nodeKin g M hg]
theorem mapJ_pointAcceleration6D (id : Nat) (x : V3 α) :
    pointAcceleration6D (mapJ g M) st id x = pointAcceleration6D M st id x := by
  unfold pointAcceleration6D; rw [mapJ_nodeKin g M hg]
theorem mapJ_pointJacobian6DCol (id : Nat) (x : V3 α) (j : Nat) :
    pointJacobian6DCol (mapJ g M) st id x j = pointJacobian6DCol M st id x j := by
  unfold pointJacobian6DCol; rw [mapJ_pointVelocity6D g M hg]
theorem mapJ_bodySpatialJacobianCol (id : Nat) (j : Nat) :
    bodySpatialJacobianCol (mapJ g M) st id j = bodySpatialJacobianCol M st id j := by
  unfold bodySpatialJacobianCol; rw [mapJ_nodeKin g M hg]
theorem mapJ_pointJacobian (id : Nat) (x : V3 α) :
    pointJacobian (mapJ g M) st id x = pointJacobian M st id x := by
  unfold pointJacobian
  simp only [mapJ_nv g M hg, mapJ_pointJacobian6DCol g M hg]
theorem mapJ_pointJacobian6D (id : Nat) (x : V3 α) :
    pointJacobian6D (mapJ g M) st id x = pointJacobian6D M st id x := by
  unfold pointJacobian6D
  simp only [mapJ_nv g M hg, mapJ_pointJacobian6DCol g M hg]
theorem mapJ_bodySpatialJacobian (id : Nat) :
    bodySpatialJacobian (mapJ g M) st id = bodySpatialJacobian M st id := by
  unfold bodySpatialJacobian
  simp only [mapJ_nv g M hg, mapJ_bodySpatialJacobianCol g M hg]

theorem mapJ_partials (j : Nat) : partials (mapJ g M) st j = partials M st j := by
  unfold partials
  simp only [mapJ_kinTable g M hg, mapJ_nodes, zip_setJ, List.filterMap_map]
  rfl

theorem mapJ_inertiaMatrix : inertiaMatrix (mapJ g M) st = inertiaMatrix M st := by
  unfold inertiaMatrix
  simp only [mapJ_kinTable g M hg, mapJ_nv g M hg, mapJ_partials g M hg, mapJ_nodes, zip_setJ,
    List.filter_map, List.zip_map_left, List.foldl_map]
  rfl

theorem mapJ_kineticEnergy : kineticEnergy (mapJ g M) st = kineticEnergy M st := by
  unfold kineticEnergy
  simp only [mapJ_kinTable g M hg, mapJ_nodes, zip_setJ, List.foldl_map]
  rfl

omit hg in
theorem mapJ_totalMass : totalMass (mapJ g M) = totalMass M := by
  unfold totalMass
  simp only [mapJ_nodes, List.foldl_map]
  rfl

theorem mapJ_massSum (f : SNode α → NodeKin α → V3 α)
    (hf : ∀ nd k, f (setJ g nd) k = f nd k) : massSum (mapJ g M) st f = massSum M st f := by
  unfold massSum
  simp only [mapJ_kinTable g M hg, mapJ_nodes, zip_setJ, List.foldl_map, hf]
  rfl

theorem mapJ_com : com (mapJ g M) st = com M st := by
  unfold com; rw [mapJ_totalMass, mapJ_massSum g M hg st _ (fun _ _ => rfl)]
theorem mapJ_comVelocity : comVelocity (mapJ g M) st = comVelocity M st := by
  unfold comVelocity; rw [mapJ_totalMass, mapJ_massSum g M hg st _ (fun _ _ => rfl)]
theorem mapJ_comAcceleration : comAcceleration (mapJ g M) st = comAcceleration M st := by
  unfold comAcceleration; rw [mapJ_totalMass, mapJ_massSum g M hg st _ (fun _ _ => rfl)]
theorem mapJ_potentialEnergy : potentialEnergy (mapJ g M) st = potentialEnergy M st := by
  unfold potentialEnergy; rw [mapJ_totalMass, mapJ_com g M hg, mapJ_gravity]

theorem mapJ_angularMomentum : angularMomentum (mapJ g M) st = angularMomentum M st := by
  unfold angularMomentum
  simp only [mapJ_kinTable g M hg, mapJ_com g M hg, mapJ_comVelocity g M hg, mapJ_nodes, zip_setJ,
    List.foldl_map]
  rfl

end
end Rbdl.LCapMulti
