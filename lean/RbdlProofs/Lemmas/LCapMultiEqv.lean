import RbdlProofs.Lemmas.L01CapFixFinal
/-
  Multi-DoF capstone, part 2: joints that are *observationally equal* (`JointEqv`: same number of
  degrees of freedom, same use of the quaternion index, same pose as a function of the coordinates over
  every commutative ring) may be exchanged in a specification model without changing anything the
  specification computes: `nv`, `coordJets`, `fkTable`, `kinTable`, and with them `newtonEulerTau`,
  `nodeKin` (all kinematic queries and Jacobians), `inertiaMatrix`, `kineticEnergy`, the whole-body
  quantities.
-/
namespace Rbdl.LCapMulti
open Lean.Grind Rbdl Rbdl.Spec Rbdl.L06 Rbdl.L01 Rbdl.L01Cap Rbdl.Loops
set_option linter.unusedSimpArgs false
set_option linter.unusedVariables false
set_option linter.unusedSectionVars false

section
variable {α : Type} [Field α] [DecidableEq α]

/-- the joint reads the quaternion entry -/
def isSphJ : SJoint α → Bool
  | .spherical => true
  | _ => false

/-- **observational equality of two position-level joint definitions**: all the specification can
    observe of a joint -/
structure JointEqv (a b : SJoint α) : Prop where
  dof : a.dof = b.dof
  sph : isSphJ a = isSphJ b
  pose : ∀ {β : Type} [CommRing β] (lift : α → β), lift 0 = 0 → ∀ (k wk : Nat) (cs : Coords β),
    jointPose lift a k wk cs = jointPose lift b k wk cs

theorem JointEqv.refl (a : SJoint α) : JointEqv a a := ⟨rfl, rfl, fun _ _ _ _ _ => rfl⟩
theorem JointEqv.symm {a b : SJoint α} (h : JointEqv a b) : JointEqv b a :=
  ⟨h.dof.symm, h.sph.symm, fun l h0 k wk cs => (h.pose l h0 k wk cs).symm⟩
theorem JointEqv.trans {a b c : SJoint α} (h : JointEqv a b) (h' : JointEqv b c) : JointEqv a c :=
  ⟨h.dof.trans h'.dof, h.sph.trans h'.sph,
    fun l h0 k wk cs => (h.pose l h0 k wk cs).trans (h'.pose l h0 k wk cs)⟩

/-- node with another joint definition -/
def setJ (g : SNode α → SJoint α) (nd : SNode α) : SNode α := { nd with joint := g nd }

/-- the specification model with the joint definitions replaced -/
def mapJ (g : SNode α → SJoint α) (M : SModel α) : SModel α :=
  { M with nodes := M.nodes.map (setJ g) }

theorem isQuatNode_eq (nd : SNode α) : isQuatNode nd = isSphJ nd.joint := by
  unfold isQuatNode isSphJ
  cases nd.joint <;> rfl

/-! ### folds over a mapped list -/

theorem foldl_map_congr {β γ : Type} (s : γ → β → γ) (f : β → β) (l : List β) :
    (∀ x ∈ l, ∀ a, s a (f x) = s a x) → ∀ a, (l.map f).foldl s a = l.foldl s a := by
  induction l with
  | nil => intro _ _; rfl
  | cons x l ih =>
    intro h a
    rw [List.map_cons, List.foldl_cons, List.foldl_cons, h x (List.mem_cons_self ..) a]
    exact ih (fun y hy => h y (List.mem_cons_of_mem _ hy)) _

variable (g : SNode α → SJoint α) (M : SModel α)

theorem mapJ_nv (hg : ∀ nd ∈ M.nodes, JointEqv (g nd) nd.joint) : (mapJ g M).nv = M.nv := by
  unfold SModel.nv mapJ
  exact foldl_map_congr _ _ _ (fun nd hnd a => by show a + (g nd).dof = _; rw [(hg nd hnd).dof]) 0

theorem mapJ_coordJets (hg : ∀ nd ∈ M.nodes, JointEqv (g nd) nd.joint) (st : State α) :
    coordJets (mapJ g M) st = coordJets M st := by
  unfold coordJets mapJ
  refine foldl_map_congr _ _ _ (fun nd hnd a => ?_) _
  have hq : isQuatNode (setJ g nd) = isQuatNode nd := by
    rw [isQuatNode_eq, isQuatNode_eq]; exact (hg nd hnd).sph
  simp only [hq]
  rfl

theorem mapJ_fkTable {β : Type} [CommRing β] (lift : α → β) (h0 : lift 0 = 0)
    (hg : ∀ nd ∈ M.nodes, JointEqv (g nd) nd.joint) (cs : Coords β) :
    fkTable lift (mapJ g M) cs = fkTable lift M cs := by
  unfold fkTable mapJ
  refine foldl_map_congr _ _ _ (fun nd hnd a => ?_) _
  show (if a.isEmpty then _ else a ++ [(a.getD nd.parent Pose.id).comp ((framePose lift nd.E nd.r).comp
    (jointPose lift (g nd) nd.qIdx nd.wIdx cs))]) = _
  rw [(hg nd hnd).pose lift h0]

theorem d2const_zero : (D2.const (0 : α) : D2 α) = 0 := rfl

theorem mapJ_kinTable (hg : ∀ nd ∈ M.nodes, JointEqv (g nd) nd.joint) (st : State α) :
    kinTable (mapJ g M) st = kinTable M st := by
  unfold kinTable
  rw [mapJ_coordJets g M hg, mapJ_fkTable g M D2.const d2const_zero hg]

end
end Rbdl.LCapMulti
