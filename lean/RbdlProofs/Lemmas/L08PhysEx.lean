import RbdlProofs.Lemmas.L08PhysCsv
import RbdlProofs.Lemmas.L08PhysDyn
import RbdlProofs.Lemmas.L08PhysKE
import RbdlProofs.Lemmas.L08PhysEnergy
import RbdlProofs.Props.C12
import RbdlProofs.Lemmas.L09Ex
import RbdlProofs.Lemmas.L01Ex
import RbdlProofs.Lemmas.L03Ex
/-
  Concrete instances over `Rat` for the non-vacuity examples of `Props/C08Phys.lean`.
  * `m`: the tree `C04.Ex.m` (revoluteZ, revolute, spherical, custom cylindrical joint) with a joint
    update order, the constraint set `L09.Ex.ops` (two contact normals, two loop constraints);
    `qddK` solves rows 0, 1, 2, 4 of `G q̈ = γ` of `CalcConstrainedSystemVariables`.
  * `cCb`: the contact constraint of `L09.Ex` with stabilisation switched on.
  * `mD`: the tree `L03.Ex.m` (revoluteZ, revolute, spherical, revoluteX; joints of arity one / three)
    with a joint update order, for the equations of motion.
-/
namespace Rbdl.L08Phys.Ex
open Lean.Grind Rbdl Rbdl.L05 Rbdl.L09 Rbdl.Spec Rbdl.L03

/-- `C04.Ex.m` with a joint update order (the spherical joint first, as `AddBody` orders them) -/
def m : ModelS Rat := { C04.Ex.m with updateOrder := [0, 3, 1, 2, 4] }
abbrev st : QS Rat := L09.Ex.st
abbrev qd : VecN Rat := L09.Ex.qd
abbrev w0 : WS Rat := L09.Ex.w0

theorem setup : Setup m w0 st :=
  ⟨⟨L09.Ex.setup.kin.tree, L09.Ex.setup.kin.jc, L09.Ex.setup.kin.frame, L09.Ex.setup.kin.unit,
    L09.Ex.setup.kin.ws, L09.Ex.setup.kin.inj⟩,
   ⟨L09.Ex.setup.layout.tree, L09.Ex.setup.layout.2, L09.Ex.setup.layout.3⟩,
   L09.Ex.setup.cdof, L09.Ex.setup.w3, L09.Ex.setup.x0⟩

theorem m_perm : (m.updateOrder.drop 1).Perm (List.range' 1 (m.nBodies - 1)) := by decide +kernel

theorem m_inj : L01.CustomInj m := by
  have key : ∀ i, (m.joint i).jt = .custom → i = 4 := by
    intro i h
    have hl := L01.Ex.joint_custom_lt m i h
    have h5 : m.joints.length = 5 := by decide +kernel
    rw [h5] at hl
    obtain rfl | rfl | rfl | rfl | rfl : i = 0 ∨ i = 1 ∨ i = 2 ∨ i = 3 ∨ i = 4 := by omega
    · exact absurd h (by decide +kernel)
    · exact absurd h (by decide +kernel)
    · exact absurd h (by decide +kernel)
    · exact absurd h (by decide +kernel)
    · rfl
  intro i j hi hj _
  rw [key i hi, key j hj]

theorem wsHyp : WsHyp m w0 st := ⟨setup, m_perm, m_inj⟩

theorem cC_P : BodyOK m L09.Ex.cC.bodyP := L09.Ex.cC_P
theorem cL_P : BodyOK m L09.Ex.cL.bodyP := L09.Ex.cL_P
theorem cL_S : BodyOK m L09.Ex.cL.bodyS := L09.Ex.cL_S
theorem cM_P : BodyOK m L09.Ex.cM.bodyP := L09.Ex.cM_P
theorem cM_S : BodyOK m L09.Ex.cM.bodyS := L09.Ex.cM_S

/-- accelerations that satisfy rows 0, 1 (contact), 2 (stabilised loop) and 4 (loop) of `G q̈ = γ` -/
def qddK : VecN Rat := fun k =>
  if k = 0 then -20 else if k = 1 then 291757656119 / 8995404030
  else if k = 2 then 74082756461 / 2698621209 else if k = 4 then 2122805957011 / 26986212090 else 0

theorem qddK_rows : ∀ r, r = 0 ∨ r = 1 ∨ r = 2 ∨ r = 4 →
    rowDot (sysVars m w0 st qd (run L09.Ex.ops) true none).G m.qdotSize r qddK
      = (sysVars m w0 st qd (run L09.Ex.ops) true none).gamma r := by
  intro r hr
  rcases hr with rfl | rfl | rfl | rfl <;> decide +kernel

/-! ### a contact record with stabilisation -/

/-- the contact constraint of `L09.Ex` (rows 0, 1) with `baumgarte = true`, parameters `(3, 5)` -/
def cCb : Constr Rat := { L09.Ex.cC with baumgarte := true, bgA := 3, bgB := 5 }

theorem cCb_contact : cCb.ctype = .contact := L09.Ex.cC_contact
theorem cCb_flags : cCb.velC.length = cCb.T.length ∧ (∀ b ∈ cCb.velC, b = true) ∧
    cCb.posC.length = cCb.T.length ∧ (∀ b ∈ cCb.posC, b = false) := by decide +kernel
theorem cCb_P : BodyOK C04.Ex.m cCb.bodyP := L09.Ex.cC_P

/-- an acceleration vector that satisfies row 0 of the stabilised contact record on `L09.Ex.w2` -/
def qddB : VecN Rat := fun k => if k = 0 then (361084 / 9375) / (-5252 / 5625) else 0

theorem qddB_row :
    rowDot (cCb.jacobian C04.Ex.m L09.Ex.w2 L09.Ex.st zeroMat false).2 C04.Ex.m.qdotSize 0 qddB
      = cCb.addBaumgarte (cCb.positionError C04.Ex.m L09.Ex.w2 L09.Ex.st (fun _ => 0) false).2
          (cCb.velocityError C04.Ex.m L09.Ex.w2 L09.Ex.st L09.Ex.qd zeroMat (fun _ => 0) false).2
          (cCb.gamma C04.Ex.m
            (updateKinematicsCustom C04.Ex.m L09.Ex.w2 none none (some zeroVec)) L09.Ex.st
            L09.Ex.qd (fun _ => 0)).2 0 := by decide +kernel

/-! ### the tree for the equations of motion -/

/-- `L03.Ex.m` with a joint update order -/
def mD : ModelS Rat := { L03.Ex.m with updateOrder := [0, 3, 1, 2, 4] }
/-- a workspace with `X_base[0] = 1` -/
def wD : WS Rat := { L03.Ex.w with X_base := fun _ => XT.id }
abbrev stD : QS Rat := L03.Ex.st
abbrev qdD : VecN Rat := L03.Ex.qd
abbrev feD : Nat → SV Rat := L03.Ex.fe

theorem mD_inj : L01.CustomInj mD := by
  intro i j hi _ _
  have hl := L01.Ex.joint_custom_lt mD i hi
  have h5 : mD.joints.length = 5 := by decide +kernel
  rw [h5] at hl
  obtain rfl | rfl | rfl | rfl | rfl : i = 0 ∨ i = 1 ∨ i = 2 ∨ i = 3 ∨ i = 4 := by omega
  all_goals exact absurd hi (by decide +kernel)

theorem mD_rot (w0 : WS Rat) (qd qdd tau : VecN Rat) (fext : Option (Nat → SV Rat)) :
    ∀ i, 1 ≤ i → i ≤ mD.nBodies - 1 →
      ((inverseDynamics mD w0 stD qd qdd tau fext).1.X_lambda i).E.IsRot := by
  intro i h1 h2
  rw [id_X_lambda mD w0 stD qd qdd tau fext i h1 h2]
  exact jcalcX_isRot mD i stD _ (L03.Ex.m_hasJcalc i h1 h2) (L03.Ex.m_frames i h1 h2)
    (L03.Ex.m_unit i h1 h2)

theorem dynHyp (fext : Option (Nat → SV Rat)) : DynHyp mD (updQ mD wD stD true) stD qdD fext :=
  ⟨mD_inj, L03.Ex.m_tree, L03.Ex.m_arity, L03.Ex.m_virt, mD_rot _ _ _ _ _, L03.Ex.m_disj _,
    L03.Ex.m_cov _, by decide +kernel,
    fun _ => by
      show (updateKinematicsCustom mD wD (some stD) none none).X_base 0 = XT.id
      rw [ukc_X_base_outside mD wD stD 0 (Or.inl rfl)]; rfl⟩


/-! ### the same tree with the C05 / C09 set-up, a constraint set, and a C11 output -/


theorem mD_n : mD.nBodies = 5 := rfl

theorem mD_layout : Layout mD := by
  refine ⟨fun i h1 h2 => L03.Ex.m_tree i h1 (by rw [mD_n] at h2; show i ≤ 4; omega), ?_, ?_⟩
  · intro i hi
    rw [mD_n] at hi
    obtain rfl | rfl | rfl | rfl : i = 0 ∨ i = 1 ∨ i = 2 ∨ i = 3 := by omega
    all_goals rfl
  · intro i hi
    rw [mD_n] at hi
    obtain rfl | rfl | rfl | rfl | rfl : i = 0 ∨ i = 1 ∨ i = 2 ∨ i = 3 ∨ i = 4 := by omega
    all_goals decide

theorem setupD : Setup mD wD stD := by
  have hr : ∀ i, 1 ≤ i → i < mD.nBodies → i = 1 ∨ i = 2 ∨ i = 3 ∨ i = 4 := fun i h1 h2 => by
    rw [mD_n] at h2; omega
  refine ⟨⟨mD_layout.tree, fun i h1 h2 => L03.Ex.m_hasJcalc i h1 (by rw [mD_n] at h2; show i ≤ 4; omega),
    fun i h1 h2 => L03.Ex.m_frames i h1 (by rw [mD_n] at h2; show i ≤ 4; omega),
    fun i h1 h2 => L03.Ex.m_unit i h1 (by rw [mD_n] at h2; show i ≤ 4; omega), ?_, ?_⟩,
    mD_layout, ?_, ?_, rfl⟩
  · intro i h1 h2
    rcases hr i h1 h2 with rfl | rfl | rfl | rfl
    · change _ ∧ _ ∧ _ ∧ _ ∧ _ ∧ _
      exact ⟨rfl, rfl, rfl, rfl, rfl, rfl⟩
    · change _ ∧ _ ∧ _
      exact ⟨rfl, rfl, rfl⟩
    · change _ ∧ _ ∧ (_ ∧ _ ∧ _) ∧ _ ∧ _ ∧ _ ∧ _ ∧ _ ∧ _
      exact ⟨rfl, rfl, ⟨rfl, rfl, rfl⟩, rfl, rfl, rfl, rfl, rfl, rfl⟩
    · change _ ∧ _ ∧ _ ∧ _ ∧ _ ∧ _
      exact ⟨rfl, rfl, rfl, rfl, rfl, rfl⟩
  · intro i j hi1 hi _ _ hci _ _
    rcases hr i hi1 hi with rfl | rfl | rfl | rfl <;> exact absurd hci (by decide)
  · intro i h1 h2 hc
    rcases hr i h1 h2 with rfl | rfl | rfl | rfl <;> exact absurd hc (by decide)
  · intro i h1 h2
    rcases hr i h1 h2 with rfl | rfl | rfl | rfl <;> decide

theorem wsHypD : WsHyp mD wD stD := ⟨setupD, by decide +kernel, mD_inj⟩

def opsD : List (L09.Op Rat) :=
  [.contact 4 ⟨1, 2, 3⟩ ⟨0, 0, 1⟩ noUserId,
   .contact 4 ⟨1, 2, 3⟩ ⟨1, 0, 0⟩ noUserId,
   .loop 0 3 XT.id ⟨M3.one, ⟨1, 2, 0⟩⟩ ⟨⟨0, 0, 0⟩, ⟨0, 0, 1⟩⟩ false 0 7]
def svD := sysVars mD wD stD qdD (run opsD) true (some feD)

/-- accelerations that satisfy all three rows of `G q̈ = γ` (Cramer's rule on rows 0, 1 for the
    coordinates 0 and 5, then row 2 for coordinate 1) -/
def qddD : VecN Rat :=
  let det := svD.G 0 0 * svD.G 1 5 - svD.G 1 0 * svD.G 0 5
  let q0 := (svD.gamma 0 * svD.G 1 5 - svD.gamma 1 * svD.G 0 5) / det
  let q5 := (svD.G 0 0 * svD.gamma 1 - svD.G 1 0 * svD.gamma 0) / det
  let q1 := (svD.gamma 2 - svD.G 2 0 * q0) / svD.G 2 1
  fun k => if k = 0 then q0 else if k = 5 then q5 else if k = 1 then q1 else 0

/-- coordinate 1 is not actuated -/
def actD : Nat → Bool := fun i => i != 1

/-- multipliers: `λ₀ = 1`, `λ₁ = 2`, and `λ₂` such that the unactuated entry of `τ` vanishes -/
def lamD : VecN Rat := fun k =>
  if k = 0 then 1 else if k = 1 then 2
  else if k = 2 then
    (sumTo mD.qdotSize (fun c => svD.H 1 c * qddD c) + svD.C 1) / svD.G 2 1
  else 0

def tauD : VecN Rat := fun r =>
  sumTo mD.qdotSize (fun c => svD.H r c * qddD c) + svD.C r - colDot svD.G (run opsD).size r lamD

theorem qddD_rows : ∀ r, r < 3 → rowDot svD.G mD.qdotSize r qddD = svD.gamma r := by
  intro r hr
  obtain rfl | rfl | rfl : r = 0 ∨ r = 1 ∨ r = 2 := by omega
  all_goals decide +kernel

theorem tauD_unactuated : ∀ i, i < mD.qdotSize → actD i = false → tauD i = 0 := by
  intro i hi ha
  have : i = 1 := by
    unfold actD at ha
    simpa using ha
  subst this
  decide +kernel

theorem opsD_len : (run opsD).cs.length = 2 := by decide +kernel

theorem opsD_cases (c : Constr Rat) (hc : c ∈ (run opsD).cs) :
    (c.ctype = .contact ∧ c.row = 0 ∧ c.T.length = 2 ∧ c.bodyP = 4 ∧ c.bodyS = 0) ∨
    (c.ctype = .loop ∧ c.row = 2 ∧ c.T.length = 1 ∧ c.bodyP = 0 ∧ c.bodyS = 3) := by
  obtain ⟨i, hi, rfl⟩ := List.getElem_of_mem hc
  have hl := opsD_len
  have e : ∀ j (hj : j < (run opsD).cs.length), (run opsD).cs[j] = (run opsD).cs.getD j default := by
    intro j hj
    rw [List.getD_eq_getElem?_getD, List.getElem?_eq_getElem hj, Option.getD_some]
  rw [e i hi]
  obtain rfl | rfl : i = 0 ∨ i = 1 := by omega
  · exact Or.inl (by decide +kernel)
  · exact Or.inr (by decide +kernel)

theorem opsD_noFixed : ∀ c ∈ (run opsD).cs, NoFixed c := by
  intro c hc
  rcases opsD_cases c hc with ⟨_, _, _, hp, hs⟩ | ⟨_, _, _, hp, hs⟩ <;>
    exact ⟨by rw [hp]; decide, by rw [hs]; decide⟩

theorem opsD_rows : ∀ c ∈ (run opsD).cs, ∀ r, hasRow c r →
    rowDot svD.G mD.qdotSize r qddD = svD.gamma r := by
  intro c hc r hr
  refine qddD_rows r ?_
  rcases opsD_cases c hc with ⟨_, h1, h2, _, _⟩ | ⟨_, h1, h2, _, _⟩ <;>
    (have := hr.2; rw [h1, h2] at this; omega)


/-- the coordinate blocks `{0}`, `{1}`, `{2,3,4}`, `{5}` of `mD` tile `[0, 6)` -/
theorem layD (W : WS Rat) :
    CoordLayout (fun i => (mD.joint i).qIndex) (L03.nS W mD) (mD.nBodies - 1) mD.qdotSize := by
  have n1 : nS W mD 1 = 1 := rfl
  have n2 : nS W mD 2 = 1 := rfl
  have n3 : nS W mD 3 = 3 := rfl
  have n4 : nS W mD 4 = 1 := rfl
  have hn : mD.nBodies - 1 = 4 := rfl
  refine ⟨fun _ => rfl, fun i h1 h2 => ?_, fun _ => ?_, fun h => ?_, fun i h1 h2 => ?_⟩
  · rw [hn] at h2
    obtain rfl | rfl | rfl : i = 1 ∨ i = 2 ∨ i = 3 := by omega
    · show _ = _ + nS W mD 1; rw [n1]; rfl
    · show _ = _ + nS W mD 2; rw [n2]; rfl
    · show _ = _ + nS W mD 3; rw [n3]; rfl
  · show _ + nS W mD 4 = _; rw [n4]; rfl
  · rw [hn] at h; omega
  · rw [hn] at h2
    obtain rfl | rfl | rfl | rfl : i = 1 ∨ i = 2 ∨ i = 3 ∨ i = 4 := by omega
    · show _ + nS W mD 1 ≤ _; rw [n1]; decide
    · show _ + nS W mD 2 ≤ _; rw [n2]; decide
    · show _ + nS W mD 3 ≤ _; rw [n3]; decide
    · show _ + nS W mD 4 ≤ _; rw [n4]; decide

/-! ### positive semidefinite inertias of `mD` -/

theorem sq_nn (a : Rat) : 0 ≤ a * a := by
  have := OrderedRing.sq_nonneg (a := a)
  grind

theorem Ic_psd (o : V3 Rat) : 0 ≤ o.dot (C16.Ex.Ic * o) := by
  have e : o.dot (C16.Ex.Ic * o)
      = (o.x + o.y) * (o.x + o.y) + o.x * o.x + (o.y + o.z) * (o.y + o.z) + o.y * o.y
        + 3 * (o.z * o.z) := by simp only [alg]; grind
  have h1 := sq_nn (o.x + o.y); have h2 := sq_nn o.x; have h3 := sq_nn (o.y + o.z)
  have h4 := sq_nn o.y; have h5 := sq_nn o.z
  rw [e]; grind

theorem one_psd (o : V3 Rat) : 0 ≤ o.dot ((M3.one : M3 Rat) * o) := by
  have e : o.dot ((M3.one : M3 Rat) * o) = o.x * o.x + o.y * o.y + o.z * o.z := by
    simp only [alg]; grind
  have h1 := sq_nn o.x; have h2 := sq_nn o.y; have h3 := sq_nn o.z
  rw [e]; grind

theorem rbi_psd (mass : Rat) (c : V3 Rat) (Ic : M3 Rat) (hs : Ic.transpose = Ic) (hm : 0 ≤ mass)
    (hI : ∀ o : V3 Rat, 0 ≤ o.dot (Ic * o)) (v : SV Rat) :
    0 ≤ v.dot (RBI.ofMassComInertiaC mass c Ic * v) := by
  have k := C12.kinetic_koenig mass c Ic hs v
  have n : 0 ≤ (v.v + v.w.cross c).nrm2 := by
    have e : (v.v + v.w.cross c).nrm2
        = (v.v + v.w.cross c).x * (v.v + v.w.cross c).x + (v.v + v.w.cross c).y * (v.v + v.w.cross c).y
          + (v.v + v.w.cross c).z * (v.v + v.w.cross c).z := by simp only [alg]
    have h1 := sq_nn (v.v + v.w.cross c).x; have h2 := sq_nn (v.v + v.w.cross c).y
    have h3 := sq_nn (v.v + v.w.cross c).z
    rw [e]; grind
  have p := OrderedRing.mul_nonneg hm n
  have q := hI v.w
  grind

theorem inertia_psd : ∀ i, 1 ≤ i → i ≤ mD.nBodies - 1 → ∀ v : SV Rat, 0 ≤ v.dot (mD.rbi i * v) := by
  intro i h1 h2 v
  have hn : mD.nBodies - 1 = 4 := rfl
  rw [hn] at h2
  obtain rfl | rfl | rfl | rfl : i = 1 ∨ i = 2 ∨ i = 3 ∨ i = 4 := by omega
  · exact rbi_psd 2 _ _ C16.Ex.Ic_symm (by decide) Ic_psd v
  · exact rbi_psd 3 _ _ C16.Ex.Ic_symm (by decide) Ic_psd v
  · exact rbi_psd (1/2) _ _ (by decide) (by decide +kernel) one_psd v
  · exact rbi_psd 1 _ _ C16.Ex.Ic_symm (by decide) Ic_psd v

/-! ### an impact on `mD` with the constraint set `opsD` -/

/-- post-impact velocity: in the null space of `G` -/
def qdpD : VecN Rat := fun k => if k = 2 then 1 else if k = 3 then 2 else 0
/-- the impulse -/
def LD : VecN Rat := fun k => if k = 0 then 1 else 0
/-- the velocity jump `d = q̇⁺ − q̇⁻`: the solution of `H d = −Gᵀ Λ` (Gaussian elimination) -/
def dD : List Rat :=
  (lmSolve ((List.range 6).map (fun r => (List.range 6).map (fun c => svD.H r c)))
    ((List.range 6).map (fun r => -colDot svD.G 3 r LD))).getD []
/-- pre-impact velocity -/
def qdmD : VecN Rat := fun k => qdpD k - dD.getD k 0

theorem impact_rel : ∀ r, r < mD.qdotSize →
    sumTo mD.qdotSize (fun c => svD.H r c * (qdpD c - qdmD c)) + colDot svD.G (run opsD).size r LD
      = 0 := by
  intro r hr
  have : mD.qdotSize = 6 := rfl
  rw [this] at hr
  obtain rfl | rfl | rfl | rfl | rfl | rfl : r = 0 ∨ r = 1 ∨ r = 2 ∨ r = 3 ∨ r = 4 ∨ r = 5 := by
    omega
  all_goals decide +kernel

theorem impact_G : ∀ k, k < (run opsD).size → rowDot svD.G mD.qdotSize k qdpD = 0 := by
  intro k hk
  have : (run opsD).size = 3 := by decide +kernel
  rw [this] at hk
  obtain rfl | rfl | rfl : k = 0 ∨ k = 1 ∨ k = 2 := by omega
  all_goals decide +kernel

/-- the impact is not trivial -/
theorem impact_jump : qdmD 0 ≠ qdpD 0 := by decide +kernel
end Rbdl.L08Phys.Ex
