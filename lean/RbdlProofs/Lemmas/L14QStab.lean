import RbdlProofs.Lemmas.L14QAdd
/-
  C14, query clauses — part 3: stability of the answers under later operations.  The only
  operation that can change the answer for an existing body is a successful fixed-joint addition
  of a body with mass or inertia whose (resolved) movable parent is a *virtual* body: `Body::Join`
  rebuilds the parent with `mIsVirtual = false` (`devirt`).
-/
namespace Rbdl.L14Q
open Lean.Grind Rbdl Rbdl.ModelS

section
variable {α : Type} [Field α] [DecidableEq α]

/-! ### the possible results of a step -/

def isOk : Except Err Nat → Bool
  | .ok _ => true
  | .error _ => false

omit [Field α] [DecidableEq α] in
theorem isOk_iff (r : Except Err Nat) : isOk r = true ↔ ∃ id, r = .ok id := by
  cases r with
  | ok a => exact ⟨fun _ => ⟨a, rfl⟩, fun _ => rfl⟩
  | error e => exact ⟨fun h => (by cases h), fun ⟨_, h⟩ => (by cases h)⟩

theorem step_error_unchanged (m : ModelS α) (op : Op α) (e : Err)
    (h : (m.step op).2 = .error e) : (m.step op).1 = m := by
  have ho := step_outcome m op
  generalize m.step op = r at h ho
  cases ho with
  | dup => rfl
  | rejected => rfl
  | movable => cases h
  | fixed => cases h

/-- a fixed-joint operation is either rejected (nothing changes) or merges the body into the
    resolved movable parent -/
theorem step_fixed_cases (m : ModelS α) (op : Op α) (hf : op.isFixed = true) :
    (∃ e, m.step op = (m, .error e)) ∨
    (¬(op.name ≠ "" ∧ m.hasName op.name) ∧
      ∃ pb, (m.body (m.mpOf (parentIn m op))).join (m.fpXOf (parentIn m op) (opFrame op))
          (opBody op) = some pb ∧
        m.step op = (fixedResult m (parentIn m op) (opFrame op) (opBody op) op.name pb,
          .ok (m.fixedBodies.length + fixedDisc))) := by
  have key : ∀ parent frame (j : Joint α) b name, (j.jt == JT.fixed) = true →
      (∃ e, addBody m parent frame j b name = (m, .error e)) ∨
      (¬(name ≠ "" ∧ m.hasName name) ∧
        ∃ pb, (m.body (m.mpOf parent)).join (m.fpXOf parent frame) b = some pb ∧
          addBody m parent frame j b name = (fixedResult m parent frame b name pb,
            .ok (m.fixedBodies.length + fixedDisc))) := by
    intro parent frame j b name hj
    have hk : j.jt.kind = .fixed := (kind_fixed_iff _).mpr (by simpa using hj)
    rw [addBody_eq]
    by_cases hd : name ≠ "" ∧ m.hasName name
    · left; rw [if_pos hd]; exact ⟨_, rfl⟩
    · rw [if_neg hd]; simp only [hk]
      cases hjoin : (m.body (m.mpOf parent)).join (m.fpXOf parent frame) b with
      | none => left; rw [addBodyFixed_none m parent frame b name hd hjoin]; exact ⟨_, rfl⟩
      | some pb =>
        right
        exact ⟨hd, pb, rfl, addBodyFixed_some m parent frame b name pb hd hjoin⟩
  cases op with
  | addBody parent frame j b name => exact key parent frame j b name hf
  | appendBody frame j b name => exact key m.prevBodyId frame j b name hf
  | addBodyCustomJoint parent frame k b name => cases hf

omit [DecidableEq α] in
theorem join_virtual [DecidableEq α] (a : Body α) (X : XT α) (o pb : Body α)
    (h : a.join X o = some pb) :
    pb = a ∨ (pb.isVirtual = false ∧ ¬(o.mass = 0 ∧ o.inertia = M3.zero)) := by
  unfold Body.join at h
  split at h
  · left; exact (Option.some.inj h).symm
  · rename_i hne
    right
    simp only at h
    split at h
    · cases h
    · obtain rfl := Option.some.inj h
      exact ⟨rfl, hne⟩

/-! ### fixed additions as extensions -/

omit [DecidableEq α] in
theorem fixedResult_body (m : ModelS α) (parent : Nat) (frame : XT α) (b : Body α)
    (name : String) (pb : Body α) (i : Nat) (hmp : m.mpOf parent < m.bodies.length) :
    (fixedResult m parent frame b name pb).body i =
      if i = m.mpOf parent then pb else m.body i := by
  simp only [fixedResult, body]
  by_cases hi : i = m.mpOf parent
  · rw [if_pos hi, hi]; exact getD_set_self _ _ _ _ hmp
  · rw [if_neg hi]; exact getD_set_ne _ _ _ _ _ (fun h => hi h.symm)

omit [DecidableEq α] in
theorem qext_fixedResult (m : ModelS α) (parent : Nat) (frame : XT α) (b : Body α)
    (name : String) (pb : Body α) (hmp : m.mpOf parent < m.bodies.length)
    (hv : pb.isVirtual = (m.body (m.mpOf parent)).isVirtual) :
    QExt m (fixedResult m parent frame b name pb) := by
  refine ⟨by simp [fixedResult], fun _ _ => rfl, fun i _ => ?_, fun _ _ => rfl,
    List.prefix_append _ _⟩
  rw [fixedResult_body m parent frame b name pb i hmp]
  split
  · rename_i h; rw [h]; exact hv
  · rfl

/-! ### devirtualising operations -/

/-- the operation succeeds, is a fixed-joint addition of a body with mass or inertia, and the
    movable body it is merged into is virtual: `Body::Join` clears the virtual flag of that body -/
def devirt (m : ModelS α) (op : Op α) : Prop :=
  op.isFixed = true ∧ isOk (m.step op).2 = true ∧
  (m.body (m.mpOf (parentIn m op))).isVirtual = true ∧
  ¬((opBody op).mass = 0 ∧ (opBody op).inertia = M3.zero)

instance (m : ModelS α) (op : Op α) : Decidable (devirt m op) := by
  unfold devirt; infer_instance

/-- no operation of the sequence clears a virtual flag -/
def keepsVirtual (m : ModelS α) : List (Op α) → Prop
  | [] => True
  | op :: ops => ¬ devirt m op ∧ keepsVirtual (m.step op).1 ops

instance decKeepsVirtual (m : ModelS α) (ops : List (Op α)) : Decidable (keepsVirtual m ops) :=
  match ops with
  | [] => isTrue trivial
  | op :: ops =>
    have := decKeepsVirtual (m.step op).1 ops
    by unfold keepsVirtual; infer_instance

/-- a valid operation that does not devirtualise extends the model -/
theorem step_qext (m : ModelS α) (hwf : m.WF) (op : Op α) (hv : op.valid m)
    (hnd : ¬ devirt m op) : QExt m (m.step op).1 := by
  by_cases hf : op.isFixed = true
  · rcases step_fixed_cases m op hf with ⟨e, he⟩ | ⟨_, pb, hjoin, he⟩
    · rw [he]; exact QExt.refl m
    · have hmp := mpOf_lt m hwf _ (valid_parentIn m hwf op hv)
      simp only [nBodies] at hmp
      rw [he]
      apply qext_fixedResult m _ _ _ _ pb hmp
      rcases join_virtual _ _ _ _ hjoin with h | ⟨h1, h2⟩
      · rw [h]
      · rw [h1]
        cases hvirt : (m.body (m.mpOf (parentIn m op))).isVirtual with
        | false => rfl
        | true =>
          exact absurd ⟨hf, by rw [he]; rfl, hvirt, h2⟩ hnd
  · have hf' : op.isFixed = false := by simpa using hf
    cases hr : (m.step op).2 with
    | ok id => exact (step_addedQ m hwf op hv hf' id hr).ext
    | error e => rw [step_error_unchanged m op e hr]; exact QExt.refl m

/-- conversely a devirtualising operation does change what the queries walk over -/
theorem devirt_clears (m : ModelS α) (hwf : m.WF) (op : Op α) (hv : op.valid m)
    (hd : devirt m op) :
    m.mpOf (parentIn m op) < m.nBodies ∧
    (m.body (m.mpOf (parentIn m op))).isVirtual = true ∧
    ((m.step op).1.body (m.mpOf (parentIn m op))).isVirtual = false := by
  obtain ⟨hf, hok, hvirt, hmass⟩ := hd
  have hmp := mpOf_lt m hwf _ (valid_parentIn m hwf op hv)
  refine ⟨hmp, hvirt, ?_⟩
  simp only [nBodies] at hmp
  rcases step_fixed_cases m op hf with ⟨e, he⟩ | ⟨_, pb, hjoin, he⟩
  · rw [he] at hok; cases hok
  · rw [he, fixedResult_body m _ _ _ _ pb _ hmp, if_pos rfl]
    rcases join_virtual _ _ _ _ hjoin with h | ⟨h1, _⟩
    · unfold Body.join at hjoin
      rw [if_neg hmass] at hjoin
      simp only at hjoin
      split at hjoin
      · cases hjoin
      · obtain rfl := Option.some.inj hjoin; rfl
    · exact h1

/-- virtual flags are only ever cleared, never set, on existing bodies -/
theorem step_virtual_mono (m : ModelS α) (hwf : m.WF) (op : Op α) (hv : op.valid m) (i : Nat)
    (hi : i < m.nBodies) (h : ((m.step op).1.body i).isVirtual = true) :
    (m.body i).isVirtual = true := by
  by_cases hd : devirt m op
  · have hmp := mpOf_lt m hwf _ (valid_parentIn m hwf op hv)
    simp only [nBodies] at hmp
    rcases step_fixed_cases m op hd.1 with ⟨e, he⟩ | ⟨_, pb, hjoin, he⟩
    · rw [he] at h; exact h
    · rw [he, fixedResult_body m _ _ _ _ pb _ hmp] at h
      split at h
      · rename_i hi'
        rw [hi']; exact hd.2.2.1
      · exact h
  · rw [← (step_qext m hwf op hv hd).virt i hi]; exact h

/-! ### runs -/

theorem run_qext (ops : List (Op α)) : ∀ (m : ModelS α), m.WF → m.validRun ops →
    keepsVirtual m ops → QExt m (m.run ops) ∧ (m.run ops).WF := by
  induction ops with
  | nil => intro m hwf _ _; exact ⟨QExt.refl m, hwf⟩
  | cons op ops ih =>
    intro m hwf hv hk
    have hwf1 := step_wf m hwf op hv.1
    obtain ⟨h1, h2⟩ := ih _ hwf1 hv.2 hk.2
    exact ⟨(step_qext m hwf op hv.1 hk.1).trans h1, h2⟩

theorem run_wf (ops : List (Op α)) : ∀ (m : ModelS α), m.WF → m.validRun ops →
    (m.run ops).WF := by
  induction ops with
  | nil => intro m hwf _; exact hwf
  | cons op ops ih => intro m hwf hv; exact ih _ (step_wf m hwf op hv.1) hv.2

theorem step_fixed_prefix (m : ModelS α) (op : Op α) :
    m.fixedBodies <+: (m.step op).1.fixedBodies := by
  have ho := step_outcome m op
  generalize m.step op = r at ho
  cases ho with
  | dup => exact List.prefix_refl _
  | rejected => exact List.prefix_refl _
  | movable m' _ _ _ ha => rw [ha.fixed]; exact List.prefix_refl _
  | fixed m' _ _ ha => obtain ⟨fb, hfb⟩ := ha.fixed; rw [hfb]; exact List.prefix_append _ _

theorem step_nb_le (m : ModelS α) (op : Op α) : m.bodies.length ≤ (m.step op).1.bodies.length := by
  have ho := step_outcome m op
  generalize m.step op = r at ho
  cases ho with
  | dup => exact Nat.le_refl _
  | rejected => exact Nat.le_refl _
  | movable m' _ _ _ ha => rw [ha.nb]; omega
  | fixed m' _ _ ha => rw [ha.nb]; exact Nat.le_refl _

/-- existing fixed bodies are kept by every sequence of operations (valid or not) -/
theorem run_fixed_prefix (ops : List (Op α)) : ∀ (m : ModelS α),
    m.fixedBodies <+: (m.run ops).fixedBodies ∧ m.bodies.length ≤ (m.run ops).bodies.length := by
  induction ops with
  | nil => intro m; exact ⟨List.prefix_refl _, Nat.le_refl _⟩
  | cons op ops ih =>
    intro m
    obtain ⟨h1, h2⟩ := ih (m.step op).1
    exact ⟨(step_fixed_prefix m op).trans h1, Nat.le_trans (step_nb_le m op) h2⟩

/-- the base never becomes virtual -/
theorem run_base_not_virtual (ops : List (Op α)) : ∀ (m : ModelS α), m.WF → m.validRun ops →
    (m.body 0).isVirtual = false → ((m.run ops).body 0).isVirtual = false := by
  induction ops with
  | nil => intro m _ _ h; exact h
  | cons op ops ih =>
    intro m hwf hv h0
    apply ih _ (step_wf m hwf op hv.1) hv.2
    cases hh : ((m.step op).1.body 0).isVirtual with
    | false => rfl
    | true =>
      have := step_virtual_mono m hwf op hv.1 0 hwf.nb_pos hh
      rw [h0] at this; cases this

end
end Rbdl.L14Q
