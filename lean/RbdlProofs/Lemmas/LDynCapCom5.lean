import RbdlProofs.Lemmas.LDynCapCom4
/-
  Capstones for the whole-body routines: the acceleration-level outputs of `CalcCenterOfMass`
  (second backward loop, `hdtot`), `CalcZeroMomentPoint`, `CalcPotentialEnergy`.
-/
namespace Rbdl.LDynCap
open Lean.Grind Rbdl Rbdl.Spec Rbdl.L06 Rbdl.L01 Rbdl.Loops Rbdl.L01Cap Rbdl.L12
set_option linter.unusedSimpArgs false
set_option linter.unusedVariables false
set_option linter.unusedSectionVars false

section
variable {α : Type} [Field α] [DecidableEq α]

/-- body of the second backward loop of `calcCenterOfMass` -/
def comHdBody (m : ModelS α) (i : Nat) (s : WS α × SV α) : WS α × SV α :=
  let (w, hdtot) := s
  let lam := m.lam i
  let X := w.X_lambda i
  if lam ≠ 0 then
    ({ w with hdotc := upd w.hdotc lam (w.hdotc lam + X.applyTranspose (w.hdotc i)) }, hdtot)
  else (w, hdtot + X.applyTranspose (w.hdotc i))

/-- `hdtot` of `calcCenterOfMass` (accelerations given and wanted) -/
def comHdTot (m : ModelS α) (w : WS α) (st : QS α) (qd qdd : VecN α) : SV α :=
  (forDown (m.nBodies - 1) (m.nBodies - 1) (comHdBody m)
    ((comBwd m (comInit m (comKin m w st qd (some qdd) true) true)).1, SV.zero)).2

theorem com_comAcc_eq (m : ModelS α) (w : WS α) (st : QS α) (qd qdd : VecN α) :
    (calcCenterOfMass m w st qd (some qdd) true true).2.comAcc
      = (1 / (comTotals m w st qd (some qdd) true true).1.m) * (comHdTot m w st qd qdd).v := rfl

theorem com_angMomDot_eq (m : ModelS α) (w : WS α) (st : QS α) (qd qdd : VecN α) :
    (calcCenterOfMass m w st qd (some qdd) true true).2.angMomDot
      = ((Xtrans (calcCenterOfMass m w st qd (some qdd) true true).2.com).applyAdjoint
          (comHdTot m w st qd qdd)).w := rfl

theorem comBody_keep {τ : Type} (view : WS α → τ)
    (hv : ∀ (w : WS α) Ic hc, view { w with Ic := Ic, hc := hc } = view w) (m : ModelS α) (i : Nat)
    (s : WS α × RBI α × SV α) : view (comBody m i s).1 = view s.1 := by
  obtain ⟨w, It, ht⟩ := s
  unfold comBody; dsimp only; split
  · exact hv w _ _
  · rfl

theorem comBwd_keep {τ : Type} (view : WS α → τ)
    (hv : ∀ (w : WS α) Ic hc, view { w with Ic := Ic, hc := hc } = view w) (m : ModelS α)
    (w1 : WS α) : view (comBwd m w1).1 = view w1 :=
  forDown_keep (fun s : WS α × RBI α × SV α => view s.1) (comBody m) _ _
    (fun i s _ _ => comBody_keep view hv m i s) _

theorem comHdBody_X_lambda (m : ModelS α) (i : Nat) (s : WS α × SV α) :
    (comHdBody m i s).1.X_lambda = s.1.X_lambda := by
  obtain ⟨w, ht⟩ := s
  unfold comHdBody; dsimp only; split <;> rfl

theorem comHdBody_hd (m : ModelS α) (i : Nat) (s : WS α × SV α) :
    ((comHdBody m i s).1.hdotc, (comHdBody m i s).2)
      = totAddBody m.lam (Th s.1.X_lambda) i (s.1.hdotc, s.2) := by
  obtain ⟨w, ht⟩ := s
  show _ = totBody _ _ _ _ _
  unfold comHdBody totBody; dsimp only [Th]; split <;> rfl

/-- the second backward loop sums the `hdot_c` it starts from, transported to the base -/
theorem comHd_total (m : ModelS α) (wb : WS α) (hk : KinOK m wb) :
    (forDown (m.nBodies - 1) (m.nBodies - 1) (comHdBody m) (wb, SV.zero)).2
      = lsum SV.zero (fun i => (wb.X_base i).applyTranspose (wb.hdotc i))
          (List.range' 1 (m.nBodies - 1)) := by
  have h := (forDown_sim (fun (s : WS α × SV α) t => s.1.X_lambda = wb.X_lambda ∧ (s.1.hdotc, s.2) = t)
    (comHdBody m) (totAddBody m.lam (Th wb.X_lambda)) (m.nBodies - 1) (m.nBodies - 1)
    (fun i s t _ _ h => ⟨by rw [comHdBody_X_lambda, h.1], by rw [comHdBody_hd, h.1, h.2]⟩)
    (wb, SV.zero) (wb.hdotc, SV.zero) ⟨rfl, rfl⟩).2
  have h2 := congrArg Prod.snd h
  dsimp only at h2
  rw [h2, total_h m wb hk]

/-- `hdot_c[i] = I_i a_i + v_i ×* I_i v_i` after the initialisation loops (accelerations wanted) -/
theorem comInit_hdotc (m : ModelS α) (w0 : WS α) (i : Nat) (h1 : 1 ≤ i) (h2 : i ≤ m.nBodies - 1) :
    (comInit m w0 true).hdotc i = m.rbi i * w0.a i + crossf (w0.v i) (m.rbi i * w0.v i) := by
  unfold comInit
  dsimp only
  rw [if_pos rfl]
  have hb : ∀ i (s : WS α) j, j ≠ i →
      ({ s with hdotc := upd s.hdotc i (comHd s i) } : WS α).hdotc j = s.hdotc j :=
    fun i s j hj => upd_other _ _ _ _ hj
  rw [forUp_get_inside (fun s : WS α => s.hdotc)
    (fun i w => { w with hdotc := upd w.hdotc i (comHd w i) }) hb _ _ _ i h1 (by omega)]
  show upd _ i (comHd _ i) i = _
  rw [upd_same]
  have keep : ∀ {τ : Type} (view : WS α → τ)
      (hv : ∀ (w : WS α) hd, view { w with hdotc := hd } = view w) (k : Nat) (s : WS α),
      view (forUp k 1 (fun i (w : WS α) => { w with hdotc := upd w.hdotc i (comHd w i) }) s)
        = view s :=
    fun view hv k s => forUp_keep view
      (fun i (w : WS α) => { w with hdotc := upd w.hdotc i (comHd w i) }) k 1
      (fun i s _ _ => hv s _) s
  have hIc : (forUp (i - 1) 1 (fun i (w : WS α) => { w with hdotc := upd w.hdotc i (comHd w i) })
      (forUp (m.nBodies - 1) 1 (comInitBody m) w0)).Ic i = m.rbi i := by
    rw [keep (fun w => w.Ic) (fun _ _ => rfl)]
    have := comInit_Ic m w0 false i h1 h2
    unfold comInit at this
    exact this
  have ha : (forUp (i - 1) 1 (fun i (w : WS α) => { w with hdotc := upd w.hdotc i (comHd w i) })
      (forUp (m.nBodies - 1) 1 (comInitBody m) w0)).a = w0.a := by
    rw [keep (fun w => w.a) (fun _ _ => rfl)]
    exact forUp_keep (fun w : WS α => w.a) (comInitBody m) _ _ (fun _ _ _ _ => rfl) w0
  have hv : (forUp (i - 1) 1 (fun i (w : WS α) => { w with hdotc := upd w.hdotc i (comHd w i) })
      (forUp (m.nBodies - 1) 1 (comInitBody m) w0)).v = w0.v := by
    rw [keep (fun w => w.v) (fun _ _ => rfl)]
    exact forUp_keep (fun w : WS α => w.v) (comInitBody m) _ _ (fun _ _ _ _ => rfl) w0
  obtain ⟨X, hX⟩ : ∃ X, X = forUp (i - 1) 1
      (fun i (w : WS α) => { w with hdotc := upd w.hdotc i (comHd w i) })
      (forUp (m.nBodies - 1) 1 (comInitBody m) w0) := ⟨_, rfl⟩
  rw [← hX] at hIc ha hv ⊢
  show X.Ic i * X.a i + crossf (X.v i) (X.Ic i * X.v i) = _
  rw [hIc, ha, hv]

/-- **`hdtot` of `CalcCenterOfMass`** for a kinematically consistent workspace after the update -/
theorem comHdTot_eq (m : ModelS α) (w : WS α) (st : QS α) (qd qdd : VecN α)
    (hk : KinOK m (updateKinematicsCustom m w (some st) (some qd) (some qdd))) :
    comHdTot m w st qd qdd
      = lsum SV.zero (fun i =>
          ((updateKinematicsCustom m w (some st) (some qd) (some qdd)).X_base i).applyTranspose
            (m.rbi i * (updateKinematicsCustom m w (some st) (some qd) (some qdd)).a i
              + crossf ((updateKinematicsCustom m w (some st) (some qd) (some qdd)).v i)
                (m.rbi i * (updateKinematicsCustom m w (some st) (some qd) (some qdd)).v i)))
          (List.range' 1 (m.nBodies - 1)) := by
  obtain ⟨w0, hw0⟩ : ∃ w0, w0 = updateKinematicsCustom m w (some st) (some qd) (some qdd) := ⟨_, rfl⟩
  rw [← hw0] at hk ⊢
  have e0 : comKin m w st qd (some qdd) true = w0 := by rw [hw0]; rfl
  unfold comHdTot
  rw [e0]
  have hXl : (comBwd m (comInit m w0 true)).1.X_lambda = w0.X_lambda := by
    rw [comBwd_keep (fun w => w.X_lambda) (fun _ _ _ => rfl), comInit_X_lambda]
  have hXb : (comBwd m (comInit m w0 true)).1.X_base = w0.X_base := by
    rw [comBwd_keep (fun w => w.X_base) (fun _ _ _ => rfl), comInit_X_base]
  have hhd : (comBwd m (comInit m w0 true)).1.hdotc = (comInit m w0 true).hdotc :=
    comBwd_keep (fun w => w.hdotc) (fun _ _ _ => rfl) m _
  have hkb : KinOK m (comBwd m (comInit m w0 true)).1 := by
    constructor
    · exact hk.tree
    · rw [hXb, hXl]; exact hk.base
    · rw [hXb]; exact hk.rot
  rw [comHd_total m _ hkb, hXb, hhd]
  refine lsum_congr _ _ _ (fun i hi => ?_)
  rw [List.mem_range'_1] at hi
  rw [comInit_hdotc m w0 i hi.1 (by omega)]

variable {m : ModelS α} {M : SModel α} {off : Nat → XT α} {nodeOf : Nat → Nat}

theorem kinOK_ukc' (hm : ModelOK m) (w : WS α) (hw : WSFixed m w) (st : QS α) (hst : StateOK m st)
    (qd : VecN α) (qdd : Option (VecN α)) :
    KinOK m (updateKinematicsCustom m w (some st) (some qd) qdd) :=
  kinOK_ukc m w st qd qdd hm.wf.lam_lt hm.jc hm.frame hst (by rw [hw.1]; exact M3.isRot_one)

/-- **`hdtot` of `CalcCenterOfMass` is the total momentum rate of the specification** -/
theorem comHdTot_spec (hm : ModelOK m) (hL : Link m M off nodeOf) (h2 : (2 : α) ≠ 0) (w : WS α)
    (hw : WSFixed m w) (st : QS α) (hst : StateOK m st) (qd qdd : VecN α) :
    comHdTot m w st qd qdd = specHd M (stateOf st qd qdd) := by
  rw [comHdTot_eq m w st qd qdd (kinOK_ukc' hm w hw st hst qd (some qdd))]
  unfold specHd
  rw [momentum_rate_total hm hL h2 w hw st hst qd qdd]

/-- acceleration of the centre of mass and rate of the angular momentum about it -/
theorem com_acc_spec (hm : ModelOK m) (hL : Link m M off nodeOf) (h2 : (2 : α) ≠ 0) (w : WS α)
    (hw : WSFixed m w) (st : QS α) (hst : StateOK m st) (qd qdd : VecN α) :
    (calcCenterOfMass m w st qd (some qdd) true true).2.comAcc
      = comAcceleration M (stateOf st qd qdd) ∧
    (calcCenterOfMass m w st qd (some qdd) true true).2.angMomDot
      = (angularMomentum M (stateOf st qd qdd)).2 := by
  have hT := com_totals_spec hm hL h2 w hw st hst qd (some qdd) qdd (Or.inr rfl) true
  have hH := comHdTot_spec hm hL h2 w hw st hst qd qdd
  have hcom := (com_outputs_spec hm hL h2 w hw st hst qd (some qdd) qdd (Or.inr rfl) true).2.1
  constructor
  · rw [com_comAcc_eq, hT, hH]
    unfold comAcceleration
    rw [massSum_ptdd M _ hL.ne, ← totalMass_specI]
  · rw [com_angMomDot_eq, hcom, hH, angularMomentum_eq M _ hL.ne, xtrans_adjoint_w]

/-! ### the zero-moment point -/

/-- the zero-moment point from first principles: net contact force `f = M (C̈ − g)`, net contact
    moment about the base origin `n₀ = L̇_C + C × f`; the point of the plane `(normal, point)` about
    which the contact wrench has no tangential moment -/
def zmpSpec (M : SModel α) (S : State α) (normal point : V3 α) : V3 α :=
  let C := com M S
  let f := totalMass M * (comAcceleration M S - M.gravity)
  let n0 := (angularMomentum M S).2 + C.cross f
  zmpPoint normal point n0 f

theorem zmp_f_core (mass : α) (hM : mass ≠ 0) (x g : V3 α) :
    mass * ((1 / mass) * x - g) = x - mass * g := by
  ext <;> simp only [alg] <;> grind
theorem zmp_n_core (C hw hv f g : V3 α) (mass : α) (hf : f = hv - mass * g) :
    (hw - C.cross hv) + C.cross f = hw - C.cross (mass * g) := by
  subst hf; alg_ext

theorem zmp_totals_spec (hm : ModelOK m) (hL : Link m M off nodeOf) (h2 : (2 : α) ≠ 0) (w : WS α)
    (hw : WSFixed m w) (st : QS α) (hst : StateOK m st) (qd qdd : VecN α) :
    zmpTotals m w st qd qdd true
      = (specI M (stateOf st qd qdd), specHd M (stateOf st qd qdd)) := by
  have h := C12.zmp_total_updated m w st qd qdd hm.wf.lam_lt hm.jc hm.frame hst
    (by rw [hw.1]; exact M3.isRot_one)
  dsimp only at h
  rw [h]
  unfold specI specHd
  rw [inertia_total hm hL h2 w hw st hst qd qdd, momentum_rate_total hm hL h2 w hw st hst qd qdd]

/-- **`CalcZeroMomentPoint` = the zero-moment point of the specification** -/
theorem zmp_spec (hm : ModelOK m) (hL : Link m M off nodeOf) (h2 : (2 : α) ≠ 0) (w : WS α)
    (hw : WSFixed m w) (st : QS α) (hst : StateOK m st) (qd qdd : VecN α) (normal point : V3 α)
    (hM : totalMass M ≠ 0) :
    (calcZeroMomentPoint m w st qd qdd normal point true).2
      = zmpSpec M (stateOf st qd qdd) normal point := by
  rw [zmp_raw, zmpH3_eq, zmp_totals_spec hm hL h2 w hw st hst qd qdd]
  unfold zmpSpec
  dsimp only
  have hne := hL.ne
  have hC : com M (stateOf st qd qdd)
      = (1 / (specI M (stateOf st qd qdd)).m) * (specI M (stateOf st qd qdd)).h := by
    unfold com; rw [massSum_pt M _ hne, ← totalMass_specI]
  have hf : totalMass M * (comAcceleration M (stateOf st qd qdd) - M.gravity)
      = (specHd M (stateOf st qd qdd)).v - (specI M (stateOf st qd qdd)).m * m.gravity := by
    unfold comAcceleration
    rw [massSum_ptdd M _ hne, zmp_f_core _ hM, hL.gravity, ← totalMass_specI]
  rw [hf, angularMomentum_eq M _ hne]
  dsimp only
  unfold aboutPt
  rw [zmp_n_core _ _ _ _ m.gravity (specI M (stateOf st qd qdd)).m rfl, hC]

/-! ### potential energy -/

/-- the position-level totals do not depend on the velocities -/
theorem specI_indep (hm : ModelOK m) (hL : Link m M off nodeOf) (h2 : (2 : α) ≠ 0) (w : WS α)
    (hw : WSFixed m w) (st : QS α) (hst : StateOK m st) (qd qdd qd' qdd' : VecN α) :
    specI M (stateOf st qd qdd) = specI M (stateOf st qd' qdd') := by
  unfold specI
  rw [inertia_total hm hL h2 w hw st hst qd qdd, inertia_total hm hL h2 w hw st hst qd' qdd',
    (ukc_full_X m w st qd (some qdd)).1, (ukc_full_X m w st qd' (some qdd')).1]

theorem com_indep (hm : ModelOK m) (hL : Link m M off nodeOf) (h2 : (2 : α) ≠ 0) (w : WS α)
    (hw : WSFixed m w) (st : QS α) (hst : StateOK m st) (qd qdd qd' qdd' : VecN α) :
    com M (stateOf st qd qdd) = com M (stateOf st qd' qdd') := by
  unfold com
  rw [massSum_pt M _ hL.ne, massSum_pt M _ hL.ne,
    specI_indep hm hL h2 w hw st hst qd qdd qd' qdd']

theorem pe_core (mass : α) (C g : V3 α) : mass * C.dot (-g) = -(mass * g.dot C) := by
  simp only [alg]; grind

/-- **`CalcPotentialEnergy` = `Spec.potentialEnergy`** (lemma form) -/
theorem pe_spec (hm : ModelOK m) (hL : Link m M off nodeOf) (h2 : (2 : α) ≠ 0) (w : WS α)
    (hw : WSFixed m w) (st : QS α) (hst : StateOK m st) (qd qdd : VecN α) :
    (calcPotentialEnergy m w st true).2 = potentialEnergy M (stateOf st qd qdd) := by
  obtain ⟨hmass, hcom, _, _⟩ :=
    com_outputs_spec hm hL h2 w hw st hst zeroVec none qdd (Or.inl rfl) false
  rw [C12.potential_energy_def]
  show (calcCenterOfMass m w st zeroVec none false true).2.mass
    * (calcCenterOfMass m w st zeroVec none false true).2.com.dot (-m.gravity) = _
  rw [hmass, hcom, com_indep hm hL h2 w hw st hst zeroVec qdd qd qdd]
  unfold potentialEnergy
  rw [hL.gravity]
  exact pe_core _ _ _

end
end Rbdl.LDynCap
