import RbdlProofs.Lemmas.L01CapFixStep
/-
  C01 capstone, Stages D + E: one movable body is appended on both sides (parent: the base, a movable
  body or a fixed body).
-/
namespace Rbdl.L01Cap
open Lean.Grind Rbdl Rbdl.Spec Rbdl.L06 Rbdl.L01 Rbdl.Loops
set_option linter.unusedSimpArgs false
set_option linter.unusedVariables false
set_option linter.unusedSectionVars false

section
variable {α : Type} [Field α] [DecidableEq α]

/-- the builder after one node was appended for a new movable body -/
def pushMov (sb : SB α) (nd : SNode α) (f : Nat) : SB α :=
  { sb with M := pushNode sb.M nd, nMovable := sb.nMovable + 1,
            idMap := sb.idMap ++ [(sb.nMovable, f, sb.M.nodes.length)] }

theorem applyTransposeRBI_id (I : RBI α) : (XT.id : XT α).applyTransposeRBI I = I := by alg_ext

theorem mr_XT_new' (m : ModelS α) (parent : Nat) (frame : XT α) (j : Joint α) (b : Body α)
    (name : String) (hwf : m.WF) :
    (m.movableResult parent frame j b name).XT_ m.nBodies = frame * m.mpXOf parent := by
  unfold ModelS.XT_ ModelS.movableResult
  dsimp only
  rw [getD_append_last' _ _ _ _ hwf.len_xT.symm]

theorem mr_validId (m : ModelS α) (parent : Nat) (frame : XT α) (j : Joint α) (b : Body α)
    (name : String) (id : Nat) :
    (m.movableResult parent frame j b name).validId id ↔ m.validId id ∨ id = m.nBodies := by
  unfold ModelS.validId
  rw [mr_nBodies]
  have : (m.movableResult parent frame j b name).isFixedBodyId id = m.isFixedBodyId id := rfl
  rw [this]
  constructor
  · rintro (h | h)
    · by_cases e : id = m.nBodies
      · exact Or.inr e
      · exact Or.inl (Or.inl (by omega))
    · exact Or.inl (Or.inr h)
  · rintro ((h | h) | h)
    · exact Or.inl (by omega)
    · exact Or.inr h
    · exact Or.inl (by omega)

/-- **one movable body appended on both sides** -/
theorem simF_movable (m : ModelS α) (p : PB α) (hS : SimF m p) (parent : Nat) (frame : XT α)
    (j : Joint α) (b : Body α) (name : String) (sj : SJoint α) (nd : SNode α) (f : Nat)
    (hp : m.validId parent) (hE : frame.E.IsRot) (hn : ¬(name ≠ "" ∧ m.hasName name))
    (hcap : m.nBodies + 1 ≤ fixedDisc)
    (hjc : j.jt.hasJcalc = true) (hdecl : JointDecl j) (hjok : m.jointOk j)
    (hfresh : j.jt = .custom → ∀ i, (m.joint i).jt = .custom → (m.joint i).customIdx ≠ j.customIdx)
    (hsj : (m.movableResult parent frame j b name).sjoint m.nBodies = sj) (hdof : sj.dof = j.dof)
    (hvirt : b.isVirtual = true → b.mass = 0 ∧ b.inertia = M3.zero)
    (hnp : nd.parent = lookupNode p.sb.idMap parent) (hnE : nd.E = frame.E) (hnr : nd.r = frame.r)
    (hnj : nd.joint = sj) (hnq : nd.qIdx = p.sb.M.nv) (hna : nd.apiId = p.sb.nMovable)
    (hnm : nd.movableId = p.sb.nMovable) (hnh : nd.hasBody = !b.isVirtual)
    (hnb : nd.hasBody = true → nd.mass = b.mass ∧ nd.com = b.com ∧ nd.inertia = b.inertia ∧
      b.inertia.transpose = b.inertia) :
    SimF (m.movableResult parent frame j b name) ⟨pushMov p.sb nd f, m.nBodies⟩ := by
  show SimF (m.movableResult parent frame j b name)
    ⟨⟨pushNode p.sb.M nd, p.sb.nMovable + 1, p.sb.nFixed,
      p.sb.idMap ++ [(p.sb.nMovable, f, p.sb.M.nodes.length)]⟩, m.nBodies⟩
  have hwf := hS.ok.wf
  have hwf' : (m.movableResult parent frame j b name).WF :=
    ModelS.wf_movableResult m hwf parent frame j b name hp hjok hn
  have hnb' := mr_nBodies m parent frame j b name
  obtain ⟨pl, pbody, poff, prot⟩ := parent_node hS parent hp
  rw [hS.nmov] at hna hnm
  have hfb : ∀ k, k < m.fixedBodies.length →
      (m.movableResult parent frame j b name).fixedBody k = m.fixedBody k := fun _ _ => rfl
  have hnew_invalid : ¬ m.validId m.nBodies := by
    intro h
    rcases h with h | h
    · omega
    · have := (isFixed_iff m _ hwf.fixed_cap).1 h; omega
  have hfind_new : p.sb.idMap.find? (fun e => e.1 == m.nBodies) = none :=
    find_none_of_keys _ m.validId _ hS.keys hnew_invalid
  have hlk_old : ∀ id, m.validId id →
      lookupNode (p.sb.idMap ++ [(p.sb.nMovable, f, p.sb.M.nodes.length)]) id
        = lookupNode p.sb.idMap id := fun id hv => lookup_append_old _ _ _ (hS.found id hv)
  have hlk_new : lookupNode (p.sb.idMap ++ [(p.sb.nMovable, f, p.sb.M.nodes.length)]) m.nBodies
      = p.sb.M.nodes.length := by
    have := lookup_append_new p.sb.idMap (p.sb.nMovable, f, p.sb.M.nodes.length)
      (by rw [hS.nmov]; exact hfind_new)
    rw [hS.nmov] at this ⊢
    exact this
  obtain ⟨bs, hbs, hbs1, hbs2, hbs3, hbs4⟩ := hS.base
  have hN1 : 1 ≤ p.sb.M.nodes.length := lt_of_get hbs
  -- ids of the old nodes are valid
  have hvalid_api : ∀ n nd', 1 ≤ n → p.sb.M.nodes[n]? = some nd' → m.validId nd'.apiId := by
    intro n nd' n1 h
    have hN := hS.node n nd' n1 h
    by_cases hmov : nd'.apiId = nd'.movableId
    · left; rw [hmov]; exact hN.body_lt
    · obtain ⟨k, hk, hkl⟩ := hN.fid hmov
      right
      rw [isFixed_iff m _ hwf.fixed_cap, hk]
      omega
  have hmov_lt : ∀ n, n < p.sb.M.nodes.length → (p.sb.M.nodes.getD n nd0).movableId < m.nBodies := by
    intro n hn'
    have hget : p.sb.M.nodes[n]? = some (p.sb.M.nodes.getD n nd0) := by
      rw [List.getD_eq_getElem?_getD, List.getElem?_eq_getElem hn']; rfl
    by_cases h0 : n = 0
    · subst h0; rw [getD_nodes hbs, hbs3]; exact hwf.nb_pos
    · exact (hS.node n _ (by omega) hget).body_lt
  have hoffN : offOf (m.movableResult parent frame j b name) (pushNode p.sb.M nd)
      p.sb.M.nodes.length = XT.id := by
    unfold offOf
    rw [pushNode_getD_new, if_pos (by rw [hna, hnm])]
  refine ⟨⟨hwf', ?_, ?_, ?_, ?_⟩, by rw [hnb']; exact hcap, rfl, ?_, hS.nfix, hS.gravity, ?_,
    ?_, ?_, ?_, ?_, ?_, ?_, ?_, ?_, ?_, ?_, ?_⟩
  · -- cinj
    intro i k hi hk he
    have hcase : ∀ a, ((m.movableResult parent frame j b name).joint a).jt = .custom →
        (a < m.nBodies ∧ (m.movableResult parent frame j b name).joint a = m.joint a) ∨
        (a = m.nBodies ∧ (m.movableResult parent frame j b name).joint a
          = { j with qIndex := m.dofCount }) := by
      intro a ha
      rcases Nat.lt_trichotomy a m.nBodies with h | h | h
      · exact Or.inl ⟨h, mr_joint_old m parent frame j b name hwf a h⟩
      · exact Or.inr ⟨h, h ▸ mr_joint_new m parent frame j b name hwf⟩
      · rw [mr_joint_out m parent frame j b name hwf a h] at ha; cases ha
    rcases hcase i hi with ⟨hi1, hi2⟩ | ⟨hi1, hi2⟩ <;> rcases hcase k hk with ⟨hk1, hk2⟩ | ⟨hk1, hk2⟩
    · rw [hi2] at hi he; rw [hk2] at hk he
      exact hS.ok.cinj i k hi hk he
    · rw [hi2] at hi he; rw [hk2] at hk he
      exact absurd he (hfresh hk i hi)
    · rw [hi2] at hi he; rw [hk2] at hk he
      exact absurd he.symm (hfresh hi k hk)
    · rw [hi1, hk1]
  · intro i i1 i2
    rw [hnb'] at i2
    by_cases h : i < m.nBodies
    · rw [mr_joint_old m parent frame j b name hwf i h]; exact hS.ok.jc i i1 h
    · have : i = m.nBodies := by omega
      subst this; rw [mr_joint_new m parent frame j b name hwf]; exact hjc
  · intro i i1 i2
    rw [hnb'] at i2
    by_cases h : i < m.nBodies
    · rw [mr_joint_old m parent frame j b name hwf i h]; exact hS.ok.decl i i1 h
    · have : i = m.nBodies := by omega
      subst this; rw [mr_joint_new m parent frame j b name hwf]; exact hdecl
  · intro i i1 i2
    rw [hnb'] at i2
    by_cases h : i < m.nBodies
    · rw [mr_XT_old m parent frame j b name hwf i h]; exact hS.ok.frame i i1 h
    · have : i = m.nBodies := by omega
      subst this; rw [mr_XT_new' m parent frame j b name hwf]; exact hE.mul prot
  · -- nmov
    show p.sb.nMovable + 1 = _
    rw [hS.nmov, hnb']
  · -- nv
    show (pushNode p.sb.M nd).nv = _
    unfold pushNode
    rw [nv_append, hS.nv, hnj, hdof]; rfl
  · -- base
    exact ⟨bs, (pushNode_get_old _ _ 0 hN1).trans hbs, hbs1, hbs2, hbs3, hbs4⟩
  · -- lookup0
    show lookupNode (p.sb.idMap ++ _) 0 = 0
    rw [hlk_old 0 (Or.inl hwf.nb_pos)]; exact hS.lookup0
  · -- found
    intro id hv
    rw [mr_validId] at hv
    refine find_append_isSome _ _ _ ?_
    rcases hv with hv | hv
    · exact Or.inl (hS.found id hv)
    · exact Or.inr (by rw [hv]; exact hS.nmov)
  · -- keys
    intro e he
    rw [mr_validId]
    change e ∈ p.sb.idMap ++ _ at he
    rcases List.mem_append.1 he with h | h
    · exact Or.inl (hS.keys e h)
    · simp only [List.mem_singleton] at h
      subst h
      exact Or.inr hS.nmov
  · -- node
    intro n nd' n1 h
    change (pushNode p.sb.M nd).nodes[n]? = some nd' at h
    by_cases hn' : n < p.sb.M.nodes.length
    · rw [pushNode_get_old _ _ n hn'] at h
      exact nodeG_mono hS (m.movableResult parent frame j b name) nd (by rw [hnb']; omega)
        (Nat.le_refl _) hfb
        (fun i hi => mr_lam_old m parent frame j b name hwf i hi)
        (fun i hi => mr_XT_old m parent frame j b name hwf i hi)
        (fun i hi => mr_sjoint_old m parent frame j b name hwf i hi)
        (fun i hi => mr_joint_old m parent frame j b name hwf i hi) n nd' n1 h
    · have hlt := lt_of_get h
      rw [pushNode_length] at hlt
      have hn'' : n = p.sb.M.nodes.length := by omega
      subst hn''
      rw [pushNode_get_new] at h
      have : nd = nd' := Option.some.inj h
      subst this
      have hmv : nd.apiId = nd.movableId := by rw [hna, hnm]
      refine ⟨by rw [hnp]; exact pl, by rw [hnm, hnb']; omega, by rw [hoffN]; exact M3.isRot_one,
        fun hh => (hnb hh).2.2.1 ▸ (hnb hh).2.2.2, fun h' => absurd hmv h', fun h' => absurd hmv h',
        fun h' => absurd hmv h', fun h' => absurd hmv h', ?_, ?_, ?_, ?_, ?_⟩
      · intro _; rw [hnm]; exact hwf.nb_pos
      · intro _
        rw [hnp, bodyOf_push_old _ _ _ pl, pbody, hnm, mr_lam_new m parent frame j b name hwf]
      · intro _
        rw [hnm, mr_XT_new' m parent frame j b name hwf, hnp,
          offOf_push_old hS _ nd hfb _ pl, poff, hnE, hnr]
      · intro _; rw [hnm, hnj, hsj]
      · intro _; rw [hnm, hnq, mr_joint_new m parent frame j b name hwf, hS.nv]
  · -- idnode
    intro n nd' n1 h
    change (pushNode p.sb.M nd).nodes[n]? = some nd' at h
    show lookupNode (p.sb.idMap ++ _) nd'.apiId = n
    by_cases hn' : n < p.sb.M.nodes.length
    · rw [pushNode_get_old _ _ n hn'] at h
      rw [hlk_old _ (hvalid_api n nd' n1 h)]
      exact hS.idnode n nd' n1 h
    · have hlt := lt_of_get h
      rw [pushNode_length] at hlt
      have hn'' : n = p.sb.M.nodes.length := by omega
      subst hn''
      rw [pushNode_get_new] at h
      have : nd = nd' := Option.some.inj h
      subst this
      rw [hna]; exact hlk_new
  · -- movNode
    intro i i1 i2
    rw [hnb'] at i2
    show 1 ≤ lookupNode (p.sb.idMap ++ _) i ∧ lookupNode (p.sb.idMap ++ _) i
      < (pushNode p.sb.M nd).nodes.length ∧ ∀ nd', (pushNode p.sb.M nd).nodes[
        lookupNode (p.sb.idMap ++ _) i]? = some nd' → _
    by_cases h : i < m.nBodies
    · rw [hlk_old i (Or.inl h)]
      obtain ⟨a1, a2, a3⟩ := hS.movNode i i1 h
      refine ⟨a1, by rw [pushNode_length]; omega, fun nd' h' => ?_⟩
      rw [pushNode_get_old _ _ _ a2] at h'
      exact a3 nd' h'
    · have : i = m.nBodies := by omega
      subst this
      rw [hlk_new]
      refine ⟨hN1, by rw [pushNode_length]; omega, fun nd' h' => ?_⟩
      rw [pushNode_get_new] at h'
      have : nd = nd' := Option.some.inj h'
      subst this
      exact ⟨by rw [hna, hnm], hnm⟩
  · -- fixNode
    intro k hk
    have hk' : k < m.fixedBodies.length := hk
    have hv : m.validId (fixedDisc + k) := by
      right; rw [isFixed_iff m _ hwf.fixed_cap]; omega
    show 1 ≤ lookupNode (p.sb.idMap ++ _) (fixedDisc + k) ∧ lookupNode (p.sb.idMap ++ _)
      (fixedDisc + k) < (pushNode p.sb.M nd).nodes.length ∧ ∀ nd', (pushNode p.sb.M nd).nodes[
        lookupNode (p.sb.idMap ++ _) (fixedDisc + k)]? = some nd' → _
    rw [hlk_old _ hv]
    obtain ⟨a1, a2, a3⟩ := hS.fixNode k hk'
    refine ⟨a1, by rw [pushNode_length]; omega, fun nd' h' => ?_⟩
    rw [pushNode_get_old _ _ _ a2] at h'
    exact a3 nd' h'
  · -- bodyrbi
    intro i i1 i2
    rw [hnb'] at i2
    by_cases h : i < m.nBodies
    · rw [mr_rbi_old m parent frame j b name hwf i h, mr_body_old m parent frame j b name i h]
      exact hS.bodyrbi i i1 h
    · have : i = m.nBodies := by omega
      subst this
      rw [mr_rbi_new m parent frame j b name hwf, mr_body_new]; rfl
  · -- rbi
    intro i i1 i2
    rw [hnb'] at i2
    show _ = lsum RBI.zero _ (List.range (pushNode p.sb.M nd).nodes.length)
    rw [pushNode_length, rbi_lsum_range_succ]
    have hold : lsum RBI.zero (nodeRBI (pushNode p.sb.M nd)
          (offOf (m.movableResult parent frame j b name) (pushNode p.sb.M nd)) i)
          (List.range p.sb.M.nodes.length)
        = lsum RBI.zero (nodeRBI p.sb.M (offOf m p.sb.M) i) (List.range p.sb.M.nodes.length) :=
      lsum_congr _ _ _ (fun n hn' => nodeRBI_push_old hS _ nd hfb i n (List.mem_range.1 hn'))
    rw [hold]
    by_cases h : i < m.nBodies
    · rw [mr_rbi_old m parent frame j b name hwf i h, hS.rbi i i1 h]
      have : nodeRBI (pushNode p.sb.M nd)
          (offOf (m.movableResult parent frame j b name) (pushNode p.sb.M nd)) i
          p.sb.M.nodes.length = RBI.zero := by
        unfold nodeRBI
        rw [pushNode_getD_new, if_neg (fun hh => by rw [hnm] at hh; omega)]
      rw [this, rbi_add_zero]
    · have hi : i = m.nBodies := by omega
      subst hi
      have hz : lsum RBI.zero (nodeRBI p.sb.M (offOf m p.sb.M) m.nBodies)
          (List.range p.sb.M.nodes.length) = RBI.zero := by
        have hc := lsum_congr (z := (RBI.zero : RBI α)) (nodeRBI p.sb.M (offOf m p.sb.M) m.nBodies)
          (fun _ => RBI.zero) (List.range p.sb.M.nodes.length) (fun n hn' => by
            unfold nodeRBI
            rw [if_neg (fun hh => by have := hmov_lt n (List.mem_range.1 hn'); omega)])
        rw [hc, rbi_lsum_zero]
      rw [hz, L12.rbi_addLaws.zero_add, mr_rbi_new m parent frame j b name hwf]
      unfold nodeRBI
      rw [pushNode_getD_new, hoffN]
      by_cases hh : nd.hasBody = true
      · obtain ⟨e1, e2, e3, _⟩ := hnb hh
        rw [if_pos ⟨hnm, hh⟩, applyTransposeRBI_id, e1, e2, e3]
      · rw [if_neg (fun h' => hh h'.2)]
        have hv : b.isVirtual = true := by
          rw [hnh] at hh
          cases hb : b.isVirtual
          · rw [hb] at hh; exact absurd rfl hh
          · rfl
        obtain ⟨e1, e2⟩ := hvirt hv
        rw [e1, e2]
        exact nullRBI_eq _
  · -- virt
    intro i i1 i2 hv x
    rw [hnb'] at i2
    by_cases h : i < m.nBodies
    · rw [mr_body_old m parent frame j b name i h] at hv
      rw [mr_rbi_old m parent frame j b name hwf i h]
      exact hS.virt i i1 h hv x
    · have hi : i = m.nBodies := by omega
      subst hi
      rw [mr_body_new] at hv
      rw [mr_rbi_new m parent frame j b name hwf]
      obtain ⟨e1, e2⟩ := hvirt hv
      rw [e1, e2]
      exact nullRBI_mul _ _

end
end Rbdl.L01Cap
