import RbdlProofs.Lemmas.L13Aba
/-
  C13 helper lemmas, part 9: `calcMInvTimesTau` (update = true) on two reachable workspaces.
-/
namespace Rbdl.L13
open Lean.Grind Rbdl Rbdl.Loops Rbdl.L12
set_option linter.unusedSimpArgs false
set_option linter.unusedVariables false
set_option linter.unusedSectionVars false
set_option linter.constructorNameAsVariable false

section
variable {α : Type} [Field α] [DecidableEq α]

theorem wsfixed_vJ_zero (m : ModelS α) (w : WS α) (i : Nat) (h : WSFixed m w) :
    WSFixed m { w with v_J := upd w.v_J i SV.zero } := by
  refine ⟨h.1, fun j h1 h2 => ?_⟩
  have := h.2 j h1 h2
  dsimp only
  by_cases e : j = i
  · subst e
    rw [upd_same]
    cases hjt : (m.joint j).jt <;> simp only [hjt, FixedAt] at this ⊢ <;>
      first | exact this | exact ⟨this.1, rfl, rfl, rfl, this.2.2.2.2⟩
  · rw [upd_other _ _ _ _ e]; exact this

/-- `v_J[i] = 0` -/
def stVJz (i : Nat) (w : WS α) : WS α := { w with v_J := upd w.v_J i SV.zero }

theorem Agree.stVJz {m : ModelS α} {D : Dom} {w w' : WS α} (h : Agree m D w w') (i : Nat) :
    Agree m D (L13.stVJz i w) (L13.stVJz i w') := by
  refine ⟨wsfixed_vJ_zero m w i h.fix, wsfixed_vJ_zero m w' i h.fix', fun g j hgj => ?_⟩
  have := h.eq g j hgj
  cases g <;> first
    | exact this
    | (simp only [view, L13.stVJz] at this ⊢
       by_cases e : j = i
       · subst e; simp only [upd_same]
       · simp only [upd_other _ _ _ _ e]; exact this)

/-- `mJointUpdateOrder[1..n-1]` is a permutation of the movable bodies -/
def UOrderPerm (m : ModelS α) : Prop :=
  (∀ i, 1 ≤ i → i < m.nBodies → 1 ≤ m.updateOrder.getD i 0 ∧ m.updateOrder.getD i 0 < m.nBodies) ∧
  (∀ j, 1 ≤ j → j < m.nBodies → ∃ i, 1 ≤ i ∧ i < m.nBodies ∧ m.updateOrder.getD i 0 = j)

/-- what `jcalc_X_lambda_S` has established when the first loop has passed the positions `< k` -/
def DmiX (m : ModelS α) (k : Nat) : Dom :=
  fun g j => (∃ i, 1 ≤ i ∧ i < k ∧ m.updateOrder.getD i 0 = j) ∧
    (g = .X_lambda ∨ ((g = .S ∨ g = .S3 ∨ g = .cS) ∧ m.arity j = jtAr (m.joint j).jt))

theorem miInitBody_steps (m : ModelS α) (st : QS α) (i : Nat) (w : WS α) :
    miInitBody m st i w =
      stIA m i ({ ({ ({ (stVJz i (jcalcXlambdaS m w (m.updateOrder.getD i 0) st)) with
        v := upd (jcalcXlambdaS m w (m.updateOrder.getD i 0) st).v i SV.zero }) with
        c := upd (jcalcXlambdaS m w (m.updateOrder.getD i 0) st).c i SV.zero }) with
        pA := upd (jcalcXlambdaS m w (m.updateOrder.getD i 0) st).pA i SV.zero }) := rfl

@[dom] def DmiL (k : Nat) : Dom := Dom.at [.a] 0 ∪ Dom.rng [.v, .c, .pA, .IA] 1 k

theorem miInitBody_sim (m : ModelS α) (st : QS α) (hjc : AllJcalc m) (huo : UOrderPerm m)
    (i : Nat) (s t : WS α) (h1 : 1 ≤ i) (h2 : i < 1 + (m.nBodies - 1))
    (h : Agree m (DmiL i ∪ DmiX m i) s t) :
    Agree m (DmiL (i + 1) ∪ DmiX m (i + 1)) (miInitBody m st i s) (miInitBody m st i t) := by
  obtain ⟨hu1, hu2⟩ := huo.1 i h1 (by omega)
  have hX := h.xls (m.updateOrder.getD i 0) hu1 hu2 (hjc _ hu1 hu2) st
    (D' := DmiL i ∪ DmiX m (i + 1)) (by
      intro g j hgj
      rcases hgj with hL | ⟨⟨i', hi1, hi2, hi3⟩, hg⟩
      · exact Or.inl (Or.inl hL)
      · subst hi3
        by_cases e : i' = i
        · subst e; exact Or.inr ⟨rfl, hg⟩
        · exact Or.inl (Or.inr ⟨⟨i', hi1, by omega, rfl⟩, hg⟩))
  rw [miInitBody_steps, miInitBody_steps]
  have hV := (hX.stVJz i).set_v i (x := SV.zero) (x' := SV.zero) rfl
    (D' := DmiL i ∪ DmiX m (i + 1) ∪ Dom.at [.v] i) (by dom)
  have hC := hV.set_c i (x := SV.zero) (x' := SV.zero) rfl
    (D' := DmiL i ∪ DmiX m (i + 1) ∪ Dom.at [.v, .c] i) (by dom)
  have hP := hC.set_pA i (x := SV.zero) (x' := SV.zero) rfl
    (D' := DmiL i ∪ DmiX m (i + 1) ∪ Dom.at [.v, .c, .pA] i) (by dom)
  exact (hP.stIA i).mono (by dom)

/-- entries agreeing after the first two loops -/
@[dom] def Dmi (m : ModelS α) : Dom :=
  Dom.at [.a] 0 ∪ Dom.rng [.X_lambda, .v, .c, .pA, .IA] 1 (1 + (m.nBodies - 1))
    ∪ SDom m 1 (1 + (m.nBodies - 1))

theorem mi_init_sim (m : ModelS α) (st : QS α) (hjc : AllJcalc m) (huo : UOrderPerm m)
    (w w' : WS α) (h : Agree m (Dom.at [.a] 0) w w') :
    Agree m (Dmi m) (forUp (m.nBodies - 1) 1 (miInitBody m st) w)
      (forUp (m.nBodies - 1) 1 (miInitBody m st) w') := by
  have h1 := forUp_simI (fun k s t => Agree m (DmiL k ∪ DmiX m k) s t) _ _ (m.nBodies - 1) 1
    (fun i s t h1 h2 h => miInitBody_sim m st hjc huo i s t h1 h2 h) w w'
    (h.mono (by
      intro g j hgj
      rcases hgj with hL | ⟨⟨i', hi1, hi2, _⟩, _⟩
      · simp only [dom, List.mem_cons, List.mem_nil_iff, or_false] at hL ⊢
        grind
      · omega))
  refine h1.mono ?_
  intro g j hgj
  simp only [dom, List.mem_cons, List.mem_nil_iff, or_false] at hgj
  rcases hgj with (hA | ⟨hg, hj1, hj2⟩) | ⟨hg, hj1, hj2, ha⟩
  · exact Or.inl (by simp only [dom, List.mem_cons, List.mem_nil_iff, or_false]; exact Or.inl hA)
  · rcases hg with rfl | hg
    · obtain ⟨i', hi1, hi2, hi3⟩ := huo.2 j hj1 (by omega)
      exact Or.inr ⟨⟨i', hi1, by omega, hi3⟩, Or.inl rfl⟩
    · exact Or.inl (by
        simp only [dom, List.mem_cons, List.mem_nil_iff, or_false]
        exact Or.inr ⟨hg, hj1, hj2⟩)
  · obtain ⟨i', hi1, hi2, hi3⟩ := huo.2 j hj1 (by omega)
    exact Or.inr ⟨⟨i', hi1, by omega, hi3⟩, Or.inr ⟨hg, ha⟩⟩

theorem miIABody_steps (m : ModelS α) (i : Nat) (w : WS α) :
    miIABody m i w =
      if m.lam i ≠ 0 ∧ m.arity i ≠ .other then stIAl m i (abaUD m w i) else abaUD m w i := by
  unfold miIABody; dsimp only; split <;> rfl

/-- `pA[λ] += X_lambda[i]ᵀ (pA[i] + U D⁻¹ u)` -/
def stPAm (m : ModelS α) (i : Nat) (w : WS α) : WS α :=
  { w with pA := upd w.pA (m.lam i) (w.pA (m.lam i) +
      (w.X_lambda i).applyTranspose (w.pA i + abaUDu m w i)) }

theorem Agree.stPAm {m : ModelS α} {D : Dom} {w w' : WS α} (h : Agree m D w w') (i : Nat)
    (h1 : D .pA (m.lam i)) (h2 : D .X_lambda i)
    (h3 : D .pA i) (hU : D .U i) (hd : D .d i) (hu : D .u i)
    (hU3 : D .U3 i) (hD3 : D .Dinv3 i) (hu3 : D .u3 i) (hcU : D .cU i) (hcD : D .cDinv i)
    (hcu : D .cu i) : Agree m D (L13.stPAm m i w) (L13.stPAm m i w') :=
  h.set_pA (m.lam i) (by
    rw [h.get_pA h1, h.get_X_lambda h2, h.get_pA h3,
      h.abaUDu i hU hd hu hU3 hD3 hu3 hcU hcD hcu])
    (fun g j hgj => Or.inl hgj)

theorem miBwdBody_steps (m : ModelS α) (tau : VecN α) (i : Nat) (w : WS α) :
    miBwdBody m tau i w =
      if m.lam i ≠ 0 ∧ m.arity i ≠ .other then stPAm m i (abaU m w i tau) else abaU m w i tau := by
  unfold miBwdBody; dsimp only; split <;> rfl

/-- before the third loop visits body `k` -/
@[dom] def Dmb (m : ModelS α) (k : Nat) : Dom :=
  Dmi m ∪ Dom.rng [.U, .d, .U3, .Dinv3, .cU, .cDinv] (k + 1) (1 + (m.nBodies - 1))

theorem miIABody_sim (m : ModelS α) (htree : TreeOrder m)
    (hok : AllJointOK m) (i : Nat) (s t : WS α) (h1 : i ≤ m.nBodies - 1)
    (h2 : m.nBodies - 1 < i + (m.nBodies - 1)) (h : Agree m (Dmb m i) s t) :
    Agree m (Dmb m (i - 1)) (miIABody m i s) (miIABody m i t) := by
  have hi1 : 1 ≤ i := by omega
  have hl := htree i hi1 (by omega)
  have hk := (hok i hi1 (by omega)).2
  have hA := h.abaUD i (by dom) (by domw [hk]) (by domw [hk]) (by domw [hk])
  rw [miIABody_steps, miIABody_steps]
  split
  · rename_i hc
    have hl0 : m.lam i ≠ 0 := hc.1
    exact (hA.stIAl i (by dom) (by dom) (by dom)
      (by dom) (by dom) (by dom) (by dom) (by dom) (by dom)).mono (by dom)
  · exact hA.mono (by dom)

/-- before the fourth loop visits body `k` -/
@[dom] def Dmc (m : ModelS α) (k : Nat) : Dom :=
  Dmb m 0 ∪ Dom.rng [.u, .u3, .cu] (k + 1) (1 + (m.nBodies - 1))

theorem miBwdBody_sim (m : ModelS α) (tau : VecN α) (htree : TreeOrder m)
    (hok : AllJointOK m) (i : Nat) (s t : WS α) (h1 : i ≤ m.nBodies - 1)
    (h2 : m.nBodies - 1 < i + (m.nBodies - 1)) (h : Agree m (Dmc m i) s t) :
    Agree m (Dmc m (i - 1)) (miBwdBody m tau i s) (miBwdBody m tau i t) := by
  have hi1 : 1 ≤ i := by omega
  have hl := htree i hi1 (by omega)
  have hk := (hok i hi1 (by omega)).2
  have hA := h.abaU i tau (by dom) (by domw [hk]) (by domw [hk]) (by domw [hk])
  rw [miBwdBody_steps, miBwdBody_steps]
  split
  · rename_i hc
    have hl0 : m.lam i ≠ 0 := hc.1
    exact (hA.stPAm i (by dom) (by dom) (by dom) (by dom) (by dom) (by dom) (by dom) (by dom)
      (by dom) (by dom) (by dom) (by dom)).mono (by dom)
  · exact hA.mono (by dom)

theorem mi_indep (m : ModelS α) (st : QS α) (tau qdd : VecN α) (htree : TreeOrder m)
    (hok : AllJointOK m) (huo : UOrderPerm m) (w w' : WS α) (hw : WSFixed m w)
    (hw' : WSFixed m w') :
    (calcMInvTimesTau m w st tau qdd true).2 = (calcMInvTimesTau m w' st tau qdd true).2 := by
  rw [mi_eq, mi_eq]
  simp only [if_true]
  have h0 := ((Agree.init hw hw').set_v 0 (x := SV.zero) (x' := SV.zero) rfl
    (D' := Dom.at [.X_base] 0) (by dom)).set_a 0 (x := SV.zero) (x' := SV.zero) rfl
    (D' := Dom.at [.a] 0) (by dom)
  have h1 := mi_init_sim m st hok.jcalc huo _ _ h0
  have h2 := forUp_sim (fun s t => Agree m (Dmi m) s t) miPaBody miPaBody (m.nBodies - 1) 1
    (fun i s t _ _ h => h.set_pA i (x := SV.zero) (x' := SV.zero) rfl
      (fun g j hgj => Or.inl hgj)) _ _ h1
  have h3 := forDown_simI (fun k s t => Agree m (Dmb m k) s t) _ _ (m.nBodies - 1)
    (m.nBodies - 1) (fun i s t h1 h2 h => miIABody_sim m htree hok i s t h1 h2 h) _ _
    (h2.mono (by dom))
  rw [Nat.sub_self] at h3
  have h4 := forDown_simI (fun k s t => Agree m (Dmc m k) s t) _ _ (m.nBodies - 1)
    (m.nBodies - 1) (fun i s t h1 h2 h => miBwdBody_sim m tau htree hok i s t h1 h2 h) _ _
    (h3.mono (by dom))
  rw [Nat.sub_self] at h4
  exact acc_loop_sim m htree hok _ (by dom) _ _ qdd h4

end
end Rbdl.L13
