import Rbdl.Kin
/-
  Generic lemmas about the index loops `forUp` / `forDown` over per-body arrays (`Nat → β` updated
  with `upd`) for a parent function `lam` in tree order (`lam i < i`).  Nothing here depends on the
  RBDL data structures: only `forUp`, `forDown` (Rbdl/Kin.lean) and `upd` (Rbdl/WS.lean) are used.

  * basic: `forUp_eq_foldl`, `forDown_eq_foldl`, `forUp_sim`, `forDown_sim` (simulation / views),
    `forUp_inv`, `forDown_inv`, `forUp_keep`, `forDown_keep`, `forUp_congr`, `forDown_congr`
  * L1 forward propagation: `fwd_outside`, `fwd_rec`, `fwd_closed` (+ `_of_body` forms)
  * L2 backward accumulation: `bwd_outside`, `bwd_fold`, `bwd_final`, `bwd_sum`, `bwd_sum_above`,
    `bwd_chain`
  * L3 accumulation with a separate total: `tot_fst`, `tot_fold`, `tot_sum`, `tot_path_sum`
  * sums: `lsum z f l = Σ_{c ∈ l} f c` over a type with `Add` and the laws `AddLaws z`
    (`lsum_append`, `lsum_reverse`, `lsum_congr`, `lsum_bump`, `lsum_map`, `foldl_add_eq`,
    `forUp_add_eq`); `childrenOf lam n i` = the children of `i` among `1..n`
  Concrete instances: `LoopsEx.lean`.
-/
namespace Rbdl.Loops
open Rbdl

/-! ## iteration order, loops as folds, simulation -/

/-- `hi, hi-1, …` (`cnt` entries): the iteration order of `forDown cnt hi` -/
def desc : Nat → Nat → List Nat
  | _, 0 => []
  | hi, k+1 => hi :: desc (hi-1) k

theorem desc_eq_reverse_range' (hi cnt : Nat) (h : cnt ≤ hi) :
    desc hi cnt = (List.range' (hi + 1 - cnt) cnt).reverse := by
  induction cnt generalizing hi with
  | zero => rfl
  | succ k ih =>
    rw [desc, ih (hi - 1) (by omega), List.range'_concat, List.reverse_append]
    have h1 : hi - 1 + 1 - k = hi + 1 - (k + 1) := by omega
    have h2 : hi + 1 - (k + 1) + 1 * k = hi := by omega
    rw [h1, h2]; rfl

/-- the indices visited by `forDown n n` are `n, …, 1` -/
theorem desc_self (n : Nat) : desc n n = (List.range' 1 n).reverse := by
  rw [desc_eq_reverse_range' n n (Nat.le_refl _)]
  have : n + 1 - n = 1 := by omega
  rw [this]

theorem mem_desc {hi cnt c : Nat} (h : cnt ≤ hi) : c ∈ desc hi cnt ↔ hi < c + cnt ∧ c ≤ hi := by
  rw [desc_eq_reverse_range' hi cnt h, List.mem_reverse, List.mem_range'_1]
  omega

theorem forUp_eq_foldl {σ : Type} (n lo : Nat) (body : Nat → σ → σ) (s : σ) :
    forUp n lo body s = (List.range' lo n).foldl (fun s i => body i s) s := by
  induction n generalizing lo s with
  | zero => rfl
  | succ k ih => rw [forUp, List.range'_succ, List.foldl_cons]; exact ih _ _

theorem forDown_eq_foldl {σ : Type} (cnt hi : Nat) (body : Nat → σ → σ) (s : σ) :
    forDown cnt hi body s = (desc hi cnt).foldl (fun s i => body i s) s := by
  induction cnt generalizing hi s with
  | zero => rfl
  | succ k ih => rw [forDown, desc, List.foldl_cons]; exact ih _ _

/-- relational simulation: a relation kept by corresponding iterations is kept by the loops
    (use `R s t := Inv s ∧ view s = t` to reduce a loop over a big state to a loop over a view) -/
theorem forUp_sim {σ τ : Type} (R : σ → τ → Prop) (body : Nat → σ → σ) (body' : Nat → τ → τ)
    (n lo : Nat) (h : ∀ i s t, lo ≤ i → i < lo + n → R s t → R (body i s) (body' i t))
    (s : σ) (t : τ) (h0 : R s t) : R (forUp n lo body s) (forUp n lo body' t) := by
  induction n generalizing lo s t with
  | zero => exact h0
  | succ k ih =>
    rw [forUp, forUp]
    exact ih (lo + 1) (fun i s t h1 h2 => h i s t (by omega) (by omega)) _ _
      (h lo s t (Nat.le_refl _) (by omega) h0)

theorem forDown_sim {σ τ : Type} (R : σ → τ → Prop) (body : Nat → σ → σ) (body' : Nat → τ → τ)
    (cnt hi : Nat) (h : ∀ i s t, i ≤ hi → hi < i + cnt → R s t → R (body i s) (body' i t))
    (s : σ) (t : τ) (h0 : R s t) : R (forDown cnt hi body s) (forDown cnt hi body' t) := by
  induction cnt generalizing hi s t with
  | zero => exact h0
  | succ k ih =>
    rw [forDown, forDown]
    exact ih (hi - 1) (fun i s t h1 h2 => h i s t (by omega) (by omega)) _ _
      (h hi s t (Nat.le_refl _) (by omega) h0)

/-- an invariant of all visited iterations holds after the loop -/
theorem forUp_inv {σ : Type} (Inv : σ → Prop) (body : Nat → σ → σ) (n lo : Nat)
    (h : ∀ i s, lo ≤ i → i < lo + n → Inv s → Inv (body i s)) (s : σ) (h0 : Inv s) :
    Inv (forUp n lo body s) :=
  forUp_sim (fun s (_ : Unit) => Inv s) body (fun _ t => t) n lo
    (fun i s _ h1 h2 hs => h i s h1 h2 hs) s () h0

theorem forDown_inv {σ : Type} (Inv : σ → Prop) (body : Nat → σ → σ) (cnt hi : Nat)
    (h : ∀ i s, i ≤ hi → hi < i + cnt → Inv s → Inv (body i s)) (s : σ) (h0 : Inv s) :
    Inv (forDown cnt hi body s) :=
  forDown_sim (fun s (_ : Unit) => Inv s) body (fun _ t => t) cnt hi
    (fun i s _ h1 h2 hs => h i s h1 h2 hs) s () h0

/-- loops whose bodies agree on the visited indices are equal -/
theorem forUp_congr {σ : Type} (body body' : Nat → σ → σ) (n lo : Nat)
    (h : ∀ i s, lo ≤ i → i < lo + n → body i s = body' i s) (s : σ) :
    forUp n lo body s = forUp n lo body' s :=
  forUp_sim (fun s t => s = t) body body' n lo
    (fun i s t h1 h2 e => by subst e; exact h i s h1 h2) s s rfl

theorem forDown_congr {σ : Type} (body body' : Nat → σ → σ) (cnt hi : Nat)
    (h : ∀ i s, i ≤ hi → hi < i + cnt → body i s = body' i s) (s : σ) :
    forDown cnt hi body s = forDown cnt hi body' s :=
  forDown_sim (fun s t => s = t) body body' cnt hi
    (fun i s t h1 h2 e => by subst e; exact h i s h1 h2) s s rfl

/-- a view that every iteration leaves alone is unchanged by the loop -/
theorem forUp_keep {σ τ : Type} (view : σ → τ) (body : Nat → σ → σ) (n lo : Nat)
    (h : ∀ i s, lo ≤ i → i < lo + n → view (body i s) = view s) (s : σ) :
    view (forUp n lo body s) = view s := by
  induction n generalizing lo s with
  | zero => rfl
  | succ k ih =>
    rw [forUp, ih (lo + 1) (fun i s h1 h2 => h i s (by omega) (by omega))]
    exact h lo s (Nat.le_refl _) (by omega)

theorem forDown_keep {σ τ : Type} (view : σ → τ) (body : Nat → σ → σ) (cnt hi : Nat)
    (h : ∀ i s, i ≤ hi → hi < i + cnt → view (body i s) = view s) (s : σ) :
    view (forDown cnt hi body s) = view s := by
  induction cnt generalizing hi s with
  | zero => rfl
  | succ k ih =>
    rw [forDown, ih (hi - 1) (fun i s h1 h2 => h i s (by omega) (by omega))]
    exact h hi s (Nat.le_refl _) (by omega)

/-! ## L1: forward propagation  `arr[i] = F i arr[λ i]`, `i = lo, lo+1, …` -/
section Forward
variable {β : Type} (lam : Nat → Nat) (F : Nat → β → β)

/-- the loop body of a forward propagation -/
def fwdBody (i : Nat) (arr : Nat → β) : Nat → β := upd arr i (F i (arr (lam i)))

/-- entries outside the index range are unchanged -/
theorem fwd_outside (n lo : Nat) (arr : Nat → β) (j : Nat) (hj : j < lo ∨ lo + n ≤ j) :
    forUp n lo (fwdBody lam F) arr j = arr j := by
  induction n generalizing lo arr with
  | zero => rfl
  | succ k ih =>
    rw [forUp, ih (lo + 1) _ (by omega), fwdBody, upd_other _ _ _ _ (by omega)]

/-- every entry in the range is `F i` of the **final** value of its parent -/
theorem fwd_rec (n lo : Nat) (htree : ∀ i, lo ≤ i → i < lo + n → lam i < i)
    (arr : Nat → β) (i : Nat) (h1 : lo ≤ i) (h2 : i < lo + n) :
    forUp n lo (fwdBody lam F) arr i = F i (forUp n lo (fwdBody lam F) arr (lam i)) := by
  induction n generalizing lo arr with
  | zero => omega
  | succ k ih =>
    rw [forUp]
    by_cases hi : i = lo
    · subst hi
      have hl := htree i (Nat.le_refl _) (by omega)
      rw [fwd_outside lam F k (i + 1) _ i (by omega),
        fwd_outside lam F k (i + 1) _ (lam i) (by omega)]
      rw [fwdBody, upd_same, upd_other _ _ _ _ (by omega)]
    · exact ih (lo + 1) (fun c h1 h2 => htree c (by omega) (by omega)) _ (by omega) (by omega)

/-- closed form of a forward propagation started from `a0` (fuel recursion on the index; any fuel
    `≥ i` gives the value of entry `i`): the root entry `0` keeps `a0 0` -/
def fwdVal (a0 : Nat → β) : Nat → Nat → β
  | 0, i => a0 i
  | fuel+1, i => if i = 0 then a0 0 else F i (fwdVal a0 fuel (lam i))

theorem fwdVal_zero (a0 : Nat → β) (fuel : Nat) : fwdVal lam F a0 fuel 0 = a0 0 := by
  cases fuel <;> simp [fwdVal]

/-- (L1) `for i = 1..n: arr[i] = F i arr[λ i]` computes `fwdVal` -/
theorem fwd_closed (n : Nat) (htree : ∀ i, 1 ≤ i → i ≤ n → lam i < i) (a0 : Nat → β)
    (i : Nat) (h1 : 1 ≤ i) (h2 : i ≤ n) (fuel : Nat) (hf : i ≤ fuel) :
    forUp n 1 (fwdBody lam F) a0 i = fwdVal lam F a0 fuel i := by
  induction i using Nat.strongRecOn generalizing fuel with
  | _ i ih =>
    have hl := htree i h1 h2
    rw [fwd_rec lam F n 1 (fun c h1 h2 => htree c h1 (by omega)) a0 i h1 (by omega)]
    obtain ⟨f, rfl⟩ : ∃ f, fuel = f + 1 := ⟨fuel - 1, by omega⟩
    rw [fwdVal, if_neg (by omega)]
    by_cases h0 : lam i = 0
    · rw [h0, fwdVal_zero, fwd_outside lam F n 1 a0 0 (by omega)]
    · rw [ih (lam i) hl (by omega) (by omega) f (by omega)]

/-- the value does not depend on the fuel once it is `≥ i` -/
theorem fwdVal_fuel (n : Nat) (htree : ∀ i, 1 ≤ i → i ≤ n → lam i < i) (a0 : Nat → β)
    (i : Nat) (h2 : i ≤ n) (fuel : Nat) (hf : i ≤ fuel) :
    fwdVal lam F a0 fuel i = fwdVal lam F a0 i i := by
  by_cases h1 : 1 ≤ i
  · rw [← fwd_closed lam F n htree a0 i h1 h2 fuel hf,
      ← fwd_closed lam F n htree a0 i h1 h2 i (Nat.le_refl _)]
  · have : i = 0 := by omega
    subst this; rw [fwdVal_zero, fwdVal_zero]

/-- (L1), stated for an arbitrary body with the defining equation as hypothesis -/
theorem fwd_closed_of_body (body : Nat → (Nat → β) → Nat → β) (n : Nat)
    (hbody : ∀ i arr, 1 ≤ i → i ≤ n → body i arr = upd arr i (F i (arr (lam i))))
    (htree : ∀ i, 1 ≤ i → i ≤ n → lam i < i) (a0 : Nat → β) :
    (∀ i, 1 ≤ i → i ≤ n →
        forUp n 1 body a0 i = F i (forUp n 1 body a0 (lam i))) ∧
    (∀ i, 1 ≤ i → i ≤ n → ∀ fuel, i ≤ fuel → forUp n 1 body a0 i = fwdVal lam F a0 fuel i) ∧
    (∀ j, j = 0 ∨ n < j → forUp n 1 body a0 j = a0 j) := by
  have e : forUp n 1 body a0 = forUp n 1 (fwdBody lam F) a0 :=
    forUp_congr body (fwdBody lam F) n 1 (fun i s h1 h2 => hbody i s h1 (by omega)) a0
  rw [e]
  refine ⟨fun i h1 h2 => fwd_rec lam F n 1 (fun c h1 h2 => htree c h1 (by omega)) a0 i h1 (by omega),
    fun i h1 h2 fuel hf => fwd_closed lam F n htree a0 i h1 h2 fuel hf,
    fun j hj => fwd_outside lam F n 1 a0 j (by omega)⟩

end Forward

/-! ## list sums over a type with an addition -/
section Sum
variable {β : Type} [Add β]

/-- the laws of a commutative additive monoid with zero `z`, as a hypothesis bundle -/
structure AddLaws (z : β) : Prop where
  add_assoc : ∀ a b c : β, a + b + c = a + (b + c)
  add_comm : ∀ a b : β, a + b = b + a
  add_zero : ∀ a : β, a + z = a

/-- `Σ_{c ∈ l} f c` -/
def lsum (z : β) (f : Nat → β) : List Nat → β
  | [] => z
  | c :: l => f c + lsum z f l

variable {z : β}

theorem AddLaws.zero_add (L : AddLaws z) (a : β) : z + a = a := by
  rw [L.add_comm, L.add_zero]

theorem lsum_congr (f g : Nat → β) (l : List Nat) (h : ∀ c ∈ l, f c = g c) :
    lsum z f l = lsum z g l := by
  induction l with
  | nil => rfl
  | cons c l ih =>
    rw [lsum, lsum, h c (List.mem_cons_self ..), ih (fun c hc => h c (List.mem_cons_of_mem _ hc))]

theorem lsum_append (L : AddLaws z) (f : Nat → β) (l1 l2 : List Nat) :
    lsum z f (l1 ++ l2) = lsum z f l1 + lsum z f l2 := by
  induction l1 with
  | nil => rw [List.nil_append, lsum, L.zero_add]
  | cons c l ih => rw [List.cons_append, lsum, lsum, ih, L.add_assoc]

theorem lsum_reverse (L : AddLaws z) (f : Nat → β) (l : List Nat) :
    lsum z f l.reverse = lsum z f l := by
  induction l with
  | nil => rfl
  | cons c l ih =>
    rw [List.reverse_cons, lsum_append L, ih, lsum, lsum, lsum, L.add_zero, L.add_comm]

/-- an additive map commutes with list sums -/
theorem lsum_map {γ : Type} [Add γ] (zb : β) (zc : γ) (φ : β → γ) (h0 : φ zb = zc)
    (hadd : ∀ a b, φ (a + b) = φ a + φ b) (f : Nat → β) (l : List Nat) :
    φ (lsum zb f l) = lsum zc (fun i => φ (f i)) l := by
  induction l with
  | nil => exact h0
  | cons c l ih => rw [lsum, lsum, hadd, ih]

/-- left fold of `+` = start value + sum -/
theorem foldl_add_eq (L : AddLaws z) (f : Nat → β) (l : List Nat) (a : β) :
    l.foldl (fun a c => a + f c) a = a + lsum z f l := by
  induction l generalizing a with
  | nil => rw [List.foldl_nil, lsum, L.add_zero]
  | cons c l ih => rw [List.foldl_cons, ih, lsum, L.add_assoc]

/-- changing one summand by `+ d` changes the sum by `+ d` -/
theorem lsum_bump (L : AddLaws z) (f f' : Nat → β) (p : Nat) (d : β) (l : List Nat)
    (hnd : l.Nodup) (hp : p ∈ l) (hne : ∀ c, c ≠ p → f' c = f c) (heq : f' p = f p + d) :
    lsum z f' l = lsum z f l + d := by
  induction l with
  | nil => cases hp
  | cons c l ih =>
    rw [List.nodup_cons] at hnd
    rw [lsum, lsum]
    by_cases hc : c = p
    · subst hc
      rw [heq, lsum_congr f' f l (fun x hx => hne x (fun e => hnd.1 (e ▸ hx)))]
      rw [L.add_assoc, L.add_assoc, L.add_comm d]
    · have hp' : p ∈ l := by
        rcases List.mem_cons.1 hp with e | e
        · exact absurd e.symm hc
        · exact e
      rw [hne c hc, ih hnd.2 hp', L.add_assoc]

/-- `forUp` that adds `f i` to an accumulator = start + `Σ_{i=lo}^{lo+n-1} f i` -/
theorem forUp_add_eq (L : AddLaws z) (f : Nat → β) (n lo : Nat) (a : β) :
    forUp n lo (fun i acc => acc + f i) a = a + lsum z f (List.range' lo n) := by
  rw [forUp_eq_foldl, foldl_add_eq L]

end Sum

/-! ## L2: backward accumulation  `acc[λ i] = G i acc[λ i] acc[i]`, `i = hi, hi-1, …` -/
section Backward
variable {β : Type} (lam : Nat → Nat) (G : Nat → β → β → β)

/-- the loop body of a backward accumulation (`G c a x`: new parent value from the old one `a`
    and the value `x` of child `c`); bodies attached to the root (`λ i = 0`) are skipped -/
def bwdBody (i : Nat) (acc : Nat → β) : Nat → β :=
  if lam i ≠ 0 then upd acc (lam i) (G i (acc (lam i)) (acc i)) else acc

/-- the children of `i` among `1..n`, ascending -/
def childrenOf (n i : Nat) : List Nat := (List.range' 1 n).filter (fun c => decide (lam c = i))

/-- entries at or above the loop counter and entry `0` are not written -/
theorem bwd_outside (cnt hi : Nat) (hc : cnt ≤ hi) (htree : ∀ c, 1 ≤ c → c ≤ hi → lam c < c)
    (acc : Nat → β) (j : Nat) (hj : j = 0 ∨ hi ≤ j) :
    forDown cnt hi (bwdBody lam G) acc j = acc j := by
  induction cnt generalizing hi acc with
  | zero => rfl
  | succ k ih =>
    rw [forDown, ih (hi - 1) (by omega) (fun c h1 h2 => htree c h1 (by omega)) _ (by omega)]
    have hl := htree hi (by omega) (Nat.le_refl _)
    unfold bwdBody
    split
    · rw [upd_other _ _ _ _ (by omega)]
    · rfl

/-- (L2, order-exact form, no algebraic laws needed) after the loop, entry `i ≠ 0` is the start
    value with the **final** values of its visited children folded in, in descending order -/
theorem bwd_fold (cnt hi : Nat) (hc : cnt ≤ hi) (htree : ∀ c, 1 ≤ c → c ≤ hi → lam c < c)
    (acc : Nat → β) (i : Nat) (hi0 : i ≠ 0) :
    forDown cnt hi (bwdBody lam G) acc i =
      ((desc hi cnt).filter (fun c => decide (lam c = i))).foldl
        (fun a c => G c a (forDown cnt hi (bwdBody lam G) acc c)) (acc i) := by
  induction cnt generalizing hi acc with
  | zero => rfl
  | succ k ih =>
    have hl := htree hi (by omega) (Nat.le_refl _)
    have htree' : ∀ c, 1 ≤ c → c ≤ hi - 1 → lam c < c := fun c h1 h2 => htree c h1 (by omega)
    rw [forDown, ih (hi - 1) (by omega) htree' _, desc, List.filter_cons]
    have hfin : forDown k (hi - 1) (bwdBody lam G) (bwdBody lam G hi acc) hi = acc hi := by
      rw [bwd_outside lam G k (hi - 1) (by omega) htree' _ hi (by omega)]
      unfold bwdBody
      split
      · rw [upd_other _ _ _ _ (by omega)]
      · rfl
    by_cases hp : lam hi = i
    · simp only [hp, decide_true, if_true, List.foldl_cons]
      rw [hfin]
      congr 1
      unfold bwdBody
      rw [if_pos (by omega), hp, upd_same]
    · simp only [hp, decide_false, Bool.false_eq_true, if_false]
      congr 1
      unfold bwdBody
      split
      · rw [upd_other _ _ _ _ (fun e => hp e.symm)]
      · rfl

/-- (L2) for the whole loop `for i = n..1` -/
theorem bwd_final (n : Nat) (htree : ∀ c, 1 ≤ c → c ≤ n → lam c < c) (acc0 : Nat → β)
    (i : Nat) (hi0 : i ≠ 0) :
    forDown n n (bwdBody lam G) acc0 i =
      (childrenOf lam n i).reverse.foldl
        (fun a c => G c a (forDown n n (bwdBody lam G) acc0 c)) (acc0 i) := by
  rw [bwd_fold lam G n n (Nat.le_refl _) htree acc0 i hi0, desc_self, childrenOf,
    List.filter_reverse]

/-- the children of `i` lie above `i` -/
theorem childrenOf_above (n : Nat) (htree : ∀ c, 1 ≤ c → c ≤ n → lam c < c) (i : Nat)
    (hi : i ≤ n) :
    childrenOf lam n i = (List.range' (i + 1) (n - i)).filter (fun c => decide (lam c = i)) := by
  unfold childrenOf
  have hsplit : List.range' 1 n = List.range' 1 i ++ List.range' (i + 1) (n - i) := by
    have : n = i + (n - i) := by omega
    conv => lhs; rw [this]
    rw [Nat.add_comm i 1, List.range'_append_1]
  rw [hsplit, List.filter_append]
  have : (List.range' 1 i).filter (fun c => decide (lam c = i)) = [] := by
    rw [List.filter_eq_nil_iff]
    intro c hc
    rw [List.mem_range'_1] at hc
    have := htree c hc.1 (by omega)
    simp only [decide_eq_true_eq]; omega
  rw [this, List.nil_append]

theorem mem_childrenOf {n i c : Nat} : c ∈ childrenOf lam n i ↔ (1 ≤ c ∧ c ≤ n) ∧ lam c = i := by
  unfold childrenOf
  rw [List.mem_filter, List.mem_range'_1, decide_eq_true_eq]
  omega

/-- (L2, chain) for `λ c = c - 1` the accumulation is a suffix fold -/
theorem bwd_chain (n : Nat) (hchain : ∀ c, 1 ≤ c → c ≤ n → lam c = c - 1) (acc0 : Nat → β) :
    forDown n n (bwdBody lam G) acc0 n = acc0 n ∧
    ∀ i, 1 ≤ i → i < n →
      forDown n n (bwdBody lam G) acc0 i
        = G (i + 1) (acc0 i) (forDown n n (bwdBody lam G) acc0 (i + 1)) := by
  have htree : ∀ c, 1 ≤ c → c ≤ n → lam c < c := fun c h1 h2 => by
    rw [hchain c h1 h2]; omega
  refine ⟨bwd_outside lam G n n (Nat.le_refl _) htree acc0 n (Or.inr (Nat.le_refl _)), ?_⟩
  intro i h1 h2
  rw [bwd_final lam G n htree acc0 i (by omega), childrenOf_above lam n htree i (by omega)]
  have hn : n - i = 1 + (n - i - 1) := by omega
  rw [hn, ← List.range'_append_1, List.filter_append]
  have hnil : (List.range' (i + 1 + 1) (n - i - 1)).filter (fun c => decide (lam c = i)) = [] := by
    rw [List.filter_eq_nil_iff]
    intro c hc
    rw [List.mem_range'_1] at hc
    have := hchain c (by omega) (by omega)
    simp only [decide_eq_true_eq]; omega
  have hone : (List.range' (i + 1) 1).filter (fun c => decide (lam c = i)) = [i + 1] := by
    have := hchain (i + 1) (by omega) (by omega)
    simp [List.range'_succ, this]
  rw [hnil, hone]
  rfl

end Backward

/-! ### L2 with an addition: `acc[λ i] = acc[λ i] + T i acc[i]` -/
section BackwardAdd
variable {β : Type} [Add β] {z : β} (lam : Nat → Nat) (T : Nat → β → β)

/-- (L2) `final i = acc0 i + Σ_{c ∈ 1..n, λ c = i} T c (final c)` -/
theorem bwd_sum (L : AddLaws z) (n : Nat) (htree : ∀ c, 1 ≤ c → c ≤ n → lam c < c)
    (acc0 : Nat → β) (i : Nat) (hi0 : i ≠ 0) :
    forDown n n (bwdBody lam (fun c a x => a + T c x)) acc0 i =
      acc0 i + lsum z (fun c => T c (forDown n n (bwdBody lam (fun c a x => a + T c x)) acc0 c))
        (childrenOf lam n i) := by
  rw [bwd_final lam _ n htree acc0 i hi0, foldl_add_eq L, lsum_reverse L]

/-- (L2) `final i = acc0 i + Σ_{c : i < c ≤ n, λ c = i} T c (final c)` -/
theorem bwd_sum_above (L : AddLaws z) (n : Nat) (htree : ∀ c, 1 ≤ c → c ≤ n → lam c < c)
    (acc0 : Nat → β) (i : Nat) (h1 : 1 ≤ i) (h2 : i ≤ n) :
    forDown n n (bwdBody lam (fun c a x => a + T c x)) acc0 i =
      acc0 i + lsum z (fun c => T c (forDown n n (bwdBody lam (fun c a x => a + T c x)) acc0 c))
        ((List.range' (i + 1) (n - i)).filter (fun c => decide (lam c = i))) := by
  rw [bwd_sum lam T L n htree acc0 i (by omega), childrenOf_above lam n htree i h2]

/-- (L2), stated for an arbitrary body with the defining equation as hypothesis -/
theorem bwd_sum_of_body (L : AddLaws z) (body : Nat → (Nat → β) → Nat → β) (n : Nat)
    (hbody : ∀ i acc, 1 ≤ i → i ≤ n →
      body i acc = if lam i ≠ 0 then upd acc (lam i) (acc (lam i) + T i (acc i)) else acc)
    (htree : ∀ c, 1 ≤ c → c ≤ n → lam c < c) (acc0 : Nat → β) :
    (∀ i, 1 ≤ i → i ≤ n →
      forDown n n body acc0 i = acc0 i + lsum z (fun c => T c (forDown n n body acc0 c))
        ((List.range' (i + 1) (n - i)).filter (fun c => decide (lam c = i)))) ∧
    (∀ j, j = 0 ∨ n < j → forDown n n body acc0 j = acc0 j) := by
  have e : forDown n n body acc0 = forDown n n (bwdBody lam (fun c a x => a + T c x)) acc0 :=
    forDown_congr body _ n n (fun i s h1 h2 => hbody i s (by omega) h1) acc0
  rw [e]
  refine ⟨fun i h1 h2 => bwd_sum_above lam T L n htree acc0 i h1 h2, fun j hj => ?_⟩
  rcases hj with hj | hj
  · exact bwd_outside lam _ n n (Nat.le_refl _) htree acc0 j (Or.inl hj)
  · exact bwd_outside lam _ n n (Nat.le_refl _) htree acc0 j (Or.inr (by omega))

end BackwardAdd

/-! ## L3: backward accumulation with a separate total for the bodies attached to the root -/
section Total
variable {β γ : Type} (lam : Nat → Nat) (G : Nat → β → β → β) (H : Nat → γ → β → γ)

/-- loop body: as `bwdBody`, but a body with `λ i = 0` is folded into the total -/
def totBody (i : Nat) (s : (Nat → β) × γ) : (Nat → β) × γ :=
  if lam i ≠ 0 then (upd s.1 (lam i) (G i (s.1 (lam i)) (s.1 i)), s.2)
  else (s.1, H i s.2 (s.1 i))

/-- the array part is the plain backward accumulation -/
theorem tot_fst (cnt hi : Nat) (s : (Nat → β) × γ) :
    (forDown cnt hi (totBody lam G H) s).1 = forDown cnt hi (bwdBody lam G) s.1 := by
  induction cnt generalizing hi s with
  | zero => rfl
  | succ k ih =>
    rw [forDown, forDown, ih]
    congr 1
    unfold totBody bwdBody
    split <;> rfl

/-- (L3, order-exact form) the total is the start value with the final values of the visited root
    children folded in, in descending order -/
theorem tot_fold (cnt hi : Nat) (hc : cnt ≤ hi) (htree : ∀ c, 1 ≤ c → c ≤ hi → lam c < c)
    (s : (Nat → β) × γ) :
    (forDown cnt hi (totBody lam G H) s).2 =
      ((desc hi cnt).filter (fun c => decide (lam c = 0))).foldl
        (fun t c => H c t (forDown cnt hi (bwdBody lam G) s.1 c)) s.2 := by
  induction cnt generalizing hi s with
  | zero => rfl
  | succ k ih =>
    have hl := htree hi (by omega) (Nat.le_refl _)
    have htree' : ∀ c, 1 ≤ c → c ≤ hi - 1 → lam c < c := fun c h1 h2 => htree c h1 (by omega)
    rw [forDown, ih (hi - 1) (by omega) htree' _, desc, List.filter_cons]
    have hfst : (totBody lam G H hi s).1 = bwdBody lam G hi s.1 := by
      unfold totBody bwdBody; split <;> rfl
    have hfin : forDown k (hi - 1) (bwdBody lam G) (bwdBody lam G hi s.1) hi = s.1 hi := by
      rw [bwd_outside lam G k (hi - 1) (by omega) htree' _ hi (by omega)]
      unfold bwdBody
      split
      · rw [upd_other _ _ _ _ (by omega)]
      · rfl
    rw [hfst]
    by_cases hp : lam hi = 0
    · simp only [hp, decide_true, if_true, List.foldl_cons]
      rw [forDown, hfin]
      congr 1
      unfold totBody
      rw [if_neg (by omega)]
    · simp only [hp, decide_false, Bool.false_eq_true, if_false]
      rw [forDown]
      congr 1
      unfold totBody
      rw [if_pos hp]

end Total

section TotalAdd
variable {β : Type} [Add β] {z : β} (lam : Nat → Nat) (T : Nat → β → β)

/-- the body of the `CalcCenterOfMass` pattern: `acc[λ i] += T i acc[i]`, or `total += T i acc[i]`
    for bodies attached to the root -/
abbrev totAddBody (i : Nat) (s : (Nat → β) × β) : (Nat → β) × β :=
  totBody lam (fun c a x => a + T c x) (fun c t x => t + T c x) i s

/-- (L3) `total = tot0 + Σ_{c ∈ 1..n, λ c = 0} T c (final c)` -/
theorem tot_sum (L : AddLaws z) (n : Nat) (htree : ∀ c, 1 ≤ c → c ≤ n → lam c < c)
    (acc0 : Nat → β) (tot0 : β) :
    (forDown n n (totAddBody lam T) (acc0, tot0)).2 =
      tot0 + lsum z (fun c => T c (forDown n n (bwdBody lam (fun c a x => a + T c x)) acc0 c))
        (childrenOf lam n 0) := by
  rw [tot_fold lam _ _ n n (Nat.le_refl _) htree, desc_self, List.filter_reverse,
    foldl_add_eq L, lsum_reverse L]
  rfl

/-- composite of the `T`s along the path from body `i` to the root (fuel recursion; any fuel `≥ i`
    gives the same function) -/
def pathT : Nat → Nat → β → β
  | 0, _, x => x
  | fuel+1, i, x => if lam i = 0 then T i x else pathT fuel (lam i) (T i x)

theorem pathT_add (hT : ∀ c a b, T c (a + b) = T c a + T c b) (fuel i : Nat) (a b : β) :
    pathT lam T fuel i (a + b) = pathT lam T fuel i a + pathT lam T fuel i b := by
  induction fuel generalizing i a b with
  | zero => rfl
  | succ f ih =>
    simp only [pathT]
    split
    · exact hT i a b
    · rw [hT, ih]

omit [Add β] in
theorem pathT_fuel (n : Nat) (htree : ∀ c, 1 ≤ c → c ≤ n → lam c < c) (i : Nat) (h1 : 1 ≤ i)
    (h2 : i ≤ n) (fuel : Nat) (hf : i ≤ fuel) (x : β) :
    pathT lam T fuel i x = pathT lam T i i x := by
  induction i using Nat.strongRecOn generalizing fuel x with
  | _ i ih =>
    have hl := htree i h1 h2
    obtain ⟨f, rfl⟩ : ∃ f, fuel = f + 1 := ⟨fuel - 1, by omega⟩
    obtain ⟨i', rfl⟩ : ∃ i', i = i' + 1 := ⟨i - 1, by omega⟩
    simp only [pathT]
    split
    · rfl
    · rw [ih (lam (i' + 1)) hl (by omega) (by omega) f (by omega),
        ih (lam (i' + 1)) hl (by omega) (by omega) i' (by omega)]

omit [Add β] in
/-- unfolding of `pathT` at a fixed (large enough) fuel -/
theorem pathT_unfold (n : Nat) (htree : ∀ c, 1 ≤ c → c ≤ n → lam c < c) (i : Nat) (h1 : 1 ≤ i)
    (h2 : i ≤ n) (fuel : Nat) (hf : i ≤ fuel) (x : β) :
    pathT lam T fuel i x = if lam i = 0 then T i x else pathT lam T fuel (lam i) (T i x) := by
  have hl := htree i h1 h2
  obtain ⟨f, rfl⟩ : ∃ f, fuel = f + 1 := ⟨fuel - 1, by omega⟩
  rw [pathT]
  split
  · rfl
  · rw [pathT_fuel lam T n htree (lam i) (by omega) (by omega) f (by omega),
      pathT_fuel lam T n htree (lam i) (by omega) (by omega) (f + 1) (by omega)]

omit [Add β] in
/-- any family `Q` with the recursion of `pathT` is `pathT` -/
theorem pathT_eq (n : Nat) (htree : ∀ c, 1 ≤ c → c ≤ n → lam c < c) (Q : Nat → β → β)
    (hQ : ∀ i x, 1 ≤ i → i ≤ n → Q i x = if lam i = 0 then T i x else Q (lam i) (T i x))
    (i : Nat) (h1 : 1 ≤ i) (h2 : i ≤ n) (fuel : Nat) (hf : i ≤ fuel) (x : β) :
    pathT lam T fuel i x = Q i x := by
  induction i using Nat.strongRecOn generalizing x with
  | _ i ih =>
    have hl := htree i h1 h2
    rw [pathT_unfold lam T n htree i h1 h2 fuel hf, hQ i x h1 h2]
    split
    · rfl
    · exact ih (lam i) hl (by omega) (by omega) (by omega) _

/-- (L3, subtree form) for additive `T` the total is the sum over **all** bodies of the start
    values transported to the root along the tree -/
theorem tot_path_sum (L : AddLaws z) (hT : ∀ c a b, T c (a + b) = T c a + T c b)
    (n : Nat) (htree : ∀ c, 1 ≤ c → c ≤ n → lam c < c) (fuel : Nat) (hf : n ≤ fuel)
    (acc0 : Nat → β) (tot0 : β) :
    (forDown n n (totAddBody lam T) (acc0, tot0)).2 =
      tot0 + lsum z (fun i => pathT lam T fuel i (acc0 i)) (List.range' 1 n) := by
  induction n generalizing acc0 tot0 with
  | zero => rw [forDown]; exact (L.add_zero _).symm
  | succ k ih =>
    have hl := htree (k + 1) (by omega) (Nat.le_refl _)
    have htree' : ∀ c, 1 ≤ c → c ≤ k → lam c < c := fun c h1 h2 => htree c h1 (by omega)
    have hunf := pathT_unfold lam T (k + 1) htree (k + 1) (by omega) (Nat.le_refl _) fuel hf
    rw [forDown, List.range'_concat, lsum_append L, lsum, lsum, L.add_zero]
    have h1k : 1 + 1 * k = k + 1 := by omega
    rw [h1k]
    show (forDown k k (totAddBody lam T) (totAddBody lam T (k + 1) (acc0, tot0))).2 = _
    by_cases hp : lam (k + 1) = 0
    · have e : totAddBody lam T (k + 1) (acc0, tot0) = (acc0, tot0 + T (k + 1) (acc0 (k + 1))) := by
        show totBody _ _ _ _ _ = _
        unfold totBody; rw [if_neg (by omega)]
      rw [e, ih htree' (by omega), hunf, if_pos hp, L.add_assoc]
      congr 1
      exact L.add_comm _ _
    · have e : totAddBody lam T (k + 1) (acc0, tot0) =
          (upd acc0 (lam (k + 1)) (acc0 (lam (k + 1)) + T (k + 1) (acc0 (k + 1))), tot0) := by
        show totBody _ _ _ _ _ = _
        unfold totBody; rw [if_pos hp]
      rw [e, ih htree' (by omega), hunf, if_neg hp]
      congr 1
      refine lsum_bump L (fun i => pathT lam T fuel i (acc0 i)) _ (lam (k + 1)) _ _
        (List.nodup_range' 1 (by omega)) (by rw [List.mem_range'_1]; omega) ?_ ?_
      · intro c hc
        show pathT lam T fuel c (upd _ _ _ c) = _
        rw [upd_other _ _ _ _ hc]
      · show pathT lam T fuel _ (upd _ _ _ _) = _
        rw [upd_same, pathT_add lam T hT]

end TotalAdd

end Rbdl.Loops
