import RbdlProofs.Lemmas.LDynCapSum
import RbdlProofs.Lemmas.LDynCapUkc
import RbdlProofs.Props.C12
/-
  Capstones for the whole-body routines (`CalcCenterOfMass`, energies, `CalcZeroMomentPoint`): one
  node of the specification in terms of the spatial quantities of the model.

  * `transport_wrench`  a body-frame wrench `(n + c × m u, m u)` about the body origin, moved to the base
                        frame: `((p + R c) × m R u + R n, m R u)`;
  * `node_inertia`      mass and first moment of `X_baseᵀ I X_base`;
  * `node_momentum`     `X_baseᵀ (I v)` = (angular momentum about the base origin, linear momentum);
  * `node_momentum_rate` `X_baseᵀ (I a + v ×* I v)` = their time derivatives.
-/
namespace Rbdl.LDynCap
open Lean.Grind Rbdl Rbdl.Spec Rbdl.L06 Rbdl.L01 Rbdl.Loops Rbdl.L01Cap
set_option linter.unusedSimpArgs false
set_option linter.unusedVariables false
set_option linter.unusedSectionVars false

section
variable {α : Type} [Field α]

theorem rot_cross {R : M3 α} (h : R.IsRot) (a b : V3 α) :
    R * (a.cross b) = (R * a).cross (R * b) := by
  obtain ⟨n0,n1,n2,o01,o02,o12,c00,c01,c02,c10,c11,c12,c20,c21,c22⟩ := h.transpose
  simp only [M3.transpose] at *
  ext <;> simp only [alg] <;> grind

theorem transport_core (R : M3 α) (p c n u : V3 α) (mass : α) :
    (⟨R.transpose, p⟩ : XT α).applyTranspose ⟨n + c.cross (mass * u), mass * u⟩
      = ⟨R * n + R * (c.cross (mass * u)) + p.cross (R * (mass * u)), R * (mass * u)⟩ := by
  alg_ext

theorem v3_cross_add (a b c : V3 α) : (a + b).cross c = a.cross c + b.cross c := by alg_ext
theorem v3_perm (x y z : V3 α) : x + y + z = z + y + x := by alg_ext

/-- a body-frame wrench about the body origin moved to the base frame -/
theorem transport_wrench {R : M3 α} (h : R.IsRot) (p c n u : V3 α) (mass : α) :
    (⟨R.transpose, p⟩ : XT α).applyTranspose ⟨n + c.cross (mass * u), mass * u⟩
      = ⟨(p + R * c).cross (mass * (R * u)) + R * n, mass * (R * u)⟩ := by
  rw [transport_core, rot_cross h, m3_mulVec_smul, v3_cross_add]
  congr 1
  exact v3_perm _ _ _

/-- `I v` for `I = createFromMassComInertiaC`: `(Ic ω + c × m u, m u)`, `u` the velocity of the centre
    of mass -/
theorem rbi_mul_com (mass : α) (c : V3 α) (Ic : M3 α) (hs : Ic.transpose = Ic) (V : SV α) :
    RBI.ofMassComInertiaC mass c Ic * V
      = ⟨Ic * V.w + c.cross (mass * (V.v + V.w.cross c)), mass * (V.v + V.w.cross c)⟩ := by
  simp only [M3.transpose, M3.ext_iff] at hs
  alg_ext

theorem node_inertia (k : NodeKin α) (mass : α) (c : V3 α) (Ic : M3 α) :
    ((xtOfKin k).applyTransposeRBI (RBI.ofMassComInertiaC mass c Ic)).m = mass ∧
    ((xtOfKin k).applyTransposeRBI (RBI.ofMassComInertiaC mass c Ic)).h = mass * k.pt c := by
  refine ⟨rfl, ?_⟩
  rw [L12.applyTransposeRBI_h]
  unfold xtOfKin NodeKin.pt
  alg_ext

/-- `X_baseᵀ (I v)`: angular momentum about the base origin and linear momentum of one body -/
theorem node_momentum {k : NodeKin α} {V A : SV α} (h : BodyForm k V A) (mass : α) (c : V3 α)
    (Ic : M3 α) (hs : Ic.transpose = Ic) :
    (xtOfKin k).applyTranspose (RBI.ofMassComInertiaC mass c Ic * V)
      = ⟨(k.pt c).cross (mass * k.ptd c) + (k.R * Ic * k.R.transpose) * k.omega,
         mass * k.ptd c⟩ := by
  rw [rbi_mul_com mass c Ic hs V]
  show (⟨k.R.transpose, k.p⟩ : XT α).applyTranspose _ = _
  rw [transport_wrench h.rot, bf_ptd h, bf_omega h]
  simp only [m3_mulVec_assoc, tmul_mul h.rot]
  rfl

/-- `X_baseᵀ (I a + v ×* I v)`: their time derivatives -/
theorem node_momentum_rate {k : NodeKin α} {V A : SV α} (h : BodyForm k V A) (mass : α)
    (c : V3 α) (Ic : M3 α) (hs : Ic.transpose = Ic) :
    (xtOfKin k).applyTranspose (RBI.ofMassComInertiaC mass c Ic * A
        + crossf V (RBI.ofMassComInertiaC mass c Ic * V))
      = ⟨(k.pt c).cross (mass * k.ptdd c)
          + ((k.Rd * Ic * k.R.transpose + k.R * Ic * k.Rd.transpose) * k.omega
            + (k.R * Ic * k.R.transpose) * k.omegaDot),
         mass * k.ptdd c⟩ := by
  rw [C01.single_body_newton_euler mass c Ic hs V A]
  show (⟨k.R.transpose, k.p⟩ : XT α).applyTranspose _ = _
  rw [transport_wrench h.rot, bf_ptdd h, bf_Nb h]
  rfl

end
end Rbdl.LDynCap
