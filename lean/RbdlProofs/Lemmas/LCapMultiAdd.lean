import RbdlProofs.Lemmas.L01CapFixFinal
/-
  Multi-DoF capstone, part 1: `Spec.SB.add` for a joint description that expands to a chain of
  elementary joints (`JDesc.axes l`, the floating base, every single-body joint) is an iterated
  `pushMov` — the index-dependent fold of `Rbdl/Spec/Build.lean` written as a recursion (`chainGo`).
-/
namespace Rbdl.LCapMulti
open Lean.Grind Rbdl Rbdl.Spec Rbdl.L06 Rbdl.L01 Rbdl.L01Cap Rbdl.Loops
set_option linter.unusedSimpArgs false
set_option linter.unusedVariables false
set_option linter.unusedSectionVars false

section
variable {α : Type} [Field α] [DecidableEq α]

/-- node `k` of a chain of `n` elementary joints: the first carries the joint frame, the last the body -/
def chainNode (n k : Nat) (E : M3 α) (r : V3 α) (mass : α) (com : V3 α) (inertia : M3 α)
    (sb : SB α) (pn : Nat) (sj : SJoint α) : SNode α :=
  ⟨pn, if k = 0 then E else M3.one, if k = 0 then r else V3.zero, sj, sb.M.nv, 0, decide (k + 1 = n),
    if k + 1 = n then mass else 0, if k + 1 = n then com else V3.zero,
    if k + 1 = n then inertia else M3.zero, sb.nMovable, sb.nMovable⟩

/-- the chain appended node by node -/
def chainGo (n : Nat) (E : M3 α) (r : V3 α) (mass : α) (com : V3 α) (inertia : M3 α) (first : Nat) :
    List (SJoint α) → Nat → SB α → Nat → SB α
  | [], _, sb, _ => sb
  | sj :: rest, k, sb, pn =>
    chainGo n E r mass com inertia first rest (k + 1)
      (pushMov sb (chainNode n k E r mass com inertia sb pn sj) first) sb.M.nodes.length

/-- the step of the fold in `SB.add` -/
def addStep (n : Nat) (E : M3 α) (r : V3 α) (mass : α) (com : V3 α) (inertia : M3 α)
    (acc : List (SNode α) × Nat × Nat × Nat) (p : SJoint α × Nat) : List (SNode α) × Nat × Nat × Nat :=
  let (nodes, pn, nvAcc, mid) := acc
  let (sj, k) := p
  let last := k + 1 = n
  let nd : SNode α :=
    ⟨pn, if k = 0 then E else M3.one, if k = 0 then r else V3.zero, sj, nvAcc, 0, last,
     if last then mass else 0, if last then com else V3.zero, if last then inertia else M3.zero,
     mid, mid⟩
  (nodes ++ [nd], nodes.length, nvAcc + sj.dof, mid + 1)

theorem pushMov_nv (sb : SB α) (nd : SNode α) (f : Nat) :
    (pushMov sb nd f).M.nv = sb.M.nv + nd.joint.dof := nv_append sb.M nd

theorem chainGo_fold (n : Nat) (E : M3 α) (r : V3 α) (mass : α) (com : V3 α) (inertia : M3 α)
    (first nm0 f0 : Nat) : ∀ (js : List (SJoint α)) (k : Nat) (sb : SB α) (pn : Nat),
    sb.nMovable = nm0 + k → sb.M.nodes.length = f0 + k →
    chainGo n E r mass com inertia first js k sb pn
      = { M := { nodes := ((js.zip (List.range' k js.length)).foldl
                    (addStep n E r mass com inertia) (sb.M.nodes, pn, sb.M.nv, sb.nMovable)).1,
                 gravity := sb.M.gravity },
          nMovable := sb.nMovable + js.length,
          nFixed := sb.nFixed,
          idMap := sb.idMap ++ (List.range' k js.length).map (fun t => (nm0 + t, first, f0 + t)) } ∧
    ((js.zip (List.range' k js.length)).foldl
        (addStep n E r mass com inertia) (sb.M.nodes, pn, sb.M.nv, sb.nMovable)).2.2.2
      = sb.nMovable + js.length := by
  intro js
  induction js with
  | nil =>
    intro k sb pn _ _
    simp [chainGo]
  | cons sj rest ih =>
    intro k sb pn h1 h2
    have hz : (sj :: rest).zip (List.range' k (sj :: rest).length)
        = (sj, k) :: rest.zip (List.range' (k + 1) rest.length) := by
      simp [List.range'_succ]
    have hstep : addStep n E r mass com inertia (sb.M.nodes, pn, sb.M.nv, sb.nMovable) (sj, k)
        = ((pushMov sb (chainNode n k E r mass com inertia sb pn sj) first).M.nodes,
            sb.M.nodes.length,
            (pushMov sb (chainNode n k E r mass com inertia sb pn sj) first).M.nv,
            (pushMov sb (chainNode n k E r mass com inertia sb pn sj) first).nMovable) := by
      rw [pushMov_nv]
      rfl
    obtain ⟨ih1, ih2⟩ := ih (k + 1) (pushMov sb (chainNode n k E r mass com inertia sb pn sj) first)
      sb.M.nodes.length (by show sb.nMovable + 1 = _; omega)
      (by show (pushNode sb.M _).nodes.length = _; rw [pushNode_length]; omega)
    rw [hz, List.foldl_cons, hstep]
    constructor
    · show chainGo n E r mass com inertia first rest (k + 1) _ _ = _
      rw [ih1]
      have e1 : (pushMov sb (chainNode n k E r mass com inertia sb pn sj) first).nMovable
          = sb.nMovable + 1 := rfl
      have e2 : (pushMov sb (chainNode n k E r mass com inertia sb pn sj) first).idMap
          = sb.idMap ++ [(sb.nMovable, first, sb.M.nodes.length)] := rfl
      rw [e1, e2, h1, h2]
      simp only [List.length_cons, List.range'_succ, List.map_cons, List.append_assoc,
        List.singleton_append]
      congr 1
      omega
    · rw [ih2]
      show sb.nMovable + 1 + rest.length = sb.nMovable + (rest.length + 1)
      omega

/-- **`SB.add` for a chain of elementary joints is an iterated `pushMov`** -/
theorem add_chain (sb : SB α) (parent : Nat) (E : M3 α) (r : V3 α) (d : JDesc α)
    (js : List (SJoint α)) (mass : α) (com : V3 α) (inertia : M3 α) (he : expand d = some js)
    (hnf : ∀ j ∈ js, notFixed j = true) :
    sb.add parent E r d mass com inertia
      = (chainGo js.length E r mass com inertia sb.M.nodes.length js 0 sb (sb.nodeOf parent),
          some (sb.nMovable + js.length - 1)) := by
  obtain ⟨h1, h2⟩ := chainGo_fold js.length E r mass com inertia sb.M.nodes.length sb.nMovable
    sb.M.nodes.length js 0 sb (sb.nodeOf parent) rfl rfl
  unfold SB.add
  rw [he]
  split
  · rename_i h; cases h
  · rename_i h
    have : js = [SJoint.fixed] := Option.some.inj h
    rw [this] at hnf
    have := hnf .fixed (List.mem_singleton.2 rfl)
    cases this
  · rename_i js' hne h
    have hj : js = js' := Option.some.inj h
    subst hj
    rw [h1]
    rw [← List.range_eq_range'] at h2 ⊢
    show (_, _) = (_, _)
    congr 1
    · show SB.mk _ _ _ _ = SB.mk _ _ _ _
      congr 1
    · show some (((js.zip (List.range js.length)).foldl (addStep js.length E r mass com inertia)
          (sb.M.nodes, sb.nodeOf parent, sb.M.nv, sb.nMovable)).2.2.2 - 1) = _
      rw [h2]

end
end Rbdl.LCapMulti
