import RbdlProofs.Lemmas.L05
/-
  C05, algebra level: the spatial velocity of a body as a sum over the joints on its path, and the
  product `G q̇` of a filled Jacobian.

  * `wsum x s cols = Σ_c x (s + c) • cols[c]` (`colsMul cols x = wsum x 0 cols`);
    `pathSum … l = Σ_{j ∈ l} Σ_c q̇[qIndex j + c] • g j (S_{j,c})`.
  * `KinWS m w qd`: the workspace satisfies the kinematic recursions
      `X_base i = X_λ i * X_base (λ i)`, `v i = X_λ i (v (λ i)) + v_J i`, `v_J i = Σ_c q̇ • S_{i,c}`,
    with rotations `X_λ i` (established for `updateKinematics` / `updateKinematicsCustom` in
    `L05Ws.lean`).
  * `velocity_as_sum`, `jacFill_mulVec`.
-/
namespace Rbdl.L05
open Lean.Grind Rbdl Rbdl.Loops
set_option linter.unusedSimpArgs false
set_option linter.unusedVariables false
set_option linter.unusedSectionVars false

section
variable {α : Type} [Field α]

/-! ### linearity of `XT.apply`, inverse -/

theorem apply_add (X : XT α) (a b : SV α) : X.apply (a + b) = X.apply a + X.apply b := by alg_ext
theorem apply_smul (X : XT α) (k : α) (a : SV α) : X.apply (k * a) = k * X.apply a := by alg_ext
theorem apply_zero (X : XT α) : X.apply SV.zero = SV.zero := by alg_ext

theorem apply_inverse (X : XT α) (h : X.E.IsRot) (v : SV α) :
    X.apply (X.inverse.apply v) = v := by rot_ext h

theorem sv_zero_add (a : SV α) : SV.zero + a = a := by alg_ext
theorem sv_add_zero (a : SV α) : a + SV.zero = a := by alg_ext
theorem sv_add_assoc (a b c : SV α) : a + b + c = a + (b + c) := by alg_ext
theorem sv_add_comm (a b : SV α) : a + b = b + a := by alg_ext
theorem sv_smul_zero (k : α) : k * (SV.zero : SV α) = SV.zero := by alg_ext

theorem sv_add_eq_self (a b : SV α) (h : a + b = a) : b = SV.zero := by
  simp only [SV.ext_iff, V3.ext_iff, alg] at h ⊢
  grind

theorem svLaws : AddLaws (SV.zero : SV α) := ⟨sv_add_assoc, sv_add_comm, sv_add_zero⟩

/-- `(X_λ X_b)⁻¹ (X_λ v) = X_b⁻¹ v` -/
theorem inverse_mul_apply (Xl Xb : XT α) (hl : Xl.E.IsRot) (hb : Xb.E.IsRot) (v : SV α) :
    (Xl * Xb).inverse.apply (Xl.apply v) = Xb.inverse.apply v := by
  have e : Xl.apply v = (Xl * Xb).apply (Xb.inverse.apply v) := by
    rw [C16.mul_apply Xl Xb hb, apply_inverse Xb hb]
  rw [e, C16.inverse_apply (Xl * Xb) (by rw [XT.mul_E]; exact hl.mul hb)]

/-! ### weighted column sums -/

/-- `Σ_c x (s + c) • cols[c]` -/
def wsum (x : Nat → α) : Nat → List (SV α) → SV α
  | _, [] => SV.zero
  | s, c :: cols => x s * c + wsum x (s + 1) cols

theorem colsMul_fold (x : Nat → α) (cols : List (SV α)) (s : Nat) (a : SV α) :
    (cols.zip (List.range' s cols.length)).foldl
        (fun (acc : SV α) (p : SV α × Nat) => acc + x p.2 * p.1) a
      = a + wsum x s cols := by
  induction cols generalizing s a with
  | nil => exact (sv_add_zero a).symm
  | cons c cols ih =>
    show ((cols.zip (List.range' (s + 1) cols.length)).foldl
      (fun (acc : SV α) (p : SV α × Nat) => acc + x p.2 * p.1) (a + x s * c)) = _
    rw [ih, wsum, sv_add_assoc]

/-- the model's `colsMul` is `wsum` from index 0 -/
theorem colsMul_eq_wsum (cols : List (SV α)) (x : Nat → α) : colsMul cols x = wsum x 0 cols := by
  unfold colsMul colsMul.indexedCols
  rw [List.range_eq_range', colsMul_fold, sv_zero_add]

theorem wsum_map_apply (X : XT α) (x : Nat → α) (s : Nat) (cols : List (SV α)) :
    X.apply (wsum x s cols) = wsum x s (cols.map X.apply) := by
  induction cols generalizing s with
  | nil => exact apply_zero X
  | cons c cols ih => rw [wsum, apply_add, apply_smul, ih, List.map_cons, wsum]

/-- `Σ_{j ∈ l} Σ_c q̇[qIndex j + c] • g j (S_{j,c})` -/
def pathSum (m : ModelS α) (w : WS α) (qd : VecN α) (g : Nat → SV α → SV α) (l : List Nat) :
    SV α :=
  lsum SV.zero (fun j => wsum (fun z => qd ((m.joint j).qIndex + z)) 0 ((w.Scols m j).map (g j))) l

theorem pathSum_apply (m : ModelS α) (w : WS α) (qd : VecN α) (g : Nat → SV α → SV α) (T : XT α)
    (l : List Nat) :
    T.apply (pathSum m w qd g l) = pathSum m w qd (fun j S => T.apply (g j S)) l := by
  unfold pathSum
  rw [lsum_map SV.zero SV.zero T.apply (apply_zero T) (apply_add T)]
  refine lsum_congr _ _ l (fun j _ => ?_)
  rw [wsum_map_apply, List.map_map]
  rfl

/-! ### workspaces that satisfy the kinematic recursions -/

/-- body `i` of the workspace satisfies the recursions of the position and velocity loops -/
structure KinAt (m : ModelS α) (w : WS α) (qd : VecN α) (i : Nat) : Prop where
  X_base : w.X_base i = if m.lam i ≠ 0 then w.X_lambda i * w.X_base (m.lam i) else w.X_lambda i
  v : w.v i = if m.lam i ≠ 0 then (w.X_lambda i).apply (w.v (m.lam i)) + w.v_J i else w.v_J i
  v_J : w.v_J i = wsum (fun z => qd ((m.joint i).qIndex + z)) 0 (w.Scols m i)
  rot : (w.X_lambda i).E.IsRot

/-- all movable bodies do -/
def KinWS (m : ModelS α) (w : WS α) (qd : VecN α) : Prop :=
  ∀ i, 1 ≤ i → i < m.nBodies → KinAt m w qd i

theorem KinAt.congr {m : ModelS α} {w w' : WS α} {qd : VecN α} {i : Nat} (h : KinAt m w qd i)
    (hXl : w'.X_lambda i = w.X_lambda i) (hXb : w'.X_base i = w.X_base i)
    (hXbl : w'.X_base (m.lam i) = w.X_base (m.lam i)) (hv : w'.v i = w.v i)
    (hvl : w'.v (m.lam i) = w.v (m.lam i)) (hvJ : w'.v_J i = w.v_J i)
    (hS : w'.Scols m i = w.Scols m i) : KinAt m w' qd i := by
  refine ⟨?_, ?_, ?_, ?_⟩
  · rw [hXl, hXb, hXbl]; exact h.X_base
  · rw [hXl, hv, hvl, hvJ]; exact h.v
  · rw [hvJ, hS]; exact h.v_J
  · rw [hXl]; exact h.rot

/-- all `X_base[i].E` are rotations -/
theorem KinWS.rot_base {m : ModelS α} {w : WS α} {qd : VecN α} (h : KinWS m w qd)
    (htree : Tree m) : ∀ i, 1 ≤ i → i < m.nBodies → (w.X_base i).E.IsRot := by
  intro i
  induction i using Nat.strongRecOn with
  | _ i ih =>
    intro h1 hi
    have hk := h i h1 hi
    rw [hk.X_base]
    split
    · rw [XT.mul_E]
      have hlt := htree i h1 hi
      exact hk.rot.mul (ih (m.lam i) hlt (by omega) (by omega))
    · exact hk.rot

/-- (2) the base-frame spatial velocity of body `i` is the sum, over the joints `j` on its path
    and their motion-subspace columns, of `q̇[qIndex j + c] • X_base[j]⁻¹ S_{j,c}` -/
theorem velocity_as_sum {m : ModelS α} {w : WS α} {qd : VecN α} (h : KinWS m w qd)
    (htree : Tree m) : ∀ i, 1 ≤ i → i < m.nBodies →
      (w.X_base i).inverse.apply (w.v i)
        = pathSum m w qd (fun j => (w.X_base j).inverse.apply) (path m i) := by
  intro i
  induction i using Nat.strongRecOn with
  | _ i ih =>
    intro h1 hi
    have hk := h i h1 hi
    have hlt := htree i h1 hi
    rw [path_unfold m htree i h1 hi]
    unfold pathSum
    rw [lsum]
    rw [← wsum_map_apply, ← hk.v_J]
    by_cases hl : m.lam i ≠ 0
    · have hrec := ih (m.lam i) hlt (by omega) (by omega)
      unfold pathSum at hrec
      rw [← hrec, hk.v, if_pos hl, apply_add, sv_add_comm]
      congr 1
      rw [hk.X_base, if_pos hl]
      exact inverse_mul_apply _ _ hk.rot (h.rot_base htree (m.lam i) (by omega) (by omega)) _
    · have hl0 : m.lam i = 0 := by omega
      rw [hk.v, if_neg hl, hl0, path_zero, lsum, sv_add_zero]

/-! ### the matrix-vector product `G q̇` (rows 0..5) -/

/-- column `k` of a 6-row matrix -/
def colSV (G : MatN α) (k : Nat) : SV α := ⟨⟨G 0 k, G 1 k, G 2 k⟩, ⟨G 3 k, G 4 k, G 5 k⟩⟩

/-- `G x` for the rows `0..5` and the columns `0..n-1` -/
def mulVecSV (G : MatN α) (n : Nat) (x : VecN α) : SV α :=
  ⟨⟨sumTo n (fun k => G 0 k * x k), sumTo n (fun k => G 1 k * x k),
    sumTo n (fun k => G 2 k * x k)⟩,
   ⟨sumTo n (fun k => G 3 k * x k), sumTo n (fun k => G 4 k * x k),
    sumTo n (fun k => G 5 k * x k)⟩⟩

/-- `G x` for the rows `0..2` -/
def mulVecV3 (G : MatN α) (n : Nat) (x : VecN α) : V3 α :=
  ⟨sumTo n (fun k => G 0 k * x k), sumTo n (fun k => G 1 k * x k),
    sumTo n (fun k => G 2 k * x k)⟩

/-- the all-zero matrix -/
def zeroMat : MatN α := fun _ _ => 0

theorem mulVecSV_succ (G : MatN α) (n : Nat) (x : VecN α) :
    mulVecSV G (n + 1) x = mulVecSV G n x + x n * colSV G n := by
  ext <;> simp only [mulVecSV, colSV, sumTo, alg] <;> grind

theorem sumTo_zero_fun (n : Nat) (x : VecN α) : sumTo n (fun k => (0 : α) * x k) = 0 := by
  induction n with
  | zero => rfl
  | succ n ih => rw [sumTo, ih]; grind

theorem mulVecSV_zeroMat (n : Nat) (x : VecN α) : mulVecSV (zeroMat : MatN α) n x = SV.zero := by
  simp only [mulVecSV, zeroMat, sumTo_zero_fun]
  rfl

theorem colSV_zeroMat (k : Nat) : colSV (zeroMat : MatN α) k = SV.zero := rfl

theorem colSV_setCol_other (G : MatN α) (c : Nat) (vals : List α) (k : Nat) (h : k ≠ c) :
    colSV (setCol G c vals) k = colSV G k := by
  simp only [colSV, setCol_other _ _ _ _ _ h]

theorem colSV_setCol_same (G : MatN α) (c : Nat) (y : SV α) :
    colSV (setCol G c (SV.toList y)) c = y := by
  simp only [colSV, setCol_same, SV.toList, List.length_cons, List.length_nil]
  rfl

/-- columns `≥ n` do not enter the product -/
theorem mulVecSV_congr (G G' : MatN α) (n : Nat) (x : VecN α)
    (h : ∀ k, k < n → colSV G' k = colSV G k) : mulVecSV G' n x = mulVecSV G n x := by
  induction n with
  | zero => rfl
  | succ n ih =>
    rw [mulVecSV_succ, mulVecSV_succ, ih (fun k hk => h k (by omega)), h n (by omega)]

/-- writing `y` into a zero column `c < n` adds `x c • y` to the product -/
theorem mulVecSV_setCol (G : MatN α) (n : Nat) (x : VecN α) (c : Nat) (y : SV α) (hc : c < n)
    (hz : colSV G c = SV.zero) :
    mulVecSV (setCol G c (SV.toList y)) n x = mulVecSV G n x + x c * y := by
  induction n with
  | zero => omega
  | succ n ih =>
    rw [mulVecSV_succ, mulVecSV_succ]
    by_cases e : c = n
    · subst e
      rw [colSV_setCol_same, hz, sv_smul_zero, sv_add_zero]
      rw [mulVecSV_congr G _ c x (fun k hk => colSV_setCol_other _ _ _ _ (by omega))]
    · rw [ih (by omega), colSV_setCol_other _ _ _ _ (by omega)]
      rw [sv_add_assoc, sv_add_assoc, sv_add_comm (x c * y)]

theorem colSV_colFill_miss (k : Nat) (f : SV α → List α) (s : Nat) (cols : List (SV α))
    (G : MatN α) (c' : Nat) (h : c' < k + s ∨ k + s + cols.length ≤ c') :
    colSV (colFill k f s cols G) c' = colSV G c' := by
  simp only [colSV, colFill_miss _ _ _ _ _ _ _ h]

/-- the writes of one joint into zero columns below `n` add `Σ_c x (k + s + c) • g (cols[c])` -/
theorem mulVecSV_colFill (k : Nat) (g : SV α → SV α) (n : Nat) (x : VecN α) (s : Nat)
    (cols : List (SV α)) (G : MatN α) (hn : k + s + cols.length ≤ n)
    (hz : ∀ idx, idx < cols.length → colSV G (k + s + idx) = SV.zero) :
    mulVecSV (colFill k (fun S => SV.toList (g S)) s cols G) n x
      = mulVecSV G n x + wsum (fun z => x (k + z)) s (cols.map g) := by
  induction cols generalizing s G with
  | nil => exact (sv_add_zero _).symm
  | cons c cols ih =>
    simp only [List.length_cons] at hn hz
    rw [colFill_cons, ih (s + 1) _ (by omega) (fun idx hidx => by
      rw [colSV_setCol_other _ _ _ _ (by omega)]
      have := hz (idx + 1) (by omega)
      rw [← this]; congr 1; omega)]
    rw [mulVecSV_setCol G n x (k + s) (g c) (by omega) (by simpa using hz 0 (by omega))]
    rw [List.map_cons, wsum, sv_add_assoc]

theorem colSV_jacBody_miss (m : ModelS α) (w : WS α) (T : XT α) (sel : SV α → List α) (j : Nat)
    (G : MatN α) (k : Nat) (h : ¬ inBlock m w j k) :
    colSV (jacBody m w T sel j G) k = colSV G k := by
  simp only [colSV, jacBody_miss m w T sel j G _ k h]

/-- filling pairwise disjoint, zero blocks inside `[0, n)` adds the blocks' contributions -/
theorem mulVecSV_fillList (m : ModelS α) (w : WS α) (T : XT α) (n : Nat) (qd : VecN α)
    (l : List Nat) (hd : l.Pairwise (blocksDisjoint m w)) (G : MatN α)
    (hn : ∀ j ∈ l, (m.joint j).qIndex + (w.Scols m j).length ≤ n)
    (hz : ∀ j ∈ l, ∀ k, inBlock m w j k → colSV G k = SV.zero) :
    mulVecSV (fillList m w T SV.toList l G) n qd
      = mulVecSV G n qd
        + pathSum m w qd (fun j S => T.apply ((w.X_base j).inverse.apply S)) l := by
  induction l generalizing G with
  | nil => exact (sv_add_zero _).symm
  | cons a l ih =>
    rw [List.pairwise_cons] at hd
    rw [fillList_cons, ih hd.2 _ (fun j hj => hn j (List.mem_cons_of_mem _ hj)) (fun j hj k hk => by
      rw [colSV_jacBody_miss m w T SV.toList a G k (by
        have := hd.1 j hj
        unfold blocksDisjoint at this
        unfold inBlock at hk ⊢
        omega)]
      exact hz j (List.mem_cons_of_mem _ hj) k hk)]
    unfold pathSum
    rw [lsum, ← sv_add_assoc]
    congr 1
    unfold jacBody
    refine mulVecSV_colFill _ _ n qd 0 _ G
      (by have := hn a (List.mem_cons_self ..); omega) (fun idx hidx => ?_)
    exact hz a (List.mem_cons_self ..) _ (by unfold inBlock; omega)

/-- (3, core) for a zero-initialised matrix, `G q̇` of the fill with transform `T` started at body
    `start` is `T` applied to the base-frame spatial velocity of `start` -/
theorem jacFill_mulVec {m : ModelS α} {w : WS α} {qd : VecN α} (hL : Layout m) (hc : ColsOk m w)
    (hk : KinWS m w qd) (T : XT α) (start : Nat) (h1 : 1 ≤ start) (hs : start < m.nBodies) :
    mulVecSV (jacFill m w T start SV.toList zeroMat) m.qdotSize qd
      = T.apply ((w.X_base start).inverse.apply (w.v start)) := by
  rw [jacFill_eq_path m hL.tree w T start hs]
  rw [mulVecSV_fillList m w T m.qdotSize qd _ (path_blocksDisjoint hL hc start hs) zeroMat
    (fun j hj => by
      have := mem_path m hL.tree start hs j hj
      exact block_in_range hL hc j this.1 (by omega))
    (fun j hj k hk => colSV_zeroMat k)]
  rw [mulVecSV_zeroMat, sv_zero_add, velocity_as_sum hk hL.tree start h1 hs, pathSum_apply]

end
end Rbdl.L05
