import RbdlProofs.Lemmas.L05Jac
import RbdlProofs.Lemmas.Ex06
import RbdlProofs.Props.C14
/-
  C05: the layout hypotheses follow from `ModelS.WF`; concrete instances over `Rat` for the
  satisfiability examples (the branched tree `C04.Ex.m`: revoluteZ, revolute, spherical, custom
  cylindrical joint, one fixed body; workspace `initWS` as left by the construction code).
-/
namespace Rbdl.L05
open Lean.Grind Rbdl
set_option linter.unusedSectionVars false

section
variable {α : Type} [Field α]

/-- the layout hypotheses are part of the structural invariant of `Model` (C14) -/
theorem Layout.of_WF (m : ModelS α) (hwf : m.WF) : Layout m :=
  ⟨hwf.lam_lt, hwf.q_contig, fun i hi => by
    rw [hwf.qdot]
    exact ModelS.q_range_aux m hwf (m.nBodies - 1 - i) i (by omega)⟩

/-- in a well-formed model a custom joint declares the number of degrees of freedom of its kind -/
theorem customDof_of_WF (m : ModelS α) (hwf : m.WF) :
    ∀ i, 1 ≤ i → i < m.nBodies → (m.joint i).jt = .custom →
      (m.joint i).dof = (m.custom (m.joint i).customIdx).dof :=
  fun i _ hi hc => (hwf.custom_ok i hi hc).2

/-- no custom joints: nothing to check -/
theorem customInj_of_none (m : ModelS α)
    (h : ∀ i, 1 ≤ i → i < m.nBodies → (m.joint i).jt ≠ .custom) : CustomInj m :=
  fun i _ h1 hi _ _ hc _ _ => absurd hc (h i h1 hi)

end

namespace Ex
open Rbdl.C04.Ex

/-- a model built by the construction code is well formed, hence has the layout -/
example : Layout C14.Ex.M := Layout.of_WF _ (C14.wf_run C14.Ex.ops C14.Ex.validRun_ops)

theorem m_layout : Layout C04.Ex.m := by
  refine ⟨m_tree, ?_, ?_⟩
  · intro i hi
    rw [m_n] at hi
    obtain rfl | rfl | rfl | rfl : i = 0 ∨ i = 1 ∨ i = 2 ∨ i = 3 := by omega
    all_goals rfl
  · intro i hi
    rw [m_n] at hi
    obtain rfl | rfl | rfl | rfl | rfl : i = 0 ∨ i = 1 ∨ i = 2 ∨ i = 3 ∨ i = 4 := by omega
    all_goals decide

theorem m_inj : CustomInj C04.Ex.m := by
  intro i j hi1 hi hj1 hj hci hcj _
  rw [m_n] at hi hj
  obtain rfl | rfl | rfl | rfl : i = 1 ∨ i = 2 ∨ i = 3 ∨ i = 4 := by omega
  all_goals first | (exact absurd hci (by decide)) | skip
  obtain rfl | rfl | rfl | rfl : j = 1 ∨ j = 2 ∨ j = 3 ∨ j = 4 := by omega
  all_goals first | (exact absurd hcj (by decide)) | rfl

theorem m_customDof : ∀ i, 1 ≤ i → i < C04.Ex.m.nBodies → (C04.Ex.m.joint i).jt = .custom →
    (C04.Ex.m.joint i).dof = (C04.Ex.m.custom (C04.Ex.m.joint i).customIdx).dof := by
  intro i hi1 hi hc
  rw [m_n] at hi
  obtain rfl | rfl | rfl | rfl : i = 1 ∨ i = 2 ∨ i = 3 ∨ i = 4 := by omega
  all_goals first | (exact absurd hc (by decide)) | rfl

theorem m_kinHyp : KinHyp C04.Ex.m L06.Ex.w L06.Ex.st :=
  ⟨m_tree, m_hasJcalc, m_frames, m_unit, L06.Ex.m_ws, m_inj⟩

/-- the workspace after `UpdateKinematicsCustom (Q, QDot)` -/
def w1 : WS Rat :=
  updateKinematicsCustom C04.Ex.m L06.Ex.w (some L06.Ex.st) (some L06.Ex.qd) none
/-- the workspace after `UpdateKinematics (Q, QDot, QDDot)` -/
def w2 : WS Rat := updateKinematics C04.Ex.m L06.Ex.w L06.Ex.st L06.Ex.qd L06.Ex.qdd

theorem w1_jacHyp : JacHyp C04.Ex.m w1 L06.Ex.qd :=
  have h := kinWS_updateKinematicsCustom C04.Ex.m L06.Ex.w L06.Ex.st L06.Ex.qd m_kinHyp
  ⟨m_layout, colsOk_of_customCols h.2 m_customDof, h.1⟩

theorem w2_jacHyp : JacHyp C04.Ex.m w2 L06.Ex.qd :=
  have h := kinWS_updateKinematics C04.Ex.m L06.Ex.w L06.Ex.st L06.Ex.qd L06.Ex.qdd m_kinHyp
  ⟨m_layout, colsOk_of_customCols h.2 m_customDof, h.1⟩

theorem m_fixed : C04.Ex.m.isFixedBodyId fixedDisc = true := by decide

/-- an initial matrix with one non-zero entry, in column 5 (the first column of the custom joint 4,
    which is not on the path of body 1) -/
def Gbad : MatN Rat := fun r k => if r = 0 ∧ k = 5 then 1 else 0

/-- its off-path part (for the path of body 1) times `q̇` is not zero -/
theorem Gbad_err :
    mulVecSV (offPathPart C04.Ex.m w1 1 Gbad) C04.Ex.m.qdotSize L06.Ex.qd ≠ SV.zero := by
  decide +kernel

end Ex
end Rbdl.L05
