import RbdlProofs.Lemmas.LDynCapCrba
/-
  Capstone for `CompositeRigidBodyAlgorithm`, code side, main statement:
  `crba_entry_sum`   `H(r, c) = Σ_k V_r[k] · I_k V_c[k]`, `V_x[k]` the velocity of body `k` in the forward
                     pass with the unit generalized velocity `e_x` — for arbitrary trees and all joint
                     types (incl. custom joints), every `WSFixed` workspace.
-/
namespace Rbdl.LDynCap
open Lean.Grind Rbdl Rbdl.Spec Rbdl.L06 Rbdl.L01 Rbdl.Loops Rbdl.L01Cap Rbdl.L03
set_option linter.unusedSimpArgs false
set_option linter.unusedVariables false
set_option linter.unusedSectionVars false

section
variable {α : Type} [Field α] [DecidableEq α]

/-- the hypotheses of the algebraic core of C03 for the partial velocities of coordinate `c`
    (owned by joint `j`) and the composite inertias of `crba` -/
theorem crba_hyp {m : ModelS α} (hm : ModelOK m) (w : WS α) (hw : WSFixed m w) (st : QS α)
    (hst : StateOK m st) (H : MatN α) (c j : Nat) (j1 : 1 ≤ j) (j2 : j < m.nBodies)
    (ho : owns m (crba m w st H true).1 j c) :
    Core.Hyp m.lam (m.nBodies - 1) (crba m w st H true).1.X_lambda m.rbi
      (crba m w st H true).1.Ic (unitW m w st c).v
      (fun k => m.rbi k * (unitW m w st c).v k)
      (rneaFtot m { (crba m w st H true).1 with f := fun k => m.rbi k * (unitW m w st c).v k })
      j (Scol (crba m w st H true).1 m j (c - (m.joint j).qIndex)) := by
  have htree := hm.wf.lam_lt
  have htree' : ∀ c, 1 ≤ c → c ≤ m.nBodies - 1 → m.lam c < c :=
    fun c h1 h2 => htree c h1 (by omega)
  refine ⟨htree', ?_, j1, by omega, (unitW_closed hm w st c).v0, ?_, fun _ _ _ => rfl, ?_, ?_⟩
  · intro i h1 h2
    rw [(crba_fields hm.cinj w st H i h1 (by omega)).1]
    exact jcalcX_isRot m i st _ (hm.jc i h1 (by omega)) (hm.frame i h1 (by omega))
      (hst i h1 (by omega))
  · intro i h1 h2
    exact unitW_v_rec hm w hw st H c j j1 j2 ho i h1 (by omega)
  · intro i h1 h2
    exact rneaFtot_rec m _ htree i (by omega)
  · intro i h1 h2
    exact C03.crba_Ic_closed m w st H true htree' i h1 h2

theorem crba_disj {m : ModelS α} (hm : ModelOK m) (w : WS α) (hw : WSFixed m w) (st : QS α)
    (H : MatN α) : Disj m (crba m w st H true).1 := by
  have hdisj := owns_disjoint_of_WF m _ hm.wf (crba_scols_len hm w hw st H)
  intro i i' a b h1 h2 h1' h2' ha hb e
  refine hdisj i i' ((m.joint i).qIndex + a) h1 (by omega) h1' (by omega) ?_ ?_
  · exact ⟨by omega, by unfold nS at ha; omega⟩
  · exact ⟨by omega, by unfold nS at hb; omega⟩

/-- every entry of the matrix is a column of `S_i` against the accumulated "force" of the algebraic
    core (abstract arrays `DA`, `DF`, `Dff`) -/
theorem crba_entry_core {m : ModelS α} (hm : ModelOK m) (w : WS α) (hw : WSFixed m w) (st : QS α)
    (i j a b : Nat) (i1 : 1 ≤ i) (i2 : i < m.nBodies) (j1 : 1 ≤ j) (j2 : j < m.nBodies)
    (haS : a < nS (crba m w st (fun _ _ => 0) true).1 m i)
    (hbS : b < nS (crba m w st (fun _ _ => 0) true).1 m j)
    (DA DF Dff : Nat → SV α)
    (hyp : Core.Hyp m.lam (m.nBodies - 1) (crba m w st (fun _ _ => 0) true).1.X_lambda m.rbi
      (crba m w st (fun _ _ => 0) true).1.Ic DA DF Dff j
      (Scol (crba m w st (fun _ _ => 0) true).1 m j b)) :
    (crba m w st (fun _ _ => 0) true).2 ((m.joint i).qIndex + a) ((m.joint j).qIndex + b)
      = (Scol (crba m w st (fun _ _ => 0) true).1 m i a).dot (Dff i) := by
  have htree' : ∀ c, 1 ≤ c → c ≤ m.nBodies - 1 → m.lam c < c :=
    fun c h1 h2 => hm.wf.lam_lt c h1 (by omega)
  have hd := crba_disj hm w hw st (fun _ _ => 0)
  have hanc : ∀ i k, i ≤ m.nBodies - 1 → PathOK m.lam k i →
      1 ≤ ancK m.lam k i ∧ ancK m.lam k i ≤ m.nBodies - 1 := fun i k hi hp => by
    have := ancK_le m.lam _ htree' k i hi hp
    have := hp k (Nat.le_refl _)
    omega
  by_cases h1 : ∃ k, PathOK m.lam k i ∧ ancK m.lam k i = j
  · obtain ⟨k, hp, hk⟩ := h1
    have e := Core.below hyp i i1 (by omega) k hp hk
      (Scol (crba m w st (fun _ _ => 0) true).1 m i a)
    have h := (C03.crba_entries m w st (fun _ _ => 0) true htree' hd i i1 (by omega) k a b hp haS
      (by rw [hk]; exact hbS)).1
    rw [hk] at h
    rw [h]
    exact e.symm
  · by_cases h2 : ∃ k, PathOK m.lam k j ∧ ancK m.lam k j = i
    · obtain ⟨k, hp, hk⟩ := h2
      have e := Core.above hyp k hp
      rw [hk] at e
      have h := (C03.crba_entries m w st (fun _ _ => 0) true htree' hd j j1 (by omega) k b a hp hbS
        (by rw [hk]; exact haS)).2
      rw [hk] at h
      rw [h, e]
      exact sv_dot_comm _ _
    · have e := Core.unrelated hyp i i1 (by omega) (fun k hp hk => h1 ⟨k, hp, hk⟩)
        (fun k hp hk => h2 ⟨k, hp, hk⟩)
      rw [e, L01.sv_dot_zero]
      apply C03.offpath_zero
      intro i' h1' h2' hon
      obtain ⟨k', a', b', hp', ha', hb', hh⟩ := hon
      obtain ⟨hA1, hA2⟩ := hanc i' k' h2' hp'
      rcases hh with ⟨e1, e2⟩ | ⟨e1, e2⟩
      · have := hd i i' a a' i1 (by omega) h1' h2' haS ha' e1
        subst this
        have := hd j _ b b' j1 (by omega) hA1 hA2 hbS hb' e2
        exact h1 ⟨k', hp', this.symm⟩
      · have := hd j i' b a' j1 (by omega) h1' h2' hbS ha' e2
        subst this
        have := hd i _ a b' i1 (by omega) hA1 hA2 haS hb' e1
        exact h2 ⟨k', hp', this.symm⟩

theorem crba_entry_dff {m : ModelS α} (hm : ModelOK m) (w : WS α) (hw : WSFixed m w) (st : QS α)
    (hst : StateOK m st) (r c i j : Nat) (i1 : 1 ≤ i) (i2 : i < m.nBodies) (j1 : 1 ≤ j)
    (j2 : j < m.nBodies)
    (hoi : owns m (crba m w st (fun _ _ => 0) true).1 i r)
    (hoj : owns m (crba m w st (fun _ _ => 0) true).1 j c) :
    (crba m w st (fun _ _ => 0) true).2 r c
      = (Scol (crba m w st (fun _ _ => 0) true).1 m i (r - (m.joint i).qIndex)).dot
          (rneaFtot m { (crba m w st (fun _ _ => 0) true).1 with
            f := fun k => m.rbi k * (unitW m w st c).v k } i) := by
  have hyp := crba_hyp hm w hw st hst (fun _ _ => 0) c j j1 j2 hoj
  have haS : r - (m.joint i).qIndex < nS (crba m w st (fun _ _ => 0) true).1 m i := by
    have := hoi.2; have := hoi.1; unfold nS; omega
  have hbS : c - (m.joint j).qIndex < nS (crba m w st (fun _ _ => 0) true).1 m j := by
    have := hoj.2; have := hoj.1; unfold nS; omega
  have key := crba_entry_core hm w hw st i j _ _ i1 i2 j1 j2 haS hbS _ _ _ hyp
  have hr : (m.joint i).qIndex + (r - (m.joint i).qIndex) = r := by have := hoi.1; omega
  have hc : (m.joint j).qIndex + (c - (m.joint j).qIndex) = c := by have := hoj.1; omega
  rw [hr, hc] at key
  exact key

/-- **the matrix of `CompositeRigidBodyAlgorithm` as a sum over the bodies**:
    `H(r, c) = Σ_k V_r[k] · I_k V_c[k]` with the partial velocities `V_x[k]` of body `k` -/
theorem crba_entry_sum {m : ModelS α} (hm : ModelOK m) (w : WS α) (hw : WSFixed m w) (st : QS α)
    (hst : StateOK m st) (r c : Nat) (hr : r < m.dofCount) (hc : c < m.dofCount) :
    (crba m w st (fun _ _ => 0) true).2 r c
      = lsum 0 (fun k => ((unitW m w st r).v k).dot (m.rbi k * (unitW m w st c).v k))
          (List.range' 1 (m.nBodies - 1)) := by
  have htree := hm.wf.lam_lt
  have hlen := crba_scols_len hm w hw st (fun _ _ => 0)
  obtain ⟨i, i1, i2, hoi⟩ := owns_cover_of_WF m _ hm.wf hlen r hr
  obtain ⟨j, j1, j2, hoj⟩ := owns_cover_of_WF m _ hm.wf hlen c hc
  rw [crba_entry_dff hm w hw st hst r c i j i1 i2 j1 j2 hoi hoj,
    dot_rneaFtot m _ htree (m.nBodies - 1) (Nat.le_refl _) i i1 i2]
  refine lsum_congr _ _ _ (fun k hk => ?_)
  rw [List.mem_range'_1] at hk
  have := rec_downTo (crba m w st (fun _ _ => 0) true).1.X_lambda m.lam m.nBodies htree
    (unitW m w st r).v i
    (Scol (crba m w st (fun _ _ => 0) true).1 m i (r - (m.joint i).qIndex))
    (unitW_closed hm w st r).v0
    (fun k k1 k2 => unitW_v_rec hm w hw st (fun _ _ => 0) r i i1 i2 hoi k k1 k2)
    i1 i2 (m.nBodies - 1) k (by omega) (by omega)
  rw [← this]

end
end Rbdl.LDynCap
