import Rbdl.ConstrForces
import RbdlProofs.Props.C09
/-
  C08, last clause ("the per-body constraint wrenches reported afterwards are equal and opposite and map
  back to Gᵀλ"), part 1: the accumulation loops of `calcConstraintForces` as sums, the linearity of the
  pairing `dot6`, transport of a wrench to another point.
-/
set_option linter.unusedSectionVars false
namespace Rbdl.L08F
open Lean.Grind Rbdl Rbdl.L05 Rbdl.L09

section
variable {α : Type} [Field α] [DecidableEq α]

/-! ### accumulation loops -/

theorem sumTo_succ_front (n : Nat) (f : Nat → α) :
    sumTo (n + 1) f = f 0 + sumTo n (fun k => f (k + 1)) := by
  induction n with
  | zero => simp only [sumTo]; grind
  | succ n ih =>
    show sumTo (n + 1) f + f (n + 1) = f 0 + (sumTo n (fun k => f (k + 1)) + f (n + 1))
    rw [ih]; grind

/-- `acc = z; for k: acc += val T[k] (s + k)`, seen through an additive functional `φ` -/
theorem foldSum_from {β γ : Type} [Add γ] (φ : γ → α) (hadd : ∀ a b, φ (a + b) = φ a + φ b)
    (d : β) (val : β → Nat → γ) (T : List β) (s : Nat) (z : γ) :
    φ ((T.zip (List.range' s T.length)).foldl (fun acc q => acc + val q.1 q.2) z)
      = φ z + sumTo T.length (fun k => φ (val (T.getD k d) (s + k))) := by
  induction T generalizing s z with
  | nil => simp only [List.length_nil, List.zip_nil_left, List.foldl_nil, sumTo]; grind
  | cons t ts ih =>
    simp only [List.length_cons, List.range'_succ, List.zip_cons_cons, List.foldl_cons]
    rw [ih, hadd, sumTo_succ_front]
    have e : (fun k => φ (val ((t :: ts).getD (k + 1) d) (s + (k + 1))))
        = (fun k => φ (val (ts.getD k d) (s + 1 + k))) := by
      funext k
      rw [List.getD_cons_succ, show s + (k + 1) = s + 1 + k from by omega]
    rw [e, List.getD_cons_zero, Nat.add_zero]
    grind

theorem foldSum_proj {β γ : Type} [Add γ] (φ : γ → α) (hadd : ∀ a b, φ (a + b) = φ a + φ b)
    (d : β) (val : β → Nat → γ) (z : γ) (T : List β) :
    φ ((zipIdx T).foldl (fun acc q => acc + val q.1 q.2) z)
      = φ z + sumTo T.length (fun k => φ (val (T.getD k d) k)) := by
  unfold zipIdx
  rw [List.range_eq_range', foldSum_from φ hadd d val T 0 z]
  simp only [Nat.zero_add]

/-- the axis `T[k]` (zero outside) -/
def axisK (c : Constr α) (k : Nat) : SV α := c.T.getD k SV.zero

theorem axisK_eq (c : Constr α) (k : Nat) : axisK c k = axisAt c (c.row + k) := by
  unfold axisK axisAt
  rw [Nat.add_sub_cancel_left]

/-- components of `Σ_k λ_{row+k} n_k` -/
theorem contactForce_x (c : Constr α) (lam : VecN α) :
    (c.contactForce lam).x = sumTo c.T.length (fun k => lam (c.row + k) * (axisK c k).v.x) := by
  unfold Constr.contactForce
  rw [foldSum_proj (fun (v : V3 α) => v.x) (fun _ _ => rfl) SV.zero
    (fun (t : SV α) k => lam (c.row + k) * t.v) V3.zero c.T]
  simp only [V3.zero]
  have : ∀ k, (lam (c.row + k) * (c.T.getD k SV.zero).v).x = lam (c.row + k) * (axisK c k).v.x :=
    fun _ => rfl
  simp only [this]; grind
theorem contactForce_y (c : Constr α) (lam : VecN α) :
    (c.contactForce lam).y = sumTo c.T.length (fun k => lam (c.row + k) * (axisK c k).v.y) := by
  unfold Constr.contactForce
  rw [foldSum_proj (fun (v : V3 α) => v.y) (fun _ _ => rfl) SV.zero
    (fun (t : SV α) k => lam (c.row + k) * t.v) V3.zero c.T]
  simp only [V3.zero]
  have : ∀ k, (lam (c.row + k) * (c.T.getD k SV.zero).v).y = lam (c.row + k) * (axisK c k).v.y :=
    fun _ => rfl
  simp only [this]; grind
theorem contactForce_z (c : Constr α) (lam : VecN α) :
    (c.contactForce lam).z = sumTo c.T.length (fun k => lam (c.row + k) * (axisK c k).v.z) := by
  unfold Constr.contactForce
  rw [foldSum_proj (fun (v : V3 α) => v.z) (fun _ _ => rfl) SV.zero
    (fun (t : SV α) k => lam (c.row + k) * t.v) V3.zero c.T]
  simp only [V3.zero]
  have : ∀ k, (lam (c.row + k) * (c.T.getD k SV.zero).v).z = lam (c.row + k) * (axisK c k).v.z :=
    fun _ => rfl
  simp only [this]; grind

/-- pairing of a 6-vector with six numbers (`L09.dot6`) is additive and homogeneous in the vector -/
theorem dot6_add (a b : SV α) (f : Nat → α) : dot6 (a + b) f = dot6 a f + dot6 b f := by
  show dot6 (SV.add a b) f = _
  simp only [dot6, SV.add]
  show (a.w.add b.w).x * f 0 + (a.w.add b.w).y * f 1 + (a.w.add b.w).z * f 2
      + (a.v.add b.v).x * f 3 + (a.v.add b.v).y * f 4 + (a.v.add b.v).z * f 5 = _
  simp only [V3.add]; grind
theorem dot6_smul (k : α) (a : SV α) (f : Nat → α) : dot6 (k * a) f = k * dot6 a f := by
  show dot6 (SV.smul k a) f = _
  simp only [dot6, SV.smul]
  show (V3.smul k a.w).x * f 0 + (V3.smul k a.w).y * f 1 + (V3.smul k a.w).z * f 2
      + (V3.smul k a.v).x * f 3 + (V3.smul k a.v).y * f 4 + (V3.smul k a.v).z * f 5 = _
  simp only [V3.smul]; grind
theorem dot6_neg (a : SV α) (f : Nat → α) : dot6 (-a) f = -dot6 a f := by
  show dot6 (SV.neg a) f = _
  simp only [dot6, SV.neg]
  show (V3.neg a.w).x * f 0 + (V3.neg a.w).y * f 1 + (V3.neg a.w).z * f 2
      + (V3.neg a.v).x * f 3 + (V3.neg a.v).y * f 4 + (V3.neg a.v).z * f 5 = _
  simp only [V3.neg]; grind
theorem dot6_zero (f : Nat → α) : dot6 (SV.zero : SV α) f = 0 := by
  simp only [dot6, SV.zero, V3.zero]; grind

/-- `Σ_k λ_{row+k} loopAxis(A, T_k)` paired with six numbers -/
theorem loopForce_dot6 (c : Constr α) (A : XT α) (lam : VecN α) (f : Nat → α) :
    dot6 (c.loopForce A lam) f
      = sumTo c.T.length (fun k => lam (c.row + k) * dot6 (loopAxis A (axisK c k)) f) := by
  unfold Constr.loopForce
  rw [foldSum_proj (fun (v : SV α) => dot6 v f) (fun a b => dot6_add a b f) SV.zero
    (fun (t : SV α) k => lam (c.row + k) * loopAxis A t) SV.zero c.T, dot6_zero]
  have : ∀ k, dot6 (lam (c.row + k) * loopAxis A (c.T.getD k SV.zero)) f
      = lam (c.row + k) * dot6 (loopAxis A (axisK c k)) f := fun k => dot6_smul _ _ f
  simp only [this]; grind

/-! ### wrenches -/

/-- a reported wrench in root coordinates: `Eb` the world orientation of the reported body
    (`CalcBodyWorldOrientation`, base → body), `X` the reported frame -/
def toRoot (Eb : M3 α) (X : XT α) (f : SV α) : SV α :=
  ⟨Eb.tmulVec (X.E * f.w), Eb.tmulVec (X.E * f.v)⟩

/-- the wrench `(n, f)` given at the point `Q`, about the point `P` -/
def about (P Q : V3 α) (f : SV α) : SV α := ⟨f.w + (Q - P).cross f.v, f.v⟩

theorem tmulVec_mulVec (E : M3 α) (h : E.IsRot) (v : V3 α) : E.tmulVec (E * v) = v := by
  obtain ⟨n0,n1,n2,o01,o02,o12,c00,c01,c02,c10,c11,c12,c20,c21,c22⟩ := h.transpose
  simp only [M3.transpose] at *
  alg_ext

theorem mulVec_tmulVec (E : M3 α) (h : E.IsRot) (v : V3 α) : E * (E.tmulVec v) = v := by
  obtain ⟨n0,n1,n2,o01,o02,o12,c00,c01,c02,c10,c11,c12,c20,c21,c22⟩ := h
  alg_ext

theorem neg_sv_zero_v (f : V3 α) : (-(⟨V3.zero, f⟩ : SV α)) = ⟨V3.zero, -f⟩ := by
  alg_ext

end
end Rbdl.L08F
