import RbdlProofs.Lemmas.L01CapFixAlg
/-
  C01 capstone, Stage D: models with fixed bodies.

  The specification keeps every body added through a fixed joint as a node of its own (joint `.fixed`,
  rigidly attached to its parent node); the construction code merges it into the movable body it moves
  with (`Body::Join`) and keeps only the transform to that body.  `RefinesF m M off nodeOf`:
  * `nodeOf i`   the node of movable body `i`;  `nd.movableId` the movable body node `nd` moves with;
  * `off n`      the constant transform from the frame of that movable body to the frame of node `n`
                 (`1` for the node of a movable body, `SpatialTransform(E, r) * off (parent)` for a fixed
                 node — the code's `mFixedBodies[..].mParentTransform`);
  * the joint frame of a movable body attached to a fixed body is `SpatialTransform(E, r) * off (parent)`
    (the code's `X_T = joint_frame * parent_transform`);
  * `I[i]` is the sum of the spatial inertias `offᵀ I_n off` of all nodes that move with body `i`
    (what repeated `Body::Join` produces, C15 `join_toRBI`).
-/
namespace Rbdl.L01Cap
open Lean.Grind Rbdl Rbdl.Spec Rbdl.L06 Rbdl.L01 Rbdl.Loops
set_option linter.unusedSimpArgs false
set_option linter.unusedVariables false
set_option linter.unusedSectionVars false

section
variable {α : Type} [Field α] [DecidableEq α]

/-- the movable body node `n` moves with -/
def bodyOf (M : SModel α) (n : Nat) : Nat := (M.nodes.getD n nd0).movableId

/-- spatial inertia of node `n` in the frame of movable body `i` (zero if the node does not move
    with body `i` or carries no body) -/
def nodeRBI (M : SModel α) (off : Nat → XT α) (i n : Nat) : RBI α :=
  if (M.nodes.getD n nd0).movableId = i ∧ (M.nodes.getD n nd0).hasBody = true then
    (off n).applyTransposeRBI (RBI.ofMassComInertiaC (M.nodes.getD n nd0).mass
      (M.nodes.getD n nd0).com (M.nodes.getD n nd0).inertia)
  else RBI.zero

/-- node `n ≥ 1` of the specification against the model -/
structure NodeF (m : ModelS α) (M : SModel α) (off : Nat → XT α) (n : Nat) (nd : SNode α) :
    Prop where
  par_lt : nd.parent < n
  body_lt : nd.movableId < m.nBodies
  offrot : (off n).E.IsRot
  symm : nd.hasBody = true → nd.inertia.transpose = nd.inertia
  /- a node added through a fixed joint -/
  fjoint : nd.apiId ≠ nd.movableId → nd.joint = .fixed
  fpar : nd.apiId ≠ nd.movableId → bodyOf M nd.parent = nd.movableId
  foff : nd.apiId ≠ nd.movableId → off n = ⟨nd.E, nd.r⟩ * off nd.parent
  /- the node of a movable body -/
  mpos : nd.apiId = nd.movableId → 1 ≤ nd.movableId
  moff : nd.apiId = nd.movableId → off n = XT.id
  mpar : nd.apiId = nd.movableId → bodyOf M nd.parent = m.lam nd.movableId
  mframe : nd.apiId = nd.movableId → m.XT_ nd.movableId = ⟨nd.E, nd.r⟩ * off nd.parent
  mjoint : nd.apiId = nd.movableId → nd.joint = m.sjoint nd.movableId
  mqIdx : nd.apiId = nd.movableId → nd.qIdx = (m.joint nd.movableId).qIndex
  mwIdx : nd.apiId = nd.movableId → (m.joint nd.movableId).jt = .spherical →
    nd.wIdx = m.w3 nd.movableId

/-- `M` (with fixed bodies as separate nodes) describes the mechanism of `m` -/
structure RefinesF (m : ModelS α) (M : SModel α) (off : Nat → XT α) (nodeOf : Nat → Nat) :
    Prop where
  gravity : M.gravity = m.gravity
  nv : M.nv = m.dofCount
  base : ∃ nd, M.nodes[0]? = some nd ∧ nd.hasBody = false ∧ nd.apiId = 0 ∧ nd.movableId = 0 ∧
    nd.joint = .fixed
  off0 : off 0 = XT.id
  nodeOf0 : nodeOf 0 = 0
  node : ∀ n nd, 1 ≤ n → M.nodes[n]? = some nd → NodeF m M off n nd
  nodeOf_lt : ∀ i, 1 ≤ i → i < m.nBodies → 1 ≤ nodeOf i ∧ nodeOf i < M.nodes.length
  nodeOf_mov : ∀ i nd, 1 ≤ i → i < m.nBodies → M.nodes[nodeOf i]? = some nd →
    nd.apiId = nd.movableId ∧ nd.movableId = i
  nodeOf_inj : ∀ n nd, 1 ≤ n → M.nodes[n]? = some nd → nd.apiId = nd.movableId →
    nodeOf nd.movableId = n
  rbi : ∀ i, 1 ≤ i → i < m.nBodies →
    m.rbi i = lsum RBI.zero (nodeRBI M off i) (List.range M.nodes.length)
  virt : ∀ i, 1 ≤ i → i < m.nBodies → (m.body i).isVirtual = true → ∀ x : SV α,
    m.rbi i * x = SV.zero

/-! ### coordinate jets -/

theorem others_untouched' {m : ModelS α} (hm : ModelOK m) (i j : Nat) (h1 : 1 ≤ i)
    (h2 : i < m.nBodies) (j1 : 1 ≤ j) (j2 : j < m.nBodies) (hij : i ≠ j) (nd' : SNode α)
    (hq : isQuatNode nd' = true → (m.joint j).jt = .spherical)
    (hk : nd'.qIdx = (m.joint j).qIndex)
    (hw : (m.joint j).jt = .spherical → nd'.wIdx = m.w3 j) (n : Nat)
    (hr : readsQ (m.sjoint i) (m.joint i).qIndex (m.w3 i) n) : ¬ touches nd' n := by
  intro ht
  obtain ⟨hq', hn⟩ := ht
  have hs : (m.joint j).jt = .spherical := hq hq'
  rw [hk, hw hs] at hn
  have hdj := hm.dof_sph j j1 j2 hs
  have hrj := C14.coord_ranges m hm.wf j j2
  have hri := C14.coord_ranges m hm.wf i h2
  have hwj := hrj.2 hs
  have hR := readsQ_range m i (hm.decl i h1 h2) (hm.wf.custom_ok i h2) n hr
  rcases Nat.lt_or_gt_of_ne hij with hlt | hlt
  · have hmono := L01.qIndex_mono m hm.wf i j hlt j2
    rcases hR with hR | ⟨hsi, hR⟩
    · omega
    · have := (hri.2 hsi).2.2 j hlt j2 hs
      have := (hri.2 hsi).1
      omega
  · have hmono := L01.qIndex_mono m hm.wf j i hlt h2
    rcases hR with hR | ⟨hsi, hR⟩
    · omega
    · have := hwj.2.2 i hlt h2 hsi
      have := (hri.2 hsi).1
      omega

theorem isQuat_fixed (nd : SNode α) (h : nd.joint = .fixed) : isQuatNode nd = false := by
  unfold isQuatNode; rw [h]

/-- the joint pose of the node of movable body `i` on the coordinate jets of the whole model is the
    pose jet of joint `i` -/
theorem jointPose_eqF {m : ModelS α} {M : SModel α} {off : Nat → XT α} {nodeOf : Nat → Nat}
    (hm : ModelOK m) (hR : RefinesF m M off nodeOf) (st : QS α) (qd qdd : VecN α) (n : Nat)
    (n1 : 1 ≤ n) (nd : SNode α) (hnd : M.nodes[n]? = some nd) (hmov : nd.apiId = nd.movableId)
    (h2 : nd.movableId < m.nBodies) :
    jointPose D2.const nd.joint nd.qIdx nd.wIdx (coordJets M (stateOf st qd qdd))
      = jointPoseJet m nd.movableId st qd qdd := by
  have hN := hR.node n nd n1 hnd
  have h1 := hN.mpos hmov
  unfold jointPoseJet
  rw [hN.mjoint hmov, hN.mqIdx hmov]
  obtain ⟨i, hi⟩ : ∃ i, nd.movableId = i := ⟨_, rfl⟩
  have hNj : nd.joint = m.sjoint i := hi ▸ hN.mjoint hmov
  have hNq : nd.qIdx = (m.joint i).qIndex := hi ▸ hN.mqIdx hmov
  have hNw : (m.joint i).jt = .spherical → nd.wIdx = m.w3 i := hi ▸ hN.mwIdx hmov
  rw [hi] at h1 h2 ⊢
  have hwk : jointPose D2.const (m.sjoint i) (m.joint i).qIndex nd.wIdx
        (coordJets M (stateOf st qd qdd))
      = jointPose D2.const (m.sjoint i) (m.joint i).qIndex (m.w3 i)
        (coordJets M (stateOf st qd qdd)) := by
    by_cases hs : (m.joint i).jt = .spherical
    · rw [hNw hs]
    · exact jointPose_wk _ _ _ _ _ _ (by
        have := fun h => hs ((sjoint_spherical_iff m i).1 h)
        revert this
        cases m.sjoint i <;> simp)
  rw [hwk]
  have hlen : n < M.nodes.length := by
    rcases Nat.lt_or_ge n M.nodes.length with h | h
    · exact h
    · rw [List.getElem?_eq_none h] at hnd; cases hnd
  have hsplit : M.nodes = M.nodes.take n ++ nd :: M.nodes.drop (n + 1) := by
    have hget : M.nodes[n] = nd := by
      rw [List.getElem?_eq_getElem hlen] at hnd
      exact Option.some.inj hnd
    rw [← hget]
    exact (List.take_append_drop n M.nodes).symm.trans (by rw [List.drop_eq_getElem_cons hlen])
  obtain ⟨b, hb, _, _, _, hbj⟩ := hR.base
  have hother : ∀ nd' ∈ M.nodes.take n ++ M.nodes.drop (n + 1), ∀ k,
      readsQ (m.sjoint i) (m.joint i).qIndex (m.w3 i) k → ¬ touches nd' k := by
    intro nd' hmem k hr
    rw [List.mem_append] at hmem
    have key : ∀ n', n' ≠ n → M.nodes[n']? = some nd' → ¬ touches nd' k := by
      intro n' hne hn'
      by_cases hn0 : n' = 0
      · subst hn0
        rw [hb] at hn'
        have : b = nd' := Option.some.inj hn'
        subst this
        intro ht
        have := ht.1
        rw [isQuat_fixed b hbj] at this
        cases this
      · have hN' := hR.node n' nd' (by omega) hn'
        by_cases hmov' : nd'.apiId = nd'.movableId
        · have hj1 := hN'.mpos hmov'
          have hne' : i ≠ nd'.movableId := by
            intro e
            have e1 := hR.nodeOf_inj n' nd' (by omega) hn' hmov'
            have e2 := hR.nodeOf_inj n nd n1 hnd hmov
            rw [hi] at e2
            rw [← e, e2] at e1
            exact hne e1.symm
          refine others_untouched' hm i nd'.movableId h1 h2 hj1 hN'.body_lt hne' nd' ?_
            (hN'.mqIdx hmov') (hN'.mwIdx hmov') k hr
          intro hq
          have := (isQuatNode_iff nd').1 hq
          rw [hN'.mjoint hmov'] at this
          exact (sjoint_spherical_iff m _).1 this
        · intro ht
          have := ht.1
          rw [isQuat_fixed nd' (hN'.fjoint hmov')] at this
          cases this
    rcases hmem with hmem | hmem
    · obtain ⟨j, hj, hjv⟩ := List.getElem_of_mem hmem
      rw [List.length_take] at hj
      have hjv' : M.nodes[j]? = some nd' := by
        rw [List.getElem_take] at hjv
        rw [List.getElem?_eq_getElem (by omega), hjv]
      exact key j (by omega) hjv'
    · obtain ⟨j, hj, hjv⟩ := List.getElem_of_mem hmem
      rw [List.length_drop] at hj
      have hjv' : M.nodes[n + 1 + j]? = some nd' := by
        rw [List.getElem_drop] at hjv
        rw [List.getElem?_eq_getElem (by omega), hjv]
      exact key (n + 1 + j) (by omega) hjv'
  have hstep : ∀ cs, jetStep (stateOf st qd qdd) cs nd
      = jetStep (stateOf st qd qdd) cs (nodeOfJoint m i) := by
    intro cs
    have e1 : isQuatNode nd = true ↔ (m.joint i).jt = .spherical := by
      rw [isQuatNode_iff, hNj, sjoint_spherical_iff]
    refine jetStep_congr_node _ _ _ _ ?_ hNq ?_
    · by_cases hs : (m.joint i).jt = .spherical
      · rw [e1.2 hs, isQuatNode_of_eq m i hs]
      · rw [isQuatNode_of_ne m i hs]
        cases hq : isQuatNode nd
        · rfl
        · exact absurd (e1.1 hq) hs
    · intro hq
      exact hNw (e1.1 hq)
  refine jointPose_congr _ _ _ _ _ _ ?_ ?_ ?_
  · rw [coordJets_eq_foldl, foldJets_c, jointCoordJets_eq, jetStep_c]
  · rw [coordJets_eq_foldl, foldJets_s, jointCoordJets_eq, jetStep_s]
  · intro k hr
    rw [coordJets_eq_foldl, jointCoordJets_eq, ← hstep]
    by_cases ht : touches nd k
    · rw [hsplit]
      exact foldJets_q_last _ _ _ nd _ _ k ht
        (fun nd' h' => hother nd' (List.mem_append_right _ h') k hr)
    · rw [foldJets_q_untouched _ _ _ k, jetStep_q_untouched _ _ _ k ht]
      intro nd' h'
      rw [hsplit, List.mem_append, List.mem_cons] at h'
      rcases h' with h' | h' | h'
      · exact hother nd' (List.mem_append_left _ h') k hr
      · rw [h']; exact ht
      · exact hother nd' (List.mem_append_right _ h') k hr

/-! ### world poses -/

theorem getD_of_some {β : Type} {l : List β} {i : Nat} {x d : β} (h : l[i]? = some x) :
    l.getD i d = x := by rw [List.getD_eq_getElem?_getD, h]; rfl

/-- every node sits at a constant offset from the node of the movable body it moves with -/
theorem specPose_off {m : ModelS α} {M : SModel α} {off : Nat → XT α} {nodeOf : Nat → Nat}
    (hR : RefinesF m M off nodeOf) (S : State α) :
    ∀ n nd, M.nodes[n]? = some nd →
      specPose M S n = (specPose M S (nodeOf nd.movableId)).comp (constPose (off n)) := by
  have hne : M.nodes ≠ [] := by
    obtain ⟨b, hb, _⟩ := hR.base
    intro h; rw [h] at hb; cases hb
  obtain ⟨_, _, hrec⟩ := fkTable_spec D2.const M (coordJets M S) hne
  intro n
  induction n using Nat.strongRecOn with
  | _ n ih =>
    intro nd hnd
    by_cases hn0 : n = 0
    · subst hn0
      obtain ⟨b, hb, _, _, hbm, _⟩ := hR.base
      rw [hb] at hnd
      have : b = nd := Option.some.inj hnd
      subst this
      rw [hbm, hR.nodeOf0, hR.off0, constPose_id, pose_comp_id]
    · have n1 : 1 ≤ n := by omega
      have hN := hR.node n nd n1 hnd
      by_cases hmov : nd.apiId = nd.movableId
      · rw [hR.nodeOf_inj n nd n1 hnd hmov, hN.moff hmov, constPose_id, pose_comp_id]
      · -- fixed node: go through the parent
        have hpl : nd.parent < M.nodes.length := by
          have : n < M.nodes.length := by
            rcases Nat.lt_or_ge n M.nodes.length with h | h
            · exact h
            · rw [List.getElem?_eq_none h] at hnd; cases hnd
          have := hN.par_lt
          omega
        have hpn : M.nodes[nd.parent]? = some M.nodes[nd.parent] := List.getElem?_eq_getElem hpl
        have hpb : (M.nodes[nd.parent]).movableId = nd.movableId := by
          have := hN.fpar hmov
          unfold bodyOf at this
          rw [getD_of_some hpn] at this
          exact this
        have hrel : relPose D2.const (coordJets M S) nd = constPose ⟨nd.E, nd.r⟩ := by
          unfold relPose
          rw [hN.fjoint hmov]
          exact pose_comp_id _
        unfold specPose at ih ⊢
        rw [hrec n nd n1 hnd hN.par_lt, ih nd.parent hN.par_lt _ hpn, hpb, hrel, pose_comp_assoc,
          hN.foff hmov, constPose_mul]

/-- the world pose jets of the movable bodies (read off the specification table) satisfy the
    forward-kinematics recursion of the model -/
theorem specPoseF_rec {m : ModelS α} {M : SModel α} {off : Nat → XT α} {nodeOf : Nat → Nat}
    (hm : ModelOK m) (hR : RefinesF m M off nodeOf) (st : QS α) (qd qdd : VecN α) :
    specPose M (stateOf st qd qdd) (nodeOf 0) = Pose.id ∧
    ∀ i, 1 ≤ i → i < m.nBodies →
      specPose M (stateOf st qd qdd) (nodeOf i)
        = (specPose M (stateOf st qd qdd) (nodeOf (m.lam i))).comp
            ((framePoseJet m i).comp (jointPoseJet m i st qd qdd)) := by
  have hne : M.nodes ≠ [] := by
    obtain ⟨b, hb, _⟩ := hR.base
    intro h; rw [h] at hb; cases hb
  obtain ⟨_, h0, hrec⟩ := fkTable_spec D2.const M (coordJets M (stateOf st qd qdd)) hne
  refine ⟨by rw [hR.nodeOf0]; exact h0, fun i i1 i2 => ?_⟩
  obtain ⟨n1, nlt⟩ := hR.nodeOf_lt i i1 i2
  have hnd : M.nodes[nodeOf i]? = some M.nodes[nodeOf i] := List.getElem?_eq_getElem nlt
  obtain ⟨hmov, hbi⟩ := hR.nodeOf_mov i _ i1 i2 hnd
  have hN := hR.node (nodeOf i) _ n1 hnd
  have hpl : (M.nodes[nodeOf i]).parent < M.nodes.length := by have := hN.par_lt; omega
  have hpn : M.nodes[(M.nodes[nodeOf i]).parent]? = some M.nodes[(M.nodes[nodeOf i]).parent] :=
    List.getElem?_eq_getElem hpl
  have hpb : (M.nodes[(M.nodes[nodeOf i]).parent]).movableId = m.lam i := by
    have := hN.mpar hmov
    unfold bodyOf at this
    rw [getD_of_some hpn, hbi] at this
    exact this
  have hjp := jointPose_eqF hm hR st qd qdd (nodeOf i) n1 _ hnd hmov (by rw [hbi]; exact i2)
  rw [hbi] at hjp
  have hfr : framePoseJet m i
      = (constPose (off (M.nodes[nodeOf i]).parent)).comp
          (constPose ⟨(M.nodes[nodeOf i]).E, (M.nodes[nodeOf i]).r⟩) := by
    have := hN.mframe hmov
    rw [hbi] at this
    show constPose (m.XT_ i) = _
    rw [this, constPose_mul]
  have hoff := specPose_off hR (stateOf st qd qdd) _ _ hpn
  rw [hpb] at hoff
  have hr := hrec (nodeOf i) _ n1 hnd hN.par_lt
  unfold specPose at hoff ⊢
  rw [hr, hoff]
  unfold relPose
  rw [hjp, hfr, pose_comp_assoc, pose_comp_assoc]
  rfl

end
end Rbdl.L01Cap
