import RbdlProofs.Lemmas.L17Body
import RbdlProofs.Lemmas.L17Asm
import RbdlProofs.Lemmas.L17Vel
import RbdlProofs.Lemmas.L17Ang
import Rbdl.LinAlg
/-
  C17: concrete instances over `Rat` for the satisfiability examples and the witnesses.

  `m1`: one body on a revolute-Z joint.  `m2`: one body on a spherical joint.  `m3`: a revolute-Z
  joint followed by a prismatic joint along the (rotating) x axis.
  All facts below are closed computations, checked by the kernel (`decide +kernel`).
-/
namespace Rbdl.L17.Ex
open Lean.Grind Rbdl Rbdl.Iter Rbdl.L17

def b : Body Rat := ⟨1, ⟨0, 0, 0⟩, M3.one, false⟩

def m1 : ModelS Rat :=
  { (ModelS.init : ModelS Rat) with
    lambda := [0, 0]
    joints := [Joint.root, ⟨.revoluteZ, [sv6 0 0 1 0 0 0], 1, 0, noCustom⟩]
    xT := [XT.id, XT.id], w3Index := [0, 0], bodies := [b, b]
    dofCount := 1, qSize := 1, qdotSize := 1 }

/-- a workspace as the construction code leaves it as far as the kinematics read it: `X_base[0] = 1`,
    the fixed motion subspaces of the single-DoF joints -/
def w1 : WS Rat := { (default : WS Rat) with X_base := fun _ => XT.id, S := fun _ => sv6 0 0 1 0 0 0 }

/-- `(cos, sin)` exact at the angle 0, the only one the examples evaluate it at -/
def trig0 : Rat → Rat × Rat := fun x => (1 - x * x / 2, x)

/-- solver for diagonal systems (exact for the diagonal matrices of the examples) -/
def diagSolve : Solver Rat := fun n A b => (List.range n).map (fun i => b i / A i i)
/-- a solver that returns nothing (read as the zero vector): the soundness theorems do not care -/
def noSolve : Solver Rat := fun _ _ _ => []
/-- a solver that always answers `(1, …, 1)` -/
def onesSolve : Solver Rat := fun n _ _ => List.replicate n 1

def Q0 : VecN Rat := fun _ => 0

/-- target on the extension of the stretched arm: unreachable, and `Jᵀ e = 0` at `q = 0` -/
def tgFar : List (PointTarget Rat) := [⟨1, ⟨1, 0, 0⟩, ⟨2, 0, 0⟩⟩]
/-- target = current position -/
def tgHere : List (PointTarget Rat) := [⟨1, ⟨1, 0, 0⟩, ⟨1, 0, 0⟩⟩]
/-- target to the side: the first step is `0.9999` rad, far from convergence -/
def tgSide : List (PointTarget Rat) := [⟨1, ⟨1, 0, 0⟩, ⟨1, 1, 0⟩⟩]

theorem eta3 {σ : Type} (x : Bool × Nat × σ) (b : Bool) (h : x.1 = b) : x = (b, x.2.1, x.2.2) := by
  cases x with | mk a r => cases r; simp_all

/-! #### point-target IK -/

def ikFar := inverseKinematics diagSolve trig0 m1 w1 Q0 tgFar (1/1000) (1/100) 5
def ikHere := inverseKinematics diagSolve trig0 m1 w1 Q0 tgHere (1/1000) (1/100) 5
def ikSide := inverseKinematics onesSolve trig0 m1 w1 Q0 tgSide (1/1000) (1/100) 5
/-- a solver that returns the zero vector makes the step test pass at once -/
def ikSideZero := inverseKinematics noSolve trig0 m1 w1 Q0 tgSide (1/1000) (1/100) 5
def ikSideLoose := inverseKinematics onesSolve trig0 m1 w1 Q0 tgSide 2 (1/100) 5

/-- **witness**: success is reported in pass 0 although the residual at the returned configuration is
    `1` (squared: `1`), a thousand times the tolerance — the step `Jᵀ (JJᵀ+λ²I)⁻¹ e` is exactly 0 -/
theorem ikFar_witness : ikFar.1 = true ∧ ikFar.2.1 = 0 ∧ ikFar.2.2.Q 0 = 0 ∧
    ikResidual2 trig0 m1 w1 tgFar ikFar.2.2.Q = 1 ∧ ¬ normLt (1 : Rat) (1/1000) := by decide +kernel

theorem ikHere_ok : ikHere.1 = true ∧ ikHere.2.1 = 0 := by decide +kernel
theorem ikSide_fail : ikSide.1 = false ∧ ikSide.2.1 = 5 := by decide +kernel
theorem ikSideLoose_ok : ikSideLoose.1 = true := by decide +kernel
theorem ikSideZero_ok : ikSideZero.1 = true ∧ ikResidual2 trig0 m1 w1 tgSide ikSideZero.2.2.Q = 1 := by decide +kernel

/-! #### constraint-set IK -/

/-- `sqrt` exact at 0 and 1, `atan2` and `π` irrelevant for the examples -/
def transc0 : Transc Rat := ⟨fun x => if x = 0 then 0 else 1, fun _ _ => 0, 3⟩

def setFar : IKSet Rat := (IKSet.empty (1/1000000000) (1/1000) (1/1000) 5).add .position 1 ⟨1,0,0⟩ ⟨2,0,0⟩ M3.zero 1
def setHere : IKSet Rat := (IKSet.empty (1/1000000000) (1/1000) (1/1000) 5).add .position 1 ⟨1,0,0⟩ ⟨1,0,0⟩ M3.zero 1
def setSide : IKSet Rat := (IKSet.empty (1/1000000000) (1/1000) (1/1000) 5).add .position 1 ⟨1,0,0⟩ ⟨1,1,0⟩ M3.zero 1
/-- orientation target: the body frame turned by half a turn about z -/
def halfTurn : M3 Rat := ⟨-1, 0, 0, 0, -1, 0, 0, 0, 1⟩
def setTurn : IKSet Rat := (IKSet.empty (1/1000000000) (1/1000) (1/1000) 5).add .orientation 1 V3.zero V3.zero halfTurn 1

def csFar := inverseKinematicsCS diagSolve transc0 trig0 m1 w1 Q0 setFar 0 0
def csHere := inverseKinematicsCS diagSolve transc0 trig0 m1 w1 Q0 setHere 0 0
def csSide := inverseKinematicsCS onesSolve transc0 trig0 m1 w1 Q0 setSide 0 0
def csTurn := inverseKinematicsCS diagSolve transc0 trig0 m1 w1 Q0 setTurn 0 0

/-- **witness**: success by the step test with `error_norm² = 1` reported (honestly) -/
theorem csFar_witness : csFar.1 = true ∧ csFar.2.1 = 0 ∧ csFar.2.2.errorNorm2 = 1 ∧
    csFar.2.2.deltaQNorm2 = 0 ∧ ikcsResidual2 transc0 trig0 m1 w1 setFar csFar.2.2.Q = 1 := by
  decide +kernel
theorem csHere_ok : csHere.1 = true ∧ csHere.2.1 = 0 ∧ csHere.2.2.errorNorm2 = 0 := by decide +kernel
theorem csSide_fail : csSide.1 = false ∧ csSide.2.1 = 5 := by decide +kernel

/-- **half turn, repaired routine**: the orientation differs from the target by a rotation of π about z;
    `CalcAngularVelocityfromMatrix` returns `π e_z` (here `π := 3`), so the first pass sees
    `error_norm² = π² = 9` and the configuration is not reported as solved in pass 0 -/
def csTurn1 := inverseKinematicsCS diagSolve transc0 trig0 m1 w1 Q0 { setTurn with maxSteps := 1 } 0 0
theorem csTurn_facts : angularVelocityFromMatrix transc0 halfTurn = ⟨0, 0, 3⟩ ∧
    ikcsResidual2 transc0 trig0 m1 w1 setTurn Q0 = 9 ∧ csTurn1.2.2.errorNorm2 = 9 ∧
    ¬ (csTurn1.1 = true ∧ csTurn1.2.2.Q 0 = 0) ∧
    (calcBodyWorldOrientation m1 w1 (mkQS trig0 Q0) 1 true).2 = M3.one ∧
    (M3.one : M3 Rat) ≠ halfTurn := by decide +kernel

/-- a general rational unit axis and a `sqrt` that is exact on the squares of its components -/
def axis221 : V3 Rat := ⟨2/3, 1/3, -2/3⟩
def transc1 : Transc Rat := ⟨fun x => if x = 4/9 then 2/3 else if x = 1/9 then 1/3 else 0, fun _ _ => 0, 3⟩

theorem halfTurn_isRot : halfTurn.IsRot := by constructor <;> decide +kernel
theorem halfTurn_eq : halfTurn = halfTurnOf (⟨0, 0, 1⟩ : V3 Rat) := by decide +kernel

/-! #### assembly -/

def m2 : ModelS Rat :=
  { (ModelS.init : ModelS Rat) with
    lambda := [0, 0]
    joints := [Joint.root, ⟨.spherical, [sv6 0 0 1 0 0 0, sv6 0 1 0 0 0 0, sv6 1 0 0 0 0 0], 3, 0, noCustom⟩]
    xT := [XT.id, XT.id], w3Index := [0, 3], bodies := [b, b]
    dofCount := 3, qSize := 4, qdotSize := 3 }

def Qquat : List Rat := [0, 0, 3/5, 4/5]
def one1 : Rat → Rat := fun _ => 1
def wts3 : VecN Rat := fun _ => 1

/-- no constraints, tolerance 0: neither test can pass, the run makes its one pass and fails -/
def asmFail := calcAssemblyQ noSolve one1 trig0 m2 w1 Qquat CSet.empty wts3 0 1
/-- no constraints, positive tolerance: the initial test passes -/
def asmOk := calcAssemblyQ noSolve one1 trig0 m2 w1 Qquat CSet.empty wts3 1 1

theorem asmFail_eq : asmFail.1 = false ∧ asmFail.2.1 = 1 ∧ asmFail.2.2.Q = Qquat := by decide +kernel
theorem asmOk_eq : asmOk.1 = true ∧ asmOk.2.1 = 0 := by decide +kernel

theorem m2_slots : slots m2 1 = [0, 1, 2, 3] ∧ slots m2 0 = [] := by decide +kernel

/-! #### velocity assembly -/

def m3 : ModelS Rat :=
  { (ModelS.init : ModelS Rat) with
    lambda := [0, 0, 1]
    joints := [Joint.root, ⟨.revoluteZ, [sv6 0 0 1 0 0 0], 1, 0, noCustom⟩,
               ⟨.prismatic, [sv6 0 0 0 1 0 0], 1, 1, noCustom⟩]
    xT := [XT.id, XT.id, XT.id], w3Index := [0, 0, 0], bodies := [b, b, b]
    dofCount := 2, qSize := 2, qdotSize := 2 }

def w3 : WS Rat :=
  { (default : WS Rat) with X_base := fun _ => XT.id
                            S := fun i => if i = 2 then sv6 0 0 0 1 0 0 else sv6 0 0 1 0 0 0 }

/-- exact solver: Gauss–Jordan over `Rat` -/
def exactSolve : Solver Rat := fun n A b =>
  (lmSolve ((List.range n).map (fun i => (List.range n).map (fun j => A i j))) ((List.range n).map b)).getD []

/-- the point `(1,0,0)` of body 2 may not move in the y direction -/
def cs3 : CSet Rat := (CSet.empty : CSet Rat).addContact 2 ⟨1, 0, 0⟩ ⟨0, 1, 0⟩ 0
def wts2 : VecN Rat := fun i => if i = 0 then 2 else 3
def qd0 : VecN Rat := fun i => if i = 0 then 1 else 2

def qdotRun := calcAssemblyQDot exactSolve m3 w3 (mkQS trig0 Q0) qd0 cs3 wts2

/-- `G = (1 0)`, the solver's answer `(0, 2, 2)` solves the system, the routine returns `(0, 2)` -/
theorem qdotRun_facts : cs3.size = 1 ∧ qdotRun.2.1 0 0 = 1 ∧ qdotRun.2.1 0 1 = 0 ∧
    qdotRun.2.2.2 0 = 0 ∧ qdotRun.2.2.2 1 = 2 ∧
    (∀ r, r < 2 + 1 → sumTo (2 + 1) (fun c => kktMatrix 2 wts2 qdotRun.2.1 r c * qdotRun.2.2.1 c)
        = qdotRhs 2 wts2 qd0 r) ∧
    (∀ i, i < 2 → (0 : Rat) ≤ wts2 i) := by decide +kernel

end Rbdl.L17.Ex
