import RbdlProofs.Lemmas.L07All
import RbdlProofs.Lemmas.L07Kin
import RbdlProofs.Lemmas.L07Ex2
/-
  Concrete instance for the whole-model statement of C07: base body, Euler-ZYX joint (resp. the
  emulated 3-DoF joint about z, y, x), and a further body hanging on it.
-/
namespace Rbdl.L07.Ex3
open Lean.Grind Rbdl Rbdl.Loops Rbdl.L01 Rbdl.ModelS Rbdl.L07.Ex
set_option linter.unusedVariables false

def jz : Joint Rat := Joint.revolute ⟨0, 0, 1⟩
def mE3 : ModelS Rat := ModelS.init.run
  [.addBody 0 frame jy body "base", .addBody 1 frame (jEuler .eulerZYX) body "b",
   .addBody 2 C16.Ex.Y jz bodyF "d"]
def mC3 : ModelS Rat := ModelS.init.run
  [.addBody 0 frame jy body "base", .addBody 1 frame (jChain .eulerZYX) body "b",
   .addBody 4 C16.Ex.Y jz bodyF "d"]
def φ : Nat → Nat := fun i => if i = 2 then 4 else if i = 3 then 5 else i
def ψ : Nat → Nat := fun j => if j = 4 then 2 else if j = 5 then 3 else j

theorem mE3_wf : mE3.WF := C14.wf_run _ (by decide +kernel)
theorem mC3_wf : mC3.WF := C14.wf_run _ (by decide +kernel)
theorem mE3_n : mE3.nBodies = 4 := by decide +kernel
theorem mC3_n : mC3.nBodies = 6 := by decide +kernel
theorem mE3_ci : CustomInj mE3 := no_custom _ (by decide +kernel)
theorem mC3_ci : CustomInj mC3 := no_custom _ (by decide +kernel)
theorem chain3 : EulerChain mE3 2 mC3 2 3 4 := by constructor <;> decide +kernel

macro "l07_cases3 " i:ident h2:ident : tactic =>
  `(tactic| (rw [mE3_n] at $h2:ident
             have hcases : $i = 1 ∨ $i = 2 ∨ $i = 3 := by omega
             rcases hcases with hc | hc | hc <;> subst hc))

theorem embed : ChainEmbed mE3 mC3 φ ψ 2 2 3 4 := by
  constructor
  · rw [mE3_n, mC3_n]
  · rfl
  · rw [mE3_n]; decide
  · rw [mC3_n]; decide
  · rw [mC3_n]; decide
  · rfl
  · intro i h1 h2; l07_cases3 i h2 <;> (rw [mC3_n]; decide)
  · intro i h2; rw [mE3_n] at h2
    obtain rfl | rfl | rfl | rfl : i = 0 ∨ i = 1 ∨ i = 2 ∨ i = 3 := by omega
    all_goals rfl
  · intro j j1 j2 n1 n2; rw [mC3_n] at j2; rw [mE3_n]
    obtain rfl | rfl | rfl : j = 1 ∨ j = 4 ∨ j = 5 := by omega
    all_goals decide
  · exact mE3_wf.lam_lt
  · exact mC3_wf.lam_lt
  · intro i h1 h2 hE; l07_cases3 i h2 <;> first | exact absurd rfl hE | decide +kernel
  · decide +kernel
  · decide +kernel
  · decide +kernel
  · intro i h1 h2; l07_cases3 i h2 <;> decide +kernel
  · intro i h1 h2; l07_cases3 i h2 <;> decide +kernel
  · intro i h1 h2 hE; l07_cases3 i h2 <;> first | exact absurd rfl hE | decide +kernel
  · intro i h1 h2; l07_cases3 i h2 <;> decide +kernel
  · exact Or.inl (by decide +kernel)
  · exact Or.inl (by decide +kernel)
  · decide +kernel

theorem mE3_axes : L13.AxesOK mE3 := axesOK_of_joints _ (by decide +kernel) (by decide +kernel)
theorem mC3_axes : L13.AxesOK mC3 := axesOK_of_joints _ (by decide +kernel) (by decide +kernel)
def wE3 : WS Rat := poison mE3 (initWS mE3) 4
def wC3 : WS Rat := poison mC3 (initWS mC3) 6
theorem wE3_fixed : ∀ i, 1 ≤ i → i < mE3.nBodies → FixedW mE3 wE3 i :=
  (L13.wsfixed_poison _ _ 4 (L13.wsfixed_initWS _ mE3_axes)).2
theorem wC3_fixed : ∀ i, 1 ≤ i → i < mC3.nBodies → FixedW mC3 wC3 i :=
  (L13.wsfixed_poison _ _ 6 (L13.wsfixed_initWS _ mC3_axes)).2

/-- the joint rows of the bodies off the composite joint agree, for every state -/
theorem rows (st : QS Rat) (qd qdd : VecN Rat) :
    ∀ i, 1 ≤ i → i < mE3.nBodies → i ≠ 2 →
      jrow mC3 wC3 (φ i) st qd qdd = jrow mE3 wE3 i st qd qdd := by
  intro i h1 h2 hE
  have hfix := wE3_fixed i h1 h2
  l07_cases3 i h2
  · refine jrow_shift mE3 1 mC3 (φ 1) wE3 wC3 st st qd qd qdd qdd (by constructor <;> decide +kernel)
      ⟨fun d _ => ?_, fun hs => absurd hs (by decide +kernel)⟩ ?_ hfix
      (wC3_fixed 1 (by decide) (by rw [mC3_n]; decide))
    · unfold CoordAt
      rw [show (mC3.joint (φ 1)).qIndex = (mE3.joint 1).qIndex from by decide +kernel]
      exact ⟨rfl, rfl, rfl, rfl, rfl⟩
    · unfold JointOK; rw [show (mE3.joint 1).jt = .revolute from by decide +kernel]; decide +kernel
  · exact absurd rfl hE
  · refine jrow_shift mE3 3 mC3 (φ 3) wE3 wC3 st st qd qd qdd qdd (by constructor <;> decide +kernel)
      ⟨fun d _ => ?_, fun hs => absurd hs (by decide +kernel)⟩ ?_ hfix
      (wC3_fixed 5 (by decide) (by rw [mC3_n]; decide))
    · unfold CoordAt
      rw [show (mC3.joint (φ 3)).qIndex = (mE3.joint 3).qIndex from by decide +kernel]
      exact ⟨rfl, rfl, rfl, rfl, rfl⟩
    · unfold JointOK; rw [show (mE3.joint 3).jt = .revolute from by decide +kernel]; decide +kernel

/-- the Euler joint is the composite of the chain, for every state on the unit circle -/
theorem composite (st : QS Rat) (qd : VecN Rat)
    (h1 : st.c 2 * st.c 2 + st.s 2 * st.s 2 = 1) (h2 : st.c 3 * st.c 3 + st.s 3 * st.s 3 = 1) :
    Composite3 mE3 2 mC3 2 3 4 wE3 wC3 st qd :=
  composite3_of_euler chain3 wE3 wC3 st qd (wE3_fixed 2 (by decide) (by rw [mE3_n]; decide))
    (wC3_fixed 2 (by decide) (by rw [mC3_n]; decide)) (wC3_fixed 3 (by decide) (by rw [mC3_n]; decide))
    (wC3_fixed 4 (by decide) (by rw [mC3_n]; decide))
    (by rw [show (mE3.joint 2).qIndex = 1 from by decide +kernel]; exact h1)
    (by rw [show (mE3.joint 2).qIndex = 1 from by decide +kernel]; exact h2)


theorem mE3_perm : (mE3.updateOrder.drop 1).Perm (List.range' 1 (mE3.nBodies - 1)) := by
  decide +kernel
theorem mC3_perm : (mC3.updateOrder.drop 1).Perm (List.range' 1 (mC3.nBodies - 1)) := by
  decide +kernel
theorem mE3_ok : ∀ i, 1 ≤ i → i < mE3.nBodies → JointOK mE3 i := by
  intro i h1 h2
  l07_cases3 i h2
  · unfold JointOK; rw [show (mE3.joint 1).jt = .revolute from by decide +kernel]; decide +kernel
  · unfold JointOK; rw [show (mE3.joint 2).jt = .eulerZYX from by decide +kernel]; decide +kernel
  · unfold JointOK; rw [show (mE3.joint 3).jt = .revolute from by decide +kernel]; decide +kernel
theorem mC3_ok : ∀ i, 1 ≤ i → i < mC3.nBodies → JointOK mC3 i := by
  intro i h1 h2
  rw [mC3_n] at h2
  obtain rfl | rfl | rfl | rfl | rfl : i = 1 ∨ i = 2 ∨ i = 3 ∨ i = 4 ∨ i = 5 := by omega
  · unfold JointOK; rw [show (mC3.joint 1).jt = .revolute from by decide +kernel]; decide +kernel
  · unfold JointOK; rw [show (mC3.joint 2).jt = .revoluteZ from by decide +kernel]; decide +kernel
  · unfold JointOK; rw [show (mC3.joint 3).jt = .revoluteY from by decide +kernel]; decide +kernel
  · unfold JointOK; rw [show (mC3.joint 4).jt = .revoluteX from by decide +kernel]; decide +kernel
  · unfold JointOK; rw [show (mC3.joint 5).jt = .revolute from by decide +kernel]; decide +kernel
theorem sameq : ∀ i, 1 ≤ i → i < mE3.nBodies → i ≠ 2 →
    (mC3.joint (φ i)).qIndex = (mE3.joint i).qIndex := by
  intro i h1 h2 hE
  l07_cases3 i h2 <;> first | exact absurd rfl hE | decide +kernel

theorem mE3_nc : ∀ i, 1 ≤ i → i < mE3.nBodies → (mE3.joint i).jt ≠ .custom := by
  intro i h1 h2
  l07_cases3 i h2 <;> decide +kernel
theorem mC3_nc : ∀ i, 1 ≤ i → i < mC3.nBodies → (mC3.joint i).jt ≠ .custom := by
  intro i h1 h2
  rw [mC3_n] at h2
  obtain rfl | rfl | rfl | rfl | rfl : i = 1 ∨ i = 2 ∨ i = 3 ∨ i = 4 ∨ i = 5 := by omega
  all_goals decide +kernel

end Rbdl.L07.Ex3
