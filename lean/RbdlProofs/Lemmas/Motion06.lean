import RbdlProofs.Lemmas.Kin04
/-
  Helper lemmas for C06 (velocities and accelerations are time derivatives).
-/
namespace Rbdl.L06
open Lean.Grind Rbdl Rbdl.Spec
set_option linter.unusedSimpArgs false
set_option linter.unusedVariables false
set_option linter.unusedSectionVars false

section
variable {α : Type} [Field α]

/-! ### projections of jets -/
theorem zero_x : (0 : D2 α).x = 0 := rfl
theorem zero_d1 : (0 : D2 α).d1 = 0 := rfl
theorem zero_d2 : (0 : D2 α).d2 = 0 := rfl
theorem one_x : (1 : D2 α).x = 1 := rfl
theorem one_d1 : (1 : D2 α).d1 = 0 := rfl
theorem one_d2 : (1 : D2 α).d2 = 0 := rfl
theorem two_x : (2 : D2 α).x = 2 := rfl
theorem two_d1 : (2 : D2 α).d1 = 0 := rfl
theorem two_d2 : (2 : D2 α).d2 = 0 := rfl
theorem add_x (a b : D2 α) : (a + b).x = a.x + b.x := rfl
theorem add_d1 (a b : D2 α) : (a + b).d1 = a.d1 + b.d1 := rfl
theorem add_d2 (a b : D2 α) : (a + b).d2 = a.d2 + b.d2 := rfl
theorem sub_x (a b : D2 α) : (a - b).x = a.x - b.x := rfl
theorem sub_d1 (a b : D2 α) : (a - b).d1 = a.d1 - b.d1 := rfl
theorem sub_d2 (a b : D2 α) : (a - b).d2 = a.d2 - b.d2 := rfl
theorem neg_x (a : D2 α) : (-a).x = -a.x := rfl
theorem neg_d1 (a : D2 α) : (-a).d1 = -a.d1 := rfl
theorem neg_d2 (a : D2 α) : (-a).d2 = -a.d2 := rfl
theorem mul_x (a b : D2 α) : (a * b).x = a.x * b.x := rfl
theorem mul_d1 (a b : D2 α) : (a * b).d1 = a.d1 * b.x + a.x * b.d1 := rfl
theorem mul_d2 (a b : D2 α) : (a * b).d2 = a.d2 * b.x + 2 * a.d1 * b.d1 + a.x * b.d2 := rfl

/-- constant vector jet -/
def constV (a : V3 α) : V3 (D2 α) := ⟨D2.const a.x, D2.const a.y, D2.const a.z⟩

/-- unfold the value / first / second derivative parts of an expression over `D2 α` -/
macro "jet06_simp" : tactic =>
  `(tactic| simp only [alg, NodeKin.ofPose, M3.mapD2, V3.mapD2, D2.const, D2.cosJ, D2.sinJ, D2.coord,
      constV, Spec.rodrigues, Spec.rotX, Spec.rotY, Spec.rotZ, Spec.quatRot, vee,
      zero_x, zero_d1, zero_d2, one_x, one_d1, one_d2, two_x, two_d1, two_d2,
      add_x, add_d1, add_d2, sub_x, sub_d1, sub_d2, neg_x, neg_d1, neg_d2, mul_x, mul_d1, mul_d2])

theorem nodeKin_ext {a b : NodeKin α} (h1 : a.R = b.R) (h2 : a.Rd = b.Rd) (h3 : a.Rdd = b.Rdd)
    (h4 : a.p = b.p) (h5 : a.pd = b.pd) (h6 : a.pdd = b.pdd) : a = b := by
  cases a; cases b; simp only at *; simp only [*]

/-! ### `KinOk` and the cofactor-form rotation predicate -/

theorem isRot_of_orth_det {R : M3 α} (ho : R * R.transpose = M3.one) (hd : R.det = 1) :
    R.IsRot := by
  simp only [alg, M3.ext_iff] at ho hd
  obtain ⟨h00, h01, h02, h10, h11, h12, h20, h21, h22⟩ := ho
  constructor <;> grind

theorem IsRot.orth {R : M3 α} (h : R.IsRot) : R * R.transpose = M3.one := by rot_ext h


/-! ### rotations acting on skew matrices -/

/-- `S(x) R = R S(Rᵀ x)` -/
theorem skew_mul_rot {R : M3 α} (h : R.IsRot) (x : V3 α) :
    M3.skew x * R = R * M3.skew (R.transpose * x) := by rot_ext h

/-- `R S(x) = S(R x) R` -/
theorem rot_mul_skew {R : M3 α} (h : R.IsRot) (x : V3 α) :
    R * M3.skew x = M3.skew (R * x) * R := by rot_ext h

theorem tmul_mul {R : M3 α} (h : R.IsRot) (x : V3 α) : R.transpose * (R * x) = x := by
  obtain ⟨n0,n1,n2,o01,o02,o12,c00,c01,c02,c10,c11,c12,c20,c21,c22⟩ := h.transpose
  simp only [M3.transpose] at *
  ext <;> simp only [alg] <;> grind

theorem mul_tmul {R : M3 α} (h : R.IsRot) (x : V3 α) : R * (R.transpose * x) = x := by
  rot_ext h

/-- world angular velocity of `Ṙ = R S(w)` is `R w` -/
theorem vee_param {R : M3 α} (h : R.IsRot) (w : V3 α) :
    vee ((R * M3.skew w) * R.transpose) = R * w := by
  obtain ⟨n0,n1,n2,o01,o02,o12,c00,c01,c02,c10,c11,c12,c20,c21,c22⟩ := h
  ext <;> simp only [alg, vee] <;> grind

/-- world angular acceleration of `Ṙ = R S(w)`, `R̈ = R (S(a) + S(w)²)` is `R a` -/
theorem vee_param2 {R : M3 α} (h : R.IsRot) (w a : V3 α) :
    vee ((R * (M3.skew a + M3.skew w * M3.skew w)) * R.transpose
          + (R * M3.skew w) * (R * M3.skew w).transpose) = R * a := by
  obtain ⟨n0,n1,n2,o01,o02,o12,c00,c01,c02,c10,c11,c12,c20,c21,c22⟩ := h
  ext <;> simp only [alg, vee] <;> grind


/-! ### small matrix / vector algebra -/

theorem m3_mul_assoc (A B C : M3 α) : A * B * C = A * (B * C) := by alg_ext
theorem m3_mul_add (A B C : M3 α) : A * (B + C) = A * B + A * C := by alg_ext
theorem m3_add_mul (A B C : M3 α) : (A + B) * C = A * C + B * C := by alg_ext
theorem m3_mul_smul (k : α) (A B : M3 α) : A * (k * B) = k * (A * B) := by alg_ext
theorem m3_mulVec_assoc (A B : M3 α) (x : V3 α) : (A * B) * x = A * (B * x) := by alg_ext
theorem m3_mulVec_add (A : M3 α) (x y : V3 α) : A * (x + y) = A * x + A * y := by alg_ext
theorem m3_add_mulVec (A B : M3 α) (x : V3 α) : (A + B) * x = A * x + B * x := by alg_ext
theorem m3_mulVec_smul (k : α) (A : M3 α) (x : V3 α) : A * (k * x) = k * (A * x) := by alg_ext
theorem m3_smul_mulVec (k : α) (A : M3 α) (x : V3 α) : (k * A) * x = k * (A * x) := by alg_ext
theorem skew_mulVec (a b : V3 α) : M3.skew a * b = a.cross b := by alg_ext
theorem m3_transpose_mul (A B : M3 α) : (A * B).transpose = B.transpose * A.transpose := by
  alg_ext
theorem m3_transpose_transpose (A : M3 α) : A.transpose.transpose = A := rfl
theorem v3_sub_add_cancel (a b : V3 α) : a - b + b = a := by alg_ext
theorem v3_add_sub_cancel (a b : V3 α) : a + b - b = a := by alg_ext

/-- `M = (M Rᵀ) R` -/
theorem mul_tr_mul {R : M3 α} (h : R.IsRot) (M : M3 α) : (M * R.transpose) * R = M := by
  obtain ⟨n0,n1,n2,o01,o02,o12,c00,c01,c02,c10,c11,c12,c20,c21,c22⟩ := h.transpose
  simp only [M3.transpose] at *
  ext <;> simp only [alg] <;> grind

/-- a matrix with `M + Mᵀ = 0` is the cross-product matrix of its `vee` (needs `2 ≠ 0`) -/
theorem skew_of_sym (h2 : (2 : α) ≠ 0) (M : M3 α) (h : M + M.transpose = M3.zero) :
    M = M3.skew (vee M) := by
  simp only [alg, M3.ext_iff] at h
  obtain ⟨h00, h01, h02, h10, h11, h12, h20, h21, h22⟩ := h
  have d : ∀ x : α, x + x = 0 → x = 0 := by
    intro x hx
    have : 2 * x = 0 := by grind
    exact (Field.of_mul_eq_zero this).elim (fun h => absurd h h2) id
  have e00 := d _ h00
  have e11 := d _ h11
  have e22 := d _ h22
  ext <;> simp only [alg, vee] <;> grind

/-! ### body form of a pose jet -/

/-- `k` is the jet of a rigid motion with body-frame spatial velocity `V` and spatial
    acceleration `A`:  `Ṙ = R S(w)`, `R̈ = R (S(ẇ) + S(w)²)`, `ṗ = R v`, `p̈ = R (a + w × v)`. -/
structure BodyForm (k : NodeKin α) (V A : SV α) : Prop where
  rot : k.R.IsRot
  rd : k.Rd = k.R * M3.skew V.w
  rdd : k.Rdd = k.R * (M3.skew A.w + M3.skew V.w * M3.skew V.w)
  pd : k.pd = k.R * V.v
  pdd : k.pdd = k.R * (A.v + V.w.cross V.v)

theorem BodyForm.sv {k : NodeKin α} {V A : SV α} (h : BodyForm k V A) : svOfKin k = V := by
  obtain ⟨rot, rd, rdd, pd, pdd⟩ := h
  unfold svOfKin NodeKin.omega
  rw [rd, pd, vee_param rot, tmul_mul rot, tmul_mul rot]

theorem BodyForm.sa {k : NodeKin α} {V A : SV α} (h : BodyForm k V A) : saOfKin k = A := by
  obtain ⟨rot, rd, rdd, pd, pdd⟩ := h
  unfold saOfKin NodeKin.omegaDot NodeKin.omega
  rw [rdd, rd, pdd, pd, vee_param2 rot, vee_param rot]
  simp only [tmul_mul rot, v3_add_sub_cancel]

theorem skew1_param (R : M3 α) (w : V3 α) :
    (R * M3.skew w) * R.transpose + R * (R * M3.skew w).transpose = M3.zero := by alg_ext

theorem skew2_param (R : M3 α) (w a : V3 α) :
    (R * (M3.skew a + M3.skew w * M3.skew w)) * R.transpose
      + (2 : α) * ((R * M3.skew w) * (R * M3.skew w).transpose)
      + R * (R * (M3.skew a + M3.skew w * M3.skew w)).transpose = M3.zero := by alg_ext

theorem BodyForm.kinOk {k : NodeKin α} {V A : SV α} (h : BodyForm k V A) : KinOk k := by
  obtain ⟨rot, rd, rdd, pd, pdd⟩ := h
  refine ⟨IsRot.orth rot, rot.det, ?_, ?_⟩
  · rw [rd]; exact skew1_param _ _
  · rw [rdd, rd]; exact skew2_param _ _ _

theorem kinOk_isRot {k : NodeKin α} (h : KinOk k) : k.R.IsRot := isRot_of_orth_det h.orth h.det

/-- `(S(x) + S(y)²) R = R (S(Rᵀ x) + S(Rᵀ y)²)` -/
theorem skew2_mul_rot {R : M3 α} (h : R.IsRot) (x y : V3 α) :
    (M3.skew x + M3.skew y * M3.skew y) * R
      = R * (M3.skew (R.transpose * x) + M3.skew (R.transpose * y) * M3.skew (R.transpose * y)) := by
  rw [m3_add_mul, m3_mul_add, m3_mul_assoc, skew_mul_rot h y, ← m3_mul_assoc, skew_mul_rot h y,
    skew_mul_rot h x, m3_mul_assoc]

theorem sym_of_skew2 (R Rd Rdd : M3 α) :
    (Rdd * R.transpose + Rd * Rd.transpose) + (Rdd * R.transpose + Rd * Rd.transpose).transpose
      = Rdd * R.transpose + (2 : α) * (Rd * Rd.transpose) + R * Rdd.transpose := by alg_ext

/-- `Ṙ = S(ω) R` gives `Ṙ Ṙᵀ = −S(ω)²` -/
theorem rd_rdT {R : M3 α} (h : R.IsRot) (w : V3 α) (N : M3 α) :
    N - (M3.skew w * R) * (M3.skew w * R).transpose = N + M3.skew w * M3.skew w := by
  rot_ext h

theorem eq_sub_of_add_eq (A B C : M3 α) (h : A + B = C) : A = C - B := by
  rw [← h]; alg_ext

/-- every rotation jet is in body form, with `V`, `A` its spatial velocity / acceleration -/
theorem kinOk_bodyForm (h2 : (2 : α) ≠ 0) {k : NodeKin α} (h : KinOk k) :
    BodyForm k (svOfKin k) (saOfKin k) := by
  have rot := kinOk_isRot h
  have e1 : k.Rd * k.R.transpose = M3.skew k.omega := skew_of_sym h2 _ (by
    rw [m3_transpose_mul, m3_transpose_transpose]; exact h.skew1)
  have hrd : k.Rd = M3.skew k.omega * k.R := by
    rw [← e1]; exact (mul_tr_mul rot _).symm
  have e2 : k.Rdd * k.R.transpose + k.Rd * k.Rd.transpose = M3.skew k.omegaDot :=
    skew_of_sym h2 _ (by rw [sym_of_skew2]; exact h.skew2)
  have hrdd : k.Rdd = (M3.skew k.omegaDot + M3.skew k.omega * M3.skew k.omega) * k.R := by
    have e3 := eq_sub_of_add_eq _ _ _ e2
    rw [hrd, rd_rdT rot] at e3
    rw [← e3]; exact (mul_tr_mul rot _).symm
  refine ⟨rot, ?_, ?_, ?_, ?_⟩
  · show k.Rd = k.R * M3.skew (k.R.transpose * k.omega)
    rw [← skew_mul_rot rot]; exact hrd
  · show k.Rdd = k.R * (M3.skew (k.R.transpose * k.omegaDot)
        + M3.skew (k.R.transpose * k.omega) * M3.skew (k.R.transpose * k.omega))
    rw [← skew2_mul_rot rot]; exact hrdd
  · show k.pd = k.R * (k.R.transpose * k.pd)
    rw [mul_tmul rot]
  · show k.pdd = k.R * (k.R.transpose * k.pdd
        - (k.R.transpose * k.omega).cross (k.R.transpose * k.pd)
        + (k.R.transpose * k.omega).cross (k.R.transpose * k.pd))
    rw [v3_sub_add_cancel, mul_tmul rot]


/-! ### Leibniz rule for composed poses -/

/-- the jet of `A ∘ B` from the jets of `A` and `B` (Leibniz) -/
def compKin (a b : NodeKin α) : NodeKin α :=
  ⟨a.R * b.R, a.Rd * b.R + a.R * b.Rd, a.Rdd * b.R + (2 : α) * (a.Rd * b.Rd) + a.R * b.Rdd,
   a.p + a.R * b.p, a.pd + (a.Rd * b.p + a.R * b.pd),
   a.pdd + (a.Rdd * b.p + (2 : α) * (a.Rd * b.pd) + a.R * b.pdd)⟩

theorem ofPose_comp (A B : Pose (D2 α)) :
    NodeKin.ofPose (A.comp B) = compKin (NodeKin.ofPose A) (NodeKin.ofPose B) := by
  apply nodeKin_ext <;> ext <;> simp only [Pose.comp, compKin] <;> jet06_simp <;> grind

/-- the `SpatialTransform` described by the value part of a pose jet: `E = Rᵀ`, `r = p` -/
def xtOfKin (b : NodeKin α) : XT α := ⟨b.R.transpose, b.p⟩

/-! ### composition in body form -/

theorem comp_rd_core {Rb : M3 α} (h : Rb.IsRot) (Ra : M3 α) (wA wB : V3 α) :
    (Ra * M3.skew wA) * Rb + Ra * (Rb * M3.skew wB)
      = (Ra * Rb) * M3.skew (Rb.transpose * wA + wB) := by
  rw [m3_mul_assoc, skew_mul_rot h, ← m3_mul_add, m3_mul_assoc]
  congr 1
  rw [← m3_mul_add]
  congr 1
  alg_ext

theorem skew_comp_identity (u β wB αB : V3 α) :
    (M3.skew β + M3.skew u * M3.skew u) + (2 : α) * (M3.skew u * M3.skew wB)
        + (M3.skew αB + M3.skew wB * M3.skew wB)
      = M3.skew (β + αB + (u + wB).cross wB) + M3.skew (u + wB) * M3.skew (u + wB) := by
  alg_ext

theorem comp_rdd_core0 {Rb : M3 α} (h : Rb.IsRot) (wA αA wB αB : V3 α) :
    (M3.skew αA + M3.skew wA * M3.skew wA) * Rb + (2 : α) * (M3.skew wA * (Rb * M3.skew wB))
        + Rb * (M3.skew αB + M3.skew wB * M3.skew wB)
      = Rb * (M3.skew (Rb.transpose * αA + αB + (Rb.transpose * wA + wB).cross wB)
          + M3.skew (Rb.transpose * wA + wB) * M3.skew (Rb.transpose * wA + wB)) := by
  rw [skew2_mul_rot h, ← m3_mul_assoc (M3.skew wA), skew_mul_rot h wA, m3_mul_assoc,
    ← m3_mul_smul, ← m3_mul_add, ← m3_mul_add, skew_comp_identity]

theorem factor_left3 (Ra X Rb S S' Y : M3 α) :
    (Ra * X) * Rb + (2 : α) * ((Ra * S) * S') + Ra * Y
      = Ra * (X * Rb + (2 : α) * (S * S') + Y) := by alg_ext

theorem comp_rdd_core {Rb : M3 α} (h : Rb.IsRot) (Ra : M3 α) (wA αA wB αB : V3 α) :
    (Ra * (M3.skew αA + M3.skew wA * M3.skew wA)) * Rb
        + (2 : α) * ((Ra * M3.skew wA) * (Rb * M3.skew wB))
        + Ra * (Rb * (M3.skew αB + M3.skew wB * M3.skew wB))
      = (Ra * Rb) * (M3.skew (Rb.transpose * αA + αB + (Rb.transpose * wA + wB).cross wB)
          + M3.skew (Rb.transpose * wA + wB) * M3.skew (Rb.transpose * wA + wB)) := by
  rw [factor_left3, comp_rdd_core0 h, m3_mul_assoc]

theorem comp_pd_core0 {Rb : M3 α} (h : Rb.IsRot) (wA vA pB vB : V3 α) :
    vA + (M3.skew wA * pB + Rb * vB)
      = Rb * (Rb.transpose * (vA - pB.cross wA) + vB) := by
  rw [m3_mulVec_add, mul_tmul h]; alg_ext

theorem factor_left_v (Ra S Rb : M3 α) (x p y : V3 α) :
    Ra * x + ((Ra * S) * p + Ra * (Rb * y)) = Ra * (x + (S * p + Rb * y)) := by alg_ext

theorem comp_pd_core {Rb : M3 α} (h : Rb.IsRot) (Ra : M3 α) (wA vA pB vB : V3 α) :
    Ra * vA + ((Ra * M3.skew wA) * pB + Ra * (Rb * vB))
      = (Ra * Rb) * (Rb.transpose * (vA - pB.cross wA) + vB) := by
  rw [factor_left_v, comp_pd_core0 h, m3_mulVec_assoc]

theorem comp_pdd_core0 {Rb : M3 α} (h : Rb.IsRot) (wA αA vA aA pB wB vB aB : V3 α) :
    (aA + wA.cross vA) + ((M3.skew αA + M3.skew wA * M3.skew wA) * pB
        + (2 : α) * (M3.skew wA * (Rb * vB)) + Rb * (aB + wB.cross vB))
      = Rb * ((Rb.transpose * (aA - pB.cross αA) + aB
            + ((Rb.transpose * wA + wB).cross vB
                + (Rb.transpose * (vA - pB.cross wA) + vB).cross wB))
          + (Rb.transpose * wA + wB).cross (Rb.transpose * (vA - pB.cross wA) + vB)) := by
  obtain ⟨n0,n1,n2,o01,o02,o12,c00,c01,c02,c10,c11,c12,c20,c21,c22⟩ := h
  ext <;> simp only [alg] <;> grind

theorem factor_left_v2 (Ra X S : M3 α) (x p y z : V3 α) :
    Ra * x + ((Ra * X) * p + (2 : α) * ((Ra * S) * y) + Ra * z)
      = Ra * (x + (X * p + (2 : α) * (S * y) + z)) := by alg_ext

theorem comp_pdd_core {Rb : M3 α} (h : Rb.IsRot) (Ra : M3 α) (wA αA vA aA pB wB vB aB : V3 α) :
    Ra * (aA + wA.cross vA) + ((Ra * (M3.skew αA + M3.skew wA * M3.skew wA)) * pB
        + (2 : α) * ((Ra * M3.skew wA) * (Rb * vB)) + Ra * (Rb * (aB + wB.cross vB)))
      = (Ra * Rb) * ((Rb.transpose * (aA - pB.cross αA) + aB
            + ((Rb.transpose * wA + wB).cross vB
                + (Rb.transpose * (vA - pB.cross wA) + vB).cross wB))
          + (Rb.transpose * wA + wB).cross (Rb.transpose * (vA - pB.cross wA) + vB)) := by
  rw [factor_left_v2, comp_pdd_core0 h, m3_mulVec_assoc]

/-- **composition law in body form**: velocities add after transforming the parent's into the
    child frame; accelerations likewise, plus the velocity-product term `v_P ×ₘ v_B` -/
theorem BodyForm.comp {a b : NodeKin α} {VA AA VB AB : SV α}
    (ha : BodyForm a VA AA) (hb : BodyForm b VB AB) :
    BodyForm (compKin a b) ((xtOfKin b).apply VA + VB)
      ((xtOfKin b).apply AA + AB + crossm ((xtOfKin b).apply VA + VB) VB) := by
  obtain ⟨rota, rda, rdda, pda, pdda⟩ := ha
  obtain ⟨rotb, rdb, rddb, pdb, pddb⟩ := hb
  refine ⟨rota.mul rotb, ?_, ?_, ?_, ?_⟩
  · show a.Rd * b.R + a.R * b.Rd = (a.R * b.R) * M3.skew (b.R.transpose * VA.w + VB.w)
    rw [rda, rdb, comp_rd_core rotb]
  · show a.Rdd * b.R + (2 : α) * (a.Rd * b.Rd) + a.R * b.Rdd
        = (a.R * b.R) * (M3.skew (b.R.transpose * AA.w + AB.w
              + (b.R.transpose * VA.w + VB.w).cross VB.w)
            + M3.skew (b.R.transpose * VA.w + VB.w) * M3.skew (b.R.transpose * VA.w + VB.w))
    rw [rdda, rda, rddb, rdb, comp_rdd_core rotb]
  · show a.pd + (a.Rd * b.p + a.R * b.pd)
        = (a.R * b.R) * (b.R.transpose * (VA.v - b.p.cross VA.w) + VB.v)
    rw [pda, rda, pdb, comp_pd_core rotb]
  · show a.pdd + (a.Rdd * b.p + (2 : α) * (a.Rd * b.pd) + a.R * b.pdd)
        = (a.R * b.R) * ((b.R.transpose * (AA.v - b.p.cross AA.w) + AB.v
              + ((b.R.transpose * VA.w + VB.w).cross VB.v
                  + (b.R.transpose * (VA.v - b.p.cross VA.w) + VB.v).cross VB.w))
            + (b.R.transpose * VA.w + VB.w).cross
                (b.R.transpose * (VA.v - b.p.cross VA.w) + VB.v))
    rw [pdda, rdda, rda, pdb, pddb, comp_pdd_core rotb]

/-- a constant pose has zero velocity and acceleration -/
theorem bodyForm_const {k : NodeKin α} (hR : k.R.IsRot) (h1 : k.Rd = M3.zero)
    (h2 : k.Rdd = M3.zero) (h3 : k.pd = V3.zero) (h4 : k.pdd = V3.zero) :
    BodyForm k SV.zero SV.zero := by
  refine ⟨hR, ?_, ?_, ?_, ?_⟩
  · rw [h1]; alg_ext
  · rw [h2]; alg_ext
  · rw [h3]; alg_ext
  · rw [h4]; alg_ext


/-- `KinOk` in terms of the cofactor-form rotation predicate -/
theorem kinOk_iff (k : NodeKin α) :
    KinOk k ↔ k.R.IsRot ∧ k.Rd * k.R.transpose + k.R * k.Rd.transpose = M3.zero ∧
      k.Rdd * k.R.transpose + (2 : α) * (k.Rd * k.Rd.transpose) + k.R * k.Rdd.transpose
        = M3.zero :=
  ⟨fun h => ⟨kinOk_isRot h, h.skew1, h.skew2⟩,
   fun ⟨h, h1, h2⟩ => ⟨IsRot.orth h, h.det, h1, h2⟩⟩

end
end Rbdl.L06
