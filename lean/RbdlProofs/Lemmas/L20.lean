import Rbdl.Isolation
/-
  Helper lemmas for C20 (isolation of instances): the call-granularity and the micro-step
  semantics of `Rbdl/Isolation.lean`.
-/
namespace Rbdl.L20
open Rbdl Rbdl.Isolation

section Generic
variable {Inst Glob Op Out : Type}

/-! ### projections -/

theorem project_cons_same {β : Type} (i : Nat) (b : β) (l : List (Nat × β)) :
    project i ((i, b) :: l) = (i, b) :: project i l := by
  simp [project]

theorem project_cons_other {β : Type} (i j : Nat) (b : β) (l : List (Nat × β)) (h : j ≠ i) :
    project i ((j, b) :: l) = project i l := by
  simp [project, h]

theorem project_append {β : Type} (i : Nat) (l l' : List (Nat × β)) :
    project i (l ++ l') = project i l ++ project i l' := by
  simp [project]

theorem opsOf_cons_same (i : Nat) (op : Op) (l : List (Nat × Op)) :
    opsOf i ((i, op) :: l) = op :: opsOf i l := by
  simp [opsOf, project_cons_same]

theorem opsOf_cons_other (i j : Nat) (op : Op) (l : List (Nat × Op)) (h : j ≠ i) :
    opsOf i ((j, op) :: l) = opsOf i l := by
  simp [opsOf, project_cons_other _ _ _ _ h]

theorem outputsOf_cons_same (i : Nat) (o : Out) (l : List (Nat × Out)) :
    outputsOf i ((i, o) :: l) = o :: outputsOf i l := by
  simp [outputsOf, project_cons_same]

theorem outputsOf_cons_other (i j : Nat) (o : Out) (l : List (Nat × Out)) (h : j ≠ i) :
    outputsOf i ((j, o) :: l) = outputsOf i l := by
  simp [outputsOf, project_cons_other _ _ _ _ h]

theorem outputsOf_append (i : Nat) (l l' : List (Nat × Out)) :
    outputsOf i (l ++ l') = outputsOf i l ++ outputsOf i l' := by
  simp [outputsOf, project_append]

/-- equal projections give equal call lists -/
theorem opsOf_congr {sched sched' : List (Nat × Op)} {i : Nat}
    (h : project i sched = project i sched') : opsOf i sched = opsOf i sched' := by
  simp [opsOf, h]

/-! ### call granularity -/

theorem run_nil (step : Op → Inst → Glob → Inst × Glob × Out) (s : Sys Inst Glob) :
    run step s [] = (s, []) := rfl

theorem run_cons (step : Op → Inst → Glob → Inst × Glob × Out) (s : Sys Inst Glob)
    (e : Nat × Op) (es : List (Nat × Op)) :
    run step s (e :: es) =
      ((run step (exec step s e).1 es).1, (exec step s e).2 :: (run step (exec step s e).1 es).2) :=
  rfl

theorem soloRun_cons (step : Op → Inst → Glob → Inst × Glob × Out) (x : Inst) (g : Glob)
    (op : Op) (ops : List Op) :
    soloRun step x g (op :: ops) =
      ((soloRun step (step op x g).1 (step op x g).2.1 ops).1,
       (soloRun step (step op x g).1 (step op x g).2.1 ops).2.1,
       (step op x g).2.2 :: (soloRun step (step op x g).1 (step op x g).2.1 ops).2.2) := rfl

/-- a solo run sees the globals through `view` only -/
theorem soloRun_view {V : Type} {view : Glob → V}
    {step : Op → Inst → Glob → Inst × Glob × Out} (hc : GlobConfinedBy view step)
    (ops : List Op) : ∀ (x : Inst) (g g' : Glob), view g = view g' →
      (soloRun step x g ops).1 = (soloRun step x g' ops).1 ∧
      (soloRun step x g ops).2.2 = (soloRun step x g' ops).2.2 ∧
      view (soloRun step x g ops).2.1 = view g := by
  induction ops with
  | nil => intro x g g' _; exact ⟨rfl, rfl, rfl⟩
  | cons op ops ih =>
    intro x g g' hv
    obtain ⟨h1, h2⟩ := hc.2 op x g g' hv
    have hv' : view (step op x g).2.1 = view (step op x g').2.1 := by
      rw [hc.1 op x g, hc.1 op x g', hv]
    obtain ⟨i1, i2, i3⟩ := ih (step op x g).1 (step op x g).2.1 (step op x g').2.1 hv'
    simp only [soloRun_cons]
    refine ⟨?_, ?_, ?_⟩
    · rw [i1, h1]
    · rw [i2, h1, h2]
    · rw [i3, hc.1 op x g]

/-- the main induction: in any schedule, instance `i` ends in the state, and its caller sees the
    outputs, of the solo run of its own calls; the part of the globals that is read is unchanged -/
theorem run_eq_solo {V : Type} {view : Glob → V}
    {step : Op → Inst → Glob → Inst × Glob × Out} (hc : GlobConfinedBy view step)
    (sched : List (Nat × Op)) : ∀ (s : Sys Inst Glob) (i : Nat),
      (run step s sched).1.inst i = (solo step s i sched).1 ∧
      outputsOf i (run step s sched).2 = (solo step s i sched).2.2 ∧
      view (run step s sched).1.glob = view s.glob := by
  induction sched with
  | nil => intro s i; exact ⟨rfl, rfl, rfl⟩
  | cons e es ih =>
    intro s i
    obtain ⟨j, op⟩ := e
    obtain ⟨i1, i2, i3⟩ := ih (exec step s (j, op)).1 i
    have hg : view (exec step s (j, op)).1.glob = view s.glob := hc.1 op (s.inst j) s.glob
    rw [run_cons]
    by_cases hji : j = i
    · subst hji
      refine ⟨?_, ?_, ?_⟩
      · rw [i1]; simp only [solo, opsOf_cons_same, soloRun_cons]
        simp [exec]
      · show outputsOf j ((j, _) :: _) = _
        rw [outputsOf_cons_same, i2]; simp only [solo, opsOf_cons_same, soloRun_cons]
        simp [exec]
      · rw [i3, hg]
    · have hinst : (exec step s (j, op)).1.inst i = s.inst i := by
        simp only [exec]; exact upd_other _ _ _ _ (fun h => hji h.symm)
      obtain ⟨v1, v2, _⟩ := soloRun_view hc (opsOf i es) (s.inst i)
        (exec step s (j, op)).1.glob s.glob hg
      refine ⟨?_, ?_, ?_⟩
      · rw [i1]; simp only [solo, opsOf_cons_other _ _ _ _ hji]; rw [hinst, v1]
      · show outputsOf i ((j, _) :: _) = _
        rw [outputsOf_cons_other _ _ _ _ hji, i2]
        simp only [solo, opsOf_cons_other _ _ _ _ hji]; rw [hinst, v2]
      · rw [i3, hg]

theorem confined_of_preserved {step : Op → Inst → Glob → Inst × Glob × Out}
    (hp : GlobPreserved step) : GlobConfinedBy (fun g => g) step :=
  ⟨fun op x g => hp op x g, fun op x g g' h => by cases h; exact ⟨rfl, rfl⟩⟩

theorem confined_of_irrelevant {step : Op → Inst → Glob → Inst × Glob × Out}
    (hi : GlobIrrelevant step) : GlobConfinedBy (fun _ => ()) step :=
  ⟨fun _ _ _ => rfl, fun op x g g' _ => hi op x g g'⟩

/-- without reads, a solo run does not depend on the initial globals at all -/
theorem soloRun_irrelevant {step : Op → Inst → Glob → Inst × Glob × Out}
    (hi : GlobIrrelevant step) (ops : List Op) (x : Inst) (g g' : Glob) :
    (soloRun step x g ops).1 = (soloRun step x g' ops).1 ∧
    (soloRun step x g ops).2.2 = (soloRun step x g' ops).2.2 := by
  obtain ⟨h1, h2, _⟩ := soloRun_view (confined_of_irrelevant hi) ops x g g' rfl
  exact ⟨h1, h2⟩

theorem run_glob_preserved {step : Op → Inst → Glob → Inst × Glob × Out}
    (hp : GlobPreserved step) (sched : List (Nat × Op)) (s : Sys Inst Glob) :
    (run step s sched).1.glob = s.glob :=
  (run_eq_solo (confined_of_preserved hp) sched s 0).2.2

/-! ### micro-steps -/

theorem mrun_cons (readOut : Op → Inst → Out) (s : Nat → Inst) (e : Nat × MEv Inst Op)
    (es : List (Nat × MEv Inst Op)) :
    mrun readOut s (e :: es) =
      ((mrun readOut (mexec readOut s e).1 es).1,
       (mexec readOut s e).2 ++ (mrun readOut (mexec readOut s e).1 es).2) := rfl

theorem mprojectOf_cons_same (i : Nat) (ev : MEv Inst Op) (l : List (Nat × MEv Inst Op)) :
    mprojectOf i ((i, ev) :: l) = ev :: mprojectOf i l := by
  simp [mprojectOf, project_cons_same]

theorem mprojectOf_cons_other (i j : Nat) (ev : MEv Inst Op) (l : List (Nat × MEv Inst Op))
    (h : j ≠ i) : mprojectOf i ((j, ev) :: l) = mprojectOf i l := by
  simp [mprojectOf, project_cons_other _ _ _ _ h]

/-- in any micro-schedule, instance `i` sees exactly its own micro-events -/
theorem mrun_eq_msolo (readOut : Op → Inst → Out) (ms : List (Nat × MEv Inst Op)) :
    ∀ (s : Nat → Inst) (i : Nat),
      (mrun readOut s ms).1 i = (msolo readOut (s i) (mprojectOf i ms)).1 ∧
      outputsOf i (mrun readOut s ms).2 = (msolo readOut (s i) (mprojectOf i ms)).2 := by
  induction ms with
  | nil => intro s i; exact ⟨rfl, rfl⟩
  | cons e es ih =>
    intro s i
    obtain ⟨j, ev⟩ := e
    obtain ⟨i1, i2⟩ := ih (mexec readOut s (j, ev)).1 i
    rw [mrun_cons, outputsOf_append, i1, i2]
    by_cases hji : j = i
    · subst hji
      rw [mprojectOf_cons_same]
      cases ev with
      | step f => simp [mexec, msolo, outputsOf, project]
      | ret op => simp [mexec, msolo, outputsOf, project]
    · rw [mprojectOf_cons_other _ _ _ _ hji]
      have hne : i ≠ j := fun h => hji h.symm
      cases ev with
      | step f => simp [mexec, outputsOf, project, upd_other _ _ _ _ hne]
      | ret op => simp [mexec, outputsOf, project, hji]

theorem msolo_append (readOut : Op → Inst → Out) (a b : List (MEv Inst Op)) : ∀ (x : Inst),
    msolo readOut x (a ++ b) =
      ((msolo readOut (msolo readOut x a).1 b).1,
       (msolo readOut x a).2 ++ (msolo readOut (msolo readOut x a).1 b).2) := by
  induction a with
  | nil => intro x; rfl
  | cons e es ih =>
    intro x
    cases e with
    | step f => simp only [List.cons_append, msolo]; exact ih (f x)
    | ret op => simp only [List.cons_append, msolo, ih x]

theorem msolo_steps (readOut : Op → Inst → Out) (fs : List (Inst → Inst)) : ∀ (x : Inst),
    msolo readOut x (fs.map (MEv.step (Op := Op))) = (fs.foldl (fun x f => f x) x, []) := by
  induction fs with
  | nil => intro x; rfl
  | cons f fs ih => intro x; simp only [List.map_cons, msolo, List.foldl_cons]; exact ih (f x)

/-- the micro-events of one call, executed alone, are the atomic call -/
theorem msolo_expandOp (micro : Op → List (Inst → Inst)) (readOut : Op → Inst → Out) (op : Op)
    (x : Inst) :
    msolo readOut x (expandOp micro op) =
      ((stepOfMicro micro readOut op x ()).1, [(stepOfMicro micro readOut op x ()).2.2]) := by
  simp only [expandOp, msolo_append, msolo_steps, msolo, stepOfMicro, List.nil_append]

/-- the micro-events of a program, executed alone, are the solo run of its atomic calls -/
theorem msolo_expand (micro : Op → List (Inst → Inst)) (readOut : Op → Inst → Out)
    (ops : List Op) : ∀ (x : Inst),
    msolo readOut x (expand micro ops) =
      ((soloRun (stepOfMicro micro readOut) x () ops).1,
       (soloRun (stepOfMicro micro readOut) x () ops).2.2) := by
  induction ops with
  | nil => intro x; rfl
  | cons op ops ih =>
    intro x
    have h : expand micro (op :: ops) = expandOp micro op ++ expand micro ops := by
      simp [expand]
    rw [h, msolo_append, msolo_expandOp, ih, soloRun_cons]
    rfl

/-- a simulation between two step functions carries over to solo runs -/
theorem soloRun_sim {Inst' Glob' : Type} (π : Inst' → Inst)
    (step' : Op → Inst' → Glob' → Inst' × Glob' × Out)
    (step : Op → Inst → Glob → Inst × Glob × Out)
    (h : ∀ op x' g' g, π (step' op x' g').1 = (step op (π x') g).1 ∧
                        (step' op x' g').2.2 = (step op (π x') g).2.2)
    (hp : GlobPreserved step)
    (ops : List Op) : ∀ (x' : Inst') (g' : Glob') (g : Glob),
      π (soloRun step' x' g' ops).1 = (soloRun step (π x') g ops).1 ∧
      (soloRun step' x' g' ops).2.2 = (soloRun step (π x') g ops).2.2 := by
  induction ops with
  | nil => intro x' g' g; exact ⟨rfl, rfl⟩
  | cons op ops ih =>
    intro x' g' g
    obtain ⟨h1, h2⟩ := h op x' g' g
    obtain ⟨i1, i2⟩ := ih (step' op x' g').1 (step' op x' g').2.1 g
    simp only [soloRun_cons]
    rw [hp op (π x') g, ← h1, ← h2]
    exact ⟨i1, by rw [i2]⟩

end Generic

/-! ### the modelled routines -/

/-- the micro-steps of a modelled routine compose to the routine -/
theorem rmicro_atomic (op : ROp) (x : RInst) (o : ROut) :
    (rmicro op).foldl (fun x f => f x) (x, o) = rcall op x := by
  obtain ⟨m, w, cs⟩ := x
  cases op with
  | inverseDynamics st qd qdd tau fext => cases fext <;> rfl
  | _ => rfl

end Rbdl.L20
