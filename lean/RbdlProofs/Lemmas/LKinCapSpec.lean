import RbdlProofs.Lemmas.LKinCapWs
import RbdlProofs.Lemmas.L01CapFixSim
/-
  Kinematics capstones, specification side: which node of the specification model a body id of the
  code refers to.

  `Spec.nodeKin M S id` looks the id up in the node list (`apiId`).  `Resolves m M P id b T` packages
  what the capstone theorems need about a body id:
  * the code resolves `id` to the movable body `b` and the constant transform `T` (`b = id`, `T = 1`
    for a movable body; `mFixedBodies[id − disc].mMovableParent`, `.mParentTransform` for a fixed body);
  * the specification's pose jet of the node with that id is `P b ∘ T` for every motion, where `P` is a
    table of world pose jets of the movable bodies that satisfies the recursion of the model.
  It is established from `Refines` (movable ids), from `RefinesF` + `FixedIds` (movable and fixed ids).
-/
namespace Rbdl.LKinCap
open Lean.Grind Rbdl Rbdl.Spec Rbdl.L06 Rbdl.L05 Rbdl.L01Cap Rbdl.Loops
set_option linter.unusedSimpArgs false
set_option linter.unusedVariables false
set_option linter.unusedSectionVars false

/-! ### lookup in a zipped list -/

theorem find?_zip_at {A B : Type} (p : A → Bool) :
    ∀ (l : List A) (k : List B) (n : Nat) (a : A) (b : B),
      l[n]? = some a → k[n]? = some b → p a = true →
      (∀ n' a', n' < n → l[n']? = some a' → p a' = false) →
      (l.zip k).find? (fun x => p x.1) = some (a, b) := by
  intro l
  induction l with
  | nil => intro k n a b h; simp at h
  | cons a0 l ih =>
    intro k n a b hl hk hp hfirst
    cases k with
    | nil => simp at hk
    | cons b0 k =>
      cases n with
      | zero =>
        simp only [List.getElem?_cons_zero, Option.some.injEq] at hl hk
        subst hl; subst hk
        rw [List.zip_cons_cons, List.find?_cons]
        simp only [hp]
      | succ n =>
        rw [List.getElem?_cons_succ] at hl hk
        have h0 : p a0 = false := hfirst 0 a0 (by omega) rfl
        rw [List.zip_cons_cons, List.find?_cons]
        simp only [h0]
        exact ih k n a b hl hk hp (fun n' a' hn' ha' =>
          hfirst (n' + 1) a' (by omega) (by rw [List.getElem?_cons_succ]; exact ha'))

section
variable {α : Type} [Field α] [DecidableEq α]

theorem kinTable_get (M : SModel α) (S : State α) (hne : M.nodes ≠ []) (n : Nat)
    (hn : n < M.nodes.length) : (kinTable M S)[n]? = some (specKin M S n) := by
  have hl : n < (kinTable M S).length := by rw [kinTable_length M S hne]; exact hn
  have := kinTable_getD M S n
  rw [List.getD_eq_getElem?_getD, List.getElem?_eq_getElem hl] at this
  rw [List.getElem?_eq_getElem hl]
  exact congrArg some this

/-- `Spec.nodeKin` finds the first node with the given id -/
theorem nodeKin_at (M : SModel α) (S : State α) (n id : Nat) (nd : SNode α)
    (hnd : M.nodes[n]? = some nd) (hid : nd.apiId = id)
    (hfirst : ∀ n' nd', n' < n → M.nodes[n']? = some nd' → nd'.apiId ≠ id) :
    nodeKin M S id = specKin M S n := by
  have hne : M.nodes ≠ [] := by intro h; rw [h] at hnd; simp at hnd
  have hn : n < M.nodes.length := by
    rcases Nat.lt_or_ge n M.nodes.length with h | h
    · exact h
    · rw [List.getElem?_eq_none h] at hnd; cases hnd
  have key := find?_zip_at (fun x : SNode α => x.apiId == id) M.nodes (kinTable M S) n nd
    (specKin M S n) hnd (kinTable_get M S hne n hn) (by simp [hid])
    (fun n' nd' h1 h2 => by simp [hfirst n' nd' h1 h2])
  unfold nodeKin
  dsimp only at key ⊢
  rw [key]

/-! ### what the capstones need about a body id -/

/-- the tables of pose jets satisfy the recursion of the model, for every motion -/
def PoseTable (m : ModelS α) (P : QS α → VecN α → VecN α → Nat → Pose (D2 α)) : Prop :=
  ∀ st qd qdd, PoseRec m st qd qdd (P st qd qdd)

/-- the code resolves the body id `id` to the movable body `b` and the constant transform `T` -/
def CodeAt (m : ModelS α) (id b : Nat) (T : XT α) : Prop :=
  (¬ fixedDisc ≤ id ∧ b = id ∧ T = XT.id) ∨
  (m.isFixedBodyId id = true ∧ b = (m.fixedBody (id - fixedDisc)).movableParent ∧
    T = (m.fixedBody (id - fixedDisc)).parentTransform)

structure Resolves (m : ModelS α) (M : SModel α)
    (P : QS α → VecN α → VecN α → Nat → Pose (D2 α)) (id b : Nat) (T : XT α) : Prop where
  b_lt : b < m.nBodies
  b_mov : ¬ fixedDisc ≤ b
  rot : T.E.IsRot
  code : CodeAt m id b T
  kin : ∀ st qd qdd, nodeKin M (stateOf st qd qdd) id
    = compKin (NodeKin.ofPose (P st qd qdd b)) (NodeKin.ofPose (constPose T))

theorem compKin_constId (K : Pose (D2 α)) :
    compKin (NodeKin.ofPose K) (NodeKin.ofPose (constPose (XT.id : XT α))) = NodeKin.ofPose K := by
  rw [constPose_id, ← ofPose_comp, pose_comp_id]

/-! ### models without fixed bodies (`Refines`) -/

/-- the pose table of the specification -/
def specTable (M : SModel α) : QS α → VecN α → VecN α → Nat → Pose (D2 α) :=
  fun st qd qdd i => specPose M (stateOf st qd qdd) i

theorem poseTable_refines {m : ModelS α} {M : SModel α} (hm : ModelOK m) (hR : Refines m M) :
    PoseTable m (specTable M) := fun st qd qdd =>
  ⟨(specPose_rec hm hR st qd qdd).1, (specPose_rec hm hR st qd qdd).2⟩

theorem resolves_refines {m : ModelS α} {M : SModel α} (hm : ModelOK m) (hR : Refines m M)
    (id : Nat) (hid : id < m.nBodies) (hfd : id < fixedDisc) :
    Resolves m M (specTable M) id id XT.id := by
  refine ⟨hid, by omega, M3.isRot_one, Or.inl ⟨by omega, rfl, rfl⟩, fun st qd qdd => ?_⟩
  obtain ⟨nd, hnd⟩ := node_exists hR id hid
  -- node `i` carries the id `i`
  have hapi : ∀ (i : Nat) (nd' : SNode α), M.nodes[i]? = some nd' → nd'.apiId = i := by
    intro i nd' h
    by_cases h0 : i = 0
    · subst h0; exact (hR.base nd' h).2.1
    · exact (hR.node i nd' (by omega) h).apiId
  have hfirst : ∀ (n' : Nat) (nd' : SNode α), n' < id → M.nodes[n']? = some nd' → nd'.apiId ≠ id :=
    fun n' nd' h1 h2 => by rw [hapi n' nd' h2]; omega
  rw [nodeKin_at M _ id id nd hnd (hapi id nd hnd) hfirst, compKin_constId]
  rfl

/-! ### models with fixed bodies (`RefinesF`) -/

/-- the bookkeeping of the body ids that `RefinesF` does not record: ids are unique, and fixed body
    `k` of the model is a node with id `disc + k` that moves with `mMovableParent` at the offset
    `mParentTransform` -/
structure FixedIds (m : ModelS α) (M : SModel α) (off : Nat → XT α) : Prop where
  inj : ∀ (n n' : Nat) (nd nd' : SNode α), M.nodes[n]? = some nd → M.nodes[n']? = some nd' → nd.apiId = nd'.apiId →
    n = n'
  fix : ∀ k, k < m.fixedBodies.length → ∃ n, ∃ nd : SNode α, 1 ≤ n ∧ M.nodes[n]? = some nd ∧
    nd.apiId = fixedDisc + k ∧ nd.movableId = (m.fixedBody k).movableParent ∧
    off n = (m.fixedBody k).parentTransform

/-- the pose table of the movable bodies, read off the specification -/
def specTableF (M : SModel α) (nodeOf : Nat → Nat) :
    QS α → VecN α → VecN α → Nat → Pose (D2 α) :=
  fun st qd qdd i => specPose M (stateOf st qd qdd) (nodeOf i)

theorem poseTable_refinesF {m : ModelS α} {M : SModel α} {off : Nat → XT α} {nodeOf : Nat → Nat}
    (hm : ModelOK m) (hR : RefinesF m M off nodeOf) : PoseTable m (specTableF M nodeOf) :=
  fun st qd qdd => ⟨(specPoseF_rec hm hR st qd qdd).1, (specPoseF_rec hm hR st qd qdd).2⟩

/-- a movable body id (or the base) of a model with fixed bodies -/
theorem resolves_refinesF_movable {m : ModelS α} {M : SModel α} {off : Nat → XT α}
    {nodeOf : Nat → Nat} (hm : ModelOK m) (hR : RefinesF m M off nodeOf)
    (hI : FixedIds m M off) (id : Nat) (hid : id < m.nBodies) (hfd : id < fixedDisc) :
    Resolves m M (specTableF M nodeOf) id id XT.id := by
  refine ⟨hid, by omega, M3.isRot_one, Or.inl ⟨by omega, rfl, rfl⟩, fun st qd qdd => ?_⟩
  -- the node of body `id`
  have hnode : ∃ nd, M.nodes[nodeOf id]? = some nd ∧ nd.apiId = id := by
    by_cases h0 : id = 0
    · subst h0
      obtain ⟨b, hb, _, hb2, _⟩ := hR.base
      rw [hR.nodeOf0]
      exact ⟨b, hb, hb2⟩
    · obtain ⟨_, nlt⟩ := hR.nodeOf_lt id (by omega) hid
      have hget := List.getElem?_eq_getElem nlt
      obtain ⟨a1, a2⟩ := hR.nodeOf_mov id _ (by omega) hid hget
      exact ⟨_, hget, by rw [a1, a2]⟩
  obtain ⟨nd, hnd, hapi⟩ := hnode
  have hfirst : ∀ (n' : Nat) (nd' : SNode α), n' < nodeOf id → M.nodes[n']? = some nd' →
      nd'.apiId ≠ id := fun n' nd' h1 h2 h3 => by
    have := hI.inj n' (nodeOf id) nd' nd h2 hnd (by rw [h3, hapi])
    omega
  rw [nodeKin_at M _ (nodeOf id) id nd hnd hapi hfirst, compKin_constId]
  rfl

/-- a fixed body id `disc + k` -/
theorem resolves_refinesF_fixed {m : ModelS α} {M : SModel α} {off : Nat → XT α}
    {nodeOf : Nat → Nat} (hm : ModelOK m) (hR : RefinesF m M off nodeOf)
    (hI : FixedIds m M off) (hcap : m.nBodies ≤ fixedDisc) (k : Nat)
    (hk : k < m.fixedBodies.length) :
    Resolves m M (specTableF M nodeOf) (fixedDisc + k) (m.fixedBody k).movableParent
      (m.fixedBody k).parentTransform := by
  obtain ⟨n, nd, n1, hnd, hapi, hmv, hoff⟩ := hI.fix k hk
  have hN := hR.node n nd n1 hnd
  have hb := hm.wf.fixed_parent k hk
  have hfix : m.isFixedBodyId (fixedDisc + k) = true :=
    (isFixed_iff m _ hm.wf.fixed_cap).2 ⟨by omega, by rw [Nat.add_sub_cancel_left]; exact hk⟩
  refine ⟨hb, by omega, by rw [← hoff]; exact hN.offrot,
    Or.inr ⟨hfix, by rw [Nat.add_sub_cancel_left], by rw [Nat.add_sub_cancel_left]⟩,
    fun st qd qdd => ?_⟩
  have hfirst : ∀ (n' : Nat) (nd' : SNode α), n' < n → M.nodes[n']? = some nd' →
      nd'.apiId ≠ fixedDisc + k := fun n' nd' h1 h2 h3 => by
    have := hI.inj n' n nd' nd h2 hnd (by rw [h3, hapi])
    omega
  rw [nodeKin_at M _ n (fixedDisc + k) nd hnd hapi hfirst]
  unfold specKin
  rw [specPose_off hR _ n nd hnd, ofPose_comp, hmv, hoff]
  rfl

end
end Rbdl.LKinCap
