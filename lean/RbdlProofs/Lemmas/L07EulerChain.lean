import RbdlProofs.Lemmas.L07Jcalc
import RbdlProofs.Props.C01
/-
  C07: specialised Euler joint versus the chain of three built-in revolute joints
  (`jcalc` level, one step of the forward recursion, the generalized forces of the backward pass).
-/
namespace Rbdl.L07
open Lean.Grind Rbdl Rbdl.Loops Rbdl.L01
set_option linter.unusedVariables false
set_option linter.unusedSimpArgs false
variable {α : Type} [Field α]

/-- Joint `i` of `mE` is a specialised Euler joint; joints `i₁, i₂, i₃` of `mC` are the built-in
    revolute joints about its three axes, on the same three coordinates; the first carries the
    joint frame of `i`, the other two the identity (this is what `AddBody` creates for the
    emulated 3-DoF joint with these axes). -/
structure EulerChain (mE : ModelS α) (i : Nat) (mC : ModelS α) (i1 i2 i3 : Nat) : Prop where
  euler : isEuler (mE.joint i).jt = true
  dof : (mE.joint i).dof = 3
  j1 : (mC.joint i1).jt = (eulerAxes (mE.joint i).jt).1
  j2 : (mC.joint i2).jt = (eulerAxes (mE.joint i).jt).2.1
  j3 : (mC.joint i3).jt = (eulerAxes (mE.joint i).jt).2.2
  d1 : (mC.joint i1).dof = 1
  d2 : (mC.joint i2).dof = 1
  d3 : (mC.joint i3).dof = 1
  q1 : (mC.joint i1).qIndex = (mE.joint i).qIndex
  q2 : (mC.joint i2).qIndex = (mE.joint i).qIndex + 1
  q3 : (mC.joint i3).qIndex = (mE.joint i).qIndex + 2
  x1 : mC.XT_ i1 = mE.XT_ i
  x2 : mC.XT_ i2 = XT.id
  x3 : mC.XT_ i3 = XT.id

theorem eulerAxes_rev (e : JT) (he : isEuler e = true) :
    isRevXYZ (eulerAxes e).1 = true ∧ isRevXYZ (eulerAxes e).2.1 = true ∧
    isRevXYZ (eulerAxes e).2.2 = true := by
  l07_euler e he <;> decide

theorem isRevXYZ_ne_custom {t : JT} (h : isRevXYZ t = true) : t ≠ .custom := by
  cases t <;> first | exact absurd h (by decide) | exact fun e => nomatch e

theorem isEuler_ne_custom {t : JT} (h : isEuler t = true) : t ≠ .custom := by
  cases t <;> first | exact absurd h (by decide) | exact fun e => nomatch e

variable {mE mC : ModelS α} {i i1 i2 i3 : Nat}

theorem EulerChain.rev (h : EulerChain mE i mC i1 i2 i3) :
    isRevXYZ (mC.joint i1).jt = true ∧ isRevXYZ (mC.joint i2).jt = true ∧
    isRevXYZ (mC.joint i3).jt = true := by
  rw [h.j1, h.j2, h.j3]; exact eulerAxes_rev _ h.euler

theorem EulerChain.arity (h : EulerChain mE i mC i1 i2 i3) :
    mE.arity i = .three ∧ mC.arity i1 = .one ∧ mC.arity i2 = .one ∧ mC.arity i3 = .one := by
  obtain ⟨r1, r2, r3⟩ := h.rev
  exact ⟨L01.arity_of_dof3 _ _ (isEuler_ne_custom h.euler) h.dof,
    L01.arity_of_dof1 _ _ (isRevXYZ_ne_custom r1) h.d1,
    L01.arity_of_dof1 _ _ (isRevXYZ_ne_custom r2) h.d2,
    L01.arity_of_dof1 _ _ (isRevXYZ_ne_custom r3) h.d3⟩

/-- **A** (all four Euler orders): what `jcalc` computes for the Euler joint, in terms of what it
    computes for the three revolute joints (each from an arbitrary workspace holding the
    construction-time entries). -/
theorem euler_jcalc (h : EulerChain mE i mC i1 i2 i3) (wE w1 w2 w3 : WS α) (st : QS α)
    (qd : VecN α) (hE : FixedW mE wE i) (hw1 : FixedW mC w1 i1) (hw2 : FixedW mC w2 i2)
    (hw3 : FixedW mC w3 i3) :
    let X1 := (jcalc mC w1 i1 st qd).X_lambda i1
    let X2 := (jcalc mC w2 i2 st qd).X_lambda i2
    let X3 := (jcalc mC w3 i3 st qd).X_lambda i3
    let k := (mE.joint i).qIndex
    (jcalc mE wE i st qd).X_lambda i = X3 * X2 * X1 ∧
    (jcalc mE wE i st qd).S3 i
      = ⟨X3.apply (X2.apply ((jcalc mC w1 i1 st qd).S i1)), X3.apply ((jcalc mC w2 i2 st qd).S i2),
         (jcalc mC w3 i3 st qd).S i3⟩ ∧
    (jcalc mE wE i st qd).v_J i
      = chainVJ X2 X3 ((jcalc mC w1 i1 st qd).v_J i1) ((jcalc mC w2 i2 st qd).v_J i2)
          ((jcalc mC w3 i3 st qd).v_J i3) ∧
    (jcalc mE wE i st qd).c_J i
      = chainCJ X2 X3 ((jcalc mC w1 i1 st qd).v_J i1) ((jcalc mC w1 i1 st qd).c_J i1)
          ((jcalc mC w2 i2 st qd).v_J i2) ((jcalc mC w2 i2 st qd).c_J i2)
          ((jcalc mC w3 i3 st qd).v_J i3) ((jcalc mC w3 i3 st qd).c_J i3) := by
  intro X1 X2 X3 k
  obtain ⟨r1, r2, r3⟩ := h.rev
  obtain ⟨a1, a2, a3, a4⟩ := jcalc_rev mC w1 i1 st qd r1 hw1
  obtain ⟨b1, b2, b3, b4⟩ := jcalc_rev mC w2 i2 st qd r2 hw2
  obtain ⟨c1, c2, c3, c4⟩ := jcalc_rev mC w3 i3 st qd r3 hw3
  obtain ⟨e1, e2, e3, e4⟩ := jcalc_euler mE wE i st qd h.euler hE
  have hX2 : X2 = rotJ (eulerAxes (mE.joint i).jt).2.1 (st.c (k+1)) (st.s (k+1)) := by
    show (jcalc mC w2 i2 st qd).X_lambda i2 = _
    rw [b1, h.x2, C16.mul_id, h.j2, h.q2]
  have hX3 : X3 = rotJ (eulerAxes (mE.joint i).jt).2.2 (st.c (k+2)) (st.s (k+2)) := by
    show (jcalc mC w3 i3 st qd).X_lambda i3 = _
    rw [c1, h.x3, C16.mul_id, h.j3, h.q3]
  have hX1 : X1 = rotJ (eulerAxes (mE.joint i).jt).1 (st.c k) (st.s k) * mE.XT_ i := by
    show (jcalc mC w1 i1 st qd).X_lambda i1 = _
    rw [a1, h.x1, h.j1, h.q1]
  refine ⟨?_, ?_, ?_, ?_⟩
  · rw [e1, eulerE_eq _ h.euler, hX1, hX2, hX3]; simp only [C16.mul_assoc]; rfl
  · rw [e2, eulerS_eq _ h.euler, hX2, hX3, a2, b2, c2, h.j1, h.j2, h.j3]
  · rw [e3, eulerVJ_eq _ h.euler, hX2, hX3, a3, b3, c3, h.j1, h.j2, h.j3, h.q1, h.q2, h.q3]
  · rw [e4, eulerCJ_eq _ h.euler, hX2, hX3, a3, b3, c3, a4, b4, c4, h.j1, h.j2,
      h.j3, h.q1, h.q2, h.q3]


theorem Sqdd_one (m : ModelS α) (W : WS α) (j : Nat) (qdd : VecN α) (h : m.arity j = .one) :
    W.Sqdd m j qdd = qdd (m.joint j).qIndex * W.S j := by
  unfold WS.Sqdd; rw [h]

theorem Sqdd_three (m : ModelS α) (W : WS α) (j : Nat) (qdd : VecN α) (h : m.arity j = .three) :
    W.Sqdd m j qdd = (W.S3 j).mulV3 ⟨qdd (m.joint j).qIndex, qdd ((m.joint j).qIndex + 1),
      qdd ((m.joint j).qIndex + 2)⟩ := by
  unfold WS.Sqdd; rw [h]

theorem rotJ_mul_id_isRot (t : JT) (c s : α) (hcs : c * c + s * s = 1) (X : XT α)
    (hX : X = XT.id) : (rotJ t c s * X).E.IsRot ∧ (rotJ t c s * X).r = V3.zero := by
  subst hX
  rw [C16.mul_id]
  exact ⟨rotJ_isRot t c s hcs, rotJ_r t c s⟩

/-- **B** (all four Euler orders): one step of the `UpdateKinematics` loop over the Euler joint
    leaves the same `X_base`, `v`, `a` as three steps over the chain. -/
theorem euler_ukBody (h : EulerChain mE i mC i1 i2 i3) (wE wC : WS α) (st : QS α)
    (qd qdd : VecN α) (hE : FixedW mE wE i) (hw1 : FixedW mC wC i1) (hw2 : FixedW mC wC i2)
    (hw3 : FixedW mC wC i3)
    (h12 : i1 ≠ i2) (h13 : i1 ≠ i3) (h23 : i2 ≠ i3) (n1 : i1 ≠ 0) (n2 : i2 ≠ 0)
    (l2 : mC.lam i2 = i1) (l3 : mC.lam i3 = i2)
    (hc1 : st.c ((mE.joint i).qIndex + 1) * st.c ((mE.joint i).qIndex + 1)
      + st.s ((mE.joint i).qIndex + 1) * st.s ((mE.joint i).qIndex + 1) = 1)
    (hc2 : st.c ((mE.joint i).qIndex + 2) * st.c ((mE.joint i).qIndex + 2)
      + st.s ((mE.joint i).qIndex + 2) * st.s ((mE.joint i).qIndex + 2) = 1)
    (hp : parentKin mE wE i = parentKin mC wC i1) :
    kinOf (L06.ukBody mE st qd qdd i wE) i
      = kinOf (L06.ukBody mC st qd qdd i3 (L06.ukBody mC st qd qdd i2
          (L06.ukBody mC st qd qdd i1 wC))) i3 := by
  obtain ⟨aE, a1, a2, a3⟩ := h.arity
  obtain ⟨r1, r2, r3⟩ := h.rev
  obtain ⟨e1, e2, e3, e4⟩ := euler_jcalc h wE wC wC wC st qd hE hw1 hw2 hw3
  rw [ukBody_kin _ _ _ _ _ _ (by rw [aE]; exact fun e => nomatch e),
    ukBody3_kin mC st qd qdd i1 i2 i3 wC h12 h13 h23 n1 n2 l2 l3
      (by rw [a1]; exact fun e => nomatch e) (by rw [a2]; exact fun e => nomatch e)
      (by rw [a3]; exact fun e => nomatch e) (isRevXYZ_ne_custom r2) (isRevXYZ_ne_custom r3)]
  obtain ⟨R2, z2⟩ : ((jcalc mC wC i2 st qd).X_lambda i2).E.IsRot ∧
      ((jcalc mC wC i2 st qd).X_lambda i2).r = V3.zero := by
    rw [(jcalc_rev mC wC i2 st qd r2 hw2).1, h.q2]
    exact rotJ_mul_id_isRot _ _ _ hc1 _ h.x2
  obtain ⟨R3, z3⟩ : ((jcalc mC wC i3 st qd).X_lambda i3).E.IsRot ∧
      ((jcalc mC wC i3 st qd).X_lambda i3).r = V3.zero := by
    rw [(jcalc_rev mC wC i3 st qd r3 hw3).1, h.q3]
    exact rotJ_mul_id_isRot _ _ _ hc2 _ h.x3
  rw [kstep3 _ _ _ R2 R3 (mul_apply3_r0 _ _ _ z2 z3), e1, e3, e4, hp,
    Sqdd_three _ _ _ _ aE, Sqdd_one _ _ _ _ a1, Sqdd_one _ _ _ _ a2, Sqdd_one _ _ _ _ a3, e2,
    h.q1, h.q2, h.q3]
  simp only [M63.mulV3, apply_smul]


/-- a massless body (virtual, or with zero spatial inertia) carries no body force -/
theorem bodyForce_massless (m : ModelS α) (w : WS α) (i : Nat)
    (h : (m.body i).isVirtual = true ∨ m.rbi i = RBI.zero) : bodyForce m w i = SV.zero := by
  unfold bodyForce
  rcases h with h | h
  · rw [if_pos h]
  · split
    · rfl
    · rw [h]; alg_ext

/-- the accumulated force of a body that carries no force of its own and has a single child -/
theorem rneaFtot_single (m : ModelS α) (W : WS α)
    (htree : ∀ i, 1 ≤ i → i < m.nBodies → m.lam i < i) (i c : Nat) (hi : i ≠ 0)
    (hf : W.f i = SV.zero) (hch : childrenOf m.lam (m.nBodies - 1) i = [c]) :
    rneaFtot m W i = (W.X_lambda c).applyTranspose (rneaFtot m W c) := by
  rw [rneaFtot_rec m W htree i hi, hf, hch]
  simp only [lsum]
  alg_ext

/-- **C**, chain side: the three generalized forces of a chain `i₁ → i₂ → i₃` whose bodies
    `i₁`, `i₂` carry no force and have no other children are `Sᵀ F`, `F` the accumulated force of
    body `i₃` and `S` the axes transported into the frame of `i₃`. -/
theorem chain_tau (m : ModelS α) (htree : ∀ i, 1 ≤ i → i < m.nBodies → m.lam i < i) (W : WS α)
    (tau : VecN α)
    (hdisj : ∀ i j x, 1 ≤ i → i < m.nBodies → 1 ≤ j → j < m.nBodies →
      owns m W i x → owns m W j x → i = j)
    (i1 i2 i3 : Nat) (b1 : 1 ≤ i1 ∧ i1 < m.nBodies) (b2 : 1 ≤ i2 ∧ i2 < m.nBodies)
    (b3 : 1 ≤ i3 ∧ i3 < m.nBodies)
    (a1 : m.arity i1 = .one) (a2 : m.arity i2 = .one) (a3 : m.arity i3 = .one)
    (f1 : W.f i1 = SV.zero) (f2 : W.f i2 = SV.zero)
    (ch1 : childrenOf m.lam (m.nBodies - 1) i1 = [i2])
    (ch2 : childrenOf m.lam (m.nBodies - 1) i2 = [i3]) :
    (⟨(rneaBackward m W tau).2 (m.joint i1).qIndex, (rneaBackward m W tau).2 (m.joint i2).qIndex,
      (rneaBackward m W tau).2 (m.joint i3).qIndex⟩ : V3 α)
      = M63.tmulSV ⟨(W.X_lambda i3).apply ((W.X_lambda i2).apply (W.S i1)),
          (W.X_lambda i3).apply (W.S i2), W.S i3⟩ (rneaFtot m W i3) := by
  rw [C01.rnea_tau_one m htree W tau hdisj i1 b1.1 b1.2 a1,
    C01.rnea_tau_one m htree W tau hdisj i2 b2.1 b2.2 a2,
    C01.rnea_tau_one m htree W tau hdisj i3 b3.1 b3.2 a3,
    rneaFtot_single m W htree i1 i2 (by omega) f1 ch1,
    rneaFtot_single m W htree i2 i3 (by omega) f2 ch2]
  simp only [M63.tmulSV, C16.apply_dot_eq_dot_applyTranspose]

/-- after the forward pass of `InverseDynamics` a massless body without external force holds
    `f = 0` -/
theorem massless_f (m : ModelS α) (hc : CustomInj m)
    (htree : ∀ i, 1 ≤ i → i < m.nBodies → m.lam i < i)
    (w : WS α) (st : QS α) (qd qdd : VecN α) (fext : Option (Nat → SV α)) (j : Nat)
    (bj : 1 ≤ j ∧ j < m.nBodies)
    (mj : (m.body j).isVirtual = true ∨ m.rbi j = RBI.zero)
    (fj : ∀ g, fext = some g → g j = SV.zero) :
    (idForward m w st qd qdd fext).f j = SV.zero := by
  obtain ⟨_, hfc, _⟩ := idForward_closed m hc htree w st qd qdd fext
  rw [hfc.f j bj.1 bj.2]
  unfold netForce
  cases hfe : fext with
  | none => exact bodyForce_massless _ _ _ mj
  | some g =>
    simp only
    rw [bodyForce_massless _ _ _ mj, fj g hfe]
    alg_ext

/-- **C** (all four Euler orders): `InverseDynamics` on a well-formed model containing the chain
    `i₁ → i₂ → i₃` (massless intermediate bodies without other children, no external force on
    them) writes to the three chain coordinates `S₃ᵀ F`: `S₃` is the motion subspace `jcalc`
    computes for the Euler joint at the same angles, `F` the accumulated force of body `i₃`. -/
theorem euler_chain_tau (h : EulerChain mE i mC i1 i2 i3) (hwf : mC.WF) (hc : CustomInj mC)
    (harity : ∀ j, 1 ≤ j → j < mC.nBodies → mC.arity j ≠ .other)
    (wE w : WS α) (st : QS α) (qd qdd tau : VecN α) (fext : Option (Nat → SV α))
    (hE : FixedW mE wE i) (hw1 : FixedW mC w i1) (hw2 : FixedW mC w i2) (hw3 : FixedW mC w i3)
    (b1 : 1 ≤ i1 ∧ i1 < mC.nBodies) (b2 : 1 ≤ i2 ∧ i2 < mC.nBodies)
    (b3 : 1 ≤ i3 ∧ i3 < mC.nBodies)
    (m1 : (mC.body i1).isVirtual = true ∨ mC.rbi i1 = RBI.zero)
    (m2 : (mC.body i2).isVirtual = true ∨ mC.rbi i2 = RBI.zero)
    (fe : ∀ g, fext = some g → g i1 = SV.zero ∧ g i2 = SV.zero)
    (ch1 : childrenOf mC.lam (mC.nBodies - 1) i1 = [i2])
    (ch2 : childrenOf mC.lam (mC.nBodies - 1) i2 = [i3]) :
    let k := (mE.joint i).qIndex
    (⟨(inverseDynamics mC w st qd qdd tau fext).2 k,
      (inverseDynamics mC w st qd qdd tau fext).2 (k + 1),
      (inverseDynamics mC w st qd qdd tau fext).2 (k + 2)⟩ : V3 α)
      = ((jcalc mE wE i st qd).S3 i).tmulSV
          (rneaFtot mC (idForward mC w st qd qdd fext) i3) := by
  intro k
  obtain ⟨hF, hfc, _⟩ := idForward_closed mC hc hwf.lam_lt w st qd qdd fext
  have hlen := scols_length_closed mC hwf st qd qdd w _ hF harity
  have hdisj := owns_disjoint_of_WF mC _ hwf hlen
  obtain ⟨_, a1, a2, a3⟩ := h.arity
  have f1 := massless_f mC hc hwf.lam_lt w st qd qdd fext i1 b1 m1 (fun g hg => (fe g hg).1)
  have f2 := massless_f mC hc hwf.lam_lt w st qd qdd fext i2 b2 m2 (fun g hg => (fe g hg).2)
  have key := chain_tau mC hwf.lam_lt _ tau hdisj i1 i2 i3 b1 b2 b3 a1 a2 a3 f1 f2 ch1 ch2
  rw [← inverseDynamics_eq, h.q1, h.q2, h.q3] at key
  rw [key, hF.jX i2 b2.1 b2.2, hF.jX i3 b3.1 b3.2, hF.jS i1 b1.1 b1.2, hF.jS i2 b2.1 b2.2,
    hF.jS i3 b3.1 b3.2, (euler_jcalc h wE w w w st qd hE hw1 hw2 hw3).2.1]

end Rbdl.L07
