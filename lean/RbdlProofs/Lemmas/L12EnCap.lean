import RbdlProofs.Lemmas.L12EnPow
import RbdlProofs.Lemmas.LDynCapCom4
/-
  C12 (energy balance), part 3: the hypotheses of the power identity (`L12En.EnergyOK`) hold for every
  specification model that describes a code-level model (`Refines` / `RefinesF`) at every admissible state.

  * `idxOK_of_refines(F)`  the joints of the specification read the coordinates of the model's joints
                           (`C14.coord_ranges`);
  * `energyOK_of_link`     pose jets of the bodies are rotation jets (`BodyForm` of the movable bodies,
                           constant offsets of the bodies attached through fixed joints), symmetric inertias,
                           bodies attached to the base do not move.
-/
namespace Rbdl.L12En
open Lean.Grind Rbdl Rbdl.Spec Rbdl.L06 Rbdl.L01 Rbdl.L01Cap Rbdl.Loops Rbdl.LDynCap
set_option linter.unusedSimpArgs false
set_option linter.unusedVariables false
set_option linter.unusedSectionVars false

section
variable {α : Type} [Field α] [DecidableEq α]

/-- the position-level joint of the specification has the number of coordinates the model's joint
    declares -/
theorem sjoint_dof_le (m : ModelS α) (i : Nat) (hd : JointDecl (m.joint i))
    (hc : m.jointOk (m.joint i)) : (m.sjoint i).dof ≤ (m.joint i).dof := by
  unfold JointDecl at hd
  unfold ModelS.jointOk at hc
  unfold ModelS.sjoint
  dsimp only at hd ⊢
  cases hj : (m.joint i).jt <;> simp only [hj, SJoint.dof] at hd hc ⊢ <;> try omega
  case custom =>
    have hc2 := (hc trivial).2
    cases hk : m.custom (m.joint i).customIdx <;> simp only [hk, CustomKind.dof, SJoint.dof] at hc2 ⊢ <;>
      omega

theorem mem_getElem? {β : Type} {l : List β} {x : β} (h : x ∈ l) : ∃ n : Nat, l[n]? = some x := by
  obtain ⟨n, hn, hv⟩ := List.getElem_of_mem h
  exact ⟨n, by rw [List.getElem?_eq_getElem hn, hv]⟩

theorem idx_movable {m : ModelS α} (hm : ModelOK m) (i : Nat) (i1 : 1 ≤ i) (i2 : i < m.nBodies)
    (k : Nat) (hk : k < (m.sjoint i).dof) : (m.joint i).qIndex + k < m.dofCount := by
  have h1 := sjoint_dof_le m i (hm.decl i i1 i2) (hm.wf.custom_ok i i2)
  have h2 := (C14.coord_ranges m hm.wf i i2).1
  omega

theorem idxOK_of_refines {m : ModelS α} {M : SModel α} (hm : ModelOK m) (hR : Refines m M) :
    IdxOK M := by
  intro nd hnd k hk
  obtain ⟨n, hn⟩ := mem_getElem? hnd
  by_cases h0 : n = 0
  · subst h0
    have hb := (hR.base nd hn).2.2
    rw [hb] at hk
    simp only [SJoint.dof] at hk
    omega
  · have hN := hR.node n nd (by omega) hn
    have hlt : n < m.nBodies := by
      rw [← hR.len]
      rcases Nat.lt_or_ge n M.nodes.length with h | h
      · exact h
      · rw [List.getElem?_eq_none h] at hn; cases hn
    rw [hN.qIdx, hR.nv]
    rw [hN.joint] at hk
    exact idx_movable hm n (by omega) hlt k hk

theorem idxOK_of_refinesF {m : ModelS α} {M : SModel α} {off : Nat → XT α} {nodeOf : Nat → Nat}
    (hm : ModelOK m) (hR : RefinesF m M off nodeOf) : IdxOK M := by
  intro nd hnd k hk
  obtain ⟨n, hn⟩ := mem_getElem? hnd
  by_cases h0 : n = 0
  · subst h0
    obtain ⟨b, hb, _, _, _, hbj⟩ := hR.base
    rw [hn] at hb
    cases hb
    rw [hbj] at hk
    simp only [SJoint.dof] at hk
    omega
  · have hN := hR.node n nd (by omega) hn
    by_cases hmv : nd.apiId = nd.movableId
    · rw [hN.mqIdx hmv, hR.nv]
      rw [hN.mjoint hmv] at hk
      exact idx_movable hm nd.movableId (hN.mpos hmv) hN.body_lt k hk
    · rw [hN.fjoint hmv] at hk
      simp only [SJoint.dof] at hk
      omega

/-- a body attached to the base through fixed joints only: zero velocity -/
theorem still_core (X : XT α) (c : V3 α) :
    (compKin (NodeKin.ofPose (Pose.id : Pose (D2 α))) (NodeKin.ofPose (constPose X))).ptd c
      = V3.zero := by
  ext <;> simp only [NodeKin.ptd, compKin, constPose, framePose, Pose.id] <;> jet06_simp <;> grind

theorem zip_kin_index (M : SModel α) (S : State α) (hne : M.nodes ≠ []) (p : SNode α × NodeKin α)
    (hp : p ∈ M.nodes.zip (kinTable M S)) :
    ∃ n, n < M.nodes.length ∧ p = (M.nodes.getD n nd0, specKin M S n) := by
  obtain ⟨n, hn, hv⟩ := List.getElem_of_mem hp
  have hl := zip2_length M S hne
  refine ⟨n, by rw [← hl]; exact hn, ?_⟩
  rw [← zip_kin_getD M S hne n (by rw [← hl]; exact hn), List.getD_eq_getElem?_getD,
    List.getElem?_eq_getElem hn, hv]
  rfl

/-- **the hypotheses of the power identity hold for every specification model linked to a code-level
    model, at every admissible state** -/
theorem energyOK_of_link {m : ModelS α} {M : SModel α} {off : Nat → XT α} {nodeOf : Nat → Nat}
    (hm : ModelOK m) (hL : Link m M off nodeOf) (hidx : IdxOK M) (h2 : (2 : α) ≠ 0) (w : WS α)
    (hw : WSFixed m w) (st : QS α) (hst : StateOK m st) (qd qdd : VecN α) :
    EnergyOK M (stateOf st qd qdd) := by
  have hB : ∀ i, i < m.nBodies → ∃ V A,
      BodyForm (NodeKin.ofPose (specPose M (stateOf st qd qdd) (nodeOf i))) V A := by
    intro i hi
    by_cases h0 : i = 0
    · subst h0
      rw [(hL.fk st qd qdd).1]
      exact ⟨_, _, bf_poseId⟩
    · exact ⟨_, _, (ukc_link hm hL h2 w hw st hst qd qdd i (by omega) hi).1⟩
  refine ⟨hidx, ?_, ?_, ?_⟩
  · intro p hp hb
    obtain ⟨n, hn, rfl⟩ := zip_kin_index M _ hL.ne p hp
    obtain ⟨V, A, hBi⟩ := hB _ (hL.body_lt n hn hb)
    show KinOk (specKin M (stateOf st qd qdd) n)
    rw [link_nodeKin hL _ n hn hb]
    exact (bf_attached hBi (off n) (hL.offrot n hn hb)).kinOk
  · intro nd hnd hb
    obtain ⟨n, hn, hv⟩ := List.getElem_of_mem hnd
    have e : M.nodes.getD n nd0 = nd := by
      rw [List.getD_eq_getElem?_getD, List.getElem?_eq_getElem hn, hv]; rfl
    rw [← e] at hb ⊢
    exact hL.symm n hn hb
  · intro p hp hb h0
    obtain ⟨n, hn, rfl⟩ := zip_kin_index M _ hL.ne p hp
    show (specKin M (stateOf st qd qdd) n).ptd (M.nodes.getD n nd0).com = V3.zero
    have hb0 : bodyOf M n = 0 := h0
    rw [link_nodeKin hL _ n hn hb, hb0, (hL.fk st qd qdd).1]
    exact still_core _ _

end
end Rbdl.L12En
