import RbdlProofs.Lemmas.L18CMono
/-
  C18 at curve level, part 9: closed forms of `Curve.eval`, monotonicity of a well-formed curve with
  non-decreasing y control polygons, and the pre-image property of `calcInverseValue`.
-/
set_option linter.unusedSectionVars false
namespace Rbdl.L18C
open Lean.Grind Std Rbdl.Geom Rbdl.L18

section curve
variable {α : Type} [Field α] [Inhabited α] [LE α] [LT α] [LawfulOrderLT α] [IsLinearOrder α]
  [OrderedRing α] [DecidableLT α] [DecidableLE α] [DecidableEq α]

/-! ### closed forms of `eval` -/
theorem region_cases (c : Curve α) (x : α) :
    (c.region x = .mid ∧ c.x0 ≤ x ∧ x ≤ c.x1) ∨ (c.region x = .left ∧ x < c.x0) ∨
    (c.region x = .right ∧ ¬ (c.x0 ≤ x ∧ x ≤ c.x1) ∧ ¬ x < c.x0) := by
  by_cases a : x ≥ c.x0 ∧ x ≤ c.x1
  · left; exact ⟨by simp only [Curve.region, if_pos a], a.1, a.2⟩
  · by_cases b : x < c.x0
    · right; left; exact ⟨by simp only [Curve.region, if_neg a, if_pos b], b⟩
    · right; right; exact ⟨by simp only [Curve.region, if_neg a, if_neg b], a, b⟩

theorem eval_mid (c : Curve α) (x u : α) (i : Nat) (hm : c.region x = .mid) (hi : c.calcIndex x = some i) :
    c.eval x u = some (bezVal u (c.segY i)) := by
  simp only [Curve.eval, Curve.idxAt, hm, hi, Option.map_some, Curve.valueAt]
theorem eval_left (c : Curve α) (x u : α) (hm : c.region x = .left) :
    c.eval x u = some (c.y0 + c.dydx0 * (x - c.x0)) := by
  simp only [Curve.eval, Curve.idxAt, hm, Option.map_some, Curve.valueAt]
theorem eval_right (c : Curve α) (x u : α) (hm : c.region x = .right) :
    c.eval x u = some (c.y1 + c.dydx1 * (x - c.x1)) := by
  simp only [Curve.eval, Curve.idxAt, hm, Option.map_some, Curve.valueAt]
theorem evalD_mid (c : Curve α) (x u : α) (i k : Nat) (hk : 1 ≤ k) (hm : c.region x = .mid)
    (hi : c.calcIndex x = some i) :
    c.evalD x u k = some (derivDYDX u (c.segX i) (c.segY i) k) := by
  have : k ≠ 0 := by omega
  simp only [Curve.evalD, Curve.idxAt, hm, hi, Option.map_some, Curve.derivAt, this, if_false]
theorem evalD_left (c : Curve α) (x u : α) (hm : c.region x = .left) :
    c.evalD x u 1 = some c.dydx0 ∧ c.evalD x u 2 = some 0 := by
  simp [Curve.evalD, Curve.idxAt, hm, Curve.derivAt]
theorem evalD_right (c : Curve α) (x u : α) (hm : c.region x = .right) :
    c.evalD x u 1 = some c.dydx1 ∧ c.evalD x u 2 = some 0 := by
  simp [Curve.evalD, Curve.idxAt, hm, Curve.derivAt]

/-! ### order of the y knots -/
theorem mono_p0_le_p5 (p : P6 α) (h : p.Mono) : p.p0 ≤ p.p5 := by
  obtain ⟨a0, a1, a2, a3, a4⟩ := h; grind

theorem yp5_le_yp0 (c : Curve α) (h : c.WF) (hY : ∀ i, i < c.nseg → (c.segY i).Mono) (i j : Nat)
    (hij : i < j) (hj : j < c.nseg) : (c.segY i).p5 ≤ (c.segY j).p0 := by
  induction j with
  | zero => omega
  | succ j ih =>
    by_cases e : i = j
    · subst e; have := h.joinY i hj; grind
    · have h1 := ih (by omega) (by omega)
      have h2 := mono_p0_le_p5 _ (hY j (by omega))
      have h3 := h.joinY j hj
      grind

/-- all values of section `i` lie between its end values -/
theorem sec_bounds (p : P6 α) (u : α) (h : p.Mono) (h0 : 0 ≤ u) (h1 : u ≤ 1) :
    p.p0 ≤ bezVal u p ∧ bezVal u p ≤ p.p5 := by
  obtain ⟨a0, a1, a2, a3, a4⟩ := h
  exact C18.bezVal_bounds u p.p0 p.p5 p h0 h1 (Std.le_refl _) (by grind) (by grind) (by grind) (by grind)
    (by grind) (by grind) (by grind) (by grind) (by grind) (by grind) (Std.le_refl _)

/-- the end slopes of a well-formed curve with monotone y polygons are non-negative -/
theorem end_slopes_nonneg (c : Curve α) (h : c.WF) (hY : ∀ i, i < c.nseg → (c.segY i).Mono) :
    0 ≤ c.dydx0 ∧ 0 ≤ c.dydx1 := by
  have hp := h.pos
  have q : ∀ (a b : α), 0 ≤ a → 0 < b → 0 ≤ (5 * a) / (5 * b) := by
    intro a b ha hb
    have h5 : (0:α) < 5 * b := by grind
    have := Field.IsOrdered.inv_nonneg_iff.mpr (show (0:α) ≤ 5 * b by grind)
    have := OrderedRing.mul_nonneg (show (0:α) ≤ 5 * a by grind) this
    rw [Field.div_eq_mul_inv]; exact this
  constructor
  · rw [h.hd0]
    simp only [derivDYDX, derivDYDX1, derivU1_zero]
    obtain ⟨a0, _⟩ := h.incr 0 hp
    obtain ⟨b0, _⟩ := hY 0 hp
    exact q _ _ (by grind) (by grind)
  · rw [h.hd1]
    simp only [derivDYDX, derivDYDX1, derivU1_one]
    obtain ⟨_, _, _, _, a4⟩ := h.incr (c.nseg - 1) (by omega)
    obtain ⟨_, _, _, _, b4⟩ := hY (c.nseg - 1) (by omega)
    exact q _ _ (by grind) (by grind)

/-- order of the sections selected for `x ≤ x'` -/
theorem calcIndex_mono (c : Curve α) (h : c.WF) (x x' : α) (i i' : Nat) (hx : x ≤ x')
    (hi : c.calcIndex x = some i) (hi' : c.calcIndex x' = some i') : i ≤ i' := by
  obtain ⟨a1, a2, a3⟩ := (calcIndex_iff c h x i).mp hi
  obtain ⟨b1, b2, b3⟩ := (calcIndex_iff c h x' i').mp hi'
  by_cases e : i' < i
  · have := p5_le_p0 c h i' i e a1
    rcases b3 with b3 | ⟨b3, _⟩
    · grind
    · omega
  · omega

/-- monotonicity at curve level -/
theorem eval_mono_raw (c : Curve α) (h : c.WF) (hY : ∀ i, i < c.nseg → (c.segY i).Mono)
    (x x' u u' y y' : α) (hx : x ≤ x') (hu : c.IsRoot x u) (hu' : c.IsRoot x' u')
    (he : c.eval x u = some y) (he' : c.eval x' u' = some y') : y ≤ y' := by
  have hp := h.pos
  have hxx := x0_lt_x1 c h
  obtain ⟨s0, s1⟩ := end_slopes_nonneg c h hY
  have mn := @OrderedRing.mul_nonneg α _ _ _ _ _
  -- the y end values bound every section value
  have ylo : ∀ i v, i < c.nseg → 0 ≤ v → v ≤ 1 → c.y0 ≤ bezVal v (c.segY i) := by
    intro i v hi hv0 hv1
    have b := (sec_bounds _ v (hY i hi) hv0 hv1).1
    rw [h.hy0]
    by_cases e : i = 0
    · subst e; exact b
    · have := yp5_le_yp0 c h hY 0 i (by omega) hi
      have := mono_p0_le_p5 _ (hY 0 hp)
      grind
  have yhi : ∀ i v, i < c.nseg → 0 ≤ v → v ≤ 1 → bezVal v (c.segY i) ≤ c.y1 := by
    intro i v hi hv0 hv1
    have b := (sec_bounds _ v (hY i hi) hv0 hv1).2
    rw [h.hy1]
    by_cases e : i = c.nseg - 1
    · subst e; exact b
    · have := yp5_le_yp0 c h hY i (c.nseg - 1) (by omega) (by omega)
      have := mono_p0_le_p5 _ (hY (c.nseg - 1) (by omega))
      grind
  have y01 : c.y0 ≤ c.y1 := by
    have := ylo 0 0 hp (Std.le_refl _) (by grind)
    have := yhi 0 0 hp (Std.le_refl _) (by grind)
    grind
  rcases region_cases c x with ⟨r, a1, a2⟩ | ⟨r, a⟩ | ⟨r, a1, a2⟩ <;>
  rcases region_cases c x' with ⟨r', b1, b2⟩ | ⟨r', b⟩ | ⟨r', b1, b2⟩
  · -- mid, mid
    obtain ⟨i, hi⟩ := calcIndex_isSome c h x a1 a2
    obtain ⟨i', hi'⟩ := calcIndex_isSome c h x' b1 b2
    rw [eval_mid c x u i r hi] at he; rw [eval_mid c x' u' i' r' hi'] at he'
    cases he; cases he'
    obtain ⟨u0, u1, ux⟩ := hu r i hi
    obtain ⟨v0, v1, vx⟩ := hu' r' i' hi'
    have li := calcIndex_lt c x i hi
    have li' := calcIndex_lt c x' i' hi'
    have := calcIndex_mono c h x x' i i' hx hi hi'
    by_cases e : i = i'
    · subst e
      have huv : u ≤ u' := le_of_bezVal_le u u' (c.segX i) u1 v0 (h.incr i li) (by rw [ux, vx]; exact hx)
      exact bezVal_mono u u' _ u0 huv v1 (hY i li)
    · have k := yp5_le_yp0 c h hY i i' (by omega) li'
      have := (sec_bounds _ u (hY i li) u0 u1).2
      have := (sec_bounds _ u' (hY i' li') v0 v1).1
      grind
  · grind
  · -- mid, right
    obtain ⟨i, hi⟩ := calcIndex_isSome c h x a1 a2
    rw [eval_mid c x u i r hi] at he; rw [eval_right c x' u' r'] at he'
    cases he; cases he'
    obtain ⟨u0, u1, _⟩ := hu r i hi
    have := yhi i u (calcIndex_lt c x i hi) u0 u1
    have := mn s1 (show 0 ≤ x' - c.x1 by grind)
    grind
  · -- left, mid
    obtain ⟨i', hi'⟩ := calcIndex_isSome c h x' b1 b2
    rw [eval_left c x u r] at he; rw [eval_mid c x' u' i' r' hi'] at he'
    cases he; cases he'
    obtain ⟨v0, v1, _⟩ := hu' r' i' hi'
    have := ylo i' u' (calcIndex_lt c x' i' hi') v0 v1
    have := mn s0 (show 0 ≤ c.x0 - x by grind)
    grind
  · -- left, left
    rw [eval_left c x u r] at he; rw [eval_left c x' u' r'] at he'
    cases he; cases he'
    have := mn s0 (show 0 ≤ x' - x by grind)
    grind
  · -- left, right
    rw [eval_left c x u r] at he; rw [eval_right c x' u' r'] at he'
    cases he; cases he'
    have := mn s0 (show 0 ≤ c.x0 - x by grind)
    have := mn s1 (show 0 ≤ x' - c.x1 by grind)
    grind
  · grind
  · grind
  · -- right, right
    rw [eval_right c x u r] at he; rw [eval_right c x' u' r'] at he'
    cases he; cases he'
    have := mn s1 (show 0 ≤ x' - x by grind)
    grind
end curve
end Rbdl.L18C
