import RbdlProofs.Lemmas.L01CapFixFinal
import RbdlProofs.Lemmas.L01CapEx
/-
  C01 capstone, Stage D: a concrete instance over `Rat` with fixed bodies.  A floating base (massless
  translationXYZ body + spherical "pelvis"), a revolute "thigh", a fixed "sensor" on the thigh, a
  fixed "imu" on the sensor (fixed on fixed), an Euler-YXZ "shank" attached *to the fixed sensor*, a
  custom cylindrical joint on the pelvis, and a fixed "plate" on the base.  The construction code
  merges the three fixed bodies into their movable parents; the specification keeps them as nodes.
-/
namespace Rbdl.L01Cap.ExF
open Lean.Grind Rbdl Rbdl.Spec Rbdl.L01Cap

def jFloat : Joint Rat := ⟨.floatingBase, [], 0, 0, noCustom⟩
def jFix : Joint Rat := ⟨.fixed, [], 0, 0, noCustom⟩
def jYXZ : Joint Rat :=
  ⟨.eulerYXZ, [sv6 0 1 0 0 0 0, sv6 1 0 0 0 0 0, sv6 0 0 1 0 0 0], 3, 0, noCustom⟩

def ops : List (Op Rat) :=
  [ .addBody 0 C16.Ex.X jFloat Ex.b1 "pelvis",
    .appendBody C16.Ex.Y Ex.jRev Ex.b2 "thigh",
    .appendBody C16.Ex.X jFix Ex.b3 "sensor",
    .appendBody C16.Ex.Y jFix Ex.b5 "imu",
    .addBody fixedDisc C16.Ex.Y jYXZ Ex.b4 "shank",
    .addBodyCustomJoint 2 C16.Ex.X .cyl Ex.b5 "cyl",
    .addBody 0 C16.Ex.Y jFix Ex.b2 "plate" ]

def m : ModelS Rat := ModelS.init.run ops
def M : SModel Rat := specOf ops

theorem good_jYXZ : GoodJoint jYXZ := ⟨rfl, by decide, by change _ = _; rfl, fun h => nomatch h⟩

theorem ops_good : goodRunF (ModelS.init : ModelS Rat) ops := by
  refine ⟨by decide +kernel, ⟨C16.Ex.X_isRot, rfl, Or.inr (Or.inr ⟨rfl, rfl⟩)⟩, ⟨_, rfl⟩,
    by decide +kernel, ?_⟩
  refine ⟨by decide +kernel, ⟨C16.Ex.Y_isRot, rfl, Or.inl ⟨Ex.good_jRev, rfl⟩⟩, ⟨_, rfl⟩,
    by decide +kernel, ?_⟩
  refine ⟨by decide +kernel, ⟨C16.Ex.X_isRot, rfl, Or.inr (Or.inl rfl)⟩,
    ⟨fixedDisc, by decide +kernel⟩, by decide +kernel, ?_⟩
  refine ⟨by decide +kernel, ⟨C16.Ex.Y_isRot, rfl, Or.inr (Or.inl rfl)⟩,
    ⟨fixedDisc + 1, by decide +kernel⟩, by decide +kernel, ?_⟩
  refine ⟨by decide +kernel, ⟨C16.Ex.Y_isRot, rfl, Or.inl ⟨good_jYXZ, rfl⟩⟩,
    ⟨4, by decide +kernel⟩, by decide +kernel, ?_⟩
  refine ⟨by decide +kernel, ⟨C16.Ex.X_isRot, rfl, rfl⟩, ⟨5, by decide +kernel⟩,
    by decide +kernel, ?_⟩
  refine ⟨by decide +kernel, ⟨C16.Ex.Y_isRot, rfl, Or.inr (Or.inl rfl)⟩,
    ⟨fixedDisc + 2, by decide +kernel⟩, by decide +kernel, trivial⟩

theorem m_ok : ModelOK m := (refinesF_by_construction ops ops_good).1
theorem m_refines : RefinesF m M (offOf m ((PB.init : PB Rat).run ops).sb.M)
    (lookupNode ((PB.init : PB Rat).run ops).sb.idMap) := (refinesF_by_construction ops ops_good).2

theorem m_n : m.nBodies = 6 := by decide +kernel
theorem m_dof : m.dofCount = 12 := by decide +kernel
theorem m_fixed : m.fixedBodies.length = 3 := by decide +kernel
theorem M_nodes : M.nodes.length = 9 := by decide +kernel

/-- coordinates: 0–2 translation, 3–5 + 12 quaternion of the pelvis, 6 thigh, 7–9 Euler-YXZ shank,
    10–11 cylindrical joint; angles with (cos, sin) = (4/5, 3/5), unit quaternion (1,2,2,4)/5 -/
def st : QS Rat :=
  { q := fun n => if n = 3 then 1/5 else if n = 4 then 2/5 else if n = 5 then 2/5
                  else if n = 12 then 4/5 else 1/2
    c := fun _ => 4/5
    s := fun _ => 3/5 }

theorem jt1 : (m.joint 1).jt = .translationXYZ := by decide +kernel
theorem jt2 : (m.joint 2).jt = .spherical := by decide +kernel
theorem jt3 : (m.joint 3).jt = .revolute := by decide +kernel
theorem jt4 : (m.joint 4).jt = .eulerYXZ := by decide +kernel
theorem jt5 : (m.joint 5).jt = .custom := by decide +kernel
theorem ck5 : m.custom (m.joint 5).customIdx = .cyl := by decide +kernel

theorem st_ok : StateOK m st := by
  intro i h1 h2
  rw [m_n] at h2
  obtain rfl | rfl | rfl | rfl | rfl : i = 1 ∨ i = 2 ∨ i = 3 ∨ i = 4 ∨ i = 5 := by omega
  · unfold ModelS.jointUnit; simp only [jt1]
  · unfold ModelS.jointUnit; simp only [jt2]; decide +kernel
  · unfold ModelS.jointUnit; simp only [jt3]
    exact ⟨C16.Ex.cs_unit, by decide +kernel⟩
  · unfold ModelS.jointUnit; simp only [jt4]
    exact ⟨C16.Ex.cs_unit, C16.Ex.cs_unit, C16.Ex.cs_unit⟩
  · unfold ModelS.jointUnit; simp only [jt5, ck5]
    exact C16.Ex.cs_unit

theorem m_axes : L13.AxesOK m := by
  intro i h1 h2
  rw [m_n] at h2
  obtain rfl | rfl | rfl | rfl | rfl : i = 1 ∨ i = 2 ∨ i = 3 ∨ i = 4 ∨ i = 5 := by omega
  all_goals exact ⟨fun h => absurd h (by decide +kernel), fun h => absurd h (by decide +kernel),
    fun h => absurd h (by decide +kernel)⟩

def w0 : WS Rat := initWS m
def w1 : WS Rat := poison m w0 5
theorem w0_fixed : WSFixed m w0 := L13.wsfixed_initWS m m_axes
theorem w1_fixed : WSFixed m w1 := L13.wsfixed_poison m _ 5 w0_fixed

end Rbdl.L01Cap.ExF
