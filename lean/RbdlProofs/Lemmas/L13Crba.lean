import RbdlProofs.Lemmas.L13Kin
/-
  C13 helper lemmas, part 7: `crba` on two reachable workspaces.
-/
namespace Rbdl.L13
open Lean.Grind Rbdl Rbdl.Loops Rbdl.L12
set_option linter.unusedSimpArgs false
set_option linter.unusedVariables false
set_option linter.unusedSectionVars false
set_option linter.constructorNameAsVariable false

section
variable {α : Type} [Field α]

/-- `Ic[i] = I_i` -/
def stIc (m : ModelS α) (i : Nat) (w : WS α) : WS α := { w with Ic := upd w.Ic i (m.rbi i) }
/-- `Ic[λ] += X_lambda[i]ᵀ Ic[i] X_lambda[i]` -/
def stIcl (m : ModelS α) (i : Nat) (w : WS α) : WS α :=
  { w with Ic := upd w.Ic (m.lam i) (w.Ic (m.lam i) + (w.X_lambda i).applyTransposeRBI (w.Ic i)) }

theorem Agree.stIc {m : ModelS α} {D : Dom} {w w' : WS α} (h : Agree m D w w') (i : Nat) :
    Agree m (D ∪ Dom.at [.Ic] i) (L13.stIc m i w) (L13.stIc m i w') :=
  h.set_Ic i rfl (by dom)

theorem Agree.stIcl {m : ModelS α} {D : Dom} {w w' : WS α} (h : Agree m D w w') (i : Nat)
    (h1 : D .Ic (m.lam i)) (h2 : D .X_lambda i) (h3 : D .Ic i) :
    Agree m D (L13.stIcl m i w) (L13.stIcl m i w') :=
  h.set_Ic (m.lam i) (by rw [h.get_Ic h1, h.get_X_lambda h2, h.get_Ic h3])
    (fun g j hgj => Or.inl hgj)

/-- the entries of `H` written for body `i` -/
def crbaH (m : ModelS α) (w : WS α) (i : Nat) (H : MatN α) : MatN α :=
  let ki := (m.joint i).qIndex
  let Si := zipIdx (w.Scols m i)
  let F : List (SV α × Nat) := Si.map (fun p => (w.Ic i * p.1, p.2))
  let H := Si.foldl (fun H a => F.foldl (fun H b => setH H (ki + a.2) (ki + b.2) (a.1.dot b.1)) H) H
  (walkUp m m.nBodies i (fun j (s : List (SV α × Nat) × MatN α) =>
    let (F, H) := s
    if m.lam j = 0 then (F, H) else
    let F := F.map (fun p => ((w.X_lambda j).applyTranspose p.1, p.2))
    let jj := m.lam j
    let kj := (m.joint jj).qIndex
    let Sj := zipIdx (w.Scols m jj)
    let H := F.foldl (fun H a => Sj.foldl (fun H b =>
      let x := a.1.dot b.1
      setH (setH H (ki + a.2) (kj + b.2) x) (kj + b.2) (ki + a.2) x) H) H
    (F, H)) (F, H)).2

theorem crbaBody_steps (m : ModelS α) (i : Nat) (w : WS α) (H : MatN α) :
    crbaBody m i (w, H) =
      ((if m.lam i ≠ 0 then stIcl m i w else w),
        crbaH m (if m.lam i ≠ 0 then stIcl m i w else w) i H) := rfl

theorem crbaInitBody_steps (m : ModelS α) (st : QS α) (i : Nat) (w : WS α) :
    crbaInitBody m st true i w = stIc m i (jcalcXlambdaS m w i st) := rfl

/-- entries agreeing after the first loop of `crba` has passed the bodies `< k` -/
@[dom] def Dcr (m : ModelS α) (k : Nat) : Dom :=
  Dom.rng [.X_lambda, .Ic] 1 k ∪ SDom m 1 k

theorem crbaInitBody_sim (m : ModelS α) (st : QS α) (hjc : AllJcalc m) (B : Dom)
    (i : Nat) (s t : WS α) (h1 : 1 ≤ i) (h2 : i < 1 + (m.nBodies - 1))
    (h : Agree m (B ∪ Dcr m i) s t) :
    Agree m (B ∪ Dcr m (i + 1)) (crbaInitBody m st true i s) (crbaInitBody m st true i t) := by
  rw [crbaInitBody_steps, crbaInitBody_steps]
  exact ((h.xlsU i h1 (by omega) (hjc i h1 (by omega)) st).stIc i).mono (by dom)

theorem Agree.crbaH {m : ModelS α} {D : Dom} {s t : WS α} (h : Agree m D s t)
    (htree : TreeOrder m)
    (hD : ∀ j, 1 ≤ j → j < m.nBodies →
      D .X_lambda j ∧ D .Ic j ∧ D .S j ∧ D .S3 j ∧ D .cS j)
    (i : Nat) (h1 : 1 ≤ i) (h2 : i < m.nBodies) (H : MatN α) :
    L13.crbaH m s i H = L13.crbaH m t i H := by
  unfold L13.crbaH
  obtain ⟨hX, hI, hS, hS3, hcS⟩ := hD i h1 h2
  dsimp only
  rw [h.Scols i hS hS3 hcS, h.get_Ic hI]
  congr 1
  refine walkUp_congr m htree _ _ (fun j FH hj1 hj2 => ?_) _ _ _ h2
  obtain ⟨F, H⟩ := FH
  dsimp only
  split
  · rfl
  · rename_i hl0
    have hl := htree j hj1 hj2
    obtain ⟨hXj, _, _, _, _⟩ := hD j hj1 hj2
    obtain ⟨_, _, hSl, hS3l, hcSl⟩ := hD (m.lam j) (by omega) (by omega)
    rw [h.get_X_lambda hXj, h.Scols (m.lam j) hSl hS3l hcSl]

/-- what the second loop of `crba` reads -/
@[dom] def DcrIn (m : ModelS α) : Dom :=
  Dom.rng [.X_lambda, .Ic] 1 (1 + (m.nBodies - 1)) ∪ SDom m 1 (1 + (m.nBodies - 1))

/-- the second loop of `crba` on agreeing workspaces -/
theorem crba_bwd_sim (m : ModelS α) (htree : TreeOrder m) (hok : AllJointOK m) (D : Dom)
    (hDin : ∀ g j, DcrIn m g j → D g j) (w w' : WS α) (H : MatN α) (h1 : Agree m D w w') :
    (forDown (m.nBodies - 1) (m.nBodies - 1) (crbaBody m) (w, H)).2
      = (forDown (m.nBodies - 1) (m.nBodies - 1) (crbaBody m) (w', H)).2 := by
  have hD : ∀ j, 1 ≤ j → j < m.nBodies →
      D .X_lambda j ∧ D .Ic j ∧ D .S j ∧ D .S3 j ∧ D .cS j := by
    intro j hj1 hj2
    have hk := (hok j hj1 hj2).2
    exact ⟨hDin _ _ (by dom), hDin _ _ (by dom), hDin _ _ (by domw [hk]),
      hDin _ _ (by domw [hk]), hDin _ _ (by domw [hk])⟩
  refine (forDown_sim (fun s t : WS α × MatN α => Agree m D s.1 t.1 ∧ s.2 = t.2)
    (crbaBody m) (crbaBody m) _ _ ?_ (w, H) (w', H) ⟨h1, rfl⟩).2
  rintro i ⟨s, Hs⟩ ⟨t, Ht⟩ hi1 hi2 ⟨hA, rfl⟩
  have h1i : 1 ≤ i := by omega
  have hl := htree i h1i (by omega)
  rw [crbaBody_steps, crbaBody_steps]
  dsimp only at hA ⊢
  have hB : Agree m D (if m.lam i ≠ 0 then stIcl m i s else s)
      (if m.lam i ≠ 0 then stIcl m i t else t) := by
    split
    · exact hA.stIcl i (hD _ (by omega) (by omega)).2.1 (hD _ h1i (by omega)).1
        (hD _ h1i (by omega)).2.1
    · exact hA
  exact ⟨hB, hB.crbaH htree hD i h1i (by omega) Hs⟩

theorem crba_indep (m : ModelS α) (st : QS α) (H : MatN α) (htree : TreeOrder m)
    (hok : AllJointOK m) (w w' : WS α) (hw : WSFixed m w) (hw' : WSFixed m w') :
    (crba m w st H true).2 = (crba m w' st H true).2 := by
  rw [crba_eq, crba_eq]
  have h1 := forUp_simI (fun k s t => Agree m (Dom.at [.X_base] 0 ∪ Dcr m k) s t) _ _
    (m.nBodies - 1) 1
    (fun i s t h1 h2 h => crbaInitBody_sim m st hok.jcalc _ i s t h1 h2 h) w w'
    ((Agree.init hw hw').mono (by dom))
  exact crba_bwd_sim m htree hok _ (by dom) _ _ H h1

end
end Rbdl.L13
