import RbdlProofs.Lemmas.LDynCap
import RbdlProofs.Lemmas.L12Kin
import RbdlProofs.Lemmas.L09Kin
/-
  Capstones for the whole-body routines: `UpdateKinematicsCustom (Q, QDot, QDDot)` computes time
  derivatives.

  * `KinClosed`       closed form of the three loops on the returned workspace: every row holds what
                      `jcalc` computes for joint `i` (from a workspace `ω i` with the construction-time
                      content), `v`, `c`, `a`, `X_base` satisfy the recursions (no gravity offset; bodies
                      attached to the base do not read `v[0]`, `a[0]`, `X_base[0]`);
  * `ukc_closed`      `updateKinematicsCustom m w (some st) (some qd) (some qdd)` satisfies it;
  * `kin_bodyForm`    then `(v[i], a[i])` are the body-frame spatial velocity / acceleration of the world
                      pose jet of body `i`, and `X_base[i]` is its value part (`kin_xbase`).
-/
namespace Rbdl.LDynCap
open Lean.Grind Rbdl Rbdl.Spec Rbdl.L06 Rbdl.L01 Rbdl.Loops Rbdl.L01Cap
set_option linter.unusedSimpArgs false
set_option linter.unusedVariables false
set_option linter.unusedSectionVars false

section
variable {α : Type} [Field α] [DecidableEq α]

structure KinClosed (m : ModelS α) (st : QS α) (qd qdd : VecN α) (ω : Nat → WS α) (W : WS α) :
    Prop where
  ws : ∀ i, 1 ≤ i → i < m.nBodies → JointWS m (ω i) i
  jX : ∀ i, 1 ≤ i → i < m.nBodies → W.X_lambda i = (jcalc m (ω i) i st qd).X_lambda i
  jvJ : ∀ i, 1 ≤ i → i < m.nBodies → W.v_J i = (jcalc m (ω i) i st qd).v_J i
  jcJ : ∀ i, 1 ≤ i → i < m.nBodies → W.c_J i = (jcalc m (ω i) i st qd).c_J i
  jSq : ∀ i, 1 ≤ i → i < m.nBodies →
    W.Sqdd m i qdd = WS.Sqdd (jcalc m (ω i) i st qd) m i qdd
  v : ∀ i, 1 ≤ i → i < m.nBodies →
    W.v i = if m.lam i ≠ 0 then (W.X_lambda i).apply (W.v (m.lam i)) + W.v_J i else W.v_J i
  c : ∀ i, 1 ≤ i → i < m.nBodies → W.c i = W.c_J i + crossm (W.v i) (W.v_J i)
  a : ∀ i, 1 ≤ i → i < m.nBodies → m.arity i ≠ .other →
    W.a i = (if m.lam i ≠ 0 then (W.X_lambda i).apply (W.a (m.lam i)) + W.c i else W.c i)
      + W.Sqdd m i qdd
  xb : ∀ i, 1 ≤ i → i < m.nBodies →
    W.X_base i = if m.lam i ≠ 0 then W.X_lambda i * W.X_base (m.lam i) else W.X_lambda i

/-! ### the velocity loop, row by row -/

theorem velBody_row_other (m : ModelS α) (hc : L01.CustomInj m) (st : QS α) (qd : VecN α)
    (i : Nat) (w : WS α) (j : Nat) (hj : j ≠ i) :
    row m (L12.ukcVelBody m st qd i w) j = row m w j := by
  rw [← jcalc_row_other m hc w i st qd j hj]
  unfold L12.ukcVelBody row
  dsimp only
  split <;> simp only [upd_other _ _ _ _ hj]

theorem velBody_spec (m : ModelS α) (st : QS α) (qd : VecN α) (i : Nat) (w : WS α) :
    (L12.ukcVelBody m st qd i w).X_lambda = (jcalc m w i st qd).X_lambda ∧
    (L12.ukcVelBody m st qd i w).v_J = (jcalc m w i st qd).v_J ∧
    (L12.ukcVelBody m st qd i w).c_J = (jcalc m w i st qd).c_J ∧
    (L12.ukcVelBody m st qd i w).S = (jcalc m w i st qd).S ∧
    (L12.ukcVelBody m st qd i w).S3 = (jcalc m w i st qd).S3 ∧
    (L12.ukcVelBody m st qd i w).cS = (jcalc m w i st qd).cS ∧
    (L12.ukcVelBody m st qd i w).v i
      = (if m.lam i ≠ 0 then
          ((jcalc m w i st qd).X_lambda i).apply (w.v (m.lam i)) + (jcalc m w i st qd).v_J i
        else (jcalc m w i st qd).v_J i) ∧
    (L12.ukcVelBody m st qd i w).c i
      = (jcalc m w i st qd).c_J i
        + crossm ((L12.ukcVelBody m st qd i w).v i) ((jcalc m w i st qd).v_J i) := by
  by_cases hl : m.lam i ≠ 0
  · simp only [L12.ukcVelBody, if_pos hl, upd_same, L06.jcalc_v, and_self]
  · simp only [L12.ukcVelBody, if_neg hl, upd_same, L06.jcalc_v, and_self]

theorem ukc_full_split (m : ModelS α) (w : WS α) (st : QS α) (qd qdd : VecN α) :
    updateKinematicsCustom m w (some st) (some qd) (some qdd)
      = updateKinematicsCustom m (updateKinematicsCustom m w (some st) (some qd) none)
          none none (some qdd) := rfl

/-- **`UpdateKinematicsCustom (Q, QDot, QDDot)` in closed form** -/
theorem ukc_closed {m : ModelS α} (hm : ModelOK m) (w : WS α) (hw : WSFixed m w) (st : QS α)
    (qd qdd : VecN α) :
    ∃ ω, KinClosed m st qd qdd ω
      (updateKinematicsCustom m w (some st) (some qd) (some qdd)) := by
  have htree := hm.wf.lam_lt
  have hws := hm.jointWS hw
  obtain ⟨W1, hW1⟩ : ∃ W1, W1 = updateKinematicsCustom m w (some st) none none := ⟨_, rfl⟩
  have hJ1 : ∀ i, 1 ≤ i → i < m.nBodies → JointWS m W1 i := by
    rw [hW1]; exact L05.ukc_JointWS m w st hws
  obtain ⟨W2, hW2⟩ : ∃ W2, W2 = updateKinematicsCustom m w (some st) (some qd) none := ⟨_, rfl⟩
  have hW2' : W2 = forUp (m.nBodies - 1) 1 (L12.ukcVelBody m st qd) W1 := by
    rw [hW2, hW1]; rfl
  have hbody := velBody_row_other m hm.cinj st qd
  have key : ∀ i, 1 ≤ i → i < m.nBodies →
      row m W2 i = row m (L12.ukcVelBody m st qd i
        (forUp (i - 1) 1 (L12.ukcVelBody m st qd) W1)) i ∧
      row m (forUp (i - 1) 1 (L12.ukcVelBody m st qd) W1) i = row m W1 i ∧
      (1 ≤ m.lam i → row m W2 (m.lam i)
        = row m (forUp (i - 1) 1 (L12.ukcVelBody m st qd) W1) (m.lam i)) := by
    intro i h1 h2
    rw [hW2']
    refine ⟨forUp_get_inside (row m) _ hbody _ _ _ i h1 (by omega), ?_, fun hl => ?_⟩
    · exact forUp_get_outside (row m) _ hbody _ _ _ i (Or.inr (by omega))
    · exact forUp_get_prefix (row m) _ hbody _ _ _ i (m.lam i) h1 (by omega) (htree i h1 h2)
  -- the position-level arrays are those of the position loop
  obtain ⟨hXb, hXl⟩ := L12.ukc_full_X m w st qd none
  have hstep := (C04.ukc_step m w st htree).1
  -- the acceleration loop rewrites `a` only
  have e3 : updateKinematicsCustom m w (some st) (some qd) (some qdd)
      = { W2 with a := forUp (m.nBodies - 1) 1 (fwdBody m.lam (L09.accF m W2 qdd)) W2.a } := by
    rw [ukc_full_split, ← hW2, L09.ukcAcc_eq]
  have ha : ∀ i, 1 ≤ i → i < m.nBodies →
      (updateKinematicsCustom m w (some st) (some qd) (some qdd)).a i
        = L09.accF m W2 qdd i
            ((updateKinematicsCustom m w (some st) (some qd) (some qdd)).a (m.lam i)) := by
    intro i h1 h2
    rw [ukc_full_split, ← hW2]
    exact L09.ukcAcc_rec m W2 qdd htree i h1 h2
  rw [e3] at ha ⊢
  refine ⟨fun i => forUp (i - 1) 1 (L12.ukcVelBody m st qd) W1, ?_, ?_, ?_, ?_, ?_, ?_, ?_, ?_, ?_⟩
  · intro i h1 h2
    obtain ⟨eX, evJ, ecJ, eS, eS3, _⟩ := row_fields (key i h1 h2).2.1
    exact JointWS_congr m W1 _ i evJ eS ecJ eS3 (hJ1 i h1 h2)
  · intro i h1 h2
    show W2.X_lambda i = _
    rw [(row_fields (key i h1 h2).1).1, (velBody_spec m st qd i _).1]
  · intro i h1 h2
    show W2.v_J i = _
    rw [(row_fields (key i h1 h2).1).2.1, (velBody_spec m st qd i _).2.1]
  · intro i h1 h2
    show W2.c_J i = _
    rw [(row_fields (key i h1 h2).1).2.2.1, (velBody_spec m st qd i _).2.2.1]
  · intro i h1 h2
    show WS.Sqdd W2 m i qdd = _
    rw [Sqdd_row m W2 _ i qdd (key i h1 h2).1]
    obtain ⟨_, _, _, eS, eS3, ecS, _⟩ := velBody_spec m st qd i
      (forUp (i - 1) 1 (L12.ukcVelBody m st qd) W1)
    exact Sqdd_congr m _ _ i qdd (fun _ => by rw [eS]) (fun _ => by rw [eS3])
      (fun _ => by rw [ecS])
  · intro i h1 h2
    show W2.v i = if m.lam i ≠ 0 then (W2.X_lambda i).apply (W2.v (m.lam i)) + W2.v_J i
      else W2.v_J i
    obtain ⟨kA, kC, kB⟩ := key i h1 h2
    obtain ⟨eX, evJ, ecJ, eS, eS3, ev, ec, ea, ef, eXb⟩ := row_fields kA
    obtain ⟨sX, svJ, scJ, sS, sS3, scS, sv, sc⟩ := velBody_spec m st qd i
      (forUp (i - 1) 1 (L12.ukcVelBody m st qd) W1)
    rw [ev, eX, evJ, sv, sX, svJ]
    by_cases hl : m.lam i ≠ 0
    · rw [if_pos hl, if_pos hl, (row_fields (kB (by omega))).2.2.2.2.2.1]
    · rw [if_neg hl, if_neg hl]
  · intro i h1 h2
    show W2.c i = W2.c_J i + crossm (W2.v i) (W2.v_J i)
    obtain ⟨kA, kC, kB⟩ := key i h1 h2
    obtain ⟨eX, evJ, ecJ, eS, eS3, ev, ec, ea, ef, eXb⟩ := row_fields kA
    obtain ⟨sX, svJ, scJ, sS, sS3, scS, sv, sc⟩ := velBody_spec m st qd i
      (forUp (i - 1) 1 (L12.ukcVelBody m st qd) W1)
    rw [ec, ecJ, ev, evJ, sc, scJ, svJ]
  · intro i h1 h2 har
    have := ha i h1 h2
    rw [this]
    unfold L09.accF
    dsimp only
    cases hq : m.arity i <;> first | exact absurd hq har | rfl
  · intro i h1 h2
    show W2.X_base i = if m.lam i ≠ 0 then W2.X_lambda i * W2.X_base (m.lam i) else W2.X_lambda i
    rw [hW2, hXb, hXl]
    exact (hstep i h1 h2).2

theorem sv_step_a0 (X XJ : XT α) (vi vJ S cJ : SV α) :
    X.apply SV.zero + (XJ.apply SV.zero + (S + cJ) + crossm (XJ.apply SV.zero + vJ) vJ)
        + crossm vi (XJ.apply SV.zero + vJ)
      = (cJ + crossm vi vJ) + S := by alg_ext

/-- **the three loops of `UpdateKinematicsCustom` compute time derivatives**: `(v[i], a[i])` are the
    body-frame spatial velocity / acceleration of the world pose jet `P i` -/
theorem kin_bodyForm (m : ModelS α) (W : WS α) (ω : Nat → WS α) (st : QS α) (qd qdd : VecN α)
    (h2 : (2 : α) ≠ 0)
    (htree : ∀ i, 1 ≤ i → i < m.nBodies → m.lam i < i)
    (hjc : ∀ i, 1 ≤ i → i < m.nBodies → (m.joint i).jt.hasJcalc = true)
    (hframe : ∀ i, 1 ≤ i → i < m.nBodies → (m.XT_ i).E.IsRot)
    (hunit : ∀ i, 1 ≤ i → i < m.nBodies → m.jointUnit i st)
    (hw3 : ∀ i, 1 ≤ i → i < m.nBodies → (m.joint i).jt = .spherical →
      (m.joint i).qIndex + 2 < m.w3 i)
    (harity : ∀ i, 1 ≤ i → i < m.nBodies → m.arity i ≠ .other)
    (hK : KinClosed m st qd qdd ω W)
    (P : Nat → Pose (D2 α)) (hP0 : P 0 = Pose.id)
    (hP : ∀ i, 1 ≤ i → i < m.nBodies →
      P i = (P (m.lam i)).comp ((framePoseJet m i).comp (jointPoseJet m i st qd qdd))) :
    ∀ i, 1 ≤ i → i < m.nBodies → BodyForm (NodeKin.ofPose (P i)) (W.v i) (W.a i) := by
  intro i
  induction i using Nat.strongRecOn with
  | _ i ih =>
    intro h1 hi
    have hlt := htree i h1 hi
    have hjm : JointMotion m (ω i) i st qd qdd :=
      jointMotion m (ω i) i st qd qdd h2 (hjc i h1 hi) (hunit i h1 hi) (hK.ws i h1 hi)
        (hw3 i h1 hi)
    have hX : xtOfKin (compKin (NodeKin.ofPose (framePoseJet m i))
          (NodeKin.ofPose (jointPoseJet m i st qd qdd))) = W.X_lambda i := by
      rw [xtOfKin_compKin, xtOfKin_frame, ← jcalc_X_lambda_joint m (ω i) i st qd qd qdd (hjc i h1 hi),
        ← hK.jX i h1 hi]
    rw [hP i h1 hi, ofPose_comp, ofPose_comp]
    by_cases hl : m.lam i ≠ 0
    · have hpar := ih (m.lam i) hlt (by omega) (by omega)
      have hall := hpar.comp ((bf_frame m i (hframe i h1 hi)).comp hjm)
      have hV : (xtOfKin (compKin (NodeKin.ofPose (framePoseJet m i))
            (NodeKin.ofPose (jointPoseJet m i st qd qdd)))).apply (W.v (m.lam i))
            + ((xtOfKin (NodeKin.ofPose (jointPoseJet m i st qd qdd))).apply SV.zero
              + (jcalc m (ω i) i st qd).v_J i) = W.v i := by
        rw [hX, hK.v i h1 hi, if_pos hl, hK.jvJ i h1 hi]
        exact sv_step_v _ _ _ _
      refine hall.congr hV ?_
      rw [hV, hX, hK.a i h1 hi (harity i h1 hi), if_pos hl, hK.c i h1 hi, hK.jvJ i h1 hi,
        hK.jcJ i h1 hi, hK.jSq i h1 hi]
      exact sv_step_a _ _ _ _ _ _ _
    · have hl0 : m.lam i = 0 := by omega
      rw [hl0, hP0]
      have hall := (bf_poseId (α := α)).comp ((bf_frame m i (hframe i h1 hi)).comp hjm)
      have hV : (xtOfKin (compKin (NodeKin.ofPose (framePoseJet m i))
            (NodeKin.ofPose (jointPoseJet m i st qd qdd)))).apply SV.zero
            + ((xtOfKin (NodeKin.ofPose (jointPoseJet m i st qd qdd))).apply SV.zero
              + (jcalc m (ω i) i st qd).v_J i) = W.v i := by
        rw [hX, hK.v i h1 hi, if_neg hl, hK.jvJ i h1 hi]
        exact sv_step_v0 _ _ _
      refine hall.congr hV ?_
      rw [hV, hX, hK.a i h1 hi (harity i h1 hi), if_neg hl, hK.c i h1 hi, hK.jvJ i h1 hi,
        hK.jcJ i h1 hi, hK.jSq i h1 hi]
      exact sv_step_a0 _ _ _ _ _ _

/-- `X_base[i]` is the value part of the world pose -/
theorem kin_xbase (m : ModelS α) (W : WS α) (ω : Nat → WS α) (st : QS α) (qd qdd : VecN α)
    (htree : ∀ i, 1 ≤ i → i < m.nBodies → m.lam i < i)
    (hjc : ∀ i, 1 ≤ i → i < m.nBodies → (m.joint i).jt.hasJcalc = true)
    (hK : KinClosed m st qd qdd ω W)
    (P : Nat → Pose (D2 α)) (hP0 : P 0 = Pose.id)
    (hP : ∀ i, 1 ≤ i → i < m.nBodies →
      P i = (P (m.lam i)).comp ((framePoseJet m i).comp (jointPoseJet m i st qd qdd))) :
    ∀ i, 1 ≤ i → i < m.nBodies → W.X_base i = xtOfKin (NodeKin.ofPose (P i)) := by
  intro i
  induction i using Nat.strongRecOn with
  | _ i ih =>
    intro h1 hi
    have hlt := htree i h1 hi
    rw [hK.xb i h1 hi, hP i h1 hi]
    simp only [ofPose_comp, xtOfKin_compKin, xtOfKin_frame]
    rw [hK.jX i h1 hi, jcalc_X_lambda_joint m (ω i) i st qd qd qdd (hjc i h1 hi)]
    by_cases hl : m.lam i ≠ 0
    · rw [if_pos hl, ih (m.lam i) hlt (by omega) (by omega)]
    · have hl0 : m.lam i = 0 := by omega
      rw [if_neg hl, hl0, hP0, xtOfKin_poseId, C16.mul_id]

end
end Rbdl.LDynCap
