import RbdlProofs.Lemmas.L14QSize
import RbdlProofs.Props.C14
/-
  C14, query clauses — concrete data over `Rat` for the non-vacuity examples.

  The model `M` (9 movable bodies with the base, 2 fixed bodies):

    id 0            base
    id 1 (virtual)  translationXYZ part of the floating base, joint frame `X1`
    id 2 "pelvis"   spherical part of the floating base
    id 3, 4 (virt.) first two axes of a 3-axis emulated joint on the pelvis, joint frame `X2`
    id 5 "thigh"    last axis of the emulated joint
    fixedDisc       "sensor": fixed on the thigh with `X3`
    fixedDisc + 1   "imu": fixed on the fixed body "sensor" with `X2`   (fixed on fixed)
    id 6 "shank"    revolute, attached to the *fixed* body "imu" with `X1`
    id 7 "cyl"      custom (cylindrical) joint on the pelvis with `X3`
    id 8 "arm"      spherical joint on the thigh with `X1`
-/
namespace Rbdl.C14Q.Ex
open Rbdl Rbdl.ModelS Rbdl.L14Q

def body : Body Rat := ⟨2, ⟨0, 1/2, 0⟩, ⟨1,0,0, 0,1,0, 0,0,1⟩, false⟩
/-- a massless body without inertia (merging it changes nothing) -/
def bodyZero : Body Rat := ⟨0, ⟨0, 0, 0⟩, ⟨0,0,0, 0,0,0, 0,0,0⟩, false⟩
def X1 : XT Rat := ⟨⟨1,0,0, 0,1,0, 0,0,1⟩, ⟨1, 0, 0⟩⟩
def X2 : XT Rat := ⟨⟨0,1,0, -1,0,0, 0,0,1⟩, ⟨0, 2, 0⟩⟩
def X3 : XT Rat := ⟨⟨1,0,0, 0,0,1, 0,-1,0⟩, ⟨0, 0, 3⟩⟩
def jz : Joint Rat := Joint.revolute ⟨0, 0, 1⟩
def jsph : Joint Rat := floatS
def jfix : Joint Rat := jfixed
def jfloat : Joint Rat := ⟨.floatingBase, [], 0, 0, noCustom⟩
/-- a 3-axis joint emulated by three 1-DoF joints (two virtual bodies) -/
def j3 : Joint Rat := Joint.ofAxes [sv6 0 0 1 0 0 0, sv6 0 1 0 0 0 0, sv6 0 0 0 1 0 0]
def jbad : Joint Rat := ⟨.undefined, [], 0, 0, noCustom⟩

def ops : List (Op Rat) :=
  [ .addBody 0 X1 jfloat body "pelvis",
    .addBody 2 X2 j3 body "thigh",
    .appendBody X3 jfix body "sensor",
    .appendBody X2 jfix body "imu",
    .addBody (fixedDisc + 1) X1 jz body "shank",
    .addBodyCustomJoint 2 X3 .cyl body "cyl",
    .addBody 5 X1 jsph body "arm" ]

def M : ModelS Rat := ModelS.init.run ops

/-- the model before the last five operations (floating base and emulated joint only) -/
def M2 : ModelS Rat := ModelS.init.run (ops.take 2)

theorem validRun_ops : (ModelS.init : ModelS Rat).validRun ops := by decide +kernel
theorem keeps_ops : keepsVirtual (ModelS.init : ModelS Rat) ops := by decide +kernel
theorem wf_init : (ModelS.init : ModelS Rat).WF := C14.wf_init
theorem wf_M : M.WF := run_wf ops _ wf_init validRun_ops
theorem wf_M2 : M2.WF := run_wf (ops.take 2) _ wf_init (by decide +kernel)

/-! further operations on `M` -/
/-- accepted: an emulated 3-axis joint on the thigh (ids 9, 10 virtual, 11) -/
def opChain : Op Rat := .addBody 5 X3 j3 body "foot"
/-- accepted: a floating base on the pelvis (id 9 virtual, 10) -/
def opFloat : Op Rat := .addBody 2 X2 jfloat body "drone"
/-- accepted: a revolute body on the fixed body "imu" -/
def opOnFixed : Op Rat := .addBody (fixedDisc + 1) X2 jz body "probe"
/-- accepted: a revolute body on the *virtual* body 4 -/
def opOnVirtual : Op Rat := .addBody 4 X1 jz body "spur"
/-- accepted: a fixed body with mass on the *virtual* body 4 (clears its virtual flag) -/
def opDevirt : Op Rat := .addBody 4 X1 jfix body "clamp"
/-- accepted: a massless fixed body on the virtual body 4 (harmless) -/
def opFixZero : Op Rat := .addBody 4 X1 jfix bodyZero "marker"
/-- accepted: a fixed body on the fixed body "imu" -/
def opFix : Op Rat := .addBody (fixedDisc + 1) X3 jfix body "gps"
/-- rejected: duplicate name -/
def opDup : Op Rat := .addBody 1 X1 jz body "thigh"
/-- rejected: invalid joint specification -/
def opBad : Op Rat := .addBody 3 X1 jbad body "x"

end Rbdl.C14Q.Ex
