import RbdlProofs.Lemmas.L08PhysDyn
/-
  C10 / C12, the link between `CalcKineticEnergy` and the joint-space inertia matrix of the
  composite-rigid-body algorithm: `Σ_r x_r (H x)_r = Σ_i V_i(x) · I_i V_i(x)` (`V_i(x)` the body
  velocities the kinematic recursion assigns to the generalized velocity `x`), hence
  `KE = ½ q̇ᵀ H q̇`, and `H` is positive semidefinite when the body inertias are.

  Route: `H x = ID(x) − ID(0)` (C03, `csv_H_C`); the backward pass of `InverseDynamics` satisfies the
  principle of virtual work (`virtual_work`); the difference of the two forward passes is
  `Δf_i = I_i Δa_i` with `Δa` obeying the velocity recursion for `x`.
-/
set_option linter.unusedSectionVars false
namespace Rbdl.L08Phys
open Lean.Grind Rbdl Rbdl.Loops Rbdl.L03 Rbdl.L09

section
variable {α : Type} [Field α] [DecidableEq α]

/-- scalar sum over `lo, …, lo+n-1` -/
def rsum (lo n : Nat) (g : Nat → α) : α := lsum 0 g (List.range' lo n)

theorem rsum_zero (lo : Nat) (g : Nat → α) : rsum lo 0 g = 0 := rfl

theorem rsum_succ_front (lo n : Nat) (g : Nat → α) : rsum lo (n + 1) g = g lo + rsum (lo + 1) n g := by
  unfold rsum; rw [List.range'_succ]; rfl

theorem rsum_succ_back (lo n : Nat) (g : Nat → α) : rsum lo (n + 1) g = rsum lo n g + g (lo + n) := by
  unfold rsum
  rw [List.range'_concat, lsum_append L12.ring_addLaws, lsum, lsum]
  simp only [Nat.one_mul]; grind

theorem rsum_congr (lo n : Nat) (g g' : Nat → α) (h : ∀ i, lo ≤ i → i < lo + n → g i = g' i) :
    rsum lo n g = rsum lo n g' :=
  lsum_congr _ _ _ (fun c hc => by rw [List.mem_range'_1] at hc; exact h c hc.1 hc.2)

/-- changing one summand -/
theorem rsum_bump (lo n : Nat) (g g' : Nat → α) (p : Nat) (d : α) (h1 : lo ≤ p) (h2 : p < lo + n)
    (hne : ∀ c, c ≠ p → g' c = g c) (heq : g' p = g p + d) : rsum lo n g' = rsum lo n g + d :=
  lsum_bump L12.ring_addLaws g g' p d _ (List.nodup_range' 1 (by omega))
    (by rw [List.mem_range'_1]; omega) hne heq

theorem sv_dot_add_left (a b c : SV α) : (a + b).dot c = a.dot c + b.dot c := by
  simp only [alg]; grind
theorem sv_dot_add_right (a b c : SV α) : a.dot (b + c) = a.dot b + a.dot c := by
  simp only [alg]; grind
theorem sv_zero_dot' (c : SV α) : (SV.zero : SV α).dot c = 0 := by simp only [alg]; grind

/-- **virtual work of the backward accumulation** `f[λ i] += X_iᵀ f[i]` (`i = n, …, 1`): if the
    "velocities" `V` satisfy `V i = X_i V (λ i) + s i` (`V i = s i` on the base), then
    `Σ V_i · f_i` (initial forces) `= Σ s_i · F_i` (accumulated forces) -/
theorem virtual_work (lam : Nat → Nat) (X : Nat → XT α) (V s : Nat → SV α) (n : Nat)
    (htree : ∀ c, 1 ≤ c → c ≤ n → lam c < c)
    (hV : ∀ i, 1 ≤ i → i ≤ n →
      V i = (if lam i ≠ 0 then (X i).apply (V (lam i)) else SV.zero) + s i)
    (f : Nat → SV α) :
    rsum 1 n (fun i => (s i).dot
        (forDown n n (bwdBody lam (fun c a x => a + L12.Th X c x)) f i))
      = rsum 1 n (fun i => (V i).dot (f i)) := by
  -- potential after the bodies `> k` have been processed
  have key : ∀ cnt hi, cnt ≤ hi → hi ≤ n → ∀ f : Nat → SV α,
      rsum 1 (hi - cnt) (fun i => (V i).dot
          (forDown cnt hi (bwdBody lam (fun c a x => a + L12.Th X c x)) f i))
        + rsum (hi - cnt + 1) (n - (hi - cnt)) (fun i => (s i).dot
          (forDown cnt hi (bwdBody lam (fun c a x => a + L12.Th X c x)) f i))
      = rsum 1 hi (fun i => (V i).dot (f i))
        + rsum (hi + 1) (n - hi) (fun i => (s i).dot (f i)) := by
    intro cnt
    induction cnt with
    | zero => intro hi _ _ f; rfl
    | succ k ih =>
      intro hi hc hn f
      rw [forDown]
      have e1 : hi - (k + 1) = hi - 1 - k := by omega
      rw [e1, ih (hi - 1) (by omega) (by omega)]
      -- one step
      have hl := htree hi (by omega) hn
      have hk : hi = (hi - 1) + 1 := by omega
      have en : n - (hi - 1) = (n - hi) + 1 := by omega
      rw [en, rsum_succ_front, ← hk]
      conv => rhs; rw [hk, rsum_succ_back]
      have e2 : 1 + (hi - 1) = hi := by omega
      rw [e2]
      have hVk := hV hi (by omega) hn
      unfold bwdBody
      by_cases hl0 : lam hi ≠ 0
      · rw [if_pos hl0]
        have b1 := rsum_bump 1 (hi - 1) (fun i => (V i).dot (f i))
          (fun i => (V i).dot (upd f (lam hi) (f (lam hi) + L12.Th X hi (f hi)) i)) (lam hi)
          ((V (lam hi)).dot (L12.Th X hi (f hi))) (by omega) (by omega)
          (fun c hc => by show (V c).dot (upd _ _ _ c) = _; rw [upd_other _ _ _ _ hc])
          (by show (V (lam hi)).dot (upd _ _ _ (lam hi)) = _
              rw [upd_same, sv_dot_add_right])
        rw [b1, upd_other _ _ _ _ (by omega)]
        have b2 : rsum (hi + 1) (n - hi) (fun i => (s i).dot
            (upd f (lam hi) (f (lam hi) + L12.Th X hi (f hi)) i))
            = rsum (hi + 1) (n - hi) (fun i => (s i).dot (f i)) :=
          rsum_congr _ _ _ _ (fun i h1 _ => by
            show (s i).dot (upd _ _ _ i) = _
            rw [upd_other _ _ _ _ (by omega)])
        rw [b2, hVk, if_pos hl0, sv_dot_add_left]
        have b3 : (V (lam hi)).dot (L12.Th X hi (f hi)) = ((X hi).apply (V (lam hi))).dot (f hi) := by
          unfold L12.Th
          rw [L03.sv_dot_comm, L03.Core.applyTranspose_dot, L03.sv_dot_comm]
        rw [b3]
        grind
      · rw [if_neg hl0, hVk, if_neg hl0, sv_dot_add_left, sv_zero_dot']
        grind
  have := key n n (Nat.le_refl _) (Nat.le_refl _) f
  simp only [Nat.sub_self, rsum_zero, Nat.sub_zero, Nat.zero_add] at this
  grind

/-! ### re-indexing a sum over the coordinates by joints -/

theorem sumTo_split (a b : Nat) (g : Nat → α) :
    sumTo (a + b) g = sumTo a g + sumTo b (fun z => g (a + z)) := by
  induction b with
  | zero => simp only [Nat.add_zero, sumTo]; grind
  | succ b ih =>
    show sumTo (a + b + 1) g = _
    rw [sumTo, ih, sumTo]; grind

/-- the coordinate blocks of the joints `1 .. n` tile `[0, nv)` in order (`cnt i` = number of
    columns of `S_i`) -/
structure CoordLayout (q cnt : Nat → Nat) (n nv : Nat) : Prop where
  first : 1 ≤ n → q 1 = 0
  contig : ∀ i, 1 ≤ i → i + 1 ≤ n → q (i + 1) = q i + cnt i
  last : 1 ≤ n → q n + cnt n = nv
  empty : n = 0 → nv = 0
  bound : ∀ i, 1 ≤ i → i ≤ n → q i + cnt i ≤ nv

theorem sum_by_joints (q cnt : Nat → Nat) (n nv : Nat) (h : CoordLayout q cnt n nv) (g : Nat → α) :
    sumTo nv g = rsum 1 n (fun i => sumTo (cnt i) (fun a => g (q i + a))) := by
  by_cases hn : n = 0
  · subst hn; rw [h.empty rfl]; rfl
  · have key : ∀ k, 1 ≤ k → k ≤ n →
        sumTo (q k + cnt k) g = rsum 1 k (fun i => sumTo (cnt i) (fun a => g (q i + a))) := by
      intro k
      induction k with
      | zero => intro h1; omega
      | succ k ih =>
        intro _ hk
        by_cases hk0 : k = 0
        · subst hk0
          rw [sumTo_split, h.first (by omega)]
          show sumTo 0 g + _ = rsum 1 1 _
          rw [rsum_succ_front, rsum_zero, h.first (by omega), sumTo]; grind
        · rw [sumTo_split, h.contig k (by omega) hk, ih (by omega) (by omega), rsum_succ_back]
          have : 1 + k = k + 1 := by omega
          rw [this, h.contig k (by omega) hk]
    rw [← h.last (by omega), key n (by omega) (Nat.le_refl _)]

/-- `(Σ_a x (s+a) • col_a) · F = Σ_a x (s+a) (col_a · F)` -/
theorem wsum_dot (x : Nat → α) (s : Nat) (cols : List (SV α)) (F : SV α) :
    (L05.wsum x s cols).dot F
      = sumTo cols.length (fun a => x (s + a) * (cols.getD a SV.zero).dot F) := by
  induction cols generalizing s with
  | nil => simp only [L05.wsum, List.length_nil, sumTo]; exact sv_zero_dot' F
  | cons c cols ih =>
    rw [L05.wsum, sv_dot_add_left, ih (s + 1)]
    have : (c :: cols).length = 1 + cols.length := by simp only [List.length_cons]; omega
    rw [this, sumTo_split]
    have e1 : sumTo 1 (fun a => x (s + a) * ((c :: cols).getD a SV.zero).dot F)
        = (x s * c).dot F := by
      simp only [sumTo, Nat.add_zero, List.getD_cons_zero, alg]; grind
    rw [e1]
    congr 1
    refine L09.sumTo_congr _ _ _ (fun k _ => ?_)
    have : 1 + k = k + 1 := by omega
    rw [this, List.getD_cons_succ, Nat.add_assoc, Nat.add_comm 1 k]

/-! ### the quadratic form of `ID(x) − ID(0)` -/

theorem rsum_sub (lo n : Nat) (g g' : Nat → α) :
    rsum lo n (fun i => g i - g' i) = rsum lo n g - rsum lo n g' := by
  induction n generalizing lo with
  | zero => simp only [rsum_zero]; grind
  | succ n ih => rw [rsum_succ_front, rsum_succ_front, rsum_succ_front, ih]; grind

theorem sv_dot_sub_right (a b c : SV α) : a.dot (b - c) = a.dot b - a.dot c := by
  simp only [alg]; grind

/-- `Σ_r x_r τ_r` of a backward pass over the workspace `B` is `Σ_i (S_i x_i) · F_i` with the
    accumulated forces `F` -/
theorem tau_power (m : ModelS α) (B : WS α)
    (htree : ∀ c, 1 ≤ c → c ≤ m.nBodies - 1 → m.lam c < c) (hd : Disj m B)
    (har : ∀ i, 1 ≤ i → i ≤ m.nBodies - 1 → m.arity i ≠ .custom)
    (hlay : CoordLayout (fun i => (m.joint i).qIndex) (nS B m) (m.nBodies - 1) m.qdotSize)
    (x : VecN α) (s : (Nat → SV α) × VecN α) :
    sumTo m.qdotSize (fun r => x r *
        (forDown (m.nBodies - 1) (m.nBodies - 1) (rneaBody2 m B) s).2 r)
      = rsum 1 (m.nBodies - 1) (fun i => (B.Sqdd m i x).dot
          ((forDown (m.nBodies - 1) (m.nBodies - 1) (rneaBody2 m B) s).1 i)) := by
  rw [sum_by_joints _ _ _ _ hlay]
  refine rsum_congr _ _ _ _ (fun i h1 h2 => ?_)
  rw [L09.Sqdd_eq_wsum, wsum_dot]
  refine L09.sumTo_congr _ _ _ (fun a ha => ?_)
  rw [tau_val m B htree hd _ _ (Nat.le_refl _) (Nat.le_refl _) har s i (by omega) (by omega) a ha,
    Nat.zero_add]
  rfl

/-- **the quadratic form of the acceleration-dependent part of `InverseDynamics`**:
    `Σ_r x_r (ID(x) − ID(0))_r = Σ_i Δa_i · I_i Δa_i`, `Δa_i` the difference of the body accelerations
    of the two forward passes -/
theorem id_quadratic (m : ModelS α) (e : WS α) (st : QS α) (qd tau : VecN α)
    (fext : Option (Nat → SV α))
    (htree : ∀ c, 1 ≤ c → c ≤ m.nBodies - 1 → m.lam c < c)
    (har : ∀ c, 1 ≤ c → c ≤ m.nBodies - 1 → m.arity c = .one ∨ m.arity c = .three)
    (hvirt : ∀ i, 1 ≤ i → i ≤ m.nBodies - 1 → (m.body i).isVirtual = true → m.rbi i = RBI.zero)
    (hd : Disj m (idFwd m e st qd (fun _ => 0) fext))
    (hlay : CoordLayout (fun i => (m.joint i).qIndex) (nS (idFwd m e st qd (fun _ => 0) fext) m)
      (m.nBodies - 1) m.qdotSize)
    (x : VecN α) :
    sumTo m.qdotSize (fun r => x r *
        ((inverseDynamics m e st qd x tau fext).2 r
          - (inverseDynamics m e st qd (fun _ => 0) tau fext).2 r))
      = rsum 1 (m.nBodies - 1) (fun i =>
          ((idFwd m e st qd x fext).a i - (idFwd m e st qd (fun _ => 0) fext).a i).dot
            (m.rbi i * ((idFwd m e st qd x fext).a i - (idFwd m e st qd (fun _ => 0) fext).a i))) := by
  obtain ⟨hB, e1⟩ := id_pair m e st qd tau fext htree har x
  obtain ⟨_, e0⟩ := id_pair m e st qd tau fext htree har (fun _ => 0)
  obtain ⟨sa, ha0, hE⟩ := hB
  have harc : ∀ i, 1 ≤ i → i ≤ m.nBodies - 1 → m.arity i ≠ .custom := fun i h1 h2 => by
    rcases har i h1 h2 with h | h <;> rw [h] <;> simp
  rw [e1, e0]
  dsimp only
  generalize hB1 : idFwd m e st qd x fext = B1 at *
  generalize hB2 : idFwd m e st qd (fun _ => 0) fext = B2 at *
  have hsplit : sumTo m.qdotSize (fun r => x r *
        ((forDown (m.nBodies - 1) (m.nBodies - 1) (rneaBody2 m B2) (B1.f, tau)).2 r
          - (forDown (m.nBodies - 1) (m.nBodies - 1) (rneaBody2 m B2) (B2.f, tau)).2 r))
      = sumTo m.qdotSize (fun r => x r *
          (forDown (m.nBodies - 1) (m.nBodies - 1) (rneaBody2 m B2) (B1.f, tau)).2 r)
        - sumTo m.qdotSize (fun r => x r *
          (forDown (m.nBodies - 1) (m.nBodies - 1) (rneaBody2 m B2) (B2.f, tau)).2 r) := by
    rw [← L09.sumTo_sub]
    refine L09.sumTo_congr _ _ _ (fun r _ => ?_)
    grind
  rw [hsplit, tau_power m B2 htree hd harc hlay x, tau_power m B2 htree hd harc hlay x,
    rneaLoop2_fst, rneaLoop2_fst]
  -- the "velocities" of the virtual-work identity
  have hV : ∀ i, 1 ≤ i → i ≤ m.nBodies - 1 →
      B1.a i - B2.a i
        = (if m.lam i ≠ 0 then (B2.X_lambda i).apply (B1.a (m.lam i) - B2.a (m.lam i))
            else SV.zero) + B2.Sqdd m i x := by
    intro i h1 h2
    have := (hE i h1 h2).1
    rw [sa.X_lambda, Sqdd_congr m _ _ sa, Sqdd_congr m _ _ sa i (fun _ => 0)] at this
    have hz : B2.Sqdd m i (fun _ => 0) = SV.zero := L01.Sqdd_zero m B2 i
    rw [this, hz]
    by_cases hl : m.lam i ≠ 0
    · rw [if_pos hl]; alg_ext
    · have hl0 : m.lam i = 0 := by omega
      rw [if_neg hl, hl0, ha0, L03.sv_sub_self, L01.apply_zero]; alg_ext
  rw [virtual_work m.lam B2.X_lambda (fun i => B1.a i - B2.a i) (fun i => B2.Sqdd m i x)
      (m.nBodies - 1) htree hV B1.f,
    virtual_work m.lam B2.X_lambda (fun i => B1.a i - B2.a i) (fun i => B2.Sqdd m i x)
      (m.nBodies - 1) htree hV B2.f, ← rsum_sub]
  refine rsum_congr _ _ _ _ (fun i h1 h2 => ?_)
  rw [← sv_dot_sub_right, (hE i h1 (by omega)).2]
  split
  · rename_i hv
    rw [hvirt i h1 (by omega) hv, Core.rbi_zero_mul]
  · rfl

/-! ### the velocities, `H`, and the kinetic energy -/

theorem idForward_eq_idFwd (m : ModelS α) (e : WS α) (st : QS α) (qd qdd : VecN α)
    (fext : Option (Nat → SV α)) :
    L01.idForward m e st qd qdd fext = idFwd m e st qd qdd fext := by
  cases fext <;> rfl

theorem wsum_congr (x y : Nat → α) (s : Nat) (cols : List (SV α))
    (h : ∀ a, a < cols.length → x (s + a) = y (s + a)) : L05.wsum x s cols = L05.wsum y s cols := by
  induction cols generalizing s with
  | nil => rfl
  | cons c cols ih =>
    rw [L05.wsum, L05.wsum, ih (s + 1) (fun a ha => by
      have := h (a + 1) (by simp only [List.length_cons]; omega)
      rw [show s + 1 + a = s + (a + 1) by omega]; exact this)]
    have := h 0 (by simp only [List.length_cons]; omega)
    rw [Nat.add_zero] at this
    rw [this]

/-- the recursion of the acceleration differences of two forward passes of `InverseDynamics` -/
theorem accdiff_rec (m : ModelS α) (e : WS α) (st : QS α) (qd : VecN α)
    (fext : Option (Nat → SV α))
    (htree : ∀ c, 1 ≤ c → c ≤ m.nBodies - 1 → m.lam c < c)
    (har : ∀ c, 1 ≤ c → c ≤ m.nBodies - 1 → m.arity c = .one ∨ m.arity c = .three)
    (x : VecN α) :
    (idFwd m e st qd x fext).a 0 - (idFwd m e st qd (fun _ => 0) fext).a 0 = SV.zero ∧
    ∀ i, 1 ≤ i → i ≤ m.nBodies - 1 →
      (idFwd m e st qd x fext).a i - (idFwd m e st qd (fun _ => 0) fext).a i
        = (if m.lam i ≠ 0 then
            ((idFwd m e st qd (fun _ => 0) fext).X_lambda i).apply
              ((idFwd m e st qd x fext).a (m.lam i) - (idFwd m e st qd (fun _ => 0) fext).a (m.lam i))
           else SV.zero) + (idFwd m e st qd (fun _ => 0) fext).Sqdd m i x := by
  obtain ⟨sa, ha0, hE⟩ := idFwd_invB m st qd x (fun _ => 0) fext htree har e e (SA.rfl' e)
  refine ⟨by rw [ha0]; exact L03.sv_sub_self _, fun i h1 h2 => ?_⟩
  have := (hE i h1 h2).1
  rw [sa.X_lambda, Sqdd_congr m _ _ sa, Sqdd_congr m _ _ sa i (fun _ => 0)] at this
  have hz : (idFwd m e st qd (fun _ => 0) fext).Sqdd m i (fun _ => 0) = SV.zero :=
    L01.Sqdd_zero m _ i
  rw [this, hz]
  by_cases hl : m.lam i ≠ 0
  · rw [if_pos hl]; alg_ext
  · have hl0 : m.lam i = 0 := by omega
    rw [if_neg hl, hl0, ha0, L03.sv_sub_self, L01.apply_zero]; alg_ext

/-- the acceleration differences are the velocities of any workspace that satisfies the kinematic
    recursions for `x` with the same link transforms and motion subspaces -/
theorem accdiff_eq_vel (m : ModelS α) (e : WS α) (st : QS α) (qd : VecN α)
    (fext : Option (Nat → SV α))
    (htree : ∀ c, 1 ≤ c → c ≤ m.nBodies - 1 → m.lam c < c)
    (har : ∀ c, 1 ≤ c → c ≤ m.nBodies - 1 → m.arity c = .one ∨ m.arity c = .three)
    (hlay : CoordLayout (fun i => (m.joint i).qIndex) (nS (idFwd m e st qd (fun _ => 0) fext) m)
      (m.nBodies - 1) m.qdotSize)
    (x : VecN α) (Wx : WS α) (hK : L05.KinWS m Wx x)
    (hX : ∀ i, 1 ≤ i → i ≤ m.nBodies - 1 →
      Wx.X_lambda i = (idFwd m e st qd (fun _ => 0) fext).X_lambda i)
    (hS : ∀ i, 1 ≤ i → i ≤ m.nBodies - 1 →
      Wx.Scols m i = (idFwd m e st qd (fun _ => 0) fext).Scols m i) :
    ∀ i, 1 ≤ i → i ≤ m.nBodies - 1 →
      (idFwd m e st qd (fun k => if k < m.qdotSize then x k else 0) fext).a i
        - (idFwd m e st qd (fun _ => 0) fext).a i = Wx.v i := by
  obtain ⟨_, hrec⟩ := accdiff_rec m e st qd fext htree har (fun k => if k < m.qdotSize then x k else 0)
  intro i
  induction i using Nat.strongRecOn with
  | _ i ih =>
    intro h1 h2
    have hk := hK i h1 (by omega)
    have hvJ : (idFwd m e st qd (fun _ => 0) fext).Sqdd m i (fun k => if k < m.qdotSize then x k else 0)
        = Wx.v_J i := by
      rw [hk.v_J, L09.Sqdd_eq_wsum, hS i h1 h2]
      refine wsum_congr _ _ _ _ (fun a ha => ?_)
      have := hlay.bound i h1 h2
      show (if (m.joint i).qIndex + (0 + a) < m.qdotSize then _ else _) = _
      rw [if_pos (by unfold nS at this; omega)]
    rw [hrec i h1 h2, hvJ, hk.v, hX i h1 h2]
    by_cases hl : m.lam i ≠ 0
    · have hlt := htree i h1 h2
      rw [if_pos hl, if_pos hl, ih (m.lam i) hlt (by omega) (by omega)]
    · rw [if_neg hl, if_neg hl]; alg_ext

theorem sumTo_zero_fun (n : Nat) : sumTo n (fun _ => (0 : α)) = 0 := by
  induction n with
  | zero => rfl
  | succ n ih => rw [sumTo, ih]; grind

theorem rsum_half (lo n : Nat) (g : Nat → α) : rsum lo n (fun i => g i / 2) = rsum lo n g / 2 := by
  induction n generalizing lo with
  | zero => simp only [rsum_zero]; grind
  | succ n ih => rw [rsum_succ_front, rsum_succ_front, ih]; grind

/-- **the quadratic form of the joint-space inertia matrix returned by
    `CalcConstrainedSystemVariables`**: for every generalized velocity `x` and every workspace `Wx`
    that satisfies the kinematic recursions for `x` (`KinWS m Wx x`) with the link transforms and
    motion subspaces of `csvWS`, `xᵀ H x = Σ_i v_i · I_i v_i` with the body velocities `v_i` of `Wx` -/
theorem csv_quadratic_form (m : ModelS α) (w : WS α) (st : QS α) (qd : VecN α) (C : CSet α)
    (update : Bool) (fext : Option (Nat → SV α)) (h : DynHyp m (updQ m w st update) st qd fext)
    (hlay : CoordLayout (fun i => (m.joint i).qIndex)
      (nS (csvWS m w st qd update fext) m) (m.nBodies - 1) m.qdotSize)
    (x : VecN α) (Wx : WS α) (hK : L05.KinWS m Wx x)
    (hX : ∀ i, 1 ≤ i → i ≤ m.nBodies - 1 →
      Wx.X_lambda i = (csvWS m w st qd update fext).X_lambda i)
    (hS : ∀ i, 1 ≤ i → i ≤ m.nBodies - 1 →
      Wx.Scols m i = (csvWS m w st qd update fext).Scols m i) :
    sumTo m.qdotSize (fun r => x r *
        sumTo m.qdotSize (fun c => (sysVars m w st qd C update fext).H r c * x c))
      = rsum 1 (m.nBodies - 1) (fun i => (Wx.v i).dot (m.rbi i * Wx.v i)) := by
  have htree' : ∀ i, 1 ≤ i → i < m.nBodies → m.lam i < i := fun i h1 h2 => h.tree i h1 (by omega)
  have har' : ∀ i, 1 ≤ i → i < m.nBodies → m.arity i ≠ .other := fun i h1 h2 => by
    rcases h.ar i h1 (by omega) with e | e <;> rw [e] <;> simp
  -- `csvWS` holds the transforms / motion subspaces of the forward pass of `ID(0)`
  obtain ⟨fX, fS, _⟩ := ne_id_forward m h.inj htree' har' h.perm (updQ m w st update) st qd fext h.xb
  rw [idForward_eq_idFwd] at fX fS
  have cX : (csvWS m w st qd update fext).X_lambda
      = (idFwd m (updQ m w st update) st qd (fun _ => 0) fext).X_lambda := by
    rw [csvWS_keep (fun w => w.X_lambda) (fun _ _ => rfl) (fun _ _ => rfl)]; exact fX
  have cS : (csvWS m w st qd update fext).Scols m
      = (idFwd m (updQ m w st update) st qd (fun _ => 0) fext).Scols m := by
    rw [csvWS_keep (fun w => w.Scols m) (fun _ _ => rfl) (fun _ _ => rfl)]; exact fS
  have hnS : nS (csvWS m w st qd update fext) m
      = nS (idFwd m (updQ m w st update) st qd (fun _ => 0) fext) m := by
    funext i; unfold nS; rw [cS]
  rw [hnS] at hlay
  have hd : Disj m (idFwd m (updQ m w st update) st qd (fun _ => 0) fext) := by
    obtain ⟨_, e0⟩ := id_pair m (updQ m w st update) st qd (fun _ => 0) fext h.tree h.ar
      (fun _ => 0)
    refine Disj_congr m _ _ ?_ h.disj
    rw [e0]; rfl
  -- `H x = ID(x) − ID(0)`
  have hHx : ∀ r, sumTo m.qdotSize (fun c => (sysVars m w st qd C update fext).H r c * x c)
      = (inverseDynamics m (updQ m w st update) st qd (fun k => if k < m.qdotSize then x k else 0)
          (fun _ => 0) fext).2 r
        - (inverseDynamics m (updQ m w st update) st qd (fun _ => 0) (fun _ => 0) fext).2 r := by
    intro r
    have a1 := csv_H_C m w st qd C update fext h x r
    have a0 := csv_H_C m w st qd C update fext h (fun _ => 0) r
    have e0 : (fun k => if k < m.qdotSize then (0 : α) else 0) = fun _ => 0 := by
      funext k; split <;> rfl
    have z : sumTo m.qdotSize (fun c => (sysVars m w st qd C update fext).H r c * (0 : α)) = 0 := by
      have : (fun c => (sysVars m w st qd C update fext).H r c * (0 : α)) = fun _ => 0 :=
        funext (fun c => by grind)
      rw [this, sumTo_zero_fun]
    rw [e0, z] at a0
    rw [a1, a0]; grind
  have e1 : sumTo m.qdotSize (fun r => x r *
        sumTo m.qdotSize (fun c => (sysVars m w st qd C update fext).H r c * x c))
      = sumTo m.qdotSize (fun r => (fun k => if k < m.qdotSize then x k else 0) r *
          ((inverseDynamics m (updQ m w st update) st qd
              (fun k => if k < m.qdotSize then x k else 0) (fun _ => 0) fext).2 r
            - (inverseDynamics m (updQ m w st update) st qd (fun _ => 0) (fun _ => 0) fext).2 r)) :=
    L09.sumTo_congr _ _ _ (fun r hr => by
      show _ = (if r < m.qdotSize then x r else 0) * _
      rw [hHx r, if_pos hr])
  rw [e1, id_quadratic m _ st qd (fun _ => 0) fext h.tree h.ar h.virt hd hlay]
  refine rsum_congr _ _ _ _ (fun i h1 h2 => ?_)
  rw [accdiff_eq_vel m _ st qd fext h.tree h.ar hlay x Wx hK
    (fun i h1 h2 => by rw [hX i h1 h2, cX]) (fun i h1 h2 => by rw [hS i h1 h2, cS]) i h1 (by omega)]

/-- **`CalcKineticEnergy = ½ xᵀ H x`** for the `H` of `CalcConstrainedSystemVariables` (workspace `Wx`
    as in `csv_quadratic_form`, `update_kinematics = false`) -/
theorem csv_kinetic_energy (m : ModelS α) (w : WS α) (st : QS α) (qd : VecN α) (C : CSet α)
    (update : Bool) (fext : Option (Nat → SV α)) (h : DynHyp m (updQ m w st update) st qd fext)
    (hlay : CoordLayout (fun i => (m.joint i).qIndex)
      (nS (csvWS m w st qd update fext) m) (m.nBodies - 1) m.qdotSize)
    (x : VecN α) (Wx : WS α) (hK : L05.KinWS m Wx x)
    (hX : ∀ i, 1 ≤ i → i ≤ m.nBodies - 1 →
      Wx.X_lambda i = (csvWS m w st qd update fext).X_lambda i)
    (hS : ∀ i, 1 ≤ i → i ≤ m.nBodies - 1 →
      Wx.Scols m i = (csvWS m w st qd update fext).Scols m i) :
    (calcKineticEnergy m Wx st x false).2
      = sumTo m.qdotSize (fun r => x r *
          sumTo m.qdotSize (fun c => (sysVars m w st qd C update fext).H r c * x c)) / 2 := by
  rw [csv_quadratic_form m w st qd C update fext h hlay x Wx hK hX hS, ← rsum_half]
  show forUp (m.nBodies - 1) 1 (fun i acc => acc + (Wx.v i).dot (m.rbi i * Wx.v i) / 2) 0 = _
  rw [forUp_add_eq L12.ring_addLaws (fun i => (Wx.v i).dot (m.rbi i * Wx.v i) / 2),
    L12.ring_addLaws.zero_add]
  rfl

end
end Rbdl.L08Phys
