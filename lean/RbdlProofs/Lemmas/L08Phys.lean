import RbdlProofs.Lemmas.L09Whole
/-
  C08 / C10 / C11, physical reading of the KKT relations (part 1): one row of a constraint, on a
  generic workspace `W` that satisfies the kinematic hypotheses `JacHyp` of C05.

  `colDot G nc j λ = Σ_{k<nc} G k j · λ k` is entry `j` of `Gᵀ λ` (`rowDot` of L09 is a row of `G x`).
-/
set_option linter.unusedSectionVars false
namespace Rbdl.L08Phys
open Lean.Grind Rbdl Rbdl.L05 Rbdl.L09 Rbdl.Spec

section
variable {α : Type} [Field α] [DecidableEq α]

/-- entry `j` of `Gᵀ λ` for a `G` with `nc` rows -/
def colDot (G : MatN α) (nc j : Nat) (lam : VecN α) : α := sumTo nc (fun k => G k j * lam k)

/-- the Baumgarte term of row `r` of constraint `c` -/
def bgTerm (c : Constr α) (err errd : VecN α) (r : Nat) : α :=
  if c.baumgarte = true then -(2 * c.bgA * errd r) - c.bgB * c.bgB * err r else 0

theorem rowDot_congr (G G' : MatN α) (nv r : Nat) (x : VecN α)
    (h : ∀ col, col < nv → G r col = G' r col) : rowDot G nv r x = rowDot G' nv r x :=
  sumTo_congr _ _ _ (fun j hj => by rw [h j hj])

/-- contact row, generic workspace: if row `r` of `G q̈ = γ` holds, with the row of `G` and the
    entry of `γ` as `CalcConstrainedSystemVariables` writes them, the acceleration of the contact
    point along the normal is the Baumgarte term (0 without stabilisation) -/
theorem contact_acc_of_kkt_row (c : Constr α) (hc : c.ctype = .contact) (m : ModelS α) (W : WS α)
    (st : QS α) (qd qdd : VecN α) (hJ : JacHyp m W qd) (hP : BodyOK m c.bodyP) (r : Nat)
    (hr : hasRow c r) (G : MatN α) (gam err errd : VecN α)
    (hG : ∀ col, col < m.qdotSize → G r col = (c.jacobian m W st zeroMat false).2 r col)
    (hgam : gam r = (c.gamma m (updateKinematicsCustom m W none none (some zeroVec)) st qd
        (fun _ => 0)).2 r + bgTerm c err errd r)
    (hK : rowDot G m.qdotSize r qdd = gam r) :
    (axisAt c r).v.dot
        (calcPointAcceleration m (updateKinematicsCustom m W none none (some qdd)) st qd qdd
          c.bodyP c.XP.r false).2
      = bgTerm c err errd r := by
  have e := contact_Gqdd_minus_gamma c hc m W st qd qdd zeroMat (fun _ => 0) hJ hP r hr
  rw [← rowDot_congr _ _ _ _ _ hG, hK, hgam] at e
  rw [← e]; grind

/-- the errors a contact constraint reports (only the flag facts of the bookkeeping are used, so
    the statement also covers a contact record with stabilisation switched on) -/
theorem contact_errors (c : Constr α) (hc : c.ctype = .contact)
    (hvl : c.velC.length = c.T.length) (hva : ∀ b ∈ c.velC, b = true)
    (hpl : c.posC.length = c.T.length) (hpa : ∀ b ∈ c.posC, b = false)
    (m : ModelS α) (W : WS α) (st : QS α) (qd : VecN α) (G : MatN α) (err errd : VecN α) (r : Nat)
    (hr : hasRow c r) :
    (c.velocityError m W st qd G errd false).2 r
      = (axisAt c r).v.dot (calcPointVelocity m W st qd c.bodyP c.XP.r false).2 ∧
    (c.positionError m W st err false).2 r = 0 := by
  have hk : r - c.row < c.T.length := by have := hr.1; have := hr.2; omega
  have e1 : c.velC.getD (r - c.row) false = true := by
    have hl : r - c.row < c.velC.length := by rw [hvl]; exact hk
    rw [List.getD_eq_getElem?_getD, List.getElem?_eq_getElem hl, Option.getD_some]
    exact hva _ (List.getElem_mem hl)
  have e2 : c.posC.getD (r - c.row) false = false := by
    have hl : r - c.row < c.posC.length := by rw [hpl]; exact hk
    rw [List.getD_eq_getElem?_getD, List.getElem?_eq_getElem hl, Option.getD_some]
    exact hpa _ (List.getElem_mem hl)
  refine ⟨?_, ?_⟩
  · rw [contact_velocityError_get c hc, if_pos hr, e1, if_pos rfl, v3_dot_comm]
  · rw [contact_positionError_get c hc, if_pos hr, e2]; rfl

/-- the Baumgarte term of a contact row is `−2 a (n · v_P)` -/
theorem contact_bgTerm (c : Constr α) (hc : c.ctype = .contact)
    (hvl : c.velC.length = c.T.length) (hva : ∀ b ∈ c.velC, b = true)
    (hpl : c.posC.length = c.T.length) (hpa : ∀ b ∈ c.posC, b = false)
    (m : ModelS α) (W : WS α) (st : QS α) (qd : VecN α) (G : MatN α) (err errd : VecN α) (r : Nat)
    (hr : hasRow c r) :
    bgTerm c (c.positionError m W st err false).2 (c.velocityError m W st qd G errd false).2 r
      = if c.baumgarte = true then
          -(2 * c.bgA * (axisAt c r).v.dot (calcPointVelocity m W st qd c.bodyP c.XP.r false).2)
        else 0 := by
  obtain ⟨e1, e2⟩ := contact_errors c hc hvl hva hpl hpa m W st qd G err errd r hr
  unfold bgTerm
  rw [e1, e2]
  split <;> grind

theorem addBaumgarte_bgTerm (c : Constr α) (err errd gam : VecN α) (r : Nat) (hr : hasRow c r) :
    c.addBaumgarte err errd gam r = gam r + bgTerm c err errd r := by
  rw [addBaumgarte_get]
  unfold bgTerm
  by_cases hb : c.baumgarte = true
  · rw [if_pos ⟨hb, hr⟩, if_pos hb]
  · rw [if_neg (fun h => hb h.1), if_neg hb]; grind

/-- the point Jacobian reads only `X_base` and the motion-subspace columns -/
theorem pointJacobian_congr (m : ModelS α) (W W' : WS α) (st : QS α) (id : Nat) (p : V3 α)
    (G : MatN α) (hX : W'.X_base = W.X_base) (hS : W'.Scols m = W.Scols m) :
    (calcPointJacobian m W' st id p G false).2 = (calcPointJacobian m W st id p G false).2 := by
  rw [calcPointJacobian_eq, calcPointJacobian_eq, updQ_false, updQ_false]
  unfold jacFill bodyToBase0
  rw [hX, hS]

/-- **virtual power of a contact row**: for every velocity vector `x` and every workspace `Wx` that
    holds the same positions as `W` (`X_base`, motion subspaces) and the velocities of `x`, row `r`
    of `G` times `x` is the normal velocity of the contact point -/
theorem contact_row_virtual (c : Constr α) (hc : c.ctype = .contact) (m : ModelS α) (W Wx : WS α)
    (st : QS α) (x : VecN α) (G : MatN α) (hX : Wx.X_base = W.X_base)
    (hS : Wx.Scols m = W.Scols m) (hJ : JacHyp m Wx x) (hP : BodyOK m c.bodyP) (r : Nat)
    (hr : hasRow c r) :
    rowDot (c.jacobian m W st G false).2 m.qdotSize r x
      = (axisAt c r).v.dot (calcPointVelocity m Wx st x c.bodyP c.XP.r false).2 := by
  rw [contact_row_dot c hc m W st G false r hr x]
  unfold contactJ
  rw [← pointJacobian_congr m W Wx st c.bodyP c.XP.r zeroMat hX hS,
    pointJacobian_mul_ok m Wx st x c.bodyP c.XP.r hJ hP]

/-- entry `(r, col)` of a contact row: the normal times column `col` of the point Jacobian -/
theorem contact_G_entry (c : Constr α) (hc : c.ctype = .contact) (m : ModelS α) (W : WS α)
    (st : QS α) (G : MatN α) (r col : Nat) (hr : hasRow c r) (hcol : col < m.qdotSize) :
    (c.jacobian m W st G false).2 r col
      = (axisAt c r).v.dot
          ⟨(calcPointJacobian m W st c.bodyP c.XP.r zeroMat false).2 0 col,
           (calcPointJacobian m W st c.bodyP c.XP.r zeroMat false).2 1 col,
           (calcPointJacobian m W st c.bodyP c.XP.r zeroMat false).2 2 col⟩ := by
  rw [contact_jacobian_get c hc, if_pos ⟨hr, hcol⟩]
  rfl

/-! ### the rows of `CalcConstrainedSystemVariables` -/

/-- the record returned by `CalcConstrainedSystemVariables` -/
abbrev sysVars (m : ModelS α) (w : WS α) (st : QS α) (qd : VecN α) (C : CSet α) (update : Bool)
    (fext : Option (Nat → SV α)) : SysVars α :=
  (calcConstrainedSystemVariables m w st qd C update fext).2

/-- `G q̈` and `γ` of row `r` of a constraint, in terms of that constraint alone -/
theorem csv_row_kkt (C : CSet α) (hI : Inv C) (hC : Contig C) (hn : ∀ c ∈ C.cs, NoFixed c)
    (m : ModelS α) (w : WS α) (st : QS α) (qd : VecN α) (update : Bool)
    (fext : Option (Nat → SV α)) (c : Constr α) (hc : c ∈ C.cs) (r : Nat) (hr : hasRow c r)
    (x : VecN α) :
    rowDot (sysVars m w st qd C update fext).G m.qdotSize r x
      = rowDot (c.jacobian m (csvWS m w st qd update fext) st zeroMat false).2 m.qdotSize r x ∧
    (sysVars m w st qd C update fext).gamma r
      = (c.gamma m (updateKinematicsCustom m (csvWS m w st qd update fext) none none
            (some zeroVec)) st qd (fun _ => 0)).2 r
        + bgTerm c (sysVars m w st qd C update fext).err (sysVars m w st qd C update fext).errd r := by
  obtain ⟨e1, _, _, e4⟩ := csv_rows C hI hC hn m w st qd update fext c hc r hr
  exact ⟨rowDot_congr _ _ _ _ _ e1, e4⟩

/-- **contacts in `CalcConstrainedSystemVariables`**: if row `r` of `G q̈ = γ` holds, the contact
    point has no acceleration along the normal `n_r`; the reported errors of the row are `0` and
    `n_r · v_P` -/
theorem csv_contact_acc (C : CSet α) (hI : Inv C) (hC : Contig C) (hn : ∀ c ∈ C.cs, NoFixed c)
    (m : ModelS α) (w : WS α) (st : QS α) (qd : VecN α) (update : Bool)
    (fext : Option (Nat → SV α)) (hJ : JacHyp m (csvWS m w st qd update fext) qd)
    (c : Constr α) (hc : c ∈ C.cs) (hct : c.ctype = .contact) (hP : BodyOK m c.bodyP)
    (qdd : VecN α) (r : Nat) (hr : hasRow c r)
    (hK : rowDot (sysVars m w st qd C update fext).G m.qdotSize r qdd
      = (sysVars m w st qd C update fext).gamma r) :
    (axisAt c r).v.dot
        (calcPointAcceleration m
          (updateKinematicsCustom m (csvWS m w st qd update fext) none none (some qdd)) st qd qdd
          c.bodyP c.XP.r false).2 = 0 := by
  obtain ⟨e1, _, _, e4⟩ := csv_rows C hI hC hn m w st qd update fext c hc r hr
  have hb : c.baumgarte = false := ((hI.shape c hc).contactE hct).2.2
  have := contact_acc_of_kkt_row c hct m _ st qd qdd hJ hP r hr _ _
    (sysVars m w st qd C update fext).err (sysVars m w st qd C update fext).errd e1
    (by rw [e4]; rfl) hK
  rw [this]; unfold bgTerm; rw [hb]; rfl

end
end Rbdl.L08Phys
