import RbdlProofs.Lemmas.L14Q
/-
  C14, query clauses — part 2: what `GetParentBodyId` / `GetJointFrame` answer for a body that
  was just added with a movable (single, floating-base, emulated multi-DoF or custom) joint.
-/
namespace Rbdl.L14Q
open Lean.Grind Rbdl Rbdl.ModelS

section
variable {α : Type} [Field α]

/-! ### one `addBodyMovable` -/

theorem movableResult_lam_old (m : ModelS α) (hwf : m.WF) (parent : Nat) (frame : XT α)
    (j : Joint α) (b : Body α) (name : String) (i : Nat) (hi : i < m.bodies.length) :
    (movableResult m parent frame j b name).lam i = m.lam i := by
  simp only [movableResult, lam]
  exact getD_append_left _ _ _ _ (by rw [hwf.len_lambda]; exact hi)

theorem movableResult_lam_new (m : ModelS α) (hwf : m.WF) (parent : Nat) (frame : XT α)
    (j : Joint α) (b : Body α) (name : String) :
    (movableResult m parent frame j b name).lam m.bodies.length = m.mpOf parent := by
  simp only [movableResult, lam]
  exact getD_append_last' _ _ _ _ (by rw [hwf.len_lambda]; rfl)

theorem movableResult_body_old (m : ModelS α) (parent : Nat) (frame : XT α)
    (j : Joint α) (b : Body α) (name : String) (i : Nat) (hi : i < m.bodies.length) :
    (movableResult m parent frame j b name).body i = m.body i := by
  simp only [movableResult, body]
  exact getD_append_left _ _ _ _ hi

theorem movableResult_body_new (m : ModelS α) (parent : Nat) (frame : XT α)
    (j : Joint α) (b : Body α) (name : String) :
    (movableResult m parent frame j b name).body m.bodies.length = b := by
  simp only [movableResult, body]
  exact getD_append_last _ _ _

theorem movableResult_xT_old (m : ModelS α) (hwf : m.WF) (parent : Nat) (frame : XT α)
    (j : Joint α) (b : Body α) (name : String) (i : Nat) (hi : i < m.bodies.length) :
    (movableResult m parent frame j b name).XT_ i = m.XT_ i := by
  simp only [movableResult, XT_]
  exact getD_append_left _ _ _ _ (by rw [hwf.len_xT]; exact hi)

theorem movableResult_xT_new (m : ModelS α) (hwf : m.WF) (parent : Nat) (frame : XT α)
    (j : Joint α) (b : Body α) (name : String) :
    (movableResult m parent frame j b name).XT_ m.bodies.length = frame * m.mpXOf parent := by
  simp only [movableResult, XT_]
  exact getD_append_last' _ _ _ _ (by rw [hwf.len_xT]; rfl)

theorem movableResult_len (m : ModelS α) (parent : Nat) (frame : XT α)
    (j : Joint α) (b : Body α) (name : String) :
    (movableResult m parent frame j b name).bodies.length = m.bodies.length + 1 := by
  simp [movableResult]

theorem qext_movableResult (m : ModelS α) (hwf : m.WF) (parent : Nat) (frame : XT α)
    (j : Joint α) (b : Body α) (name : String) :
    QExt m (movableResult m parent frame j b name) := by
  refine ⟨by rw [movableResult_len]; omega, ?_, ?_, ?_, List.prefix_refl _⟩
  · exact fun i hi => movableResult_lam_old m hwf _ _ _ _ _ i hi
  · exact fun i hi => by rw [movableResult_body_old m _ _ _ _ _ i hi]
  · exact fun i hi => movableResult_xT_old m hwf _ _ _ _ _ i hi

/-- What the queries see of a body `id` that was added to `m` (giving `m'`) on the parent id
    `parent` with the joint frame `frame`; `par` and `top` need the documented bound on the
    number of bodies (ids of movable bodies stay below `fixedDisc`). -/
structure AddedQ (m m' : ModelS α) (id parent : Nat) (frame : XT α) : Prop where
  wf' : m'.WF
  ext : QExt m m'
  id_ge : m.bodies.length ≤ id
  id_lt : id < m'.bodies.length
  fixed : m'.fixedBodies = m.fixedBodies
  par : m'.bodies.length ≤ fixedDisc → nvAnc m' (m'.lam id) = nvAnc m (m.mpOf parent)
  top : m'.bodies.length ≤ fixedDisc → m'.XT_ (topOf m' id) =
    if (m.body (m.mpOf parent)).isVirtual then m.XT_ (topOf m (m.mpOf parent))
    else frame * m.mpXOf parent

theorem addedQ_single (m : ModelS α) (hwf : m.WF) (parent : Nat) (frame : XT α)
    (j : Joint α) (b : Body α) (name : String)
    (hp : m.validId parent) (hj : m.jointOk j) (hn : ¬(name ≠ "" ∧ m.hasName name)) :
    AddedQ m (movableResult m parent frame j b name) m.bodies.length parent frame := by
  have hwf' := wf_movableResult m hwf parent frame j b name hp hj hn
  have hmp := mpOf_lt m hwf parent hp
  simp only [nBodies] at hmp
  have hl := lamOK_of_wf hwf
  have hl' := lamOK_of_wf hwf'
  have he := qext_movableResult m hwf parent frame j b name
  refine ⟨hwf', he, Nat.le_refl _, by rw [movableResult_len]; omega, rfl, fun _ => ?_, fun _ => ?_⟩
  · rw [movableResult_lam_new m hwf]
    exact nvAnc_ext hl hl' he _ _ (Nat.le_refl _) hmp
  · rw [topOf_eq hl' _ (by rw [movableResult_len]; omega), movableResult_lam_new m hwf,
      he.virt _ hmp]
    split
    · rw [topOf_ext hl hl' he _ _ (Nat.le_refl _) hmp]
      have := topOf_le hl _ _ (Nat.le_refl _) hmp
      exact he.xT _ (by omega)
    · exact movableResult_xT_new m hwf _ _ _ _ _

theorem nullBody_virtual : (nullBody : Body α).isVirtual = true := rfl

omit [Field α] in
theorem not_fixed_of_lt (m : ModelS α) (i : Nat) (h : i < fixedDisc) :
    m.isFixedBodyId i = false := by
  cases hh : m.isFixedBodyId i with
  | false => rfl
  | true => rw [isFixedBodyId_iff] at hh; omega

theorem mpOf_movable (m : ModelS α) (i : Nat) (h : i < fixedDisc) : m.mpOf i = i := by
  simp only [mpOf, not_fixed_of_lt m i h]; rfl

theorem mpXOf_movable (m : ModelS α) (i : Nat) (h : i < fixedDisc) : m.mpXOf i = XT.id := by
  simp only [mpXOf, not_fixed_of_lt m i h]; rfl

/-- a massless virtual body is put between the parent and the rest of the chain -/
theorem addedQ_virtual_step (m : ModelS α) (hwf : m.WF) (parent : Nat) (frame : XT α)
    (j : Joint α) (hp : m.validId parent) (hj : m.jointOk j) (m' : ModelS α) (id : Nat)
    (h : AddedQ (movableResult m parent frame j nullBody "") m' id m.bodies.length XT.id) :
    AddedQ m m' id parent frame := by
  have h1 := addedQ_single m hwf parent frame j nullBody "" hp hj (not_dup_empty m)
  have hl1 := lamOK_of_wf h1.wf'
  have hlen := movableResult_len m parent frame j nullBody ""
  have hge := h.id_ge
  have hnb := h.ext.nb
  refine ⟨h.wf', h1.ext.trans h.ext, by omega, h.id_lt, by rw [h.fixed, h1.fixed],
    fun hb => ?_, fun hb => ?_⟩
  · have hn : m.bodies.length < fixedDisc := by omega
    rw [h.par hb, mpOf_movable _ _ hn, nvAnc_eq hl1, movableResult_body_new, nullBody_virtual,
      if_pos rfl]
    exact h1.par (by omega)
  · have hn : m.bodies.length < fixedDisc := by omega
    rw [h.top hb, mpOf_movable _ _ hn, movableResult_body_new, nullBody_virtual, if_pos rfl]
    exact h1.top (by omega)

/-! ### the answers of the queries for the new body -/

/-- `nvAnc` / the reported frame in terms of the queries of the old model -/
theorem nvAnc_as_query (m : ModelS α) (hwf : m.WF) (p : Nat) (hp : p < fixedDisc) :
    nvAnc m p = if (m.body p).isVirtual then m.getParentBodyId p else p := by
  rw [nvAnc_eq (lamOK_of_wf hwf), getParentBodyId_movable _ _ hp]

theorem queries_of_addedQ {m m' : ModelS α} {id parent : Nat} {frame : XT α}
    (ha : AddedQ m m' id parent frame) (hwf : m.WF) (hp : m.validId parent)
    (hb : m'.nBodies ≤ fixedDisc) :
    m'.getParentBodyId id =
      (if (m.body (m.mpOf parent)).isVirtual then m.getParentBodyId (m.mpOf parent)
       else m.mpOf parent) ∧
    m'.getJointFrame id =
      (if (m.body (m.mpOf parent)).isVirtual then m.getJointFrame (m.mpOf parent)
       else frame * m.mpXOf parent) := by
  have hmp := mpOf_lt m hwf parent hp
  have hnb := ha.ext.nb
  have hlt := ha.id_lt
  simp only [nBodies] at hmp hb
  have hid : id < fixedDisc := by omega
  have hpf : m.mpOf parent < fixedDisc := by omega
  refine ⟨?_, ?_⟩
  · rw [getParentBodyId_movable _ _ hid, ha.par hb, nvAnc_as_query m hwf _ hpf]
  · rw [getJointFrame_movable _ _ hid, ha.top hb, getJointFrame_movable _ _ hpf]

/-! ### chains, floating base -/
section Chain
variable [DecidableEq α]

theorem addChain_addedQ (b : Body α) (name : String) : ∀ (axes : List (SV α)) (m : ModelS α)
    (parent : Nat) (frame : XT α), axes ≠ [] → ¬(name ≠ "" ∧ m.hasName name) → m.WF →
    m.validId parent →
    ∃ m', addChain m parent frame axes b name = (m', .ok (m.bodies.length + axes.length - 1)) ∧
      AddedQ m m' (m.bodies.length + axes.length - 1) parent frame := by
  intro axes
  induction axes with
  | nil => intro m parent frame h; exact absurd rfl h
  | cons a rest ih =>
    intro m parent frame _ hd hwf hp
    cases rest with
    | nil =>
      refine ⟨movableResult m parent frame (Joint.ofAxis a) b name, ?_, ?_⟩
      · simp only [addChain]
        rw [addBodyMovable_eq, if_neg hd]; rfl
      · exact addedQ_single m hwf parent frame _ b name hp (jointOk_ofAxis m a) hd
    | cons a2 rest2 =>
      have hd1 : ¬(name ≠ "" ∧
          (movableResult m parent frame (Joint.ofAxis a) nullBody "").hasName name) := by
        rw [hasName_congr (movableResult_names_unnamed ..)]; exact hd
      have hwf1 := wf_movableResult m hwf parent frame _ nullBody "" hp (jointOk_ofAxis m a)
        (not_dup_empty m)
      obtain ⟨m', he, ha⟩ := ih (movableResult m parent frame (Joint.ofAxis a) nullBody "")
        m.bodies.length XT.id (by simp) hd1 hwf1 (movableResult_validId_new ..)
      have hlen := movableResult_len m parent frame (Joint.ofAxis a) nullBody ""
      have hidx : (movableResult m parent frame (Joint.ofAxis a) nullBody "").bodies.length +
          (a2 :: rest2).length - 1 = m.bodies.length + (a :: a2 :: rest2).length - 1 := by
        rw [hlen]; simp only [List.length_cons]; omega
      rw [hidx] at he ha
      refine ⟨m', ?_, ?_⟩
      · simp only [addChain]
        rw [addBodyMovable_unnamed]
        exact he
      · exact addedQ_virtual_step m hwf parent frame _ hp (jointOk_ofAxis m a) m' _ ha

omit [DecidableEq α] in
theorem addFloating_addedQ (m : ModelS α) (parent : Nat) (frame : XT α) (b : Body α)
    (name : String) (hd : ¬(name ≠ "" ∧ m.hasName name)) (hwf : m.WF) (hp : m.validId parent) :
    ∃ m', addFloating m parent frame b name = (m', .ok (m.bodies.length + 2 - 1)) ∧
      AddedQ m m' (m.bodies.length + 2 - 1) parent frame := by
  have hd1 : ¬(name ≠ "" ∧ (movableResult m parent frame floatT nullBody "").hasName name) := by
    rw [hasName_congr (movableResult_names_unnamed ..)]; exact hd
  have hjT : m.jointOk (floatT : Joint α) := by intro h; simp [floatT] at h
  have hwf1 := wf_movableResult m hwf parent frame floatT nullBody "" hp hjT (not_dup_empty m)
  have hlen := movableResult_len m parent frame floatT nullBody ""
  have ha := addedQ_single _ hwf1 m.bodies.length XT.id floatS b name
    (movableResult_validId_new ..) (by intro h; simp [floatS] at h) hd1
  rw [hlen] at ha
  refine ⟨_, ?_, addedQ_virtual_step m hwf parent frame _ hp hjT _ _ ha⟩
  simp only [addFloating]
  rw [addBodyMovable_eq, if_neg hd1, hlen]; rfl

/-- every successful non-fixed `addBody` -/
theorem addBody_addedQ (m : ModelS α) (hwf : m.WF) (parent : Nat) (frame : XT α) (j : Joint α)
    (b : Body α) (name : String) (hp : m.validId parent) (hj : m.jointOk j)
    (hnf : j.jt ≠ .fixed) (m' : ModelS α) (id : Nat)
    (h : addBody m parent frame j b name = (m', .ok id)) : AddedQ m m' id parent frame := by
  rw [addBody_eq] at h
  by_cases hd : name ≠ "" ∧ m.hasName name
  · rw [if_pos hd] at h; cases h
  · rw [if_neg hd] at h
    cases hk : j.jt.kind <;> simp only [hk] at h
    · exact absurd ((kind_fixed_iff _).mp hk) hnf
    · rw [addBodyMovable_eq, if_neg hd] at h
      obtain ⟨rfl, hid⟩ := Prod.mk.inj h
      obtain rfl := Except.ok.inj hid
      exact addedQ_single m hwf parent frame j b name hp hj hd
    · obtain ⟨m2, he, ha⟩ := addFloating_addedQ m parent frame b name hd hwf hp
      rw [he] at h
      obtain ⟨rfl, hid⟩ := Prod.mk.inj h
      obtain rfl := Except.ok.inj hid
      exact ha
    · by_cases hax : j.axes = []
      · rw [hax] at h; simp only [addChain] at h; cases h
      · obtain ⟨m2, he, ha⟩ := addChain_addedQ b name j.axes m parent frame hax hd hwf hp
        rw [he] at h
        obtain ⟨rfl, hid⟩ := Prod.mk.inj h
        obtain rfl := Except.ok.inj hid
        exact ha
    · cases h

/-! ### the step function -/

/-- the parent id an operation attaches to -/
def parentIn (m : ModelS α) : Op α → Nat
  | .addBody parent _ _ _ _ => parent
  | .appendBody _ _ _ _ => m.prevBodyId
  | .addBodyCustomJoint parent _ _ _ _ => parent

/-- the joint frame argument of an operation -/
def opFrame : Op α → XT α
  | .addBody _ X _ _ _ => X
  | .appendBody X _ _ _ => X
  | .addBodyCustomJoint _ X _ _ _ => X

/-- the body argument of an operation -/
def opBody : Op α → Body α
  | .addBody _ _ _ b _ => b
  | .appendBody _ _ b _ => b
  | .addBodyCustomJoint _ _ _ b _ => b

omit [DecidableEq α] in
theorem valid_parentIn (m : ModelS α) (hwf : m.WF) (op : Op α) (hv : op.valid m) :
    m.validId (parentIn m op) := by
  cases op with
  | addBody parent frame j b name => exact hv.1
  | appendBody frame j b name => exact hwf.prev_ok
  | addBodyCustomJoint parent frame k b name => exact hv.1

omit [DecidableEq α] in
theorem pgo_withCustom (m : ModelS α) (k : CustomKind) : ∀ f p,
    getParentBodyId.go (m.withCustom k) f p = getParentBodyId.go m f p := by
  intro f
  induction f with
  | zero => intro p; rfl
  | succ f ih =>
    intro p
    simp only [getParentBodyId.go]
    rw [ih]; rfl

omit [DecidableEq α] in
theorem jgo_withCustom (m : ModelS α) (k : CustomKind) : ∀ f c,
    getJointFrame.go (m.withCustom k) f c = getJointFrame.go m f c := by
  intro f
  induction f with
  | zero => intro c; rfl
  | succ f ih =>
    intro c
    simp only [getJointFrame.go]
    rw [ih]; rfl

theorem step_addedQ (m : ModelS α) (hwf : m.WF) (op : Op α) (hv : op.valid m)
    (hnf : op.isFixed = false) (id : Nat) (h : (m.step op).2 = .ok id) :
    AddedQ m (m.step op).1 id (parentIn m op) (opFrame op) := by
  cases op with
  | addBody parent frame j b name =>
    exact addBody_addedQ m hwf parent frame j b name hv.1 hv.2.1
      (by simpa [Op.isFixed] using hnf) _ _ (Prod.ext rfl h)
  | appendBody frame j b name =>
    exact addBody_addedQ m hwf m.prevBodyId frame j b name hwf.prev_ok hv.1
      (by simpa [Op.isFixed] using hnf) _ _ (Prod.ext rfl h)
  | addBodyCustomJoint parent frame k b name =>
    simp only [ModelS.step] at h ⊢
    rw [addBodyCustomJoint_eq] at h ⊢
    by_cases hd : name ≠ "" ∧ m.hasName name
    · rw [if_pos hd] at h; cases h
    · rw [if_neg hd] at h ⊢
      obtain rfl := Except.ok.inj h
      have ha := addedQ_single (m.withCustom k) (wf_withCustom m hwf k) parent frame
        (Joint.customProxy k.dof m.customJoints.length) b name hv.1 (jointOk_customProxy m k) hd
      have e1 : ∀ p, nvAnc (m.withCustom k) p = nvAnc m p := fun p => pgo_withCustom m k _ p
      have e2 : ∀ c, topOf (m.withCustom k) c = topOf m c := fun c => jgo_withCustom m k _ c
      refine ⟨ha.wf', ⟨ha.ext.nb, ha.ext.lam, ha.ext.virt, ha.ext.xT, ha.ext.fixed⟩, ha.id_ge,
        ha.id_lt, ha.fixed, fun hb => ?_, fun hb => ?_⟩
      · have := ha.par hb
        rw [e1] at this; exact this
      · have := ha.top hb
        rw [e2] at this; exact this

end Chain
end
end Rbdl.L14Q
