import RbdlProofs.Lemmas.L01
import RbdlProofs.Lemmas.Loop06
/-
  C01 capstone, algebra layer: one body.

  For a pose jet `k` in body form (`L06.BodyForm k V A`: `Ṙ = R S(ω)`, …) and the pose jet `kx` of the
  same pose moving with a unit generalized velocity (`BodyForm kx Vx Ax`, same `R`, `p`):

  * `ne_term`   the inertial-frame Newton–Euler balance projected on the partial velocities,
                `m (c̈ − g) · ∂ċ/∂q̇ + d/dt (R I Rᵀ ω) · ∂ω/∂q̇`, equals `Vx · (I (A + G) + V ×* I V)` with
                `G = (0, −Rᵀ g)` — the body force of the recursive Newton–Euler algorithm whose
                acceleration carries the gravity offset;
  * `fext_term` the external-force term of the specification equals `Vx · X_base.applyAdjoint(f)`.
-/
namespace Rbdl.L01Cap
open Lean.Grind Rbdl Rbdl.Spec Rbdl.L06 Rbdl.L01
set_option linter.unusedSimpArgs false
set_option linter.unusedVariables false
set_option linter.unusedSectionVars false

section
variable {α : Type} [Field α]

/-- the gravity offset of the RNEA acceleration of a body with pose jet `k`: `(0, −Rᵀ g)` -/
def gAt (k : NodeKin α) (g : V3 α) : SV α := ⟨V3.zero, -(k.R.transpose * g)⟩

theorem rot_dot {R : M3 α} (h : R.IsRot) (a b : V3 α) : (R * a).dot (R * b) = a.dot b := by
  obtain ⟨n0,n1,n2,o01,o02,o12,c00,c01,c02,c10,c11,c12,c20,c21,c22⟩ := h.transpose
  simp only [M3.transpose] at *
  simp only [alg]
  grind

theorem dot_tmul (R : M3 α) (a b : V3 α) : a.dot (R * b) = (R.transpose * a).dot b := by
  simp only [alg]; grind

theorem v3_smul_dot (k : α) (a b : V3 α) : (k * a).dot b = k * a.dot b := by
  simp only [alg]; grind
theorem v3_sub_dot (a b c : V3 α) : (a - b).dot c = a.dot c - b.dot c := by
  simp only [alg]; grind
theorem v3_dot_comm (a b : V3 α) : a.dot b = b.dot a := by
  simp only [alg]; grind

/-! ### kinematic quantities of a pose jet in body form -/

theorem bf_ptd {k : NodeKin α} {V A : SV α} (h : BodyForm k V A) (c : V3 α) :
    k.ptd c = k.R * (V.v + V.w.cross c) := by
  unfold NodeKin.ptd
  rw [h.pd, h.rd]
  alg_ext

theorem bf_ptdd {k : NodeKin α} {V A : SV α} (h : BodyForm k V A) (c : V3 α) :
    k.ptdd c = k.R * comAccel c V A := by
  unfold NodeKin.ptdd
  rw [h.pdd, h.rdd]
  alg_ext

theorem bf_omega {k : NodeKin α} {V A : SV α} (h : BodyForm k V A) : k.omega = k.R * V.w := by
  unfold NodeKin.omega
  rw [h.rd, vee_param h.rot]

theorem bf_omegaDot {k : NodeKin α} {V A : SV α} (h : BodyForm k V A) :
    k.omegaDot = k.R * A.w := by
  unfold NodeKin.omegaDot
  rw [h.rdd, h.rd, vee_param2 h.rot]

theorem nb_core (R Ic : M3 α) (w a : V3 α) :
    R * (M3.skew w * (Ic * w)) + R * (Ic * ((M3.skew w).transpose * w)) + R * (Ic * a)
      = R * (Ic * a + w.cross (Ic * w)) := by alg_ext

/-- `d/dt (R I Rᵀ ω) = R (I ω̇ + ω × I ω)` (body-frame `ω`, `ω̇`) -/
theorem bf_Nb {k : NodeKin α} {V A : SV α} (h : BodyForm k V A) (Ic : M3 α) :
    (k.Rd * Ic * k.R.transpose + k.R * Ic * k.Rd.transpose) * k.omega
        + (k.R * Ic * k.R.transpose) * k.omegaDot
      = k.R * (Ic * A.w + V.w.cross (Ic * V.w)) := by
  rw [bf_omega h, bf_omegaDot h, h.rd, m3_add_mulVec]
  simp only [m3_mulVec_assoc, m3_transpose_mul, tmul_mul h.rot]
  exact nb_core _ _ _ _

/-- the vector identity behind `ne_term` (no rotation left) -/
theorem ne_core (mass : α) (c : V3 α) (Ic : M3 α) (hs : Ic.transpose = Ic) (V A Vx : SV α)
    (γ : V3 α) :
    (mass * (comAccel c V A - γ)).dot (Vx.v + Vx.w.cross c)
        + (Ic * A.w + V.w.cross (Ic * V.w)).dot Vx.w
      = Vx.dot (RBI.ofMassComInertiaC mass c Ic * (A + ⟨V3.zero, -γ⟩)
          + crossf V (RBI.ofMassComInertiaC mass c Ic * V)) := by
  simp only [M3.transpose, M3.ext_iff] at hs
  simp only [alg]
  grind

theorem fb_core {R : M3 α} (h : R.IsRot) (mass : α) (a g d : V3 α) :
    (mass * (R * a - g)).dot (R * d) = (mass * (a - R.transpose * g)).dot d := by
  rw [v3_smul_dot, v3_smul_dot, v3_sub_dot, v3_sub_dot, rot_dot h, dot_tmul]

/-- **one body**: the Newton–Euler balance of the specification (inertial frame, projected on the
    partial velocities) is the body force of the RNEA paired with the body-frame partial velocity -/
theorem ne_term {k kx : NodeKin α} {V A Vx Ax : SV α} (h : BodyForm k V A)
    (hx : BodyForm kx Vx Ax) (hR : kx.R = k.R) (mass : α) (c : V3 α) (Ic : M3 α)
    (hs : Ic.transpose = Ic) (g : V3 α) :
    (mass * (k.ptdd c - g)).dot (kx.ptd c)
        + ((k.Rd * Ic * k.R.transpose + k.R * Ic * k.Rd.transpose) * k.omega
            + (k.R * Ic * k.R.transpose) * k.omegaDot).dot kx.omega
      = Vx.dot (RBI.ofMassComInertiaC mass c Ic * (A + gAt k g)
          + crossf V (RBI.ofMassComInertiaC mass c Ic * V)) := by
  rw [bf_Nb h, bf_ptdd h, bf_ptd hx, bf_omega hx, hR, fb_core h.rot, rot_dot h.rot]
  exact ne_core mass c Ic hs V A Vx _

theorem fext_core (R : M3 α) (p : V3 α) (fe Vx : SV α) :
    fe.w.dot (R * Vx.w) + fe.v.dot (R * Vx.v - (R * Vx.w).cross p)
      = Vx.dot ((⟨R.transpose, p⟩ : XT α).applyAdjoint fe) := by
  simp only [alg]; grind

/-- the external-force term of the specification (`f · ∂v_O/∂q̇ + n_O · ∂ω/∂q̇`, base coordinates,
    moment about the base origin) is `Vx · X_base.applyAdjoint(f)` -/
theorem fext_term {k kx : NodeKin α} {Vx Ax : SV α} (hx : BodyForm kx Vx Ax) (hR : kx.R = k.R)
    (fe : SV α) :
    fe.w.dot kx.omega + fe.v.dot (kx.pd - kx.omega.cross k.p)
      = Vx.dot ((xtOfKin k).applyAdjoint fe) := by
  rw [bf_omega hx, hx.pd, hR]
  exact fext_core _ _ _ _

/-! ### gravity offset along the tree -/

theorem gAt_comp (a b : NodeKin α) (g : V3 α) :
    gAt (compKin a b) g = (xtOfKin b).apply (gAt a g) := by
  ext <;> simp only [gAt, compKin, xtOfKin, alg] <;> grind

theorem gAt_id (g : V3 α) :
    gAt (NodeKin.ofPose (Pose.id : Pose (D2 α))) g = ⟨V3.zero, -g⟩ := by
  ext <;> simp only [gAt, NodeKin.ofPose, Pose.id, M3.mapD2, alg, zero_x, one_x] <;> grind

theorem sv_sub_self (a : SV α) : a - a = SV.zero := by alg_ext
theorem sv_sub_add_cancel (a b : SV α) : a - b + b = a := by alg_ext

end
end Rbdl.L01Cap
