import RbdlProofs.Lemmas.L17Kkt
import RbdlProofs.Lemmas.KktEx
/-
  C17: a concrete weighted least-squares instance over ℚ for the Mathlib-level statements:
  weights (2, 3), `G = (1 0)`, initial guess (1, 2); KKT solution `x = (0, 2)`, `λ = 2`
  (the same numbers as `Rbdl.L17.Ex.qdotRun`).
-/
namespace Rbdl.L17.KEx
open Matrix

def w : Fin 2 → ℚ := ![2, 3]
def G : Matrix (Fin 1) (Fin 2) ℚ := !![1, 0]
def q0 : Fin 2 → ℚ := ![1, 2]
def x : Fin 2 → ℚ := ![0, 2]
def l : Fin 1 → ℚ := ![2]
/-- a feasible competitor -/
def y : Fin 2 → ℚ := ![0, 5]

theorem w_nonneg : ∀ i, 0 ≤ w i := by
  intro i; fin_cases i <;> simp [w]

theorem w_pos : ∀ i, 0 < w i := by
  intro i; fin_cases i <;> simp [w]

theorem stat : diagonal w *ᵥ x + Gᵀ *ᵥ l = diagonal w *ᵥ q0 := by
  funext i
  simp only [Pi.add_apply, mulVec_diagonal]
  fin_cases i <;> simp [w, G, q0, x, l, Matrix.mulVec, dotProduct]

theorem feas : G *ᵥ x = 0 := by
  funext i; fin_cases i
  simp [G, x, Matrix.mulVec, dotProduct, Fin.sum_univ_succ]

theorem feas_y : G *ᵥ y = 0 := by
  funext i; fin_cases i
  simp [G, y, Matrix.mulVec, dotProduct, Fin.sum_univ_succ]

theorem block : fromBlocks (diagonal w) Gᵀ G 0 *ᵥ Sum.elim x l = Sum.elim (diagonal w *ᵥ q0) 0 :=
  (Rbdl.L17.wls_block (diagonal w) G q0 x l).mpr ⟨stat, feas⟩

end Rbdl.L17.KEx
