import RbdlProofs.Lemmas.L09Contact
/-
  C09, part 4: loop constraints — closed forms of the kinematics routines for body ids that are not
  fixed-body ids (`update_kinematics = false`), the rows written by the loop branch of
  `Constr.jacobian` / `positionError` / `velocityError` / `gamma`.
-/
set_option linter.unusedSectionVars false
namespace Rbdl.L09
open Lean.Grind Rbdl Rbdl.L05 Rbdl.Spec

section
variable {α : Type} [Field α] [DecidableEq α]

/-! ### closed forms for ids below `fixedDisc` (base body and movable bodies), no update -/

/-- world placement `(E, r)` of the frame `Xf` of body `id`: columns of `E` are the frame axes in
    base coordinates, `r` the frame origin in base coordinates -/
def frameOf (w : WS α) (id : Nat) (Xf : XT α) : XT α :=
  ⟨(w.X_base id).E.transpose * Xf.E, (w.X_base id).r + (w.X_base id).E.tmulVec Xf.r⟩

/-- `(ω, v_P)` of the point `p` of body `id` -/
def vel6 (w : WS α) (id : Nat) (p : V3 α) : SV α :=
  (⟨(w.X_base id).E.transpose, p⟩ : XT α).apply (upd w.v 0 SV.zero id)

/-- `(ω̇, a_P)` of the point `p` of body `id` -/
def acc6 (w : WS α) (id : Nat) (p : V3 α) : SV α :=
  (⟨(w.X_base id).E.transpose, p⟩ : XT α).apply (upd w.a 0 SV.zero id)
    + ⟨V3.zero, (vel6 w id p).w.cross (vel6 w id p).v⟩

theorem isFixed_false (m : ModelS α) (id : Nat) (hid : ¬ fixedDisc ≤ id) :
    m.isFixedBodyId id = false := by
  unfold ModelS.isFixedBodyId; simp [hid]

theorem loopFrame_eq (m : ModelS α) (w : WS α) (st : QS α) (id : Nat) (Xf : XT α)
    (hid : ¬ fixedDisc ≤ id) : loopFrame m w st id Xf false = (w, frameOf w id Xf) := by
  simp only [loopFrame, calcBodyToBaseCoordinates, calcBodyWorldOrientation, updQ,
    worldOrientation0, bodyToBase0, if_neg hid, Bool.false_eq_true, if_false, frameOf]

theorem pointVelocity6D_eq (m : ModelS α) (w : WS α) (st : QS α) (qd : VecN α) (id : Nat)
    (p : V3 α) (hid : ¬ fixedDisc ≤ id) :
    calcPointVelocity6D m w st qd id p false
      = ({ w with v := upd w.v 0 SV.zero }, vel6 w id p) := by
  simp only [calcPointVelocity6D, refPoint, isFixed_false m id hid, worldOrientation0, if_neg hid,
    Bool.false_eq_true, if_false, vel6]

theorem pointAcceleration6D_eq (m : ModelS α) (w : WS α) (st : QS α) (qd qdd : VecN α) (id : Nat)
    (p : V3 α) (hid : ¬ fixedDisc ≤ id) :
    calcPointAcceleration6D m w st qd qdd id p false
      = ({ w with v := upd w.v 0 SV.zero, a := upd w.a 0 SV.zero }, acc6 w id p) := by
  simp only [calcPointAcceleration6D, refPoint, isFixed_false m id hid, worldOrientation0,
    if_neg hid, Bool.false_eq_true, if_false, acc6, vel6]

theorem upd_upd {β : Type} (f : Nat → β) (k : Nat) (a b : β) : upd (upd f k a) k b = upd f k b := by
  funext j; unfold upd; split <;> rfl

theorem vel6_setv (w : WS α) (a' : Nat → SV α) (id : Nat) (p : V3 α) :
    vel6 { w with v := upd w.v 0 SV.zero, a := a' } id p = vel6 w id p := by
  simp only [vel6, upd_upd]

theorem vel6_setv' (w : WS α) (id : Nat) (p : V3 α) :
    vel6 { w with v := upd w.v 0 SV.zero } id p = vel6 w id p := by
  simp only [vel6, upd_upd]

theorem acc6_setv (w : WS α) (id : Nat) (p : V3 α) :
    acc6 { w with v := upd w.v 0 SV.zero } id p = acc6 w id p := by
  simp only [acc6, vel6, upd_upd]

theorem acc6_setva (w : WS α) (id : Nat) (p : V3 α) :
    acc6 { w with v := upd w.v 0 SV.zero, a := upd w.a 0 SV.zero } id p = acc6 w id p := by
  simp only [acc6, vel6, upd_upd]

/-! ### rows of a loop constraint -/

/-- the two 6-D point Jacobians the loop constraint evaluates (no update) -/
def loopJp (c : Constr α) (m : ModelS α) (w : WS α) (st : QS α) : MatN α :=
  (calcPointJacobian6D m w st c.bodyP c.XP.r zeroMat false).2
def loopJs (c : Constr α) (m : ModelS α) (w : WS α) (st : QS α) : MatN α :=
  (calcPointJacobian6D m w st c.bodyS c.XS.r zeroMat false).2

/-- rows written by `LoopConstraint::calcConstraintJacobian` (`update_kinematics = false`): row
    `row + k` is `loopAxis(A, T_k) · (J₆,succ − J₆,pred)` -/
theorem loop_jacobian_get (c : Constr α) (hc : c.ctype = .loop) (m : ModelS α) (w : WS α)
    (st : QS α) (G : MatN α) (hP : ¬ fixedDisc ≤ c.bodyP) (r col : Nat) :
    (c.jacobian m w st G false).2 r col
      = if hasRow c r ∧ col < m.qdotSize then
          dot6 (loopAxis (frameOf w c.bodyP c.XP) (axisAt c r))
            (fun q => loopJs c m w st q col - loopJp c m w st q col)
        else G r col := by
  unfold Constr.jacobian
  simp only [hc]
  rw [show (calcPointJacobian6D m w st c.bodyP c.XP.r (fun _ _ => 0) false) =
    (w, loopJp c m w st) from rfl]
  dsimp only
  rw [show (calcPointJacobian6D m w st c.bodyS c.XS.r (fun _ _ => 0) false) =
    (w, loopJs c m w st) from rfl]
  dsimp only
  rw [loopFrame_eq m w st c.bodyP c.XP hP]
  dsimp only
  have := setRows_get c.T c.row m.qdotSize
    (fun (t : SV α) (_ : Nat) col =>
      (zipIdx (SV.toList (loopAxis (frameOf w c.bodyP c.XP) t))).foldl
        (fun acc q => acc + q.1 * (loopJs c m w st q.2 col - loopJp c m w st q.2 col)) 0) G r col
  rw [this]
  by_cases h : (c.row ≤ r ∧ r < c.row + c.T.length) ∧ col < m.qdotSize
  · rw [dif_pos h, if_pos (show hasRow c r ∧ col < m.qdotSize from h), axisAt_eq c r h.1]
    exact axisFold_eq _ (fun q => loopJs c m w st q col - loopJp c m w st q col)
  · rw [dif_neg h, if_neg (show ¬ (hasRow c r ∧ col < m.qdotSize) from h)]

/-- `row · x = loopAxis(A, T_k) · ((J₆,succ − J₆,pred) x)` -/
theorem loop_row_dot (c : Constr α) (hc : c.ctype = .loop) (m : ModelS α) (w : WS α)
    (st : QS α) (G : MatN α) (hP : ¬ fixedDisc ≤ c.bodyP) (r : Nat) (hr : hasRow c r)
    (x : VecN α) :
    rowDot (c.jacobian m w st G false).2 m.qdotSize r x
      = (loopAxis (frameOf w c.bodyP c.XP) (axisAt c r)).dot
          (mulVecSV (loopJs c m w st) m.qdotSize x - mulVecSV (loopJp c m w st) m.qdotSize x) := by
  unfold rowDot
  rw [← mulVecSV_sub, ← dot6_mulVecSV]
  refine sumTo_congr _ _ _ (fun j hj => ?_)
  rw [loop_jacobian_get c hc m w st G hP, if_pos ⟨hr, hj⟩]

/-- rows written by `LoopConstraint::calcPositionError` -/
theorem loop_positionError_get (c : Constr α) (hc : c.ctype = .loop) (m : ModelS α)
    (w : WS α) (st : QS α) (err : VecN α) (hP : ¬ fixedDisc ≤ c.bodyP)
    (hS : ¬ fixedDisc ≤ c.bodyS) (r : Nat) :
    (c.positionError m w st err false).2 r
      = if hasRow c r then
          (if c.posC.getD (r - c.row) false then
            (axisAt c r).dot (loopError (frameOf w c.bodyP c.XP) (frameOf w c.bodyS c.XS)) else 0)
        else err r := by
  unfold Constr.positionError
  simp only [hc]
  rw [loopFrame_eq m w st c.bodyP c.XP hP]
  dsimp only
  rw [loopFrame_eq m w st c.bodyS c.XS hS]
  dsimp only
  have := updRows_get c.T c.row
    (fun (t : SV α) (k : Nat) => if c.posC.getD k false then
      t.dot (loopError (frameOf w c.bodyP c.XP) (frameOf w c.bodyS c.XS)) else 0) err r
  rw [this]
  by_cases h : c.row ≤ r ∧ r < c.row + c.T.length
  · rw [dif_pos h, if_pos (show hasRow c r from h), axisAt_eq c r h]
  · rw [dif_neg h, if_neg (show ¬ hasRow c r from h)]

/-- rows written by `LoopConstraint::calcVelocityError`: computed from the matrix `G` passed in -/
theorem loop_velocityError_get (c : Constr α) (hc : c.ctype = .loop) (m : ModelS α)
    (w : WS α) (st : QS α) (qd : VecN α) (G : MatN α) (errd : VecN α) (update : Bool) (r : Nat) :
    (c.velocityError m w st qd G errd update).2 r
      = if hasRow c r then
          (if c.velC.getD (r - c.row) false then rowDot G m.qdotSize r qd else 0)
        else errd r := by
  unfold Constr.velocityError
  simp only [hc]
  have := updRows_get c.T c.row
    (fun (_ : SV α) (k : Nat) => if c.velC.getD k false then
      sumTo m.qdotSize (fun j => G (c.row + k) j * qd j) else 0) errd r
  rw [this]
  by_cases h : c.row ≤ r ∧ r < c.row + c.T.length
  · rw [dif_pos h, if_pos (show hasRow c r from h)]
    have e : c.row + (r - c.row) = r := by omega
    simp only [e, rowDot]
  · rw [dif_neg h, if_neg (show ¬ hasRow c r from h)]

/-- rows written by `LoopConstraint::calcGamma` -/
theorem loop_gamma_get (c : Constr α) (hc : c.ctype = .loop) (m : ModelS α)
    (w : WS α) (st : QS α) (qd : VecN α) (gam : VecN α) (hP : ¬ fixedDisc ≤ c.bodyP)
    (hS : ¬ fixedDisc ≤ c.bodyS) (r : Nat) :
    (c.gamma m w st qd gam).2 r
      = if hasRow c r then
          -((loopAxis (frameOf w c.bodyP c.XP) (axisAt c r)).dot
              (acc6 w c.bodyS c.XS.r - acc6 w c.bodyP c.XP.r))
          - (crossm (vel6 w c.bodyP c.XP.r) (loopAxis (frameOf w c.bodyP c.XP) (axisAt c r))).dot
              (vel6 w c.bodyS c.XS.r - vel6 w c.bodyP c.XP.r)
        else gam r := by
  unfold Constr.gamma
  simp only [hc]
  rw [loopFrame_eq m w st c.bodyP c.XP hP]
  dsimp only
  rw [pointVelocity6D_eq m w st qd c.bodyP c.XP.r hP]
  dsimp only
  rw [pointVelocity6D_eq m _ st qd c.bodyS c.XS.r hS]
  dsimp only
  rw [pointAcceleration6D_eq m _ st qd zeroVec c.bodyP c.XP.r hP]
  dsimp only
  rw [pointAcceleration6D_eq m _ st qd zeroVec c.bodyS c.XS.r hS]
  dsimp only
  simp only [upd_upd, vel6_setv', acc6_setv, acc6_setva]
  have := updRows_get c.T c.row
    (fun (t : SV α) (_ : Nat) =>
      -((loopAxis (frameOf w c.bodyP c.XP) t).dot
              (acc6 w c.bodyS c.XS.r - acc6 w c.bodyP c.XP.r))
          - (crossm (vel6 w c.bodyP c.XP.r) (loopAxis (frameOf w c.bodyP c.XP) t)).dot
              (vel6 w c.bodyS c.XS.r - vel6 w c.bodyP c.XP.r)) gam r
  rw [this]
  by_cases h : c.row ≤ r ∧ r < c.row + c.T.length
  · rw [dif_pos h, if_pos (show hasRow c r from h), axisAt_eq c r h]
  · rw [dif_neg h, if_neg (show ¬ hasRow c r from h)]

end
end Rbdl.L09
