import RbdlProofs.Lemmas.Aba
/-
  C02, (T1): the tree theorem for the pure recursions.

  An abstract kinematic tree (`ATree`): bodies `1 … n`, parent map `lam` (children have larger
  indices), per-body data as the first loop of `forwardDynamics` leaves it (`X`, `I`, `p`, `c`, the
  motion subspaces and the joint torques).  By recursion on the body index we define
    * `AB i = (IAfin_i, pAfin_i)`  — the articulated inertia / bias force the second loop leaves,
    * `accel i`                    — the acceleration the third loop computes,
    * `frc i`                      — the accumulated RNEA force for these accelerations,
  and prove `frc i = IAfin_i * accel i + pAfin_i`, hence `S_iᵀ frc i = τ_i`.
-/
namespace Rbdl.L02
open Lean.Grind Rbdl
set_option linter.unusedVariables false

section
variable {α : Type} [Field α]

/-! ### finite sums of spatial vectors / matrices -/

/-- `Σ_{j<k} g j` -/
def sumSV (k : Nat) (g : Nat → SV α) : SV α :=
  match k with
  | 0 => SV.zero
  | k+1 => sumSV k g + g k

/-- `Σ_{j<k} g j` -/
def sumSM (k : Nat) (g : Nat → SM α) : SM α :=
  match k with
  | 0 => SM.zero
  | k+1 => sumSM k g + g k

theorem sumSV_congr (k : Nat) (g g' : Nat → SV α) (h : ∀ j, j < k → g j = g' j) :
    sumSV k g = sumSV k g' := by
  induction k with
  | zero => rfl
  | succ k ih =>
    simp only [sumSV]
    rw [ih (fun j hj => h j (by omega)), h k (by omega)]

/-- `(Σ M_j) x + Σ q_j = Σ (M_j x + q_j)` -/
theorem sumSM_mulVec_add (k : Nat) (M : Nat → SM α) (q : Nat → SV α) (x : SV α) :
    sumSM k M * x + sumSV k q = sumSV k (fun j => M j * x + q j) := by
  induction k with
  | zero => simp only [sumSM, sumSV]; rw [sm_zero_mulVec, sv_add_zero]
  | succ k ih =>
    simp only [sumSM, sumSV]
    rw [← ih, force_acc]

theorem symSM_sumSM (k : Nat) (M : Nat → SM α) (h : ∀ j, j < k → SymSM (M j)) :
    SymSM (sumSM k M) := by
  induction k with
  | zero => exact symSM_zero
  | succ k ih =>
    simp only [sumSM]
    exact symSM_add (ih (fun j hj => h j (by omega))) (h k (by omega))

/-! ### the abstract tree -/

/-- Data of the articulated-body algorithm after the first loop of `forwardDynamics`. -/
structure ATree (α : Type) where
  /-- bodies are `1 … n`; `0` is the base -/
  n : Nat
  /-- parent -/
  lam : Nat → Nat
  /-- `X_lambda[i]` -/
  X : Nat → XT α
  /-- `I_i` as a 6x6 matrix -/
  I : Nat → SM α
  /-- `v ×* I v - f_ext` -/
  p : Nat → SV α
  /-- `c[i]` -/
  c : Nat → SV α
  /-- acceleration of the base (`-gravity`) -/
  a0 : SV α
  /-- 3-DoF joint (otherwise 1-DoF) -/
  three : Nat → Bool
  S : Nat → SV α
  S3 : Nat → M63 α
  /-- joint torque of a 1-DoF joint -/
  tau : Nat → α
  /-- joint torques of a 3-DoF joint -/
  tau3 : Nat → V3 α

namespace ATree
variable (T : ATree α)

/-- `D_i = Sᵀ IA S` of a 3-DoF joint -/
def D3 (i : Nat) (IA : SM α) : M3 α := (T.S3 i).tmul (M63.lmulSM IA (T.S3 i))

/-- `Ia = IA - U D⁻¹ Uᵀ` -/
def Ia (i : Nat) (IA : SM α) : SM α :=
  if T.three i then
    IA - M63.mulT ((M63.lmulSM IA (T.S3 i)).mulM3 (M3.inv (T.D3 i IA))) (M63.lmulSM IA (T.S3 i))
  else IA - SM.outer (IA * T.S i) ((1 / (T.S i).dot (IA * T.S i)) * (IA * T.S i))

/-- `pa = pA + Ia c + U D⁻¹ u` -/
def pa (i : Nat) (IA : SM α) (pA : SV α) : SV α :=
  if T.three i then
    pA + T.Ia i IA * T.c i
      + (M63.lmulSM IA (T.S3 i)).mulV3 (M3.inv (T.D3 i IA) * (T.tau3 i - (T.S3 i).tmulSV pA))
  else
    pA + T.Ia i IA * T.c i
      + ((T.tau i - (T.S i).dot pA) / (T.S i).dot (IA * T.S i)) * (IA * T.S i)

/-- `a = a' + S D⁻¹ (u - Uᵀ a')` -/
def acc (i : Nat) (IA : SM α) (pA a' : SV α) : SV α :=
  if T.three i then
    a' + (T.S3 i).mulV3 (M3.inv (T.D3 i IA) * ((T.tau3 i - (T.S3 i).tmulSV pA)
      - (M63.lmulSM IA (T.S3 i)).tmulSV a'))
  else
    a' + ((1 / (T.S i).dot (IA * T.S i)) * ((T.tau i - (T.S i).dot pA) - (IA * T.S i).dot a'))
      * T.S i

/-- invertibility of the joint-space pivot -/
def pivot (i : Nat) (IA : SM α) : Prop :=
  if T.three i then (T.D3 i IA).det ≠ 0 else (T.S i).dot (IA * T.S i) ≠ 0

/-- the joint-space equation `S_iᵀ f = τ_i` -/
def jointEq (i : Nat) (f : SV α) : Prop :=
  if T.three i then (T.S3 i).tmulSV f = T.tau3 i else (T.S i).dot f = T.tau i

/-- `(IAfin_i, pAfin_i)`: body inertia / bias plus the contributions `Xᵀ Ia X`, `Xᵀ pa` of the
    children (which have larger indices) -/
def AB (i : Nat) : SM α × SV α :=
  (T.I i + sumSM (T.n + 1) (fun j =>
      if h : i < j ∧ j ≤ T.n ∧ T.lam j = i then
        (T.X j).toMatrixTranspose * T.Ia j (AB j).1 * (T.X j).toMatrix
      else SM.zero),
   T.p i + sumSV (T.n + 1) (fun j =>
      if h : i < j ∧ j ≤ T.n ∧ T.lam j = i then
        (T.X j).applyTranspose (T.pa j (AB j).1 (AB j).2)
      else SV.zero))
termination_by T.n - i
decreasing_by all_goals omega

/-- accelerations of the third loop (parents have smaller indices) -/
def accel : Nat → SV α
  | 0 => T.a0
  | i+1 =>
    if h : T.lam (i+1) < i+1 then
      T.acc (i+1) (T.AB (i+1)).1 (T.AB (i+1)).2
        ((T.X (i+1)).apply (accel (T.lam (i+1))) + T.c (i+1))
    else T.a0
termination_by i => i
decreasing_by exact h

/-- accumulated RNEA forces for the accelerations `accel` -/
def frc (i : Nat) : SV α :=
  T.I i * T.accel i + T.p i + sumSV (T.n + 1) (fun j =>
    if h : i < j ∧ j ≤ T.n ∧ T.lam j = i then (T.X j).applyTranspose (frc j) else SV.zero)
termination_by T.n - i
decreasing_by all_goals omega

/-! ### local lemmas -/

theorem local_force (i : Nat) (IA : SM α) (pA ax : SV α) :
    IA * T.acc i IA pA (ax + T.c i) + pA = T.Ia i IA * ax + T.pa i IA pA := by
  unfold acc pa Ia
  cases T.three i
  · simp only [Bool.false_eq_true, if_false]
    exact one_dof_force IA (T.S i) pA (T.c i) ax _ _
  · simp only [if_true]
    exact three_dof_force IA (T.S3 i) pA (T.c i) ax _ _

theorem local_tau (i : Nat) (IA : SM α) (hs : SymSM IA) (pA a' : SV α) (hp : T.pivot i IA) :
    T.jointEq i (IA * T.acc i IA pA a' + pA) := by
  unfold acc jointEq
  unfold pivot at hp
  cases h : T.three i
  · simp only [h, Bool.false_eq_true, if_false] at hp ⊢
    exact one_dof_tau IA hs (T.S i) pA a' _ hp
  · simp only [h, if_true] at hp ⊢
    exact three_dof_tau IA hs (T.S3 i) pA a' _ _ (m3_mul_inv _ hp)

theorem local_sym (i : Nat) (IA : SM α) (hs : SymSM IA) : SymSM (T.Ia i IA) := by
  unfold Ia
  cases T.three i
  · simp only [Bool.false_eq_true, if_false]
    exact one_dof_Ia_sym IA hs _ _
  · simp only [if_true]
    exact three_dof_Ia_sym IA hs _ _ (three_dof_Dinv_sym IA hs (T.S3 i))

theorem accel_succ (i : Nat) (h : T.lam (i+1) < i+1) :
    T.accel (i+1) = T.acc (i+1) (T.AB (i+1)).1 (T.AB (i+1)).2
      ((T.X (i+1)).apply (T.accel (T.lam (i+1))) + T.c (i+1)) := by
  rw [accel]; simp only [h, dif_pos]

theorem accel_child (i j : Nat) (hij : i < j) (hl : T.lam j = i) :
    T.accel j = T.acc j (T.AB j).1 (T.AB j).2 ((T.X j).apply (T.accel i) + T.c j) := by
  obtain ⟨j', rfl⟩ : ∃ j', j = j' + 1 := ⟨j - 1, by omega⟩
  rw [accel_succ T j' (by omega), hl]

/-! ### unfolding lemmas -/

/-- `j` is a child of `i` -/
def child (i j : Nat) : Prop := i < j ∧ j ≤ T.n ∧ T.lam j = i

instance (i j : Nat) : Decidable (T.child i j) := by unfold child; infer_instance

/-- contribution `Xᵀ Ia X` of `j` to the articulated inertia of `i` -/
def childM (i j : Nat) : SM α :=
  if T.child i j then (T.X j).toMatrixTranspose * T.Ia j (T.AB j).1 * (T.X j).toMatrix
  else SM.zero

/-- contribution `Xᵀ pa` of `j` to the articulated bias force of `i` -/
def childP (i j : Nat) : SV α :=
  if T.child i j then (T.X j).applyTranspose (T.pa j (T.AB j).1 (T.AB j).2) else SV.zero

/-- contribution `Xᵀ f_j` of `j` to the RNEA force of `i` -/
def childF (i j : Nat) : SV α :=
  if T.child i j then (T.X j).applyTranspose (T.frc j) else SV.zero

theorem AB_eq (i : Nat) :
    T.AB i = (T.I i + sumSM (T.n + 1) (T.childM i), T.p i + sumSV (T.n + 1) (T.childP i)) := by
  rw [AB]
  simp only [dite_eq_ite]
  rfl

theorem frc_unfold (i : Nat) :
    T.frc i = T.I i * T.accel i + T.p i + sumSV (T.n + 1) (T.childF i) := by
  rw [frc]
  simp only [dite_eq_ite]
  rfl

/-! ### the tree theorem -/

/-- `IAfin_i` is symmetric -/
theorem AB_sym (hsym : ∀ j, SymSM (T.I j)) : ∀ i, SymSM (T.AB i).1 := by
  intro i
  induction hk : T.n - i using Nat.strongRecOn generalizing i with
  | _ k ih =>
    rw [AB_eq]
    apply symSM_add (hsym i)
    apply symSM_sumSM
    intro j _
    unfold childM
    split
    · next hc =>
      have hc' : i < j ∧ j ≤ T.n ∧ T.lam j = i := hc
      exact symSM_congr _ (T.local_sym j _ (ih (T.n - j) (by omega) j rfl))
    · exact symSM_zero

/-- **(T1)** the accumulated RNEA force of every body is `IAfin_i a_i + pAfin_i` -/
theorem frc_eq : ∀ i, T.frc i = (T.AB i).1 * T.accel i + (T.AB i).2 := by
  intro i
  induction hk : T.n - i using Nat.strongRecOn generalizing i with
  | _ k ih =>
    have key : sumSV (T.n + 1) (T.childF i)
        = sumSM (T.n + 1) (T.childM i) * T.accel i + sumSV (T.n + 1) (T.childP i) := by
      rw [sumSM_mulVec_add]
      apply sumSV_congr
      intro j _
      unfold childF childM childP
      split
      · next hc =>
        have hc' : i < j ∧ j ≤ T.n ∧ T.lam j = i := hc
        rw [ih (T.n - j) (by omega) j rfl, T.accel_child i j hc'.1 hc'.2.2, T.local_force,
          applyTranspose_add, congr_apply]
      · rw [sm_zero_mulVec, sv_add_zero]
    rw [frc_unfold, key, AB_eq]
    exact force_acc _ _ _ _ _

/-- **(T1), joint space**: RNEA reproduces the joint torque of every body -/
theorem frc_jointEq (hsym : ∀ j, SymSM (T.I j)) (i : Nat) (h1 : 1 ≤ i) (hl : T.lam i < i)
    (hp : T.pivot i (T.AB i).1) : T.jointEq i (T.frc i) := by
  obtain ⟨i', rfl⟩ : ∃ i', i = i' + 1 := ⟨i - 1, by omega⟩
  rw [frc_eq, accel_succ T i' hl]
  exact T.local_tau (i' + 1) _ (T.AB_sym hsym (i' + 1)) _ _ hp

end ATree
end
end Rbdl.L02
