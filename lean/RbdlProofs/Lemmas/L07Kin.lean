import RbdlProofs.Lemmas.L07All
/-
  C07: closed form of `UpdateKinematics` and the whole-model kinematic statements
  (3-DoF joint versus chain; relabelling).
-/
namespace Rbdl.L07
open Lean.Grind Rbdl Rbdl.Loops Rbdl.L01
set_option linter.unusedVariables false
set_option linter.unusedSimpArgs false
set_option linter.unusedSectionVars false
variable {α : Type} [Field α]

/-- the kinematic recursion on a final workspace `W` of `UpdateKinematics` entered with `w`:
    every body holds one step (`kstep`) of its joint row applied to what it reads from its parent -/
structure UkClosed (m : ModelS α) (st : QS α) (qd qdd : VecN α) (w W : WS α) : Prop where
  a0 : W.a 0 = SV.zero
  step : ∀ i, 1 ≤ i → i < m.nBodies →
    kinOf W i = kstep ((jcalc m w i st qd).X_lambda i) ((jcalc m w i st qd).v_J i)
      ((jcalc m w i st qd).c_J i) ((jcalc m w i st qd).Sqdd m i qdd) (parentKin m W i)

theorem parentKin_congr (m : ModelS α) (W W' : WS α) (i : Nat)
    (h : kinOf W' (m.lam i) = kinOf W (m.lam i)) (h0 : W'.a 0 = W.a 0) :
    parentKin m W' i = parentKin m W i := by
  unfold parentKin
  split
  · exact h
  · rw [h0]

theorem ukBody_a0 (m : ModelS α) (st : QS α) (qd qdd : VecN α) (i : Nat) (w : WS α) (hi : i ≠ 0) :
    (L06.ukBody m st qd qdd i w).a 0 = w.a 0 :=
  L06.ukBody_a_other m st qd qdd i w 0 (Ne.symm hi)

/-- closed form of `UpdateKinematics` (tree order, joints of supported arity, no custom joints) -/
theorem uk_closed (m : ModelS α) (htree : ∀ i, 1 ≤ i → i < m.nBodies → m.lam i < i)
    (har : ∀ i, 1 ≤ i → i < m.nBodies → m.arity i ≠ .other)
    (hnc : ∀ i, 1 ≤ i → i < m.nBodies → (m.joint i).jt ≠ .custom)
    (w : WS α) (st : QS α) (qd qdd : VecN α) :
    UkClosed m st qd qdd w (updateKinematics m w st qd qdd) := by
  rw [L06.uk_eq_forUp]
  -- invariant after the bodies `1 .. k-1` have been processed
  let Inv : Nat → WS α → Prop := fun k W =>
    W.a 0 = SV.zero ∧
    (∀ i, 1 ≤ i → i < k → i < m.nBodies →
      kinOf W i = kstep ((jcalc m w i st qd).X_lambda i) ((jcalc m w i st qd).v_J i)
        ((jcalc m w i st qd).c_J i) ((jcalc m w i st qd).Sqdd m i qdd) (parentKin m W i)) ∧
    (∀ j, k ≤ j → j < m.nBodies →
      (jcalc m W j st qd).X_lambda j = (jcalc m w j st qd).X_lambda j ∧
      (jcalc m W j st qd).v_J j = (jcalc m w j st qd).v_J j ∧
      (jcalc m W j st qd).c_J j = (jcalc m w j st qd).c_J j ∧
      (jcalc m W j st qd).Sqdd m j qdd = (jcalc m w j st qd).Sqdd m j qdd)
  have key := L05.forUp_inv_idx Inv (L06.ukBody m st qd qdd) (m.nBodies - 1) 1 ?_
    { w with a := upd w.a 0 SV.zero } ?_
  · obtain ⟨k0, k1, _⟩ := key
    exact ⟨k0, fun i h1 h2 => k1 i h1 (by omega) h2⟩
  · intro i W h1 h2 ⟨i0, i1, i2⟩
    have hin : i < m.nBodies := by omega
    refine ⟨by rw [ukBody_a0 _ _ _ _ _ _ (by omega)]; exact i0, fun j j1 j2 j3 => ?_,
      fun j j1 j2 => ?_⟩
    · have hpk : ∀ j, 1 ≤ j → j ≤ i → j < m.nBodies →
          parentKin m (L06.ukBody m st qd qdd i W) j = parentKin m W j := by
        intro j j1 j2 j3
        apply parentKin_congr
        · exact ukBody_kin_other m st qd qdd i W _ (by have := htree j j1 j3; omega)
        · exact ukBody_a0 _ _ _ _ _ _ (by omega)
      by_cases hj : j = i
      · subst hj
        obtain ⟨e1, e2, e3, e4⟩ := i2 j (Nat.le_refl _) hin
        rw [ukBody_kin _ _ _ _ _ _ (har j h1 hin), e1, e2, e3, e4, hpk j h1 (Nat.le_refl _) hin]
      · rw [ukBody_kin_other m st qd qdd i W j hj, hpk j j1 (by omega) j3]
        exact i1 j j1 (by omega) j3
    · obtain ⟨e1, e2, e3, e4⟩ := i2 j (by omega) j2
      obtain ⟨f1, f2, f3, _, _⟩ := jcalc_after_ukBody m st qd qdd i W j (by omega)
      rw [f1, f2, f3, Sqdd_after_ukBody m st qd qdd i W j (by omega) (hnc j (by omega) j2)]
      exact ⟨e1, e2, e3, e4⟩
  · refine ⟨by simp only [upd_same], fun i h1 h2 _ => by omega, fun j _ j2 => ?_⟩
    have hrow : ∀ (W : WS α) a, jcalc m { W with a := a } j st qd
        = { jcalc m W j st qd with a := a } := by
      intro W a
      rw [L13.jcalc_eq, L13.jcalc_eq]
    rw [hrow]
    exact ⟨rfl, rfl, rfl, rfl⟩

theorem jrow_fields {m m' : ModelS α} {w w' : WS α} {i i' : Nat} {st st' : QS α}
    {qd qd' qdd qdd' : VecN α} (h : jrow m' w' i' st' qd' qdd' = jrow m w i st qd qdd) :
    (jcalc m' w' i' st' qd').X_lambda i' = (jcalc m w i st qd).X_lambda i ∧
    (jcalc m' w' i' st' qd').v_J i' = (jcalc m w i st qd).v_J i ∧
    (jcalc m' w' i' st' qd').c_J i' = (jcalc m w i st qd).c_J i ∧
    (jcalc m' w' i' st' qd').Sqdd m' i' qdd' = (jcalc m w i st qd).Sqdd m i qdd :=
  ⟨congrArg (·.1) h, congrArg (·.2.1) h, congrArg (·.2.2.1) h, congrArg (·.2.2.2.2) h⟩

variable {mE mC : ModelS α} {φ ψ : Nat → Nat} {iE i1 i2 i3 : Nat}

/-- whole model, `UpdateKinematics`: corresponding bodies get the same `X_base`, `v`, `a` -/
theorem embed_kin (C : ChainEmbed mE mC φ ψ iE i1 i2 i3) {st : QS α} {qd qdd : VecN α}
    {wE wC W W' : WS α} (h : UkClosed mE st qd qdd wE W) (h' : UkClosed mC st qd qdd wC W')
    (K : Composite3 mE iE mC i1 i2 i3 wE wC st qd)
    (hrow : ∀ i, 1 ≤ i → i < mE.nBodies → i ≠ iE →
      jrow mC wC (φ i) st qd qdd = jrow mE wE i st qd qdd) :
    ∀ i, 1 ≤ i → i < mE.nBodies → kinOf W' (φ i) = kinOf W i := by
  have b3 := C.b3
  have hpar : ∀ i, 1 ≤ i → i < mE.nBodies →
      (∀ j, 1 ≤ j → j < i → kinOf W' (φ j) = kinOf W j) →
      parentKin mC W' (if i = iE then i1 else φ i) = parentKin mE W i := by
    intro i h1 h2 ih
    have hl := C.tree i h1 h2
    have hlam : mC.lam (if i = iE then i1 else φ i) = φ (mE.lam i) := by
      by_cases e : i = iE
      · rw [if_pos e, e, C.lam1]
      · rw [if_neg e, C.lam i h1 h2 e]
    unfold parentKin
    rw [hlam]
    by_cases hz : mE.lam i = 0
    · rw [hz, C.zero, if_neg (by omega), if_neg (by omega), h.a0, h'.a0]
    · have := C.range (mE.lam i) (by omega) (by omega)
      rw [if_pos (by omega), if_pos hz]
      exact ih (mE.lam i) (by omega) hl
  intro i
  induction i using Nat.strongRecOn with
  | _ i ih =>
    intro h1 h2
    have hp := hpar i h1 h2 (fun j j1 j2 => ih j j2 j1 (by omega))
    by_cases hE : i = iE
    · subst hE
      rw [if_pos rfl] at hp
      have p3 : parentKin mC W' i3 = kinOf W' i2 := by
        unfold parentKin; rw [C.lam3, if_pos (by have := C.b2.1; omega)]
      have p2 : parentKin mC W' i2 = kinOf W' i1 := by
        unfold parentKin; rw [C.lam2, if_pos (by have := C.b1.1; omega)]
      rw [C.phiE, h'.step i3 b3.1 b3.2, p3, h'.step i2 C.b2.1 C.b2.2, p2,
        h'.step i1 C.b1.1 C.b1.2, hp, kstep3 _ _ _ K.rot2 K.rot3 K.mul3, ← K.X, ← K.vJ, ← K.cJ,
        h.step i h1 h2]
      congr 1
      rw [Sqdd_three _ _ _ _ K.aE, Sqdd_one _ _ _ _ K.a1, Sqdd_one _ _ _ _ K.a2,
        Sqdd_one _ _ _ _ K.a3, K.S, K.q1, K.q2, K.q3]
      simp only [M63.mulV3, apply_smul]
    · rw [if_neg hE] at hp
      obtain ⟨s1, s2, _, _⟩ := C.range i h1 h2
      obtain ⟨e1, e2, e3, e4⟩ := jrow_fields (hrow i h1 h2 hE)
      rw [h'.step _ s1 s2, h.step i h1 h2, e1, e2, e3, e4, hp]

/-- relabelling, `UpdateKinematics` -/
theorem relabel_kin {m m' : ModelS α} {σ σi : Nat → Nat} (R : Relabel m m' σ σi)
    {st st' : QS α} {qd qd' qdd qdd' : VecN α} {w w' W W' : WS α}
    (h : UkClosed m st qd qdd w W) (h' : UkClosed m' st' qd' qdd' w' W')
    (hrow : ∀ i, 1 ≤ i → i < m.nBodies →
      jrow m' w' (σ i) st' qd' qdd' = jrow m w i st qd qdd) :
    ∀ i, 1 ≤ i → i < m.nBodies → kinOf W' (σ i) = kinOf W i := by
  intro i
  induction i using Nat.strongRecOn with
  | _ i ih =>
    intro h1 h2
    obtain ⟨s1, s2⟩ := R.range i h1 h2
    obtain ⟨e1, e2, e3, e4⟩ := jrow_fields (hrow i h1 h2)
    have hl := R.tree i h1 h2
    have hp : parentKin m' W' (σ i) = parentKin m W i := by
      unfold parentKin
      rw [R.lam i h1 h2]
      by_cases hz : m.lam i = 0
      · rw [hz, R.zero, if_neg (by omega), if_neg (by omega), h.a0, h'.a0]
      · have := R.range (m.lam i) (by omega) (by omega)
        rw [if_pos (by omega), if_pos hz]
        exact ih (m.lam i) hl (by omega) (by omega)
    rw [h'.step _ s1 (by rw [R.nb]; exact s2), h.step i h1 h2, e1, e2, e3, e4, hp]


/-- every joint of the chain model has a supported arity -/
theorem embed_arity (C : ChainEmbed mE mC φ ψ iE i1 i2 i3) {wE wC : WS α} {st : QS α}
    {qd : VecN α} (K : Composite3 mE iE mC i1 i2 i3 wE wC st qd) :
    ∀ j, 1 ≤ j → j < mC.nBodies → mC.arity j ≠ .other := by
  intro j j1 j2
  by_cases e1 : j = i1
  · rw [e1, K.a1]; exact fun e => nomatch e
  · by_cases e2 : j = i2
    · rw [e2, K.a2]; exact fun e => nomatch e
    · obtain ⟨p1, p2⟩ := C.right j j1 j2 e1 e2
      have hx0 : ψ j ≠ 0 := by intro e; rw [e, C.zero] at p2; omega
      by_cases e3 : ψ j = iE
      · rw [← p2, e3, C.phiE, K.a3]; exact fun e => nomatch e
      · rw [← p2, C.arity (ψ j) (by omega) p1 e3]; exact C.arityOk (ψ j) (by omega) p1

/-- whole model, `UpdateKinematics` itself -/
theorem embed_updateKinematics (C : ChainEmbed mE mC φ ψ iE i1 i2 i3)
    (hncE : ∀ i, 1 ≤ i → i < mE.nBodies → (mE.joint i).jt ≠ .custom)
    (hncC : ∀ i, 1 ≤ i → i < mC.nBodies → (mC.joint i).jt ≠ .custom)
    (wE wC : WS α) (st : QS α) (qd qdd : VecN α)
    (K : Composite3 mE iE mC i1 i2 i3 wE wC st qd)
    (hrow : ∀ i, 1 ≤ i → i < mE.nBodies → i ≠ iE →
      jrow mC wC (φ i) st qd qdd = jrow mE wE i st qd qdd) :
    ∀ i, 1 ≤ i → i < mE.nBodies →
      kinOf (updateKinematics mC wC st qd qdd) (φ i) = kinOf (updateKinematics mE wE st qd qdd) i :=
  embed_kin C (uk_closed mE C.tree C.arityOk hncE wE st qd qdd)
    (uk_closed mC C.tree' (embed_arity C K) hncC wC st qd qdd) K hrow

theorem relabel_updateKinematics {m m' : ModelS α} {σ σi : Nat → Nat} (R : Relabel m m' σ σi)
    (hnc : ∀ i, 1 ≤ i → i < m.nBodies → (m.joint i).jt ≠ .custom)
    (hnc' : ∀ i, 1 ≤ i → i < m'.nBodies → (m'.joint i).jt ≠ .custom)
    (w w' : WS α) (st st' : QS α) (qd qd' qdd qdd' : VecN α)
    (hrow : ∀ i, 1 ≤ i → i < m.nBodies →
      jrow m' w' (σ i) st' qd' qdd' = jrow m w i st qd qdd) :
    ∀ i, 1 ≤ i → i < m.nBodies →
      kinOf (updateKinematics m' w' st' qd' qdd') (σ i) = kinOf (updateKinematics m w st qd qdd) i := by
  have har' : ∀ j, 1 ≤ j → j < m'.nBodies → m'.arity j ≠ .other := by
    intro j j1 j2
    rw [R.nb] at j2
    have hj0 : σi j ≠ 0 := by
      intro e; have := R.right j j2; rw [e, R.zero] at this; omega
    have := R.arity (σi j) (by omega) (R.rangeI j j1 j2)
    rw [R.right j j2] at this
    rw [this]
    exact R.arityOk (σi j) (by omega) (R.rangeI j j1 j2)
  exact relabel_kin R (uk_closed m R.tree R.arityOk hnc w st qd qdd)
    (uk_closed m' (fun i i1 i2 => R.tree' i i1 (by rw [← R.nb]; exact i2)) har' hnc' w' st' qd' qdd')
    hrow

end Rbdl.L07
