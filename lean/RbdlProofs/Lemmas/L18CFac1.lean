import RbdlProofs.Lemmas.L18CFactory
/-
  C18 at curve level, part 12: well-formedness of the curves produced by the factories
  (one-section curves: the three compressive force curves).
-/
set_option linter.unusedSectionVars false
namespace Rbdl.L18C
open Lean.Grind Std Rbdl.Geom Rbdl.L18

section order
variable {α : Type} [Field α] [Inhabited α] [LE α] [LT α] [LawfulOrderLT α] [IsLinearOrder α]
  [OrderedRing α] [DecidableLT α] [DecidableLE α] [DecidableEq α]

/-- one successfully built corner section between `x0 < x1`: if in the non-degenerate branch the chord
    slope lies strictly between the end slopes, the section is admissible; its start slope is the
    requested one in the non-degenerate branch, and in the degenerate branch (corner := midpoint) only
    if the midpoint corner happens to lie on the start tangent -/
theorem corner_sec (x0 y0 m0 x1 y1 m1 cu : α) (p : P6 α × P6 α) (hx : x0 < x1)
    (h0 : 0 ≤ cu) (h1 : cu ≤ 1)
    (h : cornerCP x0 y0 m0 x1 y1 m1 (scaleCurviness cu) = some p)
    (hb : absα (m0 - m1) > rootEPS →
          (m0 * (x1 - x0) < y1 - y0 ∧ y1 - y0 < m1 * (x1 - x0)) ∨
          (m1 * (x1 - x0) < y1 - y0 ∧ y1 - y0 < m0 * (x1 - x0))) :
    p.1.StrictIncr ∧ p.1.p0 = x0 ∧ p.1.p5 = x1 ∧ p.2.p0 = y0 ∧ p.2.p5 = y1 ∧
    derivDYDX 1 p.1 p.2 1 = m1 ∧
    ((absα (m0 - m1) > rootEPS ∨ ((x1+x0)/2 - x1)*m1 + y1 = y0 + m0*((x1+x0)/2 - x0)) →
      derivDYDX 0 p.1 p.2 1 = m0) := by
  obtain ⟨c0, c1⟩ := scaleCurviness_bounds cu h0 h1
  obtain ⟨hp, _⟩ := cornerCP_some _ _ _ _ _ _ _ _ h
  by_cases hd : absα (m0 - m1) > rootEPS
  · obtain ⟨e, hm⟩ := cornerXC_nondeg x0 y0 m0 x1 y1 m1 hd
    obtain ⟨b0, b1⟩ := xC_between x0 y0 m0 x1 y1 m1 hx hm (hb hd)
    rw [e] at hp
    obtain ⟨a1, a2, a3, a4, a5, a6, a7⟩ := cornerPts_ok _ x0 y0 m0 x1 y1 m1 _ b0 b1 c0 c1
    rw [hp]
    refine ⟨a1, a2, a3, a4, a5, a6, fun _ => a7 ?_⟩
    exact C18.cornerXC_on_tangents x0 y0 m0 x1 y1 m1 hm
  · have e := cornerXC_deg x0 y0 m0 x1 y1 m1 hd
    rw [e] at hp
    obtain ⟨a1, a2, a3, a4, a5, a6, a7⟩ := cornerPts_ok ((x1+x0)/2) x0 y0 m0 x1 y1 m1 _ (by grind) (by grind) c0 c1
    rw [hp]
    refine ⟨a1, a2, a3, a4, a5, a6, fun hh => a7 ?_⟩
    rcases hh with hh | hh
    · exact absurd hh hd
    · exact hh

theorem inv_mul_lt (a k : α) (ha : 0 < a) : (k < -(1/a) ↔ k * a < -1) ∧ (k > 1/a ↔ k * a > 1) := by
  have e : (1/a) * a = 1 := by grind
  have h1 := Field.IsOrdered.mul_lt_mul_iff_of_pos_right (a := k) (b := -(1/a)) ha
  have h2 := Field.IsOrdered.mul_lt_mul_iff_of_pos_right (a := 1/a) (b := k) ha
  constructor
  · rw [← h1]; rw [show -(1/a) * a = -1 by grind]
  · show 1/a < k ↔ 1 < k * a
    rw [← h2, e]

/-- `createFiberCompressiveForceLengthCurve`: well-formed provided the corner is non-degenerate
    (`|k| > sqrt(eps)`, which holds whenever `lmax ≤ 2^26`) -/
theorem fiberCompressiveForceLength_spec (lmax k cu : α) (c : Curve α)
    (h : Factory.fiberCompressiveForceLength lmax k cu = some c) (hk : absα k > rootEPS) :
    c.WF ∧ ∃ kx ky km, c.CornerBuilt kx ky km := by
  simp only [Factory.fiberCompressiveForceLength] at h
  obtain ⟨g1, h⟩ := guard_none _ _ _ h
  obtain ⟨g2, h⟩ := guard_none _ _ _ h
  obtain ⟨g3, h⟩ := guard_none _ _ _ h
  obtain ⟨p, hp, hc⟩ := bind_some _ _ _ h
  simp only [pure, Option.some.injEq] at hc
  have hk' : absα (k - 0) > rootEPS := by rw [show k - 0 = k by grind]; exact hk
  have g2' := ((inv_mul_lt lmax k g1).1).mp g2
  obtain ⟨a1, a2, a3, a4, a5, a6, a7⟩ := corner_sec 0 1 k lmax 0 0 cu p g1 g3.1 g3.2 hp
    (fun _ => Or.inl ⟨by grind, by grind⟩)
  rw [← hc]
  exact ⟨WF_one p 0 lmax 1 0 k 0 a1 a2 a3 a4 a5 (a7 (Or.inl hk')) a6, _, _, _,
    cornerBuilt_one p _ _ _ _ _ _ _ hp a1 (Or.inl hk')⟩

/-- `createFiberCompressiveForceCosPennationCurve`: well-formed for `k < -1/cosPhi0` (the guard in
    the code, `k < 1/cosPhi0`, is weaker: see the counterexample in `Props/C18Curve.lean`) -/
theorem fiberCompressiveForceCosPennation_spec (cosPhi0 k cu : α) (c : Curve α)
    (h : Factory.fiberCompressiveForceCosPennation cosPhi0 k cu = some c) (hk : k < -(1/cosPhi0)) :
    c.WF ∧ ∃ kx ky km, c.CornerBuilt kx ky km := by
  simp only [Factory.fiberCompressiveForceCosPennation] at h
  obtain ⟨g1, h⟩ := guard_none _ _ _ h
  obtain ⟨_, h⟩ := guard_none _ _ _ h
  obtain ⟨g3, h⟩ := guard_none _ _ _ h
  obtain ⟨p, hp, hc⟩ := bind_some _ _ _ h
  simp only [pure, Option.some.injEq] at hc
  have g2' := ((inv_mul_lt cosPhi0 k g1.1).1).mp hk
  have hk1 : k < -1 := by
    by_cases e : k < -1
    · exact e
    · have := OrderedRing.mul_le_mul_of_nonpos_left (show cosPhi0 ≤ 1 by grind) (show k ≤ 0 by grind)
      have : 0 ≤ (k + 1) := by grind
      grind
  have hk' : absα (k - 0) > rootEPS := by
    rw [show k - 0 = k by grind]
    have := rootEPS_pos (α := α)
    rcases absα_cases k with ⟨_, b⟩ | ⟨_, b⟩
    · rw [b]; simp only [rootEPS]; grind
    · grind
  obtain ⟨a1, a2, a3, a4, a5, a6, a7⟩ := corner_sec 0 1 k cosPhi0 0 0 cu p g1.1 g3.1 g3.2 hp
    (fun _ => Or.inl ⟨by grind, by grind⟩)
  rw [← hc]
  exact ⟨WF_one p 0 cosPhi0 1 0 k 0 a1 a2 a3 a4 a5 (a7 (Or.inl hk')) a6, _, _, _,
    cornerBuilt_one p _ _ _ _ _ _ _ hp a1 (Or.inl hk')⟩

/-- `createFiberCompressiveForcePennationCurve`: well-formed provided the corner is non-degenerate
    (`k > sqrt(eps)`, which holds whenever `halfPi - phi0 ≤ 2^26`) -/
theorem fiberCompressiveForcePennation_spec (halfPi phi0 k cu : α) (c : Curve α)
    (h : Factory.fiberCompressiveForcePennation halfPi phi0 k cu = some c) (hk : k > rootEPS) :
    c.WF ∧ ∃ kx ky km, c.CornerBuilt kx ky km := by
  simp only [Factory.fiberCompressiveForcePennation] at h
  obtain ⟨g1, h⟩ := guard_none _ _ _ h
  obtain ⟨g2, h⟩ := guard_none _ _ _ h
  obtain ⟨g3, h⟩ := guard_none _ _ _ h
  obtain ⟨p, hp, hc⟩ := bind_some _ _ _ h
  simp only [pure, Option.some.injEq] at hc
  have g2' := ((inv_mul_lt (halfPi - phi0) k (by grind)).2).mp g2
  have hk' : absα (0 - k) > rootEPS := by
    have := rootEPS_pos (α := α)
    rcases absα_cases (0 - k) with ⟨_, b⟩ | ⟨_, b⟩ <;> grind
  obtain ⟨a1, a2, a3, a4, a5, a6, a7⟩ := corner_sec phi0 0 0 halfPi 1 k cu p g1.2 g3.1 g3.2 hp
    (fun _ => Or.inl ⟨by grind, by grind⟩)
  rw [← hc]
  exact ⟨WF_one p phi0 halfPi 0 1 0 k a1 a2 a3 a4 a5 (a7 (Or.inl hk')) a6, _, _, _,
    cornerBuilt_one p _ _ _ _ _ _ _ hp a1 (Or.inl hk')⟩
end order
end Rbdl.L18C
