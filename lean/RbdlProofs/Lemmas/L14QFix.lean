import RbdlProofs.Lemmas.L14QSet
/-
  C14, query clauses — part 5: fixed bodies (id, movable parent, composed transform, chains of
  fixed bodies of any length) and the name ↔ id round trip.
-/
namespace Rbdl.L14Q
open Lean.Grind Rbdl Rbdl.ModelS

section
variable {α : Type} [Field α]

/-! ### how a parent id is resolved -/

theorem mpOf_of_fixed (m : ModelS α) (p : Nat) (h : m.isFixedBodyId p = true) :
    m.mpOf p = m.getParentBodyId p := by
  rw [getParentBodyId_fixed _ _ ((isFixedBodyId_iff m p).mp h).1]
  simp only [mpOf, h, if_true]

theorem mpXOf_of_fixed (m : ModelS α) (p : Nat) (h : m.isFixedBodyId p = true) :
    m.mpXOf p = m.getJointFrame p := by
  rw [getJointFrame_fixed _ _ ((isFixedBodyId_iff m p).mp h).1]
  simp only [mpXOf, h, if_true]

theorem fpXOf_of_fixed (m : ModelS α) (p : Nat) (X : XT α) (h : m.isFixedBodyId p = true) :
    m.fpXOf p X = X * m.getJointFrame p := by
  rw [getJointFrame_fixed _ _ ((isFixedBodyId_iff m p).mp h).1]
  simp only [fpXOf, h, if_true]

theorem mpOf_of_not_fixed (m : ModelS α) (p : Nat) (h : m.isFixedBodyId p = false) :
    m.mpOf p = p := by
  simp only [mpOf, h]; rfl

theorem mpXOf_of_not_fixed (m : ModelS α) (p : Nat) (h : m.isFixedBodyId p = false) :
    m.mpXOf p = XT.id := by
  simp only [mpXOf, h]; rfl

theorem fpXOf_of_not_fixed (m : ModelS α) (p : Nat) (X : XT α) (h : m.isFixedBodyId p = false) :
    m.fpXOf p X = X := by
  simp only [fpXOf, h]; rfl

variable [DecidableEq α]

/-! ### one fixed-joint addition -/

/-- what a successful fixed-joint addition records -/
structure AddedF (m m' : ModelS α) (id parent : Nat) (frame : XT α) : Prop where
  id_eq : id = m.fixedBodies.length + fixedDisc
  len : m'.fixedBodies.length = m.fixedBodies.length + 1
  nb : m'.bodies.length = m.bodies.length
  isFixed : m'.isFixedBodyId id = true
  prev : m'.prevBodyId = id
  parentId : m'.getParentBodyId id = m.mpOf parent
  transform : m'.getJointFrame id = m.fpXOf parent frame
  old : m.fixedBodies <+: m'.fixedBodies

theorem step_addedF (m : ModelS α) (op : Op α) (hv : op.valid m) (hf : op.isFixed = true)
    (id : Nat) (h : (m.step op).2 = .ok id) :
    AddedF m (m.step op).1 id (parentIn m op) (opFrame op) := by
  have hcap : m.fixedBodies.length ≤ fixedDisc := by
    cases op with
    | addBody parent frame j b name => exact hv.2.2
    | appendBody frame j b name => exact hv.2
    | addBodyCustomJoint parent frame k b name => exact hv.2
  have hfd := fixedDisc_eq
  rcases step_fixed_cases m op hf with ⟨e, he⟩ | ⟨_, pb, _, he⟩
  · rw [he] at h; cases h
  · rw [he] at h ⊢
    obtain rfl := Except.ok.inj h
    have hfb : (fixedResult m (parentIn m op) (opFrame op) (opBody op) op.name pb).fixedBody
        (m.fixedBodies.length + fixedDisc - fixedDisc) =
        ⟨(opBody op).mass, (opBody op).com, (opBody op).inertia, m.mpOf (parentIn m op),
          m.fpXOf (parentIn m op) (opFrame op)⟩ := by
      simp only [fixedResult, fixedBody]
      exact getD_append_last' _ _ _ _ (by omega)
    refine ⟨rfl, by simp [fixedResult], by simp [fixedResult], ?_, rfl, ?_, ?_,
      List.prefix_append _ _⟩
    · rw [isFixedBodyId_iff]
      simp only [fixedResult, List.length_append, List.length_cons, List.length_nil]
      omega
    · rw [getParentBodyId_fixed _ _ (by omega), hfb]
    · rw [getJointFrame_fixed _ _ (by omega), hfb]

/-! ### chains of fixed bodies -/

/-- a fixed joint -/
def jfixed : Joint α := ⟨.fixed, [], 0, 0, noCustom⟩

/-- fixed bodies appended one after the other, each to the previous one -/
def appendFixedOps (l : List (XT α × Body α × String)) : List (Op α) :=
  l.map (fun e => .appendBody e.1 jfixed e.2.1 e.2.2)

/-- every operation of the sequence succeeds -/
def allOk (m : ModelS α) : List (Op α) → Prop
  | [] => True
  | op :: ops => isOk (m.step op).2 = true ∧ allOk (m.step op).1 ops

instance decAllOk (m : ModelS α) (ops : List (Op α)) : Decidable (allOk m ops) :=
  match ops with
  | [] => isTrue trivial
  | op :: ops =>
    have := decAllOk (m.step op).1 ops
    by unfold allOk; infer_instance

/-- `Xₙ * (… * (X₁ * T))`: the frames composed onto `T` in the order of addition -/
def composeOnto (T : XT α) (l : List (XT α)) : XT α := l.foldl (fun acc X => X * acc) T

theorem chain_append (l : List (XT α × Body α × String)) : ∀ (m : ModelS α),
    m.validRun (appendFixedOps l) → allOk m (appendFixedOps l) →
    m.isFixedBodyId m.prevBodyId = true →
    (m.run (appendFixedOps l)).isFixedBodyId (m.run (appendFixedOps l)).prevBodyId = true ∧
    (m.run (appendFixedOps l)).getParentBodyId (m.run (appendFixedOps l)).prevBodyId
      = m.getParentBodyId m.prevBodyId ∧
    (m.run (appendFixedOps l)).getJointFrame (m.run (appendFixedOps l)).prevBodyId
      = composeOnto (m.getJointFrame m.prevBodyId) (l.map (·.1)) ∧
    (m.run (appendFixedOps l)).fixedBodies.length = m.fixedBodies.length + l.length ∧
    (l ≠ [] → (m.run (appendFixedOps l)).prevBodyId =
      m.fixedBodies.length + l.length - 1 + fixedDisc) := by
  induction l with
  | nil => intro m _ _ hfx; exact ⟨hfx, rfl, rfl, rfl, fun h => absurd rfl h⟩
  | cons e l ih =>
    intro m hv hok hfx
    obtain ⟨id, hid⟩ := (isOk_iff _).mp hok.1
    have ha := step_addedF m (.appendBody e.1 jfixed e.2.1 e.2.2) hv.1 rfl id hid
    have hpi : parentIn m (.appendBody e.1 jfixed e.2.1 e.2.2 : Op α) = m.prevBodyId := rfl
    have hfr : opFrame (.appendBody e.1 jfixed e.2.1 e.2.2 : Op α) = e.1 := rfl
    rw [hpi, hfr] at ha
    have hprev := ha.prev
    obtain ⟨h1, h2, h3, h4, h5⟩ := ih _ hv.2 hok.2 (by rw [hprev]; exact ha.isFixed)
    have hrun : m.run (appendFixedOps (e :: l)) =
        (m.step (.appendBody e.1 jfixed e.2.1 e.2.2)).1.run (appendFixedOps l) := rfl
    rw [hrun]
    refine ⟨h1, ?_, ?_, ?_, ?_⟩
    · rw [h2, hprev, ha.parentId, mpOf_of_fixed m _ hfx]
    · rw [h3, hprev, ha.transform, fpXOf_of_fixed m _ _ hfx]; rfl
    · rw [h4, ha.len]; simp only [List.length_cons]; omega
    · intro _
      by_cases hl : l = []
      · subst hl
        show (m.step (.appendBody e.1 jfixed e.2.1 e.2.2)).1.prevBodyId = _
        rw [hprev, ha.id_eq]; rfl
      · rw [h5 hl, ha.len]
        simp only [List.length_cons]
        omega

end

/-! ### names -/
section Names
variable {α : Type}

/-- `GetBodyName`: the name recorded for an id, `""` if there is none.  (The C++ iterates over a
    `std::map`, i.e. in the order of the names; by `idsDistinct` at most one entry carries the id,
    so the order is irrelevant.) -/
def getBodyName (m : ModelS α) (id : Nat) : String :=
  match m.names.find? (fun p => p.2 == id) with
  | some p => p.1
  | none => ""

/-- no two names denote the same body -/
def idsDistinct (m : ModelS α) : Prop := m.names.Pairwise (fun p q => p.2 ≠ q.2)

theorem find?_of_pairwise_snd (l : List (String × Nat)) (h : l.Pairwise (fun p q => p.2 ≠ q.2))
    (p : String × Nat) (hp : p ∈ l) : l.find? (fun q => q.2 == p.2) = some p := by
  induction l with
  | nil => cases hp
  | cons x xs ih =>
    rw [List.pairwise_cons] at h
    rcases List.mem_cons.mp hp with rfl | hmem
    · simp
    · have : x.2 ≠ p.2 := h.1 p hmem
      rw [List.find?_cons_of_neg (by simpa using this)]
      exact ih h.2 hmem

theorem getBodyName_of_mem (m : ModelS α) (hd : idsDistinct m) (p : String × Nat)
    (hp : p ∈ m.names) : getBodyName m p.2 = p.1 := by
  simp only [getBodyName, find?_of_pairwise_snd _ hd p hp]

theorem getBodyName_none (m : ModelS α) (id : Nat) (h : ∀ p ∈ m.names, p.2 ≠ id) :
    getBodyName m id = "" := by
  have : m.names.find? (fun p => p.2 == id) = none := by
    rw [List.find?_eq_none]
    intro x hx hxe
    exact h x hx (by simpa using hxe)
  simp only [getBodyName, this]

variable [Field α] [DecidableEq α]

omit [Field α] [DecidableEq α] in
theorem idsDistinct_init [Field α] : idsDistinct (ModelS.init : ModelS α) := by
  simp [idsDistinct, ModelS.init]

/-- the entries of the name table of the model after a step -/
theorem step_names (m : ModelS α) (op : Op α) (id : Nat) (h : (m.step op).2 = .ok id) :
    (m.step op).1.names = if op.name ≠ "" then m.names ++ [(op.name, id)] else m.names := by
  have ho := step_outcome m op
  generalize m.step op = r at h ho
  cases ho with
  | dup => cases h
  | rejected => cases h
  | movable m' _ _ _ ha => obtain rfl := Except.ok.inj h; exact ha.names
  | fixed m' _ _ ha => obtain rfl := Except.ok.inj h; exact ha.names

/-- ids of new bodies are fresh as long as movable ids stay below `fixedDisc` -/
theorem step_id_fresh (m : ModelS α) (hwf : m.WF) (op : Op α) (id : Nat)
    (h : (m.step op).2 = .ok id) (hb : (m.step op).1.bodies.length ≤ fixedDisc) :
    ∀ p ∈ m.names, p.2 ≠ id := by
  intro p hp
  have hok := hwf.names_ok p hp
  simp only [nBodies] at hok
  have ho := step_outcome m op
  generalize m.step op = r at h ho hb
  cases ho with
  | dup => cases h
  | rejected => cases h
  | movable m' _ _ hk ha =>
    obtain rfl := Except.ok.inj h
    have := ha.nb
    simp only at hb
    omega
  | fixed m' _ _ ha =>
    obtain rfl := Except.ok.inj h
    have := ha.nb
    simp only at hb
    omega

theorem step_idsDistinct (m : ModelS α) (hwf : m.WF) (op : Op α) (hd : idsDistinct m)
    (hb : (m.step op).1.bodies.length ≤ fixedDisc) : idsDistinct (m.step op).1 := by
  cases hr : (m.step op).2 with
  | error e => rw [step_error_unchanged m op e hr]; exact hd
  | ok id =>
    unfold idsDistinct
    rw [step_names m op id hr]
    split
    · rw [List.pairwise_append]
      refine ⟨hd, by simp, ?_⟩
      intro a ha c hc
      simp at hc; subst hc
      exact step_id_fresh m hwf op id hr hb a ha
    · exact hd

theorem run_idsDistinct (ops : List (Op α)) : ∀ (m : ModelS α), m.WF → m.validRun ops →
    idsDistinct m → (m.run ops).bodies.length ≤ fixedDisc → idsDistinct (m.run ops) := by
  induction ops with
  | nil => intro m _ _ hd _; exact hd
  | cons op ops ih =>
    intro m hwf hv hd hb
    have hle := (run_fixed_prefix ops (m.step op).1).2
    have hb' : (m.run (op :: ops)).bodies.length = ((m.step op).1.run ops).bodies.length := rfl
    exact ih _ (step_wf m hwf op hv.1) hv.2
      (step_idsDistinct m hwf op hd (by omega)) hb

end Names
end Rbdl.L14Q
