import Rbdl.Spec.Energy
import RbdlProofs.Lemmas.L01CapThm
/-
  C12 (energy balance), part 1: **the velocities of the specification are linear in the generalized
  velocities** — for every specification model whose joints read coordinates below `M.nv`:

      pose jet of node `i` under `(q, q̇, q̈)`:   value part = value part under the unit motion `e_j`,
      first-order part = Σ_{j < nv} q̇_j · (first-order part under the unit motion `e_j`).

  (`Σ_j q̇_j · (partial velocity j) = velocity`; quaternion joints: the velocity coordinates are the
  body-frame angular velocity, `Q̇ = ½ Q ⊗ (ω, 0)` is linear in `ω`.)

  The proof follows the construction of `Spec.kinTable`: the relation `Lin` between a jet and the family of
  jets of the unit motions is closed under the ring operations of `D2 α` (Leibniz), holds for the coordinate
  jets (`coordJets_lin`), hence for the joint poses (`jointPose_lin`), the frames, and the composed world
  poses (`specPose_lin`).
-/
namespace Rbdl.L12En
open Lean.Grind Rbdl Rbdl.Spec Rbdl.L06 Rbdl.L01Cap
set_option linter.unusedSimpArgs false
set_option linter.unusedVariables false
set_option linter.unusedSectionVars false

section
variable {α : Type} [Field α]

/-! ### finite sums -/

theorem sumTo_succ' (n : Nat) (f : Nat → α) : sumTo (n + 1) f = sumTo n f + f n := rfl

theorem sumTo_congr' (n : Nat) (f g : Nat → α) (h : ∀ k, k < n → f k = g k) :
    sumTo n f = sumTo n g := by
  induction n with
  | zero => rfl
  | succ n ih =>
    rw [sumTo_succ', sumTo_succ', ih (fun k hk => h k (by omega)), h n (by omega)]

theorem sumTo_zero' (n : Nat) : sumTo n (fun _ => (0 : α)) = 0 := by
  induction n with
  | zero => rfl
  | succ n ih => rw [sumTo_succ', ih]; grind

theorem sumTo_add' (n : Nat) (f g : Nat → α) :
    sumTo n (fun k => f k + g k) = sumTo n f + sumTo n g := by
  induction n with
  | zero => simp only [sumTo]; grind
  | succ n ih => simp only [sumTo_succ']; rw [ih]; grind

theorem sumTo_smul' (n : Nat) (a : α) (f : Nat → α) :
    sumTo n (fun k => a * f k) = a * sumTo n f := by
  induction n with
  | zero => simp only [sumTo]; grind
  | succ n ih => simp only [sumTo_succ']; rw [ih]; grind

theorem sumTo_neg' (n : Nat) (f : Nat → α) : sumTo n (fun k => -f k) = -sumTo n f := by
  induction n with
  | zero => simp only [sumTo]; grind
  | succ n ih => simp only [sumTo_succ']; rw [ih]; grind

/-- `Σ_{j<N} f j · δ_{n j} = f n` -/
theorem sumTo_delta (N : Nat) (f : Nat → α) (n : Nat) (hn : n < N) :
    sumTo N (fun j => f j * (if n = j then 1 else 0)) = f n := by
  induction N with
  | zero => omega
  | succ N ih =>
    rw [sumTo_succ']
    by_cases h : n = N
    · subst h
      rw [if_pos rfl, sumTo_congr' n _ (fun _ => 0) (fun k hk => by rw [if_neg (by omega)]; grind),
        sumTo_zero']
      grind
    · rw [ih (by omega), if_neg h]; grind

/-! ### the relation -/

/-- `a` is the jet of a quantity along the motion with generalized velocity `qd`, `u j` the jet of the
    same quantity along the unit motion `e_j`: equal values, and the first-order part of `a` is the
    `qd`-combination of the first-order parts of the `u j` -/
structure Lin (N : Nat) (qd : Nat → α) (a : D2 α) (u : Nat → D2 α) : Prop where
  x : ∀ j, (u j).x = a.x
  d1 : a.d1 = sumTo N (fun j => qd j * (u j).d1)

variable {N : Nat} {qd : Nat → α}

theorem Lin.const (c : α) : Lin N qd (D2.const c) (fun _ => D2.const c) :=
  ⟨fun _ => rfl, by
    show (0 : α) = _
    rw [sumTo_congr' N _ (fun _ => 0) (fun k _ => by show qd k * (0 : α) = 0; grind), sumTo_zero']⟩

theorem Lin.ofNat (n : Nat) : Lin N qd (OfNat.ofNat n : D2 α) (fun _ => (OfNat.ofNat n : D2 α)) :=
  ⟨fun _ => rfl, by
    show (0 : α) = _
    rw [sumTo_congr' N _ (fun _ => 0) (fun k _ => by show qd k * (0 : α) = 0; grind), sumTo_zero']⟩

theorem Lin.add {a b : D2 α} {u v : Nat → D2 α} (ha : Lin N qd a u) (hb : Lin N qd b v) :
    Lin N qd (a + b) (fun j => u j + v j) :=
  ⟨fun j => by show (u j).x + (v j).x = a.x + b.x; rw [ha.x, hb.x], by
    show a.d1 + b.d1 = sumTo N (fun j => qd j * ((u j).d1 + (v j).d1))
    rw [ha.d1, hb.d1, ← sumTo_add']
    exact sumTo_congr' N _ _ (fun k _ => by grind)⟩

theorem Lin.neg {a : D2 α} {u : Nat → D2 α} (ha : Lin N qd a u) : Lin N qd (-a) (fun j => -u j) :=
  ⟨fun j => by show -(u j).x = -a.x; rw [ha.x], by
    show -a.d1 = sumTo N (fun j => qd j * (-(u j).d1))
    rw [ha.d1, ← sumTo_neg']
    exact sumTo_congr' N _ _ (fun k _ => by grind)⟩

theorem Lin.sub {a b : D2 α} {u v : Nat → D2 α} (ha : Lin N qd a u) (hb : Lin N qd b v) :
    Lin N qd (a - b) (fun j => u j - v j) :=
  ⟨fun j => by show (u j).x - (v j).x = a.x - b.x; rw [ha.x, hb.x], by
    show a.d1 - b.d1 = sumTo N (fun j => qd j * ((u j).d1 - (v j).d1))
    have e : a.d1 - b.d1 = a.d1 + -b.d1 := by grind
    rw [e, ha.d1, hb.d1, ← sumTo_neg', ← sumTo_add']
    exact sumTo_congr' N _ _ (fun k _ => by grind)⟩

/-- Leibniz -/
theorem Lin.mul {a b : D2 α} {u v : Nat → D2 α} (ha : Lin N qd a u) (hb : Lin N qd b v) :
    Lin N qd (a * b) (fun j => u j * v j) :=
  ⟨fun j => by show (u j).x * (v j).x = a.x * b.x; rw [ha.x, hb.x], by
    show a.d1 * b.x + a.x * b.d1 = sumTo N (fun j => qd j * ((u j).d1 * (v j).x + (u j).x * (v j).d1))
    rw [ha.d1, hb.d1]
    have e : ∀ s t : α, s * b.x + a.x * t = b.x * s + a.x * t := by intro s t; grind
    rw [e, ← sumTo_smul', ← sumTo_smul', ← sumTo_add']
    exact sumTo_congr' N _ _ (fun k _ => by rw [ha.x, hb.x]; grind)⟩

/-- a jet whose first-order part is a combination of three generalized velocities -/
theorem Lin.of_comb {a : D2 α} {u : Nat → D2 α} (A B C : α) (k0 k1 k2 : Nat) (h0 : k0 < N)
    (h1 : k1 < N) (h2 : k2 < N) (hx : ∀ j, (u j).x = a.x)
    (ha : a.d1 = A * qd k0 + B * qd k1 + C * qd k2)
    (hu : ∀ j, (u j).d1 = A * (if k0 = j then 1 else 0) + B * (if k1 = j then 1 else 0)
      + C * (if k2 = j then 1 else 0)) : Lin N qd a u :=
  ⟨hx, by
    rw [ha, sumTo_congr' N _ (fun j => A * (qd j * (if k0 = j then 1 else 0))
        + B * (qd j * (if k1 = j then 1 else 0)) + C * (qd j * (if k2 = j then 1 else 0)))
        (fun k _ => by rw [hu]; grind),
      sumTo_add', sumTo_add', sumTo_smul', sumTo_smul', sumTo_smul', sumTo_delta N qd k0 h0,
      sumTo_delta N qd k1 h1, sumTo_delta N qd k2 h2]⟩

/-- … of one generalized velocity -/
theorem Lin.of_single {a : D2 α} {u : Nat → D2 α} (A : α) (k : Nat) (hk : k < N)
    (hx : ∀ j, (u j).x = a.x) (ha : a.d1 = A * qd k)
    (hu : ∀ j, (u j).d1 = A * (if k = j then 1 else 0)) : Lin N qd a u :=
  Lin.of_comb A 0 0 k k k hk hk hk hx (by rw [ha]; grind) (fun j => by rw [hu]; grind)

/-! ### vectors, matrices, poses -/

structure LinV (N : Nat) (qd : Nat → α) (v : V3 (D2 α)) (u : Nat → V3 (D2 α)) : Prop where
  x : Lin N qd v.x (fun j => (u j).x)
  y : Lin N qd v.y (fun j => (u j).y)
  z : Lin N qd v.z (fun j => (u j).z)

structure LinM (N : Nat) (qd : Nat → α) (A : M3 (D2 α)) (U : Nat → M3 (D2 α)) : Prop where
  m00 : Lin N qd A.m00 (fun j => (U j).m00)
  m01 : Lin N qd A.m01 (fun j => (U j).m01)
  m02 : Lin N qd A.m02 (fun j => (U j).m02)
  m10 : Lin N qd A.m10 (fun j => (U j).m10)
  m11 : Lin N qd A.m11 (fun j => (U j).m11)
  m12 : Lin N qd A.m12 (fun j => (U j).m12)
  m20 : Lin N qd A.m20 (fun j => (U j).m20)
  m21 : Lin N qd A.m21 (fun j => (U j).m21)
  m22 : Lin N qd A.m22 (fun j => (U j).m22)

structure LinP (N : Nat) (qd : Nat → α) (P : Pose (D2 α)) (U : Nat → Pose (D2 α)) : Prop where
  R : LinM N qd P.R (fun j => (U j).R)
  p : LinV N qd P.p (fun j => (U j).p)

/-- closes goals `Lin N qd e (fun j => e_j)` where `e` is built from hypotheses by ring operations -/
macro "lin_tac" : tactic =>
  `(tactic| repeat (first
    | assumption
    | exact Lin.const _
    | exact Lin.ofNat _
    | apply Lin.add
    | apply Lin.sub
    | apply Lin.mul
    | apply Lin.neg))

theorem LinM.mul {A B : M3 (D2 α)} {U V : Nat → M3 (D2 α)} (hA : LinM N qd A U)
    (hB : LinM N qd B V) : LinM N qd (A * B) (fun j => U j * V j) := by
  obtain ⟨a00, a01, a02, a10, a11, a12, a20, a21, a22⟩ := hA
  obtain ⟨b00, b01, b02, b10, b11, b12, b20, b21, b22⟩ := hB
  constructor <;> simp only [alg] <;> lin_tac

theorem LinM.mulVec {A : M3 (D2 α)} {v : V3 (D2 α)} {U : Nat → M3 (D2 α)} {u : Nat → V3 (D2 α)}
    (hA : LinM N qd A U) (hv : LinV N qd v u) : LinV N qd (A * v) (fun j => U j * u j) := by
  obtain ⟨a00, a01, a02, a10, a11, a12, a20, a21, a22⟩ := hA
  obtain ⟨vx, vy, vz⟩ := hv
  constructor <;> simp only [alg] <;> lin_tac

theorem LinV.add {v w : V3 (D2 α)} {u t : Nat → V3 (D2 α)} (hv : LinV N qd v u)
    (hw : LinV N qd w t) : LinV N qd (v + w) (fun j => u j + t j) := by
  obtain ⟨vx, vy, vz⟩ := hv
  obtain ⟨wx, wy, wz⟩ := hw
  constructor <;> simp only [alg] <;> lin_tac

theorem LinP.comp {P Q : Pose (D2 α)} {U V : Nat → Pose (D2 α)} (hP : LinP N qd P U)
    (hQ : LinP N qd Q V) : LinP N qd (P.comp Q) (fun j => (U j).comp (V j)) :=
  ⟨hP.R.mul hQ.R, hP.p.add (hP.R.mulVec hQ.p)⟩

theorem LinP.id : LinP N qd (Pose.id : Pose (D2 α)) (fun _ => Pose.id) := by
  constructor <;> constructor <;> simp only [Pose.id, alg] <;> lin_tac

theorem framePose_lin (E : M3 α) (r : V3 α) :
    LinP N qd (framePose D2.const E r) (fun _ => framePose D2.const E r) := by
  constructor <;> constructor <;> simp only [framePose] <;> lin_tac

/-! ### the coordinate jets -/

/-- the generalized-velocity indices every joint of `M` reads lie below `M.nv` -/
def IdxOK (M : SModel α) : Prop := ∀ nd ∈ M.nodes, ∀ i, i < nd.joint.dof → nd.qIdx + i < M.nv

variable [DecidableEq α]

theorem unitVel_q (st : State α) (j : Nat) : (unitVel st j).q = st.q := rfl
theorem unitVel_c (st : State α) (j : Nat) : (unitVel st j).c = st.c := rfl
theorem unitVel_s (st : State α) (j : Nat) : (unitVel st j).s = st.s := rfl
theorem unitVel_qd (st : State α) (j i : Nat) : (unitVel st j).qd i = if i = j then 1 else 0 := rfl

theorem base_q_lin (st : State α) (n : Nat) (hn : n < N) :
    Lin N st.qd ((baseJets st).q n) (fun j => (baseJets (unitVel st j)).q n) :=
  Lin.of_single 1 n hn (fun _ => rfl) (by show st.qd n = 1 * st.qd n; grind)
    (fun j => by show (if n = j then (1 : α) else 0) = 1 * (if n = j then 1 else 0); grind)

theorem base_c_lin (st : State α) (n : Nat) (hn : n < N) :
    Lin N st.qd ((baseJets st).c n) (fun j => (baseJets (unitVel st j)).c n) :=
  Lin.of_single (-st.s n) n hn (fun _ => rfl) rfl (fun j => rfl)

theorem base_s_lin (st : State α) (n : Nat) (hn : n < N) :
    Lin N st.qd ((baseJets st).s n) (fun j => (baseJets (unitVel st j)).s n) :=
  Lin.of_single (st.c n) n hn (fun _ => rfl) rfl (fun j => rfl)

/-- the entries a spherical node rewrites are linear in its three velocity coordinates -/
theorem jetStep_touched_lin (st : State α) (cs : Coords (D2 α)) (csj : Nat → Coords (D2 α))
    (nd : SNode α) (n : Nat) (ht : touches nd n) (hk : nd.qIdx + 3 ≤ N) :
    Lin N st.qd ((jetStep st cs nd).q n) (fun j => (jetStep (unitVel st j) (csj j) nd).q n) := by
  obtain ⟨hq, hn⟩ := ht
  unfold jetStep
  simp only [hq, if_true, unitVel_q, unitVel_qd]
  by_cases h0 : n = nd.qIdx
  · simp only [if_pos h0]
    exact Lin.of_comb (st.q nd.wIdx / 2) (-(st.q (nd.qIdx + 2)) / 2) (st.q (nd.qIdx + 1) / 2)
      nd.qIdx (nd.qIdx + 1) (nd.qIdx + 2) (by omega) (by omega) (by omega) (fun _ => rfl)
      (by dsimp only; grind) (fun j => by dsimp only; grind)
  · by_cases h1 : n = nd.qIdx + 1
    · simp only [if_neg h0, if_pos h1]
      exact Lin.of_comb (st.q (nd.qIdx + 2) / 2) (st.q nd.wIdx / 2) (-(st.q nd.qIdx) / 2)
        nd.qIdx (nd.qIdx + 1) (nd.qIdx + 2) (by omega) (by omega) (by omega) (fun _ => rfl)
        (by dsimp only; grind) (fun j => by dsimp only; grind)
    · by_cases h2 : n = nd.qIdx + 2
      · simp only [if_neg h0, if_neg h1, if_pos h2]
        exact Lin.of_comb (-(st.q (nd.qIdx + 1)) / 2) (st.q nd.qIdx / 2) (st.q nd.wIdx / 2)
          nd.qIdx (nd.qIdx + 1) (nd.qIdx + 2) (by omega) (by omega) (by omega) (fun _ => rfl)
          (by dsimp only; grind) (fun j => by dsimp only; grind)
      · have h3 : n = nd.wIdx := by
          rcases hn with e | e | e | e
          · exact absurd e h0
          · exact absurd e h1
          · exact absurd e h2
          · exact e
        simp only [if_neg h0, if_neg h1, if_neg h2, if_pos h3]
        exact Lin.of_comb (-(st.q nd.qIdx) / 2) (-(st.q (nd.qIdx + 1)) / 2) (-(st.q (nd.qIdx + 2)) / 2)
          nd.qIdx (nd.qIdx + 1) (nd.qIdx + 2) (by omega) (by omega) (by omega) (fun _ => rfl)
          (by dsimp only; grind) (fun j => by dsimp only; grind)

theorem isQuat_dof (nd : SNode α) (h : isQuatNode nd = true) : nd.joint.dof = 3 := by
  unfold isQuatNode at h
  cases hj : nd.joint <;> simp only [hj] at h <;> first | rfl | cases h

/-- folding the quaternion steps keeps entries linear, and makes every rewritten entry linear -/
theorem foldJets_lin (st : State α) (l : List (SNode α))
    (hl : ∀ nd ∈ l, isQuatNode nd = true → nd.qIdx + 3 ≤ N) :
    ∀ (cs : Coords (D2 α)) (csj : Nat → Coords (D2 α)) (n : Nat),
      (Lin N st.qd (cs.q n) (fun j => (csj j).q n) ∨ ∃ nd ∈ l, touches nd n) →
      Lin N st.qd ((l.foldl (jetStep st) cs).q n)
        (fun j => (l.foldl (jetStep (unitVel st j)) (csj j)).q n) := by
  induction l with
  | nil =>
    intro cs csj n h
    rcases h with h | ⟨nd, hnd, _⟩
    · exact h
    · cases hnd
  | cons a l ih =>
    intro cs csj n h
    simp only [List.foldl_cons]
    apply ih (fun nd hnd => hl nd (List.mem_cons_of_mem _ hnd))
    by_cases ht : touches a n
    · left
      exact jetStep_touched_lin st cs csj a n ht (hl a (List.mem_cons_self ..) ht.1)
    · rcases h with h | ⟨nd, hnd, hn⟩
      · left
        rw [jetStep_q_untouched st cs a n ht]
        have e : (fun j => (jetStep (unitVel st j) (csj j) a).q n) = fun j => (csj j).q n :=
          funext (fun j => jetStep_q_untouched (unitVel st j) (csj j) a n ht)
        rw [e]; exact h
      · rcases List.mem_cons.1 hnd with e | e
        · subst e; exact absurd hn ht
        · right; exact ⟨nd, e, hn⟩

theorem quat_bound {M : SModel α} (hM : IdxOK M) :
    ∀ nd ∈ M.nodes, isQuatNode nd = true → nd.qIdx + 3 ≤ M.nv := by
  intro nd hnd hq
  have := hM nd hnd 2 (by rw [isQuat_dof nd hq]; omega)
  omega

/-- **coordinate jets**: every entry below `nv`, and every entry a spherical node rewrites -/
theorem coordJets_q_lin {M : SModel α} (hM : IdxOK M) (st : State α) (n : Nat)
    (hn : n < M.nv ∨ ∃ nd ∈ M.nodes, touches nd n) :
    Lin M.nv st.qd ((coordJets M st).q n) (fun j => (coordJets M (unitVel st j)).q n) := by
  simp only [coordJets_eq_foldl]
  apply foldJets_lin st M.nodes (quat_bound hM)
  rcases hn with hn | hn
  · left; exact base_q_lin st n hn
  · right; exact hn

theorem coordJets_c_lin (M : SModel α) (st : State α) (n : Nat) (hn : n < M.nv) :
    Lin M.nv st.qd ((coordJets M st).c n) (fun j => (coordJets M (unitVel st j)).c n) := by
  simp only [coordJets_eq_foldl, foldJets_c]
  exact base_c_lin st n hn

theorem coordJets_s_lin (M : SModel α) (st : State α) (n : Nat) (hn : n < M.nv) :
    Lin M.nv st.qd ((coordJets M st).s n) (fun j => (coordJets M (unitVel st j)).s n) := by
  simp only [coordJets_eq_foldl, foldJets_s]
  exact base_s_lin st n hn

/-! ### joint poses -/

def isSph (j : SJoint α) : Prop := match j with | .spherical => True | _ => False

/-- hypotheses on a pair (coordinate record, family of coordinate records) at the entries joint `j`
    with first index `k` and quaternion index `wk` reads -/
structure CoordsLin (N : Nat) (qd : Nat → α) (cs : Coords (D2 α)) (csj : Nat → Coords (D2 α))
    (j : SJoint α) (k wk : Nat) : Prop where
  c : ∀ i, i < j.dof → Lin N qd (cs.c (k + i)) (fun x => (csj x).c (k + i))
  s : ∀ i, i < j.dof → Lin N qd (cs.s (k + i)) (fun x => (csj x).s (k + i))
  q : ∀ i, i < j.dof → Lin N qd (cs.q (k + i)) (fun x => (csj x).q (k + i))
  w : isSph j → Lin N qd (cs.q wk) (fun x => (csj x).q wk)

theorem jointPose_lin (cs : Coords (D2 α)) (csj : Nat → Coords (D2 α)) (j : SJoint α) (k wk : Nat)
    (h : CoordsLin N qd cs csj j k wk) :
    LinP N qd (jointPose D2.const j k wk cs) (fun x => jointPose D2.const j k wk (csj x)) := by
  obtain ⟨hc, hs, hq, hw⟩ := h
  cases j with
  | fixed => exact LinP.id
  | revolute a =>
    have c0 := hc 0 (by simp only [SJoint.dof]; omega); have s0 := hs 0 (by simp only [SJoint.dof]; omega)
    rw [Nat.add_zero] at c0 s0
    constructor <;> constructor <;> simp only [jointPose, rodrigues, alg] <;> lin_tac
  | prismatic a =>
    have q0 := hq 0 (by simp only [SJoint.dof]; omega)
    rw [Nat.add_zero] at q0
    constructor <;> constructor <;> simp only [jointPose, alg] <;> lin_tac
  | helical a b =>
    have c0 := hc 0 (by simp only [SJoint.dof]; omega); have s0 := hs 0 (by simp only [SJoint.dof]; omega); have q0 := hq 0 (by simp only [SJoint.dof]; omega)
    rw [Nat.add_zero] at c0 s0 q0
    constructor <;> constructor <;> simp only [jointPose, rodrigues, alg] <;> lin_tac
  | spherical =>
    have q0 := hq 0 (by simp only [SJoint.dof]; omega); have q1 := hq 1 (by simp only [SJoint.dof]; omega); have q2 := hq 2 (by simp only [SJoint.dof]; omega)
    have qw := hw trivial
    rw [Nat.add_zero] at q0
    constructor <;> constructor <;> simp only [jointPose, quatRot, alg] <;> lin_tac
  | euler o =>
    have c0 := hc 0 (by simp only [SJoint.dof]; omega); have c1 := hc 1 (by simp only [SJoint.dof]; omega); have c2 := hc 2 (by simp only [SJoint.dof]; omega)
    have s0 := hs 0 (by simp only [SJoint.dof]; omega); have s1 := hs 1 (by simp only [SJoint.dof]; omega); have s2 := hs 2 (by simp only [SJoint.dof]; omega)
    rw [Nat.add_zero] at c0 s0
    cases o <;> constructor <;> constructor <;> simp only [jointPose, rotX, rotY, rotZ, alg] <;>
      lin_tac
  | translationXYZ =>
    have q0 := hq 0 (by simp only [SJoint.dof]; omega); have q1 := hq 1 (by simp only [SJoint.dof]; omega); have q2 := hq 2 (by simp only [SJoint.dof]; omega)
    rw [Nat.add_zero] at q0
    constructor <;> constructor <;> simp only [jointPose, alg] <;> lin_tac
  | cylZ =>
    have c0 := hc 0 (by simp only [SJoint.dof]; omega); have s0 := hs 0 (by simp only [SJoint.dof]; omega); have q1 := hq 1 (by simp only [SJoint.dof]; omega)
    rw [Nat.add_zero] at c0 s0
    constructor <;> constructor <;> simp only [jointPose, rotZ, alg] <;> lin_tac

/-- the coordinate jets of a model satisfy the hypotheses at every node -/
theorem coordsLin_node {M : SModel α} (hM : IdxOK M) (st : State α) (nd : SNode α)
    (hnd : nd ∈ M.nodes) :
    CoordsLin M.nv st.qd (coordJets M st) (fun j => coordJets M (unitVel st j)) nd.joint nd.qIdx
      nd.wIdx := by
  have hb := hM nd hnd
  refine ⟨fun i hi => coordJets_c_lin M st _ (hb i hi), fun i hi => coordJets_s_lin M st _ (hb i hi),
    fun i hi => coordJets_q_lin hM st _ (Or.inl (hb i hi)), fun hsph => ?_⟩
  refine coordJets_q_lin hM st _ (Or.inr ⟨nd, hnd, ?_, Or.inr (Or.inr (Or.inr rfl))⟩)
  unfold isQuatNode
  unfold isSph at hsph
  revert hsph
  cases nd.joint <;> simp

theorem relPose_lin {M : SModel α} (hM : IdxOK M) (st : State α) (nd : SNode α)
    (hnd : nd ∈ M.nodes) :
    LinP M.nv st.qd (relPose D2.const (coordJets M st) nd)
      (fun j => relPose D2.const (coordJets M (unitVel st j)) nd) :=
  (framePose_lin nd.E nd.r).comp (jointPose_lin _ _ _ _ _ (coordsLin_node hM st nd hnd))

/-! ### the table of world poses -/

theorem getD_snoc {β : Type} (l : List β) (x d : β) (i : Nat) :
    (l ++ [x]).getD i d = if i < l.length then l.getD i d else if i = l.length then x else d := by
  simp only [List.getD_eq_getElem?_getD]
  by_cases h : i < l.length
  · rw [if_pos h, List.getElem?_append_left h]
  · rw [if_neg h]
    by_cases h' : i = l.length
    · subst h'
      rw [if_pos rfl, List.getElem?_append_right (Nat.le_refl _), Nat.sub_self]
      rfl
    · rw [if_neg h', List.getElem?_eq_none (by rw [List.length_append, List.length_singleton]; omega)]
      rfl

theorem fkFold_lin (cs : Coords (D2 α)) (csj : Nat → Coords (D2 α)) (l : List (SNode α))
    (hl : ∀ nd ∈ l, LinP N qd (relPose D2.const cs nd) (fun j => relPose D2.const (csj j) nd)) :
    ∀ (tab : List (Pose (D2 α))) (tabj : Nat → List (Pose (D2 α))),
      (∀ j, (tabj j).length = tab.length) →
      (∀ i, LinP N qd (tab.getD i Pose.id) (fun j => (tabj j).getD i Pose.id)) →
      ∀ i, LinP N qd ((l.foldl (fkStep D2.const cs) tab).getD i Pose.id)
        (fun j => (l.foldl (fkStep D2.const (csj j)) (tabj j)).getD i Pose.id) := by
  induction l with
  | nil => intro tab tabj _ h i; exact h i
  | cons a l ih =>
    intro tab tabj hlen h
    simp only [List.foldl_cons]
    by_cases he : tab = []
    · -- first node: the table becomes `[id]` on both sides
      have hej : ∀ j, tabj j = [] := fun j => List.eq_nil_of_length_eq_zero (by rw [hlen, he]; rfl)
      have e1 : fkStep D2.const cs tab a = [Pose.id] := by rw [he]; rfl
      have e2 : ∀ j, fkStep D2.const (csj j) (tabj j) a = [Pose.id] := fun j => by rw [hej]; rfl
      simp only [e1, e2]
      refine ih (fun nd hnd => hl nd (List.mem_cons_of_mem _ hnd)) _ _ (fun _ => rfl) (fun i => ?_)
      cases i with
      | zero => exact LinP.id
      | succ i => exact LinP.id
    · have hnej : ∀ j, tabj j ≠ [] := fun j e => he (List.eq_nil_of_length_eq_zero (by
        rw [← hlen j, e]; rfl))
      simp only [fkStep_nonempty _ _ _ _ he, fun j => fkStep_nonempty D2.const (csj j) (tabj j) a (hnej j)]
      refine ih (fun nd hnd => hl nd (List.mem_cons_of_mem _ hnd)) _ _ (fun j => ?_) (fun i => ?_)
      · simp only [List.length_append, List.length_singleton, hlen]
      · have hnew := (h a.parent).comp (hl a (List.mem_cons_self ..))
        simp only [getD_snoc, hlen]
        by_cases h1 : i < tab.length
        · simp only [if_pos h1]; exact h i
        · by_cases h2 : i = tab.length
          · simp only [if_neg h1, if_pos h2]; exact hnew
          · simp only [if_neg h1, if_neg h2]; exact LinP.id

/-- **world poses**: value parts agree with those of the unit motions, first-order parts are the
    `q̇`-combination of theirs -/
theorem specPose_lin {M : SModel α} (hM : IdxOK M) (st : State α) (i : Nat) :
    LinP M.nv st.qd (specPose M st i) (fun j => specPose M (unitVel st j) i) := by
  unfold specPose
  simp only [fkTable_eq_foldl]
  exact fkFold_lin _ _ M.nodes (fun nd hnd => relPose_lin hM st nd hnd) [] (fun _ => [])
    (fun _ => rfl) (fun i => by cases i <;> exact LinP.id) i

end
end Rbdl.L12En
