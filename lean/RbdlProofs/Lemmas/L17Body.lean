import RbdlProofs.Lemmas.L17
/-
  C17 helper lemmas, part 2 (core Lean only): one pass of each modelled solver written as an explicit
  case distinction on the two termination tests, and the consequences for a whole run.
-/
namespace Rbdl.L17
open Lean.Grind Rbdl Rbdl.Iter
set_option linter.unusedSectionVars false

section bodies
variable {α : Type} [Field α] [DecidableEq α] [LT α] [DecidableLT α]

/-! ### `InverseKinematics`, point targets -/

/-- the workspace after `UpdateKinematicsCustom (model, &Qres, NULL, NULL)` -/
def ikWs (trig : α → α × α) (m : ModelS α) (s : IKState α) : WS α :=
  updateKinematicsCustom m s.w (some (mkQS trig s.Q)) none none

/-- `delta_theta = Jᵀ z`, `(J Jᵀ + λ² I) z = e` by the black-box solver, in state `s` -/
def ikDelta (solve : Solver α) (trig : α → α × α) (m : ModelS α) (tg : List (PointTarget α))
    (lambda : α) (s : IKState α) : VecN α :=
  let Je := ikAssemble m (ikWs trig m s) (mkQS trig s.Q) tg
  let n3 := 3 * tg.length
  mulT n3 Je.1 (vecOf (solve n3 (dampedJJT m.qdotSize Je.1 lambda) Je.2))

/-- one pass of the point-target solver as a case distinction: the residual is compared with
    `step_tol` (this overload has no separate constraint tolerance), then the step is -/
theorem ikBody_eq (solve : Solver α) (trig : α → α × α) (m : ModelS α) (tg : List (PointTarget α))
    (stepTol lambda : α) (s : IKState α) :
    ikBody solve trig m tg stepTol lambda s =
      if normLt (ikResidual2 trig m s.w tg s.Q) stepTol then .done ⟨ikWs trig m s, s.Q⟩
      else if normLt (sqNorm m.qdotSize (ikDelta solve trig m tg lambda s)) stepTol then
        .done ⟨ikWs trig m s, addStep m.qdotSize s.Q (ikDelta solve trig m tg lambda s)⟩
      else .next ⟨ikWs trig m s, addStep m.qdotSize s.Q (ikDelta solve trig m tg lambda s)⟩ := rfl

/-- what a `return true` of one pass guarantees, and nothing more: EITHER the residual recomputed at the
    returned configuration passed the test, OR only the step did (the residual did not). -/
theorem ikBody_done (solve : Solver α) (trig : α → α × α) (m : ModelS α) (tg : List (PointTarget α))
    (stepTol lambda : α) (s s' : IKState α) (h : ikBody solve trig m tg stepTol lambda s = .done s') :
    (s'.Q = s.Q ∧ normLt (ikResidual2 trig m s.w tg s'.Q) stepTol) ∨
    (s'.Q = addStep m.qdotSize s.Q (ikDelta solve trig m tg lambda s) ∧
      normLt (sqNorm m.qdotSize (ikDelta solve trig m tg lambda s)) stepTol ∧
      ¬ normLt (ikResidual2 trig m s.w tg s.Q) stepTol) := by
  rw [ikBody_eq] at h
  split at h
  · next h1 => left; cases h; exact ⟨rfl, h1⟩
  · next h1 =>
    split at h
    · next h2 => right; cases h; exact ⟨rfl, h2, h1⟩
    · cases h

theorem ikBody_next (solve : Solver α) (trig : α → α × α) (m : ModelS α) (tg : List (PointTarget α))
    (stepTol lambda : α) (s s' : IKState α) (h : ikBody solve trig m tg stepTol lambda s = .next s') :
    s'.Q = addStep m.qdotSize s.Q (ikDelta solve trig m tg lambda s) ∧
      ¬ normLt (sqNorm m.qdotSize (ikDelta solve trig m tg lambda s)) stepTol ∧
      ¬ normLt (ikResidual2 trig m s.w tg s.Q) stepTol := by
  rw [ikBody_eq] at h
  split at h
  · cases h
  · next h1 =>
    split at h
    · cases h
    · next h2 => cases h; exact ⟨rfl, h2, h1⟩

/-- every transition leaves the entries of `Qres` at indices `≥ qdot_size` alone -/
theorem ikBody_size (solve : Solver α) (trig : α → α × α) (m : ModelS α) (tg : List (PointTarget α))
    (stepTol lambda : α) (s s' : IKState α)
    (h : ikBody solve trig m tg stepTol lambda s = .done s' ∨ ikBody solve trig m tg stepTol lambda s = .next s')
    (j : Nat) (hj : m.qdotSize ≤ j) : s'.Q j = s.Q j := by
  have key : s'.Q = s.Q ∨ s'.Q = addStep m.qdotSize s.Q (ikDelta solve trig m tg lambda s) := by
    rcases h with h | h
    · rcases ikBody_done solve trig m tg stepTol lambda s s' h with ⟨h1, _⟩ | ⟨h1, _⟩
      · exact Or.inl h1
      · exact Or.inr h1
    · exact Or.inr (ikBody_next solve trig m tg stepTol lambda s s' h).1
  rcases key with e | e
  · rw [e]
  · rw [e]; simp [addStep]; omega

/-! ### `InverseKinematics`, constraint set -/

def ikcsWs (trig : α → α × α) (m : ModelS α) (s : IKCSState α) : WS α :=
  updateKinematicsCustom m s.w (some (mkQS trig s.Q)) none none

/-- the workspace after the assembly of `CS.J`, `CS.e` -/
def ikcsWs' (T : Transc α) (trig : α → α × α) (m : ModelS α) (S : IKSet α) (s : IKCSState α) : WS α :=
  (ikcsAssemble T m (ikcsWs trig m s) (mkQS trig s.Q) S.cons).1

/-- `delta_theta`: `(JᵀJ + Wn) Δ = Jᵀ e` by the black-box solver, in state `s`; does not depend on the
    tolerances -/
def ikcsDelta (solve : Solver α) (T : Transc α) (trig : α → α × α) (m : ModelS α) (S : IKSet α)
    (s : IKCSState α) : VecN α :=
  let A := ikcsAssemble T m (ikcsWs trig m s) (mkQS trig s.Q) S.cons
  let ek := mulT S.numConstraints A.2.1 A.2.2
  vecOf (solve m.qdotSize (dampedJTJ S.numConstraints A.2.1 ek S.lambda) ek)

/-- one pass of the constraint-set solver as a case distinction: the residual is compared with
    `constraint_tol`, the step with `step_tol`; the reported `error_norm` is the residual at the
    configuration the pass STARTED from. -/
theorem ikcsBody_eq (solve : Solver α) (T : Transc α) (trig : α → α × α) (m : ModelS α) (S : IKSet α)
    (s : IKCSState α) :
    ikcsBody solve T trig m S s =
      if normLt (ikcsResidual2 T trig m s.w S s.Q) S.constraintTol then
        .done ⟨ikcsWs' T trig m S s, s.Q, ikcsResidual2 T trig m s.w S s.Q, s.deltaQNorm2⟩
      else if normLt (sqNorm m.qdotSize (ikcsDelta solve T trig m S s)) S.stepTol then
        .done ⟨ikcsWs' T trig m S s, addStep m.qdotSize s.Q (ikcsDelta solve T trig m S s),
               ikcsResidual2 T trig m s.w S s.Q, sqNorm m.qdotSize (ikcsDelta solve T trig m S s)⟩
      else
        .next ⟨ikcsWs' T trig m S s, addStep m.qdotSize s.Q (ikcsDelta solve T trig m S s),
               ikcsResidual2 T trig m s.w S s.Q, sqNorm m.qdotSize (ikcsDelta solve T trig m S s)⟩ := rfl

theorem ikcsBody_done (solve : Solver α) (T : Transc α) (trig : α → α × α) (m : ModelS α) (S : IKSet α)
    (s s' : IKCSState α) (h : ikcsBody solve T trig m S s = .done s') :
    (s'.Q = s.Q ∧ s'.errorNorm2 = ikcsResidual2 T trig m s.w S s'.Q ∧
      normLt s'.errorNorm2 S.constraintTol) ∨
    (s'.Q = addStep m.qdotSize s.Q (ikcsDelta solve T trig m S s) ∧
      s'.deltaQNorm2 = sqNorm m.qdotSize (ikcsDelta solve T trig m S s) ∧
      normLt s'.deltaQNorm2 S.stepTol ∧
      s'.errorNorm2 = ikcsResidual2 T trig m s.w S s.Q ∧ ¬ normLt s'.errorNorm2 S.constraintTol) := by
  rw [ikcsBody_eq] at h
  split at h
  · next h1 => left; cases h; exact ⟨rfl, rfl, h1⟩
  · next h1 =>
    split at h
    · next h2 => right; cases h; exact ⟨rfl, rfl, h2, rfl, h1⟩
    · cases h

theorem ikcsBody_next (solve : Solver α) (T : Transc α) (trig : α → α × α) (m : ModelS α) (S : IKSet α)
    (s s' : IKCSState α) (h : ikcsBody solve T trig m S s = .next s') :
    s'.Q = addStep m.qdotSize s.Q (ikcsDelta solve T trig m S s) ∧
      ¬ normLt (sqNorm m.qdotSize (ikcsDelta solve T trig m S s)) S.stepTol ∧
      ¬ normLt (ikcsResidual2 T trig m s.w S s.Q) S.constraintTol := by
  rw [ikcsBody_eq] at h
  split at h
  · cases h
  · next h1 =>
    split at h
    · cases h
    · next h2 => cases h; exact ⟨rfl, h2, h1⟩

theorem ikcsBody_size (solve : Solver α) (T : Transc α) (trig : α → α × α) (m : ModelS α) (S : IKSet α)
    (s s' : IKCSState α)
    (h : ikcsBody solve T trig m S s = .done s' ∨ ikcsBody solve T trig m S s = .next s')
    (j : Nat) (hj : m.qdotSize ≤ j) : s'.Q j = s.Q j := by
  have key : s'.Q = s.Q ∨ s'.Q = addStep m.qdotSize s.Q (ikcsDelta solve T trig m S s) := by
    rcases h with h | h
    · rcases ikcsBody_done solve T trig m S s s' h with ⟨h1, _⟩ | ⟨h1, _⟩
      · exact Or.inl h1
      · exact Or.inr h1
    · exact Or.inr (ikcsBody_next solve T trig m S s s' h).1
  rcases key with e | e
  · rw [e]
  · rw [e]; simp [addStep]; omega

/-- the residual, the assembled workspace and the step do not depend on the tolerances or `max_steps` -/
theorem ikcs_indep (solve : Solver α) (T : Transc α) (trig : α → α × α) (m : ModelS α) (S : IKSet α)
    (st ct : α) (ms : Nat) (s : IKCSState α) :
    let S' := { S with stepTol := st, constraintTol := ct, maxSteps := ms }
    ikcsResidual2 T trig m s.w S' s.Q = ikcsResidual2 T trig m s.w S s.Q ∧
    ikcsDelta solve T trig m S' s = ikcsDelta solve T trig m S s ∧
    ikcsWs' T trig m S' s = ikcsWs' T trig m S s := ⟨rfl, rfl, rfl⟩

end bodies
end Rbdl.L17
