import RbdlProofs.Lemmas.AbaWF
/-
  C02: `inverseDynamics` run on the workspace that `forwardDynamics` returns (the situation in the
  C++ library, where the workspace is part of the `Model`).  The agreement hypothesis of the tree
  theorem then holds because `jcalc` is idempotent on the joint data it writes.
-/
namespace Rbdl.L02
open Lean.Grind Rbdl
set_option linter.unusedSectionVars false
set_option linter.unusedSimpArgs false

section
variable {α : Type} [Field α] [DecidableEq α]

/-- running `jcalc` twice leaves the same joint data as running it once -/
theorem jcalc_jd_idem (m : ModelS α) (w : WS α) (i : Nat) (st : QS α) (qd : VecN α) :
    jd (jcalc m (jcalc m w i st qd) i st qd) i = jd (jcalc m w i st qd) i := by
  cases h : (m.joint i).jt <;> simp only [jcalc, jd, h, upd_same] <;> rfl

theorem sU_jd (m : ModelS α) (s : WS α) (i : Nat) (tau : VecN α) (j : Nat) :
    jd (sU m s i tau) j = jd s j := by
  unfold sU abaU abaUD jd
  cases m.arity i <;> rfl

theorem sU_X_base (m : ModelS α) (s : WS α) (i : Nat) (tau : VecN α) :
    (sU m s i tau).X_base = s.X_base := by
  unfold sU abaU abaUD
  cases m.arity i <;> rfl

theorem fdB2_jd (m : ModelS α) (tau : VecN α) (i : Nat) (s : WS α) (j : Nat) :
    jd (fdB2 m tau i s) j = jd s j := by
  rw [fdB2_eq]; split <;> exact sU_jd m s i tau j

theorem fdB2_X_base (m : ModelS α) (tau : VecN α) (i : Nat) (s : WS α) :
    (fdB2 m tau i s).X_base = s.X_base := by
  rw [fdB2_eq]; split <;> exact sU_X_base m s i tau

theorem fdB3_jd (m : ModelS α) (i : Nat) (sq : WS α × VecN α) (j : Nat) :
    jd (fdB3 m i sq).1 j = jd sq.1 j := by
  show jd (abaAccel m sq.1 i sq.2).1 j = _
  rw [abaAccel_frame]; rfl

theorem fdB3_X_base (m : ModelS α) (i : Nat) (sq : WS α × VecN α) :
    (fdB3 m i sq).1.X_base = sq.1.X_base := by
  show (abaAccel m sq.1 i sq.2).1.X_base = _
  rw [abaAccel_frame]

/-- invariant of the first loop of `forwardDynamics` for the joint data alone -/
def Jinv (m : ModelS α) (st : QS α) (qd : VecN α) (w : WS α) (i : Nat) (s : WS α) : Prop :=
  (∀ j, i ≤ j → jd s j = jd w j) ∧ (∀ j, 1 ≤ j → j < i → jd s j = jd (jcalc m w j st qd) j)
    ∧ s.X_base 0 = w.X_base 0

theorem fdW1_jd (m : ModelS α) (st : QS α) (qd : VecN α) (fext : Option (Nat → SV α)) (w : WS α) :
    (∀ j, 1 ≤ j → j < m.nBodies → jd (fdW1 m st qd fext w) j = jd (jcalc m w j st qd) j)
      ∧ (fdW1 m st qd fext w).X_base 0 = w.X_base 0 := by
  have h : Jinv m st qd w (1 + (m.nBodies - 1)) (fdW1 m st qd fext w) := by
    refine forUp_inv (Jinv m st qd w) (fdB1 m st qd fext) (m.nBodies - 1) 1 _ ?_ ?_
    · exact ⟨fun j _ => rfl, fun j a b => by omega, rfl⟩
    · intro i s hi1 hi2 h
      refine ⟨?_, ?_, ?_⟩
      · intro j hj
        rw [fdB1_jd_other m st qd fext i s j (by omega)]; exact h.1 j (by omega)
      · intro j hj1 hj2
        by_cases hji : j = i
        · rw [hji, fdB1_jd]
          exact jcalc_jd_congr m s w i st qd (h.1 i (Nat.le_refl _))
        · rw [fdB1_jd_other m st qd fext i s j hji]; exact h.2.1 j hj1 (by omega)
      · rw [fdB1_X_base, upd_other _ _ _ _ (by omega)]; exact h.2.2
  exact ⟨fun j a b => h.2.1 j a (by omega), h.2.2⟩

/-- the joint data and `X_base[0]` in the workspace returned by `forwardDynamics` -/
theorem forwardDynamics_jd (m : ModelS α) (w : WS α) (st : QS α) (qd tau q0 : VecN α)
    (fext : Option (Nat → SV α)) :
    (∀ j, 1 ≤ j → j < m.nBodies →
      jd (forwardDynamics m w st qd tau q0 fext).1 j = jd (jcalc m w j st qd) j)
      ∧ (forwardDynamics m w st qd tau q0 fext).1.X_base 0 = w.X_base 0 := by
  rw [forwardDynamics_stages]
  obtain ⟨h1, h2⟩ := fdW1_jd m st qd fext w
  generalize fdW1 m st qd fext w = w1 at h1 h2 ⊢
  have e3 : ∀ j, jd (fdFin m (fdWB m tau w1) q0).1 j = jd (wBg m (fdWB m tau w1)) j := fun j =>
    forUp_frame (fun sq => jd sq.1 j) (fdB3 m) (fun i sq => fdB3_jd m i sq j) _ _ _
  have e2 : ∀ j, jd (fdWB m tau w1) j = jd w1 j := fun j =>
    forDown_frame (fun s => jd s j) (fdB2 m tau) (fun i s => fdB2_jd m tau i s j) _ _ _
  have x3 : (fdFin m (fdWB m tau w1) q0).1.X_base = (wBg m (fdWB m tau w1)).X_base :=
    forUp_frame (fun sq => sq.1.X_base) (fdB3 m) (fun i sq => fdB3_X_base m i sq) _ _ _
  have x2 : (fdWB m tau w1).X_base = w1.X_base :=
    forDown_frame (fun s => s.X_base) (fdB2 m tau) (fun i s => fdB2_X_base m tau i s) _ _ _
  refine ⟨?_, ?_⟩
  · intro j hj1 hj2
    rw [e3 j]
    show jd (fdWB m tau w1) j = _
    rw [e2 j]; exact h1 j hj1 hj2
  · rw [x3]
    show (fdWB m tau w1).X_base 0 = _
    rw [x2]; exact h2

/-- the agreement hypothesis of the tree theorem for `w2 =` the workspace `forwardDynamics`
    returns -/
theorem forwardDynamics_agree (m : ModelS α) (w : WS α) (st : QS α) (qd tau q0 : VecN α)
    (fext : Option (Nat → SV α)) (j : Nat) (hj1 : 1 ≤ j) (hj2 : j < m.nBodies) :
    jd (jcalc m (forwardDynamics m w st qd tau q0 fext).1 j st qd) j
      = jd (jcalc m w j st qd) j := by
  rw [jcalc_jd_congr m _ (jcalc m w j st qd) j st qd
    ((forwardDynamics_jd m w st qd tau q0 fext).1 j hj1 hj2)]
  exact jcalc_jd_idem m w j st qd

end
end Rbdl.L02
