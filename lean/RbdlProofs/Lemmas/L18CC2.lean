import RbdlProofs.Lemmas.L18CNeg
/-
  C18 at curve level, part 6: curves assembled from corner sections are C2 at every breakpoint;
  the getters return the stored control points.
-/
set_option linter.unusedSectionVars false
namespace Rbdl.Geom
open Lean.Grind Std
/-- all sections of the curve are corner sections (`calcQuinticBezierCornerControlPoints`) between
    consecutive knots `(kx i, ky i)` with slopes `km i`, with the hypotheses of `C18.assemble_C2`:
    the corner lies on the start tangent, and P1 ≠ P0, P4 ≠ P5 -/
def Curve.CornerBuilt {α : Type} [Field α] [Inhabited α] (c : Curve α) (kx ky km : Nat → α) : Prop :=
  ∀ i, i < c.nseg → ∃ xC cv : α,
    c.segX i = (cornerPts xC (kx i) (ky i) (km i) (kx (i+1)) (ky (i+1)) (km (i+1)) cv).1 ∧
    c.segY i = (cornerPts xC (kx i) (ky i) (km i) (kx (i+1)) (ky (i+1)) (km (i+1)) cv).2 ∧
    (xC - kx (i+1)) * km (i+1) + ky (i+1) = ky i + km i * (xC - kx i) ∧
    cv * (xC - kx i) ≠ 0 ∧ cv * (xC - kx (i+1)) ≠ 0
end Rbdl.Geom

namespace Rbdl.L18C
open Lean.Grind Std Rbdl.Geom Rbdl.L18

section corner
variable {α : Type} [Field α] [IsCharP α 0]

/-- code-level version of `C18.corner_start` -/
theorem corner_start_code (xC x0 y0 m0 x1 y1 m1 c : α)
    (hC : (xC - x1)*m1 + y1 = y0 + m0*(xC - x0)) (h0 : c * (xC - x0) ≠ 0) :
    bezVal 0 (cornerPts xC x0 y0 m0 x1 y1 m1 c).1 = x0 ∧
    bezVal 0 (cornerPts xC x0 y0 m0 x1 y1 m1 c).2 = y0 ∧
    derivDYDX 0 (cornerPts xC x0 y0 m0 x1 y1 m1 c).1 (cornerPts xC x0 y0 m0 x1 y1 m1 c).2 1 = m0 ∧
    derivDYDX 0 (cornerPts xC x0 y0 m0 x1 y1 m1 c).1 (cornerPts xC x0 y0 m0 x1 y1 m1 c).2 2 = 0 := by
  refine ⟨?_, ?_, ?_, ?_⟩
  · simp only [cornerPts, bezVal]; grind
  · simp only [cornerPts, bezVal]; grind
  · simp only [cornerPts, derivDYDX, derivDYDX1, derivU, derivU1]; grind
  · simp only [cornerPts, derivDYDX, derivDYDX2, derivU, derivU1, derivU2]; grind

/-- code-level version of `C18.corner_end` -/
theorem corner_end_code (xC x0 y0 m0 x1 y1 m1 c : α) (h1 : c * (xC - x1) ≠ 0) :
    bezVal 1 (cornerPts xC x0 y0 m0 x1 y1 m1 c).1 = x1 ∧
    bezVal 1 (cornerPts xC x0 y0 m0 x1 y1 m1 c).2 = y1 ∧
    derivDYDX 1 (cornerPts xC x0 y0 m0 x1 y1 m1 c).1 (cornerPts xC x0 y0 m0 x1 y1 m1 c).2 1 = m1 ∧
    derivDYDX 1 (cornerPts xC x0 y0 m0 x1 y1 m1 c).1 (cornerPts xC x0 y0 m0 x1 y1 m1 c).2 2 = 0 := by
  refine ⟨?_, ?_, ?_, ?_⟩
  · simp only [cornerPts, bezVal]; grind
  · simp only [cornerPts, bezVal]; grind
  · simp only [cornerPts, derivDYDX, derivDYDX1, derivU, derivU1]; grind
  · simp only [cornerPts, derivDYDX, derivDYDX2, derivU, derivU1, derivU2]; grind
end corner

section getters
variable {α : Type} [Inhabited α]
theorem P6.ofList_toList (p : P6 α) : P6.ofList p.toList = p := rfl
theorem P6.toList_length (p : P6 α) : p.toList.length = 6 := rfl

theorem getCP_row (p : P6 α) : (List.range 6).map (fun j => p.get j) = p.toList := rfl

/-- the getters return all six stored control values of every section -/
theorem getCP_eq [Lean.Grind.Field α] (vecs : List (P6 α)) : Curve.getCP vecs = vecs.map P6.toList := by
  simp only [Curve.getCP, getCP_row]
  apply List.ext_getElem
  · simp
  · intro i h1 h2
    have hi : i < vecs.length := by simpa using h1
    simp [List.getD_eq_getElem?_getD, hi]

theorem map_ofList_getCP [Lean.Grind.Field α] (vecs : List (P6 α)) :
    (Curve.getCP vecs).map P6.ofList = vecs := by
  rw [getCP_eq, List.map_map]
  have : (P6.ofList ∘ P6.toList : P6 α → P6 α) = id := by funext p; rfl
  rw [this, List.map_id]
end getters

section curve
variable {α : Type} [Field α] [Inhabited α] [LE α] [LT α] [LawfulOrderLT α] [IsLinearOrder α]
  [OrderedRing α] [DecidableLT α] [DecidableLE α] [DecidableEq α]

theorem region_mid (c : Curve α) (x : α) (h0 : c.x0 ≤ x) (h1 : x ≤ c.x1) : c.region x = .mid := by
  simp only [Curve.region, ge_iff_le, h0, h1, and_self, if_true]

/-- an interior knot lies inside `[x0, x1]` -/
theorem knot_mid (c : Curve α) (h : c.WF) (i : Nat) (hi : i < c.nseg) :
    c.region (c.segX i).p0 = .mid ∧ c.region (c.segX i).p5 = .mid := by
  have hp := h.pos
  have a : c.x0 ≤ (c.segX i).p0 := by
    rw [h.hx0]
    by_cases e : i = 0
    · subst e; exact Std.le_refl _
    · have := p5_le_p0 c h 0 i (by omega) hi
      have := p0_lt_p5 c h 0 hp
      grind
  have b : (c.segX i).p5 ≤ c.x1 := by
    rw [h.hx1]
    by_cases e : i = c.nseg - 1
    · subst e; exact Std.le_refl _
    · have := p5_le_p0 c h i (c.nseg - 1) (by omega) (by omega)
      have := p0_lt_p5 c h (c.nseg - 1) (by omega)
      grind
  have m := p0_lt_p5 c h i hi
  exact ⟨region_mid c _ a (by grind), region_mid c _ (by grind) b⟩

/-- C2 at an interior knot: value, first and second derivative from the left section at `u = 1` and
    from the right section at `u = 0` agree -/
theorem knot_C2 (c : Curve α) (kx ky km : Nat → α) (h : c.WF) (hb : c.CornerBuilt kx ky km)
    (i : Nat) (hi : i + 1 < c.nseg) :
    c.derivAt (c.segX (i+1)).p0 i 1 0 = c.derivAt (c.segX (i+1)).p0 (i+1) 0 0 ∧
    c.derivAt (c.segX (i+1)).p0 i 1 1 = c.derivAt (c.segX (i+1)).p0 (i+1) 0 1 ∧
    c.derivAt (c.segX (i+1)).p0 i 1 2 = c.derivAt (c.segX (i+1)).p0 (i+1) 0 2 := by
  have hm := (knot_mid c h (i+1) hi).1
  obtain ⟨xa, ca, a1, a2, _, _, a5⟩ := hb i (by omega)
  obtain ⟨xb, cb, b1, b2, b3, b4, _⟩ := hb (i+1) hi
  obtain ⟨_, e2, e3, e4⟩ := corner_end_code xa (kx i) (ky i) (km i) (kx (i+1)) (ky (i+1)) (km (i+1)) ca a5
  obtain ⟨_, s2, s3, s4⟩ := corner_start_code xb (kx (i+1)) (ky (i+1)) (km (i+1)) (kx (i+1+1)) (ky (i+1+1))
    (km (i+1+1)) cb b3 b4
  simp only [Curve.derivAt, Curve.valueAt, hm]
  rw [a1, a2, b1, b2]
  simp only [if_true, e2, e3, e4, s2, s3, s4]
  simp

/-- C2 at `x0`: the first section at `u = 0` has the value, slope and (zero) second derivative of
    the left extrapolation line -/
theorem left_C2 (c : Curve α) (kx ky km : Nat → α) (h : c.WF) (hb : c.CornerBuilt kx ky km) :
    c.derivAt c.x0 0 0 0 = c.y0 + c.dydx0 * (c.x0 - c.x0) ∧ c.derivAt c.x0 0 0 1 = c.dydx0 ∧
    c.derivAt c.x0 0 0 2 = 0 := by
  have hm : c.region c.x0 = .mid := region_mid c _ (Std.le_refl _) (by have := x0_lt_x1 c h; grind)
  obtain ⟨xb, cb, b1, b2, b3, b4, _⟩ := hb 0 h.pos
  obtain ⟨_, _, _, s4⟩ := corner_start_code xb (kx 0) (ky 0) (km 0) (kx (0+1)) (ky (0+1)) (km (0+1)) cb b3 b4
  simp only [Curve.derivAt, Curve.valueAt, hm]
  refine ⟨?_, ?_, ?_⟩
  · simp only [if_true, bezVal_zero, h.hy0]; grind
  · simp [h.hd0]
  · rw [b1, b2]; simp [s4]

/-- C2 at `x1`: the last section at `u = 1` against the right extrapolation line -/
theorem right_C2 (c : Curve α) (kx ky km : Nat → α) (h : c.WF) (hb : c.CornerBuilt kx ky km) :
    c.derivAt c.x1 (c.nseg - 1) 1 0 = c.y1 + c.dydx1 * (c.x1 - c.x1) ∧
    c.derivAt c.x1 (c.nseg - 1) 1 1 = c.dydx1 ∧ c.derivAt c.x1 (c.nseg - 1) 1 2 = 0 := by
  have hp := h.pos
  have hm : c.region c.x1 = .mid := region_mid c _ (by have := x0_lt_x1 c h; grind) (Std.le_refl _)
  obtain ⟨xa, ca, a1, a2, _, _, a5⟩ := hb (c.nseg - 1) (by omega)
  obtain ⟨_, _, _, e4⟩ := corner_end_code xa (kx (c.nseg - 1)) (ky (c.nseg - 1)) (km (c.nseg - 1))
    (kx (c.nseg - 1 + 1)) (ky (c.nseg - 1 + 1)) (km (c.nseg - 1 + 1)) ca a5
  simp only [Curve.derivAt, Curve.valueAt, hm]
  refine ⟨?_, ?_, ?_⟩
  · simp only [if_true, bezVal_one, h.hy1]; grind
  · simp [h.hd1]
  · rw [a1, a2]; simp [e4]
end curve
end Rbdl.L18C
