import RbdlProofs.Lemmas.Loops
import RbdlProofs.Props.C16
import RbdlProofs.Lemmas.Kin04
import RbdlProofs.Lemmas.L12
/-
  Helper definitions and lemmas for C01 (the force side of inverse dynamics), all in `Rbdl.L01`.

  * Algebra: `comAccel`, `newtonEuler`
  * Generic: backward accumulation with a side output (`bwdOut_eq`), writes to pairwise disjoint
    index sets (`foldl_writes_mem`, `foldl_writes_not_mem`)
  * Tau / Bwd / Bwd2: `tauWrite_apply`, `rneaFtot`, `rneaBackward_eq`, `rneaFtot_rec`, `owns`,
    `tauLoop_owned`, `tauLoop_free`
  * WFq: coordinate ranges of a well-formed model (`owns_disjoint_of_WF`, `owns_cover_of_WF`)
  * Jcalc / Rows: `jcalc` reads and writes row `i` only (`jcalc_*_local`, `jcalc_keep`, `jcalc_congr`,
    `row`, `jcalc_row_other`), `CustomInj`
  * Steps … FwdAll: the forward pass of `inverseDynamics` as named loops (`idForward`), its closed
    form `FwdClosed` / `ForceClosed` (`idForward_closed`)
  * NE …: `nonlinearEffects` as named loops (`neForward`), the `jcalc` sweep (`jfold_row`),
    `neForward_closed`
  * Unique / BwdCongr: the recursion determines what the backward pass reads (`fwd_unique`),
    `rneaBackward_congr`
  * WSJdef / WSJx: the construction-time workspace entries (`WSJ`, `JointOK`), independence of the
    entry workspace (`jcalc_WSJ_indep`), explicit fixed-axis data
  * T5: `ne_eq_id0`;  Subtree / DAlembert / PathX / Filter: subtree sums unfolded along paths
    (`bwd_subtree_sum`, `upTo`, `downTo`, `dot_rneaFtot`, `pathX`, `inSub`)
  Concrete instances: L01Ex.lean.
-/
namespace Rbdl.L01
open Lean.Grind Rbdl Rbdl.Loops

section Algebra
variable {α : Type} [CommRing α]

/-- acceleration of the centre of mass `c` (body coordinates) of a body with spatial velocity
    `(ω, vO)` and spatial acceleration `(ω̇, aO)`:  `aO + ω̇ × c + ω × (vO + ω × c)` -/
def comAccel (c : V3 α) (v a : SV α) : V3 α :=
  a.v + a.w.cross c + v.w.cross (v.v + v.w.cross c)

/-- Newton–Euler wrench about the body origin: `⟨Ic ω̇ + ω × Ic ω + c × (m a_c), m a_c⟩` -/
def newtonEuler (mass : α) (c : V3 α) (Ic : M3 α) (v a : SV α) : SV α :=
  ⟨Ic * a.w + v.w.cross (Ic * v.w) + c.cross (mass * comAccel c v a), mass * comAccel c v a⟩

attribute [alg] comAccel newtonEuler

end Algebra

section Generic

/-- backward accumulation with a side output: iteration `i` first consumes the current value of
    entry `i` (which is already final), then updates the parent -/
def bwdOutBody {β γ : Type} (lam : Nat → Nat) (G : Nat → β → β → β) (W : Nat → β → γ → γ)
    (i : Nat) (s : (Nat → β) × γ) : (Nat → β) × γ :=
  (bwdBody lam G i s.1, W i (s.1 i) s.2)

theorem bwdOut_eq {β γ : Type} (lam : Nat → Nat) (G : Nat → β → β → β) (W : Nat → β → γ → γ)
    (cnt hi : Nat) (hc : cnt ≤ hi) (htree : ∀ c, 1 ≤ c → c ≤ hi → lam c < c)
    (acc : Nat → β) (out : γ) :
    forDown cnt hi (bwdOutBody lam G W) (acc, out) =
      (forDown cnt hi (bwdBody lam G) acc,
       forDown cnt hi (fun i o => W i (forDown cnt hi (bwdBody lam G) acc i) o) out) := by
  induction cnt generalizing hi acc out with
  | zero => rfl
  | succ k ih =>
    have hl := htree hi (by omega) (Nat.le_refl _)
    have htree' : ∀ c, 1 ≤ c → c ≤ hi - 1 → lam c < c := fun c h1 h2 => htree c h1 (by omega)
    have hfin : forDown k (hi - 1) (bwdBody lam G) (bwdBody lam G hi acc) hi = acc hi := by
      rw [bwd_outside lam G k (hi - 1) (by omega) htree' _ hi (by omega)]
      unfold bwdBody
      split
      · rw [upd_other _ _ _ _ (by omega)]
      · rfl
    rw [forDown]
    show forDown k (hi - 1) (bwdOutBody lam G W) (bwdBody lam G hi acc, W hi (acc hi) out) = _
    rw [ih (hi - 1) (by omega) htree']
    simp only [forDown]
    rw [hfin]

/-- writes to pairwise disjoint index sets: `wr i t` overwrites the entries `x` with `R i x` by
    `val i x` and leaves the others; after any sequence `l` of writes an entry holds the value of
    the (unique) writer in `l` that owns it -/
theorem foldl_writes_mem {γ : Type} (wr : Nat → (Nat → γ) → Nat → γ) (R : Nat → Nat → Prop)
    (val : Nat → Nat → γ)
    (hin : ∀ i t x, R i x → wr i t x = val i x) (hout : ∀ i t x, ¬ R i x → wr i t x = t x)
    (l : List Nat) (i x : Nat) (hR : R i x) (huniq : ∀ j ∈ l, R j x → j = i)
    (t0 : Nat → γ) (h0 : t0 x = val i x ∨ i ∈ l) :
    l.foldl (fun t i => wr i t) t0 x = val i x := by
  induction l generalizing t0 with
  | nil =>
    rcases h0 with h | h
    · exact h
    · cases h
  | cons j l ih =>
    rw [List.foldl_cons]
    apply ih (fun j' hj' => huniq j' (List.mem_cons_of_mem _ hj'))
    by_cases hj : R j x
    · have := huniq j (List.mem_cons_self ..) hj
      subst this
      left; exact hin _ _ _ hj
    · rcases h0 with h | h
      · left; rw [hout _ _ _ hj]; exact h
      · rcases List.mem_cons.1 h with e | e
        · subst e; exact absurd hR hj
        · right; exact e

theorem foldl_writes_not_mem {γ : Type} (wr : Nat → (Nat → γ) → Nat → γ) (R : Nat → Nat → Prop)
    (hout : ∀ i t x, ¬ R i x → wr i t x = t x)
    (l : List Nat) (x : Nat) (hno : ∀ j ∈ l, ¬ R j x) (t0 : Nat → γ) :
    l.foldl (fun t i => wr i t) t0 x = t0 x := by
  induction l generalizing t0 with
  | nil => rfl
  | cons j l ih =>
    rw [List.foldl_cons, ih (fun j' hj' => hno j' (List.mem_cons_of_mem _ hj'))]
    exact hout _ _ _ (hno j (List.mem_cons_self ..))

end Generic

section Tau
variable {α : Type} [Field α]

omit [Field α] in
theorem zipWrite {β : Type} (d : β) (cols : List β) (s k : Nat) (g : β → α) (tau : VecN α) (x : Nat) :
    (cols.zip (List.range' s cols.length)).foldl (fun t p => upd t (k + p.2) (g p.1)) tau x
      = if k + s ≤ x ∧ x < k + s + cols.length then g (cols.getD (x - k - s) d) else tau x := by
  induction cols generalizing s tau with
  | nil => 
    rw [if_neg (by simp only [List.length_nil]; omega)]; rfl
  | cons c cs ih =>
    simp only [List.length_cons, List.range'_succ, List.zip_cons_cons, List.foldl_cons]
    rw [ih]
    by_cases h1 : k + (s + 1) ≤ x ∧ x < k + (s + 1) + cs.length
    · rw [if_pos h1, if_pos (by omega)]
      have : x - k - s = (x - k - (s + 1)) + 1 := by omega
      rw [this, List.getD_cons_succ]
    · rw [if_neg h1]
      by_cases h2 : x = k + s
      · subst h2
        rw [upd_same, if_pos (by omega)]
        have : k + s - k - s = 0 := by omega
        rw [this]; rfl
      · rw [upd_other _ _ _ _ h2, if_neg (by omega)]

/-- `tauWrite` of joint `i` overwrites exactly the entries `qIndex i + j`, `j <` number of columns
    of `S_i`, with `S_i(:,j) · f` -/
theorem tauWrite_apply (w : WS α) (m : ModelS α) (i : Nat) (f : SV α) (tau : VecN α) (x : Nat) :
    w.tauWrite m i f tau x =
      if (m.joint i).qIndex ≤ x ∧ x < (m.joint i).qIndex + (w.Scols m i).length then
        ((w.Scols m i).getD (x - (m.joint i).qIndex) SV.zero).dot f
      else tau x := by
  cases h : m.arity i
  · -- one
    have hS : w.Scols m i = [w.S i] := by unfold WS.Scols; rw [h]
    have hT : w.tauWrite m i f tau = upd tau (m.joint i).qIndex ((w.S i).dot f) := by
      unfold WS.tauWrite; rw [h]
    rw [hS, hT]
    by_cases hx : x = (m.joint i).qIndex
    · subst hx; rw [upd_same, if_pos (by simp)]; simp
    · rw [upd_other _ _ _ _ hx, if_neg (by simp only [List.length_cons, List.length_nil]; omega)]
  · -- three
    have hS : w.Scols m i = [(w.S3 i).c0, (w.S3 i).c1, (w.S3 i).c2] := by
      unfold WS.Scols; rw [h]; rfl
    have hT : w.tauWrite m i f tau = upd (upd (upd tau (m.joint i).qIndex ((w.S3 i).c0.dot f))
        ((m.joint i).qIndex + 1) ((w.S3 i).c1.dot f)) ((m.joint i).qIndex + 2) ((w.S3 i).c2.dot f) := by
      unfold WS.tauWrite; rw [h]; rfl
    rw [hS, hT]
    simp only [List.length_cons, List.length_nil]
    by_cases h0 : x = (m.joint i).qIndex
    · subst h0
      rw [upd_other _ _ _ _ (by omega), upd_other _ _ _ _ (by omega), upd_same, if_pos (by omega)]
      simp
    · by_cases h1 : x = (m.joint i).qIndex + 1
      · subst h1
        rw [upd_other _ _ _ _ (by omega), upd_same, if_pos (by omega)]
        simp
      · by_cases h2 : x = (m.joint i).qIndex + 2
        · subst h2
          rw [upd_same, if_pos (by omega)]
          simp
        · rw [upd_other _ _ _ _ h2, upd_other _ _ _ _ h1, upd_other _ _ _ _ h0, if_neg (by omega)]
  · -- custom
    have hS : w.Scols m i = w.cS (m.joint i).customIdx := by unfold WS.Scols; rw [h]
    have hT : w.tauWrite m i f tau = 
        ((w.cS (m.joint i).customIdx).zip (List.range (w.cS (m.joint i).customIdx).length)).foldl
          (fun t p => upd t ((m.joint i).qIndex + p.2) (p.1.dot f)) tau := by
      unfold WS.tauWrite; rw [h]
    rw [hS, hT]
    have := zipWrite SV.zero (w.cS (m.joint i).customIdx) 0 (m.joint i).qIndex (fun c => c.dot f) tau x
    rw [← List.range_eq_range'] at this
    rw [this]
    simp only [Nat.add_zero, Nat.sub_zero]
  · have hS : w.Scols m i = [] := by unfold WS.Scols; rw [h]
    have hT : w.tauWrite m i f tau = tau := by unfold WS.tauWrite; rw [h]
    rw [hS, hT, if_neg (by simp only [List.length_nil]; omega)]

end Tau

section Bwd
variable {α : Type} [Field α]

/-- the accumulated (subtree) forces: the `f` array after the backward pass -/
def rneaFtot (m : ModelS α) (w : WS α) : Nat → SV α :=
  forDown (m.nBodies - 1) (m.nBodies - 1)
    (bwdBody m.lam (fun c a x => a + (w.X_lambda c).applyTranspose x)) w.f

/-- the backward pass as a pair of loops: the force accumulation (which does not depend on `tau`)
    and the `tau` writes with the accumulated forces -/
theorem rneaBackward_eq (m : ModelS α) (w : WS α) (tau : VecN α)
    (htree : ∀ i, 1 ≤ i → i < m.nBodies → m.lam i < i) :
    rneaBackward m w tau =
      ({ w with f := rneaFtot m w },
       forDown (m.nBodies - 1) (m.nBodies - 1)
         (fun i t => w.tauWrite m i (rneaFtot m w i) t) tau) := by
  have hsim := forDown_sim
    (fun (s : WS α × VecN α) (t : (Nat → SV α) × VecN α) => s.1 = { w with f := t.1 } ∧ s.2 = t.2)
    (fun i (s : WS α × VecN α) =>
      let (w, tau) := s
      let tau := w.tauWrite m i (w.f i) tau
      let lam := m.lam i
      if lam ≠ 0 then
        ({ w with f := upd w.f lam (w.f lam + (w.X_lambda i).applyTranspose (w.f i)) }, tau)
      else (w, tau))
    (bwdOutBody m.lam (fun c a x => a + (w.X_lambda c).applyTranspose x)
      (fun i f t => w.tauWrite m i f t))
    (m.nBodies - 1) (m.nBodies - 1)
    (fun i s t _ _ h => by
      obtain ⟨w', tau'⟩ := s
      obtain ⟨acc, out⟩ := t
      obtain ⟨h1, h2⟩ := h
      dsimp only at h1 h2
      subst h1 h2
      dsimp only [bwdOutBody, bwdBody]
      split
      · exact ⟨rfl, rfl⟩
      · exact ⟨rfl, rfl⟩)
    (w, tau) (w.f, tau) ⟨rfl, rfl⟩
  rw [bwdOut_eq _ _ _ _ _ (Nat.le_refl _) (fun c h1 h2 => htree c h1 (by omega))] at hsim
  obtain ⟨h1, h2⟩ := hsim
  exact Prod.ext h1 h2

end Bwd

section Bwd2
variable {α : Type} [Field α]

/-- (subtree sum) `Ftot_i = F_i + Σ_{c : λ c = i} X_λ_cᵀ Ftot_c` -/
theorem rneaFtot_rec (m : ModelS α) (w : WS α)
    (htree : ∀ i, 1 ≤ i → i < m.nBodies → m.lam i < i) (i : Nat) (hi : i ≠ 0) :
    rneaFtot m w i = w.f i + lsum SV.zero
      (fun c => (w.X_lambda c).applyTranspose (rneaFtot m w c))
      (childrenOf m.lam (m.nBodies - 1) i) :=
  bwd_sum m.lam (fun c x => (w.X_lambda c).applyTranspose x) L12.sv_addLaws (m.nBodies - 1)
    (fun c h1 h2 => htree c h1 (by omega)) w.f i hi

/-- entries `0` and `≥ nBodies - 1` of `f` are not touched (a leaf keeps its own force) -/
theorem rneaFtot_outside (m : ModelS α) (w : WS α)
    (htree : ∀ i, 1 ≤ i → i < m.nBodies → m.lam i < i) (i : Nat)
    (hi : i = 0 ∨ m.nBodies - 1 ≤ i) : rneaFtot m w i = w.f i :=
  bwd_outside m.lam _ (m.nBodies - 1) (m.nBodies - 1) (Nat.le_refl _)
    (fun c h1 h2 => htree c h1 (by omega)) w.f i hi

/-- joint `i` owns the entry `x` of `tau` -/
def owns (m : ModelS α) (w : WS α) (i x : Nat) : Prop :=
  (m.joint i).qIndex ≤ x ∧ x < (m.joint i).qIndex + (w.Scols m i).length

/-- the value joint `i` writes to an entry it owns -/
def tauVal (m : ModelS α) (w : WS α) (F : Nat → SV α) (i x : Nat) : α :=
  ((w.Scols m i).getD (x - (m.joint i).qIndex) SV.zero).dot (F i)

theorem tauWrite_owned (w : WS α) (m : ModelS α) (F : Nat → SV α) (i : Nat) (tau : VecN α)
    (x : Nat) (h : owns m w i x) : w.tauWrite m i (F i) tau x = tauVal m w F i x := by
  unfold owns at h
  rw [tauWrite_apply, if_pos h]; rfl

/-- iteration `i` leaves the entries of the other joints alone -/
theorem tauWrite_not_owned (w : WS α) (m : ModelS α) (f : SV α) (i : Nat) (tau : VecN α) (x : Nat)
    (h : ¬ owns m w i x) : w.tauWrite m i f tau x = tau x := by
  unfold owns at h
  rw [tauWrite_apply, if_neg h]

/-- the `tau` loop of the backward pass, as a fold over `n, n-1, …, 1` -/
def tauLoop (m : ModelS α) (w : WS α) (F : Nat → SV α) (tau : VecN α) : VecN α :=
  forDown (m.nBodies - 1) (m.nBodies - 1) (fun i t => w.tauWrite m i (F i) t) tau

theorem tauLoop_owned (m : ModelS α) (w : WS α) (F : Nat → SV α) (tau : VecN α)
    (hdisj : ∀ i j x, 1 ≤ i → i < m.nBodies → 1 ≤ j → j < m.nBodies →
      owns m w i x → owns m w j x → i = j)
    (i x : Nat) (h1 : 1 ≤ i) (h2 : i < m.nBodies) (ho : owns m w i x) :
    tauLoop m w F tau x = tauVal m w F i x := by
  unfold tauLoop
  rw [forDown_eq_foldl, desc_self]
  refine foldl_writes_mem (fun i t => w.tauWrite m i (F i) t) (owns m w) (tauVal m w F)
    (fun i t x h => tauWrite_owned w m F i t x h) (fun i t x h => tauWrite_not_owned w m _ i t x h)
    _ i x ho (fun j hj hjx => ?_) tau (Or.inr ?_)
  · rw [List.mem_reverse, List.mem_range'_1] at hj
    exact hdisj j i x hj.1 (by omega) h1 h2 hjx ho
  · rw [List.mem_reverse, List.mem_range'_1]; omega

theorem tauLoop_free (m : ModelS α) (w : WS α) (F : Nat → SV α) (tau : VecN α) (x : Nat)
    (hno : ∀ i, 1 ≤ i → i < m.nBodies → ¬ owns m w i x) :
    tauLoop m w F tau x = tau x := by
  unfold tauLoop
  rw [forDown_eq_foldl, desc_self]
  refine foldl_writes_not_mem (fun i t => w.tauWrite m i (F i) t) (owns m w)
    (fun i t x h => tauWrite_not_owned w m _ i t x h) _ x (fun j hj => ?_) tau
  rw [List.mem_reverse, List.mem_range'_1] at hj
  exact hno j hj.1 (by omega)

end Bwd2

section WFq
variable {α : Type} [Field α]

/-- in a well-formed model the coordinate ranges are ordered by body index -/
theorem qIndex_mono (m : ModelS α) (hwf : m.WF) (i j : Nat) (hij : i < j) (hj : j < m.nBodies) :
    (m.joint i).qIndex + (m.joint i).dof ≤ (m.joint j).qIndex := by
  induction j with
  | zero => omega
  | succ j ih =>
    have hc := hwf.q_contig j hj
    by_cases h : i = j
    · subst h; omega
    · have := ih (by omega) (by omega); omega

omit [Field α] in
/-- number of `tau` entries joint `i` writes = its number of degrees of freedom, for the
    supported arities (custom joints: when the workspace holds a full `S`) -/
theorem scols_length (m : ModelS α) (w : WS α) (i : Nat) (ha : m.arity i ≠ .other)
    (hc : (m.joint i).jt = .custom → (w.cS (m.joint i).customIdx).length = (m.joint i).dof) :
    (w.Scols m i).length = (m.joint i).dof := by
  unfold WS.Scols
  unfold ModelS.arity at ha ⊢
  dsimp only at ha ⊢
  split at ha <;> rename_i h1
  · rw [if_pos h1]; exact hc h1
  · rw [if_neg h1] 
    split at ha <;> rename_i h2
    · rw [if_pos h2]; simp [h2]
    · rw [if_neg h2]
      split at ha <;> rename_i h3
      · rw [if_pos h3]; simp [h3, M63.cols]
      · exact absurd rfl ha

theorem owns_disjoint_of_WF (m : ModelS α) (w : WS α) (hwf : m.WF)
    (hlen : ∀ i, 1 ≤ i → i < m.nBodies → (w.Scols m i).length = (m.joint i).dof) :
    ∀ i j x, 1 ≤ i → i < m.nBodies → 1 ≤ j → j < m.nBodies →
      owns m w i x → owns m w j x → i = j := by
  intro i j x hi1 hi2 hj1 hj2 hoi hoj
  unfold owns at hoi hoj
  rw [hlen i hi1 hi2] at hoi
  rw [hlen j hj1 hj2] at hoj
  rcases Nat.lt_trichotomy i j with h | h | h
  · have := qIndex_mono m hwf i j h hj2; omega
  · exact h
  · have := qIndex_mono m hwf j i h hi2; omega

theorem owns_cover_of_WF (m : ModelS α) (w : WS α) (hwf : m.WF)
    (hlen : ∀ i, 1 ≤ i → i < m.nBodies → (w.Scols m i).length = (m.joint i).dof)
    (x : Nat) (hx : x < m.dofCount) : ∃ i, 1 ≤ i ∧ i < m.nBodies ∧ owns m w i x := by
  have key : ∀ j, j < m.nBodies → x < (m.joint j).qIndex + (m.joint j).dof →
      ∃ i, 1 ≤ i ∧ i < m.nBodies ∧ owns m w i x := by
    intro j
    induction j with
    | zero =>
      intro _ h
      rw [hwf.joint_zero] at h
      simp [Joint.root] at h
    | succ j ih =>
      intro hj h
      have hc := hwf.q_contig j hj
      by_cases hlt : x < (m.joint j).qIndex + (m.joint j).dof
      · exact ih (by omega) hlt
      · refine ⟨j + 1, by omega, hj, ?_⟩
        unfold owns
        rw [hlen (j + 1) (by omega) hj]
        omega
  have hnb := hwf.nb_pos
  exact key (m.nBodies - 1) (by omega) (by rw [hwf.q_last]; exact hx)

end WFq

section Jcalc
variable {α : Type} [Field α]

theorem jcalc_v_J_local (m : ModelS α) (w : WS α) (i : Nat) (st : QS α) (qd : VecN α) :
    (jcalc m w i st qd).v_J = upd w.v_J i ((jcalc m w i st qd).v_J i) := by
  unfold jcalc
  dsimp only
  cases h : (m.joint i).jt <;> simp only [upd_self, upd_same]

theorem jcalc_c_J_local (m : ModelS α) (w : WS α) (i : Nat) (st : QS α) (qd : VecN α) :
    (jcalc m w i st qd).c_J = upd w.c_J i ((jcalc m w i st qd).c_J i) := by
  unfold jcalc
  dsimp only
  cases h : (m.joint i).jt <;> simp only [upd_self, upd_same]

theorem jcalc_S_local (m : ModelS α) (w : WS α) (i : Nat) (st : QS α) (qd : VecN α) :
    (jcalc m w i st qd).S = upd w.S i ((jcalc m w i st qd).S i) := by
  unfold jcalc
  dsimp only
  cases h : (m.joint i).jt <;> simp only [upd_self, upd_same]

theorem jcalc_S3_local (m : ModelS α) (w : WS α) (i : Nat) (st : QS α) (qd : VecN α) :
    (jcalc m w i st qd).S3 = upd w.S3 i ((jcalc m w i st qd).S3 i) := by
  unfold jcalc
  dsimp only
  cases h : (m.joint i).jt <;> simp only [upd_self, upd_same]

theorem jcalc_cS (m : ModelS α) (w : WS α) (i : Nat) (st : QS α) (qd : VecN α) :
    (jcalc m w i st qd).cS =
      if (m.joint i).jt = .custom then
        upd w.cS (m.joint i).customIdx
          (customCalc (m.custom (m.joint i).customIdx) (m.joint i).qIndex st qd).2.1
      else w.cS := by
  unfold jcalc
  dsimp only
  cases h : (m.joint i).jt <;> simp

/-- the fields `jcalc` never writes -/
theorem jcalc_keep {τ : Type} (view : WS α → τ)
    (hv : ∀ (w : WS α) X vJ cJ S S3 cS,
      view { w with X_lambda := X, v_J := vJ, c_J := cJ, S := S, S3 := S3, cS := cS } = view w)
    (m : ModelS α) (w : WS α) (i : Nat) (st : QS α) (qd : VecN α) :
    view (jcalc m w i st qd) = view w := by
  unfold jcalc
  dsimp only
  cases h : (m.joint i).jt <;> first | rfl | exact hv w _ _ _ _ _ _

end Jcalc

section Rows
variable {α : Type} [Field α]

/-- distinct custom joints use distinct slots of the custom-joint workspace (as in the C++, where
    every `AddBodyCustomJoint` registers a new custom joint) -/
def CustomInj (m : ModelS α) : Prop :=
  ∀ i j, (m.joint i).jt = .custom → (m.joint j).jt = .custom →
    (m.joint i).customIdx = (m.joint j).customIdx → i = j

/-- everything the dynamics loops keep per body -/
structure Row (α : Type) where
  X : XT α
  vJ : SV α
  cJ : SV α
  S : SV α
  S3 : M63 α
  cS : List (SV α)
  v : SV α
  c : SV α
  a : SV α
  f : SV α
  Xb : XT α

/-- row `j` of the workspace (the custom-joint `S` is looked up through the joint) -/
def row (m : ModelS α) (W : WS α) (j : Nat) : Row α :=
  ⟨W.X_lambda j, W.v_J j, W.c_J j, W.S j, W.S3 j,
   if (m.joint j).jt = .custom then W.cS (m.joint j).customIdx else [],
   W.v j, W.c j, W.a j, W.f j, W.X_base j⟩

theorem jcalc_row_other (m : ModelS α) (hc : CustomInj m) (w : WS α) (i : Nat) (st : QS α)
    (qd : VecN α) (j : Nat) (hj : j ≠ i) : row m (jcalc m w i st qd) j = row m w j := by
  have h1 : (jcalc m w i st qd).X_lambda j = w.X_lambda j := by
    rw [jcalc_X_lambda, upd_other _ _ _ _ hj]
  have h2 : (jcalc m w i st qd).v_J j = w.v_J j := by
    rw [jcalc_v_J_local, upd_other _ _ _ _ hj]
  have h3 : (jcalc m w i st qd).c_J j = w.c_J j := by
    rw [jcalc_c_J_local, upd_other _ _ _ _ hj]
  have h4 : (jcalc m w i st qd).S j = w.S j := by
    rw [jcalc_S_local, upd_other _ _ _ _ hj]
  have h5 : (jcalc m w i st qd).S3 j = w.S3 j := by
    rw [jcalc_S3_local, upd_other _ _ _ _ hj]
  have h6 : (if (m.joint j).jt = .custom then (jcalc m w i st qd).cS (m.joint j).customIdx else [])
      = (if (m.joint j).jt = .custom then w.cS (m.joint j).customIdx else []) := by
    split
    · rename_i hjc
      rw [jcalc_cS]
      split
      · rename_i hic
        rw [upd_other]
        intro e
        exact hj (hc j i hjc hic e)
      · rfl
    · rfl
  unfold row
  rw [h1, h2, h3, h4, h5, h6]
  rw [jcalc_keep (fun w => w.v) (fun _ _ _ _ _ _ _ => rfl),
    jcalc_keep (fun w => w.c) (fun _ _ _ _ _ _ _ => rfl),
    jcalc_keep (fun w => w.a) (fun _ _ _ _ _ _ _ => rfl),
    jcalc_keep (fun w => w.f) (fun _ _ _ _ _ _ _ => rfl),
    jcalc_keep (fun w => w.X_base) (fun _ _ _ _ _ _ _ => rfl)]

/-- `jcalc` for joint `i` reads only row `i` -/
theorem jcalc_congr (m : ModelS α) (w w' : WS α) (i : Nat) (st : QS α) (qd : VecN α)
    (hX : w.X_lambda i = w'.X_lambda i) (hvJ : w.v_J i = w'.v_J i) (hcJ : w.c_J i = w'.c_J i)
    (hS : w.S i = w'.S i) (hS3 : w.S3 i = w'.S3 i) :
    (jcalc m w i st qd).X_lambda i = (jcalc m w' i st qd).X_lambda i ∧
    (jcalc m w i st qd).v_J i = (jcalc m w' i st qd).v_J i ∧
    (jcalc m w i st qd).c_J i = (jcalc m w' i st qd).c_J i ∧
    (jcalc m w i st qd).S i = (jcalc m w' i st qd).S i ∧
    (jcalc m w i st qd).S3 i = (jcalc m w' i st qd).S3 i := by
  unfold jcalc
  dsimp only
  cases h : (m.joint i).jt <;> simp only [upd_same, hX, hvJ, hcJ, hS, hS3, and_self]

end Rows

section Steps
variable {α : Type} [Field α]

/-- `v[i] = X_λ[i].apply(v[λ i]) + v_J[i]` -/
def stepV (m : ModelS α) (i : Nat) (w : WS α) : WS α :=
  { w with v := upd w.v i ((w.X_lambda i).apply (w.v (m.lam i)) + w.v_J i) }
/-- `c[i] = c_J[i] + v[i] ×ₘ v_J[i]` -/
def stepC (i : Nat) (w : WS α) : WS α :=
  { w with c := upd w.c i (w.c_J i + crossm (w.v i) (w.v_J i)) }
/-- `a[i] = X_λ[i].apply(a[λ i]) + c[i] + S_i q̈_i` (not for joints of unsupported arity) -/
def stepA (m : ModelS α) (qdd : VecN α) (i : Nat) (w : WS α) : WS α :=
  match m.arity i with
  | .other => w
  | _ => { w with a := upd w.a i ((w.X_lambda i).apply (w.a (m.lam i)) + w.c i + w.Sqdd m i qdd) }
/-- `f[i] = I_i a_i + v_i ×* I_i v_i` -/
def stepF (m : ModelS α) (i : Nat) (w : WS α) : WS α :=
  { w with f := upd w.f i (bodyForce m w i) }

/-- body of the first loop of `inverseDynamics` -/
def idFwdBody (m : ModelS α) (st : QS α) (qd qdd : VecN α) (i : Nat) (w : WS α) : WS α :=
  stepF m i (stepA m qdd i (stepC i (stepV m i (jcalc m w i st qd))))

/-- body of the external-force loop of `inverseDynamics` -/
def idExtBody (m : ModelS α) (fe : Nat → SV α) (i : Nat) (w : WS α) : WS α :=
  let w := { w with X_base := upd w.X_base i (w.X_lambda i * w.X_base (m.lam i)) }
  { w with f := upd w.f i (w.f i - (w.X_base i).applyAdjoint (fe i)) }

/-- the workspace with the root velocity / acceleration set -/
def idInit (m : ModelS α) (w : WS α) : WS α :=
  { w with v := upd w.v 0 SV.zero, a := upd w.a 0 (spatialGravityNeg m) }

/-- the workspace after the first forward loop of `inverseDynamics` -/
def idForward1 (m : ModelS α) (w : WS α) (st : QS α) (qd qdd : VecN α) : WS α :=
  forUp (m.nBodies - 1) 1 (idFwdBody m st qd qdd) (idInit m w)

/-- the workspace `inverseDynamics` hands to the backward pass -/
def idForward (m : ModelS α) (w : WS α) (st : QS α) (qd qdd : VecN α)
    (fext : Option (Nat → SV α)) : WS α :=
  match fext with
  | none => idForward1 m w st qd qdd
  | some fe => forUp (m.nBodies - 1) 1 (idExtBody m fe) (idForward1 m w st qd qdd)

theorem inverseDynamics_eq (m : ModelS α) (w : WS α) (st : QS α) (qd qdd tau : VecN α)
    (fext : Option (Nat → SV α)) :
    inverseDynamics m w st qd qdd tau fext = rneaBackward m (idForward m w st qd qdd fext) tau := by
  cases fext <;> rfl

theorem stepV_row_other (m : ModelS α) (i : Nat) (w : WS α) (j : Nat) (hj : j ≠ i) :
    row m (stepV m i w) j = row m w j := by
  unfold row stepV; dsimp only; rw [upd_other _ _ _ _ hj]
theorem stepC_row_other (m : ModelS α) (i : Nat) (w : WS α) (j : Nat) (hj : j ≠ i) :
    row m (stepC i w) j = row m w j := by
  unfold row stepC; dsimp only; rw [upd_other _ _ _ _ hj]
theorem stepA_row_other (m : ModelS α) (qdd : VecN α) (i : Nat) (w : WS α) (j : Nat) (hj : j ≠ i) :
    row m (stepA m qdd i w) j = row m w j := by
  unfold stepA; split
  · rfl
  · unfold row; dsimp only; rw [upd_other _ _ _ _ hj]
theorem stepF_row_other (m : ModelS α) (i : Nat) (w : WS α) (j : Nat) (hj : j ≠ i) :
    row m (stepF m i w) j = row m w j := by
  unfold row stepF; dsimp only; rw [upd_other _ _ _ _ hj]

theorem idFwdBody_row_other (m : ModelS α) (hc : CustomInj m) (st : QS α) (qd qdd : VecN α)
    (i : Nat) (w : WS α) (j : Nat) (hj : j ≠ i) :
    row m (idFwdBody m st qd qdd i w) j = row m w j := by
  unfold idFwdBody
  rw [stepF_row_other _ _ _ _ hj, stepA_row_other _ _ _ _ _ hj, stepC_row_other _ _ _ _ hj,
    stepV_row_other _ _ _ _ hj, jcalc_row_other m hc _ _ _ _ _ hj]

theorem idExtBody_row_other (m : ModelS α) (fe : Nat → SV α) (i : Nat) (w : WS α) (j : Nat)
    (hj : j ≠ i) : row m (idExtBody m fe i w) j = row m w j := by
  unfold row idExtBody; dsimp only; rw [upd_other _ _ _ _ hj, upd_other _ _ _ _ hj]

end Steps

section RowDet
variable {α : Type} [Field α]

omit [Field α] in
theorem arity_custom_iff (m : ModelS α) (i : Nat) :
    m.arity i = .custom ↔ (m.joint i).jt = .custom := by
  unfold ModelS.arity
  dsimp only
  constructor
  · intro h
    split at h
    · assumption
    · split at h
      · cases h
      · split at h <;> cases h
  · intro h; rw [if_pos h]

omit [Field α] in
/-- the columns of `S_i` are determined by row `i` -/
theorem Scols_row (m : ModelS α) (W W' : WS α) (i : Nat) (h : row m W i = row m W' i) :
    W.Scols m i = W'.Scols m i := by
  have hS : W.S i = W'.S i := congrArg Row.S h
  have hS3 : W.S3 i = W'.S3 i := congrArg Row.S3 h
  have hcS := congrArg Row.cS h
  dsimp only [row] at hcS
  unfold WS.Scols
  cases ha : m.arity i <;> dsimp only
  · rw [hS]
  · rw [hS3]
  · have := (arity_custom_iff m i).1 ha
    rw [if_pos this, if_pos this] at hcS
    exact hcS

theorem Sqdd_row (m : ModelS α) (W W' : WS α) (i : Nat) (qdd : VecN α)
    (h : row m W i = row m W' i) : W.Sqdd m i qdd = W'.Sqdd m i qdd := by
  have hS : W.S i = W'.S i := congrArg Row.S h
  have hS3 : W.S3 i = W'.S3 i := congrArg Row.S3 h
  have hcS := congrArg Row.cS h
  dsimp only [row] at hcS
  unfold WS.Sqdd
  cases ha : m.arity i <;> dsimp only
  · rw [hS]
  · rw [hS3]
  · have := (arity_custom_iff m i).1 ha
    rw [if_pos this, if_pos this] at hcS
    rw [hcS]

theorem bodyForce_row (m : ModelS α) (W W' : WS α) (i : Nat) (h : row m W i = row m W' i) :
    bodyForce m W i = bodyForce m W' i := by
  have hv : W.v i = W'.v i := congrArg Row.v h
  have ha : W.a i = W'.a i := congrArg Row.a h
  unfold bodyForce
  rw [hv, ha]

end RowDet

section FwdLocal
variable {α : Type} [Field α]

theorem stepA_other (m : ModelS α) (qdd : VecN α) (i : Nat) (w : WS α) (h : m.arity i = .other) :
    stepA m qdd i w = w := by
  unfold stepA; rw [h]

theorem stepA_not_other (m : ModelS α) (qdd : VecN α) (i : Nat) (w : WS α)
    (h : m.arity i ≠ .other) :
    stepA m qdd i w =
      { w with a := upd w.a i ((w.X_lambda i).apply (w.a (m.lam i)) + w.c i + w.Sqdd m i qdd) } := by
  unfold stepA
  cases ha : m.arity i <;> first | rfl | exact absurd ha h

/-- `stepA` writes at most `a` -/
theorem stepA_keep {τ : Type} (view : WS α → τ) (hv : ∀ (w : WS α) a, view { w with a := a } = view w)
    (m : ModelS α) (qdd : VecN α) (i : Nat) (w : WS α) : view (stepA m qdd i w) = view w := by
  unfold stepA; split
  · rfl
  · exact hv _ _

/-- what one iteration of the first forward loop of `inverseDynamics` leaves in row `i` -/
theorem idFwdBody_spec (m : ModelS α) (st : QS α) (qd qdd : VecN α) (i : Nat) (s : WS α) :
    (idFwdBody m st qd qdd i s).X_lambda = (jcalc m s i st qd).X_lambda ∧
    (idFwdBody m st qd qdd i s).v_J = (jcalc m s i st qd).v_J ∧
    (idFwdBody m st qd qdd i s).c_J = (jcalc m s i st qd).c_J ∧
    (idFwdBody m st qd qdd i s).S = (jcalc m s i st qd).S ∧
    (idFwdBody m st qd qdd i s).S3 = (jcalc m s i st qd).S3 ∧
    (idFwdBody m st qd qdd i s).cS = (jcalc m s i st qd).cS ∧
    (idFwdBody m st qd qdd i s).X_base = s.X_base ∧
    (idFwdBody m st qd qdd i s).v i =
      ((idFwdBody m st qd qdd i s).X_lambda i).apply (s.v (m.lam i))
        + (idFwdBody m st qd qdd i s).v_J i ∧
    (idFwdBody m st qd qdd i s).c i = (idFwdBody m st qd qdd i s).c_J i
      + crossm ((idFwdBody m st qd qdd i s).v i) ((idFwdBody m st qd qdd i s).v_J i) ∧
    (m.arity i ≠ .other →
      (idFwdBody m st qd qdd i s).a i =
        ((idFwdBody m st qd qdd i s).X_lambda i).apply (s.a (m.lam i))
          + (idFwdBody m st qd qdd i s).c i + (idFwdBody m st qd qdd i s).Sqdd m i qdd) ∧
    (m.arity i = .other → (idFwdBody m st qd qdd i s).a i = s.a i) ∧
    (idFwdBody m st qd qdd i s).f i = bodyForce m (idFwdBody m st qd qdd i s) i := by
  have hJv : (jcalc m s i st qd).v = s.v :=
    jcalc_keep (fun w => w.v) (fun _ _ _ _ _ _ _ => rfl) m s i st qd
  have hJa : (jcalc m s i st qd).a = s.a :=
    jcalc_keep (fun w => w.a) (fun _ _ _ _ _ _ _ => rfl) m s i st qd
  have hJb : (jcalc m s i st qd).X_base = s.X_base :=
    jcalc_keep (fun w => w.X_base) (fun _ _ _ _ _ _ _ => rfl) m s i st qd
  unfold idFwdBody
  refine ⟨?_, ?_, ?_, ?_, ?_, ?_, ?_, ?_, ?_, ?_, ?_, ?_⟩
  · exact stepA_keep (fun w => w.X_lambda) (fun _ _ => rfl) m qdd i _
  · exact stepA_keep (fun w => w.v_J) (fun _ _ => rfl) m qdd i _
  · exact stepA_keep (fun w => w.c_J) (fun _ _ => rfl) m qdd i _
  · exact stepA_keep (fun w => w.S) (fun _ _ => rfl) m qdd i _
  · exact stepA_keep (fun w => w.S3) (fun _ _ => rfl) m qdd i _
  · exact stepA_keep (fun w => w.cS) (fun _ _ => rfl) m qdd i _
  · exact (stepA_keep (fun w => w.X_base) (fun _ _ => rfl) m qdd i _).trans hJb
  · have h1 := stepA_keep (fun w => w.v) (fun _ _ => rfl) m qdd i
      (stepC i (stepV m i (jcalc m s i st qd)))
    have h2 := stepA_keep (fun w => w.X_lambda) (fun _ _ => rfl) m qdd i
      (stepC i (stepV m i (jcalc m s i st qd)))
    have h3 := stepA_keep (fun w => w.v_J) (fun _ _ => rfl) m qdd i
      (stepC i (stepV m i (jcalc m s i st qd)))
    show (stepA m qdd i (stepC i (stepV m i (jcalc m s i st qd)))).v i
      = ((stepA m qdd i (stepC i (stepV m i (jcalc m s i st qd)))).X_lambda i).apply (s.v (m.lam i))
        + (stepA m qdd i (stepC i (stepV m i (jcalc m s i st qd)))).v_J i
    rw [h1, h2, h3]
    simp only [stepC, stepV, upd_same, hJv]
  · have h1 := stepA_keep (fun w => w.v) (fun _ _ => rfl) m qdd i
      (stepC i (stepV m i (jcalc m s i st qd)))
    have h2 := stepA_keep (fun w => w.c) (fun _ _ => rfl) m qdd i
      (stepC i (stepV m i (jcalc m s i st qd)))
    have h3 := stepA_keep (fun w => w.v_J) (fun _ _ => rfl) m qdd i
      (stepC i (stepV m i (jcalc m s i st qd)))
    have h4 := stepA_keep (fun w => w.c_J) (fun _ _ => rfl) m qdd i
      (stepC i (stepV m i (jcalc m s i st qd)))
    show (stepA m qdd i (stepC i (stepV m i (jcalc m s i st qd)))).c i
      = (stepA m qdd i (stepC i (stepV m i (jcalc m s i st qd)))).c_J i
        + crossm ((stepA m qdd i (stepC i (stepV m i (jcalc m s i st qd)))).v i)
            ((stepA m qdd i (stepC i (stepV m i (jcalc m s i st qd)))).v_J i)
    rw [h1, h2, h3, h4]
    simp only [stepC, stepV, upd_same]
  · intro ha
    rw [stepA_not_other _ _ _ _ ha]
    simp only [stepF, stepC, stepV, upd_same, hJa]
    rfl
  · intro ha
    rw [stepA_other _ _ _ _ ha]
    simp only [stepF, stepC, stepV, hJa]
  · simp only [stepF, upd_same]; rfl

end FwdLocal

section FwdGlobal
variable {α : Type} [Field α]

/-- The kinematic recursion of the recursive Newton–Euler forward pass, stated on a final
    workspace `W` (`w` = the workspace the routine was entered with): row `i` holds what `jcalc`
    computes for joint `i` from `w`, and `v`, `c`, `a` satisfy the recursion with the final values
    of the parent. -/
structure FwdClosed (m : ModelS α) (st : QS α) (qd qdd : VecN α) (w W : WS α) : Prop where
  v0 : W.v 0 = SV.zero
  a0 : W.a 0 = spatialGravityNeg m
  jX : ∀ i, 1 ≤ i → i < m.nBodies → W.X_lambda i = (jcalc m w i st qd).X_lambda i
  jvJ : ∀ i, 1 ≤ i → i < m.nBodies → W.v_J i = (jcalc m w i st qd).v_J i
  jcJ : ∀ i, 1 ≤ i → i < m.nBodies → W.c_J i = (jcalc m w i st qd).c_J i
  jS : ∀ i, 1 ≤ i → i < m.nBodies → W.S i = (jcalc m w i st qd).S i
  jS3 : ∀ i, 1 ≤ i → i < m.nBodies → W.S3 i = (jcalc m w i st qd).S3 i
  jcS : ∀ i, 1 ≤ i → i < m.nBodies → (m.joint i).jt = .custom →
    W.cS (m.joint i).customIdx = (jcalc m w i st qd).cS (m.joint i).customIdx
  v : ∀ i, 1 ≤ i → i < m.nBodies → W.v i = (W.X_lambda i).apply (W.v (m.lam i)) + W.v_J i
  c : ∀ i, 1 ≤ i → i < m.nBodies → W.c i = W.c_J i + crossm (W.v i) (W.v_J i)
  a : ∀ i, 1 ≤ i → i < m.nBodies → m.arity i ≠ .other →
    W.a i = (W.X_lambda i).apply (W.a (m.lam i)) + W.c i + W.Sqdd m i qdd

theorem idInit_row (m : ModelS α) (w : WS α) (i : Nat) (hi : i ≠ 0) :
    row m (idInit m w) i = row m w i := by
  unfold row idInit; dsimp only; rw [upd_other _ _ _ _ hi, upd_other _ _ _ _ hi]

omit [Field α] in
theorem row_fields {m : ModelS α} {W W' : WS α} {i j : Nat} (h : row m W i = row m W' j) :
    W.X_lambda i = W'.X_lambda j ∧ W.v_J i = W'.v_J j ∧ W.c_J i = W'.c_J j ∧ W.S i = W'.S j ∧
    W.S3 i = W'.S3 j ∧ W.v i = W'.v j ∧ W.c i = W'.c j ∧ W.a i = W'.a j ∧ W.f i = W'.f j ∧
    W.X_base i = W'.X_base j :=
  ⟨congrArg Row.X h, congrArg Row.vJ h, congrArg Row.cJ h, congrArg Row.S h, congrArg Row.S3 h,
   congrArg Row.v h, congrArg Row.c h, congrArg Row.a h, congrArg Row.f h, congrArg Row.Xb h⟩

theorem idForward1_closed (m : ModelS α) (hc : CustomInj m)
    (htree : ∀ i, 1 ≤ i → i < m.nBodies → m.lam i < i)
    (w : WS α) (st : QS α) (qd qdd : VecN α) :
    FwdClosed m st qd qdd w (idForward1 m w st qd qdd) ∧
    (∀ i, 1 ≤ i → i < m.nBodies →
      (idForward1 m w st qd qdd).f i = bodyForce m (idForward1 m w st qd qdd) i) ∧
    (∀ i, 1 ≤ i → i < m.nBodies → m.arity i = .other → (idForward1 m w st qd qdd).a i = w.a i) ∧
    (idForward1 m w st qd qdd).X_base = w.X_base := by
  have hbody := idFwdBody_row_other m hc st qd qdd
  -- row 0 is never written
  have h0 : row m (idForward1 m w st qd qdd) 0 = row m (idInit m w) 0 :=
    forUp_get_outside (row m) _ hbody _ _ _ 0 (Or.inl (by omega))
  -- the three facts about row `i`
  have key : ∀ i, 1 ≤ i → i < m.nBodies →
      row m (idForward1 m w st qd qdd) i
        = row m (idFwdBody m st qd qdd i (forUp (i - 1) 1 (idFwdBody m st qd qdd) (idInit m w))) i ∧
      row m (forUp (i - 1) 1 (idFwdBody m st qd qdd) (idInit m w)) i = row m w i ∧
      row m (idForward1 m w st qd qdd) (m.lam i)
        = row m (forUp (i - 1) 1 (idFwdBody m st qd qdd) (idInit m w)) (m.lam i) := by
    intro i h1 h2
    refine ⟨forUp_get_inside (row m) _ hbody _ _ _ i h1 (by omega), ?_, ?_⟩
    · rw [forUp_get_outside (row m) _ hbody _ _ _ i (Or.inr (by omega)), idInit_row _ _ _ (by omega)]
    · exact forUp_get_prefix (row m) _ hbody _ _ _ i (m.lam i) h1 (by omega) (htree i h1 h2)
  have hXb : (idForward1 m w st qd qdd).X_base = w.X_base := by
    unfold idForward1
    rw [forUp_keep (fun w => w.X_base) _ _ _ (fun i s _ _ => (idFwdBody_spec m st qd qdd i s).2.2.2.2.2.2.1)]
    rfl
  -- `jcalc` on the state iteration `i` starts from = `jcalc` on `w`
  have hj : ∀ i, 1 ≤ i → i < m.nBodies →
      let Wi := forUp (i - 1) 1 (idFwdBody m st qd qdd) (idInit m w)
      (jcalc m Wi i st qd).X_lambda i = (jcalc m w i st qd).X_lambda i ∧
      (jcalc m Wi i st qd).v_J i = (jcalc m w i st qd).v_J i ∧
      (jcalc m Wi i st qd).c_J i = (jcalc m w i st qd).c_J i ∧
      (jcalc m Wi i st qd).S i = (jcalc m w i st qd).S i ∧
      (jcalc m Wi i st qd).S3 i = (jcalc m w i st qd).S3 i := by
    intro i h1 h2 Wi
    obtain ⟨eX, evJ, ecJ, eS, eS3, _⟩ := row_fields (key i h1 h2).2.1
    exact jcalc_congr m Wi w i st qd eX evJ ecJ eS eS3
  refine ⟨⟨?_, ?_, ?_, ?_, ?_, ?_, ?_, ?_, ?_, ?_, ?_⟩, ?_, ?_, hXb⟩
  · rw [(row_fields h0).2.2.2.2.2.1]; simp [idInit]
  · rw [(row_fields h0).2.2.2.2.2.2.2.1]; simp [idInit]
  · intro i h1 h2
    rw [(row_fields (key i h1 h2).1).1, (idFwdBody_spec m st qd qdd i _).1, (hj i h1 h2).1]
  · intro i h1 h2
    rw [(row_fields (key i h1 h2).1).2.1, (idFwdBody_spec m st qd qdd i _).2.1, (hj i h1 h2).2.1]
  · intro i h1 h2
    rw [(row_fields (key i h1 h2).1).2.2.1, (idFwdBody_spec m st qd qdd i _).2.2.1,
      (hj i h1 h2).2.2.1]
  · intro i h1 h2
    rw [(row_fields (key i h1 h2).1).2.2.2.1, (idFwdBody_spec m st qd qdd i _).2.2.2.1,
      (hj i h1 h2).2.2.2.1]
  · intro i h1 h2
    rw [(row_fields (key i h1 h2).1).2.2.2.2.1, (idFwdBody_spec m st qd qdd i _).2.2.2.2.1,
      (hj i h1 h2).2.2.2.2]
  · intro i h1 h2 hcu
    have hA := congrArg Row.cS (key i h1 h2).1
    dsimp only [row] at hA
    rw [if_pos hcu, if_pos hcu] at hA
    rw [hA, (idFwdBody_spec m st qd qdd i _).2.2.2.2.2.1, jcalc_cS, jcalc_cS, if_pos hcu, if_pos hcu,
      upd_same, upd_same]
  · intro i h1 h2
    obtain ⟨kA, kC, kB⟩ := key i h1 h2
    obtain ⟨eX, evJ, ecJ, eS, eS3, ev, ec, ea, ef, eXb⟩ := row_fields kA
    rw [ev, eX, evJ, (row_fields kB).2.2.2.2.2.1]
    exact (idFwdBody_spec m st qd qdd i _).2.2.2.2.2.2.2.1
  · intro i h1 h2
    obtain ⟨kA, kC, kB⟩ := key i h1 h2
    obtain ⟨eX, evJ, ecJ, eS, eS3, ev, ec, ea, ef, eXb⟩ := row_fields kA
    rw [ec, ecJ, evJ, ev]
    exact (idFwdBody_spec m st qd qdd i _).2.2.2.2.2.2.2.2.1
  · intro i h1 h2 har
    obtain ⟨kA, kC, kB⟩ := key i h1 h2
    obtain ⟨eX, evJ, ecJ, eS, eS3, ev, ec, ea, ef, eXb⟩ := row_fields kA
    rw [ea, eX, ec, (row_fields kB).2.2.2.2.2.2.2.1, Sqdd_row m _ _ i qdd kA]
    exact (idFwdBody_spec m st qd qdd i _).2.2.2.2.2.2.2.2.2.1 har
  · intro i h1 h2
    obtain ⟨kA, kC, kB⟩ := key i h1 h2
    rw [(row_fields kA).2.2.2.2.2.2.2.2.1, bodyForce_row m _ _ i kA]
    exact (idFwdBody_spec m st qd qdd i _).2.2.2.2.2.2.2.2.2.2.2
  · intro i h1 h2 har
    obtain ⟨kA, kC, kB⟩ := key i h1 h2
    rw [(row_fields kA).2.2.2.2.2.2.2.1, (idFwdBody_spec m st qd qdd i _).2.2.2.2.2.2.2.2.2.2.1 har,
      (row_fields kC).2.2.2.2.2.2.2.1]

end FwdGlobal

section FwdExt
variable {α : Type} [Field α]

/-- `FwdClosed` only looks at the kinematic arrays -/
theorem FwdClosed.congr {m : ModelS α} {st : QS α} {qd qdd : VecN α} {w W W' : WS α}
    (h : FwdClosed m st qd qdd w W)
    (eX : W'.X_lambda = W.X_lambda) (evJ : W'.v_J = W.v_J) (ecJ : W'.c_J = W.c_J)
    (eS : W'.S = W.S) (eS3 : W'.S3 = W.S3) (ecS : W'.cS = W.cS) (ev : W'.v = W.v)
    (ec : W'.c = W.c) (ea : W'.a = W.a) : FwdClosed m st qd qdd w W' := by
  have hSq : ∀ i, W'.Sqdd m i qdd = W.Sqdd m i qdd := by
    intro i; unfold WS.Sqdd; rw [eS, eS3, ecS]
  constructor
  · rw [ev]; exact h.v0
  · rw [ea]; exact h.a0
  · rw [eX]; exact h.jX
  · rw [evJ]; exact h.jvJ
  · rw [ecJ]; exact h.jcJ
  · rw [eS]; exact h.jS
  · rw [eS3]; exact h.jS3
  · rw [ecS]; exact h.jcS
  · rw [ev, eX, evJ]; exact h.v
  · rw [ec, ecJ, ev, evJ]; exact h.c
  · intro i h1 h2 har; rw [ea, eX, ec, hSq]; exact h.a i h1 h2 har

theorem idExtBody_keep {τ : Type} (view : WS α → τ)
    (hv : ∀ (w : WS α) Xb f, view { w with X_base := Xb, f := f } = view w)
    (m : ModelS α) (fe : Nat → SV α) (i : Nat) (w : WS α) : view (idExtBody m fe i w) = view w := by
  unfold idExtBody
  exact hv w _ _

theorem idExtBody_spec (m : ModelS α) (fe : Nat → SV α) (i : Nat) (s : WS α) :
    (idExtBody m fe i s).X_base i = s.X_lambda i * s.X_base (m.lam i) ∧
    (idExtBody m fe i s).f i = s.f i - ((idExtBody m fe i s).X_base i).applyAdjoint (fe i) := by
  unfold idExtBody
  simp only [upd_same]
  exact ⟨trivial, trivial⟩

/-- the external-force loop: `X_base` recursion and `f_i -= X_base_i.applyAdjoint (fext i)` -/
theorem idExt_closed (m : ModelS α) (htree : ∀ i, 1 ≤ i → i < m.nBodies → m.lam i < i)
    (fe : Nat → SV α) (W1 : WS α) :
    let W2 := forUp (m.nBodies - 1) 1 (idExtBody m fe) W1
    (∀ {τ : Type} (view : WS α → τ),
      (∀ (w : WS α) Xb f, view { w with X_base := Xb, f := f } = view w) → view W2 = view W1) ∧
    W2.X_base 0 = W1.X_base 0 ∧
    (∀ i, 1 ≤ i → i < m.nBodies → W2.X_base i = W2.X_lambda i * W2.X_base (m.lam i)) ∧
    (∀ i, 1 ≤ i → i < m.nBodies → W2.f i = W1.f i - (W2.X_base i).applyAdjoint (fe i)) := by
  intro W2
  have hkeep : ∀ {τ : Type} (view : WS α → τ),
      (∀ (w : WS α) Xb f, view { w with X_base := Xb, f := f } = view w) → view W2 = view W1 :=
    fun view hv => forUp_keep view _ _ _ (fun i s _ _ => idExtBody_keep view hv m fe i s) W1
  have hbody := idExtBody_row_other m fe
  have h0 : row m W2 0 = row m W1 0 :=
    forUp_get_outside (row m) _ hbody _ _ _ 0 (Or.inl (by omega))
  have key : ∀ i, 1 ≤ i → i < m.nBodies →
      row m W2 i = row m (idExtBody m fe i (forUp (i - 1) 1 (idExtBody m fe) W1)) i ∧
      row m (forUp (i - 1) 1 (idExtBody m fe) W1) i = row m W1 i ∧
      row m W2 (m.lam i) = row m (forUp (i - 1) 1 (idExtBody m fe) W1) (m.lam i) := by
    intro i h1 h2
    refine ⟨forUp_get_inside (row m) _ hbody _ _ _ i h1 (by omega),
      forUp_get_outside (row m) _ hbody _ _ _ i (Or.inr (by omega)),
      forUp_get_prefix (row m) _ hbody _ _ _ i (m.lam i) h1 (by omega) (htree i h1 h2)⟩
  have hX : W2.X_lambda = W1.X_lambda := hkeep (fun w => w.X_lambda) (fun _ _ _ => rfl)
  refine ⟨hkeep, (row_fields h0).2.2.2.2.2.2.2.2.2, ?_, ?_⟩
  · intro i h1 h2
    obtain ⟨kA, kC, kB⟩ := key i h1 h2
    rw [(row_fields kA).2.2.2.2.2.2.2.2.2, (idExtBody_spec m fe i _).1,
      (row_fields kB).2.2.2.2.2.2.2.2.2, hX]
    have : (forUp (i - 1) 1 (idExtBody m fe) W1).X_lambda = W1.X_lambda :=
      forUp_keep (fun w => w.X_lambda) (idExtBody m fe) _ _ (fun i s _ _ => rfl) W1
    rw [this]
  · intro i h1 h2
    obtain ⟨kA, kC, kB⟩ := key i h1 h2
    rw [(row_fields kA).2.2.2.2.2.2.2.2.1, (row_fields kA).2.2.2.2.2.2.2.2.2,
      (idExtBody_spec m fe i _).2, (row_fields kC).2.2.2.2.2.2.2.2.1]

end FwdExt

section FwdAll
variable {α : Type} [Field α]

/-- the body force with the external force removed, as the forward pass leaves it in `f[i]` -/
def netForce (m : ModelS α) (fext : Option (Nat → SV α)) (W : WS α) (i : Nat) : SV α :=
  match fext with
  | none => bodyForce m W i
  | some fe => bodyForce m W i - (W.X_base i).applyAdjoint (fe i)

/-- the force half of the forward pass on a final workspace `W` -/
structure ForceClosed (m : ModelS α) (fext : Option (Nat → SV α)) (w W : WS α) : Prop where
  f : ∀ i, 1 ≤ i → i < m.nBodies → W.f i = netForce m fext W i
  xb : fext.isSome → ∀ i, 1 ≤ i → i < m.nBodies →
    W.X_base i = W.X_lambda i * W.X_base (m.lam i)
  xb0 : W.X_base 0 = w.X_base 0

theorem bodyForce_congr (m : ModelS α) (W W' : WS α) (i : Nat) (hv : W'.v = W.v) (ha : W'.a = W.a) :
    bodyForce m W' i = bodyForce m W i := by
  unfold bodyForce; rw [hv, ha]

theorem idForward_closed (m : ModelS α) (hc : CustomInj m)
    (htree : ∀ i, 1 ≤ i → i < m.nBodies → m.lam i < i)
    (w : WS α) (st : QS α) (qd qdd : VecN α) (fext : Option (Nat → SV α)) :
    FwdClosed m st qd qdd w (idForward m w st qd qdd fext) ∧
    ForceClosed m fext w (idForward m w st qd qdd fext) ∧
    (∀ i, 1 ≤ i → i < m.nBodies → m.arity i = .other →
      (idForward m w st qd qdd fext).a i = w.a i) := by
  obtain ⟨h1, hf, ha, hxb⟩ := idForward1_closed m hc htree w st qd qdd
  cases fext with
  | none =>
    refine ⟨h1, ⟨hf, (fun h => nomatch h), ?_⟩, ha⟩
    show (idForward1 m w st qd qdd).X_base 0 = _
    rw [hxb]
  | some fe =>
    obtain ⟨hkeep, hb0, hb, hff⟩ := idExt_closed m htree fe (idForward1 m w st qd qdd)
    have ev := hkeep (fun w => w.v) (fun _ _ _ => rfl)
    have ea := hkeep (fun w => w.a) (fun _ _ _ => rfl)
    refine ⟨h1.congr (hkeep (fun w => w.X_lambda) (fun _ _ _ => rfl))
        (hkeep (fun w => w.v_J) (fun _ _ _ => rfl)) (hkeep (fun w => w.c_J) (fun _ _ _ => rfl))
        (hkeep (fun w => w.S) (fun _ _ _ => rfl)) (hkeep (fun w => w.S3) (fun _ _ _ => rfl))
        (hkeep (fun w => w.cS) (fun _ _ _ => rfl)) ev
        (hkeep (fun w => w.c) (fun _ _ _ => rfl)) ea, ⟨?_, fun _ => hb, ?_⟩, ?_⟩
    · intro i i1 i2
      show (forUp (m.nBodies - 1) 1 (idExtBody m fe) (idForward1 m w st qd qdd)).f i
        = bodyForce m (forUp (m.nBodies - 1) 1 (idExtBody m fe) (idForward1 m w st qd qdd)) i - _
      rw [hff i i1 i2, hf i i1 i2, bodyForce_congr m _ _ i ev ea]
      rfl
    · show (forUp (m.nBodies - 1) 1 (idExtBody m fe) (idForward1 m w st qd qdd)).X_base 0 = _
      rw [hb0, hxb]
    · intro i i1 i2 har
      show (forUp (m.nBodies - 1) 1 (idExtBody m fe) (idForward1 m w st qd qdd)).a i = _
      have := congrFun ea i
      rw [this, ha i i1 i2 har]

end FwdAll

section NE
variable {α : Type} [Field α] [DecidableEq α]

/-- velocity / acceleration part of the loop body of `nonlinearEffects` -/
def neKin (m : ModelS α) (i : Nat) (w : WS α) : WS α :=
  if m.lam i = 0 then
    let w := { w with v := upd w.v i (w.v_J i) }
    let w := { w with c := upd w.c i (w.c_J i + crossm (w.v i) (w.v_J i)) }
    { w with a := upd w.a i ((w.X_lambda i).apply (spatialGravityNeg m) + w.c i) }
  else
    let w := { w with v := upd w.v i ((w.X_lambda i).apply (w.v (m.lam i)) + w.v_J i) }
    let w := { w with c := upd w.c i (w.c_J i + crossm (w.v i) (w.v_J i)) }
    { w with a := upd w.a i ((w.X_lambda i).apply (w.a (m.lam i)) + w.c i) }

/-- `X_base` part -/
def neXb (m : ModelS α) (fext : Option (Nat → SV α)) (i : Nat) (w : WS α) : WS α :=
  match fext with
  | none => w
  | some _ =>
    if m.lam i ≠ 0 then { w with X_base := upd w.X_base i (w.X_lambda i * w.X_base (m.lam i)) }
    else { w with X_base := upd w.X_base i (w.X_lambda i) }

/-- force part -/
def neF (m : ModelS α) (fext : Option (Nat → SV α)) (i : Nat) (w : WS α) : WS α :=
  let f0 := bodyForce m w i
  let f1 := match fext with
    | none => f0
    | some fe => if fe i ≠ SV.zero then f0 - (w.X_base i).applyAdjoint (fe i) else f0
  { w with f := upd w.f i f1 }

def neBody (m : ModelS α) (fext : Option (Nat → SV α)) (i : Nat) (w : WS α) : WS α :=
  neF m fext i (neXb m fext i (neKin m i w))

/-- the `jcalc` sweep of `nonlinearEffects` (in `mJointUpdateOrder`) -/
def neJ (m : ModelS α) (w : WS α) (st : QS α) (qd : VecN α) : WS α :=
  (m.updateOrder.drop 1).foldl (fun w i => jcalc m w i st qd) (idInit m w)

def neForward (m : ModelS α) (w : WS α) (st : QS α) (qd : VecN α)
    (fext : Option (Nat → SV α)) : WS α :=
  forUp (m.nBodies - 1) 1 (neBody m fext) (neJ m w st qd)

theorem nonlinearEffects_eq (m : ModelS α) (w : WS α) (st : QS α) (qd tau : VecN α)
    (fext : Option (Nat → SV α)) :
    nonlinearEffects m w st qd tau fext = rneaBackward m (neForward m w st qd fext) tau := by
  cases fext <;> rfl

end NE

section NEalg
variable {α : Type} [Field α]

theorem apply_zero (X : XT α) : X.apply SV.zero = SV.zero := by alg_ext
theorem applyAdjoint_zero (X : XT α) : X.applyAdjoint SV.zero = SV.zero := by alg_ext
theorem sv_zero_add (x : SV α) : SV.zero + x = x := by alg_ext
theorem sv_add_zero (x : SV α) : x + SV.zero = x := by alg_ext
theorem sv_sub_zero (x : SV α) : x - SV.zero = x := by alg_ext

theorem colsMul_zero (cols : List (SV α)) : colsMul cols (fun _ => (0 : α)) = SV.zero := by
  unfold colsMul colsMul.indexedCols
  generalize List.range cols.length = r
  suffices h : ∀ (l : List (SV α × Nat)) (acc : SV α),
      l.foldl (fun (acc : SV α) (p : SV α × Nat) => acc + (0 : α) * p.1) acc = acc from h _ _
  intro l
  induction l with
  | nil => intro acc; rfl
  | cons p l ih =>
    intro acc
    rw [List.foldl_cons, ih]
    alg_ext

theorem Sqdd_zero (m : ModelS α) (w : WS α) (i : Nat) : w.Sqdd m i zeroVec = SV.zero := by
  unfold WS.Sqdd zeroVec
  cases m.arity i <;> dsimp only
  · alg_ext
  · alg_ext
  · exact colsMul_zero _

end NEalg

section NEfold
variable {α : Type} [Field α]

theorem jcalc_row_congr (m : ModelS α) (w1 w2 : WS α) (i : Nat) (st : QS α) (qd : VecN α)
    (h : row m w1 i = row m w2 i) :
    row m (jcalc m w1 i st qd) i = row m (jcalc m w2 i st qd) i := by
  obtain ⟨eX, evJ, ecJ, eS, eS3, ev, ec, ea, ef, eXb⟩ := row_fields h
  obtain ⟨jX, jvJ, jcJ, jS, jS3⟩ := jcalc_congr m w1 w2 i st qd eX evJ ecJ eS eS3
  unfold row
  rw [jX, jvJ, jcJ, jS, jS3]
  rw [jcalc_keep (fun w => w.v) (fun _ _ _ _ _ _ _ => rfl),
    jcalc_keep (fun w => w.c) (fun _ _ _ _ _ _ _ => rfl),
    jcalc_keep (fun w => w.a) (fun _ _ _ _ _ _ _ => rfl),
    jcalc_keep (fun w => w.f) (fun _ _ _ _ _ _ _ => rfl),
    jcalc_keep (fun w => w.X_base) (fun _ _ _ _ _ _ _ => rfl),
    jcalc_keep (fun w => w.v) (fun _ _ _ _ _ _ _ => rfl) m w2,
    jcalc_keep (fun w => w.c) (fun _ _ _ _ _ _ _ => rfl) m w2,
    jcalc_keep (fun w => w.a) (fun _ _ _ _ _ _ _ => rfl) m w2,
    jcalc_keep (fun w => w.f) (fun _ _ _ _ _ _ _ => rfl) m w2,
    jcalc_keep (fun w => w.X_base) (fun _ _ _ _ _ _ _ => rfl) m w2, ev, ec, ea, ef, eXb]
  congr 1
  split
  · rename_i hcu
    rw [jcalc_cS, jcalc_cS, if_pos hcu, if_pos hcu, upd_same, upd_same]
  · rfl

/-- a sweep of `jcalc` over a duplicate-free list of joints: every listed row is what `jcalc`
    alone computes from the initial workspace, the other rows are untouched -/
theorem jfold_row (m : ModelS α) (hc : CustomInj m) (st : QS α) (qd : VecN α) (l : List Nat)
    (w : WS α) :
    (∀ j, j ∉ l → row m (l.foldl (fun w i => jcalc m w i st qd) w) j = row m w j) ∧
    (l.Nodup → ∀ i, i ∈ l →
      row m (l.foldl (fun w i => jcalc m w i st qd) w) i = row m (jcalc m w i st qd) i) := by
  induction l generalizing w with
  | nil => exact ⟨fun _ _ => rfl, fun _ i hi => by cases hi⟩
  | cons j l ih =>
    simp only [List.foldl_cons]
    refine ⟨fun k hk => ?_, fun hnd i hi => ?_⟩
    · rw [List.mem_cons, _root_.not_or] at hk
      rw [(ih _).1 k hk.2, jcalc_row_other m hc _ _ _ _ _ hk.1]
    · rw [List.nodup_cons] at hnd
      by_cases hij : i = j
      · subst hij
        exact (ih _).1 i hnd.1
      · have hil : i ∈ l := by
          rcases List.mem_cons.1 hi with e | e
          · exact absurd e hij
          · exact e
        rw [(ih _).2 hnd.2 i hil]
        exact jcalc_row_congr m _ _ i st qd (jcalc_row_other m hc _ _ _ _ _ hij)

end NEfold

section NEloop
variable {α : Type} [Field α] [DecidableEq α]

omit [DecidableEq α] in
theorem neKin_keep {τ : Type} (view : WS α → τ)
    (hv : ∀ (w : WS α) v c a, view { w with v := v, c := c, a := a } = view w)
    (m : ModelS α) (i : Nat) (w : WS α) : view (neKin m i w) = view w := by
  unfold neKin; split <;> exact hv w _ _ _

omit [DecidableEq α] in
theorem neXb_keep {τ : Type} (view : WS α → τ)
    (hv : ∀ (w : WS α) Xb, view { w with X_base := Xb } = view w)
    (m : ModelS α) (fext : Option (Nat → SV α)) (i : Nat) (w : WS α) :
    view (neXb m fext i w) = view w := by
  unfold neXb
  cases fext with
  | none => rfl
  | some fe => dsimp only; split <;> exact hv w _

omit [DecidableEq α] in
theorem neKin_row_other (m : ModelS α) (i : Nat) (w : WS α) (j : Nat) (hj : j ≠ i) :
    row m (neKin m i w) j = row m w j := by
  unfold neKin row
  split <;> (dsimp only; rw [upd_other _ _ _ _ hj, upd_other _ _ _ _ hj, upd_other _ _ _ _ hj])

omit [DecidableEq α] in
theorem neXb_row_other (m : ModelS α) (fext : Option (Nat → SV α)) (i : Nat) (w : WS α) (j : Nat)
    (hj : j ≠ i) : row m (neXb m fext i w) j = row m w j := by
  unfold neXb
  cases fext with
  | none => rfl
  | some fe => dsimp only; unfold row; split <;> (dsimp only; rw [upd_other _ _ _ _ hj])

theorem neF_row_other (m : ModelS α) (fext : Option (Nat → SV α)) (i : Nat) (w : WS α) (j : Nat)
    (hj : j ≠ i) : row m (neF m fext i w) j = row m w j := by
  unfold neF row; dsimp only; rw [upd_other _ _ _ _ hj]

theorem neBody_row_other (m : ModelS α) (fext : Option (Nat → SV α)) (i : Nat) (w : WS α) (j : Nat)
    (hj : j ≠ i) : row m (neBody m fext i w) j = row m w j := by
  unfold neBody
  rw [neF_row_other _ _ _ _ _ hj, neXb_row_other _ _ _ _ _ hj, neKin_row_other _ _ _ _ hj]

/-- the fields the loop of `nonlinearEffects` never writes -/
theorem neBody_keep {τ : Type} (view : WS α → τ)
    (hv : ∀ (w : WS α) v c a Xb f, view { w with v := v, c := c, a := a, X_base := Xb, f := f } = view w)
    (m : ModelS α) (fext : Option (Nat → SV α)) (i : Nat) (w : WS α) :
    view (neBody m fext i w) = view w := by
  unfold neBody
  have h1 : view (neF m fext i (neXb m fext i (neKin m i w))) = view (neXb m fext i (neKin m i w)) :=
    hv _ _ _ _ _ _
  rw [h1, neXb_keep view (fun w Xb => hv w w.v w.c w.a Xb w.f),
    neKin_keep view (fun w v c a => hv w v c a w.X_base w.f)]

/-- what one iteration of the loop of `nonlinearEffects` leaves in row `i`, in the form of the
    recursion of `inverseDynamics` with `q̈ = 0` -/
theorem neBody_spec (m : ModelS α) (fext : Option (Nat → SV α)) (i : Nat) (s : WS α)
    (hv0 : s.v 0 = SV.zero) (ha0 : s.a 0 = spatialGravityNeg m) :
    (neBody m fext i s).v i =
      (s.X_lambda i).apply (s.v (m.lam i)) + s.v_J i ∧
    (neBody m fext i s).c i = s.c_J i + crossm ((neBody m fext i s).v i) (s.v_J i) ∧
    (neBody m fext i s).a i =
      (s.X_lambda i).apply (s.a (m.lam i)) + (neBody m fext i s).c i + s.Sqdd m i zeroVec ∧
    (neBody m fext i s).f i = netForce m fext (neBody m fext i s) i ∧
    (fext.isSome → s.X_base 0 = XT.id →
      (neBody m fext i s).X_base i = s.X_lambda i * s.X_base (m.lam i)) := by
  have hXbv : (neXb m fext i (neKin m i s)).v = (neKin m i s).v :=
    neXb_keep (fun w => w.v) (fun _ _ => rfl) m fext i _
  have hXbc : (neXb m fext i (neKin m i s)).c = (neKin m i s).c :=
    neXb_keep (fun w => w.c) (fun _ _ => rfl) m fext i _
  have hXba : (neXb m fext i (neKin m i s)).a = (neKin m i s).a :=
    neXb_keep (fun w => w.a) (fun _ _ => rfl) m fext i _
  have hv : (neBody m fext i s).v = (neKin m i s).v := hXbv
  have hc : (neBody m fext i s).c = (neKin m i s).c := hXbc
  have ha : (neBody m fext i s).a = (neKin m i s).a := hXba
  rw [hv, hc, ha, Sqdd_zero, sv_add_zero]
  refine ⟨?_, ?_, ?_, ?_, ?_⟩
  · unfold neKin; split
    · rename_i h0; simp only [upd_same, h0, hv0, apply_zero, sv_zero_add]
    · simp only [upd_same]
  · unfold neKin; split <;> simp only [upd_same]
  · unfold neKin; split
    · rename_i h0; simp only [upd_same, h0, ha0]
    · simp only [upd_same]
  · unfold neBody neF netForce
    cases fext with
    | none => simp only [upd_same]; rfl
    | some fe =>
      simp only [upd_same]
      have hbf : ∀ (w : WS α) f, bodyForce m { w with f := f } i = bodyForce m w i := fun _ _ => rfl
      rw [hbf]
      split
      · rfl
      · rename_i hz
        have : fe i = SV.zero := Classical.not_not.1 hz
        rw [this, applyAdjoint_zero, sv_sub_zero]
        rfl
  · intro hs hid
    cases fext with
    | none => cases hs
    | some fe =>
      unfold neBody neF neXb
      dsimp only
      have hKX : (neKin m i s).X_lambda = s.X_lambda :=
        neKin_keep (fun w => w.X_lambda) (fun _ _ _ _ => rfl) m i s
      have hKb : (neKin m i s).X_base = s.X_base :=
        neKin_keep (fun w => w.X_base) (fun _ _ _ _ => rfl) m i s
      split
      · simp only [upd_same, hKX, hKb]
      · rename_i h0
        have h0' : m.lam i = 0 := Classical.not_not.1 h0
        simp only [upd_same, hKX, h0', hid, C16.mul_id]

end NEloop

section NEglobal
variable {α : Type} [Field α] [DecidableEq α]

theorem neForward_closed (m : ModelS α) (hc : CustomInj m)
    (htree : ∀ i, 1 ≤ i → i < m.nBodies → m.lam i < i)
    (hperm : (m.updateOrder.drop 1).Perm (List.range' 1 (m.nBodies - 1)))
    (w : WS α) (st : QS α) (qd : VecN α) (fext : Option (Nat → SV α))
    (hxb : fext.isSome → w.X_base 0 = XT.id) :
    FwdClosed m st qd zeroVec w (neForward m w st qd fext) ∧
    ForceClosed m fext w (neForward m w st qd fext) := by
  -- the `jcalc` sweep
  have hnd : (m.updateOrder.drop 1).Nodup := hperm.nodup_iff.2 (List.nodup_range' 1 (by omega))
  have hmem : ∀ i, i ∈ m.updateOrder.drop 1 ↔ 1 ≤ i ∧ i < m.nBodies := by
    intro i; rw [hperm.mem_iff, List.mem_range'_1]; omega
  obtain ⟨hJout, hJin⟩ := jfold_row m hc st qd (m.updateOrder.drop 1) (idInit m w)
  have hJ0 : row m (neJ m w st qd) 0 = row m (idInit m w) 0 :=
    hJout 0 (fun h => by have := (hmem 0).1 h; omega)
  have hJi : ∀ i, 1 ≤ i → i < m.nBodies →
      row m (neJ m w st qd) i = row m (jcalc m w i st qd) i := by
    intro i h1 h2
    have := hJin hnd i ((hmem i).2 ⟨h1, h2⟩)
    unfold neJ
    rw [this]
    exact jcalc_row_congr m _ _ i st qd (idInit_row m w i (by omega))
  -- the loop
  have hbody := neBody_row_other m fext
  have hkeep : ∀ {τ : Type} (view : WS α → τ),
      (∀ (w : WS α) v c a Xb f,
        view { w with v := v, c := c, a := a, X_base := Xb, f := f } = view w) →
      ∀ k, view (forUp k 1 (neBody m fext) (neJ m w st qd)) = view (neJ m w st qd) :=
    fun view hv k => forUp_keep view _ _ _ (fun i s _ _ => neBody_keep view hv m fext i s) _
  have hrow0 : ∀ k, row m (forUp k 1 (neBody m fext) (neJ m w st qd)) 0 = row m (idInit m w) 0 := by
    intro k
    rw [forUp_get_outside (row m) _ hbody _ _ _ 0 (Or.inl (by omega)), hJ0]
  have hv0 : ∀ k, (forUp k 1 (neBody m fext) (neJ m w st qd)).v 0 = SV.zero := by
    intro k; rw [(row_fields (hrow0 k)).2.2.2.2.2.1]; simp [idInit]
  have ha0 : ∀ k, (forUp k 1 (neBody m fext) (neJ m w st qd)).a 0 = spatialGravityNeg m := by
    intro k; rw [(row_fields (hrow0 k)).2.2.2.2.2.2.2.1]; simp [idInit]
  have hb0 : ∀ k, (forUp k 1 (neBody m fext) (neJ m w st qd)).X_base 0 = w.X_base 0 := by
    intro k; rw [(row_fields (hrow0 k)).2.2.2.2.2.2.2.2.2]; rfl
  have key : ∀ i, 1 ≤ i → i < m.nBodies →
      row m (neForward m w st qd fext) i
        = row m (neBody m fext i (forUp (i - 1) 1 (neBody m fext) (neJ m w st qd))) i ∧
      row m (neForward m w st qd fext) (m.lam i)
        = row m (forUp (i - 1) 1 (neBody m fext) (neJ m w st qd)) (m.lam i) := by
    intro i h1 h2
    exact ⟨forUp_get_inside (row m) _ hbody _ _ _ i h1 (by omega),
      forUp_get_prefix (row m) _ hbody _ _ _ i (m.lam i) h1 (by omega) (htree i h1 h2)⟩
  have kX := fun k => hkeep (fun w => w.X_lambda) (fun _ _ _ _ _ _ => rfl) k
  have kvJ := fun k => hkeep (fun w => w.v_J) (fun _ _ _ _ _ _ => rfl) k
  have kcJ := fun k => hkeep (fun w => w.c_J) (fun _ _ _ _ _ _ => rfl) k
  have kS := fun k => hkeep (fun w => w.S) (fun _ _ _ _ _ _ => rfl) k
  have kS3 := fun k => hkeep (fun w => w.S3) (fun _ _ _ _ _ _ => rfl) k
  have kcS := fun k => hkeep (fun w => w.cS) (fun _ _ _ _ _ _ => rfl) k
  have hSq : ∀ k i, (forUp k 1 (neBody m fext) (neJ m w st qd)).Sqdd m i zeroVec = SV.zero :=
    fun k i => Sqdd_zero m _ i
  refine ⟨⟨hv0 _, ha0 _, ?_, ?_, ?_, ?_, ?_, ?_, ?_, ?_, ?_⟩, ⟨?_, ?_, hb0 _⟩⟩
  · intro i h1 h2
    show (forUp _ 1 (neBody m fext) (neJ m w st qd)).X_lambda i = _
    rw [kX, (row_fields (hJi i h1 h2)).1]
  · intro i h1 h2
    show (forUp _ 1 (neBody m fext) (neJ m w st qd)).v_J i = _
    rw [kvJ, (row_fields (hJi i h1 h2)).2.1]
  · intro i h1 h2
    show (forUp _ 1 (neBody m fext) (neJ m w st qd)).c_J i = _
    rw [kcJ, (row_fields (hJi i h1 h2)).2.2.1]
  · intro i h1 h2
    show (forUp _ 1 (neBody m fext) (neJ m w st qd)).S i = _
    rw [kS, (row_fields (hJi i h1 h2)).2.2.2.1]
  · intro i h1 h2
    show (forUp _ 1 (neBody m fext) (neJ m w st qd)).S3 i = _
    rw [kS3, (row_fields (hJi i h1 h2)).2.2.2.2.1]
  · intro i h1 h2 hcu
    show (forUp _ 1 (neBody m fext) (neJ m w st qd)).cS _ = _
    rw [kcS]
    have hA := congrArg Row.cS (hJi i h1 h2)
    dsimp only [row] at hA
    rw [if_pos hcu, if_pos hcu] at hA
    exact hA
  · intro i h1 h2
    obtain ⟨kA, kB⟩ := key i h1 h2
    rw [(row_fields kA).2.2.2.2.2.1, (row_fields kB).2.2.2.2.2.1,
      (neBody_spec m fext i _ (hv0 _) (ha0 _)).1]
    show _ = ((forUp _ 1 (neBody m fext) (neJ m w st qd)).X_lambda i).apply _
      + (forUp _ 1 (neBody m fext) (neJ m w st qd)).v_J i
    rw [kX, kX, kvJ, kvJ]
  · intro i h1 h2
    obtain ⟨kA, kB⟩ := key i h1 h2
    rw [(row_fields kA).2.2.2.2.2.2.1, (row_fields kA).2.2.2.2.2.1,
      (neBody_spec m fext i _ (hv0 _) (ha0 _)).2.1]
    show _ = (forUp _ 1 (neBody m fext) (neJ m w st qd)).c_J i
      + crossm _ ((forUp _ 1 (neBody m fext) (neJ m w st qd)).v_J i)
    rw [kcJ, kcJ, kvJ, kvJ]
  · intro i h1 h2 _
    obtain ⟨kA, kB⟩ := key i h1 h2
    rw [(row_fields kA).2.2.2.2.2.2.2.1, (row_fields kA).2.2.2.2.2.2.1,
      (row_fields kB).2.2.2.2.2.2.2.1, (neBody_spec m fext i _ (hv0 _) (ha0 _)).2.2.1, hSq]
    show _ = ((forUp _ 1 (neBody m fext) (neJ m w st qd)).X_lambda i).apply _ + _
      + (forUp _ 1 (neBody m fext) (neJ m w st qd)).Sqdd m i zeroVec
    rw [hSq, kX, kX]
  · intro i h1 h2
    obtain ⟨kA, kB⟩ := key i h1 h2
    rw [(row_fields kA).2.2.2.2.2.2.2.2.1, (neBody_spec m fext i _ (hv0 _) (ha0 _)).2.2.2.1]
    unfold netForce
    cases fext with
    | none => exact (bodyForce_row m _ _ i kA).symm
    | some fe =>
      dsimp only
      rw [bodyForce_row m _ _ i kA, (row_fields kA).2.2.2.2.2.2.2.2.2]
  · intro hs i h1 h2
    obtain ⟨kA, kB⟩ := key i h1 h2
    rw [(row_fields kA).2.2.2.2.2.2.2.2.2, (row_fields kB).2.2.2.2.2.2.2.2.2,
      (neBody_spec m fext i _ (hv0 _) (ha0 _)).2.2.2.2 hs ((hb0 _).trans (hxb hs))]
    show _ = (forUp _ 1 (neBody m fext) (neJ m w st qd)).X_lambda i * _
    rw [kX, kX]

end NEglobal

section Unique
variable {α : Type} [Field α]

omit [Field α] in
theorem Scols_congr (m : ModelS α) (W W' : WS α) (i : Nat)
    (hS : m.arity i = .one → W.S i = W'.S i) (hS3 : m.arity i = .three → W.S3 i = W'.S3 i)
    (hcS : (m.joint i).jt = .custom → W.cS (m.joint i).customIdx = W'.cS (m.joint i).customIdx) :
    W.Scols m i = W'.Scols m i := by
  unfold WS.Scols
  cases ha : m.arity i <;> dsimp only
  · rw [hS ha]
  · rw [hS3 ha]
  · exact hcS ((arity_custom_iff m i).1 ha)

theorem Sqdd_congr (m : ModelS α) (W W' : WS α) (i : Nat) (qdd : VecN α)
    (hS : m.arity i = .one → W.S i = W'.S i) (hS3 : m.arity i = .three → W.S3 i = W'.S3 i)
    (hcS : (m.joint i).jt = .custom → W.cS (m.joint i).customIdx = W'.cS (m.joint i).customIdx) :
    W.Sqdd m i qdd = W'.Sqdd m i qdd := by
  unfold WS.Sqdd
  cases ha : m.arity i <;> dsimp only
  · rw [hS ha]
  · rw [hS3 ha]
  · rw [hcS ((arity_custom_iff m i).1 ha)]

/-- the two entry workspaces give the same `jcalc` results for every joint -/
def JEq (m : ModelS α) (st : QS α) (qd : VecN α) (w w' : WS α) : Prop :=
  ∀ i, 1 ≤ i → i < m.nBodies →
    (jcalc m w i st qd).X_lambda i = (jcalc m w' i st qd).X_lambda i ∧
    (jcalc m w i st qd).v_J i = (jcalc m w' i st qd).v_J i ∧
    (jcalc m w i st qd).c_J i = (jcalc m w' i st qd).c_J i ∧
    (m.arity i = .one → (jcalc m w i st qd).S i = (jcalc m w' i st qd).S i) ∧
    (m.arity i = .three → (jcalc m w i st qd).S3 i = (jcalc m w' i st qd).S3 i)

/-- the forward recursion determines the workspace rows: two final workspaces that satisfy it for
    entry workspaces with the same `jcalc` data agree on everything the backward pass reads -/
theorem fwd_unique (m : ModelS α) (htree : ∀ i, 1 ≤ i → i < m.nBodies → m.lam i < i)
    (harity : ∀ i, 1 ≤ i → i < m.nBodies → m.arity i ≠ .other)
    (st : QS α) (qd qdd : VecN α) (fext : Option (Nat → SV α)) (w w' W W' : WS α)
    (h : FwdClosed m st qd qdd w W) (h' : FwdClosed m st qd qdd w' W')
    (hf : ForceClosed m fext w W) (hf' : ForceClosed m fext w' W')
    (hj : JEq m st qd w w') (hb : fext.isSome → w.X_base 0 = w'.X_base 0) :
    ∀ i, 1 ≤ i → i < m.nBodies →
      W.X_lambda i = W'.X_lambda i ∧ W.Scols m i = W'.Scols m i ∧ W.f i = W'.f i ∧
      W.v i = W'.v i ∧ W.a i = W'.a i := by
  have eX : ∀ i, 1 ≤ i → i < m.nBodies → W.X_lambda i = W'.X_lambda i := fun i h1 h2 => by
    rw [h.jX i h1 h2, h'.jX i h1 h2, (hj i h1 h2).1]
  have evJ : ∀ i, 1 ≤ i → i < m.nBodies → W.v_J i = W'.v_J i := fun i h1 h2 => by
    rw [h.jvJ i h1 h2, h'.jvJ i h1 h2, (hj i h1 h2).2.1]
  have ecJ : ∀ i, 1 ≤ i → i < m.nBodies → W.c_J i = W'.c_J i := fun i h1 h2 => by
    rw [h.jcJ i h1 h2, h'.jcJ i h1 h2, (hj i h1 h2).2.2.1]
  have eS : ∀ i, 1 ≤ i → i < m.nBodies → m.arity i = .one → W.S i = W'.S i :=
    fun i h1 h2 ha => by rw [h.jS i h1 h2, h'.jS i h1 h2, (hj i h1 h2).2.2.2.1 ha]
  have eS3 : ∀ i, 1 ≤ i → i < m.nBodies → m.arity i = .three → W.S3 i = W'.S3 i :=
    fun i h1 h2 ha => by rw [h.jS3 i h1 h2, h'.jS3 i h1 h2, (hj i h1 h2).2.2.2.2 ha]
  have ecS : ∀ i, 1 ≤ i → i < m.nBodies → (m.joint i).jt = .custom →
      W.cS (m.joint i).customIdx = W'.cS (m.joint i).customIdx := fun i h1 h2 hcu => by
    rw [h.jcS i h1 h2 hcu, h'.jcS i h1 h2 hcu, jcalc_cS, jcalc_cS, if_pos hcu, if_pos hcu,
      upd_same, upd_same]
  have main : ∀ i, i < m.nBodies →
      W.v i = W'.v i ∧ W.a i = W'.a i ∧ (fext.isSome → W.X_base i = W'.X_base i) := by
    intro i
    induction i using Nat.strongRecOn with
    | _ i ih =>
      intro h2
      by_cases h1 : 1 ≤ i
      · have hl := htree i h1 h2
        obtain ⟨iv, ia, ib⟩ := ih (m.lam i) hl (by omega)
        have hv : W.v i = W'.v i := by
          rw [h.v i h1 h2, h'.v i h1 h2, eX i h1 h2, iv, evJ i h1 h2]
        have hcc : W.c i = W'.c i := by
          rw [h.c i h1 h2, h'.c i h1 h2, ecJ i h1 h2, hv, evJ i h1 h2]
        refine ⟨hv, ?_, fun hs => ?_⟩
        · rw [h.a i h1 h2 (harity i h1 h2), h'.a i h1 h2 (harity i h1 h2), eX i h1 h2, ia, hcc,
            Sqdd_congr m W W' i qdd (eS i h1 h2) (eS3 i h1 h2) (ecS i h1 h2)]
        · rw [hf.xb hs i h1 h2, hf'.xb hs i h1 h2, eX i h1 h2, ib hs]
      · have : i = 0 := by omega
        subst this
        refine ⟨by rw [h.v0, h'.v0], by rw [h.a0, h'.a0], fun hs => ?_⟩
        rw [hf.xb0, hf'.xb0, hb hs]
  intro i h1 h2
  obtain ⟨hv, ha, hxb⟩ := main i h2
  refine ⟨eX i h1 h2, Scols_congr m W W' i (eS i h1 h2) (eS3 i h1 h2) (ecS i h1 h2), ?_, hv, ha⟩
  rw [hf.f i h1 h2, hf'.f i h1 h2]
  unfold netForce bodyForce
  cases fext with
  | none => dsimp only; rw [hv, ha]
  | some fe => dsimp only; rw [hv, ha, hxb rfl]

end Unique

section BwdCongr
variable {α : Type} [Field α]

theorem tauWrite_congr (m : ModelS α) (W W' : WS α) (i : Nat) (f : SV α) (t : VecN α)
    (h : W.Scols m i = W'.Scols m i) : W.tauWrite m i f t = W'.tauWrite m i f t := by
  funext x
  rw [tauWrite_apply, tauWrite_apply, h]

/-- the accumulated forces depend only on `f` and `X_lambda` of the bodies `1..n-1` -/
theorem rneaFtot_congr (m : ModelS α) (W W' : WS α) (hX : ∀ i, 1 ≤ i → i < m.nBodies → W.X_lambda i = W'.X_lambda i)
    (hf : ∀ i, 1 ≤ i → i < m.nBodies → W.f i = W'.f i) :
    ∀ i, 1 ≤ i → i < m.nBodies → rneaFtot m W i = rneaFtot m W' i := by
  unfold rneaFtot
  refine forDown_sim
    (fun (acc acc' : Nat → SV α) => ∀ i, 1 ≤ i → i < m.nBodies → acc i = acc' i) _ _ _ _
    (fun i acc acc' hi1 hi2 hR => ?_) W.f W'.f hf
  have i1 : 1 ≤ i := by omega
  have i2 : i < m.nBodies := by omega
  unfold bwdBody
  by_cases h0 : m.lam i ≠ 0
  · rw [if_pos h0, if_pos h0]
    intro j j1 j2
    by_cases hj : j = m.lam i
    · subst hj
      rw [upd_same, upd_same, hR _ j1 j2, hR i i1 i2]
      dsimp only
      rw [hX i i1 i2]
    · rw [upd_other _ _ _ _ hj, upd_other _ _ _ _ hj]; exact hR j j1 j2
  · rw [if_neg h0, if_neg h0]; exact hR

/-- the output of the backward pass depends only on `f`, `X_lambda` and the columns of `S` of the
    bodies `1..n-1` -/
theorem rneaBackward_congr (m : ModelS α) (htree : ∀ i, 1 ≤ i → i < m.nBodies → m.lam i < i)
    (W W' : WS α) (tau : VecN α)
    (hX : ∀ i, 1 ≤ i → i < m.nBodies → W.X_lambda i = W'.X_lambda i)
    (hS : ∀ i, 1 ≤ i → i < m.nBodies → W.Scols m i = W'.Scols m i)
    (hf : ∀ i, 1 ≤ i → i < m.nBodies → W.f i = W'.f i) :
    (rneaBackward m W tau).2 = (rneaBackward m W' tau).2 := by
  rw [rneaBackward_eq m W tau htree, rneaBackward_eq m W' tau htree]
  dsimp only
  refine forDown_congr _ _ _ _ (fun i t hi1 hi2 => ?_) tau
  have i1 : 1 ≤ i := by omega
  have i2 : i < m.nBodies := by omega
  rw [rneaFtot_congr m W W' hX hf i i1 i2, tauWrite_congr m W W' i _ t (hS i i1 i2)]

end BwdCongr

section WSJdef
variable {α : Type} [Field α]

/-- joint `i` is of a type `jcalc` handles and its `dof` field matches the type (what the `Joint`
    constructors establish): 1 for the single-axis types, 3 for the 3-DoF types -/
def JointOK (m : ModelS α) (i : Nat) : Prop :=
  match (m.joint i).jt with
  | .revoluteX | .revoluteY | .revoluteZ | .revolute | .prismatic | .helical => (m.joint i).dof = 1
  | .spherical | .eulerZYX | .eulerXYZ | .eulerYXZ | .eulerZXY | .translationXYZ =>
      (m.joint i).dof = 3
  | .custom => True
  | _ => False

/-- The construction-time workspace entries of joint `i` that `jcalc` and the dynamics loops read
    without ever writing them (they are set once by `AddBody` and must survive in every workspace
    handed to a routine): the fixed axis `S_i` of the single-axis joints, the inactive components
    of `v_J` of the `RevoluteX/Y/Z` joints, `c_J = 0` where `jcalc` does not write it, and the
    entries of `multdof3_S[i]` that the joint's `jcalc` leaves alone (zero). -/
def WSJat (m : ModelS α) (w : WS α) (i : Nat) : Prop :=
  match (m.joint i).jt with
  | .revoluteX => w.S i = sv6 1 0 0 0 0 0 ∧ (w.v_J i).w.y = 0 ∧ (w.v_J i).w.z = 0 ∧
      (w.v_J i).v = V3.zero ∧ w.c_J i = SV.zero
  | .revoluteY => w.S i = sv6 0 1 0 0 0 0 ∧ (w.v_J i).w.x = 0 ∧ (w.v_J i).w.z = 0 ∧
      (w.v_J i).v = V3.zero ∧ w.c_J i = SV.zero
  | .revoluteZ => w.S i = sv6 0 0 1 0 0 0 ∧ (w.v_J i).w.x = 0 ∧ (w.v_J i).w.y = 0 ∧
      (w.v_J i).v = V3.zero ∧ w.c_J i = SV.zero
  | .revolute | .prismatic => w.S i = (m.joint i).axes.headD SV.zero ∧ w.c_J i = SV.zero
  | .spherical => sphericalS (w.S3 i) = sphericalS M63.zero ∧ w.c_J i = SV.zero
  | .eulerZYX => ∀ c1 s1 c2 s2, eulerZYX_S (w.S3 i) c1 s1 c2 s2 = eulerZYX_S M63.zero c1 s1 c2 s2
  | .eulerXYZ => ∀ c1 s1 c2 s2, eulerXYZ_S (w.S3 i) c1 s1 c2 s2 = eulerXYZ_S M63.zero c1 s1 c2 s2
  | .eulerYXZ => ∀ c1 s1 c2 s2, eulerYXZ_S (w.S3 i) c1 s1 c2 s2 = eulerYXZ_S M63.zero c1 s1 c2 s2
  | .eulerZXY => ∀ c1 s1 c2 s2, eulerZXY_S (w.S3 i) c1 s1 c2 s2 = eulerZXY_S M63.zero c1 s1 c2 s2
  | .translationXYZ => translationS (w.S3 i) = translationS M63.zero
  | _ => True

/-- `JointOK` and `WSJat` for every joint of the model -/
def WSJ (m : ModelS α) (w : WS α) : Prop :=
  ∀ i, 1 ≤ i → i < m.nBodies → JointOK m i ∧ WSJat m w i

omit [Field α] in
theorem arity_of_dof1 (m : ModelS α) (i : Nat) (hc : (m.joint i).jt ≠ .custom)
    (hd : (m.joint i).dof = 1) : m.arity i = .one := by
  unfold ModelS.arity; dsimp only; rw [if_neg hc, if_pos hd]

omit [Field α] in
theorem arity_of_dof3 (m : ModelS α) (i : Nat) (hc : (m.joint i).jt ≠ .custom)
    (hd : (m.joint i).dof = 3) : m.arity i = .three := by
  unfold ModelS.arity; dsimp only; rw [if_neg hc, if_neg (by omega), if_pos hd]

omit [Field α] in
theorem JointOK.arity_ne_other {m : ModelS α} {i : Nat} (h : JointOK m i) : m.arity i ≠ .other := by
  unfold JointOK at h
  cases hjt : (m.joint i).jt <;> simp only [hjt] at h
  case custom => rw [(arity_custom_iff m i).2 hjt]; exact fun e => nomatch e
  all_goals first
    | (rw [arity_of_dof1 m i (by rw [hjt]; exact fun e => nomatch e) h]; exact fun e => nomatch e)
    | (rw [arity_of_dof3 m i (by rw [hjt]; exact fun e => nomatch e) h]; exact fun e => nomatch e)

omit [Field α] in
theorem JointOK.hasJcalc {m : ModelS α} {i : Nat} (h : JointOK m i) :
    (m.joint i).jt.hasJcalc = true := by
  unfold JointOK at h
  cases hjt : (m.joint i).jt <;> simp only [hjt] at h <;> rfl

/-- (independence of the incoming workspace) under `WSJ` the row `jcalc` computes for joint `i`
    does not depend on the workspace -/
theorem jcalc_WSJ_indep (m : ModelS α) (w w' : WS α) (i : Nat) (st : QS α) (qd : VecN α)
    (hj : JointOK m i) (h : WSJat m w i) (h' : WSJat m w' i) :
    (jcalc m w i st qd).X_lambda i = (jcalc m w' i st qd).X_lambda i ∧
    (jcalc m w i st qd).v_J i = (jcalc m w' i st qd).v_J i ∧
    (jcalc m w i st qd).c_J i = (jcalc m w' i st qd).c_J i ∧
    (m.arity i = .one → (jcalc m w i st qd).S i = (jcalc m w' i st qd).S i) ∧
    (m.arity i = .three → (jcalc m w i st qd).S3 i = (jcalc m w' i st qd).S3 i) := by
  unfold WSJat at h h'
  unfold JointOK at hj
  cases hjt : (m.joint i).jt <;> simp only [hjt] at hj h h'
  case custom =>
    have ha := (arity_custom_iff m i).2 hjt
    unfold jcalc; dsimp only; simp only [hjt, upd_same, true_and]
    exact ⟨fun e => (by rw [ha] at e; cases e), fun e => (by rw [ha] at e; cases e)⟩
  case revoluteX =>
    have ha := arity_of_dof1 m i (by rw [hjt]; exact fun e => nomatch e) hj
    obtain ⟨a1, a2, a3, a4, a5⟩ := h; obtain ⟨b1, b2, b3, b4, b5⟩ := h'
    unfold jcalc; dsimp only
    simp only [hjt, upd_same, a1, a2, a3, a4, a5, b1, b2, b3, b4, b5, true_and, implies_true]
    exact fun e => by rw [ha] at e; cases e
  case revoluteY =>
    have ha := arity_of_dof1 m i (by rw [hjt]; exact fun e => nomatch e) hj
    obtain ⟨a1, a2, a3, a4, a5⟩ := h; obtain ⟨b1, b2, b3, b4, b5⟩ := h'
    unfold jcalc; dsimp only
    simp only [hjt, upd_same, a1, a2, a3, a4, a5, b1, b2, b3, b4, b5, true_and, implies_true]
    exact fun e => by rw [ha] at e; cases e
  case revoluteZ =>
    have ha := arity_of_dof1 m i (by rw [hjt]; exact fun e => nomatch e) hj
    obtain ⟨a1, a2, a3, a4, a5⟩ := h; obtain ⟨b1, b2, b3, b4, b5⟩ := h'
    unfold jcalc; dsimp only
    simp only [hjt, upd_same, a1, a2, a3, a4, a5, b1, b2, b3, b4, b5, true_and, implies_true]
    exact fun e => by rw [ha] at e; cases e
  case revolute =>
    have ha := arity_of_dof1 m i (by rw [hjt]; exact fun e => nomatch e) hj
    obtain ⟨a1, a2⟩ := h; obtain ⟨b1, b2⟩ := h'
    unfold jcalc; dsimp only
    simp only [hjt, upd_same, a1, a2, b1, b2, true_and, implies_true]
    exact fun e => by rw [ha] at e; cases e
  case prismatic =>
    have ha := arity_of_dof1 m i (by rw [hjt]; exact fun e => nomatch e) hj
    obtain ⟨a1, a2⟩ := h; obtain ⟨b1, b2⟩ := h'
    unfold jcalc; dsimp only
    simp only [hjt, upd_same, a1, a2, b1, b2, true_and, implies_true]
    exact fun e => by rw [ha] at e; cases e
  case helical =>
    have ha := arity_of_dof1 m i (by rw [hjt]; exact fun e => nomatch e) hj
    unfold jcalc; dsimp only
    simp only [hjt, upd_same, true_and, implies_true]
    exact fun e => by rw [ha] at e; cases e
  case spherical =>
    have ha := arity_of_dof3 m i (by rw [hjt]; exact fun e => nomatch e) hj
    obtain ⟨a1, a2⟩ := h; obtain ⟨b1, b2⟩ := h'
    unfold jcalc; dsimp only
    simp only [hjt, upd_same, a1, a2, b1, b2, true_and, implies_true, and_true]
    exact fun e => by rw [ha] at e; cases e
  case eulerZYX =>
    have ha := arity_of_dof3 m i (by rw [hjt]; exact fun e => nomatch e) hj
    unfold jcalc; dsimp only
    simp only [hjt, upd_same, h, h', true_and, implies_true, and_true]
    exact fun e => by rw [ha] at e; cases e
  case eulerXYZ =>
    have ha := arity_of_dof3 m i (by rw [hjt]; exact fun e => nomatch e) hj
    unfold jcalc; dsimp only
    simp only [hjt, upd_same, h, h', true_and, implies_true, and_true]
    exact fun e => by rw [ha] at e; cases e
  case eulerYXZ =>
    have ha := arity_of_dof3 m i (by rw [hjt]; exact fun e => nomatch e) hj
    unfold jcalc; dsimp only
    simp only [hjt, upd_same, h, h', true_and, implies_true, and_true]
    exact fun e => by rw [ha] at e; cases e
  case eulerZXY =>
    have ha := arity_of_dof3 m i (by rw [hjt]; exact fun e => nomatch e) hj
    unfold jcalc; dsimp only
    simp only [hjt, upd_same, h, h', true_and, implies_true, and_true]
    exact fun e => by rw [ha] at e; cases e
  case translationXYZ =>
    have ha := arity_of_dof3 m i (by rw [hjt]; exact fun e => nomatch e) hj
    unfold jcalc; dsimp only
    simp only [hjt, upd_same, h, h', true_and, implies_true, and_true]
    exact fun e => by rw [ha] at e; cases e

theorem JEq_of_WSJ (m : ModelS α) (st : QS α) (qd : VecN α) (w w' : WS α) (h : WSJ m w)
    (h' : WSJ m w') : JEq m st qd w w' :=
  fun i h1 h2 => jcalc_WSJ_indep m w w' i st qd (h i h1 h2).1 (h i h1 h2).2 (h' i h1 h2).2

end WSJdef

section T5
variable {α : Type} [Field α]

/-- the `tau` entries owned by some joint do not depend on the incoming `tau` -/
theorem rneaBackward_tau_indep (m : ModelS α) (htree : ∀ i, 1 ≤ i → i < m.nBodies → m.lam i < i)
    (W : WS α) (t t' : VecN α)
    (hdisj : ∀ i j x, 1 ≤ i → i < m.nBodies → 1 ≤ j → j < m.nBodies →
      owns m W i x → owns m W j x → i = j)
    (x : Nat) (hx : ∃ i, 1 ≤ i ∧ i < m.nBodies ∧ owns m W i x) :
    (rneaBackward m W t).2 x = (rneaBackward m W t').2 x := by
  obtain ⟨i, h1, h2, ho⟩ := hx
  rw [rneaBackward_eq m W t htree, rneaBackward_eq m W t' htree]
  exact (tauLoop_owned m W _ t hdisj i x h1 h2 ho).trans
    (tauLoop_owned m W _ t' hdisj i x h1 h2 ho).symm

omit [Field α] in
theorem customCalc_length {β : Type} [Field β] (kind : CustomKind) (k : Nat) (st : QS β)
    (qd : VecN β) : (customCalc kind k st qd).2.1.length = kind.dof := by
  cases kind <;> rfl

/-- after a forward pass every joint of a well-formed model owns exactly `dof` entries of `tau` -/
theorem scols_length_closed (m : ModelS α) (hwf : m.WF) (st : QS α) (qd qdd : VecN α)
    (w W : WS α) (h : FwdClosed m st qd qdd w W)
    (harity : ∀ i, 1 ≤ i → i < m.nBodies → m.arity i ≠ .other) :
    ∀ i, 1 ≤ i → i < m.nBodies → (W.Scols m i).length = (m.joint i).dof := by
  intro i h1 h2
  refine scols_length m W i (harity i h1 h2) (fun hcu => ?_)
  rw [h.jcS i h1 h2 hcu, jcalc_cS, if_pos hcu, upd_same, customCalc_length]
  exact ((hwf.custom_ok i h2) hcu).2.symm

end T5

section T5b
variable {α : Type} [Field α] [DecidableEq α]

/-- `NonlinearEffects` = `InverseDynamics` with `q̈ = 0`, on the entries `< dofCount` of `tau`, for
    arbitrary (unrelated) entry workspaces and incoming `tau`s -/
theorem ne_eq_id0 (m : ModelS α) (hwf : m.WF) (hc : CustomInj m)
    (hperm : (m.updateOrder.drop 1).Perm (List.range' 1 (m.nBodies - 1)))
    (w w' : WS α) (st : QS α) (qd t0 t0' : VecN α) (fext : Option (Nat → SV α))
    (hok : ∀ i, 1 ≤ i → i < m.nBodies → JointOK m i)
    (hj : JEq m st qd w w')
    (hxb : fext.isSome → w.X_base 0 = XT.id ∧ w'.X_base 0 = XT.id)
    (k : Nat) (hk : k < m.dofCount) :
    (nonlinearEffects m w st qd t0 fext).2 k
      = (inverseDynamics m w' st qd zeroVec t0' fext).2 k := by
  have htree := hwf.lam_lt
  have harity : ∀ i, 1 ≤ i → i < m.nBodies → m.arity i ≠ .other :=
    fun i h1 h2 => (hok i h1 h2).arity_ne_other
  obtain ⟨hN, hNf⟩ := neForward_closed m hc htree hperm w st qd fext (fun hs => (hxb hs).1)
  obtain ⟨hI, hIf, _⟩ := idForward_closed m hc htree w' st qd zeroVec fext
  have hu := fwd_unique m htree harity st qd zeroVec fext w w' _ _ hN hI hNf hIf hj
    (fun hs => by rw [(hxb hs).1, (hxb hs).2])
  rw [nonlinearEffects_eq, inverseDynamics_eq]
  rw [rneaBackward_congr m htree _ _ t0 (fun i h1 h2 => (hu i h1 h2).1)
    (fun i h1 h2 => (hu i h1 h2).2.1) (fun i h1 h2 => (hu i h1 h2).2.2.1)]
  have hlen := scols_length_closed m hwf st qd zeroVec w' _ hI harity
  exact rneaBackward_tau_indep m htree _ t0 t0' (owns_disjoint_of_WF m _ hwf hlen) k
    (owns_cover_of_WF m _ hwf hlen k hk)

end T5b

section Subtree
variable {β : Type} [Add β] (z : β) (lam : Nat → Nat) (T : Nat → β → β)

/-- transport of a value `x` sitting at body `k` up the tree to body `i` (composite of the `T`s on
    the path from `k` to `i`); `z` if `i` is not on the path from `k` to the root (fuel recursion:
    any fuel `≥ k` gives the same value) -/
def upTo (i : Nat) : Nat → Nat → β → β
  | 0, k, x => if k = i then x else z
  | fuel+1, k, x => if k = i then x else if k < i then z else upTo i fuel (lam k) (T k x)

omit [Add β] in
theorem upTo_self (i fuel : Nat) (x : β) : upTo z lam T i fuel i x = x := by
  cases fuel <;> simp [upTo]

omit [Add β] in
theorem upTo_below (i fuel k : Nat) (hk : k < i) (x : β) : upTo z lam T i fuel k x = z := by
  cases fuel <;> simp only [upTo]
  · rw [if_neg (by omega)]
  · rw [if_neg (by omega), if_pos hk]

omit [Add β] in
theorem upTo_fuel (n : Nat) (htree : ∀ c, 1 ≤ c → c ≤ n → lam c < c) (i k : Nat) (hk : k ≤ n)
    (fuel : Nat) (hf : k ≤ fuel) (x : β) :
    upTo z lam T i fuel k x = upTo z lam T i k k x := by
  induction k using Nat.strongRecOn generalizing fuel x with
  | _ k ih =>
    by_cases h1 : k = i
    · subst h1; rw [upTo_self, upTo_self]
    · by_cases h2 : k < i
      · rw [upTo_below _ _ _ _ _ _ h2, upTo_below _ _ _ _ _ _ h2]
      · have hl := htree k (by omega) hk
        obtain ⟨f, rfl⟩ : ∃ f, fuel = f + 1 := ⟨fuel - 1, by omega⟩
        obtain ⟨k', rfl⟩ : ∃ k', k = k' + 1 := ⟨k - 1, by omega⟩
        simp only [upTo]
        rw [if_neg h1, if_neg h2, if_neg h1, if_neg h2]
        rw [ih (lam (k' + 1)) hl (by omega) f (by omega), ih (lam (k' + 1)) hl (by omega) k' (by omega)]

omit [Add β] in
theorem upTo_unfold (n : Nat) (htree : ∀ c, 1 ≤ c → c ≤ n → lam c < c) (i k : Nat) (hk : k ≤ n)
    (hik : i < k) (fuel : Nat) (hf : k ≤ fuel) (x : β) :
    upTo z lam T i fuel k x = upTo z lam T i fuel (lam k) (T k x) := by
  have hl := htree k (by omega) hk
  obtain ⟨f, rfl⟩ : ∃ f, fuel = f + 1 := ⟨fuel - 1, by omega⟩
  rw [upTo, if_neg (by omega), if_neg (by omega)]
  rw [upTo_fuel z lam T n htree i (lam k) (by omega) f (by omega),
    upTo_fuel z lam T n htree i (lam k) (by omega) (f + 1) (by omega)]

variable {z}

theorem upTo_add (L : AddLaws z) (hT : ∀ c a b, T c (a + b) = T c a + T c b) (i fuel k : Nat)
    (a b : β) : upTo z lam T i fuel k (a + b) = upTo z lam T i fuel k a + upTo z lam T i fuel k b := by
  induction fuel generalizing k a b with
  | zero =>
    simp only [upTo]; split
    · rfl
    · exact (L.add_zero z).symm
  | succ f ih =>
    simp only [upTo]
    split
    · rfl
    · split
      · exact (L.add_zero z).symm
      · rw [hT, ih]

theorem lsum_all_zero (L : AddLaws z) (f : Nat → β) (l : List Nat) (h : ∀ c ∈ l, f c = z) :
    lsum z f l = z := by
  induction l with
  | nil => rfl
  | cons c l ih =>
    rw [lsum, h c (List.mem_cons_self ..), ih (fun c hc => h c (List.mem_cons_of_mem _ hc)),
      L.add_zero]

/-- (subtree sum unfolded along paths) the backward accumulation leaves in entry `i` the sum over
    all bodies `k` of the start values transported from `k` up to `i` (zero outside the subtree
    of `i`) -/
theorem bwd_subtree_sum (L : AddLaws z) (hT : ∀ c a b, T c (a + b) = T c a + T c b)
    (n : Nat) (htree : ∀ c, 1 ≤ c → c ≤ n → lam c < c) (fuel : Nat) (hf : n ≤ fuel)
    (acc0 : Nat → β) (i : Nat) (h1 : 1 ≤ i) (h2 : i ≤ n) :
    forDown n n (bwdBody lam (fun c a x => a + T c x)) acc0 i =
      lsum z (fun k => upTo z lam T i fuel k (acc0 k)) (List.range' 1 n) := by
  induction n generalizing acc0 with
  | zero => omega
  | succ n ih =>
    have hl := htree (n + 1) (by omega) (Nat.le_refl _)
    have htree' : ∀ c, 1 ≤ c → c ≤ n → lam c < c := fun c h1 h2 => htree c h1 (by omega)
    rw [List.range'_concat, lsum_append L, lsum, lsum, L.add_zero]
    have h1n : 1 + 1 * n = n + 1 := by omega
    rw [h1n]
    by_cases hi : i = n + 1
    · subst hi
      rw [bwd_outside lam _ (n + 1) (n + 1) (Nat.le_refl _) htree acc0 (n + 1) (Or.inr (Nat.le_refl _)),
        upTo_self, lsum_all_zero L _ _ (fun c hc => ?_), L.zero_add]
      rw [List.mem_range'_1] at hc
      exact upTo_below z lam T _ _ _ (by omega) _
    · have hin : i ≤ n := by omega
      rw [forDown]
      show forDown n n _ (bwdBody lam (fun c a x => a + T c x) (n + 1) acc0) i = _
      rw [ih htree' (by omega) _ hin]
      rw [upTo_unfold z lam T (n + 1) htree i (n + 1) (Nat.le_refl _) (by omega) fuel hf]
      by_cases hp : lam (n + 1) = 0
      · have e : bwdBody lam (fun c a x => a + T c x) (n + 1) acc0 = acc0 := by
          unfold bwdBody; rw [if_neg (by omega)]
        rw [e, hp, upTo_below z lam T i fuel 0 (by omega), L.add_zero]
      · have e : bwdBody lam (fun c a x => a + T c x) (n + 1) acc0 =
            upd acc0 (lam (n + 1)) (acc0 (lam (n + 1)) + T (n + 1) (acc0 (n + 1))) := by
          unfold bwdBody; rw [if_pos hp]
        rw [e]
        refine lsum_bump L (fun k => upTo z lam T i fuel k (acc0 k)) _ (lam (n + 1)) _ _
          (List.nodup_range' 1 (by omega)) (by rw [List.mem_range'_1]; omega) ?_ ?_
        · intro c hc
          show upTo z lam T i fuel c (upd _ _ _ c) = _
          rw [upd_other _ _ _ _ hc]
        · show upTo z lam T i fuel _ (upd _ _ _ _) = _
          rw [upd_same, upTo_add lam T L hT]

end Subtree

section DAlembert
variable {α : Type} [Field α]

/-- the motion vector `s` of body `i` seen from body `k`: `ᵏX_i s`, the product of the `X_λ` along
    the path from `i` down to `k`; zero if `k` is not in the subtree of `i` (the partial velocity
    of body `k` with respect to a joint rate of joint `i`, in body-`k` coordinates) -/
def downTo (X : Nat → XT α) (lam : Nat → Nat) (i : Nat) : Nat → Nat → SV α → SV α
  | 0, k, s => if k = i then s else SV.zero
  | fuel+1, k, s =>
    if k = i then s else if k < i then SV.zero else (X k).apply (downTo X lam i fuel (lam k) s)

theorem sv_dot_zero (s : SV α) : s.dot SV.zero = 0 := by simp only [alg]; grind
theorem sv_zero_dot (x : SV α) : (SV.zero : SV α).dot x = 0 := by simp only [alg]; grind
theorem sv_dot_add (s a b : SV α) : s.dot (a + b) = s.dot a + s.dot b := by
  simp only [alg]; grind

/-- duality of the two transports: `s · (Xᵀ…Xᵀ x) = (X…X s) · x` -/
theorem dot_upTo (X : Nat → XT α) (lam : Nat → Nat) (i fuel k : Nat) (s x : SV α) :
    s.dot (upTo SV.zero lam (fun c y => (X c).applyTranspose y) i fuel k x)
      = (downTo X lam i fuel k s).dot x := by
  induction fuel generalizing k x with
  | zero =>
    simp only [upTo, downTo]; split
    · rfl
    · rw [sv_dot_zero, sv_zero_dot]
  | succ f ih =>
    simp only [upTo, downTo]
    split
    · rfl
    · split
      · rw [sv_dot_zero, sv_zero_dot]
      · rw [ih, C16.apply_dot_eq_dot_applyTranspose]

theorem sv_dot_lsum (s : SV α) (f : Nat → SV α) (l : List Nat) :
    s.dot (lsum SV.zero f l) = lsum 0 (fun k => s.dot (f k)) l :=
  lsum_map SV.zero 0 (fun x => s.dot x) (sv_dot_zero s) (fun a b => sv_dot_add s a b) f l

/-- the accumulated force of body `i` is the sum over the bodies of its subtree of their own
    forces transported to `i` -/
theorem rneaFtot_subtree (m : ModelS α) (w : WS α)
    (htree : ∀ i, 1 ≤ i → i < m.nBodies → m.lam i < i) (fuel : Nat) (hf : m.nBodies - 1 ≤ fuel)
    (i : Nat) (h1 : 1 ≤ i) (h2 : i < m.nBodies) :
    rneaFtot m w i = lsum SV.zero
      (fun k => upTo SV.zero m.lam (fun c y => (w.X_lambda c).applyTranspose y) i fuel k (w.f k))
      (List.range' 1 (m.nBodies - 1)) :=
  bwd_subtree_sum m.lam (fun c y => (w.X_lambda c).applyTranspose y) L12.sv_addLaws
    (fun c a b => L12.applyTranspose_add _ a b) (m.nBodies - 1)
    (fun c h1 h2 => htree c h1 (by omega)) fuel hf w.f i h1 (by omega)

/-- (d'Alembert) a column `s` of `S_i` against the accumulated force of body `i` is the sum over
    all bodies `k` of (partial velocity of body `k`) · (net force of body `k`) -/
theorem dot_rneaFtot (m : ModelS α) (w : WS α)
    (htree : ∀ i, 1 ≤ i → i < m.nBodies → m.lam i < i) (fuel : Nat) (hf : m.nBodies - 1 ≤ fuel)
    (i : Nat) (h1 : 1 ≤ i) (h2 : i < m.nBodies) (s : SV α) :
    s.dot (rneaFtot m w i) =
      lsum 0 (fun k => (downTo w.X_lambda m.lam i fuel k s).dot (w.f k))
        (List.range' 1 (m.nBodies - 1)) := by
  rw [rneaFtot_subtree m w htree fuel hf i h1 h2, sv_dot_lsum]
  exact lsum_congr _ _ _ (fun k _ => dot_upTo w.X_lambda m.lam i fuel k s (w.f k))

end DAlembert

section WSJx
variable {α : Type} [Field α]

/-- the fixed axis of a single-axis joint type other than helical -/
def fixedAxis (m : ModelS α) (i : Nat) : SV α :=
  match (m.joint i).jt with
  | .revoluteX => sv6 1 0 0 0 0 0
  | .revoluteY => sv6 0 1 0 0 0 0
  | .revoluteZ => sv6 0 0 1 0 0 0
  | _ => (m.joint i).axes.headD SV.zero

/-- explicit `jcalc` data of the fixed-axis joints under `WSJ`: `S_i` is the axis, `v_J = S_i q̇_i`,
    `c_J = 0` -/
theorem jcalc_WSJ_fixed_axis (m : ModelS α) (w : WS α) (i : Nat) (st : QS α) (qd : VecN α)
    (hjt : (m.joint i).jt = .revoluteX ∨ (m.joint i).jt = .revoluteY ∨ (m.joint i).jt = .revoluteZ ∨
      (m.joint i).jt = .revolute ∨ (m.joint i).jt = .prismatic)
    (h : WSJat m w i) :
    (jcalc m w i st qd).S i = fixedAxis m i ∧
    (jcalc m w i st qd).v_J i = qd (m.joint i).qIndex * fixedAxis m i ∧
    (jcalc m w i st qd).c_J i = SV.zero := by
  unfold WSJat at h
  unfold fixedAxis jcalc
  dsimp only
  rcases hjt with e | e | e | e | e <;> simp only [e] at h ⊢ <;> simp only [upd_same]
  · obtain ⟨a1, a2, a3, a4, a5⟩ := h
    refine ⟨a1, ?_, a5⟩
    rw [a2, a3, a4]; ext <;> simp only [alg, sv6] <;> grind
  · obtain ⟨a1, a2, a3, a4, a5⟩ := h
    refine ⟨a1, ?_, a5⟩
    rw [a2, a3, a4]; ext <;> simp only [alg, sv6] <;> grind
  · obtain ⟨a1, a2, a3, a4, a5⟩ := h
    refine ⟨a1, ?_, a5⟩
    rw [a2, a3, a4]; ext <;> simp only [alg, sv6] <;> grind
  · exact ⟨h.1, by rw [h.1], h.2⟩
  · exact ⟨h.1, by rw [h.1], h.2⟩

end WSJx

section PathX
variable {α : Type} [Field α]

/-- body `k` lies in the subtree of body `i` (fuel recursion along the parent chain) -/
def inSub (lam : Nat → Nat) (i : Nat) : Nat → Nat → Prop
  | 0, k => k = i
  | fuel+1, k => k = i ∨ (i < k ∧ inSub lam i fuel (lam k))

/-- `ᵏX_i`: the product of the `X_λ` along the path from `i` down to `k` -/
def pathX (X : Nat → XT α) (lam : Nat → Nat) (i : Nat) : Nat → Nat → XT α
  | 0, _ => XT.id
  | fuel+1, k => if k = i then XT.id else X k * pathX X lam i fuel (lam k)

theorem pathX_isRot (X : Nat → XT α) (lam : Nat → Nat) (i N : Nat)
    (htree : ∀ c, 1 ≤ c → c ≤ N → lam c < c)
    (hX : ∀ c, i < c → c ≤ N → (X c).E.IsRot) (fuel k : Nat) (hk : k ≤ N)
    (h : inSub lam i fuel k) : (pathX X lam i fuel k).E.IsRot := by
  induction fuel generalizing k with
  | zero => exact M3.isRot_one
  | succ f ih =>
    simp only [inSub] at h
    simp only [pathX]; split
    · exact M3.isRot_one
    · rename_i hki
      rcases h with h | h
      · exact absurd h hki
      · have := htree k (by omega) hk
        exact (hX k h.1 hk).mul (ih _ (by omega) h.2)

theorem id_apply (s : SV α) : (XT.id : XT α).apply s = s := by alg_ext

/-- inside the subtree of `i`, `downTo` is the path product `ᵏX_i` applied to the motion vector
    (the `X_λ` strictly below `i`, up to body `N`, being rotations + translations) -/
theorem downTo_eq_pathX (X : Nat → XT α) (lam : Nat → Nat) (i N : Nat)
    (htree : ∀ c, 1 ≤ c → c ≤ N → lam c < c)
    (hX : ∀ c, i < c → c ≤ N → (X c).E.IsRot) (fuel k : Nat) (hk : k ≤ N)
    (h : inSub lam i fuel k) (s : SV α) :
    downTo X lam i fuel k s = (pathX X lam i fuel k).apply s := by
  induction fuel generalizing k with
  | zero =>
    simp only [inSub] at h
    simp only [downTo, pathX, if_pos h, id_apply]
  | succ f ih =>
    simp only [inSub] at h
    simp only [downTo, pathX]
    by_cases hki : k = i
    · rw [if_pos hki, if_pos hki, id_apply]
    · rcases h with h | h
      · exact absurd h hki
      · have := htree k (by omega) hk
        rw [if_neg hki, if_neg (by omega), if_neg hki, ih _ (by omega) h.2,
          C16.mul_apply _ _ (pathX_isRot X lam i N htree hX f _ (by omega) h.2)]

/-- outside the subtree of `i` it is zero: those bodies do not move with joint `i` -/
theorem downTo_outside (X : Nat → XT α) (lam : Nat → Nat) (i fuel k : Nat)
    (h : ¬ inSub lam i fuel k) (s : SV α) : downTo X lam i fuel k s = SV.zero := by
  induction fuel generalizing k with
  | zero =>
    simp only [inSub] at h
    simp only [downTo, if_neg h]
  | succ f ih =>
    simp only [inSub, _root_.not_or, _root_.not_and] at h
    simp only [downTo]
    rw [if_neg h.1]
    split
    · rfl
    · rename_i hlt
      rw [ih _ (h.2 (by have := h.1; omega)), apply_zero]

end PathX

section Filter
variable {β : Type} [Add β] {z : β}

theorem lsum_filter (L : AddLaws z) (f : Nat → β) (p : Nat → Bool) (l : List Nat)
    (h : ∀ c ∈ l, p c = false → f c = z) : lsum z f (l.filter p) = lsum z f l := by
  induction l with
  | nil => rfl
  | cons c l ih =>
    have ih' := ih (fun c hc => h c (List.mem_cons_of_mem _ hc))
    cases hp : p c
    · rw [List.filter_cons_of_neg (by simp [hp]), lsum, h c (List.mem_cons_self ..) hp, L.zero_add, ih']
    · rw [List.filter_cons_of_pos hp, lsum, lsum, ih']

instance inSub.dec (lam : Nat → Nat) (i : Nat) : ∀ fuel k, Decidable (inSub lam i fuel k)
  | 0, k => inferInstanceAs (Decidable (k = i))
  | f+1, k =>
    have := inSub.dec lam i f (lam k)
    inferInstanceAs (Decidable (k = i ∨ (i < k ∧ inSub lam i f (lam k))))

end Filter

end Rbdl.L01
