import RbdlProofs.Lemmas.L08Phys
/-
  C08 / C11, physical reading (part 3): one row of a loop constraint.  If row `r` of `G q̈ = γ`
  holds then `φ̈_r + accGap = Baumgarte term`, where `φ_r` is the constraint function of
  `Spec.constrPhi` evaluated on the pose jets of the motion `(q, q̇, q̈)` and `accGap` is the exact
  discrepancy of C09 (zero in the class of `C09.loop_gamma_is_phidd`).
-/
set_option linter.unusedSectionVars false
namespace Rbdl.L08Phys
open Lean.Grind Rbdl Rbdl.L05 Rbdl.L06 Rbdl.L09 Rbdl.Spec

section
variable {α : Type} [Field α] [DecidableEq α]

/-- `UpdateKinematicsCustom (NULL, NULL, q̈)` changes only `a`: the kinematic hypotheses survive -/
theorem jacHyp_ukcAcc {m : ModelS α} {W : WS α} {qd : VecN α} (h : JacHyp m W qd) (qdd : VecN α) :
    JacHyp m (updateKinematicsCustom m W none none (some qdd)) qd := by
  rw [ukcAcc_eq]
  exact ⟨h.layout, h.cols, fun i h1 hi => (h.kin i h1 hi).congr rfl rfl rfl rfl rfl rfl rfl⟩

/-- loops: `G q̈ − γ(q, q̇)` is minus the code's `γ` expression evaluated with the accelerations for
    `q̈` -/
theorem loop_Gqdd_eq_neg_gamma (c : Constr α) (hc : c.ctype = .loop) (m : ModelS α) (W : WS α)
    (st : QS α) (qd qdd : VecN α) (G : MatN α) (gam gam' : VecN α) (hJ : JacHyp m W qd)
    (hP : BodyOK m c.bodyP) (hS : BodyOK m c.bodyS) (r : Nat) (hr : hasRow c r) :
    rowDot (c.jacobian m W st G false).2 m.qdotSize r qdd
        - (c.gamma m (updateKinematicsCustom m W none none (some zeroVec)) st qd gam).2 r
      = -(c.gamma m (updateKinematicsCustom m W none none (some qdd)) st qd gam').2 r := by
  rw [loop_Gqdd_minus_gamma c hc m W st qd qdd G gam hJ hP hS r hr,
    loop_gamma_get c hc m _ st qd gam' hP.notFixed hS.notFixed r, if_pos hr,
    ukc_frameOf, ukc_vel6, ukc_vel6]
  grind

/-- **loop row, generic workspace**: if row `r` of `G q̈ = γ` holds (row of `G`, entry of `γ` as
    `CalcConstrainedSystemVariables` writes them), then `φ̈_r + accGap` is the Baumgarte term -/
theorem loop_acc_of_kkt_row (h2 : (2 : α) ≠ 0) (c : Constr α) (hc : c.ctype = .loop)
    (m : ModelS α) (W : WS α) (st : QS α) (qd qdd : VecN α) (hJ : JacHyp m W qd)
    (hP : BodyOK m c.bodyP) (hS : BodyOK m c.bodyS) (PA PB : Pose (D2 α))
    (jA : BodyJet (updateKinematicsCustom m W none none (some qdd)) c.bodyP (NodeKin.ofPose PA))
    (jB : BodyJet (updateKinematicsCustom m W none none (some qdd)) c.bodyS (NodeKin.ofPose PB))
    (r : Nat) (hr : hasRow c r)
    (hrot : (axisAt c r).w = V3.zero ∨
      ((NodeKin.ofPose (framePlacement PB c.XS)).R = (NodeKin.ofPose (framePlacement PA c.XP)).R ∧
        (NodeKin.ofPose (framePlacement PA c.XP)).R.IsRot))
    (G : MatN α) (gam err errd : VecN α)
    (hG : ∀ col, col < m.qdotSize → G r col = (c.jacobian m W st zeroMat false).2 r col)
    (hgam : gam r = (c.gamma m (updateKinematicsCustom m W none none (some zeroVec)) st qd
        (fun _ => 0)).2 r + bgTerm c err errd r)
    (hK : rowDot G m.qdotSize r qdd = gam r) :
    (loopPhi (framePlacement PA c.XP) (framePlacement PB c.XS) (axisAt c r)).d2
        + accGap (NodeKin.ofPose (framePlacement PA c.XP)) (NodeKin.ofPose (framePlacement PB c.XS))
            (NodeKin.ofPose PA).omega (axisAt c r)
      = bgTerm c err errd r := by
  have e := loop_Gqdd_eq_neg_gamma c hc m W st qd qdd zeroMat (fun _ => 0) (fun _ => 0) hJ hP hS r hr
  rw [loop_gamma_exact h2 c hc m _ st qd (fun _ => 0) hP hS PA PB jA jB r hr hrot,
    ← rowDot_congr _ _ _ _ _ hG, hK, hgam] at e
  grind

/-- a loop row of the Jacobian does not read the accelerations -/
theorem loop_rowDot_ukcAcc (c : Constr α) (hc : c.ctype = .loop) (m : ModelS α) (W : WS α)
    (st : QS α) (qdd : VecN α) (G G' : MatN α) (hP : ¬ fixedDisc ≤ c.bodyP) (r : Nat)
    (hr : hasRow c r) (x : VecN α) :
    rowDot (c.jacobian m (updateKinematicsCustom m W none none (some qdd)) st G false).2
        m.qdotSize r x
      = rowDot (c.jacobian m W st G' false).2 m.qdotSize r x := by
  rw [loop_row_dot c hc m _ st G hP r hr x, loop_row_dot c hc m W st G' hP r hr x, ukc_frameOf]
  have e1 : loopJs c m (updateKinematicsCustom m W none none (some qdd)) st = loopJs c m W st := by
    rw [ukcAcc_eq]; rfl
  have e2 : loopJp c m (updateKinematicsCustom m W none none (some qdd)) st = loopJp c m W st := by
    rw [ukcAcc_eq]; rfl
  rw [e1, e2]

/-- **the errors a loop row reports, in terms of the constraint function**: the position error is
    `φ_r`, the velocity error is `G q̇ = φ̇_r + velGap` (the jets are those of `(q, q̇, q̈)`; their
    value and first derivative do not depend on `q̈`) -/
theorem loop_errors_phi (h2 : (2 : α) ≠ 0) (c : Constr α) (hc : c.ctype = .loop) (hs : Shape c)
    (m : ModelS α) (W : WS α) (st : QS α) (qd qdd : VecN α) (hJ : JacHyp m W qd)
    (hP : BodyOK m c.bodyP) (hS : BodyOK m c.bodyS) (PA PB : Pose (D2 α))
    (jA : BodyJet (updateKinematicsCustom m W none none (some qdd)) c.bodyP (NodeKin.ofPose PA))
    (jB : BodyJet (updateKinematicsCustom m W none none (some qdd)) c.bodyS (NodeKin.ofPose PB))
    (r : Nat) (hr : hasRow c r) (G : MatN α) (err errd : VecN α)
    (hG : ∀ col, col < m.qdotSize → G r col = (c.jacobian m W st zeroMat false).2 r col) :
    (c.positionError m W st err false).2 r
      = (loopPhi (framePlacement PA c.XP) (framePlacement PB c.XS) (axisAt c r)).x ∧
    (c.velocityError m W st qd G errd false).2 r
      = (loopPhi (framePlacement PA c.XP) (framePlacement PB c.XS) (axisAt c r)).d1
        + velGap (NodeKin.ofPose (framePlacement PA c.XP)) (NodeKin.ofPose (framePlacement PB c.XS))
            (NodeKin.ofPose PA).omega (NodeKin.ofPose PB).omega (axisAt c r) := by
  refine ⟨?_, ?_⟩
  · rw [← loop_positionError_phi c hc hs m _ st err hP hS PA PB jA jB r hr,
      loop_positionError_get c hc m W st err hP.notFixed hS.notFixed r,
      loop_positionError_get c hc m _ st err hP.notFixed hS.notFixed r, ukc_frameOf, ukc_frameOf]
  · have hk : r - c.row < c.T.length := by have := hr.1; have := hr.2; omega
    rw [loop_velocityError_get c hc, if_pos hr, hs.velC_getD _ hk, if_pos rfl,
      rowDot_congr _ _ _ _ _ hG,
      ← loop_rowDot_ukcAcc c hc m W st qdd zeroMat zeroMat hP.notFixed r hr qd]
    exact loop_velocity_exact h2 c hc m _ st qd zeroMat (jacHyp_ukcAcc hJ qdd) hP hS PA PB jA jB r hr

end
end Rbdl.L08Phys
